//! C16 — transaction extra: sub-field codec, best-effort `try_parse`, raw conversion, first-match accessors.
//!
//! Dump of a field list: fields separated by `,` (`-` = empty list); `P<n>` padding, `K<hex>` tx public key, `N<hex>`
//! nonce, `M<depth>:<hex>` merge mining, `A<k>:<hex of the k keys>` additional keys, `G<hex>` MinerGate blob.
//! Operations:
//!   c16_parse <hex>    -> `<ok|err> <n> <dump> pre=<dump before first failure> | txkey=<hex|none> addkeys=<k>:<hex>|none`
//!   c16_ser <dump>     -> hex of RawExtraField::from(ExtraField(fields)).0   (`err` if the dump is not a value)
//!   c16_subfield <hex> -> `ok <dump>` | `err`   (strict deserialize::<SubField>)
//!   c16_rawparse <hex> -> `<n> <dump>` of RawExtraField::try_parse (the fields, whichever the flag)
//!   c16_okpre <hex>    -> `<ok|err> pre=<dump>`: the flag and the fields before the first failure (what the property constrains
//!                         for arbitrary bytes); compared with the model AND with the independent grammar reader Spec.Extra.parse
use crate::common::*;
use curve25519_dalek::constants::ED25519_BASEPOINT_POINT as G;
use curve25519_dalek::scalar::Scalar;
use monero::blockdata::transaction::{ExtraField, RawExtraField, SubField};
use monero::consensus::encode::{deserialize, serialize, Decodable, VarInt};
use monero::{Hash, PublicKey, TransactionPrefix};

const CAP: u64 = 32 * 1024 * 1024;

fn hx(b: &[u8]) -> String { hex::encode(b) }
fn dump_field(f: &SubField) -> String {
    match f {
        SubField::Padding(n) => format!("P{}", n),
        SubField::TxPublicKey(k) => format!("K{}", hx(k.as_bytes())),
        SubField::Nonce(n) => format!("N{}", hx(n)),
        SubField::MergeMining(d, h) => format!("M{}:{}", d.0, hx(&h.to_bytes())),
        SubField::AdditionalPublickKey(ks) => {
            let mut s = format!("A{}:", ks.len());
            for k in ks { s.push_str(&hx(k.as_bytes())); }
            s
        }
        SubField::MysteriousMinerGate(d) => format!("G{}", hx(d)),
    }
}
fn dump(fs: &[SubField]) -> String {
    if fs.is_empty() { "-".into() } else { fs.iter().map(dump_field).collect::<Vec<_>>().join(",") }
}
fn parse_field(s: &str) -> Option<SubField> {
    let (c, r) = (s.chars().next()?, &s[1..]);
    Some(match c {
        'P' => SubField::Padding(r.parse::<u8>().ok()?),
        'K' => SubField::TxPublicKey(PublicKey::from_slice(&hex::decode(r).ok()?).ok()?),
        'N' => SubField::Nonce(hex::decode(r).ok()?),
        'G' => SubField::MysteriousMinerGate(hex::decode(r).ok()?),
        'M' => {
            let (d, h) = r.split_once(':')?;
            let h = hex::decode(h).ok()?;
            if h.len() != 32 { return None; }
            let mut a = [0u8; 32];
            a.copy_from_slice(&h);
            SubField::MergeMining(VarInt(d.parse::<u64>().ok()?), Hash(a))
        }
        'A' => {
            let (k, h) = r.split_once(':')?;
            let k = k.parse::<usize>().ok()?;
            let h = hex::decode(h).ok()?;
            if h.len() != 32 * k { return None; }
            let mut ks = vec![];
            for c in h.chunks(32) { ks.push(PublicKey::from_slice(c).ok()?); }
            SubField::AdditionalPublickKey(ks)
        }
        _ => return None,
    })
}
fn parse_dump(s: &str) -> Option<Vec<SubField>> {
    if s == "-" { return Some(vec![]); }
    s.split(',').map(parse_field).collect()
}

/// the fields the library's sub-field decoder returns on a cursor up to (not including) the first failure
fn pre_fields(b: &[u8]) -> Vec<SubField> {
    let mut c = std::io::Cursor::new(b);
    let mut v = vec![];
    while (c.position() as usize) < b.len() {
        match SubField::consensus_decode(&mut c) { Ok(f) => v.push(f), Err(_) => break }
    }
    v
}
fn parse_line(b: &[u8]) -> String {
    let raw = RawExtraField(b.to_vec());
    let (flag, f) = match ExtraField::try_parse(&raw) { Ok(f) => ("ok", f), Err(f) => ("err", f) };
    let tk = match f.tx_pubkey() { Some(k) => hx(k.as_bytes()), None => "none".into() };
    let ak = match f.tx_additional_pubkeys() {
        Some(ks) => format!("{}:{}", ks.len(), ks.iter().map(|k| hx(k.as_bytes())).collect::<String>()),
        None => "none".into(),
    };
    format!("{} {} {} pre={} | txkey={} addkeys={}", flag, f.0.len(), dump(&f.0), dump(&pre_fields(b)), tk, ak)
}
fn ser_line(d: &str) -> String {
    match parse_dump(d) { Some(fs) => hex(&RawExtraField::from(ExtraField(fs)).0), None => "err".into() }
}
fn subfield_line(b: &[u8]) -> String {
    match deserialize::<SubField>(b) { Ok(f) => format!("ok {}", dump_field(&f)), Err(_) => "err".into() }
}
pub fn exec(t: &[&str]) -> Option<String> {
    match t {
        ["c16_parse", h] => Some(parse_line(&unhex(h))),
        ["c16_ser", d] => Some(ser_line(d)),
        ["c16_subfield", h] => Some(subfield_line(&unhex(h))),
        ["c16_okpre", h] => { let b = unhex(h); let ok = ExtraField::try_parse(&RawExtraField(b.clone())).is_ok(); Some(format!("{} pre={}", if ok { "ok" } else { "err" }, dump(&pre_fields(&b)))) }
        ["c16_rawparse", h] => { let f = RawExtraField(unhex(h)).try_parse(); Some(format!("{} {}", f.0.len(), dump(&f.0))) }
        // C02 for the sub-field codec: `<bytes> <reported len> <partial: consumed:eq|ne | err> <strict: eq|ne|err>` of the field
        // described by <dump>, partial parse with <suffix> appended
        ["c16_subfield_rt", d, suf] => Some(match parse_field(d) {
            None => "bad-desc".into(),
            Some(f) => {
                let mut b = vec![]; let reported = monero::consensus::encode::Encodable::consensus_encode(&f, &mut b).unwrap();
                let all = [b.clone(), unhex(suf)].concat();
                let partial = match monero::consensus::encode::deserialize_partial::<SubField>(&all) { Ok((g, n)) => format!("{}:{}", n, if g == f { "eq" } else { "ne" }), Err(_) => "err".into() };
                let strict = match deserialize::<SubField>(&b) { Ok(g) => if g == f { "eq" } else { "ne" }, Err(_) => "err" };
                format!("{} {} {} {}", hex(&b), reported, partial, strict)
            }
        }),
        _ => None,
    }
}

// ---------------------------------------------------------------------------------------------------------------
// generators

/// the harness's own description of a field: keys are raw bytes (so invalid ones can be written)
#[derive(Clone, Debug)]
enum GF { Pad(usize), Key([u8; 32]), Nonce(Vec<u8>), MM(u64, [u8; 32], Option<u8>), Add(Vec<[u8; 32]>), Gate(Vec<u8>) }

fn varint(mut n: u64, out: &mut Vec<u8>) {
    loop { let x = (n & 0x7f) as u8; n >>= 7; if n == 0 { out.push(x); break } else { out.push(x | 0x80) } }
}
fn varint_len(n: u64) -> usize { let mut v = vec![]; varint(n, &mut v); v.len() }
/// by-the-book layout, written here independently of the library's encoder
fn layout(f: &GF, out: &mut Vec<u8>) {
    match f {
        GF::Pad(n) => { out.push(0); out.extend(std::iter::repeat(0u8).take(*n)); }
        GF::Key(k) => { out.push(1); out.extend_from_slice(k); }
        GF::Nonce(n) => { out.push(2); varint(n.len() as u64, out); out.extend_from_slice(n); }
        GF::MM(d, h, size) => { out.push(3); out.push(size.unwrap_or((32 + varint_len(*d)) as u8)); varint(*d, out); out.extend_from_slice(h); }
        GF::Add(ks) => { out.push(4); varint(ks.len() as u64, out); for k in ks { out.extend_from_slice(k); } }
        GF::Gate(d) => { out.push(0xde); varint(d.len() as u64, out); out.extend_from_slice(d); }
    }
}
fn layout_all(fs: &[GF]) -> Vec<u8> { let mut v = vec![]; for f in fs { layout(f, &mut v); } v }
fn to_sub(f: &GF) -> Option<SubField> {
    Some(match f {
        GF::Pad(n) => SubField::Padding(u8::try_from(*n).ok()?),
        GF::Key(k) => SubField::TxPublicKey(PublicKey::from_slice(k).ok()?),
        GF::Nonce(n) => SubField::Nonce(n.clone()),
        GF::MM(d, h, None) => SubField::MergeMining(VarInt(*d), Hash(*h)),
        GF::MM(_, _, Some(_)) => return None,
        GF::Add(ks) => SubField::AdditionalPublickKey(ks.iter().map(|k| PublicKey::from_slice(k).ok()).collect::<Option<Vec<_>>>()?),
        GF::Gate(d) => SubField::MysteriousMinerGate(d.clone()),
    })
}

struct Keys { good: Vec<[u8; 32]>, bad: Vec<[u8; 32]>, odd: Vec<[u8; 32]> }
impl Keys {
    fn new(rng: &mut Rng, n: usize) -> Keys {
        let mut good = vec![];
        for _ in 0..n { good.push((G * Scalar::from_bytes_mod_order(rng.arr32())).compress().to_bytes()); }
        // special encodings: small-order points, y = p-1, non-canonical y (y >= p), "negative zero", all ones
        let mut odd: Vec<[u8; 32]> = vec![];
        let mut one = [0u8; 32]; one[0] = 1; odd.push(one);                       // identity
        let mut nz = one; nz[31] = 0x80; odd.push(nz);                            // x = 0 with sign bit
        odd.push([0u8; 32]);                                                      // y = 0 (order 4)
        let mut z80 = [0u8; 32]; z80[31] = 0x80; odd.push(z80);                   // y = 0, other sign
        let mut m1 = [0xffu8; 32]; m1[0] = 0xec; m1[31] = 0x7f; odd.push(m1);     // y = p-1 (order 2)
        let mut pp = [0xffu8; 32]; pp[0] = 0xed; pp[31] = 0x7f; odd.push(pp);     // y = p  (non canonical 0)
        let mut p1 = [0xffu8; 32]; p1[0] = 0xee; p1[31] = 0x7f; odd.push(p1);     // y = p+1 (non canonical 1)
        odd.push([0xffu8; 32]);
        let o8: [u8; 32] = [0x26, 0xe8, 0x95, 0x8f, 0xc2, 0xb2, 0x27, 0xb0, 0x45, 0xc3, 0xf4, 0x89, 0xf2, 0xef, 0x98, 0xf0, 0xd5, 0xdf, 0xac, 0x05, 0xd3, 0xc6, 0x33, 0x39, 0xb1, 0x38, 0x02, 0x88, 0x6d, 0x53, 0xfc, 0x05];
        odd.push(o8);                                                             // order 8
        let mut o8b = o8; o8b[31] |= 0x80; odd.push(o8b);
        // random strings that the library rejects
        let mut bad = vec![];
        while bad.len() < n { let a = rng.arr32(); if PublicKey::from_slice(&a).is_err() { bad.push(a); } }
        Keys { good, bad, odd }
    }
    fn valid(&self, rng: &mut Rng) -> [u8; 32] { *rng.pick(&self.good) }
    /// mostly valid, sometimes a rejected or special encoding
    fn any(&self, rng: &mut Rng) -> [u8; 32] {
        match rng.below(10) { 0 => *rng.pick(&self.bad), 1 => *rng.pick(&self.odd), 2 => rng.arr32(), _ => *rng.pick(&self.good) }
    }
}

const LENS: [usize; 14] = [0, 1, 2, 8, 32, 126, 127, 128, 129, 255, 256, 300, 16383, 16384];
fn blob(rng: &mut Rng, big: bool) -> Vec<u8> {
    let n = if big && rng.chance(1, 12) { *rng.pick(&[16382usize, 16383, 16384, 16385]) } else if rng.chance(1, 2) { *rng.pick(&LENS[..12]) } else { rng.below(40) as usize };
    let mut v = rng.bytes(n);
    if rng.chance(1, 4) { for x in v.iter_mut() { if rng.chance(1, 3) { *x = *rng.pick(&[0u8, 1, 2, 3, 4, 0xde, 0x80]); } } }
    v
}
fn depth(rng: &mut Rng) -> u64 {
    match rng.below(4) {
        0 => { let k = rng.range(1, 9) as u32; let p = 1u64 << (7 * k); *rng.pick(&[p - 1, p, p + 1]) }
        1 => *rng.pick(&[0u64, 1, 127, 128, u64::MAX, u64::MAX - 1, 1 << 63]),
        _ => rng.u64_boundary(),
    }
}
/// a well-formed non-padding field (valid keys only)
fn wf_field(rng: &mut Rng, keys: &Keys, big: bool) -> GF {
    match rng.below(6) {
        0 | 1 => GF::Key(keys.valid(rng)),
        2 => GF::Nonce(blob(rng, big)),
        3 => GF::MM(depth(rng), rng.arr32(), None),
        4 => { let n = if rng.chance(1, 20) { *rng.pick(&[127usize, 128, 129]) } else { rng.below(6) as usize }; GF::Add((0..n).map(|_| keys.valid(rng)).collect()) }
        _ => GF::Gate(blob(rng, big)),
    }
}
/// any field: invalid keys, foreign size bytes, short paddings anywhere
fn any_field(rng: &mut Rng, keys: &Keys) -> GF {
    match rng.below(8) {
        0 => GF::Key(keys.any(rng)),
        1 => GF::Nonce(blob(rng, false)),
        2 => GF::MM(depth(rng), rng.arr32(), if rng.chance(1, 2) { Some(rng.byte()) } else { None }),
        3 => { let n = rng.below(5) as usize; GF::Add((0..n).map(|_| keys.any(rng)).collect()) }
        4 => GF::Gate(blob(rng, false)),
        5 => GF::Pad(*rng.pick(&[0usize, 1, 2, 100, 253, 254, 255, 256, 257, 300, 509, 510, 511, 512])),
        _ => wf_field(rng, keys, false),
    }
}

/// C02 on the TYPED extra field as a whole: the reported length of `serialize(ExtraField(fields))` is the number of bytes written (also
/// through a short-writing sink), the bytes parse strictly as a `RawExtraField` whose sub-fields parse back to the same typed value, and
/// `RawExtraField::from` gives the same blob (round trip and length only: the byte LAYOUT is C03's / C16's clause, not C02's). Field sizes sweep every length 0..=255 for nonces / miner-gate blobs and the count boundaries 63/64/127/128/129 of additional keys
/// (where a length computed separately from the bytes written goes wrong), alone and between other fields.
pub fn run_extrafield_enc(o: &mut Out, rng: &mut Rng, n: usize) {
    use monero::consensus::encode::{deserialize, serialize, Encodable};
    let keys = Keys::new(rng, 12);
    let mut cases: Vec<Vec<GF>> = vec![vec![]];
    for len in 0..=255usize { cases.push(vec![GF::Nonce(rng.bytes(len))]); if len % 3 == 0 { cases.push(vec![GF::Key(keys.valid(rng)), GF::Gate(rng.bytes(len))]); } }
    for len in [256usize, 8191, 8192, 16383, 16384, 16385] { cases.push(vec![GF::Gate(rng.bytes(len)), GF::Key(keys.valid(rng))]); }
    for cnt in [0usize, 1, 63, 64, 65, 127, 128, 129, 255, 256] { cases.push(vec![GF::Key(keys.valid(rng)), GF::Add((0..cnt).map(|_| keys.valid(rng)).collect())]); }
    for d in [0u64, 127, 128, 16383, 16384, 1 << 56, u64::MAX] { cases.push(vec![GF::MM(d, rng.arr32(), None), GF::Nonce(rng.bytes(64))]); }
    for _ in 0..n { let k = rng.range(1, 5) as usize; cases.push((0..k).map(|i| wf_field(rng, &keys, i == 0)).collect()); }
    for fs in cases {
        let subs: Option<Vec<SubField>> = fs.iter().map(to_sub).collect(); let subs = match subs { Some(x) => x, None => continue };
        let ex = ExtraField(subs); let id = format!("extrafield [{}]", fs.iter().map(|f| match f { GF::Pad(k) => format!("pad{}", k), GF::Key(_) => "key".into(), GF::Nonce(v) => format!("nonce{}", v.len()), GF::MM(d, _, _) => format!("mm{}", d), GF::Add(v) => format!("add{}", v.len()), GF::Gate(v) => format!("gate{}", v.len()) }).collect::<Vec<_>>().join(" "));
        let mut w = vec![]; let len = ex.consensus_encode(&mut w).unwrap();
        o.direct(len == w.len(), "C02: ExtraField::consensus_encode reports the number of bytes written", id.clone(), len.to_string(), w.len().to_string());
        let (cw, cl) = crate::common::encode_chunked(&ex);
        o.direct(cw == w && cl == Some(w.len()), "C02: ExtraField::consensus_encode into a short-writing io::Write gives the same bytes and count", id.clone(), format!("{} bytes, reported {:?}", cw.len(), cl), format!("{} bytes", w.len()));
        // round trip: the bytes parse strictly as the raw extra blob, whose sub-fields parse back to the typed value
        let back = deserialize::<RawExtraField>(&w);
        o.direct(back.is_ok(), "C02: serialize(ExtraField) parses strictly as a RawExtraField (length prefix == bytes that follow)", id.clone(), format!("{:?}", back.as_ref().map(|r| r.0.len())), "Ok".into());
        if let Ok(raw) = &back {
            let again = ExtraField::try_parse(raw);
            o.direct(again.as_ref() == Ok(&ex), "C02: try_parse(deserialize(serialize(ExtraField))) == the ExtraField", id.clone(), crate::common::trunc(&format!("{:?}", again), 200), "Ok(the value)".into());
            let conv = crate::common::guarded(|| RawExtraField::from(ex.clone()));
            o.direct(conv.as_ref().map(|r| r == raw).unwrap_or(false), "C02: RawExtraField::from(ExtraField) == the parsed-back blob", id.clone(), format!("{:?}", conv.as_ref().map(|r| r.0.len())), format!("Ok({})", raw.0.len())); }
        o.direct(serialize(&ex) == w, "C02: serialize == consensus_encode", id, "differs".into(), "same".into());
        o.stat("extrafield_enc");
    }
}

/// C02: typed extra fields holding the given (accepted) public keys as transaction key and as additional keys round-trip through
/// `serialize` -> `RawExtraField` -> `try_parse`
pub fn run_extrafield_keys(o: &mut Out, pks: &[PublicKey]) {
    use monero::consensus::encode::{deserialize, serialize};
    for (i, k) in pks.iter().enumerate() {
        let ex = ExtraField(vec![SubField::TxPublicKey(*k), SubField::AdditionalPublickKey(vec![pks[(i + 1) % pks.len()], *k])]);
        let id = format!("extrafield keys {}", hex(&k.to_bytes()));
        let back = deserialize::<RawExtraField>(&serialize(&ex)).map(|raw| ExtraField::try_parse(&raw));
        o.direct(matches!(&back, Ok(Ok(p)) if p == &ex), "C02: try_parse(deserialize(serialize(ExtraField with accepted keys))) == the ExtraField", id, crate::common::trunc(&format!("{:?}", back), 200), "Ok(Ok(the value))".into());
        o.stat("extrafield_keys");
    }
}

/// C02 on sub-fields: every kind at its boundary sizes (padding 0..=255 incl. the documented maximum, merge-mining depths
/// of every varint width, nonce / blob lengths around 127/128 and 16383/16384, 0..129 additional keys), alone and followed
/// by a suffix. Direct checks: reported length = bytes written; strict parse returns the field; partial parse returns the
/// field and consumes exactly the encoding (for paddings shorter than 255 only when nothing or no zero byte follows — the
/// decoder is greedy, C16_padding_greedy).
pub fn run_subfield_rt(o: &mut Out, rng: &mut Rng, n: usize) {
    let keys = Keys::new(rng, 12);
    for it in 0..n {
        let f: GF = match it % 8 {
            0 => GF::Pad(*rng.pick(&[0usize, 1, 2, 100, 126, 127, 128, 253, 254, 255])),
            1 => GF::MM(depth(rng), rng.arr32(), None),
            2 => GF::MM(*rng.pick(&[127u64, 128, 129, 16383, 16384, u64::MAX]), rng.arr32(), None),
            _ => wf_field(rng, &keys, it % 16 == 7),
        };
        let sf = match to_sub(&f) { Some(x) => x, None => continue };
        let d = dump_field(&sf);
        let is_pad = matches!(sf, SubField::Padding(_));
        let short_pad = matches!(sf, SubField::Padding(k) if k < 255);
        let suffix: Vec<u8> = match rng.below(4) { 0 => vec![], 1 => vec![1], 2 => { let k = rng.range(1, 40) as usize; let mut v = rng.bytes(k); if short_pad { v[0] |= 1; } v }, _ => if short_pad { vec![] } else { vec![0, 0, 7] } };
        o.stat(&format!("subfield_rt.{}{}", &d[..1], if suffix.is_empty() { "" } else { "+suffix" }));
        let got = o.op(format!("c16_subfield_rt {} {}", d, hex(&suffix)), true);
        let p: Vec<&str> = got.split(' ').collect();
        if p.len() != 4 { o.direct(false, "c02: sub-field round trip produced no result", d.clone(), got.clone(), "4 tokens".into()); continue; }
        let len = unhex(p[0]).len();
        o.direct(p[1] == len.to_string(), "c02: SubField::consensus_encode reports the number of bytes written", d.clone(), p[1].into(), len.to_string());
        o.direct(p[3] == "eq", "c02: deserialize(serialize(sub-field)) == sub-field", d.clone(), p[3].into(), "eq".into());
        // a short padding followed by a non-zero byte is an error by design (greedy padding); everything else consumes exactly its encoding
        let want = if short_pad && !suffix.is_empty() { "err".to_string() } else { format!("{}:eq", len) };
        o.direct(p[2] == want, "c02: deserialize_partial(serialize(sub-field) ++ suffix) returns the sub-field and the exact byte count", format!("{} suffix={}", d, hex(&suffix)), p[2].into(), want);
        let _ = is_pad;
    }
}

fn first_key(fs: &[SubField]) -> Option<PublicKey> { for f in fs { if let SubField::TxPublicKey(k) = f { return Some(*k); } } None }
fn first_add(fs: &[SubField]) -> Option<Vec<PublicKey>> { for f in fs { if let SubField::AdditionalPublickKey(k) = f { return Some(k.clone()); } } None }

fn prefix_check(o: &mut Out, b: &[u8]) {
    // the enclosing TransactionPrefix decodes whatever the extra contains, and returns it unchanged
    let p = TransactionPrefix { version: VarInt(2), unlock_time: VarInt(0), inputs: vec![], outputs: vec![], extra: RawExtraField(b.to_vec()) };
    let back = deserialize::<TransactionPrefix>(&serialize(&p));
    let ok = matches!(&back, Ok(q) if q.extra.0 == b && *q == p);
    o.direct(ok, "c16: TransactionPrefix decode does not look inside extra", hex(b), format!("{:?}", back.map(|q| hex(&q.extra.0)).map_err(|e| e.to_string())), hex(b));
}

/// the library's encoding of `sf` with the merge-mining size byte (which the decoder reads and ignores) replaced by the
/// byte found at that place of the input `b` when the field starts at offset `at`
fn enc_patched(sf: &SubField, b: &[u8], at: usize) -> Vec<u8> {
    let mut w = serialize(sf);
    if matches!(sf, SubField::MergeMining(..)) && w.len() > 1 && at + 1 < b.len() { w[1] = b[at + 1]; }
    w
}
/// concatenation of the patched encodings of `fs` laid out from offset 0 of `b`
fn reencode_patched(fs: &[SubField], b: &[u8]) -> Vec<u8> {
    let mut re = Vec::new();
    for sf in fs { let w = enc_patched(sf, b, re.len()); re.extend(w); }
    re
}
/// every field of `fs`, in order, re-encodes (patched) to a slice of `b` starting at or after the end of the previous one;
/// returns the description of the first field for which no such slice exists
fn salvaged_are_slices(fs: &[SubField], b: &[u8], from: usize) -> Result<(), String> {
    let mut pos = from;
    for sf in fs {
        let len = serialize(sf).len();
        let mut found = None;
        let mut at = pos;
        while at + len <= b.len() { if b[at..at + len] == enc_patched(sf, b, at)[..] { found = Some(at); break; } at += 1; }
        match found { Some(a) => pos = a + len, None => return Err(format!("{} not found at offset >= {}", trunc(&dump_field(sf), 120), pos)) }
    }
    Ok(())
}

/// a parse case on arbitrary bytes, with the intrinsic checks that hold for every input
fn parse_case(o: &mut Out, b: &[u8], fam: &str) -> String {
    let r = o.op(format!("c16_parse {}", hex(b)), false);
    let err = r.starts_with("err");
    let raw = RawExtraField(b.to_vec());
    let (f, isok) = match ExtraField::try_parse(&raw) { Ok(f) => (f, true), Err(f) => (f, false) };
    let pre = pre_fields(b);
    o.direct(f.0.len() >= pre.len() && f.0[..pre.len()] == pre[..] && (!isok || pre.len() == f.0.len()),
        "c16: fields before the first failure are a prefix of the result (all of it when Ok)", hex(b), dump(&f.0), dump(&pre));
    o.direct(raw.try_parse() == f, "c16: RawExtraField::try_parse == fields of ExtraField::try_parse", hex(b), dump(&raw.try_parse().0), dump(&f.0));
    o.direct(f.tx_pubkey() == first_key(&f.0) && f.tx_additional_pubkeys() == first_add(&f.0),
        "c16: accessors = first matching sub-field", hex(b), format!("{:?} {:?}", f.tx_pubkey(), f.tx_additional_pubkeys().map(|v| v.len())), "first match".into());
    // idempotence (C16_reparse): whatever try_parse returned, Ok or Err (salvaged list included), converts back to raw bytes
    // and parses Ok to exactly the same sub-fields
    if b.len() <= 8192 {
        let f2 = f.clone();
        let again = guarded(move || ExtraField::try_parse(&RawExtraField::from(f2)));
        o.direct(again == Ok(Ok(f.clone())), "c16: try_parse is idempotent (try_parse(raw(result)) == Ok(result), for Ok and Err results)", format!("c16_parse {}", hex(b)),
            trunc(&format!("{:?}", again.as_ref().map(|r| r.as_ref().map(|g| dump(&g.0)).map_err(|g| dump(&g.0))).map_err(|e| trunc(e, 80))), 400), trunc(&format!("Ok({})", dump(&f.0)), 400));
    }
    // "Ok only if re-parsing needs no resynchronisation": an Ok result accounts for every input byte - the sub-fields
    // re-encode to exactly the input (up to the merge-mining size byte, which the decoder reads and ignores)
    if isok { let mut re = Vec::new(); for sf in &f.0 { re.extend(serialize(sf)); }
        let has_mm = f.0.iter().any(|sf| matches!(sf, SubField::MergeMining(..)));
        o.direct(re.len() == b.len() && (has_mm || re[..] == b[..]), "c16: try_parse(e) = Ok(fs) => fs re-encode to e (no byte skipped or invented)", format!("c16_parse {}", hex(b)), hex(&re), hex(b));
        // byte exact also in the presence of merge-mining fields: only the size byte of each of them is taken from the input (C16_ok_exact)
        let rp = reencode_patched(&f.0, b);
        o.direct(rp[..] == b[..], "c16: try_parse(e) = Ok(fs) => fs re-encode to e byte for byte, merge-mining size bytes apart", format!("c16_parse {}", hex(b)), trunc(&hex(&rp), 400), trunc(&hex(b), 400)); }
    // Ok or Err: the fields before the first failure re-encode to an initial part of the input (C16_pre_semantics) ...
    let rp = reencode_patched(&pre, b);
    o.direct(rp.len() <= b.len() && rp[..] == b[..rp.len()], "c16: the sub-fields decoded before the first failure re-encode to a byte prefix of the input", format!("c16_parse {}", hex(b)), trunc(&hex(&rp), 400), trunc(&hex(b), 400));
    // ... and every sub-field returned after it was decoded from the input: it re-encodes to a slice of it, in order, without overlap
    if !isok && b.len() <= 8192 && f.0.len() >= pre.len() {
        let r = salvaged_are_slices(&f.0[pre.len()..], b, rp.len().min(b.len()));
        o.direct(r.is_ok(), "c16: every sub-field returned after a failure re-encodes to a slice of the input (in order, no overlap)", format!("c16_parse {}", hex(b)), r.clone().err().unwrap_or_default(), "a slice of the input".into());
    }
    // the sub-field decoder is generic in the reader: through a reader that returns one byte per call it decodes the same
    // value from the same number of bytes as from a slice
    if !b.is_empty() && b.len() <= 600 {
        let a = monero::consensus::encode::deserialize_partial::<SubField>(b).ok();
        let c = decode_chunked::<SubField>(b);
        o.direct(a == c, "c16: SubField decode through a one-byte-per-call reader == decode from a slice", format!("c16_parse {}", hex(b)), format!("{:?}", c.map(|(g, n)| (dump_field(&g), n))), format!("{:?}", a.map(|(g, n)| (dump_field(&g), n))));
    }
    if b.len() <= 4096 { prefix_check(o, b); }
    // relation C for parsing: flag and pre against the independent grammar reader (every 5th case, and every small fixed one)
    if o.ops.len() % 5 == 0 || fam.contains("total-len") || fam.contains("nonce-25x") || fam.contains("mm-size") || fam == "len2" || fam.starts_with("wf.mm") || fam.contains("special-key") || fam.contains("long") || fam.contains("64k") || fam == "huge-len" {
        o.op(format!("c16_okpre {}", hex(b)), !b.is_empty()); o.stat(&format!("okpre.{}", if isok { "ok" } else { "err" }));
    }
    let nt = !b.is_empty() && (!f.0.is_empty() || b.len() >= 2);
    if nt { o.nontrivial.insert(format!("c16_parse {}", hex(b))); }
    o.stat(&format!("parse.{}.{}", fam, if err { "err" } else { "ok" }));
    o.stat(&format!("parse.nfields.{}", f.0.len().min(10)));
    r
}

/// a well-formed sequence: all the equalities of the property, plus the three operation kinds
fn wf_case(o: &mut Out, fs: &[GF], fam: &str, subfields: bool) {
    let subs: Vec<SubField> = fs.iter().map(|f| to_sub(f).expect("wf")).collect();
    let bytes = layout_all(fs);
    let extra = ExtraField(subs.clone());
    let raw = RawExtraField::from(extra.clone());
    o.direct(raw.0 == bytes, "c16: raw(f) == by-the-book layout", dump(&subs), hex(&raw.0), hex(&bytes));
    let back = ExtraField::try_parse(&raw);
    o.direct(back == Ok(extra.clone()), "c16: try_parse(raw(f)) == Ok(f)", dump(&subs), format!("{:?}", back.as_ref().map(|f| dump(&f.0)).map_err(|f| dump(&f.0))), format!("Ok({})", dump(&subs)));
    o.direct(extra.tx_pubkey() == first_key(&subs) && extra.tx_additional_pubkeys() == first_add(&subs),
        "c16: accessors = first matching sub-field", dump(&subs), format!("{:?}", extra.tx_pubkey()), format!("{:?}", first_key(&subs)));
    // serialize(ExtraField) is the length-prefixed buffer
    let mut want = vec![]; varint(bytes.len() as u64, &mut want); want.extend_from_slice(&bytes);
    o.direct(serialize(&extra) == want, "c16: serialize(ExtraField) == varint(len) ++ layout", dump(&subs), hex(&serialize(&extra)), hex(&want));
    let mut w = vec![]; let reported = monero::consensus::encode::Encodable::consensus_encode(&extra, &mut w).ok();
    o.direct(reported == Some(w.len()) && w == want, "c16: ExtraField::consensus_encode reports the number of bytes written", dump(&subs), format!("{:?}", reported), w.len().to_string());
    for s in &subs {
        let w = serialize(s);
        let b = deserialize::<SubField>(&w);
        o.direct(matches!(&b, Ok(x) if x == s), "c16: strict parse of one encoded sub-field returns it", dump_field(s), format!("{:?}", b.as_ref().map(dump_field).map_err(|e| e.to_string())), dump_field(s));
        if subfields { o.op(format!("c16_subfield {}", hex(&w)), true); o.stat("subfield.wf"); }
    }
    o.op(format!("c16_ser {}", dump(&subs)), true);
    if subfields { o.op(format!("c16_rawparse {}", hex(&bytes)), true); o.stat("rawparse.wf"); }
    o.stat(&format!("wf.{}", fam));
    parse_case(o, &bytes, &format!("wf.{}", fam));
}

/// a sequence of constructible values that need not be well formed (short padding anywhere): the library's encoder against the
/// model and the by-the-book spec (`c16_ser`), against the harness's own layout, and the parse of what it wrote
fn nonwf_ser_case(o: &mut Out, fs: &[GF], fam: &str) {
    let subs: Vec<SubField> = match fs.iter().map(to_sub).collect::<Option<Vec<_>>>() { Some(v) => v, None => return };
    let r = o.op(format!("c16_ser {}", dump(&subs)), true);
    let bytes = layout_all(fs);
    o.direct(r == hex(&bytes), "c16: raw(f) == by-the-book layout (any constructible sequence)", dump(&subs), trunc(&r, 400), trunc(&hex(&bytes), 400));
    o.stat(&format!("ser.{}", fam));
    if r != "err" && !r.starts_with("PANIC") { parse_case(o, &unhex(&r), fam); o.op(format!("c16_rawparse {}", r), true); o.stat("rawparse.nonwf"); }
}

fn mutate(rng: &mut Rng, b: &[u8], kind: u64) -> Vec<u8> {
    let mut bb = b.to_vec();
    let n = bb.len() as u64;
    let tags = [0u8, 1, 2, 3, 4, 0xde];
    match kind {
        0 => { if n > 0 { let i = rng.below(n) as usize; bb[i] ^= if rng.chance(1, 2) { 1 << rng.below(8) } else { rng.byte() | 1 }; } }
        1 => { if n > 0 { let i = rng.below(n) as usize; bb.truncate(i); } }
        2 => { let i = rng.below(n + 1) as usize; bb.insert(i, *rng.pick(&[0u8, 1, 2, 3, 4, 0xde, 0x80, 0xff, 0x7f])); }
        3 => { if n > 0 { let i = rng.below(n) as usize; bb[i] = *rng.pick(&tags); } }
        4 => { let k = rng.range(1, 4) as usize; if rng.chance(1, 2) { bb.extend(std::iter::repeat(0u8).take(k)); } else { bb.extend(rng.bytes(k)); } }
        _ => { // a huge declared length in front of / instead of a field
            let t = *rng.pick(&[2u8, 4, 0xde]);
            let c = huge(rng);
            let mut ins = vec![t]; ins.extend_from_slice(&c);
            let i = if rng.chance(1, 2) { 0 } else { rng.below(n + 1) as usize };
            let tail = bb.split_off(i); bb.extend(ins); bb.extend(tail);
        }
    }
    bb
}
/// varint bytes of a count around the allocation caps, or an overlong / overflowing varint
fn huge(rng: &mut Rng) -> Vec<u8> {
    let mut v = vec![];
    match rng.below(8) {
        0 => varint(CAP - 1 + rng.below(3), &mut v),
        1 => varint(CAP / 32 - 1 + rng.below(3), &mut v),
        2 => varint(*rng.pick(&[1u64 << 20, (1 << 20) + 1, 1 << 31, 1 << 32, 1 << 40, (1 << 59) - 1, 1 << 59, (1 << 59) + 1, u64::MAX / 32, u64::MAX / 32 + 1, u64::MAX]), &mut v),
        3 => { v = vec![0xff; 9]; v.push(*rng.pick(&[0x01u8, 0x02, 0x7f])); }            // fits / overflows u64
        4 => { v = vec![0x80; rng.range(1, 10) as usize]; v.push(*rng.pick(&[0u8, 1])); }   // zero-byte rule
        5 => { v = vec![0xff; rng.range(10, 12) as usize]; v.push(1); }                     // too long
        6 => varint(CAP / 32 * 31 + rng.below(64), &mut v),
        _ => varint(rng.u64_boundary(), &mut v),
    }
    v
}

pub fn run(o: &mut Out, tier: &str, seed: u64) {
    let mut rng = Rng::new(seed);
    let thorough = tier == "thorough";
    let keys = Keys::new(&mut rng, if thorough { 48 } else { 24 });
    let scale = |q: usize, t: usize| if thorough { t } else { q };
    let mut valid_raws: Vec<Vec<u8>> = vec![];

    // (0) fixed small cases
    parse_case(o, &[], "fixed");
    for t in 0..=255u8 { parse_case(o, &[t], "len1"); }
    for t in [0u8, 1, 2, 3, 4, 0xde, 5, 0xff] { for x in [0u8, 1, 2, 0x20, 0x21, 0x7f, 0x80, 0xff] { parse_case(o, &[t, x], "len2"); o.op(format!("c16_subfield {}", hex(&[t, x])), true); } }
    o.op("c16_subfield -".into(), false);
    o.op("c16_ser -".into(), true);

    // (1) every padding size 0..=255 in last position, after 0..2 other fields; alone; after Padding(255)
    for rep in 0..scale(1, 4) {
        for n in 0..=255usize {
            let k = if rep == 0 { n % 3 } else { rng.below(4) as usize };
            let mut fs: Vec<GF> = (0..k).map(|_| if rng.chance(1, 6) { GF::Pad(255) } else { wf_field(&mut rng, &keys, false) }).collect();
            fs.push(GF::Pad(n));
            wf_case(o, &fs, "pad-last", n % 16 == 0 || n >= 250);
            valid_raws.push(layout_all(&fs));
        }
    }
    // strict single-field padding: 0..=255 zero bytes give Padding(n) (greedy), 256 leave one byte over
    for n in 0..=258usize { let mut b = vec![0u8]; b.extend(std::iter::repeat(0u8).take(n)); o.op(format!("c16_subfield {}", hex(&b)), true); o.stat("subfield.pad"); }
    // (2) Padding(255) in every position of a sequence
    for _ in 0..scale(20, 150) {
        let k = rng.range(1, 5) as usize;
        let pos = rng.below(k as u64) as usize;
        let mut fs: Vec<GF> = (0..k).map(|_| wf_field(&mut rng, &keys, false)).collect();
        fs[pos] = GF::Pad(255);
        if rng.chance(1, 3) { fs.insert(pos, GF::Pad(255)); }
        wf_case(o, &fs, "pad255-anywhere", true);
        valid_raws.push(layout_all(&fs));
    }
    // (3) nonce / blob lengths across the varint boundaries
    for &n in &[0usize, 1, 126, 127, 128, 129, 255, 256, 16382, 16383, 16384, 16385] {
        for which in 0..2 {
            let d = rng.bytes(n);
            let f = if which == 0 { GF::Nonce(d) } else { GF::Gate(d) };
            wf_case(o, &[f.clone()], "blob-len", true);
            wf_case(o, &[GF::Key(keys.valid(&mut rng)), f.clone(), GF::Key(keys.valid(&mut rng))], "blob-len", false);
            if n < 1000 { valid_raws.push(layout_all(&[f])); }
        }
    }
    // (4) 0..k additional keys (valid), and key lists containing rejected / special encodings
    for k in (0..=9usize).chain([127, 128, 129]) {
        let ks: Vec<[u8; 32]> = (0..k).map(|_| keys.valid(&mut rng)).collect();
        wf_case(o, &[GF::Add(ks.clone())], "addkeys", true);
        wf_case(o, &[GF::Add(ks.clone()), GF::Key(keys.valid(&mut rng)), GF::Add(vec![keys.valid(&mut rng)])], "addkeys", false);
        if k < 10 { valid_raws.push(layout_all(&[GF::Key(keys.valid(&mut rng)), GF::Add(ks)])); }
    }
    for k in keys.odd.clone().iter().chain(keys.bad.iter().take(6)).chain(keys.good.iter().take(3)) {
        let mut b = vec![1u8]; b.extend_from_slice(k);
        parse_case(o, &b, "special-key");
        o.op(format!("c16_subfield {}", hex(&b)), true);
        o.op(format!("c16_ser K{}", hx(k)), true);
        let g = keys.valid(&mut rng);
        let b2 = layout_all(&[GF::Add(vec![g, *k, g]), GF::Key(g)]);
        parse_case(o, &b2, "special-key");
    }
    for _ in 0..scale(150, 1500) {
        let k = rng.range(1, 5) as usize;
        let f = GF::Add((0..k).map(|_| keys.any(&mut rng)).collect());
        let mut fs = vec![f];
        if rng.chance(1, 2) { fs.insert(0, GF::Key(keys.any(&mut rng))); }
        if rng.chance(1, 2) { fs.push(wf_field(&mut rng, &keys, false)); }
        parse_case(o, &layout_all(&fs), "keys-any");
    }
    // (5) merge-mining depths across the varint widths (size byte 33..42), and foreign size bytes on decode
    let mut depths: Vec<u64> = vec![0, 1, 127, 128, u64::MAX, u64::MAX - 1, 1 << 63, (1 << 63) - 1];
    for k in 1..=9u32 { let p = 1u64 << (7 * k); depths.extend_from_slice(&[p - 1, p, p + 1]); }
    for _ in 0..scale(20, 200) { depths.push(rng.u64_boundary()); }
    for &d in &depths {
        let h = rng.arr32();
        wf_case(o, &[GF::MM(d, h, None)], "mm-depth", true);
        wf_case(o, &[GF::MM(d, h, None), GF::Key(keys.valid(&mut rng))], "mm-depth", false);
        let sz = rng.byte();
        parse_case(o, &layout_all(&[GF::MM(d, h, Some(sz)), GF::Key(keys.valid(&mut rng))]), "mm-foreign-size");
        valid_raws.push(layout_all(&[GF::MM(d, h, None)]));
    }
    // (6) random well-formed sequences of 0..8 fields, and nine-field sequences
    for i in 0..scale(500, 7000) {
        let k = if i % 5 == 0 { 9 } else { rng.below(9) as usize };
        let mut fs: Vec<GF> = (0..k).map(|_| if rng.chance(1, 10) { GF::Pad(255) } else { wf_field(&mut rng, &keys, i % 50 == 0) }).collect();
        if rng.chance(1, 3) { if k == 9 { fs[8] = GF::Pad(rng.below(256) as usize); } else { fs.push(GF::Pad(rng.below(256) as usize)); } }
        wf_case(o, &fs, if k == 9 { "nine-fields" } else { "random-seq" }, i % 4 == 0);
        let b = layout_all(&fs);
        if b.len() < 2000 { valid_raws.push(b); }
    }
    // (7) sequences that are not well formed: short padding in the middle, padding > 255, invalid keys, foreign sizes
    for _ in 0..scale(700, 8000) {
        let k = rng.range(1, 6) as usize;
        let fs: Vec<GF> = (0..k).map(|_| any_field(&mut rng, &keys)).collect();
        parse_case(o, &layout_all(&fs), "non-wf-seq");
        nonwf_ser_case(o, &fs, "non-wf-ser");
    }
    // (7b) the encoder on constructible values that are NOT well-formed sequences: short paddings in front of other fields
    // (zero bytes merge: P n, P m parses back as P (n+m+1)), runs of paddings, short padding before a key / a nonce
    for i in 0..scale(120, 1500) {
        let n = *rng.pick(&[0usize, 1, 2, 100, 126, 127, 253, 254]);
        let mut fs: Vec<GF> = vec![GF::Pad(n)];
        match i % 4 {
            0 => fs.push(GF::Pad(*rng.pick(&[0usize, 1, 2, 100, 253, 254, 255]))),
            1 => fs.push(wf_field(&mut rng, &keys, false)),
            2 => { fs.insert(0, wf_field(&mut rng, &keys, false)); fs.push(GF::Pad(rng.below(256) as usize)); fs.push(wf_field(&mut rng, &keys, false)); }
            _ => { let k = rng.range(2, 5); for _ in 0..k { fs.push(GF::Pad(rng.below(130) as usize)); } }
        }
        nonwf_ser_case(o, &fs, "short-pad-first");
    }
    // (7c) long key lists with the data present (two-byte counts), and raw extras above 64 KiB
    let big_keys: Vec<usize> = if thorough { vec![200, 1000, 2000] } else { vec![rng.range(200, 320) as usize] };
    for k in big_keys {
        let ks: Vec<[u8; 32]> = (0..k).map(|_| keys.valid(&mut rng)).collect();
        let fs = vec![GF::Key(keys.valid(&mut rng)), GF::Add(ks), GF::Pad(rng.below(256) as usize)];
        wf_case(o, &fs, "addkeys-long", false);
        // one rejected key near the end: everything fails from the count on, the cursor is left after the bad key
        let mut b = layout_all(&fs[..2]);
        let at = b.len() - 32 * (1 + rng.below(3) as usize);
        b[at..at + 32].copy_from_slice(&keys.bad[0]);
        parse_case(o, &b, "addkeys-long-bad");
    }
    let big_raw: Vec<usize> = if thorough { vec![70_000, 100_000] } else { vec![66_000 + rng.below(4_000) as usize] };
    for n in big_raw {
        let fs = vec![GF::Nonce(rng.bytes(n / 2)), GF::Key(keys.valid(&mut rng)), GF::Gate(rng.bytes(n - n / 2)), GF::Pad(255), GF::Pad(7)];
        wf_case(o, &fs, "raw-over-64k", false);
        prefix_check(o, &layout_all(&fs));
        let mut b = layout_all(&fs); let i = rng.below(40) as usize + 3; b.truncate(b.len() - 263 - i);
        parse_case(o, &b, "raw-over-64k-cut");
    }
    // (7d) the allocation cap is the exact domain of the raw conversion (C16_over_cap): a buffer of exactly CAP bytes converts,
    // one byte more makes the `unwrap` of From<ExtraField> panic (buffer of Nonce(n) = 1 + len(varint n) + n)
    for (n, want_ok) in [(CAP as usize - 5, true), (CAP as usize - 4, false)] {
        let buf_len = 1 + varint_len(n as u64) + n;
        let r = guarded(move || RawExtraField::from(ExtraField(vec![SubField::Nonce(vec![0x5a; n])])).0.len());
        o.direct(if want_ok { r == Ok(buf_len) } else { r.is_err() }, "c16: From<ExtraField> converts iff the buffer is within the allocation cap (the unwrap panics above it)",
            format!("Nonce of {} bytes, buffer {} bytes", n, buf_len), format!("{:?}", r.as_ref().map_err(|e| trunc(e, 80))), if want_ok { format!("Ok({})", buf_len) } else { "panic".into() });
        o.stat(if want_ok { "cap.at" } else { "cap.above" });
    }
    // (7e) total length exactly 33 / 34 / 43 / 44 / 45 (33 = a lone transaction key, 44 = the usual wallet layout key + 9-byte
    // nonce): sequences of these lengths that start with a transaction key followed by a nonce of EVERY length that fits (not
    // only 9) and further fields; the same lengths without a leading key; and a key followed by `02 <size byte>` with every
    // size byte 0..=13 and arbitrary bytes up to the total (well formed or not). Through ExtraField::try_parse (c16_parse),
    // RawExtraField::try_parse (c16_rawparse), against the model and the grammar reader (c16_okpre).
    for rep in 0..scale(1, 6) {
        for &total in &[33usize, 34, 43, 44, 45] {
            let room = total - 33;
            let key = GF::Key(keys.valid(&mut rng));
            let mut seqs: Vec<Vec<GF>> = vec![];
            if room == 0 { seqs.push(vec![key.clone()]); }
            if room >= 1 { seqs.push(vec![key.clone(), GF::Pad(room - 1)]); }
            if room >= 2 {
                for l in 0..=(room - 2) {
                    let mut nonce = rng.bytes(l);
                    // payment-id style nonces: first byte 0x00 (plain) / 0x01 (encrypted)
                    if l > 0 && rep % 2 == 0 { nonce[0] = (l % 2) as u8; }
                    let left = room - 2 - l;
                    let head = vec![key.clone(), GF::Nonce(nonce)];
                    if left == 0 { seqs.push(head.clone()); }
                    if left >= 1 { let mut v = head.clone(); v.push(GF::Pad(left - 1)); seqs.push(v); }
                    if left >= 2 {
                        let mut v = head.clone(); v.push(GF::Gate(rng.bytes(left - 2))); seqs.push(v);
                        let mut v = head.clone(); v.push(GF::Nonce(rng.bytes(left - 2))); seqs.push(v);
                        let mut v = head.clone(); v.push(GF::Add(vec![])); if left >= 3 { v.push(GF::Pad(left - 3)); } seqs.push(v);
                    }
                    if left >= 4 { let a = rng.below((left - 3) as u64) as usize; let mut v = head.clone(); v.push(GF::Gate(rng.bytes(a))); v.push(GF::Nonce(rng.bytes(left - 4 - a))); seqs.push(v); }
                }
                // the key not in first position / no key at all
                seqs.push(vec![GF::Nonce(rng.bytes(room - 2)), key.clone()]);
                seqs.push(vec![GF::Gate(rng.bytes(room - 2)), key.clone()]);
            }
            seqs.push(vec![GF::Nonce(rng.bytes(total - 2))]);
            seqs.push(vec![GF::Gate(rng.bytes(total - 2))]);
            seqs.push(vec![GF::Pad(total - 1)]);
            seqs.push(vec![GF::Nonce(rng.bytes(9)), GF::Nonce(rng.bytes(total - 13))]);
            for fs in &seqs {
                let b = layout_all(fs);
                o.direct(b.len() == total, "c16 generator: sequence has the intended total length", format!("{:?}", fs.len()), b.len().to_string(), total.to_string());
                wf_case(o, fs, &format!("total-len{}", total), true);
                if rep == 0 { valid_raws.push(b); }
            }
            // a 33-byte string that starts like a key field but is not one; key + `02 sz` + anything, every size byte
            let mut b = vec![1u8]; let bk = *rng.pick(&keys.bad[..]); b.extend_from_slice(&bk); b.extend(rng.bytes(room));
            parse_case(o, &b, "total-len-badkey"); o.op(format!("c16_rawparse {}", hex(&b)), true); o.stat("rawparse.total-len");
            if room >= 2 {
                for sz in 0..=13u8 {
                    let mut b = layout_all(&[key.clone()]); b.push(2); b.push(sz);
                    let mut fill = rng.bytes(room - 2);
                    if rng.chance(1, 2) { for x in fill.iter_mut() { if rng.chance(1, 2) { *x = *rng.pick(&[0u8, 0, 1, 2, 0xde, 4]); } } }
                    b.extend(fill);
                    parse_case(o, &b, "total-len-size-byte"); o.op(format!("c16_rawparse {}", hex(&b)), true); o.stat("rawparse.total-len");
                }
            }
        }
    }
    // (7f) nonces / blobs of exactly 253..=257 bytes (around the one-byte size 255 | 256 and the "255 bytes limited nonce" of the
    // documentation), alone and inside sequences; and the same declared lengths with one byte missing / one byte more
    for n in 253usize..=257 {
        for which in 0..2 {
            let mk = |d: Vec<u8>| if which == 0 { GF::Nonce(d) } else { GF::Gate(d) };
            let f = mk(rng.bytes(n));
            if n == 253 || n == 254 || n == 257 { wf_case(o, &[f.clone()], "nonce-25x", true); }   // 255, 256 alone: family (3)
            wf_case(o, &[GF::Key(keys.valid(&mut rng)), f.clone(), GF::Pad(rng.below(256) as usize)], "nonce-25x", true);
            wf_case(o, &[f.clone(), GF::Key(keys.valid(&mut rng))], "nonce-25x", false);
            wf_case(o, &[GF::MM(depth(&mut rng), rng.arr32(), None), mk(rng.bytes(n)), GF::Add(vec![keys.valid(&mut rng)]), f.clone()], "nonce-25x", false);
            valid_raws.push(layout_all(&[GF::Key(keys.valid(&mut rng)), f.clone()]));
            let full = layout_all(&[f.clone()]);
            parse_case(o, &full[..full.len() - 1], "nonce-25x-short"); o.op(format!("c16_subfield {}", hex(&full[..full.len() - 1])), true);
            let mut more = full.clone(); more.push(rng.byte() | 1);
            parse_case(o, &more, "nonce-25x-more"); o.op(format!("c16_subfield {}", hex(&more)), true);
            o.op(format!("c16_rawparse {}", hex(&more)), true); o.stat("rawparse.nonce-25x");
        }
    }
    // (7g) merge-mining sub-fields with EVERY size byte 0..=42 followed by exactly that many bytes, by one byte fewer, and by
    // more (`03`, `03 00`, `03 1f ..`): the decoder ignores the size byte; too few bytes for depth + root must give the error
    // flag (never a panic), enough bytes a field whatever the size byte says
    parse_case(o, &[3], "mm-size");
    for sz in 0..=42usize {
        let mut bodies: Vec<Vec<u8>> = vec![];
        let mut r = rng.bytes(sz); if sz > 0 { r[0] &= 0x7f; } bodies.push(r);                   // one-byte depth, random
        if rng.chance(1, 2) { bodies.push(vec![0u8; sz]); } else { bodies.push(vec![0x80u8; sz]); } // depth 0 / never-ending varint
        if sz >= 33 {                                                                               // the layout the size byte announces
            let w = sz - 32; let d: u64 = if w >= 10 { u64::MAX } else { (1u64 << (7 * (w as u32 - 1))) | rng.below(1 << (7 * (w as u32 - 1)).min(62)) };
            let mut v = vec![]; varint(d, &mut v); v.extend_from_slice(&rng.arr32()); v.truncate(sz); while v.len() < sz { v.push(rng.byte()); }
            bodies.push(v);
        }
        for (bi, body) in bodies.iter().enumerate() {
            let mut exact = vec![3u8, sz as u8]; exact.extend_from_slice(body);
            parse_case(o, &exact, "mm-size-exact"); o.op(format!("c16_subfield {}", hex(&exact)), true);
            if bi == 0 { o.op(format!("c16_rawparse {}", hex(&exact)), true); o.stat("rawparse.mm-size"); }
            if sz > 0 { parse_case(o, &exact[..exact.len() - 1], "mm-size-fewer"); }
            let mut more = exact.clone();
            if bi == 0 { more.extend_from_slice(&layout_all(&[GF::Key(keys.valid(&mut rng))])); } else { let k = rng.range(1, 40) as usize; more.extend(rng.bytes(k)); }
            parse_case(o, &more, "mm-size-more");
            if bi == 1 { o.op(format!("c16_rawparse {}", hex(&more)), true); o.stat("rawparse.mm-size"); }
            if sz == 33 || sz == 0 || sz == 31 { valid_raws.push(exact); }
        }
        // a complete field (one-byte depth, 32-byte root) behind EVERY size byte: the field is returned whatever the size byte says
        let mut b = vec![3u8, sz as u8, rng.byte() & 0x7f]; b.extend_from_slice(&rng.arr32());
        if sz % 2 == 0 { b.extend_from_slice(&layout_all(&[GF::Key(keys.valid(&mut rng))])); }
        parse_case(o, &b, "mm-size-complete");
    }
    // (8) six mutation kinds of valid raws
    for i in 0..scale(3000, 30000) {
        let b = rng.pick(&valid_raws).clone();
        let kind = (i % 6) as u64;
        let mut m = mutate(&mut rng, &b, kind);
        if rng.chance(1, 8) { let k2 = rng.below(6); m = mutate(&mut rng, &m, k2); }
        if m.len() <= 1200 && rng.chance(1, 6) { o.op(format!("c16_subfield {}", hex(&m)), true); o.stat("subfield.mutated"); }
        if m.len() <= 1200 && rng.chance(1, 12) { o.op(format!("c16_rawparse {}", hex(&m)), !m.is_empty()); o.stat("rawparse.mutated"); }
        parse_case(o, &m, &format!("mut{}", kind));
    }
    // (9) huge declared lengths around the allocation caps, for each length-prefixed tag
    for t in [2u8, 4, 0xde] {
        let mut counts: Vec<u64> = vec![CAP - 1, CAP, CAP + 1, CAP / 32 - 1, CAP / 32, CAP / 32 + 1, 1 << 32, (1 << 59) - 1, 1 << 59, (1 << 59) + 1, u64::MAX / 32, u64::MAX / 32 + 1, u64::MAX - 1, u64::MAX];
        for _ in 0..scale(4, 40) { counts.push(rng.u64_boundary()); }
        for c in counts {
            let mut b = vec![t]; varint(c, &mut b);
            b.extend_from_slice(&[1, 2, 3, 1]); b.extend_from_slice(&keys.valid(&mut rng));
            if rng.chance(1, 2) { b.extend_from_slice(&layout_all(&[GF::Key(keys.valid(&mut rng))])); }
            parse_case(o, &b, "huge-len");
            o.op(format!("c16_subfield {}", hex(&b)), true);
        }
    }
    // (10) arbitrary tag-rich bytes
    for _ in 0..scale(2500, 28000) {
        let lim = if rng.chance(1, 10) { 400 } else { 90 }; let n = rng.below(lim) as usize;
        let mut b = rng.bytes(n);
        for x in b.iter_mut() { if rng.chance(1, 3) { *x = *rng.pick(&[0u8, 0, 1, 2, 3, 4, 0xde, 0x80, 0x20, 0x21]); } }
        if rng.chance(1, 4) && n >= 40 { let at = rng.below((n - 33) as u64) as usize; b[at] = 1; b[at + 1..at + 33].copy_from_slice(&keys.valid(&mut rng)); }
        parse_case(o, &b, "random");
        if rng.chance(1, 8) { o.op(format!("c16_subfield {}", hex(&b)), true); o.stat("subfield.random"); }
        if rng.chance(1, 12) { o.op(format!("c16_rawparse {}", hex(&b)), !b.is_empty()); o.stat("rawparse.random"); }
    }
    o.notes.push("nontrivial rule: c16_ser, c16_subfield, c16_rawparse and c16_okpre (non-empty input) always; c16_parse when the input is non-empty and (a sub-field was decoded or the input has >= 2 bytes)".into());
    o.notes.push("pre=<dump>: fields returned by the library's SubField decoder on a cursor before its first failure (computed by the harness with the library's decoder); for `err` results only the flag, `pre` and the accessors are constrained by the property, the salvaged list is modelled and compared as well. Only the ok/err flag of c16_okpre is an output of ExtraField::try_parse; `pre` is tied to try_parse by the direct check 'pre is a prefix of the result (all of it when Ok)'".into());
    o.notes.push("families total-len* (33/34/43/44/45 bytes: key + nonce of every fitting length + further fields; no leading key; key + `02 sz` for sz 0..13), nonce-25x* (253..257 bytes, alone / in sequences / one byte short / long), mm-size* (`03 sz` for sz 0..42 followed by exactly sz bytes, one fewer, more, a complete field): c16_parse + c16_okpre on every case, c16_rawparse on most".into());
}
