//! C15 — amount text: `from_str_in`, `from_str_with_denomination` / `FromStr`, `to_string_in`, `to_string_with_denomination` / `Display`
//! of `Amount` and `SignedAmount` on grammar-directed literals, a junk stream, boundary and random values; round trips as direct checks.
use crate::common::*;
use monero::{Amount, Denomination, SignedAmount};
use std::str::FromStr;

const DENOMS: [(&str, Denomination, usize); 5] = [
    ("Monero", Denomination::Monero, 12), ("Millinero", Denomination::Millinero, 9), ("Micronero", Denomination::Micronero, 6),
    ("Nanonero", Denomination::Nanonero, 3), ("Piconero", Denomination::Piconero, 0)];
fn denom(s: &str) -> Option<Denomination> { DENOMS.iter().find(|d| d.0 == s).map(|d| d.1) }
fn show<T: std::fmt::Display, E>(r: Result<T, E>) -> String { match r { Ok(v) => format!("ok {}", v), Err(_) => "err".into() } }

pub fn exec(t: &[&str]) -> Option<String> {
    match t {
        ["c15_parse", ty, d, h] => {
            let d = denom(d)?; let b = unhex(h);
            let s = match std::str::from_utf8(&b) { Ok(s) => s, Err(_) => return Some("bad-utf8".into()) };
            match *ty { "u" => Some(show(Amount::from_str_in(s, d).map(|a| a.as_pico()))), "s" => Some(show(SignedAmount::from_str_in(s, d).map(|a| a.as_pico()))), _ => None }
        }
        ["c15_parse_denom", ty, h] => {
            let b = unhex(h);
            let s = match std::str::from_utf8(&b) { Ok(s) => s, Err(_) => return Some("bad-utf8".into()) };
            match *ty {
                "u" => { let r1 = Amount::from_str_with_denomination(s).map(|a| a.as_pico()); let r2 = Amount::from_str(s).map(|a| a.as_pico());
                    if r1.clone().ok() != r2.ok() { return Some("MISMATCH FromStr vs from_str_with_denomination".into()); } Some(show(r1)) }
                "s" => { let r1 = SignedAmount::from_str_with_denomination(s).map(|a| a.as_pico()); let r2 = SignedAmount::from_str(s).map(|a| a.as_pico());
                    if r1.clone().ok() != r2.ok() { return Some("MISMATCH FromStr vs from_str_with_denomination".into()); } Some(show(r1)) }
                _ => None }
        }
        ["c15_fmt", ty, d, a] => {
            let d = denom(d)?;
            match *ty {
                "u" => { let a = Amount::from_pico(a.parse::<u64>().ok()?); let s = a.to_string_in(d); let mut b = String::new(); a.fmt_value_in(&mut b, d).unwrap();
                    if b != s { return Some("MISMATCH fmt_value_in vs to_string_in".into()); } Some(hex(s.as_bytes())) }
                "s" => { let a = SignedAmount::from_pico(a.parse::<i64>().ok()?); let s = a.to_string_in(d); let mut b = String::new(); a.fmt_value_in(&mut b, d).unwrap();
                    if b != s { return Some("MISMATCH fmt_value_in vs to_string_in".into()); } Some(hex(s.as_bytes())) }
                _ => None }
        }
        ["c15_fmt_denom", ty, d, a] => {
            let dn = denom(d)?;
            match *ty {
                "u" => { let a = Amount::from_pico(a.parse::<u64>().ok()?); let s = a.to_string_with_denomination(dn);
                    if *d == "Monero" && format!("{}", a) != s { return Some("MISMATCH Display vs to_string_with_denomination".into()); } Some(hex(s.as_bytes())) }
                "s" => { let a = SignedAmount::from_pico(a.parse::<i64>().ok()?); let s = a.to_string_with_denomination(dn);
                    if *d == "Monero" && format!("{}", a) != s { return Some("MISMATCH Display vs to_string_with_denomination".into()); } Some(hex(s.as_bytes())) }
                _ => None }
        }
        // formatting into a FAILING sink (error ignored), then formatting another amount normally on the same thread: the second result must
        // not depend on the first call. `mode` = `c<k>`: the sink accepts k characters then returns Err; `b<k>`: bounded buffer of k bytes
        // that refuses a chunk that does not fit. Result: hex(to_string_in) hex(to_string_with_denomination) hex(Display) of the SECOND amount.
        ["c15_fmt_after_fail", ty, d, mode, a1, a2] => {
            use std::fmt::Write as _;
            let d = denom(d)?; let kind = *mode.as_bytes().first()?; let k: usize = mode.get(1..)?.parse().ok()?;
            if kind != b'c' && kind != b'b' { return None; }
            // the second amount is formatted IMMEDIATELY after the failed calls (no successful call in between that could flush stale state);
            // which of its three forms comes first rotates with k; the prefix check of what reached the sink is done afterwards
            macro_rules! seq { ($x:expr, $y:expr) => {{ let (x, y) = ($x, $y);
                let mut s1 = Sink { buf: String::new(), kind, k }; let r1 = x.fmt_value_in(&mut s1, d); let mut s2 = Sink { buf: String::new(), kind, k }; let r2 = write!(s2, "{}", x);
                let (mut f0, mut f1, mut f2) = (None, None, None);
                for step in 0..3 { match (k + step) % 3 { 0 => f0 = Some(y.to_string_in(d)), 1 => f1 = Some(y.to_string_with_denomination(d)), _ => f2 = Some(format!("{}", y)) } }
                let (full1, full2) = (x.to_string_in(d), format!("{}", x));
                if !full1.starts_with(&s1.buf) || !full2.starts_with(&s2.buf) || (r1.is_ok() && s1.buf != full1) || (r2.is_ok() && s2.buf != full2) { return Some("MISMATCH what reached the failing sink is not a prefix of the formatted amount".into()); }
                Some(format!("{} {} {}", hex(f0.unwrap().as_bytes()), hex(f1.unwrap().as_bytes()), hex(f2.unwrap().as_bytes()))) }} }
            match *ty {
                "u" => seq!(Amount::from_pico(a1.parse::<u64>().ok()?), Amount::from_pico(a2.parse::<u64>().ok()?)),
                "s" => seq!(SignedAmount::from_pico(a1.parse::<i64>().ok()?), SignedAmount::from_pico(a2.parse::<i64>().ok()?)),
                _ => None }
        }
        // a parse that fails (result ignored; also through the suffix entry point) followed by a parse of another string: the second result
        // must be that of the second string alone
        ["c15_parse_after_fail", ty, d, hbad, hgood] => {
            let d = denom(d)?; let (bad, good) = (unhex(hbad), unhex(hgood));
            let (bad, good) = match (std::str::from_utf8(&bad), std::str::from_utf8(&good)) { (Ok(a), Ok(b)) => (a, b), _ => return Some("bad-utf8".into()) };
            match *ty {
                "u" => { let _ = Amount::from_str_in(bad, d); let _ = Amount::from_str(bad); Some(show(Amount::from_str_in(good, d).map(|a| a.as_pico()))) }
                "s" => { let _ = SignedAmount::from_str_in(bad, d); let _ = SignedAmount::from_str(bad); Some(show(SignedAmount::from_str_in(good, d).map(|a| a.as_pico()))) }
                _ => None }
        }
        // `Display` of both amount types (the denomination is hard-wired to Monero in the library)
        ["c15_display", ty, a] => match *ty {
            "u" => Some(hex(format!("{}", Amount::from_pico(a.parse::<u64>().ok()?)).as_bytes())),
            "s" => Some(hex(format!("{}", SignedAmount::from_pico(a.parse::<i64>().ok()?)).as_bytes())),
            _ => None },
        // `Display` through a format spec that carries FLAGS. The library's `Display` impls consult no flag (they write the value and the
        // suffix through the formatter as a plain sink), so every spec must print exactly what `{}` prints: the exact expansion with twelve
        // decimals and ` xmr`. (A `Formatter::pad`-based rewrite would truncate under a precision and pad under a width.)
        ["c15_display_flags", ty, flag, a] => {
            use std::fmt::Write as _;
            macro_rules! fl { ($x:expr) => {{ let x = $x; let s: String = match *flag {
                "p0" => format!("{:.0}", x), "p1" => format!("{:.1}", x), "p4" => format!("{:.4}", x), "p12" => format!("{:.12}", x), "p13" => format!("{:.13}", x), "p40" => format!("{:.40}", x),
                "w30r" => format!("{:>30}", x), "w5l" => format!("{:<5}", x), "w40c" => format!("{:^40}", x), "w1" => format!("{:1}", x), "w60" => format!("{:60}", x),
                "z30" => format!("{:030}", x), "z3" => format!("{:03}", x), "plus" => format!("{:+}", x), "alt" => format!("{:#}", x), "fill" => format!("{:*<40}", x), "fillr" => format!("{:0>45}", x),
                "w30p4" => format!("{:>30.4}", x), "plusz" => format!("{:+030.2}", x), "altz" => format!("{:#025.6}", x),
                "pstar" => format!("{:.*}", 3, x), "pdollar" => { let p = 2usize; format!("{:.p$}", x) } "wdollar" => { let w = 33usize; format!("{:>w$}", x) } "wpdollar" => { let (w, p) = (28usize, 5usize); format!("{:<w$.p$}", x) }
                "tostring" => x.to_string(), "write" => { let mut b = String::new(); write!(b, "{:.3}", x).unwrap(); b } "writeln" => { let mut b = String::new(); write!(b, "{:>20.1}|{:<4}", x, x).unwrap(); match b.split_once('|') { Some((l, r)) if l == r => l.to_string(), _ => return Some(format!("MISMATCH two flagged specs in one write! differ or contain the separator: {:?}", b)) } }
                _ => return None };
                Some(hex(s.as_bytes())) }} }
            match *ty { "u" => fl!(Amount::from_pico(a.parse::<u64>().ok()?)), "s" => fl!(SignedAmount::from_pico(a.parse::<i64>().ok()?)), _ => None }
        }
        // `Denomination::from_str` alone: the name of the denomination, or `err`
        ["c15_denom", h] => {
            let b = unhex(h);
            let s = match std::str::from_utf8(&b) { Ok(s) => s, Err(_) => return Some("bad-utf8".into()) };
            Some(match Denomination::from_str(s) { Ok(d) => DENOMS.iter().find(|x| x.1 == d).map(|x| x.0.to_string()).unwrap_or_else(|| "MISMATCH a denomination outside the five modelled ones".into()), Err(_) => "err".into() })
        }
        _ => None,
    }
}

/// a `fmt::Write` that fails: `c` accepts `k` characters and then returns Err (the characters before are kept); `b` is a bounded buffer
/// of `k` bytes that refuses any chunk that does not fit
struct Sink { buf: String, kind: u8, k: usize }
impl std::fmt::Write for Sink {
    fn write_str(&mut self, s: &str) -> std::fmt::Result {
        if self.kind == b'c' { for ch in s.chars() { if self.buf.chars().count() >= self.k { return Err(std::fmt::Error); } self.buf.push(ch); } Ok(()) }
        else if self.buf.len() + s.len() > self.k { Err(std::fmt::Error) } else { self.buf.push_str(s); Ok(()) }
    }
}

/// the string behind a formatting result (empty if the implementation panicked, so that the direct checks fail instead of the run)
fn text_of(h: &str) -> String { if h == "-" { String::new() } else { hex::decode(h).ok().and_then(|b| String::from_utf8(b).ok()).unwrap_or_default() } }

/// Value-preserving rewrites of a formatted amount `s` (= `to_string_in(a, d)`, `dec` fraction digits): each must parse back to `want`
/// (`Some(a)` when |a| <= 2^63-1, otherwise `None`), and one digit more than the denomination allows must be refused.
fn metamorphic(o: &mut Out, s: &str, dec: usize, want: Option<i128>, id: &str, parse: &dyn Fn(&str) -> Result<Option<i128>, String>) {
    if s.is_empty() { return; }
    let (sign, body) = match s.strip_prefix('-') { Some(b) => ("-", b), None => ("", s) };
    let mut vars: Vec<(String, &str, Option<i128>)> = vec![];
    if s.len() + 3 <= 50 { vars.push((format!("{}000{}", sign, body), "three leading zeros", want)); }
    if let Some((ip, fp)) = body.split_once('.') {
        let t = fp.trim_end_matches('0');
        vars.push((format!("{}{}.{}", sign, ip, t), "trailing fraction zeros stripped (point kept)", want));
        if t.is_empty() { vars.push((format!("{}{}", sign, ip), "zero fraction and point dropped", want)); }
        if ip == "0" { vars.push((format!("{}.{}", sign, fp), "no digit before the point", want)); }
        if fp.len() == dec && s.len() < 50 { vars.push((format!("{}0", s), "one fraction digit more than the denomination has (a zero)", None)); vars.push((format!("{}5", s), "one fraction digit more than the denomination has", None)); }
    } else {
        vars.push((format!("{}.", s), "bare trailing point", want));
        if dec == 0 { vars.push((format!("{}.0", s), "a fraction digit in a denomination without decimals", None)); }
    }
    for (v, what, w) in vars {
        let got = parse(&v);
        o.direct(got == Ok(w), &format!("rewrite of a formatted amount: {}", what), format!("{} via {:?}", id, v), format!("{:?}", got), format!("{:?}", w));
    }
}

fn digit_string(rng: &mut Rng, n: usize, zero_bias: u64) -> String {
    (0..n).map(|_| if rng.chance(zero_bias, 10) { '0' } else { (b'0' + rng.below(10) as u8) as char }).collect()
}
/// insert a point `frac` digits from the right (`frac <= digits.len()`)
fn with_point(digits: &str, frac: usize) -> String { let k = digits.len() - frac; format!("{}.{}", &digits[..k], &digits[k..]) }
fn grammatical(s: &str) -> bool {
    let b = s.strip_prefix('-').unwrap_or(s);
    !b.is_empty() && b.bytes().all(|c| c.is_ascii_digit() || c == b'.') && b.bytes().filter(|&c| c == b'.').count() <= 1
}
const JUNK: [&str; 30] = ["x", " ", "-", ".", "+", "e", "E", "_", ",", "/", ":", "\t", "\n", "\0", "\u{7f}", "é", "٣", "９", "€", "𝟙", "\u{a0}", "µ", "'", "0x", "--", "..", " .", "- ", "１", "\u{200b}"];
const NAMES: [&str; 12] = ["xmr", "XMR", "monero", "millinero", "mXMR", "micronero", "µXMR", "mcXMR", "nanonero", "nXMR", "piconero", "pXMR"];
const BAD_NAMES: [&str; 16] = ["", "Xmr", "xmR", "xmrr", "xm", "Monero", "MONERO", "piconeros", "uXMR", "μXMR", "µxmr", "mxmr", "XMR\n", "kXMR", "x", "0"];

fn literals(rng: &mut Rng, n_random: usize, o: &mut Out) -> Vec<(String, &'static str)> {
    let mut v: Vec<(String, &'static str)> = Vec::new();
    // (E) specials
    for s in ["", "-", ".", "-.", "0", "-0", "0.", "-.0", ".0", "00", "-00", "0.0", "-0.0", "1e3", "+1", " 1", "1 ", "1_0", "1..2", "1.2.3", "--1", "1-", "-1-", "1.-2", "９", "1,5", "0x10", "1/2", "1:2",
        "9223372036854775807", "9223372036854775808", "-9223372036854775807", "-9223372036854775808", "-9223372036854775809", "18446744073709551615", "18446744073709551616", "18446744073709551620",
        "9223372.036854775807", "9223372.036854775808", "18446744.073709551615", "18446744.073709551616", "0.000000000001", "0.0000000000001", ".000000000001", "-.000000000001",
        "00000000000000000000000000000000000000000000000001", "000000000000000000000000000000000000000000000000001", "1.000000000000", "1.0000000000000", "1844674407370955161.5", "184467440737095516.15",
        "1844674407370955161.6", "99999999999999999999", "9999999999999999999", "10000000000000000000", "1.", "-1.", "-.5", "5.", "12345678.123456789012", "0.1234567890123"] { v.push((s.to_string(), "special")); }
    // (A) systematic: every digit count 0..=50 x every point position (and none), random digits with leading/trailing zero bias, both signs
    for n in 0..=50usize { for p in 0..=n + 1 {
        for rep in 0..2 {
            let zb = if rep == 0 { 2 } else { 7 };
            let ds = digit_string(rng, n, zb);
            let body = if p == n + 1 { ds } else { with_point(&ds, p) };
            let s = if rng.chance(1, 4) { format!("-{}", body) } else { body };
            v.push((s, "grid"));
        }
    } }
    // (F) the 50-byte cap: 49 / 50 / 51 bytes, zeros-heavy so that the value is small
    for len in [48usize, 49, 50, 51, 52] { for neg in [false, true] { for p in [None, Some(0usize), Some(1), Some(3), Some(12), Some(13)] {
        let nd = len - neg as usize - p.is_some() as usize;
        let f = p.unwrap_or(0);
        let mut ds = vec![b'0'; nd];
        if nd > f { ds[nd - 1 - f] = b'1' + rng.below(9) as u8; }   // a non-zero last integer digit, zero fraction
        let ds = String::from_utf8(ds).unwrap();
        let body = match p { None => ds, Some(f) => with_point(&ds, f) };
        v.push((if neg { format!("-{}", body) } else { body }, "cap"));
    } } }
    // (B) magnitudes around 2^63 and 2^64 at every scale: the digits of base+delta with the point at every position, padded with leading / trailing zeros
    let bases: [u128; 6] = [(1 << 63) - 1, 1 << 63, (1u128 << 64) - 1, 1u128 << 64, 922337203685477580, 1844674407370955161];
    for &b in &bases { for delta in -2i128..=2 { let val = (b as i128 + delta) as u128; let ds = val.to_string();
        for frac in 0..=ds.len().min(20) {
            let lead = "0".repeat(rng.below(3) as usize);
            let mut body = format!("{}{}", lead, with_point(&ds, frac));
            if frac == 0 && rng.chance(1, 2) { body.pop(); }
            let trail = rng.below(3) as usize; if body.contains('.') { body.push_str(&"0".repeat(trail)); }
            let s = if rng.chance(1, 3) { format!("-{}", body) } else { body };
            v.push((s, "magnitude"));
        }
        // shifted right: value * 10^-k so that rescaling by the denomination brings it back to the boundary
        for k in [3usize, 6, 9, 12, 13] { if ds.len() > k { v.push((with_point(&ds, k), "magnitude")); v.push((format!("-{}", with_point(&ds, k)), "magnitude")); } }
        // shifted left: trailing zeros dropped / added
        for k in 1..=3usize { v.push((format!("{}{}", ds, "0".repeat(k)), "magnitude")); }
    } }
    // prefixes of the boundary values scaled by the rescale loop: q * 10^k near 2^63 / 2^64
    for &b in &[(1u128 << 63) - 1, (1u128 << 64) - 1] { for k in 0..=13u32 { let q = b / 10u128.pow(k); for d in 0..=1u128 { let ds = (q + d).to_string();
        v.push((ds.clone(), "prefix")); for f in [0usize, 1, 2, 3] { if f <= ds.len() { v.push((with_point(&ds, f), "prefix")); } } } } }
    // (C) 12/13 decimals: fraction lengths dec-1, dec, dec+1 for every denomination, last digit zero / non-zero
    for dec in [0usize, 3, 6, 9, 12] { for fl in [dec.saturating_sub(1), dec, dec + 1, dec + 2] { for last in ['0', '1', '9'] { for il in [0usize, 1, 7] {
        let ip = digit_string(rng, il, 2); let mut fp = digit_string(rng, fl, 3); if fl > 0 { fp.pop(); fp.push(last); }
        let s = format!("{}{}.{}", if rng.chance(1, 4) { "-" } else { "" }, ip, fp); v.push((s, "decimals"));
    } } } }
    // (D) random literals
    for _ in 0..n_random {
        let mut s = String::new(); if rng.chance(1, 4) { s.push('-'); }
        let style = rng.below(6);
        let nint = match style { 0 => rng.below(3), 1 => rng.below(8), 2 => 18 + rng.below(4), 3 => rng.below(25), 4 => 5 + rng.below(4), _ => rng.below(52) } as usize;
        s.push_str(&digit_string(rng, nint, 2));
        if style == 2 && rng.chance(1, 2) {
            let base = *rng.pick(&[9223372036854775807u128, 18446744073709551615, 9223372036854, 18446744073709, 9223372036854775, 9223372036854775807000, 92233720368547758]);
            let val = base + rng.below(5) as u128 - 2; s = format!("{}{}", if s.starts_with('-') { "-" } else { "" }, val);
        }
        if rng.chance(2, 3) { s.push('.'); let nf = match rng.below(6) { 0 => 0, 1 => rng.below(4), 2 => 12, 3 => 13, 4 => *rng.pick(&[2u64, 3, 4, 5, 6, 7, 8, 9, 10]), _ => rng.below(16) } as usize; s.push_str(&digit_string(rng, nf, 3)); }
        v.push((s, "random"));
    }
    // (G, added) values that are huge but WRAP to something small: N = 2^64 * q * 10^j + r with r < 2^63, written with 20..50 digits and the
    // point at 0 / 3 / 12 digits from the right. An accumulation with wrapping arithmetic (also one that is guarded by a condition on the
    // length of the string) returns r-like small values and accepts; the exact parser must refuse every one of them.
    for i in 0..360usize {
        let q: u128 = match i % 3 { 0 => 1 + rng.below(9) as u128, 1 => 1 + rng.below(1_000_000) as u128, _ => 1 + (rng.next() >> 28) as u128 };
        let r: u64 = if i % 2 == 0 { rng.below(1000) } else { rng.next() >> 1 };
        let head = ((1u128 << 64) * q).to_string();
        let j = if i % 4 == 0 { 0 } else { 19 + rng.below(12) as usize };
        let ds = if j == 0 { ((1u128 << 64) * q + r as u128).to_string() } else { format!("{}{:0width$}", head, r, width = j) };
        if ds.len() > 50 { continue; }
        let f = *rng.pick(&[0usize, 0, 3, 12]);
        let body = if f == 0 || ds.len() + 1 > 50 { ds } else { with_point(&ds, f) };
        v.push((if rng.chance(1, 5) && body.len() < 50 { format!("-{}", body) } else { body }, "wrapsmall"));
    }
    let mut seen = std::collections::HashSet::new();
    v.retain(|(s, _)| seen.insert(s.clone()));   // each distinct string once (first class wins)
    o.notes.push(format!("{} distinct grammar-directed strings", v.len()));
    v
}

fn junk(rng: &mut Rng, n: usize, lits: &[(String, &'static str)]) -> Vec<(String, &'static str)> {
    let mut v = Vec::new();
    for i in 0..n {
        match i % 5 {
            0 | 1 => { // one insertion into a literal
                let mut s = rng.pick(lits).0.clone(); if s.len() > 48 { s.truncate(20); }
                let pos = rng.below(s.len() as u64 + 1) as usize; s.insert_str(pos, *rng.pick(&JUNK)); v.push((s, "junk-insert")); }
            2 => { // one replacement
                let s = rng.pick(lits).0.clone(); let mut b: Vec<char> = s.chars().collect(); if b.is_empty() { b.push('0'); }
                let pos = rng.below(b.len() as u64) as usize; b[pos] = rng.pick(&JUNK).chars().next().unwrap(); v.push((b.into_iter().collect(), "junk-replace")); }
            3 => { // random printable / control ASCII
                let n = rng.below(12) as usize; let s: String = (0..n).map(|_| (rng.below(128) as u8) as char).collect(); v.push((s, "junk-ascii")); }
            _ => { // random scalar values, incl. long multi-byte strings (byte length > 50 with fewer than 50 chars)
                let n = rng.below(30) as usize; let s: String = (0..n).map(|_| { let c = match rng.below(4) { 0 => rng.below(0x80), 1 => 0x80 + rng.below(0x780), 2 => 0x800 + rng.below(0xd000), _ => 0x10000 + rng.below(0x10000) } as u32; char::from_u32(c).unwrap_or('0') }).collect();
                v.push((s, "junk-unicode")); }
        }
    }
    let mut seen: std::collections::HashSet<String> = lits.iter().map(|(s, _)| s.clone()).collect();
    v.retain(|(s, _)| seen.insert(s.clone()));
    v
}

pub fn run(o: &mut Out, tier: &str, seed: u64) {
    let mut rng = Rng::new(seed);
    let thorough = tier == "thorough";
    let (n_random, n_junk, n_denom, n_fmt) = if thorough { (270_000, 45_000, 60_000, 20_000) } else { (24_000, 5_000, 6_000, 2_500) };
    let lits = literals(&mut rng, n_random, o);
    let junks = junk(&mut rng, n_junk, &lits);
    // from_str_in: every string x 5 denominations x {u, s}
    for (s, class) in lits.iter().chain(junks.iter()) {
        let g = grammatical(s);
        for (dn, _, _) in DENOMS.iter() { for ty in ["u", "s"] {
            // non-trivial: the string is a literal of the grammar (the decision then depends on digit counts, scale and magnitude),
            // or it is a single mutation of one
            let r = o.op(format!("c15_parse {} {} {}", ty, dn, hex(s.as_bytes())), g || class.starts_with("junk-insert") || class.starts_with("junk-replace"));
            o.stat(&format!("parse.{}.{}", class, if r.starts_with("ok") { "ok" } else { "err" }));
        } }
    }
    // from_str_with_denomination / FromStr: <literal> <name>, plus malformed separators and names
    for i in 0..n_denom {
        let lit = if rng.chance(1, 10) { rng.pick(&junks).0.clone() } else { rng.pick(&lits).0.clone() };
        let (s, class) = match i % 10 {
            0..=5 => (format!("{} {}", lit, rng.pick(&NAMES)), "denom.wellformed"),
            6 => (format!("{} {}", lit, rng.pick(&BAD_NAMES)), "denom.badname"),
            7 => { let sep = *rng.pick(&["", "  ", "\t", "\u{a0}", " \t", "\n", "_"]); (format!("{}{}{}", lit, sep, rng.pick(&NAMES)), "denom.badsep") }
            8 => { let n = *rng.pick(&NAMES); (match rng.below(5) { 0 => format!(" {} {}", lit, n), 1 => format!("{} {} ", lit, n), 2 => format!("{} {} {}", lit, n, n), 3 => format!("{} {}", n, lit), _ => lit.clone() }, "denom.pieces") }
            _ => { let mut s = format!("{} {}", lit, rng.pick(&NAMES)); let pos = rng.below(s.len() as u64 + 1) as usize; if s.is_char_boundary(pos) { s.insert_str(pos, *rng.pick(&JUNK)); } (s, "denom.junk") }
        };
        for ty in ["u", "s"] { let r = o.op(format!("c15_parse_denom {} {}", ty, hex(s.as_bytes())), true); o.stat(&format!("{}.{}", class, if r.starts_with("ok") { "ok" } else { "err" })); }
    }
    // formatting: boundary set and random values; round trips checked directly
    let mut us: Vec<u64> = vec![0, 1, 2, 9, 10, 11, 99, 100, 101, u64::MAX, u64::MAX - 1, i64::MAX as u64, i64::MAX as u64 + 1, i64::MAX as u64 - 1, i64::MAX as u64 + 2];
    let mut p: u64 = 1; for _ in 0..19 { p *= 10; us.extend_from_slice(&[p - 1, p, p + 1, p / 10 * 9, (p / 10).wrapping_mul(11)]); }
    let n_boundary_us = us.len();                 // every value pushed so far is a stated boundary value; all of them are run on every denomination
    for _ in 0..n_fmt { us.push(match rng.below(3) { 0 => rng.u64_boundary(), 1 => { let w = rng.below(64); rng.next() >> w } _ => { let k = rng.below(20) as u32; (rng.below(1000) as u64).wrapping_mul(10u64.pow(k)).wrapping_add(rng.below(3)).wrapping_sub(1) } }); }
    let mut ss: Vec<i64> = vec![i64::MIN, i64::MIN + 1, i64::MIN + 2, i64::MAX, -1, -9, -10, -11, -999_999_999_999, -1_000_000_000_000, -1_000_000_000_001];
    // (added) magnitudes strictly below one unit of each denomination, both signs: the integer part is "0" / "-0" and the sign must survive
    // (-0.5 XMR, -0.000000000001 XMR, -0.5 millinero, ...)
    for dec in [3u32, 6, 9, 12] { let unit = 10i64.pow(dec); for v in [unit / 2, unit / 10, unit - 1, unit / 4 + 1, 1, 421 % unit] { ss.push(-v); ss.push(v); } }
    let n_fixed_ss = ss.len();
    for &u in &us { ss.push(u as i64); ss.push((u as i64).wrapping_neg()); }
    for (i, &a) in us.iter().enumerate() {
        for (dn, d, dec) in DENOMS.iter() {
            if i >= n_boundary_us && !rng.chance(2, 5) { continue; }
            let h = o.op(format!("c15_fmt u {} {}", dn, a), true); let hd = o.op(format!("c15_fmt_denom u {} {}", dn, a), true);
            o.stat(&format!("fmt.u.{}", dn));
            let (s, sd) = (text_of(&h), text_of(&hd));
            let want = if a <= i64::MAX as u64 { Some(a) } else { None };
            let got = { let (s, d) = (s.clone(), *d); guarded(move || Amount::from_str_in(&s, d).ok().map(|x| x.as_pico())) };
            o.direct(got == Ok(want), "parse(format a) == a (unsigned)", format!("{} {}", dn, a), format!("{:?} via {:?}", got, s), format!("{:?}", want));
            let got = { let sd = sd.clone(); guarded(move || Amount::from_str(&sd).ok().map(|x| x.as_pico())) };
            o.direct(got == Ok(want), "parse(format_with_suffix a) == a (unsigned)", format!("{} {}", dn, a), format!("{:?} via {:?}", got, sd), format!("{:?}", want));
            // shape: exactly `dec` fraction digits
            let frac = s.split('.').nth(1).map(|f| f.len()).unwrap_or(0);
            o.direct(frac == *dec && (s.contains('.') == (*dec > 0)), "exactly `decimals` fraction digits", format!("{} {}", dn, a), s.clone(), format!("{} fraction digits", dec));
            let dd = *d; metamorphic(o, &s, *dec, want.map(|x| x as i128), &format!("u {} {}", dn, a), &move |v: &str| { let v = v.to_string(); guarded(move || Amount::from_str_in(&v, dd).ok().map(|x| x.as_pico() as i128)) });
        }
        if i < n_boundary_us || rng.chance(1, 4) {
            let h = o.op(format!("c15_display u {}", a), true); let sd = text_of(&h);
            let got = guarded(move || Amount::from_str(&sd).ok().map(|x| x.as_pico()));
            let want = if a <= i64::MAX as u64 { Some(a) } else { None };
            o.direct(got == Ok(want), "parse(Display a) == a (unsigned)", a.to_string(), format!("{:?}", got), format!("{:?}", want));
        }
    }
    for (i, &a) in ss.iter().enumerate() {
        for (dn, d, dec) in DENOMS.iter() {
            if i >= n_fixed_ss + 2 * n_boundary_us && !rng.chance(1, 5) { continue; }
            let h = o.op(format!("c15_fmt s {} {}", dn, a), true); let hd = o.op(format!("c15_fmt_denom s {} {}", dn, a), true);
            o.stat(&format!("fmt.s.{}", dn));
            let (s, sd) = (text_of(&h), text_of(&hd));
            let want = if a != i64::MIN { Some(a) } else { None };
            let got = { let (s, d) = (s.clone(), *d); guarded(move || SignedAmount::from_str_in(&s, d).ok().map(|x| x.as_pico())) };
            o.direct(got == Ok(want), "parse(format a) == a (signed)", format!("{} {}", dn, a), format!("{:?} via {:?}", got, s), format!("{:?}", want));
            let got = { let sd = sd.clone(); guarded(move || SignedAmount::from_str(&sd).ok().map(|x| x.as_pico())) };
            o.direct(got == Ok(want), "parse(format_with_suffix a) == a (signed)", format!("{} {}", dn, a), format!("{:?} via {:?}", got, sd), format!("{:?}", want));
            let frac = s.split('.').nth(1).map(|f| f.len()).unwrap_or(0);
            o.direct(frac == *dec && (s.contains('.') == (*dec > 0)), "exactly `decimals` fraction digits", format!("{} {}", dn, a), s.clone(), format!("{} fraction digits", dec));
            let dd = *d; metamorphic(o, &s, *dec, want.map(|x| x as i128), &format!("s {} {}", dn, a), &move |v: &str| { let v = v.to_string(); guarded(move || SignedAmount::from_str_in(&v, dd).ok().map(|x| x.as_pico() as i128)) });
        }
        if i < n_fixed_ss + 2 * n_boundary_us || rng.chance(1, 4) {
            let h = o.op(format!("c15_display s {}", a), true); let sd = text_of(&h);
            let got = guarded(move || SignedAmount::from_str(&sd).ok().map(|x| x.as_pico()));
            let want = if a != i64::MIN { Some(a) } else { None };
            o.direct(got == Ok(want), "parse(Display a) == a (signed)", a.to_string(), format!("{:?}", got), format!("{:?}", want));
        }
    }
    // ---- added (audit C15 §4b/§4d, §5.2, §5.4) ---------------------------------------------------------------------------------
    // deterministic suffix family: every special / cap / magnitude / prefix literal x every accepted spelling x {u, s} through
    // `from_str_with_denomination` = `FromStr`, so that the 50-byte cap (on the literal, not on the whole string) and the 2^63 / 2^64
    // boundaries are exercised through the suffix entry points on every run
    let mut n_suffix = 0usize;
    for (lit, class) in lits.iter() {
        if !["special", "cap", "magnitude", "prefix"].contains(class) { continue; }
        for name in NAMES.iter() { for ty in ["u", "s"] {
            let r = o.op(format!("c15_parse_denom {} {}", ty, hex(format!("{} {}", lit, name).as_bytes())), true);
            o.stat(&format!("denom.systematic.{}.{}", class, if r.starts_with("ok") { "ok" } else { "err" })); n_suffix += 1;
        } }
    }
    // near-names: every accepted spelling with one edit, alone (`Denomination::from_str`) and behind the literal "1" for both types,
    // so that the outcome depends on the name only
    let mut near: Vec<String> = Vec::new();
    for name in NAMES.iter() {
        let cs: Vec<char> = name.chars().collect();
        near.push(name.to_string());
        for i in 0..cs.len() {
            let flip: String = cs.iter().enumerate().map(|(j, &c)| if j != i { c.to_string() } else if c.is_uppercase() { c.to_lowercase().to_string() } else { c.to_uppercase().to_string() }).collect(); near.push(flip);
            near.push(cs.iter().enumerate().filter(|(j, _)| *j != i).map(|(_, c)| *c).collect());                                 // delete
            near.push(cs.iter().enumerate().flat_map(|(j, &c)| if j == i { vec![c, c] } else { vec![c] }).collect());            // duplicate
            if i >= 3 { near.push(cs[..i].iter().collect()); }                                                                     // proper prefix of length >= 3
        }
        for suf in ["s", " ", "\n", "\t", "\0", "."] { near.push(format!("{}{}", name, suf)); }
        near.push(format!(" {}", name)); near.push(name.to_uppercase()); near.push(name.to_lowercase());
    }
    for x in ["picoXMR", "nanoXMR", "microXMR", "milliXMR", "uXMR", "kXMR", "nano", "milli", "micro", "pico", "xmrs", "XMRs", "moneros", "Monero", "Millinero", "Micronero", "Nanonero", "Piconero", "μXMR", "µxmr", "mcxmr", ""] { near.push(x.to_string()); }
    let mut seen = std::collections::HashSet::new(); near.retain(|x| seen.insert(x.clone()));
    for n in &near {
        let r = o.op(format!("c15_denom {}", hex(n.as_bytes())), true); o.stat(&format!("nearname.{}", if r == "err" { "err" } else { "ok" }));
        if !n.contains(' ') { for ty in ["u", "s"] {
            let r2 = o.op(format!("c15_parse_denom {} {}", ty, hex(format!("1 {}", n).as_bytes())), true);
            o.direct((r == "err") == (r2 == "err"), "`1 <name>` is accepted iff <name> is a denomination", format!("{:?}", n), format!("{} / {}", r, r2), "both ok or both err".into());
        } }
    }
    // ---- added on request: stateful sequences, signs --------------------------------------------------------------------------------
    // (S1) format into a failing sink, ignore the error, then format another amount normally on the same thread
    let modes = ["c0", "c1", "c5", "c14", "b0", "b3", "b12", "b25"];
    let firsts_u: [u64; 6] = [421_000_000_000_000, u64::MAX, 1, 123_456_789_012_345_678, 0, 9_999_999_999_999];
    let seconds_u: [u64; 8] = [0, 1, 421, 1_000_000_000_000, 500_000_000_000, 42, i64::MAX as u64, 10];
    let mut n_seq = 0usize;
    for (mi, mode) in modes.iter().enumerate() { for (fi, &a1) in firsts_u.iter().enumerate() { for (si, &a2) in seconds_u.iter().enumerate() {
        for (di, (dn, _, _)) in DENOMS.iter().enumerate() {
            if (mi + fi + si + di) % 2 == 1 { continue; }                              // half of the product, every mode / value / denomination met
            o.op(format!("c15_fmt_after_fail u {} {} {} {}", dn, mode, a1, a2), true);
            let (s1, s2) = (if fi % 2 == 0 { -(a1.min(i64::MAX as u64) as i64) } else { a1.min(i64::MAX as u64) as i64 }, if si % 2 == 1 { -(a2.min(i64::MAX as u64) as i64) } else { a2.min(i64::MAX as u64) as i64 });
            o.op(format!("c15_fmt_after_fail s {} {} {} {}", dn, mode, s1, s2), true); n_seq += 2;
        }
    } } }
    for _ in 0..(if thorough { 6000 } else { 600 }) {
        let (dn, _, _) = rng.pick(&DENOMS); let mode = format!("{}{}", if rng.chance(1, 2) { "c" } else { "b" }, rng.below(30));
        let (a1, a2) = (rng.next() >> rng.below(64), rng.next() >> rng.below(64));
        if rng.chance(1, 2) { o.op(format!("c15_fmt_after_fail u {} {} {} {}", dn, mode, a1, a2), true); } else { o.op(format!("c15_fmt_after_fail s {} {} {} {}", dn, mode, (a1 as i64).wrapping_neg(), a2 as i64), true); }
        n_seq += 1;
    }
    // (S2) a parse that fails midway, then a successful (or any other) parse
    let bads = ["123x", "99999999999999999999999", "0.0000000000001", "1.2.3", "184467440737095516150", "-", "12345678901234567890123456789012345678901234567890123", "1.5 xmr", "7 µXMR", "42 bogus", "9223372036854775808", "١٢٣", "4.2.", "421000000000000.000000000000x"];
    let goods: Vec<&String> = lits.iter().filter(|(l, c)| grammatical(l) && *c != "grid").map(|(l, _)| l).collect();
    for i in 0..(if thorough { 20_000 } else { 2_000 }) {
        let bad = if i % 4 == 3 { rng.pick(&junks).0.clone() } else { bads[i % bads.len()].to_string() };
        let good = if i % 5 == 0 { *rng.pick(&["1", "0.5", "421", "0.000000000001", "-0.5", "1.000000000000"]) } else { rng.pick(&goods).as_str() };
        let (dn, _, _) = rng.pick(&DENOMS); let ty = if i % 2 == 0 { "u" } else { "s" };
        let r = o.op(format!("c15_parse_after_fail {} {} {} {}", ty, dn, hex(bad.as_bytes()), hex(good.as_bytes())), true);
        o.stat(&format!("parse_after_fail.{}", if r.starts_with("ok") { "ok" } else { "err" })); n_seq += 1;
    }
    // (S3) a leading '+' (also after / before '-') is not part of the grammar: refused by `from_str_in` and by `FromStr`
    let mut n_plus = 0usize;
    let plus_base: Vec<String> = ["1", "0", "0.5", ".5", "5.", "421", "1.000000000000", "0.000000000001", "9223372036854775807", "12345678.123456789012", "00", "", "."].iter().map(|x| x.to_string())
        .chain((0..12).map(|_| { let l = rng.pick(&goods); l.trim_start_matches('-').to_string() })).collect();
    for b in &plus_base { for pre in ["+", "-+", "+-", "++", " +", "+ "] {
        let l = format!("{}{}", pre, b); if l.len() > 50 { continue; }
        for (dn, _, _) in DENOMS.iter() { for ty in ["u", "s"] { let r = o.op(format!("c15_parse {} {} {}", ty, dn, hex(l.as_bytes())), true); o.stat(&format!("parse.plus.{}", if r.starts_with("ok") { "ok" } else { "err" })); n_plus += 1; } }
        for name in ["xmr", "XMR", "piconero", "mXMR"] { for ty in ["u", "s"] {
            let r = o.op(format!("c15_parse_denom {} {}", ty, hex(format!("{} {}", l, name).as_bytes())), true);
            o.direct(r == "err", "a literal with a leading '+' is refused by FromStr", format!("{:?}", format!("{} {}", l, name)), r.clone(), "err".into()); n_plus += 1; } }
    } }
    // ---- added on request (review round 2) ---------------------------------------------------------------------------------------
    // (R1) `Display` / `format!` with FLAGS: every flag spec on every stated boundary value of both types (and a random sample) must print
    // what plain `{}` prints — compared with model and spec by the op line, and with the plain `{}` text directly
    const FLAGS: [&str; 27] = ["p0", "p1", "p4", "p12", "p13", "p40", "w30r", "w5l", "w40c", "w1", "w60", "z30", "z3", "plus", "alt", "fill", "fillr", "w30p4", "plusz", "altz", "pstar", "pdollar", "wdollar", "wpdollar", "tostring", "write", "writeln"];
    let mut n_flags = 0usize;
    let mut fu: Vec<u64> = us[..n_boundary_us].to_vec(); let mut fs: Vec<i64> = ss[..n_fixed_ss].to_vec();
    for &x in &[123_456_789_012_345u64, 1_000_000_000_000, 1, 0, 999_999_999_999, 1_234_567_890_123_456] { fu.push(x); fs.push(x as i64); fs.push(-(x as i64)); }
    for _ in 0..(if thorough { 2_000 } else { 60 }) { let v = rng.next() >> rng.below(64); fu.push(v); fs.push((v as i64).wrapping_neg()); fs.push((v >> 1) as i64); }
    for (i, &a) in fu.iter().enumerate() {
        let plain = format!("{}", Amount::from_pico(a));
        for (j, fl) in FLAGS.iter().enumerate() {
            if i >= 24 && (i + j) % 3 != 0 { continue; }                       // the first 24 values meet every flag, the rest a third of them (rotating)
            let h = o.op(format!("c15_display_flags u {} {}", fl, a), true); n_flags += 1;
            o.direct(text_of(&h) == plain, "Display with a flagged format spec prints what `{}` prints (unsigned)", format!("{} {}", fl, a), text_of(&h), plain.clone());
        }
    }
    for (i, &a) in fs.iter().enumerate() {
        let plain = format!("{}", SignedAmount::from_pico(a));
        for (j, fl) in FLAGS.iter().enumerate() {
            if i >= 24 && (i + j) % 3 != 0 { continue; }
            let h = o.op(format!("c15_display_flags s {} {}", fl, a), true); n_flags += 1;
            o.direct(text_of(&h) == plain, "Display with a flagged format spec prints what `{}` prints (signed)", format!("{} {}", fl, a), text_of(&h), plain.clone());
        }
    }
    o.stat_n("display.flags", n_flags as u64);
    // (R2) digits BEFORE the sign: `<zeros or digits>-<body>` is not a literal of the grammar (the sign is recognised at position 0 only):
    // refused by `from_str_in` in every denomination for both types and by `FromStr` with every kind of suffix
    let mut n_presign = 0usize;
    let heads = ["0", "00", "000", "0000000000", "1", "10", "0.", "00.", ".", "-0", "-00", "0-0", " ", "+0"];
    let bodies: Vec<String> = ["5", "1.5", ".5", "0", "0.0", "1", "", ".", "0.000000000001", "1.000000000000", "9223372036854775807", "9223372.036854775807", "421", "00", "05"].iter().map(|x| x.to_string())
        .chain((0..6).map(|_| rng.pick(&goods).trim_start_matches('-').to_string())).collect();
    for h in heads { for b in &bodies {
        let l = format!("{}-{}", h, b); if l.len() > 50 { continue; }
        for (dn, d, _) in DENOMS.iter() { for ty in ["u", "s"] {
            let r = o.op(format!("c15_parse {} {} {}", ty, dn, hex(l.as_bytes())), true); n_presign += 1;
            o.stat(&format!("parse.presign.{}", if r.starts_with("ok") { "ok" } else { "err" }));
            o.direct(r == "err", "a `-` that is not the first character is refused (digits before the sign)", format!("{} {} {:?}", ty, dn, l), r.clone(), "err".into());
            let _ = d;
        } }
        for name in ["xmr", "XMR", "monero", "millinero", "µXMR", "nXMR", "piconero", "pXMR"] { for ty in ["u", "s"] {
            let r = o.op(format!("c15_parse_denom {} {}", ty, hex(format!("{} {}", l, name).as_bytes())), true); n_presign += 1;
            o.direct(r == "err", "a literal with digits before the sign is refused by FromStr", format!("{:?}", format!("{} {}", l, name)), r.clone(), "err".into());
        } }
    } }
    // (R3) values in [2^64, 2^64 + 10^k) written WITH a fractional part, in every denomination: the piconero value V = M * 10^(dec-f) of the
    // literal (M = all its digits, f = its fraction digits, dec = decimals of the denomination) is the smallest multiple of 10^(dec-f) that
    // is >= 2^64, plus small / random offsets — so that V mod 2^64 is tiny and would pass the 2^63-1 cap if anything wrapped: in the digit
    // loop (f = dec), in the rescale loop (f < dec), or in a split integer-part / fraction-part evaluation. Must be `TooBig` for both
    // types, with and without `-`, never a value; also run in the four other denominations and through the suffix form.
    use monero::util::amount::ParsingError;
    let mut n_wrapfrac = 0usize;
    for (dn, d, dec) in DENOMS.iter() { for f in (if *dec == 0 { 0..=0usize } else { 1..=*dec }) {
        let j = (*dec - f) as u32; let step = 10u128.pow(j); let base = ((1u128 << 64) + step - 1) / step;          // ceil(2^64 / 10^j)
        let span = (10u128.pow(*dec as u32) / step).max(1);                                                        // offsets keeping V < 2^64 + 10^dec
        let mut offs: Vec<u128> = vec![0, 1, 2, 9, span - 1, span / 2]; for _ in 0..(if thorough { 12 } else { 3 }) { offs.push(rng.next() as u128 % span); }
        offs.retain(|x| *x < span); offs.sort(); offs.dedup();
        for off in offs { let m = base + off; let ds = m.to_string();
            let mut variants: Vec<String> = vec![if f == 0 { ds.clone() } else { with_point(&ds, f) }];
            if f == 0 { variants.push(format!("{}.", ds)); }
            if rng.chance(1, 2) { variants.push(format!("0{}", variants[0])); }
            for body in variants { for neg in [false, true] {
                let l = if neg { format!("-{}", body) } else { body.clone() }; if l.len() > 50 { continue; }
                for (dn2, _, _) in DENOMS.iter() { for ty in ["u", "s"] { let r = o.op(format!("c15_parse {} {} {}", ty, dn2, hex(l.as_bytes())), true); o.stat(&format!("parse.wrapfrac.{}", if r.starts_with("ok") { "ok" } else { "err" })); n_wrapfrac += 1; } }
                for ty in ["u", "s"] { o.op(format!("c15_parse_denom {} {}", ty, hex(format!("{} {}", l, Denomination::to_string(d)).as_bytes())), true); n_wrapfrac += 1; }
                let (l1, l2, dd) = (l.clone(), l.clone(), *d);
                let ru = guarded(move || Amount::from_str_in(&l1, dd).map(|a| a.as_pico())); let rs = guarded(move || SignedAmount::from_str_in(&l2, dd).map(|a| a.as_pico()));
                o.direct(ru == Ok(Err(ParsingError::TooBig)) && rs == Ok(Err(ParsingError::TooBig)), "a literal whose exact value lies in [2^64, 2^64 + 10^decimals) is TooBig for both types (never wrapped)", format!("{} {:?}", dn, l), format!("{:?} / {:?}", ru, rs), "Err(TooBig) / Err(TooBig)".into());
            } }
        }
    } }
    o.notes.push(format!("added (round 2): {} Display operations through {} flagged format specs (precision, width, alignment, fill, zero padding, +, #, runtime width / precision, to_string, write!) on the complete boundary sets of both types, each also compared directly with the plain {{}} text; {} strings with digits (or other characters) before the sign through from_str_in and FromStr, each required to be refused; {} operations on literals whose exact value lies in [2^64, 2^64 + 10^decimals) written with every possible number of fraction digits in every denomination, with the error kind TooBig checked directly", n_flags, FLAGS.len(), n_presign, n_wrapfrac));
    o.notes.push(format!("added on request: {} stateful sequences (formatting into a failing sink then formatting normally; a failing parse then another parse), {} '+'-signed strings through from_str_in and FromStr, signed values strictly between -1 unit and 0 of every denomination in the complete boundary set (formatting, suffix, Display, round trips)", n_seq, n_plus));
    o.notes.push(format!("added: {} systematic `<literal> <spelling>` suffix cases, {} near-name strings (alone and behind the literal 1), Display of every boundary value, value-preserving rewrites of every formatted string checked directly; signed and unsigned boundary sets are now run completely", n_suffix, near.len()));
    o.notes.push(format!("{} literals + {} junk strings x 5 denominations x {{u,s}}; {} suffix strings x {{u,s}}; formatting on {} unsigned / {} signed values (boundary set complete, random part sampled per denomination); non-trivial = grammatical literal or a single mutation of one (parse), every suffix / formatting case", lits.len(), junks.len(), n_denom, us.len(), ss.len()));
}
