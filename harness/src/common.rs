//! Shared plumbing: PRNG, case writer, panic isolation.
use std::collections::BTreeMap;
use std::collections::HashSet;
use std::fs::File;
use std::io::{BufWriter, Write};

/// SplitMix64 — every random choice of a run derives from one state seeded by VERIF_SEED.
pub struct Rng(pub u64);
impl Rng {
    pub fn new(seed: u64) -> Self { Rng(seed ^ 0x9e3779b97f4a7c15) }
    pub fn next(&mut self) -> u64 {
        self.0 = self.0.wrapping_add(0x9e3779b97f4a7c15);
        let mut z = self.0;
        z = (z ^ (z >> 30)).wrapping_mul(0xbf58476d1ce4e5b9);
        z = (z ^ (z >> 27)).wrapping_mul(0x94d049bb133111eb);
        z ^ (z >> 31)
    }
    pub fn below(&mut self, n: u64) -> u64 { if n == 0 { 0 } else { self.next() % n } }
    pub fn range(&mut self, lo: u64, hi: u64) -> u64 { lo + self.below(hi - lo + 1) }
    pub fn chance(&mut self, num: u64, den: u64) -> bool { self.below(den) < num }
    pub fn byte(&mut self) -> u8 { self.next() as u8 }
    pub fn bytes(&mut self, n: usize) -> Vec<u8> { (0..n).map(|_| self.byte()).collect() }
    pub fn arr32(&mut self) -> [u8; 32] { let mut a = [0u8; 32]; for b in a.iter_mut() { *b = self.byte(); } a }
    pub fn pick<'a, T>(&mut self, xs: &'a [T]) -> &'a T { &xs[self.below(xs.len() as u64) as usize] }
    /// u64 biased to varint-width and integer-range boundaries
    pub fn u64_boundary(&mut self) -> u64 {
        match self.below(6) {
            0 => { let k = self.range(1, 9) * 7; let d = self.below(5) as i64 - 2; ((1u128 << k) as i128 + d as i128) as u64 }
            1 => { let k = self.below(65); let base: u128 = 1u128 << k; let d = self.below(5) as i128 - 2; ((base as i128 + d).rem_euclid(1i128 << 64)) as u64 }
            2 => self.below(300),
            3 => u64::MAX - self.below(3),
            _ => { let bits = self.range(0, 64); if bits == 0 { 0 } else { self.next() >> (64 - bits) } }
        }
    }
}

pub fn hex(b: &[u8]) -> String { if b.is_empty() { "-".into() } else { hex::encode(b) } }
pub fn unhex(s: &str) -> Vec<u8> { if s == "-" { vec![] } else { hex::decode(s).expect("hex") } }

#[derive(Default)]
pub struct Out {
    pub ops: Vec<String>,
    pub impls: Vec<String>,
    pub nontrivial: HashSet<String>,
    pub stats: BTreeMap<String, u64>,
    pub samples: Vec<String>,
    pub failures: Vec<serde_json::Value>,
    pub direct_checks: u64,
    pub notes: Vec<String>,
    pub exhaustive: bool,
    /// optional classification of an operation (by index), used to match recorded known findings structurally
    pub keys: BTreeMap<usize, String>,
    /// operation lines of this run on which the library returned an error (a few per operation kind), re-executed between later
    /// operations: an error path must leave no state behind (scratch buffers cleared only on success, half-updated memos)
    pub failing: Vec<(String, String)>,
    pub opcount: u64,
}
/// failing parses of the shared decoders, used as "poison" before any failing line of the run itself is known
const POISON: [&str; 6] = ["varint_dec 80", "varint_dec 8000", "varint_dec ffffffffffffffffffff7f", "varint_dec 8180", "c01_dec tx 02", "c01_dec tx 0200018080"];
impl Out {
    /// error-then-valid interleaving: before every fifth operation one FAILING operation is executed (a universal one, or a line of
    /// this run that failed); a recorded failing line must fail in the same way again
    fn poison(&mut self) {
        self.opcount += 1;
        if self.opcount % 5 != 0 { return; }
        let k = (self.opcount / 5) as usize;
        let n = POISON.len() + self.failing.len();
        let i = k % n;
        if i < POISON.len() { let _ = crate::exec_line(POISON[i]); self.stat("poison.universal"); }
        else {
            let (l, want) = self.failing[i - POISON.len()].clone();
            let again = crate::exec_line(&l);
            self.direct_checks += 1; self.stat("poison.own-failing-line");
            if again != want && self.failures.len() < 50 {
                self.failures.push(serde_json::json!({"what": "purity: a failing operation gave a different result when executed again later (state left behind by an error path or by the operations in between)",
                    "input": trunc(&l, 600), "impl": trunc(&again, 300), "expected": trunc(&want, 300), "last_op": l}));
            }
        }
    }
    /// one operation executed by the implementation; `nontrivial` per the family's stated rule
    pub fn case(&mut self, op: String, imp: String, nontrivial: bool) {
        if nontrivial { self.nontrivial.insert(op.clone()); }
        if self.samples.len() < 12 && (self.ops.len() % 97 == 0 || (nontrivial && self.samples.len() < 4)) {
            self.samples.push(format!("{} => {}", trunc(&op, 300), trunc(&imp, 200)));
        }
        self.ops.push(op);
        self.impls.push(imp);
    }
    /// execute one operation line on the implementation (panics are caught and reported as the result)
    pub fn op(&mut self, line: String, nontrivial: bool) -> String {
        self.poison();
        let imp = crate::exec_line(&line);
        if (imp == "err" || imp.starts_with("err ") || imp.starts_with("Err")) && line.len() < 2000 && !line.starts_with("c04_") && self.failing.len() < 60 {
            let kind = line.split(' ').next().unwrap_or("").to_string();
            if self.failing.iter().filter(|(l, _)| l.split(' ').next() == Some(kind.as_str())).count() < 4 { self.failing.push((line.clone(), imp.clone())); }
        }
        self.case(line, imp.clone(), nontrivial);
        imp
    }
    /// like `op`, with a classification key attached to the case
    pub fn op_keyed(&mut self, line: String, nontrivial: bool, key: &str) -> String {
        self.keys.insert(self.ops.len(), key.to_string());
        self.op(line, nontrivial)
    }
    pub fn stat(&mut self, k: &str) { *self.stats.entry(k.to_string()).or_insert(0) += 1; }
    pub fn stat_n(&mut self, k: &str, n: u64) { *self.stats.entry(k.to_string()).or_insert(0) += n; }
    /// an implementation-vs-oracle check done directly in Rust (intrinsic equalities / independent formulas)
    pub fn direct(&mut self, ok: bool, what: &str, input: String, got: String, want: String) {
        self.direct_checks += 1;
        if !ok && self.failures.len() < 50 {
            self.failures.push(serde_json::json!({"what": what, "input": input, "impl": got, "expected": want, "last_op": self.ops.last().cloned().unwrap_or_default()}));
        }
    }
    /// Recombination: new operation lines made of two recorded lines of the same operation (same token count) by taking one
    /// argument from the other line, executed between its two parents. The mixed line shares all but one component with its
    /// neighbour — what a memo keyed on part of the input confuses — and goes through the model / spec comparison like any
    /// other line. Only operations whose arguments are independent values are recombined (a fixed list: key derivation, sub-address, key arithmetic, scan and amount-opening operations).
    pub fn recombine(&mut self, seed: u64, n: usize) {
        let mut rng = Rng::new(seed ^ 0x7ec0_4b1e);
        let mut by_op: BTreeMap<(String, usize), Vec<usize>> = BTreeMap::new();
        for (i, l) in self.ops.iter().enumerate() {
            // only operations whose arguments are independent values (keys, scalars, positions, indices, byte strings)
            const SAFE: [&str; 15] = ["c07_scan ", "c08_open ", "c09_recover ", "c10_derive ", "c10_derive_wire ", "c10_derive_sender ", "c10_onetime ", "c10_onetime_recv ",
                "c11_sub_pub ", "c11_sub_sec ", "c11_sub_addr ", "c13_add ", "c13_sub ", "c13_smul ", "c13_sadd "];
            if l.len() > 3000 || !SAFE.iter().any(|p| l.starts_with(p)) { continue; }
            let k = l.split(' ').count();
            if (3..=10).contains(&k) { by_op.entry((l.split(' ').next().unwrap().to_string(), k)).or_default().push(i); }
        }
        let groups: Vec<Vec<usize>> = by_op.into_values().filter(|v| v.len() >= 2).collect();
        if groups.is_empty() { return; }
        for _ in 0..n {
            let g = &groups[rng.below(groups.len() as u64) as usize];
            let (a, b) = (g[rng.below(g.len() as u64) as usize], g[rng.below(g.len() as u64) as usize]);
            let (la, lb) = (self.ops[a].clone(), self.ops[b].clone());
            let (ta, tb): (Vec<&str>, Vec<&str>) = (la.split(' ').collect(), lb.split(' ').collect());
            let k = rng.range(1, ta.len() as u64 - 1) as usize;
            if ta[k] == tb[k] { continue; }
            let mut tm = ta.clone(); tm[k] = tb[k];
            let mixed = tm.join(" ");
            self.op(la.clone(), false); self.op(mixed, false); self.op(lb.clone(), false); self.op(la, false);
            self.stat("recombined");
        }
    }
    /// Purity re-check: every operation line must fully determine its result. A sample of the recorded operations is
    /// executed again in a shuffled order (and once more in reverse order of recording); a result that differs from the
    /// recorded one means the library carries state across calls (a cache keyed on part of the input, a scratch buffer
    /// that is not reset, ...). Child-isolated C04 cases and very long lines are skipped (cost).
    pub fn purity_recheck(&mut self, seed: u64) {
        let mut rng = Rng::new(seed ^ 0x5eed_0f_9u64);
        let mut cand: Vec<usize> = (0..self.ops.len()).filter(|i| {
            let (l, r) = (&self.ops[*i], &self.impls[*i]);
            l.len() < 6000 && !l.starts_with("c04_") && !r.starts_with("PANIC") && !r.starts_with("TIMEOUT") && !r.starts_with("ABORT")
        }).collect();
        for i in (1..cand.len()).rev() { let j = rng.below(i as u64 + 1) as usize; cand.swap(i, j); }
        // stratified by operation kind (first token), so that rare operations are re-executed too
        { let mut per: BTreeMap<String, usize> = BTreeMap::new(); let kinds = cand.iter().map(|i| self.ops[*i].split(' ').next().unwrap_or("").to_string()).collect::<std::collections::BTreeSet<_>>().len().max(1);
          let quota = (300 / kinds).max(25);
          cand.retain(|i| { let k = self.ops[*i].split(' ').next().unwrap_or("").to_string(); let c = per.entry(k).or_insert(0); *c += 1; *c <= quota }); }
        cand.truncate(400);
        let mut order = cand.clone();
        let mut rev = cand.clone(); rev.sort(); rev.reverse();
        order.extend(rev);
        let mut bad = 0;
        for i in order {
            let again = crate::exec_line(&self.ops[i]);
            self.direct_checks += 1;
            if again != self.impls[i] && bad < 5 {
                bad += 1;
                let (l, r) = (self.ops[i].clone(), self.impls[i].clone());
                self.failures.push(serde_json::json!({"what": "purity: the same operation line gave a different result when executed again in a different order (state carried across calls)",
                    "input": trunc(&l, 600), "impl": trunc(&again, 300), "expected": trunc(&r, 300), "last_op": l}));
            }
        }
        // immediate repeats: the same line twice in a row (one-entry memos, "seen before" fast paths, scratch buffers)
        for &i in cand.iter().take(200) {
            for _ in 0..2 {
                let again = crate::exec_line(&self.ops[i]);
                self.direct_checks += 1;
                if again != self.impls[i] && bad < 8 {
                    bad += 1;
                    let (l, r) = (self.ops[i].clone(), self.impls[i].clone());
                    self.failures.push(serde_json::json!({"what": "purity: the same operation line gave a different result when executed twice in a row (state carried across calls)",
                        "input": trunc(&l, 600), "impl": trunc(&again, 300), "expected": trunc(&r, 300), "last_op": l}));
                }
            }
        }
        self.stat_n("purity-recheck.ops", 2 * cand.len() as u64 + 2 * cand.len().min(200) as u64);
    }
    pub fn write(&self, dir: &str) {
        std::fs::create_dir_all(dir).unwrap();
        let mut f = BufWriter::new(File::create(format!("{}/ops.txt", dir)).unwrap());
        for l in &self.ops { writeln!(f, "{}", l).unwrap(); }
        let mut f = BufWriter::new(File::create(format!("{}/impl.txt", dir)).unwrap());
        for l in &self.impls { writeln!(f, "{}", l).unwrap(); }
        let meta = serde_json::json!({
            "evaluations": self.ops.len() as u64 + self.direct_checks,
            "ops": self.ops.len(),
            "direct_checks": self.direct_checks,
            "distinct_nontrivial": self.nontrivial.len(),
            "stats": self.stats,
            "samples": self.samples,
            "direct_failures": self.failures,
            "notes": self.notes,
            "exhaustive": self.exhaustive,
            "keys": self.keys.iter().map(|(k, v)| (k.to_string(), v.clone())).collect::<BTreeMap<String, String>>(),
        });
        std::fs::write(format!("{}/meta.json", dir), serde_json::to_string_pretty(&meta).unwrap()).unwrap();
    }
}
pub fn trunc(s: &str, n: usize) -> String { if s.len() <= n { s.to_string() } else { let mut k = n; while !s.is_char_boundary(k) { k -= 1; } format!("{}…(+{} bytes)", &s[..k], s.len() - k) } }

/// run `f`, mapping a panic to Err(message)
pub fn guarded<T>(f: impl FnOnce() -> T + std::panic::UnwindSafe) -> Result<T, String> {
    std::panic::catch_unwind(f).map_err(|e| {
        if let Some(s) = e.downcast_ref::<&str>() { s.to_string() } else if let Some(s) = e.downcast_ref::<String>() { s.clone() } else { "panic".into() }
    })
}

// ---------------------------------------------------------------------------------------------------------------
// Counting global allocator (C04): live / peak heap bytes of the whole process, with a hard ceiling that turns a
// runaway allocation into an allocation failure (abort) instead of exhausting the machine.
use std::alloc::{GlobalAlloc, Layout, System};
use std::sync::atomic::{AtomicUsize, Ordering};
pub struct Counting;
pub static LIVE: AtomicUsize = AtomicUsize::new(0);
pub static PEAK: AtomicUsize = AtomicUsize::new(0);
pub static CEILING: AtomicUsize = AtomicUsize::new(usize::MAX);
unsafe impl GlobalAlloc for Counting {
    unsafe fn alloc(&self, l: Layout) -> *mut u8 {
        let now = LIVE.fetch_add(l.size(), Ordering::Relaxed) + l.size();
        if now > CEILING.load(Ordering::Relaxed) { LIVE.fetch_sub(l.size(), Ordering::Relaxed); return std::ptr::null_mut(); }
        PEAK.fetch_max(now, Ordering::Relaxed);
        let p = System.alloc(l);
        if p.is_null() { LIVE.fetch_sub(l.size(), Ordering::Relaxed); }
        p
    }
    unsafe fn dealloc(&self, p: *mut u8, l: Layout) { LIVE.fetch_sub(l.size(), Ordering::Relaxed); System.dealloc(p, l) }
    unsafe fn realloc(&self, p: *mut u8, l: Layout, new: usize) -> *mut u8 {
        if new > l.size() {
            let now = LIVE.fetch_add(new - l.size(), Ordering::Relaxed) + (new - l.size());
            if now > CEILING.load(Ordering::Relaxed) { LIVE.fetch_sub(new - l.size(), Ordering::Relaxed); return std::ptr::null_mut(); }
            PEAK.fetch_max(now, Ordering::Relaxed);
        } else { LIVE.fetch_sub(l.size() - new, Ordering::Relaxed); }
        System.realloc(p, l, new)
    }
}
/// run `f` and report (result, peak heap growth in bytes over the level at entry, elapsed microseconds)
pub fn measured<T>(f: impl FnOnce() -> T) -> (T, usize, u128) {
    let base = LIVE.load(Ordering::Relaxed);
    PEAK.store(base, Ordering::Relaxed);
    let t = std::time::Instant::now();
    let r = f();
    (r, PEAK.load(Ordering::Relaxed).saturating_sub(base), t.elapsed().as_micros())
}

/// a legal `io::Write` that accepts at most `max` bytes per call (short writes), and a legal `io::Read` that returns at most `max`
/// bytes per call (short reads): codecs must produce / consume the same bytes through them as through a `Vec` / a slice
pub struct ChunkWriter { pub buf: Vec<u8>, pub max: usize }
impl std::io::Write for ChunkWriter {
    fn write(&mut self, b: &[u8]) -> std::io::Result<usize> { let n = b.len().min(self.max); self.buf.extend_from_slice(&b[..n]); Ok(n) }
    fn flush(&mut self) -> std::io::Result<()> { Ok(()) }
}
pub struct ChunkReader<'a> { pub data: &'a [u8], pub pos: usize, pub max: usize }
impl<'a> std::io::Read for ChunkReader<'a> {
    fn read(&mut self, out: &mut [u8]) -> std::io::Result<usize> { let n = out.len().min(self.max).min(self.data.len() - self.pos); out[..n].copy_from_slice(&self.data[self.pos..self.pos + n]); self.pos += n; Ok(n) }
}
/// encode through a one-byte-per-call writer: (bytes, reported length)
pub fn encode_chunked<T: monero::consensus::encode::Encodable + ?Sized>(x: &T) -> (Vec<u8>, Option<usize>) {
    let mut w = ChunkWriter { buf: vec![], max: 1 }; let r = x.consensus_encode(&mut w).ok(); (w.buf, r)
}
/// decode through a one-byte-per-call reader: (value, bytes consumed)
pub fn decode_chunked<T: monero::consensus::encode::Decodable>(b: &[u8]) -> Option<(T, usize)> {
    let mut r = ChunkReader { data: b, pos: 0, max: 1 }; let v = T::consensus_decode(&mut r).ok()?; Some((v, r.pos))
}
