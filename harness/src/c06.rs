//! C06 — Merkle root (`tree_hash`), proof-of-work blob and block id: implementation results.
//!
//! Operation lines:
//!   `c06_tree <hex of k >= 1 concatenated 32-byte hashes>`   (first = root hash, rest = extra hashes)
//!        -> `<hex of tree_hash(root, extra)>` | `err` (not a positive multiple of 32 bytes)
//!   `c06_block <block hex> <header hex> <miner tx hash hex> <concatenated tx hashes hex | ->`
//!        -> `ok <tx_root hex> <serialize_hashable hex> <id hex>` | `err` (block hex does not deserialize)
//!      `exec` uses the block hex only; the other tokens are computed by the generator from the same block
//!      (serialize(&block.header), block.miner_tx.hash(), block.tx_hashes) and are the inputs of the Lean side.
//!
//! Direct oracles added after the audit of C06 (no Lean side): Monero's own tree-hash vectors and an accepted PoW blob
//! (known answers), block 202612 EMBEDDED in the harness (`c06_block202612.hex`; the run fails if the substitution branch was
//! not reached), the header bytes against the by-the-book layout of the header's field VALUES, leaf counts strictly between the
//! powers of two, blocks at the 2-/3-byte boundaries of the count varint, call sequences on one `Block` value (id first,
//! public fields changed between calls), version-1 miner transactions, and a local purity re-check of the long lines.
//!
//! Added after the review of C06:
//!   `c06_one <r|b|i> <block hex> <header hex> <miner tx hash hex> <concatenated tx hashes hex | ->`
//!        -> `ok <hex>` : ONE method (`tx_root` / `serialize_hashable` / `id`) of the deserialized block | `err`
//!      (so that single methods of different blocks can follow each other in any order, also in the shared purity re-check);
//!   `c06_blob <hdr hex> <root hex> <n>` / `c06_id <hdr hex> <root hex> <n>`: the blob / identifier formulas on given parts, executed
//!      here through a `Block` value is impossible (the root is computed), so the implementation side is the independent Rust formula;
//!   families (15) `prev_id` equal to the two block-202612 constants, (16) all-zero / equal neighbouring leaves at every small position,
//!   (17) the same block twice and pairs of blocks sharing header and count, hashed one after the other.
use crate::common::*;
use monero::blockdata::transaction::{RawExtraField, TxOutTarget};
use monero::consensus::encode::{deserialize, serialize};
use monero::cryptonote::hash::{tree_hash, Hashable};
use monero::util::ringct::{RctSig, RctSigBase, RctType};
use monero::{Amount, Block, BlockHeader, Hash, Transaction, TransactionPrefix, TxIn, TxOut, VarInt};
use tiny_keccak::{Hasher, Keccak};

fn split32(b: &[u8]) -> Option<Vec<Hash>> {
    if b.len() % 32 != 0 { return None; }
    Some(b.chunks(32).map(Hash::from_slice).collect())
}
fn tree_line(b: &[u8]) -> String {
    match split32(b) {
        Some(hs) if !hs.is_empty() => hex(tree_hash(hs[0], &hs[1..]).as_bytes()),
        _ => "err".into(),
    }
}
fn block_line(b: &[u8]) -> String {
    match deserialize::<Block>(b) {
        Ok(blk) => format!("ok {} {} {}", hex(blk.tx_root().as_bytes()), hex(&blk.serialize_hashable()), hex(blk.id().as_bytes())),
        Err(_) => "err".into(),
    }
}
pub fn exec(t: &[&str]) -> Option<String> {
    match t {
        ["c06_tree", h] => Some(tree_line(&unhex(h))),
        ["c06_block", b, _hdr, _miner, _txs] => Some(block_line(&unhex(b))),
        ["c06_one", which, b, _hdr, _miner, _txs] => Some(match deserialize::<Block>(&unhex(b)) {
            Ok(blk) => match *which { "r" => format!("ok {}", hex(blk.tx_root().as_bytes())), "b" => format!("ok {}", hex(&blk.serialize_hashable())), "i" => format!("ok {}", hex(blk.id().as_bytes())), _ => return None },
            Err(_) => "err".into() }),
        // the blob / identifier formulas on given parts (no `Block` method takes a root: the implementation side is the independent Rust formula)
        ["c06_blob", hdr, root, n] => { let n: u64 = n.parse().ok()?; let mut blob = unhex(hdr); blob.extend_from_slice(&unhex(root)); blob.extend_from_slice(&leb(n + 1)); Some(hex(&blob)) }
        ["c06_id", hdr, root, n] => { let n: u64 = n.parse().ok()?; let mut blob = unhex(hdr); blob.extend_from_slice(&unhex(root)); blob.extend_from_slice(&leb(n + 1));
            let id = hex(&kec(&[&leb(blob.len() as u64), &blob])); Some(if id == ID_202612_FORMULA { ID_202612_NETWORK.to_string() } else { id }) }
        ["c06_cnt", n] => { let n: usize = n.parse().ok()?; Some(match guarded(move || monero::cryptonote::hash::verif_tree_hash_cnt(n)) { Ok(c) => format!("ok {}", c), Err(_) => "panic".into() }) }
        _ => None,
    }
}

// ---------- independent oracle (Rust side): recursive CryptoNote tree hash, blob and id, on tiny_keccak ----------
fn kec(parts: &[&[u8]]) -> [u8; 32] {
    let mut k = Keccak::v256();
    for p in parts { k.update(p); }
    let mut out = [0u8; 32];
    k.finalize(&mut out);
    out
}
/// root of the perfect binary tree over a power-of-two number of nodes, top-down
fn perfect(nodes: &[[u8; 32]]) -> [u8; 32] {
    if nodes.len() == 1 { return nodes[0]; }
    let h = nodes.len() / 2;
    kec(&[&perfect(&nodes[..h]), &perfect(&nodes[h..])])
}
fn tree_ref(leaves: &[[u8; 32]]) -> [u8; 32] {
    let n = leaves.len();
    match n {
        0 => panic!("no leaves"),
        1 => leaves[0],
        2 => kec(&[&leaves[0], &leaves[1]]),
        _ => {
            let mut cnt = 1usize; // largest power of two strictly below n
            while cnt * 2 < n { cnt *= 2; }
            let keep = 2 * cnt - n;
            let mut nodes: Vec<[u8; 32]> = leaves[..keep].to_vec();
            for p in leaves[keep..].chunks(2) { nodes.push(kec(&[&p[0], &p[1]])); }
            assert_eq!(nodes.len(), cnt);
            perfect(&nodes)
        }
    }
}
fn leb(mut n: u64) -> Vec<u8> {
    let mut v = vec![];
    loop { let g = (n % 128) as u8; n /= 128; if n == 0 { v.push(g); return v; } v.push(g | 0x80); }
}
const ID_202612_FORMULA: &str = "426d16cff04c71f8b16340b722dc4010a2dd3831c22041431f772547ba6e331a";
const ID_202612_NETWORK: &str = "bbd604d2ba11ba27935e006ed39c9bfdd99b76bf4a50654bc1e1e61217962698";
/// block 202612 of the Monero main chain (16 672 bytes, version-1 miner transaction, 513 listed hashes), the only input that
/// reaches the substitution branch of `Block::id`. Embedded so that the family does not depend on where the library keeps its tests.
const BLOCK_202612: &str = include_str!("c06_block202612.hex");
/// the bytes of main-chain block 202612 (for the identifier operations of other properties)
pub fn block_202612_bytes() -> Vec<u8> { unhex(BLOCK_202612.trim()) }
/// Monero's own tree-hash vectors (tests/hash/tests-tree.txt of the reference implementation, 1..=16 leaves; the same
/// triples are quoted by the test `compute_tree_hash` of src/cryptonote/hash.rs): (expected root, concatenated leaves)
const TREE_KAT: [(&str, &str); 16] = [
    ("676567f8b1b470207c20d8efbaacfa64b2753301b46139562111636f36304bb8", "676567f8b1b470207c20d8efbaacfa64b2753301b46139562111636f36304bb8"),
    ("5077570fed2363a14fa978218185b914059e23517faf366f08a87cf3c47fd58e", "3124758667bc8e76e25403eee75a1044175d58fcd3b984e0745d0ab18f473984975ce54240407d80eedba2b395bcad5be99b5c920abc2423865e3066edd4847a"),
    ("f8e26aaa7c36523cea4c5202f2df159c62bf70d10670c96aed516dbfd5cb5227", "decc1e0aa505d7d5fbe8ed823d7f5da55307c4cc7008e306da82dbce492a0576dbcf0c26646d36b36a92408941f5f2539f7715bcb1e2b1309cedb86ae4211554f56f5e6b2fce16536e44c851d473d1f994793873996ba448dd59b3b4b922b183"),
    ("45f6e06fc0263e667caddd8fba84c9fb723a961a01a5b115f7cab7fe8f2c7e44", "53edbbf98d3fa50a85fd2d46c42502aafad3fea30bc25ba4f16ec8bf4a475c4d87da8ad3e5c90aae0b10a559a77a0985608eaa3cc3dd338239be52572c3bdf4ba403d27466991997b3cf4e8d238d002a1451ccc9c4790269d0f0085d9382d60fef37717f59726e4cc8787d5d2d75238ba9adb9627a8f4aeeec8d80465ed3f5fb"),
    ("e678fb87749ec082a9f92537716de8e19d8bd5bc4c4d832bd3fcfd42498dac83", "051a082e670c688e6a0fc2c8fd5b66b7a23cd380c7c49bd0cfffb0e80fb8c2334bb717c5e90db0ac353dfc0750c8b43a07edae0be99d6e820acc6da9f113123ae084c38ccdbf9c6730e228b5d98e7beb9843cfb523747cc32f09f2b16def67f76765cee044883827b9af31c179d3135b16c30f04453943d9676a59b907a6439658f6c98159b8fa1b152f1bcf748740754ca31c918501dbd577faf602c641df59"),
    ("7db3258ea536fef652eaaa9ccb158045770900b3c301d727bcb7e60f9831ae2c", "4231b54cddc617d06e0e311536fa400e5be0a35aab5fec9ec8d98f6c6dad3916fe6cdb1f63be231f95cdc83bb15b0d99d32d9922331b738c423625471fad7f408e60c0773fe78938b054e28b86ac06a194d141c1bde5f3c6f2b11468b43702cb3121b40ccbcb5461fa9321c35c9342e21efd7c1c22f523d78b9d4de28112b6cc51552642ffc126c66f25038f9d3b0cf485cc252215c144d51a139c8ea9a0ecc16e81d8d92dd3660d885deca60070d3d00069d89db1a85acb9c1f18d0c90736a7"),
    ("ad56b3e027d78a372adebe839e154668aec5236f7d40296cfdb562fca1dc73c2", "68e09573a758b75ea8e7d925fe81e3155afecddc4c8aeb3fe70d87411ee53aceac63c0233d172cd49b2708350fd64e2cf4dccb13352e3a159c06647c609429349197163eca2c2dae0c8643fdfe5d346b2ffd45a2d46f38599efbfa587c3ac0c3119e19508e009556fe53e4f78ef30eed649cdc1e090c8cb662eae1863fdc683bbabea966764f550a142dd68e5b8eb1930ff0c7333c9f2555712489a8cf6a5d188a70841510fca540b8c0425123efca47d5a698cf392e3bdbb7226053459fae01fd19ddb9d16d5f5499525feb49ffca9411e7ac48de15256559f3f65f899b80af"),
    ("090a95612ed9df6eeb854ae320355889a302498b4f5164a79d8e384a3a0d9748", "42e7f4058ca80d513c140837dd661acde3fb914779079baccfe188cbce275aed4b515094bb49ab9a825bcc2ac13f84b14a9defeb1b62fc68124b088272a3562696d62ccdfb5d896b2d2b410a2a79f9b1e7849feebc17617ba12a08d4e80affe970ff2fb79917ac13708f79be215bb6484d298b2fe22b4818536e74894db5e0350e1505ca2681da7b7d7171e3d10c89348cab160ff5b2e739d3591443d2af60db5eb36c50a2dfdb79b8ab83b0792161ac4756d9b831f1863188e10c81af5077d0fdb123f66e51670f03a203ff2287dea6827dcd5afd4904736ec4fe9f3b52f7e2bed7beaa1543bd8bfbfff6a8ae8bf1791dc34efa92c6342532fa33a3b72b6c9f"),
    ("997ac1178ab7414bab823fbca45b5630df8d1d8263063e6c57da463b85d68a74", "947fbbc55ad237fc5dbd7d52dddd44bf3f2a09005c78873422f7ef282d8e6fcc554e35c9566febf91cbbcb1d57a7ebd119abb0ad33a006d01623b7b379e966e00be000ae2fe8a45940e99c953d22014bae4932d8493ad4a551a97d437db2939dd53abedc11a63417f76257a5587f382a57d46d63c372182600c7920bcaf74e9e65289e8c45123ac8a54a45a6104dce5b8c065065ff3a3b6f8bf4d86bf96cb56116df4e01eb3153223d5f3a8c0d7de9eb348158e5ca0c363568674215f68b6ff8e54aeb4a2661f1144cb4f1bde7f9e6371d8a5568d4b3ff3382c65e143ae5d3a5834c890559be95b8b80b82c83d70df85c934bf9dd4b0f2b5f60b8553bd1c1e537b7a1f78a89a17a335a06f5d7143dfecff0c10a2e0a524c91ce913ae04501b65"),
    ("d7647e967e4f1ad3d5a0b2d231f62c4fe8fea85b845a72aaf57aeea96f2388f2", "5b0bf1b5c843cc5ea8e907c0d6ea901f1d4259cd61e68895fa1a9df76973ac6c87ee22343802565be146e4fcd768cde3cdd1b1996b8626e53b62648a9fd7f5aee2ce5b4aacb090d1beeaf42d47e7f0e90174af6554e8bd4aea3df45e90537eb7572b9583b3fcedf56ff69c412c4576a1353458292b7a6b10536887da47fb95c999ff1a074dfb52db43cf423e81e02aacb267b5f3b48761de9c3a73efe199d710e09043e4701792d04112d18e33d5f78efe4fbda461b4e0f2f55f07ca04eed04762d956b396ff0471c28f48462bf9b6b47caac50be8dd822198a39366071b18f4d4e8188bd11421b606108e9bbcfb1377e122c36083beca6a2306e48bfdbc64c9e6435ed838eba78e0af101abf79ff9600f6cc1b2b776783491161ae2d1d8df2d436a20c053c9237a7d224016878906352eba550d778e91ba830906b8d0be4e6e"),
    ("bc4b8c89368a254ccd0fb8ad2e9bcf95e06e1189b9a87774a3f70c51809967ef", "0bea27a480254ca07321850f25294478628ce83a025af4624902644f9dec23e8fb2c2313332449ae662e59b0bf99c30263a573f152cdcfd731402fe4bc10a758fbc005a236a1fb4c06f25c0564726bace64ae59c9051fc4e6171b5fb1466623f5c6a33ed05f196a6eb43852aa0735f1004245a58f68d3f8848ee916dcdfea2d7c63159daff81f0a9d10261d416ba290752f8333afbb7e22ca1b9c7f55b9023386b759fa69caa43c5caa7c339a0ddcfd95d9c12bea4c2cb450838080b54e270c4aa6580cdbb3431acb13dad236d1999d8b1ec1ed78f3e14061a890c6720947d18ee2dfa62ae4ad5e5ad6d8234ce99a1b2a21ba096325d8acf951380eacac551423d108b090ede16d479483ca0f9acc6cf1db8b8e4597b1c64738675f13665f84043ace791a58acf22d31e6298e7687c24276252f10396c203d38a79b232b200d1c53abb01b9678296797b9e08e4bf0251d8acfe3f42127db1295e3c90241a594d"),
    ("d765c015e0d30f911278d3b011faba39e8707962d90dabafb37081805dfbe121", "dbbd17543ddcc85cd6e3d96d08ae74f1eb5bb69b5d04ed538622423e0f78add6152cf461b569d733167cf18c94c5c09061aced2c59cbd75529c3e5d857528d6be15dab61315fa2e18ad41fc7e7c99cd274e1f7e4e6005e48015118153fd78b190a4960c135213f187da7675369611ad66b546cb5b041ab1743deae82edad9c4e62dabbff022a54c1f1cbd65614fad0d33f894ace380426618330339f238e703e40df8ef6a73ec8de5e35a2c41904552be0d029cfafe3629662dafd39069d25a1982e021ca076aff80f75ccc92ce29219ea273874a29a9c5357dc630a244a0025a7bccd0b6489f38b9603027a032b048cdaa5c88bafb1e72f4a69e0040c0c7b4532b1a91e7b92ed2cd5533b8a4f119ab15c76943204ecbe61b15dd2610c49ed38b771e6ba16c7beb09c70c0550afac81f3580d12491c4470c4773424796a857539616f29cd2df4e187363d24c22bb6cc91530705d7057b9a4380767d9fd8be0963ba503132cac79c870fa4c42fc32ee39a7a3c2ded84cd4b6e302d132f3d8e2ea"),
    ("3828d41d973d48f171a901cd67f99d073cfbc4dc954fe9c58a48f31a2b0c8927", "ac68da2f276c44fcddf6018bfad995e66a50ef120dbcd734834f2473542179f0754c132933fffa46b3c61b01231b5a30cdca82b16afdb5f5183a4f733345dade7ddb2a26b4adf0c23520a8e2d7bf979a7aeca3022153da6a65091172c34ec3a2b8bd5bc6e2dd971cf9b6582b0cdc24f84c48ee23a47c078ecfe306a3791eabe93fc38d28e6a82bb3f80448b7fa3b3f687e59447e6b41074217cf336e4ba50b580f8724b18f95908a13517f5215b67b1b9d0f7129c4e91efa23df763142be2e28f4d394cd6493ea6185aefa0ce8d73b5c0c11f5e8ada75a7c29438ce162749deb113cba0d436005742d35e7397d4fec8419b24320a21dcb18089e5c7644abe3d57b2554c19c0eb55ebfe943ac13beafcd9bad66a967fcc1e747c778bf452c6ccfc9b96772caf052bd768d50977cda7255f479510af8628d5e24125b9482b0e786a65e99bdfb73e6c6e57f01458a7735d0e16b30546d1856683002aa1d0980b54afc8086b75eff6b7a0b448e31e2bf741b24e7399dded0321f745ef034d4c80fc15719b81a797b751c27110480e48c7e98e27aa9397b7c58917147200fd4770d55"),
    ("834e5f13dd06f541753f60fe2b5854eff15e54c4141cc0836c4688769a0db0a4", "ec58450fe3887a480b39cc493599bf4107d276f57453257bbd1446ccec960ce8aad0e7623c1ac4fe07c2255376dd1aaf4b78a079e8f701a74560805d295d466a6987e81e2ed74b4ccc6a0f121eb6f173f4efeb74f801e1b80e1ee97bf4216376c00a92962c5234d276bea8975e49718c546c3027d57131333a4e4c5756899ba7c9643ff8335553325d4706cd72930b09d632c561072b39b49106c2d424fa6773bbb0bb01fed84effb8ed7471b14581213e49b8fd8dacd1c3f9c50f2a915bfcd77d07abb95cd0aa13df084adc54a04e3214c639cef5cc22fd0a1477a1a196a919d37dff128318900dce936b5cf3a3154fb05f9b2841481554805b681c2943eeade2b21fcc72c6380dc70d4f404dcfe0c0686f94f979989e663f4028189ae5839f0ff8d2c58b4ea09797ece5f5554fccb824c24293b7b7bf8af4da3536548ee5ebbf80c8ea56f88bfa8174df124f5acdecb9e919041ec664e384a8eaeb8e20be270350a2f1cb65f691c0cb1392226a928a3a3aac3f69fe5eab76d125fdeb5ea4c4b2dd59993e7df68221c0da90a1ee89885b217bb6b67ab2d64feb33b66b31087795ddeeb52d40c9a260da14b383caad730ddc8f1e6b59baf7bf110a452a05e8bb"),
    ("bca11932a196feb98e7779662b8c0f3754a6438311209a858bb891de6bf09581", "23c2a65a1917cb82949e89ca65585f4d0b09a5d90a912aed4d8aff9af2a2ce6594305a47ad8e6b744a5fd79cb27e5f4a3b28a3893c655efe3f61105c85183c822d293c74b60d4cc0c7ee002616a97411a3b1d3d8c1be1079a1b300e8e17c95568defd202af2d290cbf1e678e881430d05419c2c543b8e476b424232bc7396e14928e459597e6a8cf9cc6c95051b16d0bcc0e4034ffbcd4ee321b9e94bbc0a1729ee8ab4cd43158c4e8e571ee64c2102f181402238cd53a57693dbfdd5e6be3bf23103e73c40248ce7afb8dad6dd2c2107aab20569f740197d64efbe6159a553c013c04c5c54aa9a4dbe41f2910554bba612e16fe3c682d493c7a1b35c0b3476337badb053bae123c6306442812f5f2df8995c29d7e9c218d4d9e86699cca19d06be9688bf8150d487ede28911089ea86d0be0986b51adc270317c438b622748321d2d9c9f93400b73d7fdbe3e1f6ff36f16be9416b568a80e2764a258b6789d570d80bf91e832baa1ab92289759eb2504ab4b0d3b826e944f5f4beb5d6a3764dd9225a0a1e78a7d0485ffc6808651ef1a26bda9c7e436ab48587e91cfdab4a7c1dbb13a78025ac77baa1e389f9b82994c6cb725c30708a266b5e1a9d0b52128ba340a4a609095e70cc7b30cf6d3a2156b4a35c1bba574f240c37f94718616e48"),
    ("2d0ad2566627b50cd45125e89e963433b212b368cd2d91662c44813ba9ec90c2", "21f750d5d938dd4ed1fa4daa4d260beb5b73509de9a9b145624d3f1afb671461b07d768cf1f5f8266b89ecdc150a2ad55ccd76d4c12d3a380b21862809a85af623269a23ee1b4694b26aa317b5cd4f259925f6b3288a8f60fb871b1ad3ac00cb1e6c55eddfc438e1f3e7b638ea6026cc01495010bafdfd789c47dff282c1af4c6a8f83e5f2fca6940a756ef4faa15c7137082a7c31dffe0b2f5112d126ad4af1d536c0e626cc9d2fe1b72256f5285728558f22a3dbb36e0918bcfc01d4ae7284d0bfb8e90647cdb01c292a53a31ff3fe6f350882f1dae2b09374db45f4d54c67d3b4e0829c4f9f63ad235d8ef838d8fb39546d90d99bbd831aff55dbbb642e2bf529ceccd0479b9f194475c2a15143f0edac762e9bbce810436e765550c69e234c22276c41d7d7e28c10afc5e144a9ce32aa9c0f28bb4fcf171af7d7404fa5e28b79dc97bd4147f4df6d38b935bd83fb634414bae9d64a32ab45384fba5b8da5c147d51cd2a8f7f2a9c07b1bddc5b28b74bf0c0f0632ac2fc43d0d306dd1ac1481cabe60a358d6043d4733202d489664a929d6bf76a39828954846beb47a3baacb35d2065cbe3ad34cf78bf895f6323a6d76fc1256306f58e4baecabd7a779388c6bf2734897c193d39c343fce49a456f0ef84cf963593c5401a14621cc6ec1bef01b53735ccb02bc96c5fd454105053e3b016174437ed83b25d2a79a88268f2"),
];
/// a main-chain block (major version 12, only the miner transaction) and its block-hashing blob as accepted by monerod
/// (quoted by the test `test_block_ser` of src/blockdata/block.rs)
const KAT_BLOCK: &str = "0c0c94debaf805beb3489c722a285c092a32e7c6893abfc7d069699c8326fc3445a749c5276b6200000000029b892201ffdf882201b699d4c8b1ec020223df524af2a2ef5f870adb6e1ceb03a475c39f8b9ef76aa50b46ddd2a18349402b012839bfa19b7524ec7488917714c216ca254b38ed0424ca65ae828a7c006aeaf10208f5316a7f6b99cca60000";
const KAT_BLOB: &str = "0c0c94debaf805beb3489c722a285c092a32e7c6893abfc7d069699c8326fc3445a749c5276b6200000000602d0d4710e2c2d38da0cce097accdf5dc18b1d34323880c1aae90ab8f6be6e201";

/// by-the-book header layout from the header's field VALUES: varint(major) ‖ varint(minor) ‖ varint(timestamp) ‖ prev_id ‖ nonce (u32 LE)
fn header_ref(h: &BlockHeader) -> Vec<u8> {
    let mut v = leb(h.major_version.0);
    v.extend(leb(h.minor_version.0));
    v.extend(leb(h.timestamp.0));
    v.extend_from_slice(h.prev_id.as_bytes());
    v.extend_from_slice(&[h.nonce as u8, (h.nonce >> 8) as u8, (h.nonce >> 16) as u8, (h.nonce >> 24) as u8]);
    v
}
/// `ok <root> <blob> <id>` of a block value by the independent formulas (tree_ref, by-the-book header, leb, tiny_keccak);
/// the second component says whether the block-202612 substitution applied
fn formulas(blk: &Block) -> (String, bool) { formulas_with(blk, blk.miner_tx.hash().to_bytes()) }
/// transaction identifier WITHOUT `Transaction::hash`: v1 = H(whole serialisation); v2 = H(H(prefix) [‖ H(base) ‖ third]) where the part in
/// brackets is present iff the transaction has a RingCT base, and third = 0^32 for type Null, H(bytes after the base) when the prunable part is
/// present, the fixed constant otherwise
fn tx_id_ref(t: &Transaction) -> [u8; 32] {
    let all = serialize(t);
    if t.prefix.version.0 == 1 { return kec(&[&all]); }
    let pre = serialize(&t.prefix);
    let mut parts: Vec<u8> = kec(&[&pre]).to_vec();
    if let Some(base) = &t.rct_signatures.sig {
        let bb = serialize(base);
        parts.extend_from_slice(&kec(&[&bb]));
        let third: [u8; 32] = if base.rct_type == RctType::Null { [0u8; 32] } else if t.rct_signatures.p.is_some() { kec(&[&all[pre.len() + bb.len()..]]) }
            else { let mut a = [0u8; 32]; a.copy_from_slice(&unhex("70a4855d04d8fa7b3b2782ca53b600e5c003c7dcb27d7e923c23f7860146d2c5")); a };
        parts.extend_from_slice(&third);
    }
    kec(&[&parts])
}
fn formulas_with(blk: &Block, miner_id: [u8; 32]) -> (String, bool) {
    let mut leaves: Vec<[u8; 32]> = vec![miner_id];
    leaves.extend(blk.tx_hashes.iter().map(|h| h.to_bytes()));
    let root = tree_ref(&leaves);
    let mut blob = header_ref(&blk.header);
    blob.extend_from_slice(&root);
    blob.extend_from_slice(&leb(blk.tx_hashes.len() as u64 + 1));
    let mut id = hex(&kec(&[&leb(blob.len() as u64), &blob]));
    let sub = id == ID_202612_FORMULA;
    if sub { id = ID_202612_NETWORK.to_string(); }
    (format!("ok {} {} {}", hex(&root), hex(&blob), id), sub)
}
fn methods(blk: &Block) -> String {
    let b = blk.clone();
    match guarded(move || format!("ok {} {} {}", hex(b.tx_root().as_bytes()), hex(&b.serialize_hashable()), hex(b.id().as_bytes()))) { Ok(s) => s, Err(m) => format!("PANIC {}", m) }
}
/// cheap distinct leaves (no hashing): 32 bytes from a SplitMix64 stream keyed per case, the index in the first 8 bytes
fn cheap_leaves(rng: &mut Rng, n: usize) -> Vec<[u8; 32]> {
    let mut r = Rng::new(rng.next());
    (0..n).map(|i| { let mut a = [0u8; 32]; a[..8].copy_from_slice(&(i as u64).to_le_bytes()); for c in 1..4 { a[8 * c..8 * c + 8].copy_from_slice(&r.next().to_le_bytes()); } a }).collect()
}
/// `tree_hash` against the recursive definition, in Rust only
fn tree_rust_only(o: &mut Out, leaves: &[[u8; 32]], fam: &str) {
    let hs: Vec<Hash> = leaves.iter().map(|l| Hash::from_slice(l)).collect();
    let got = guarded(move || tree_hash(hs[0], &hs[1..]));
    let want = tree_ref(leaves);
    let got_s = match &got { Ok(h) => hex(h.as_bytes()), Err(m) => format!("PANIC {}", m) };
    o.direct(got_s == hex(&want), "tree_hash == recursive CryptoNote tree hash (Rust oracle)", format!("n={} first leaf {}", leaves.len(), hex(&leaves[0])), got_s, hex(&want));
    o.stat(&format!("tree.{}", fam));
}
/// which quarter of `0..cnt` the number of kept leaves `2*cnt - n` falls into (n >= 3)
fn keep_quartile(n: usize) -> usize { let mut cnt = 1usize; while cnt * 2 < n { cnt *= 2; } ((2 * cnt - n) * 4 / cnt).min(3) }

fn leaves_from_seed(rng: &mut Rng, n: usize) -> Vec<[u8; 32]> {
    // one keyed stream per case: leaf i = keccak(key || i); cheap, and distinct leaves (so order mistakes show)
    let key = rng.next().to_le_bytes();
    (0..n).map(|i| kec(&[&key, &(i as u64).to_le_bytes()])).collect()
}
fn tree_case(o: &mut Out, rng: &mut Rng, n: usize, fam: &str) {
    let leaves = leaves_from_seed(rng, n);
    let hs: Vec<Hash> = leaves.iter().map(|l| Hash::from_slice(l)).collect();
    let got = guarded({ let hs = hs.clone(); move || tree_hash(hs[0], &hs[1..]) });
    let want = tree_ref(&leaves);
    let got_s = match &got { Ok(h) => hex(h.as_bytes()), Err(m) => format!("PANIC {}", m) };
    o.direct(got_s == hex(&want), "tree_hash == recursive CryptoNote tree hash (Rust oracle)", format!("n={} first leaf {}", n, hex(&leaves[0])), got_s, hex(&want));
    o.stat(&format!("tree.{}", fam));
    let cnt = { let mut c = 1usize; while c * 2 < n { c *= 2; } c };
    o.stat(&format!("tree.keep_{}", if n < 3 { "special" } else if 2 * cnt - n == 0 { "zero" } else if 2 * cnt - n == 1 { "one" } else { "many" }));
    let flat: Vec<u8> = leaves.iter().flat_map(|l| l.iter().copied()).collect();
    o.op(format!("c06_tree {}", hex(&flat)), n >= 2);
}

/// `tree_hash` on GIVEN leaves against the recursive definition (Rust oracle; the failure record carries the pattern and the leaves),
/// and, if asked, three-way through the Lean driver
fn tree_case_given(o: &mut Out, leaves: &[[u8; 32]], fam: &str, pattern: &str, through_driver: bool) {
    let hs: Vec<Hash> = leaves.iter().map(|l| Hash::from_slice(l)).collect();
    let got = guarded(move || tree_hash(hs[0], &hs[1..]));
    let want = hex(&tree_ref(leaves));
    let got_s = match &got { Ok(h) => hex(h.as_bytes()), Err(m) => format!("PANIC {}", m) };
    let flat: Vec<u8> = leaves.iter().flat_map(|l| l.iter().copied()).collect();
    o.direct(got_s == want, "tree_hash == recursive CryptoNote tree hash (Rust oracle; zero / repeated leaves are ordinary leaves)", format!("n={} {} leaves={}", leaves.len(), pattern, trunc(&hex(&flat), 1400)), got_s, want);
    o.stat(&format!("tree.{}", fam));
    if through_driver { o.op(format!("c06_tree {}", hex(&flat)), leaves.len() >= 2); o.stat(&format!("tree.{}.driver", fam)); }
}
/// the three methods of one `Block` value called in the order `perm` (0 = tx_root, 1 = serialize_hashable, 2 = id), reported in the
/// canonical order `ok <root> <blob> <id>`
fn methods_in_order(blk: &Block, perm: [usize; 3]) -> String {
    let b = blk.clone();
    match guarded(move || { let mut r = [String::new(), String::new(), String::new()];
        for &m in perm.iter() { r[m] = match m { 0 => hex(b.tx_root().as_bytes()), 1 => hex(&b.serialize_hashable()), _ => hex(b.id().as_bytes()) }; }
        format!("ok {} {} {}", r[0], r[1], r[2]) }) { Ok(s) => s, Err(m) => format!("PANIC {}", m) }
}
const PERMS: [[usize; 3]; 6] = [[0, 1, 2], [0, 2, 1], [1, 0, 2], [1, 2, 0], [2, 0, 1], [2, 1, 0]];
/// the operation line of ONE method of a block (`which` = r | b | i), parts computed as for `c06_block`
fn one_line(blk: &Block, which: &str) -> String {
    let txs: Vec<u8> = blk.tx_hashes.iter().flat_map(|h| h.as_bytes().iter().copied()).collect();
    format!("c06_one {} {} {} {} {}", which, hex(&serialize(blk)), hex(&serialize(&blk.header)), hex(blk.miner_tx.hash().as_bytes()), hex(&txs))
}

fn gen_block(rng: &mut Rng, n_tx: usize) -> Block {
    let header = BlockHeader {
        major_version: VarInt(match rng.below(4) { 0 => rng.below(20), 1 => rng.u64_boundary(), _ => rng.range(1, 16) }),
        minor_version: VarInt(if rng.chance(1, 4) { rng.u64_boundary() } else { rng.below(20) }),
        timestamp: VarInt(if rng.chance(1, 3) { rng.u64_boundary() } else { 1_400_000_000 + rng.below(400_000_000) }),
        prev_id: Hash::from_slice(&rng.arr32()),
        nonce: if rng.chance(1, 4) { *rng.pick(&[0u32, 1, u32::MAX, 0x80000000]) } else { rng.next() as u32 },
    };
    let n_out = rng.range(1, 3) as usize;
    let outputs: Vec<TxOut> = (0..n_out).map(|_| TxOut {
        amount: VarInt(if rng.chance(1, 2) { rng.u64_boundary() } else { rng.below(10_000_000_000_000) }),
        target: if rng.chance(1, 2) { TxOutTarget::ToKey { key: rng.arr32() } } else { TxOutTarget::ToTaggedKey { key: rng.arr32(), view_tag: rng.byte() } },
    }).collect();
    let extra_len = rng.below(40) as usize;
    let prefix = TransactionPrefix {
        version: VarInt(2),
        unlock_time: VarInt(rng.u64_boundary()),
        inputs: vec![TxIn::Gen { height: VarInt(if rng.chance(1, 2) { rng.u64_boundary() } else { rng.below(4_000_000) }) }],
        outputs,
        extra: RawExtraField(rng.bytes(extra_len)),
    };
    let miner_tx = Transaction {
        prefix,
        signatures: vec![],
        rct_signatures: RctSig {
            sig: Some(RctSigBase { rct_type: RctType::Null, txn_fee: Amount::from_pico(0), pseudo_outs: vec![], ecdh_info: vec![], out_pk: vec![] }),
            p: None,
        },
    };
    let tx_hashes: Vec<Hash> = (0..n_tx).map(|_| Hash::from_slice(&rng.arr32())).collect();
    Block { header, miner_tx, tx_hashes }
}

/// like `gen_block`, with a version-1 miner transaction (no RingCT part at all), as in the early chain (block 202612)
fn gen_block_v1(rng: &mut Rng, n_tx: usize) -> Block {
    let mut blk = gen_block(rng, n_tx);
    blk.miner_tx.prefix.version = VarInt(1);
    blk.miner_tx.signatures = vec![];
    blk.miner_tx.rct_signatures = RctSig { sig: None, p: None };
    blk
}

fn block_case(o: &mut Out, blk: &Block, bytes: &[u8], fam: &str) { block_case_opt(o, blk, bytes, fam, true) }
/// identifier operations on block BYTES for other properties (C01): parsed blocks get the full treatment of `block_case` (independent
/// formulas in Rust, model and spec through the driver); bytes that do not parse are compared with the model only. Returns the library's line.
pub fn block_id_case(o: &mut Out, bytes: &[u8], fam: &str) -> String {
    match deserialize::<Block>(bytes) {
        Ok(blk) => { block_case_opt(o, &blk, bytes, fam, true); block_line(bytes) }
        Err(_) => o.op(format!("c06_block {} - - -", hex(bytes)), false),
    }
}
/// `through_driver = false`: Rust oracle only (blocks too large for an operation line)
fn block_case_opt(o: &mut Out, blk: &Block, bytes: &[u8], fam: &str, through_driver: bool) {
    let hdr = serialize(&blk.header);
    // the header bytes that enter the blob are the by-the-book layout of the header's field values (a header codec change that is
    // consistent between encoder and decoder would otherwise be invisible to this property: both sides would get the same bytes)
    { let want_hdr = header_ref(&blk.header);
      o.direct(hdr == want_hdr, "serialize(&block.header) == varint(major) ‖ varint(minor) ‖ varint(timestamp) ‖ prev_id ‖ nonce LE of the header's fields", format!("{:?}", blk.header), hex(&hdr), hex(&want_hdr)); }
    let miner = blk.miner_tx.hash();
    let txs: Vec<u8> = blk.tx_hashes.iter().flat_map(|h| h.as_bytes().iter().copied()).collect();
    // Rust-side oracle: root, blob, id from the independent formulas
    let mut leaves: Vec<[u8; 32]> = vec![miner.to_bytes()];
    leaves.extend(blk.tx_hashes.iter().map(|h| h.to_bytes()));
    let root = tree_ref(&leaves);
    let mut blob = hdr.clone();
    blob.extend_from_slice(&root);
    blob.extend_from_slice(&leb(blk.tx_hashes.len() as u64 + 1));
    let mut id = hex(&kec(&[&leb(blob.len() as u64), &blob]));
    if id == ID_202612_FORMULA { id = ID_202612_NETWORK.to_string(); o.stat("block.id_substituted"); }
    let want = format!("ok {} {} {}", hex(&root), hex(&blob), id);
    let got = block_line(bytes);
    o.direct(got == want, "Block::{tx_root, serialize_hashable, id} == independent formulas (Rust oracle)", trunc(&hex(bytes), 400), trunc(&got, 400), trunc(&want, 400));
    o.stat(&format!("block.{}", fam));
    o.stat(&format!("block.ntx_{}", match blk.tx_hashes.len() { 0 => "0", 1 => "1", 2..=8 => "2-8", 9..=40 => "9-40", _ => ">40" }));
    if through_driver { o.op(format!("c06_block {} {} {} {}", hex(bytes), hex(&hdr), hex(miner.as_bytes()), hex(&txs)), true); } else { o.stat("block.rust_only"); }
}

/// hex string literals of at least 200 digits in the test module of src/blockdata/block.rs that deserialize as blocks
fn repo_test_blocks() -> Vec<Vec<u8>> {
    let src = match std::fs::read_to_string("/repo/src/blockdata/block.rs") { Ok(s) => s, Err(_) => return vec![] };
    let mut out = vec![];
    for piece in src.split('"') {
        if piece.len() >= 200 && piece.len() % 2 == 0 && piece.bytes().all(|c| c.is_ascii_hexdigit()) {
            if let Ok(b) = hex::decode(piece) { if deserialize::<Block>(&b).is_ok() { out.push(b); } }
        }
    }
    out
}

pub fn run(o: &mut Out, tier: &str, seed: u64) {
    let mut rng = Rng::new(seed);
    let thorough = tier == "thorough";
    // (1) every leaf count in an initial segment
    let upto = if thorough { 1100 } else { 300 };
    for n in 1..=upto { tree_case(o, &mut rng, n, "segment"); }
    // (2) around every power of two
    let kmax = if thorough { 16 } else { 12 };
    for k in 2..=kmax {
        let p = 1usize << k;
        for n in (p - 2)..=(p + 2) { if n > upto { tree_case(o, &mut rng, n, "pow2"); } }
    }
    // (2b) `tree_hash_cnt` itself (through the cfg(monero_rs_verif) hook) on a dense initial segment, around every power of
    //      two of the whole domain 3..=2^28, outside the domain (asserts) and at random
    let dense = if thorough { 300_000usize } else { 70_000 };
    for n in 0..=dense { o.op(format!("c06_cnt {}", n), n >= 3); }
    for k in 2..=29u32 { let p = 1usize << k; for n in (p - 2)..=(p + 2) { if n > dense { o.op(format!("c06_cnt {}", n), true); } } }
    for _ in 0..2000 { let n = 3 + rng.below((1 << 28) - 2) as usize; o.op(format!("c06_cnt {}", n), true); }
    o.stat_n("cnt.cases", dense as u64 + 2000 + 140);
    // (2c) large trees at 2^k - 1, 2^k, 2^k + 1: Rust oracle only (fast), three-way through the Lean driver for 2^k + 1, k <= 16
    let kbig = if thorough { 21 } else { 19 };
    for k in 13..=kbig { let p = 1usize << k; for n in [p - 1, p, p + 1] {
        if n <= upto { continue; }
        if n == p + 1 && k <= 16 && (thorough || k >= 15) { tree_case(o, &mut rng, n, "pow2big"); continue; }
        let leaves = leaves_from_seed(&mut rng, n);
        let hs: Vec<Hash> = leaves.iter().map(|l| Hash::from_slice(l)).collect();
        let got = guarded({ let hs = hs.clone(); move || tree_hash(hs[0], &hs[1..]) });
        let want = tree_ref(&leaves);
        let got_s = match &got { Ok(h) => hex(h.as_bytes()), Err(m) => format!("PANIC {}", m) };
        o.direct(got_s == hex(&want), "tree_hash == recursive CryptoNote tree hash (Rust oracle)", format!("n={} first leaf {}", n, hex(&leaves[0])), got_s, hex(&want));
        o.stat("tree.pow2big.rust_only");
    } }
    // (3) degenerate leaves (all equal / all zero): order-insensitive inputs must still agree
    for &n in &[1usize, 2, 3, 4, 5, 7, 8, 9, 33] {
        for fill in [0u8, 0xff] {
            let flat = vec![fill; 32 * n];
            let hs = split32(&flat).unwrap();
            let leaves: Vec<[u8; 32]> = hs.iter().map(|h| h.to_bytes()).collect();
            let got = hex(tree_hash(hs[0], &hs[1..]).as_bytes());
            o.direct(got == hex(&tree_ref(&leaves)), "tree_hash == recursive tree hash (constant leaves)", format!("n={} fill={}", n, fill), got, hex(&tree_ref(&leaves)));
            o.stat("tree.constant");
            o.op(format!("c06_tree {}", hex(&flat)), n >= 2);
        }
    }
    // malformed: empty / not a multiple of 32 bytes
    for l in [0usize, 1, 31, 33, 63, 65] { let b = rng.bytes(l); o.stat("tree.malformed"); o.op(format!("c06_tree {}", hex(&b)), false); }
    // (4) generated blocks: coinbase miner tx (v2, one Gen input, RctType::Null), 0..40 tx hashes, counts around powers of two
    let mut counts: Vec<usize> = vec![0, 1, 2, 3, 4, 5, 6, 7, 8, 9, 14, 15, 16, 17, 18, 30, 31, 32, 33, 34, 62, 63, 64, 65, 126, 127, 128, 129];
    let n_blocks = if thorough { 600 } else { 200 };
    while counts.len() < n_blocks { counts.push(rng.below(41) as usize); }
    if thorough { counts.extend_from_slice(&[254, 255, 256, 257, 510, 511, 512, 513, 1023, 1024, 1025]); }
    for n_tx in counts {
        let blk = gen_block(&mut rng, n_tx);
        let bytes = serialize(&blk);
        let back = deserialize::<Block>(&bytes).ok();
        o.direct(back.as_ref() == Some(&blk), "generated block round-trips through the codec", trunc(&hex(&bytes), 400), format!("{}", back.is_some()), "same block".into());
        block_case(o, &blk, &bytes, "generated");
    }
    // (4b) value coincidences: the miner transaction's own hash listed among the transaction hashes (first, last, alone, twice),
    //      and duplicate hashes - the root is over the list as given
    for variant in 0..8u32 { let mut blk = gen_block(&mut rng, (variant % 4) as usize + 1); let mh = blk.miner_tx.hash();
        match variant { 0 => blk.tx_hashes = vec![mh], 1 => blk.tx_hashes[0] = mh, 2 => { let l = blk.tx_hashes.len(); blk.tx_hashes[l - 1] = mh; } 3 => { blk.tx_hashes.insert(0, mh); blk.tx_hashes.push(mh); }
            4 => blk.tx_hashes = vec![mh, mh], 5 => { let h = blk.tx_hashes[0]; blk.tx_hashes.push(h); } 6 => blk.tx_hashes = vec![Hash::null(); 3], _ => { blk.tx_hashes.insert(1.min(blk.tx_hashes.len()), mh); } }
        let bytes = serialize(&blk); block_case(o, &blk, &bytes, "miner_hash_listed"); }
    // (5) blocks quoted in the library's own tests (includes block 202612 with its 513 transactions)
    let quoted = repo_test_blocks();
    o.notes.push(format!("C06: {} block(s) taken from the tests of src/blockdata/block.rs", quoted.len()));
    for b in quoted { let blk = deserialize::<Block>(&b).unwrap(); block_case(o, &blk, &b, "repo_test");
        // neighbours of each quoted block (in particular of block 202612, the only legitimate exception): same height and
        // transaction count but different content must follow the formula
        for v in 0..8u32 { let mut m = blk.clone();
            match v { 0 => m.header.nonce = m.header.nonce.wrapping_add(1), 1 => m.header.timestamp.0 += 1, 2 => m.header.prev_id = Hash::from_slice(&rng.arr32()),
                3 => { if let Some(h) = m.tx_hashes.last_mut() { *h = Hash::from_slice(&rng.arr32()); } } 4 => { m.tx_hashes.pop(); } 5 => { if m.tx_hashes.len() >= 2 { m.tx_hashes.swap(0, 1); } }
                6 => { m.header.major_version.0 += 1; } _ => { m.tx_hashes = (0..m.tx_hashes.len()).map(|_| Hash::from_slice(&rng.arr32())).collect(); } }
            let mb = serialize(&m); block_case(o, &m, &mb, "repo_test_neighbour"); } }

    // ===== families added after the audit of C06 =====
    // (6) known answers. Monero's own tree-hash vectors: library == expected root, independent oracle == expected root (anchors
    //     `tree_ref` and, through the operation line, the Lean `treeSpec` and the model to the reference implementation's test data)
    let mut kat = 0;
    for (want, flat) in TREE_KAT.iter() {
        let b = unhex(flat);
        let leaves: Vec<[u8; 32]> = b.chunks(32).map(|c| { let mut a = [0u8; 32]; a.copy_from_slice(c); a }).collect();
        let got = o.op(format!("c06_tree {}", flat), leaves.len() >= 2);
        o.direct(&got == want, "tree_hash == Monero's test vector (tests-tree.txt)", format!("n={} {}", leaves.len(), trunc(flat, 200)), got.clone(), want.to_string());
        o.direct(hex(&tree_ref(&leaves)) == *want, "independent recursive oracle == Monero's test vector (tests-tree.txt)", format!("n={}", leaves.len()), hex(&tree_ref(&leaves)), want.to_string());
        o.stat("tree.known_answer"); kat += 1;
    }
    o.direct(kat == 16, "all 16 embedded tree-hash vectors were run", "TREE_KAT".into(), kat.to_string(), "16".into());
    // the block-hashing blob accepted by monerod for a main-chain block
    { let b = unhex(KAT_BLOCK);
      match deserialize::<Block>(&b) {
          Ok(blk) => { let got = hex(&blk.serialize_hashable());
              o.direct(got == KAT_BLOB, "serialize_hashable == block-hashing blob accepted by monerod (known answer)", trunc(KAT_BLOCK, 200), got, KAT_BLOB.into());
              let (want, _) = formulas(&blk);
              o.direct(want.split(' ').nth(2) == Some(KAT_BLOB), "independent formulas == block-hashing blob accepted by monerod (known answer)", trunc(KAT_BLOCK, 200), want.clone(), KAT_BLOB.into());
              block_case(o, &blk, &b, "known_answer"); }
          Err(e) => o.direct(false, "the known-answer block deserializes", trunc(KAT_BLOCK, 200), format!("{:?}", e), "Ok".into()),
      } }
    // (7) block 202612, EMBEDDED (the only input that reaches the substitution branch), and its neighbours. The run FAILS when the
    //     branch was not reached by the independent formula (floor on `block.id_substituted`).
    { let b = unhex(BLOCK_202612.trim());
      let before = o.stats.get("block.id_substituted").copied().unwrap_or(0);
      match deserialize::<Block>(&b) {
          Ok(blk) => {
              o.direct(blk.tx_hashes.len() == 513 && blk.miner_tx.prefix.version.0 == 1, "embedded block 202612 has 513 listed hashes and a version-1 miner transaction", "BLOCK_202612".into(), format!("{} hashes, v{}", blk.tx_hashes.len(), blk.miner_tx.prefix.version.0), "513 hashes, v1".into());
              let got_id = hex(blk.id().as_bytes());
              o.direct(got_id == ID_202612_NETWORK, "Block::id of block 202612 == the identifier under which the network knows it", "BLOCK_202612".into(), got_id, ID_202612_NETWORK.into());
              let (want, sub) = formulas(&blk);
              o.direct(sub, "the identifier FORMULA on block 202612 gives 426d16cf… (the substitution branch is reached)", "BLOCK_202612".into(), trunc(&want, 300), ID_202612_FORMULA.into());
              block_case(o, &blk, &b, "embedded_202612");
              // neighbours: every single-field change of block 202612 must follow the plain formula (exception keyed on anything
              // but the computed hash — height, count, prefix of the hash — shows here)
              for v in 0..12u32 { let mut m = blk.clone();
                  match v { 0 => m.header.nonce = m.header.nonce.wrapping_add(1), 1 => m.header.nonce = m.header.nonce.wrapping_sub(1), 2 => m.header.timestamp.0 += 1, 3 => m.header.prev_id = Hash::from_slice(&rng.arr32()),
                      4 => { if let Some(h) = m.tx_hashes.last_mut() { let mut x = h.to_bytes(); x[31] ^= 1; *h = Hash::from_slice(&x); } }
                      5 => { let mut x = m.tx_hashes[0].to_bytes(); x[0] ^= 0x80; m.tx_hashes[0] = Hash::from_slice(&x); }
                      6 => { m.tx_hashes.pop(); } 7 => { m.tx_hashes.push(Hash::from_slice(&rng.arr32())); } 8 => { m.tx_hashes.swap(0, 512); }
                      9 => { m.header.minor_version.0 += 1; } 10 => { m.miner_tx.prefix.unlock_time.0 += 1; } _ => { m.tx_hashes.reverse(); } }
                  let mb = serialize(&m);
                  let (w, s2) = formulas(&m);
                  o.direct(!s2 && !w.ends_with(ID_202612_NETWORK), "a neighbour of block 202612 does not get the substituted identifier (formula side)", format!("variant {}", v), trunc(&w, 200), "plain formula".into());
                  block_case(o, &m, &mb, "embedded_202612_neighbour"); }
          }
          Err(e) => o.direct(false, "embedded block 202612 deserializes", "BLOCK_202612".into(), format!("{:?}", e), "Ok".into()),
      }
      let after = o.stats.get("block.id_substituted").copied().unwrap_or(0);
      o.direct(after > before, "FLOOR: the block-202612 substitution was exercised at least once by the embedded block", "block.id_substituted".into(), (after - before).to_string(), ">= 1".into()); }
    // (8) leaf counts STRICTLY BETWEEN the powers of two (a size-gated path wrong for a mid-range `keep` is not executed by 2^k±2):
    //     random n in (2^k, 2^(k+1)), Rust oracle only, counted by the quarter of 0..cnt that `keep` falls into; a few through the driver
    { let (nrand, kmax, nbig) = if thorough { (400usize, 16u32, 24usize) } else { (120, 15, 8) };
      for t in 0..nrand + nbig {
          let k = if t < nrand { 8 + (t as u32 % (kmax - 7)) } else { if thorough { 17 } else { 16 } };
          let p = 1usize << k;
          let n = match t % 5 { 0 => p + p / 2, 1 => p + 1 + rng.below(p as u64 / 8) as usize + 2, 2 => 2 * p - 3 - rng.below(p as u64 / 8) as usize, _ => p + 3 + rng.below(p as u64 - 5) as usize };
          let leaves = cheap_leaves(&mut rng, n);
          tree_rust_only(o, &leaves, "between.rust_only");
          o.stat(&format!("tree.between.keep_quartile_{}", keep_quartile(n)));
      }
      let ndrv = if thorough { 24 } else { 6 };
      for t in 0..ndrv {
          let k = 9 + (t as u32 % if thorough { 6 } else { 4 });
          let p = 1usize << k;
          let n = if t % 3 == 0 { p + p / 2 + rng.below(8) as usize } else { p + 3 + rng.below(p as u64 - 5) as usize };
          if n <= upto { continue; }
          tree_case(o, &mut rng, n, "between");
          o.stat(&format!("tree.between.keep_quartile_{}", keep_quartile(n)));
      } }
    // (9) blocks at the width boundaries of the count varint `1 + n` (2 → 3 bytes at 16 384; `as u16` would wrap at 65 536): Rust
    //     oracle only (such a block is 0.5–2 MB). The expected count bytes are written out by hand.
    { let table: [(usize, &[u8]); 7] = [(126, &[0x7f]), (127, &[0x80, 0x01]), (16382, &[0xff, 0x7f]), (16383, &[0x80, 0x80, 0x01]), (16384, &[0x81, 0x80, 0x01]), (65535, &[0x80, 0x80, 0x04]), (65536, &[0x81, 0x80, 0x04])];
      for (n_tx, tail) in table.iter() {
          let mut blk = if rng.chance(1, 2) { gen_block(&mut rng, 0) } else { gen_block_v1(&mut rng, 0) };
          blk.tx_hashes = cheap_leaves(&mut rng, *n_tx).iter().map(|l| Hash::from_slice(l)).collect();
          let bytes = serialize(&blk);
          let blob = blk.serialize_hashable();
          let hl = serialize(&blk.header).len();
          o.direct(blob.len() == hl + 32 + tail.len() && blob[hl + 32..] == **tail, "the blob ends with varint(1 + number of listed hashes) (bytes written out by hand)", format!("n_tx={}", n_tx), hex(&blob[(hl + 32).min(blob.len())..]), hex(tail));
          let back = deserialize::<Block>(&bytes).ok();
          o.direct(back.as_ref() == Some(&blk), "generated block round-trips through the codec", format!("n_tx={}", n_tx), format!("{}", back.is_some()), "same block".into());
          block_case_opt(o, &blk, &bytes, "count_varint_boundary", *n_tx <= 127);
      } }
    // (10) version-1 miner transactions (identifier = hash of the whole serialisation), counts around powers of two
    for &n_tx in &[0usize, 1, 2, 3, 4, 7, 8, 9, 31, 32, 33] {
        let blk = gen_block_v1(&mut rng, n_tx);
        let bytes = serialize(&blk);
        let back = deserialize::<Block>(&bytes).ok();
        o.direct(back.as_ref() == Some(&blk), "generated block (v1 miner tx) round-trips through the codec", trunc(&hex(&bytes), 400), format!("{}", back.is_some()), "same block".into());
        block_case(o, &blk, &bytes, "generated_v1");
    }
    // (11) call sequences on ONE `Block` value: `id()` first on a fresh value, the three methods in every order, public fields
    //      changed between calls (a memo of the root / blob / id inside the value, or keyed on part of it, shows here)
    for t in 0..if thorough { 120 } else { 40 } {
        let n0 = rng.below(12) as usize;
        let mut blk = if t % 4 == 3 { gen_block_v1(&mut rng, n0) } else { gen_block(&mut rng, n0) };
        let want0 = formulas(&blk).0;
        let w: Vec<&str> = want0.split(' ').collect();
        let first = match t % 3 { 0 => hex(blk.id().as_bytes()), 1 => hex(&blk.serialize_hashable()), _ => hex(blk.tx_root().as_bytes()) };
        let want_first = match t % 3 { 0 => w[3], 1 => w[2], _ => w[1] };
        o.direct(first == want_first, "first method called on a fresh Block value (id / serialize_hashable / tx_root) == independent formula", format!("which={} {:?}", t % 3, blk.header), first.clone(), want_first.to_string());
        // the other two afterwards, in the opposite order, then all of them again
        let got_all = format!("ok {} {} {}", hex(blk.tx_root().as_bytes()), hex(&blk.serialize_hashable()), hex(blk.id().as_bytes()));
        o.direct(got_all == want0, "methods called again after the first call == independent formulas", format!("which={}", t % 3), trunc(&got_all, 300), trunc(&want0, 300));
        for step in 0..6u32 {
            match (t + step) % 6 { 0 => blk.tx_hashes.push(Hash::from_slice(&rng.arr32())), 1 => { blk.tx_hashes.pop(); } 2 => blk.header.nonce = blk.header.nonce.wrapping_add(1 + rng.below(3) as u32),
                3 => blk.miner_tx.prefix.unlock_time.0 = blk.miner_tx.prefix.unlock_time.0.wrapping_add(1), 4 => { if let Some(h) = blk.tx_hashes.first_mut() { *h = Hash::from_slice(&rng.arr32()); } }
                _ => { blk.header.timestamp.0 = blk.header.timestamp.0.wrapping_add(1); let l = blk.tx_hashes.len(); if l >= 2 { blk.tx_hashes.swap(0, l - 1); } } }
            let want = formulas(&blk).0;
            let got = if step % 2 == 0 { let i = hex(blk.id().as_bytes()); let b = hex(&blk.serialize_hashable()); let r = hex(blk.tx_root().as_bytes()); format!("ok {} {} {}", r, b, i) } else { methods(&blk) };
            o.direct(got == want, "after changing a public field of the same Block value the three methods follow the new value", format!("t={} step={}", t, step), trunc(&got, 300), trunc(&want, 300));
            o.stat("block.sequence_step");
        }
    }

    // (13) blocks whose MINER transaction is not a plain coinbase: version 2 with a single Gen input and a NON-Null RingCT part (each of
    //      the six types, with outputs, with and without range proofs), version 2 / version 1 with key inputs (rings, signatures), mixed
    //      inputs, version 2 with a Gen input and NO RingCT base (a value that only exists in memory). A root computed by a "coinbase fast
    //      path" (H(prefix) ‖ H(0x00) ‖ 0^32 for every single-Gen-input v2 transaction) instead of `miner_tx.hash()` is wrong exactly here.
    //      Three-way: library vs the model computed from the BLOCK BYTES (codec model, model of Transaction::hash) vs the formulas with a
    //      transaction identifier computed WITHOUT `Transaction::hash` (`tx_id_ref`).
    { use crate::gen::{tx_of, Shape, RCT_TYPES};
      let mut shapes: Vec<(Shape, &str)> = vec![];
      for &rct in RCT_TYPES[1..].iter() { for nout in [1usize, 2, 3] { for nbp in [0usize, 1] {
          shapes.push((Shape { vary_rings: false, version: 2, nin: 1, ring: 1, nout, coinbase_first: true, all_coinbase: true, rct, nbp, extra_len: 33 + nout }, "gen_input_nonnull_rct")); } } }
      for &rct in RCT_TYPES.iter() { for nin in [1usize, 2] {
          shapes.push((Shape { vary_rings: nin == 2, version: 2, nin, ring: 2, nout: 2, coinbase_first: false, all_coinbase: false, rct, nbp: 1, extra_len: 34 }, "key_input_v2"));
          shapes.push((Shape { vary_rings: false, version: 2, nin: nin + 1, ring: 1, nout: 1, coinbase_first: true, all_coinbase: false, rct, nbp: 1, extra_len: 10 }, "gen_and_key_inputs_v2")); } }
      for nin in [1usize, 2, 3] {
          shapes.push((Shape { vary_rings: true, version: 1, nin, ring: 3, nout: 2, coinbase_first: false, all_coinbase: false, rct: RctType::Null, nbp: 0, extra_len: 20 }, "key_input_v1"));
          shapes.push((Shape { vary_rings: false, version: 1, nin, ring: 1, nout: 1, coinbase_first: true, all_coinbase: nin == 1, rct: RctType::Null, nbp: 0, extra_len: 44 }, "gen_input_v1")); }
      shapes.push((Shape { vary_rings: false, version: 2, nin: 0, ring: 1, nout: 1, coinbase_first: false, all_coinbase: false, rct: RctType::Null, nbp: 0, extra_len: 5 }, "no_inputs_v2"));
      shapes.push((Shape { vary_rings: false, version: 2, nin: 1, ring: 1, nout: 2, coinbase_first: true, all_coinbase: true, rct: RctType::Null, nbp: 0, extra_len: 40 }, "gen_input_null_rct"));
      let reps = if thorough { 4 } else { 1 };
      for (sh, fam) in shapes.iter() { for rep in 0..reps {
          let n_tx = match (rep + sh.nout + sh.nin) % 4 { 0 => 0, 1 => 1, 2 => 2 + rng.below(3) as usize, _ => 7 + rng.below(10) as usize };
          let mut blk = gen_block(&mut rng, n_tx);
          blk.miner_tx = tx_of(&mut rng, sh);
          let bytes = serialize(&blk);
          let back = deserialize::<Block>(&bytes).ok();
          o.direct(back.as_ref() == Some(&blk), "generated block (non-coinbase-shaped miner tx) round-trips through the codec", format!("{} {:?}", fam, sh), format!("{}", back.is_some()), "same block".into());
          let mid = tx_id_ref(&blk.miner_tx);
          o.direct(blk.miner_tx.hash().to_bytes() == mid, "miner_tx.hash() == identifier computed without Transaction::hash", format!("{} {:?}", fam, sh), hex(blk.miner_tx.hash().as_bytes()), hex(&mid));
          let (want, _) = formulas_with(&blk, mid);
          let got = methods(&blk);
          o.direct(got == want, "Block::{tx_root, serialize_hashable, id} == formulas over the independently computed miner-tx identifier", format!("{} {:?} n_tx={}", fam, sh, n_tx), trunc(&got, 300), trunc(&want, 300));
          block_case(o, &blk, &bytes, &format!("minertx.{}", fam));
      } }
      // version 2, one Gen input, NO RingCT base: identifier = H(H(prefix)); exists as a value only (its bytes do not parse back)
      for n_tx in [0usize, 1, 2, 5] {
          let mut blk = gen_block(&mut rng, n_tx);
          blk.miner_tx.rct_signatures = RctSig { sig: None, p: None };
          let mid = tx_id_ref(&blk.miner_tx);
          let pre_only = kec(&[&kec(&[&serialize(&blk.miner_tx.prefix)])]);
          o.direct(mid == pre_only && blk.miner_tx.hash().to_bytes() == mid, "v2 miner tx without RingCT base: hash() == H(H(prefix))", format!("n_tx={}", n_tx), hex(blk.miner_tx.hash().as_bytes()), hex(&pre_only));
          let (want, _) = formulas_with(&blk, mid);
          let got = methods(&blk);
          o.direct(got == want, "Block::{tx_root, serialize_hashable, id} on a v2 Gen-input miner tx WITHOUT RingCT base == formulas (value level)", format!("n_tx={} {:?}", n_tx, blk.header), trunc(&got, 300), trunc(&want, 300));
          o.stat("block.minertx.gen_input_no_rct_base.value_only");
      } }
    // (14) header fields major / minor / timestamp >= 2^63 (10-byte varints; the header is then up to 66 bytes and the blob up to 101, which
    //      moves the blob-length prefix hashed by `id()`), all 8 wide/narrow combinations, boundary values
    { let wide: [u64; 6] = [1 << 63, (1 << 63) + 1, u64::MAX, u64::MAX - 1, (1 << 63) | 0x7f, 0xffff_ffff_0000_0000];
      for t in 0..if thorough { 96u32 } else { 32 } {
          let n_tx = match t % 4 { 0 => 0, 1 => 1, 2 => 3, _ => rng.below(20) as usize };
          let mut blk = if t % 5 == 4 { gen_block_v1(&mut rng, n_tx) } else { gen_block(&mut rng, n_tx) };
          let mask = if t < 8 { 7 - t } else { 1 + rng.below(7) as u32 };
          if mask & 1 != 0 { blk.header.major_version = VarInt(if rng.chance(1, 3) { (1 << 63) | (rng.next() >> 1) } else { *rng.pick(&wide) }); }
          if mask & 2 != 0 { blk.header.minor_version = VarInt(if rng.chance(1, 3) { (1 << 63) | (rng.next() >> 1) } else { *rng.pick(&wide) }); }
          if mask & 4 != 0 { blk.header.timestamp = VarInt(if rng.chance(1, 3) { (1 << 63) | (rng.next() >> 1) } else { *rng.pick(&wide) }); }
          let bytes = serialize(&blk);
          let hl = serialize(&blk.header).len();
          let wides = (mask & 1) + ((mask >> 1) & 1) + ((mask >> 2) & 1);
          o.direct(hl >= 36 + 10 * wides as usize + (3 - wides as usize), "a header with k fields >= 2^63 has at least 36 + 10k + (3-k) bytes", format!("{:?}", blk.header), hl.to_string(), format!(">= {}", 36 + 10 * wides + (3 - wides)));
          let blob = blk.serialize_hashable();
          let idh = hex(blk.id().as_bytes());
          let want_id = hex(&kec(&[&leb(blob.len() as u64), &blob]));
          o.direct(idh == want_id, "id == H(varint(|blob|) ‖ blob) over the library's own blob (wide header)", format!("{:?} |blob|={}", blk.header, blob.len()), idh, want_id);
          block_case(o, &blk, &bytes, "header_wide");
          o.stat(&format!("block.header_wide.fields_{}", wides));
      } }
    // ===== families added after the review of C06 (seeded changes that the families above did not notice) =====
    // (15) `header.prev_id` EQUAL TO ONE OF THE TWO BLOCK-202612 CONSTANTS (the formula identifier 426d16cf… and the network identifier
    //      bbd604d2…; block 202613 of the main chain really has the latter as its prev_id), and their one-bit neighbours. The substitution
    //      applies to the computed identifier of a block only; a header field is hashed verbatim. Checked: the blob carries prev_id verbatim
    //      at its offset, blob / root / id == the formulas over the header's field VALUES (Rust oracle), three-way through the driver (the
    //      model works from the block bytes). Also: block 202612 itself with such a prev_id, its child assembled from the library's own
    //      `id()` and from the formula identifier, and parent → child chains of generated blocks.
    { let correct = unhex(ID_202612_FORMULA); let existing = unhex(ID_202612_NETWORK);
      let mut pids: Vec<(Vec<u8>, &str)> = vec![(correct.clone(), "formula_id"), (existing.clone(), "network_id")];
      { let mut x = correct.clone(); x[31] ^= 1; pids.push((x, "formula_id_bitflip")); }
      { let mut x = existing.clone(); x[0] ^= 0x80; pids.push((x, "network_id_bitflip")); }
      { let mut x = correct.clone(); x.reverse(); pids.push((x, "formula_id_reversed")); }
      let mut prev_case = |o: &mut Out, blk: &Block, name: &str, through_driver: bool| {
          let bytes = serialize(blk);
          let back = deserialize::<Block>(&bytes).ok();
          o.direct(back.as_ref() == Some(blk), "generated block (special prev_id) round-trips through the codec", format!("{} {:?}", name, blk.header), format!("{}", back.is_some()), "same block".into());
          let off = leb(blk.header.major_version.0).len() + leb(blk.header.minor_version.0).len() + leb(blk.header.timestamp.0).len();
          let b2 = blk.clone();
          let blob = guarded(move || b2.serialize_hashable()).unwrap_or_default();
          let at = if blob.len() >= off + 32 { hex(&blob[off..off + 32]) } else { "blob too short".into() };
          o.direct(at == hex(blk.header.prev_id.as_bytes()), "the proof-of-work blob carries header.prev_id VERBATIM after the three header varints (no substitution applies to a header field)", format!("{} {:?}", name, blk.header), at, hex(blk.header.prev_id.as_bytes()));
          let (want, _) = formulas(blk);
          let got = methods(blk);
          o.direct(got == want, "Block::{tx_root, serialize_hashable, id} == formulas over the header's field VALUES (prev_id = a block-202612 constant or a neighbour)", format!("{} {:?} n_tx={}", name, blk.header, blk.tx_hashes.len()), trunc(&got, 300), trunc(&want, 300));
          // id first on a fresh value (an override applied inside `id` only)
          let b3 = blk.clone();
          let id_first = guarded(move || hex(b3.id().as_bytes())).unwrap_or_else(|m| format!("PANIC {}", m));
          o.direct(Some(id_first.as_str()) == want.split(' ').nth(3), "Block::id called first == formula (special prev_id)", format!("{} {:?}", name, blk.header), id_first.clone(), want.split(' ').nth(3).unwrap_or("").to_string());
          block_case_opt(o, blk, &bytes, &format!("prev_id.{}", name), through_driver);
      };
      for (pid, name) in pids.iter() { for v in 0..if thorough { 12usize } else { 6 } {
          let n_tx = match v % 6 { 0 => 0, 1 => 1, 2 => 2, 3 => 4, 4 => rng.below(12) as usize, _ => 3 + rng.below(30) as usize };
          let mut blk = if v % 2 == 1 { gen_block_v1(&mut rng, n_tx) } else { gen_block(&mut rng, n_tx) };
          blk.header.prev_id = Hash::from_slice(pid);
          prev_case(o, &blk, name, true);
      } }
      // the constants as LEAVES (listed hashes): the root is over the list as given
      for (v, (pid, name)) in pids.iter().take(2).enumerate() {
          let mut blk = gen_block(&mut rng, 2 + v);
          blk.tx_hashes[v] = Hash::from_slice(pid);
          let bytes = serialize(&blk);
          let (want, _) = formulas(&blk); let got = methods(&blk);
          o.direct(got == want, "Block::{tx_root, serialize_hashable, id} == formulas (a block-202612 constant among the listed hashes)", format!("{} position {}", name, v), trunc(&got, 300), trunc(&want, 300));
          block_case(o, &blk, &bytes, &format!("listed.{}", name));
      }
      // block 202612 itself with such a prev_id, and its children
      if let Ok(b12) = deserialize::<Block>(&unhex(BLOCK_202612.trim())) {
          for (pid, name) in pids.iter().take(2) { let mut m = b12.clone(); m.header.prev_id = Hash::from_slice(pid); prev_case(o, &m, &format!("block202612_with_{}", name), true); }
          // the real successor's shape: prev_id = the identifier the LIBRARY reports for block 202612 (must be the network identifier);
          // and the child a node recomputing identifiers by the formula would assemble (prev_id = the formula identifier)
          let lib_id = b12.id();
          o.direct(hex(lib_id.as_bytes()) == ID_202612_NETWORK, "Block::id of block 202612 (used as the child's prev_id) == network identifier", "BLOCK_202612".into(), hex(lib_id.as_bytes()), ID_202612_NETWORK.into());
          for (k, pid) in [lib_id.to_bytes().to_vec(), correct.clone()].iter().enumerate() { for v in 0..2usize {
              let nc = if v == 0 { 0 } else { 1 + rng.below(6) as usize };
              let mut c = gen_block_v1(&mut rng, nc);
              c.header.major_version = VarInt(1); c.header.minor_version = VarInt(0); c.header.timestamp = VarInt(b12.header.timestamp.0 + 60 + rng.below(120));
              c.header.prev_id = Hash::from_slice(pid);
              prev_case(o, &c, if k == 0 { "child_of_202612_by_library_id" } else { "child_of_202612_by_formula_id" }, true);
          } }
      } else { o.direct(false, "embedded block 202612 deserializes", "BLOCK_202612".into(), "Err".into(), "Ok".into()); }
      // chains of generated blocks: the child's prev_id is the parent's identifier as the library computes it
      for _ in 0..if thorough { 12 } else { 4 } {
          let n0 = rng.below(6) as usize; let mut parent = gen_block(&mut rng, n0);
          for depth in 0..3usize {
              let pid = parent.id();
              o.direct(Some(hex(pid.as_bytes()).as_str()) == formulas(&parent).0.split(' ').nth(3), "parent id == formula (chain)", format!("depth {}", depth), hex(pid.as_bytes()), formulas(&parent).0);
              let n1 = rng.below(6) as usize; let mut child = if depth == 1 { gen_block_v1(&mut rng, n1) } else { gen_block(&mut rng, n1) };
              child.header.prev_id = pid;
              prev_case(o, &child, "chain", depth == 0);
              parent = child;
          }
      } }
    // (16) ALL-ZERO hashes and EQUAL NEIGHBOURING leaves at every small position. An all-zero leaf / a repeated leaf is an ordinary leaf (a
    //      streaming tree hash that uses the zero hash as its "empty slot" marker, or de-duplicates, is wrong exactly here). All other
    //      leaves are distinct, so a dropped or merged leaf changes the root. Rust oracle for every case, three-way for the small ones.
    { let nmax = if thorough { 64usize } else { 24 };
      let (drv_single, drv_multi) = if thorough { (16usize, 10usize) } else { (9, 7) };
      for n in 1..=nmax {
          let base = leaves_from_seed(&mut rng, n);
          // a single zero leaf at every position
          for p in 0..n { let mut l = base.clone(); l[p] = [0u8; 32]; tree_case_given(o, &l, "zero_single", &format!("zero at {}", p), n <= drv_single); }
          // equal neighbours at every position
          for p in 0..n.saturating_sub(1) { let mut l = base.clone(); l[p + 1] = l[p]; tree_case_given(o, &l, "equal_neighbours", &format!("leaf {} == leaf {}", p + 1, p), n <= drv_multi + 1); }
          if n > 32 { continue; }
          // zero at all even / all odd positions; a zero prefix / suffix of every length; everything zero except one leaf
          for par in 0..2usize { let mut l = base.clone(); for p in 0..n { if p % 2 == par { l[p] = [0u8; 32]; } } tree_case_given(o, &l, "zero_parity", &format!("zero at all positions = {} mod 2", par), n <= drv_multi); }
          if n <= 16 { for k in 1..=n {
              { let mut l = base.clone(); for p in 0..k { l[p] = [0u8; 32]; } tree_case_given(o, &l, "zero_prefix", &format!("zero at 0..{}", k), n <= drv_multi && (k <= 3 || k == n)); }
              { let mut l = base.clone(); for p in n - k..n { l[p] = [0u8; 32]; } tree_case_given(o, &l, "zero_suffix", &format!("zero at {}..{}", n - k, n), n <= drv_multi && (k <= 3 || k == n - 1)); }
          } }
          { let keep = rng.below(n as u64) as usize; let mut l = vec![[0u8; 32]; n]; l[keep] = base[keep]; tree_case_given(o, &l, "zero_all_but_one", &format!("zero everywhere except {}", keep), n <= drv_multi); }
          // two random zero positions
          if n >= 3 { for _ in 0..3 { let (p, q) = (rng.below(n as u64) as usize, rng.below(n as u64) as usize); let mut l = base.clone(); l[p] = [0u8; 32]; l[q] = [0u8; 32]; tree_case_given(o, &l, "zero_pair", &format!("zero at {} and {}", p, q), false); } }
          // repeated values: a,b,a,b,…; a,a,b,b,…; second half = first half; one value everywhere (non-zero); a leaf equal to the hash of its two left neighbours
          { let l: Vec<[u8; 32]> = (0..n).map(|i| base[i % 2]).collect(); tree_case_given(o, &l, "repeat_alternating", "a,b,a,b,…", n <= drv_multi); }
          { let l: Vec<[u8; 32]> = (0..n).map(|i| base[i / 2]).collect(); tree_case_given(o, &l, "repeat_pairs", "a,a,b,b,…", n <= drv_multi); }
          if n >= 2 { let l: Vec<[u8; 32]> = (0..n).map(|i| base[i % ((n + 1) / 2)]).collect(); tree_case_given(o, &l, "repeat_halves", "second half repeats the first", n <= drv_multi); }
          { let l = vec![base[0]; n]; tree_case_given(o, &l, "repeat_all", "one non-zero value everywhere", n <= drv_multi); }
          if n >= 3 { let p = 2 + rng.below(n as u64 - 2) as usize; let mut l = base.clone(); l[p] = kec(&[&base[p - 2], &base[p - 1]]); tree_case_given(o, &l, "leaf_is_inner_node", &format!("leaf {} = H(leaf {} ‖ leaf {})", p, p - 2, p - 1), n <= drv_multi); }
      }
      // in BLOCKS: the null hash at every listed position (leaf index = position + 1), at all even / odd listed positions, equal neighbouring
      // listed hashes, a listed hash equal to the miner-transaction identifier's neighbour
      let bmax = if thorough { 10usize } else { 6 };
      for n_tx in 1..=bmax {
          for p in 0..n_tx { let mut blk = if (n_tx + p) % 3 == 0 { gen_block_v1(&mut rng, n_tx) } else { gen_block(&mut rng, n_tx) };
              blk.tx_hashes[p] = Hash::null();
              let (want, _) = formulas(&blk); let got = methods(&blk);
              o.direct(got == want, "Block::{tx_root, serialize_hashable, id} == formulas (a null hash among the listed hashes)", format!("n_tx={} null at {}", n_tx, p), trunc(&got, 300), trunc(&want, 300));
              let bytes = serialize(&blk); block_case(o, &blk, &bytes, "null_listed"); }
          for par in 0..2usize { let mut blk = gen_block(&mut rng, n_tx); for p in 0..n_tx { if p % 2 == par { blk.tx_hashes[p] = Hash::null(); } }
              let (want, _) = formulas(&blk); let got = methods(&blk);
              o.direct(got == want, "Block::{tx_root, serialize_hashable, id} == formulas (null hashes at every second listed position)", format!("n_tx={} parity {}", n_tx, par), trunc(&got, 300), trunc(&want, 300));
              let bytes = serialize(&blk); block_case(o, &blk, &bytes, "null_listed_parity"); }
          for p in 0..n_tx - 1 { let mut blk = gen_block(&mut rng, n_tx); blk.tx_hashes[p + 1] = blk.tx_hashes[p];
              let bytes = serialize(&blk); block_case(o, &blk, &bytes, "equal_listed_neighbours"); }
      }
      // larger blocks, Rust oracle only: null at a random position of the kept prefix and of the paired tail
      for _ in 0..if thorough { 40 } else { 12 } { let n_tx = 9 + rng.below(200) as usize; let mut blk = gen_block(&mut rng, n_tx);
          for _ in 0..1 + rng.below(3) { let p = rng.below(n_tx as u64) as usize; blk.tx_hashes[p] = Hash::null(); }
          let (want, _) = formulas(&blk); let got = methods(&blk);
          o.direct(got == want, "Block::{tx_root, serialize_hashable, id} == formulas (null hashes in a larger block)", format!("n_tx={}", n_tx), trunc(&got, 300), trunc(&want, 300));
          o.stat("block.null_listed.rust_only"); } }
    // (17) THE SAME BLOCK TWICE, AND PAIRS OF BLOCKS SHARING HEADER AND COUNT but differing in the miner transaction or in the content / order of
    //      the listed hashes, hashed ONE AFTER THE OTHER on this thread through `serialize_hashable`, `tx_root` and `id`: each method alone on a
    //      then on b (then b again, then a again), the three methods in every order, and as single-method operation lines `c06_one` (three-way;
    //      the shared purity re-check executes them again in a shuffled order). A per-thread template / memo keyed on part of the block
    //      (header without nonce + count, …) returns the first block's root here.
    { let reps = if thorough { 160usize } else { 56 };
      for t in 0..reps {
          let n = match t % 5 { 0 => 0, 1 => 1, 2 => 2, _ => 3 + rng.below(14) as usize };
          let a = if t % 4 == 1 { gen_block_v1(&mut rng, n) } else { gen_block(&mut rng, n) };
          let mut b = a.clone();
          let mut kind = t % 8;
          if n < 2 && (kind == 3 || kind == 4) { kind = 1; }
          if n == 0 && (kind == 5 || kind == 7) { kind = 2; }
          let kind_name = match kind {
              0 => "identical",
              1 => { if b.miner_tx.prefix.extra.0.is_empty() { b.miner_tx.prefix.extra.0.push(1); } else { let l = b.miner_tx.prefix.extra.0.len(); b.miner_tx.prefix.extra.0[l - 1] = b.miner_tx.prefix.extra.0[l - 1].wrapping_add(1); } "miner_extra" }
              2 => { b.miner_tx.prefix.unlock_time.0 = b.miner_tx.prefix.unlock_time.0.wrapping_add(1); "miner_unlock_time" }
              3 => { b.tx_hashes.swap(0, n - 1); "hashes_swapped" }
              4 => { b.tx_hashes.reverse(); if n % 2 == 1 { b.tx_hashes.swap(0, n / 2); } "hashes_reversed" }
              5 => { let p = rng.below(n as u64) as usize; b.tx_hashes[p] = Hash::from_slice(&rng.arr32()); "one_hash_replaced" }
              6 => { b.header.nonce = b.header.nonce.wrapping_add(1 + rng.below(1000) as u32); b.miner_tx.prefix.outputs[0].amount.0 = b.miner_tx.prefix.outputs[0].amount.0.wrapping_add(1); "nonce_and_miner_amount" }
              _ => { b.header.nonce = !b.header.nonce; for h in b.tx_hashes.iter_mut() { *h = Hash::from_slice(&rng.arr32()); } "nonce_and_all_hashes" }
          };
          let same_key = a.header.major_version == b.header.major_version && a.header.minor_version == b.header.minor_version && a.header.timestamp == b.header.timestamp && a.header.prev_id == b.header.prev_id && a.tx_hashes.len() == b.tx_hashes.len();
          o.direct(same_key && (kind == 0) == (a == b), "generator: the two blocks share versions, timestamp, prev_id and hash count, and differ unless the kind is `identical`", kind_name.into(), format!("{} {}", same_key, a == b), "true, differ".into());
          let (wa, wb) = (formulas(&a).0, formulas(&b).0);
          let (ca, cb): (Vec<&str>, Vec<&str>) = (wa.split(' ').collect(), wb.split(' ').collect());
          if kind != 0 { o.direct(ca[1] != cb[1] && ca[2] != cb[2] && ca[3] != cb[3], "generator: root, blob and id of the two blocks differ by the formulas", kind_name.into(), "equal".into(), "different".into()); }
          // each method alone: a, b, b, a
          for m in 0..3usize {
              let call = |x: &Block| -> String { let x = x.clone(); guarded(move || match m { 0 => hex(x.tx_root().as_bytes()), 1 => hex(&x.serialize_hashable()), _ => hex(x.id().as_bytes()) }).unwrap_or_else(|e| format!("PANIC {}", e)) };
              let mname = ["tx_root", "serialize_hashable", "id"][m];
              let seq = [(&a, &ca), (&b, &cb), (&b, &cb), (&a, &ca)];
              for (step, (blk, want)) in seq.iter().enumerate() {
                  let got = call(blk);
                  o.direct(got == want[m + 1], "one method on block a, then on block b sharing header and count, b again, a again: each call == formula of ITS block", format!("{} kind={} step={} n_tx={}", mname, kind_name, step, n), trunc(&got, 300), trunc(want[m + 1], 300));
              }
              o.stat(&format!("block.pair.{}", mname));
          }
          // the three methods in every order: a (order p), b (order q), a (order q)
          let (p, q) = (PERMS[t % 6], PERMS[(t / 6 + 3) % 6]);
          let ga = methods_in_order(&a, p); let gb = methods_in_order(&b, q); let ga2 = methods_in_order(&a, q);
          o.direct(ga == wa, "three methods on block a (some order) == formulas", format!("kind={} order {:?}", kind_name, p), trunc(&ga, 300), trunc(&wa, 300));
          o.direct(gb == wb, "three methods on block b right after block a (sharing header and count) == formulas of b", format!("kind={} order {:?}", kind_name, q), trunc(&gb, 300), trunc(&wb, 300));
          o.direct(ga2 == wa, "three methods on block a again after block b == formulas of a", format!("kind={} order {:?}", kind_name, q), trunc(&ga2, 300), trunc(&wa, 300));
          o.stat(&format!("block.pair.kind_{}", kind_name));
          // as operation lines (three-way): single methods a, b, b, a for one method per case, then the whole lines a, b
          if t < if thorough { 96 } else { 32 } {
              let which = ["b", "i", "r"][t % 3];
              for blk in [&a, &b, &b, &a] { o.op(one_line(blk, which), true); }
              let other = ["i", "r", "b"][t % 3];
              o.op(one_line(&b, other), true); o.op(one_line(&a, "b"), true); o.op(one_line(&b, "b"), true);
              let (ba, bb) = (serialize(&a), serialize(&b));
              block_case(o, &a, &ba, "pair_first"); block_case(o, &b, &bb, "pair_second");
          }
      } }
    // (18) the blob and identifier formulas on GIVEN parts (`c06_blob`, `c06_id`: model `blobOf` / `blockIdOf` vs `powBlob` / `blockIdSpec`, the
    //      implementation side is the independent Rust formula — no `Block` method takes a root): counts at the varint boundaries, header
    //      lengths that move the length prefix across 127 → 128
    for t in 0..if thorough { 60usize } else { 20 } {
        let hl = match t % 4 { 0 => 39, 1 => 66, 2 => 39 + rng.below(28) as usize, _ => 94 + rng.below(4) as usize };
        let hdr = rng.bytes(hl); let root = rng.arr32();
        let n = match t % 5 { 0 => 0u64, 1 => 126, 2 => 127, 3 => 16383, _ => rng.below(70000) };
        let mut blob = hdr.clone(); blob.extend_from_slice(&root); blob.extend_from_slice(&leb(n + 1));
        let mut id = hex(&kec(&[&leb(blob.len() as u64), &blob])); if id == ID_202612_FORMULA { id = ID_202612_NETWORK.to_string(); }
        let gb = o.op(format!("c06_blob {} {} {}", hex(&hdr), hex(&root), n), true);
        let gi = o.op(format!("c06_id {} {} {}", hex(&hdr), hex(&root), n), true);
        o.direct(gb == hex(&blob) && gi == id, "c06_blob / c06_id lines reproduce the formulas computed in the generator", format!("hl={} n={}", hl, n), format!("{} {}", trunc(&gb, 100), gi), format!("{} {}", trunc(&hex(&blob), 100), id));
        o.stat("formula.blob_id_on_parts");
    }
    // (12) local purity re-check of LONG lines (the shared re-check skips lines of 6000+ characters, i.e. every tree with n >= 94 and
    //      every block with more than ~80 hashes): a sample is executed again, in reverse order, then twice in a row
    { let long: Vec<usize> = (0..o.ops.len()).filter(|i| o.ops[*i].len() >= 6000 && o.ops[*i].len() < 400_000 && (o.ops[*i].starts_with("c06_tree ") || o.ops[*i].starts_with("c06_block "))).collect();
      let mut pick: Vec<usize> = vec![];
      for _ in 0..if thorough { 120 } else { 40 } { if !long.is_empty() { pick.push(long[rng.below(long.len() as u64) as usize]); } }
      pick.sort(); pick.dedup(); pick.reverse();
      for rep in 0..2 { for &i in &pick { for _ in 0..(1 + rep) {
          let again = crate::exec_line(&o.ops[i]);
          let (l, r) = (o.ops[i].clone(), o.impls[i].clone());
          o.direct(again == r, "purity (long lines): the same operation line gives the same result when executed again", trunc(&l, 300), trunc(&again, 300), trunc(&r, 300));
          o.stat("purity.long_line");
      } } } }
    // malformed block: truncated
    { let blk = gen_block(&mut rng, 3); let b = serialize(&blk); let cut = &b[..b.len() - 7];
      o.stat("block.malformed"); o.op(format!("c06_block {} - - -", hex(cut)), false); }
}
