//! C06 — Merkle root (`tree_hash`), proof-of-work blob and block id: implementation results.
//!
//! Operation lines:
//!   `c06_tree <hex of k >= 1 concatenated 32-byte hashes>`   (first = root hash, rest = extra hashes)
//!        -> `<hex of tree_hash(root, extra)>` | `err` (not a positive multiple of 32 bytes)
//!   `c06_block <block hex> <header hex> <miner tx hash hex> <concatenated tx hashes hex | ->`
//!        -> `ok <tx_root hex> <serialize_hashable hex> <id hex>` | `err` (block hex does not deserialize)
//!      `exec` uses the block hex only; the other tokens are computed by the generator from the same block
//!      (serialize(&block.header), block.miner_tx.hash(), block.tx_hashes) and are the inputs of the Lean side.
use crate::common::*;
use monero::blockdata::transaction::{RawExtraField, TxOutTarget};
use monero::consensus::encode::{deserialize, serialize};
use monero::cryptonote::hash::{tree_hash, Hashable};
use monero::util::ringct::{RctSig, RctSigBase, RctType};
use monero::{Amount, Block, BlockHeader, Hash, Transaction, TransactionPrefix, TxIn, TxOut, VarInt};
use tiny_keccak::{Hasher, Keccak};

fn split32(b: &[u8]) -> Option<Vec<Hash>> {
    if b.len() % 32 != 0 { return None; }
    Some(b.chunks(32).map(Hash::from_slice).collect())
}
fn tree_line(b: &[u8]) -> String {
    match split32(b) {
        Some(hs) if !hs.is_empty() => hex(tree_hash(hs[0], &hs[1..]).as_bytes()),
        _ => "err".into(),
    }
}
fn block_line(b: &[u8]) -> String {
    match deserialize::<Block>(b) {
        Ok(blk) => format!("ok {} {} {}", hex(blk.tx_root().as_bytes()), hex(&blk.serialize_hashable()), hex(blk.id().as_bytes())),
        Err(_) => "err".into(),
    }
}
pub fn exec(t: &[&str]) -> Option<String> {
    match t {
        ["c06_tree", h] => Some(tree_line(&unhex(h))),
        ["c06_block", b, _hdr, _miner, _txs] => Some(block_line(&unhex(b))),
        ["c06_cnt", n] => { let n: usize = n.parse().ok()?; Some(match guarded(move || monero::cryptonote::hash::verif_tree_hash_cnt(n)) { Ok(c) => format!("ok {}", c), Err(_) => "panic".into() }) }
        _ => None,
    }
}

// ---------- independent oracle (Rust side): recursive CryptoNote tree hash, blob and id, on tiny_keccak ----------
fn kec(parts: &[&[u8]]) -> [u8; 32] {
    let mut k = Keccak::v256();
    for p in parts { k.update(p); }
    let mut out = [0u8; 32];
    k.finalize(&mut out);
    out
}
/// root of the perfect binary tree over a power-of-two number of nodes, top-down
fn perfect(nodes: &[[u8; 32]]) -> [u8; 32] {
    if nodes.len() == 1 { return nodes[0]; }
    let h = nodes.len() / 2;
    kec(&[&perfect(&nodes[..h]), &perfect(&nodes[h..])])
}
fn tree_ref(leaves: &[[u8; 32]]) -> [u8; 32] {
    let n = leaves.len();
    match n {
        0 => panic!("no leaves"),
        1 => leaves[0],
        2 => kec(&[&leaves[0], &leaves[1]]),
        _ => {
            let mut cnt = 1usize; // largest power of two strictly below n
            while cnt * 2 < n { cnt *= 2; }
            let keep = 2 * cnt - n;
            let mut nodes: Vec<[u8; 32]> = leaves[..keep].to_vec();
            for p in leaves[keep..].chunks(2) { nodes.push(kec(&[&p[0], &p[1]])); }
            assert_eq!(nodes.len(), cnt);
            perfect(&nodes)
        }
    }
}
fn leb(mut n: u64) -> Vec<u8> {
    let mut v = vec![];
    loop { let g = (n % 128) as u8; n /= 128; if n == 0 { v.push(g); return v; } v.push(g | 0x80); }
}
const ID_202612_FORMULA: &str = "426d16cff04c71f8b16340b722dc4010a2dd3831c22041431f772547ba6e331a";
const ID_202612_NETWORK: &str = "bbd604d2ba11ba27935e006ed39c9bfdd99b76bf4a50654bc1e1e61217962698";

fn leaves_from_seed(rng: &mut Rng, n: usize) -> Vec<[u8; 32]> {
    // one keyed stream per case: leaf i = keccak(key || i); cheap, and distinct leaves (so order mistakes show)
    let key = rng.next().to_le_bytes();
    (0..n).map(|i| kec(&[&key, &(i as u64).to_le_bytes()])).collect()
}
fn tree_case(o: &mut Out, rng: &mut Rng, n: usize, fam: &str) {
    let leaves = leaves_from_seed(rng, n);
    let hs: Vec<Hash> = leaves.iter().map(|l| Hash::from_slice(l)).collect();
    let got = guarded({ let hs = hs.clone(); move || tree_hash(hs[0], &hs[1..]) });
    let want = tree_ref(&leaves);
    let got_s = match &got { Ok(h) => hex(h.as_bytes()), Err(m) => format!("PANIC {}", m) };
    o.direct(got_s == hex(&want), "tree_hash == recursive CryptoNote tree hash (Rust oracle)", format!("n={} first leaf {}", n, hex(&leaves[0])), got_s, hex(&want));
    o.stat(&format!("tree.{}", fam));
    let cnt = { let mut c = 1usize; while c * 2 < n { c *= 2; } c };
    o.stat(&format!("tree.keep_{}", if n < 3 { "special" } else if 2 * cnt - n == 0 { "zero" } else if 2 * cnt - n == 1 { "one" } else { "many" }));
    let flat: Vec<u8> = leaves.iter().flat_map(|l| l.iter().copied()).collect();
    o.op(format!("c06_tree {}", hex(&flat)), n >= 2);
}

fn gen_block(rng: &mut Rng, n_tx: usize) -> Block {
    let header = BlockHeader {
        major_version: VarInt(match rng.below(4) { 0 => rng.below(20), 1 => rng.u64_boundary(), _ => rng.range(1, 16) }),
        minor_version: VarInt(if rng.chance(1, 4) { rng.u64_boundary() } else { rng.below(20) }),
        timestamp: VarInt(if rng.chance(1, 3) { rng.u64_boundary() } else { 1_400_000_000 + rng.below(400_000_000) }),
        prev_id: Hash::from_slice(&rng.arr32()),
        nonce: if rng.chance(1, 4) { *rng.pick(&[0u32, 1, u32::MAX, 0x80000000]) } else { rng.next() as u32 },
    };
    let n_out = rng.range(1, 3) as usize;
    let outputs: Vec<TxOut> = (0..n_out).map(|_| TxOut {
        amount: VarInt(if rng.chance(1, 2) { rng.u64_boundary() } else { rng.below(10_000_000_000_000) }),
        target: if rng.chance(1, 2) { TxOutTarget::ToKey { key: rng.arr32() } } else { TxOutTarget::ToTaggedKey { key: rng.arr32(), view_tag: rng.byte() } },
    }).collect();
    let extra_len = rng.below(40) as usize;
    let prefix = TransactionPrefix {
        version: VarInt(2),
        unlock_time: VarInt(rng.u64_boundary()),
        inputs: vec![TxIn::Gen { height: VarInt(if rng.chance(1, 2) { rng.u64_boundary() } else { rng.below(4_000_000) }) }],
        outputs,
        extra: RawExtraField(rng.bytes(extra_len)),
    };
    let miner_tx = Transaction {
        prefix,
        signatures: vec![],
        rct_signatures: RctSig {
            sig: Some(RctSigBase { rct_type: RctType::Null, txn_fee: Amount::from_pico(0), pseudo_outs: vec![], ecdh_info: vec![], out_pk: vec![] }),
            p: None,
        },
    };
    let tx_hashes: Vec<Hash> = (0..n_tx).map(|_| Hash::from_slice(&rng.arr32())).collect();
    Block { header, miner_tx, tx_hashes }
}

fn block_case(o: &mut Out, blk: &Block, bytes: &[u8], fam: &str) {
    let hdr = serialize(&blk.header);
    let miner = blk.miner_tx.hash();
    let txs: Vec<u8> = blk.tx_hashes.iter().flat_map(|h| h.as_bytes().iter().copied()).collect();
    // Rust-side oracle: root, blob, id from the independent formulas
    let mut leaves: Vec<[u8; 32]> = vec![miner.to_bytes()];
    leaves.extend(blk.tx_hashes.iter().map(|h| h.to_bytes()));
    let root = tree_ref(&leaves);
    let mut blob = hdr.clone();
    blob.extend_from_slice(&root);
    blob.extend_from_slice(&leb(blk.tx_hashes.len() as u64 + 1));
    let mut id = hex(&kec(&[&leb(blob.len() as u64), &blob]));
    if id == ID_202612_FORMULA { id = ID_202612_NETWORK.to_string(); o.stat("block.id_substituted"); }
    let want = format!("ok {} {} {}", hex(&root), hex(&blob), id);
    let got = block_line(bytes);
    o.direct(got == want, "Block::{tx_root, serialize_hashable, id} == independent formulas (Rust oracle)", trunc(&hex(bytes), 400), trunc(&got, 400), trunc(&want, 400));
    o.stat(&format!("block.{}", fam));
    o.stat(&format!("block.ntx_{}", match blk.tx_hashes.len() { 0 => "0", 1 => "1", 2..=8 => "2-8", 9..=40 => "9-40", _ => ">40" }));
    o.op(format!("c06_block {} {} {} {}", hex(bytes), hex(&hdr), hex(miner.as_bytes()), hex(&txs)), true);
}

/// hex string literals of at least 200 digits in the test module of src/blockdata/block.rs that deserialize as blocks
fn repo_test_blocks() -> Vec<Vec<u8>> {
    let src = match std::fs::read_to_string("/repo/src/blockdata/block.rs") { Ok(s) => s, Err(_) => return vec![] };
    let mut out = vec![];
    for piece in src.split('"') {
        if piece.len() >= 200 && piece.len() % 2 == 0 && piece.bytes().all(|c| c.is_ascii_hexdigit()) {
            if let Ok(b) = hex::decode(piece) { if deserialize::<Block>(&b).is_ok() { out.push(b); } }
        }
    }
    out
}

pub fn run(o: &mut Out, tier: &str, seed: u64) {
    let mut rng = Rng::new(seed);
    let thorough = tier == "thorough";
    // (1) every leaf count in an initial segment
    let upto = if thorough { 1100 } else { 300 };
    for n in 1..=upto { tree_case(o, &mut rng, n, "segment"); }
    // (2) around every power of two
    let kmax = if thorough { 16 } else { 12 };
    for k in 2..=kmax {
        let p = 1usize << k;
        for n in (p - 2)..=(p + 2) { if n > upto { tree_case(o, &mut rng, n, "pow2"); } }
    }
    // (2b) `tree_hash_cnt` itself (through the cfg(monero_rs_verif) hook) on a dense initial segment, around every power of
    //      two of the whole domain 3..=2^28, outside the domain (asserts) and at random
    let dense = if thorough { 300_000usize } else { 70_000 };
    for n in 0..=dense { o.op(format!("c06_cnt {}", n), n >= 3); }
    for k in 2..=29u32 { let p = 1usize << k; for n in (p - 2)..=(p + 2) { if n > dense { o.op(format!("c06_cnt {}", n), true); } } }
    for _ in 0..2000 { let n = 3 + rng.below((1 << 28) - 2) as usize; o.op(format!("c06_cnt {}", n), true); }
    o.stat_n("cnt.cases", dense as u64 + 2000 + 140);
    // (2c) large trees at 2^k - 1, 2^k, 2^k + 1: Rust oracle only (fast), three-way through the Lean driver for 2^k + 1, k <= 16
    let kbig = if thorough { 21 } else { 19 };
    for k in 13..=kbig { let p = 1usize << k; for n in [p - 1, p, p + 1] {
        if n <= upto { continue; }
        if n == p + 1 && k <= 16 && (thorough || k >= 15) { tree_case(o, &mut rng, n, "pow2big"); continue; }
        let leaves = leaves_from_seed(&mut rng, n);
        let hs: Vec<Hash> = leaves.iter().map(|l| Hash::from_slice(l)).collect();
        let got = guarded({ let hs = hs.clone(); move || tree_hash(hs[0], &hs[1..]) });
        let want = tree_ref(&leaves);
        let got_s = match &got { Ok(h) => hex(h.as_bytes()), Err(m) => format!("PANIC {}", m) };
        o.direct(got_s == hex(&want), "tree_hash == recursive CryptoNote tree hash (Rust oracle)", format!("n={} first leaf {}", n, hex(&leaves[0])), got_s, hex(&want));
        o.stat("tree.pow2big.rust_only");
    } }
    // (3) degenerate leaves (all equal / all zero): order-insensitive inputs must still agree
    for &n in &[1usize, 2, 3, 4, 5, 7, 8, 9, 33] {
        for fill in [0u8, 0xff] {
            let flat = vec![fill; 32 * n];
            let hs = split32(&flat).unwrap();
            let leaves: Vec<[u8; 32]> = hs.iter().map(|h| h.to_bytes()).collect();
            let got = hex(tree_hash(hs[0], &hs[1..]).as_bytes());
            o.direct(got == hex(&tree_ref(&leaves)), "tree_hash == recursive tree hash (constant leaves)", format!("n={} fill={}", n, fill), got, hex(&tree_ref(&leaves)));
            o.stat("tree.constant");
            o.op(format!("c06_tree {}", hex(&flat)), n >= 2);
        }
    }
    // malformed: empty / not a multiple of 32 bytes
    for l in [0usize, 1, 31, 33, 63, 65] { let b = rng.bytes(l); o.stat("tree.malformed"); o.op(format!("c06_tree {}", hex(&b)), false); }
    // (4) generated blocks: coinbase miner tx (v2, one Gen input, RctType::Null), 0..40 tx hashes, counts around powers of two
    let mut counts: Vec<usize> = vec![0, 1, 2, 3, 4, 5, 6, 7, 8, 9, 14, 15, 16, 17, 18, 30, 31, 32, 33, 34, 62, 63, 64, 65, 126, 127, 128, 129];
    let n_blocks = if thorough { 600 } else { 200 };
    while counts.len() < n_blocks { counts.push(rng.below(41) as usize); }
    if thorough { counts.extend_from_slice(&[254, 255, 256, 257, 510, 511, 512, 513, 1023, 1024, 1025]); }
    for n_tx in counts {
        let blk = gen_block(&mut rng, n_tx);
        let bytes = serialize(&blk);
        let back = deserialize::<Block>(&bytes).ok();
        o.direct(back.as_ref() == Some(&blk), "generated block round-trips through the codec", trunc(&hex(&bytes), 400), format!("{}", back.is_some()), "same block".into());
        block_case(o, &blk, &bytes, "generated");
    }
    // (4b) value coincidences: the miner transaction's own hash listed among the transaction hashes (first, last, alone, twice),
    //      and duplicate hashes - the root is over the list as given
    for variant in 0..8u32 { let mut blk = gen_block(&mut rng, (variant % 4) as usize + 1); let mh = blk.miner_tx.hash();
        match variant { 0 => blk.tx_hashes = vec![mh], 1 => blk.tx_hashes[0] = mh, 2 => { let l = blk.tx_hashes.len(); blk.tx_hashes[l - 1] = mh; } 3 => { blk.tx_hashes.insert(0, mh); blk.tx_hashes.push(mh); }
            4 => blk.tx_hashes = vec![mh, mh], 5 => { let h = blk.tx_hashes[0]; blk.tx_hashes.push(h); } 6 => blk.tx_hashes = vec![Hash::null(); 3], _ => { blk.tx_hashes.insert(1.min(blk.tx_hashes.len()), mh); } }
        let bytes = serialize(&blk); block_case(o, &blk, &bytes, "miner_hash_listed"); }
    // (5) blocks quoted in the library's own tests (includes block 202612 with its 513 transactions)
    let quoted = repo_test_blocks();
    o.notes.push(format!("C06: {} block(s) taken from the tests of src/blockdata/block.rs", quoted.len()));
    for b in quoted { let blk = deserialize::<Block>(&b).unwrap(); block_case(o, &blk, &b, "repo_test");
        // neighbours of each quoted block (in particular of block 202612, the only legitimate exception): same height and
        // transaction count but different content must follow the formula
        for v in 0..8u32 { let mut m = blk.clone();
            match v { 0 => m.header.nonce = m.header.nonce.wrapping_add(1), 1 => m.header.timestamp.0 += 1, 2 => m.header.prev_id = Hash::from_slice(&rng.arr32()),
                3 => { if let Some(h) = m.tx_hashes.last_mut() { *h = Hash::from_slice(&rng.arr32()); } } 4 => { m.tx_hashes.pop(); } 5 => { if m.tx_hashes.len() >= 2 { m.tx_hashes.swap(0, 1); } }
                6 => { m.header.major_version.0 += 1; } _ => { m.tx_hashes = (0..m.tx_hashes.len()).map(|_| Hash::from_slice(&rng.arr32())).collect(); } }
            let mb = serialize(&m); block_case(o, &m, &mb, "repo_test_neighbour"); } }
    // malformed block: truncated
    { let blk = gen_block(&mut rng, 3); let b = serialize(&blk); let cut = &b[..b.len() - 7];
      o.stat("block.malformed"); o.op(format!("c06_block {} - - -", hex(cut)), false); }
}
