"""Registry of claimed properties (source of MANIFEST.json; see `python3 check.py --manifest`)."""

TRUSTED_BASE = [
    "Lean 4.33 kernel (thorough tier: re-checked by leanchecker); axioms limited to propext, Classical.choice, Quot.sound, audited per theorem on every run",
    "Lean compiler/runtime for the compiled driver (compiled definitions assumed to compute what the kernel-level definitions denote)",
    "the translator (harness `extract`, syn AST matching) and the correspondence harness + check.py: they are what ties the hand-written model to /repo's source",
    "rustc 1.95 / std semantics; third-party crates (curve25519-dalek, tiny-keccak, base58-monero, hex, fixed-hash, serde*) are modelled by Lean references and validated only differentially",
]

NOTES = ("Technique family: machine-checked proof in Lean 4. Each check = (A) theorems about an executable model re-checked against "
         "tables regenerated from /repo, (B) correspondence model vs real code on generated operation lines, (C) oracle real code vs "
         "Lean spec/reference. A VIOLATION carries a replay with a failing input when C finds one, otherwise names the theorem or "
         "correspondence family that no longer checks (no-failing-input-found). See DESIGN.md.")

NOT_APPLICABLE = {}

PROPS = {}

PROPS["C14"] = dict(
    level="proof",
    technique="Lean 4 theorems (induction on the group list / strong induction on n) about a model of the VarInt encoder and two-phase decoder; model tied to code by exhaustive (<=2 bytes; <=3 bytes thorough) and boundary differential testing",
    level_text="C14_dec_iff proves for every byte string and every natural that the decoder model accepts exactly `leb128 n ++ rest` with n < 2^64 (bijection, minimality, overflow, truncation, no over-read are corollaries); the encoder-as-written is proved equal to LEB128 with exact length. The model is the Rust control flow (collect/reverse/accumulate with the leading_zeros guard) and is compared with the real decoder on every string of <= 2 bytes (<= 3 in thorough), the 9/10/11-byte boundary families and random inputs. Session 4: C14_leb128_value, C14_shortest, C14_leb128_injective (the unique shortest string of a value), C14_spec_accept_iff, direct rejection theorems (C14_rejects_zero_group, _padded, _ge_2_64, _unterminated) and an error-kind / reader-position model varintE with C14_varintE_cases; all 16.8 M three-byte strings are compared with a positional reading in the quick tier.",
    level_note="Trusted: Lean kernel; the hand-written model's correspondence to encode.rs:319-384 is established by differential testing (exhaustive on short strings), not by proof; io::Cursor/Read semantics of std.",
    design_ref="DESIGN.md §6 C14",
    rule="cases: exhaustive short strings, boundary families, encodings of boundary-biased u64 with suffix/truncation/non-minimal variants, random continuation-heavy strings.",
    assumptions=["model/Rust correspondence is differential (exhaustive for strings of <= 2 bytes, <= 3 bytes in thorough tier)"],
    gen_items=[],
)

PROPS["C20"] = dict(
    level="proof",
    technique="model generated from source by the translator (tag tables of network.rs / address.rs); Lean `decide +kernel` over the whole finite domain (3x3 pairs, all 256 bytes) lifted to arbitrary blobs; exhaustive differential check",
    level_text="The model IS the tables regenerated from src/network.rs and src/util/address.rs on every run; C20_table/_injective/_network_inverse/_reject_others/_type_lookup/_cross_network are proved against Monero's literal table (Spec.tag) by kernel evaluation over every (network, type) pair and every byte value and lifted to blobs of any length. A one-sided or two-sided edit of any table entry changes Gen and makes `decide` fail. C20_type_total: the type lookup equals ONE by-the-book function (Spec.addrType) on every blob; C20_decode_encode / C20_encode_decode / C20_tables_agree tie the three generated tables to each other; C20_rows_wf: the payment-id slice of every row is in range. In addition the real functions are compared with model and spec on the complete domain (61 708 cases) plus ~3 900 payload-variation / payment-id / interleaved cases, and checked in Rust against the book's literal table on every (network, first byte) with zero / all-equal / random payloads (~20 000 direct checks). Session 4: C20_type_total (model = by-the-book Spec.addrType on every blob), C20_decode_encode, C20_encode_decode, C20_tables_agree; ~20 000 direct checks against Monero's literal table in the harness itself, call sequences from_u8 -> from_slice.",
    level_note="Trusted: Lean kernel; the translator's reading of the match arms (cross-checked by the exhaustive differential run); Spec.tag is my transcription of cryptonote_config.h.",
    design_ref="DESIGN.md §6 C20",
    rule="exhaustive enumeration of the finite domain.",
    assumptions=["Spec.tag (18/19/42, 53/54/63, 24/25/36) is Monero's table"],
    gen_items=["network.", "address.from_slice"],
)

PROPS["C18"] = dict(
    level="proof",
    technique="delegation structure generated from amount.rs (which std method each checked_*/operator/assign calls) over Lean models of the std integer methods; theorems on Int for all operands in range; complete boundary-grid differential check",
    level_text="C18_checked_unsigned_iff / C18_checked_signed_iff prove, for all operands in u64 / i64, that each checked operation of the regenerated model returns r iff r is the exact integer result, representable, with non-zero divisor (signed rem: at every pair except (MIN,-1), where C18_rem_min_neg1 proves the deviation - a recorded known finding); operators panic iff checked is None, assign = operator, conversions and positive_sub exact. Binding a method to wrapping_*/saturating_* or an operator to the wrong checked method is representable in Gen and refutes the theorems. Session 4: C18_checked_signed_total, C18_checked_eq / C18_checked_none_iff (closed forms), C18_operator_exact, C18_assign_exact, C18_never_wraps, C18_exact_div_rem(_unique); compiler-inserted overflow panics are told apart from the library's own expect, so a plain operator is reported in the harness profile too.",
    level_note="Trusted: Lean kernel; models of std's checked_* semantics (StdInt.lean) validated on the boundary grid; translator's recognition of `self.0.m(rhs.0).map(T)`, `self.checked_m(rhs).expect(..)`, `*self = *self op other`; to_signed/to_unsigned/positive_sub hand-modelled with a reviewed-shape check.",
    design_ref="DESIGN.md §6 C18",
    rule="complete grid over ~50 boundary values per type x 5 ops x {checked, operator, assign}, conversions, positive_sub, random near-boundary pairs.",
    assumptions=["std integer methods behave as documented (modelled in Model/StdInt.lean, validated differentially)"],
    gen_items=["amount.Amount", "amount.SignedAmount"],
)

_CODEC_NOTE = ("Trusted: Lean kernel; the hand-written codec model (Model/VarInt, Tx, Block, Len) is tied to encode.rs / transaction.rs / "
               "ringct.rs / block.rs by differential testing (accept/reject, bytes consumed, re-encoded bytes, reported length on structured, "
               "mutated, truncated, tag-swept and declared-length inputs), not by proof; CAP is regenerated from source; size_of values are "
               "constants of the model (Tx.lean `sizes`) checked against std::mem::size_of by the declared-length cases.")

PROPS["C01"] = dict(
    level="proof",
    technique="Lean 4 theorems: `Sound enc dec` for every consensus decoder by combinator lemmas + case analysis of the Transaction/RingCT dispatch (decoder and encoder are separately modelled); differential correspondence on structured + malformed byte strings",
    level_text="C01_sound_* prove for every byte string b, every version, all seven RingCT types and every count that `dec b = some (x, rest)` implies `b = enc x ++ rest`, for VarInt, fixed-width records, capped vectors, TxIn, TxOut targets, prefix, ecdh, Bulletproof(+), MLSAG/CLSAG, RctSigBase(i,o), RctSigPrunable(type,i,o,m), Transaction, BlockHeader and Block; injectivity (C01_injective_tx/block/header/prefix/…) is a corollary; C01_txid_commits proves that equal transaction identifiers of two strictly parsed transactions (same version class) mean equal received bytes or a collision of the hash; C01_model_tags_are_source ties the model's tag / type literals to the tag tables regenerated from the source. The model's decoders/encoders mirror the Rust ones and agree with them on ~68k (quick) structured, mutated, truncated, tag-swept, count-perturbed (±1 with bytes appended) and strictly parsed inputs; the real code is additionally checked directly (serialize(parse b) == b[..n]).",
    level_note=_CODEC_NOTE,
    design_ref="DESIGN.md §6 C01",
    rule="40% valid encodings from the type-directed generator, 60% malformed stream (9 mutation kinds, 256-value sweeps at leading byte positions and at every input tag / target tag / RingCT type byte, every count byte and every byte of small records moved by ±1 with 100 random bytes appended, unusual versions, truncation at every position, declared lengths around the cap).",
    assumptions=["model/Rust correspondence of the codec is differential", "the bool codec is not reachable from Block/Transaction and is lenient (any non-zero byte is true: C01_bool_not_sound); it is modelled and compared, but excluded from the intrinsic oracle"],
    gen_items=["CAP", "codec."],
)

PROPS["C02"] = dict(
    level="proof",
    technique="Lean 4 theorems: `Complete wf enc dec` on explicit decidable well-formedness predicates, separately modelled length accounting proved equal to bytes written, strictness lemmas; round-trip / length / strictness oracles on generated values",
    level_text="C02_complete_* prove `dec (enc x ++ r) = some (x, r)` for every well-formed x (wfTx/wfBlock: implicit vectors have the implied lengths, numbers are u64, keys 32 bytes, explicit vectors within the cap, one-byte BulletproofPlus count < 256) and every continuation r; C02_len_* prove that the byte count each encoder reports (a separately written fold mirroring `len += ...`) equals the bytes written for every value; C02_strict / C02_strict_iff_partial / C02_partial_count give the strict/partial clauses; C02_decoded_wf_* / C02_wf_iff_roundtrip_* prove that the well-formedness predicates are exactly 'is the parse of some byte string' (the hypotheses are the weakest possible), C02_wf_inhabited that they are satisfiable on every dispatch path; C02_complete_uint / _int / _bytes / _bool / _rcttype cover the primitives. The real code is checked on generated values of all shapes (round trip, reported length, strict rejection of suffixes) and against the model.",
    level_note=_CODEC_NOTE + " Known finding: BulletproofPlus counts > 255 do not round-trip (recorded, DESIGN.md §7 item 4).",
    design_ref="DESIGN.md §6 C02, Appendix B",
    rule="type-directed values: both versions, all 7 RingCT types, rings 1..40 (a few with thousands of members), 0..18 outputs (a few with thousands), long extras, blocks with 0..thousands of hashes; primitives at every varint width boundary; empty rings, mixed inputs, unusual versions, 127..129 inputs, 255..257 proofs, fixed-width integers, boxed slices; vectors of exactly cap/size and cap/size+1 real elements.",
    assumptions=["WF includes the decoder's allocation cap (C04 requires it)", "Padding sub-fields are C16's subject (not prefix-free by design)"],
    gen_items=["CAP"],
)

PROPS["C06"] = dict(
    level="proof",
    technique="Lean 4 loop-invariant proof: the imperative in-place array tree hash (model of tree_hash_cnt/tree_hash with every assert and index checked) equals the recursive CryptoNote definition for every hash function and every n <= 2^28; blob/id formulas by unfolding; differential check for every n in an initial segment and around powers of two",
    level_text="C06_tree_eq_spec proves, for every H, root and list of extra hashes with count <= 2^28, that the model of the Rust loops (doubling loop with both asserts, first in-place pairing loop, assert_eq, halving loops, final combine; none = panic) returns exactly the recursive CryptoNote tree hash; C06_cnt characterises tree_hash_cnt; C06_blob / C06_id / C06_exception give the PoW blob, the id and the block-202612 substitution. The model instantiated with the reference Keccak reproduces the library's tree_hash for every n <= 300 (1100 thorough) and 2^k-2..2^k+2, and tx_root / hashable blob / id of generated blocks and of block 202612. Session 4: C06_consts / C06_id_gen (the 202612 constants of the current source are the ones the theorems use), C06_parsed_block and C06_described_block (for every block, no size hypothesis), C06_tree_defined_iff (the model panics exactly above 2^28 leaves); Monero's 16 tree-hash vectors and an accepted PoW blob as known answers.",
    level_note="Trusted: Lean kernel; model/Rust correspondence of the loops is differential; Keccak-256 itself is tiny-keccak (C17); the header bytes and miner-tx hash fed to the Lean side come from the library (the Block codec model is C01/C02's, the tx id is C05's).",
    design_ref="DESIGN.md §6 C06",
    rule="every leaf count n in 1..=300 (quick) / 1..=1100 (thorough), 2^k-2..2^k+2 for k <= 12 / 16, generated blocks with hash counts around powers of two, block 202612.",
    assumptions=["count <= 2^28 (the code's own assert; guaranteed for parsed blocks by the allocation cap)"],
    gen_items=["correctId202612", "existingId202612"],
)

PROPS["C03"] = dict(
    level="proof",
    technique="Lean 4 theorems relating the codec model to an independent by-the-book layout spec (Spec/Wire.lean: flat concatenations from Monero's headers) over abstract descriptions; three-way differential check lib bytes vs spec bytes vs model bytes on descriptions printed from the public struct fields",
    level_text="C03_enc_eq_spec proves for EVERY description (both versions, coinbase/key inputs, plain/tagged outputs, any counts and ring size, all seven RingCT types, arbitrary contents) that the model encoder applied to the Rust-shaped value equals the spec bytes; C03_dec_spec that parsing the spec bytes yields exactly that value (on wfTx of C02); same for blocks. Spec/Wire mentions neither the model nor Gen, so a symmetric edit of the library (tag, count width, field order, matrix dimension on both sides) keeps C01/C02 true and breaks this check. The real serialiser is compared byte-for-byte with the spec on ~800 (quick) / ~7000 (thorough) descriptions. Session 4: C03_deserialize_spec / C03_block_dec_spec_desc (strict parse of the spec bytes; blocks at description level), C03_field_orders_are_monero and C03_spec_follows_field_orders over the generated Gen/Fields.lean (a symmetric reorder of a macro field list breaks a theorem), C03_rct_branching_complete (every generated table is read by a theorem), C03_bpp_count_is_one_byte (the recorded deviation as a theorem); 19 mainnet transactions and 3 blocks from the crate's own tests are compared three-way with their original hex.",
    level_note=_CODEC_NOTE + " Spec/Wire.lean is my transcription of cryptonote_basic.h / rctTypes.h (no reference implementation is available offline); cross-checked against the mainnet vectors in the suite through the model. Known finding: BulletproofPlus count 128..255 (one raw byte vs Monero's varint).",
    design_ref="DESIGN.md §6 C03, Appendix A",
    rule="type-directed descriptions cycling through all 7 RingCT types, both versions, coinbase and key inputs, ring sizes 1..20, 0..20 inputs/outputs (some with hundreds of outputs), blocks with 0..hundreds of hashes.",
    assumptions=["Spec/Wire.lean is the Monero layout", "C03_dec_spec takes well-formedness in the form wfTx (build d) (C02's predicate)"],
    gen_items=["CAP", "codec."],
    field_orders=True,
)

PROPS["C05"] = dict(
    level="proof",
    technique="Lean 4 theorems: for a strictly parsed transaction the model of Transaction::hash equals the Monero three-hash formula over byte ranges of the received bytes (consequence of C01 soundness + a lemma on the decoder's output shape), H abstract; differential ids with the reference Keccak",
    level_text="C05_prefix_hash, C05_id_v1, C05_id_rct prove (for any hash function H, any byte string b that parses strictly, any RingCT type) prefix_hash = H(b[0..p]) and id = H(b) for v1, id = H(H(b[0..p]) ‖ H(b[p..q]) ‖ (Null ? 0^32 : H(b[q..]))) otherwise, with p, q the format's boundaries; parsed_shape shows the hard-coded 'empty prunable' constant (regenerated from source) is unreachable for parsed transactions. The library's ids are compared with model and formula (reference Keccak) on generated transactions of every type and on mutated encodings that still parse. Session 4: C05_id_eq_spec / C05_id_spec_bytes tie the identifier and its boundaries p, q to the independent spec (Spec/Wire), C05_*_embedded cover non-strict parses (the miner transaction inside a block), and the spec side of the correspondence takes its boundaries from an independent by-the-book skipper (Spec/TxSkip.lean), not from the model's parse.",
    level_note=_CODEC_NOTE + " Keccak-256 = tiny-keccak is C17's subject; ids are compared using the Lean reference Keccak. Excluded point (version != 1, no inputs: no RingCT type exists) is stated (C05_no_inputs) and recorded in DESIGN.md §8.",
    design_ref="DESIGN.md §6 C05",
    rule="generated transactions (all types, both versions) and their mutations that still parse.",
    assumptions=["boundaries p, q on the spec side are taken from the model's parse (their by-the-book counterpart is C03's three-part spec)"],
    gen_items=["emptyPrunableHash"],
)

PROPS["C12"] = dict(
    level="proof",
    technique="Lean 4 theorems about a model of Address::{from_bytes, as_bytes, Display, FromStr, hex, consensus} over generated tag tables, for every checksum function H and key-validity predicate; full proof that Monero base58 (model of the crate's control flow = reference) is a bijection between byte strings and accepted texts; differential check incl. every single-field corruption",
    level_text="C12_bytes_iff: from_bytes b = some a <-> WF a and as_bytes a = b (canonical blob, exact lengths 69/77); C12_b58_dec_enc / C12_b58_enc_dec: base58 decode/encode are mutually inverse and only canonical text is accepted; C12_str_roundtrip / C12_str_canonical, consensus and hex forms, and each rejection class (unknown tag, checksum, invalid key, short, trailing) as corollaries; C12_parse_is_monero: the model parser equals the hand-written spec parser on every input. C12_hex_is_spec / C12_consensus_is_spec / C12_parse_hex_is_monero / C12_parse_consensus_is_monero: the hex and consensus forms equal the by-the-book forms on every input; C12_*_ed25519: the same statements instantiated with H = Keccak-256 and the model of PublicKey::from_slice (non-canonical / undecodable / negative-zero keys rejected); C12_text_length (95/106); C12_known_answer_*: two address strings from outside the project reproduced in the kernel. Real code vs model (key test = model of from_slice) vs spec (key test = RFC 8032 decoder) on ~15k (quick) cases incl. all 256 tag values, corrupted keys/checksums, truncations, extensions, alphabet/non-alphabet strings, overflowing blocks. Session 4: C12_hex_is_spec, C12_consensus_is_spec, C12_parse_hex_is_monero, C12_parse_consensus_is_monero, nine *_ed25519 instantiations with Keccak and the model of PublicKey::from_slice, two published addresses as kernel-evaluated known answers.",
    level_note="Trusted: Lean kernel; model of base58-monero 2.1.0 and hex 0.4.3 control flow tied to the crates differentially; H = Keccak (C17) and key validity (C13) are parameters of the general theorems (instantiated in the *_ed25519 theorems) and reference implementations in the driver. The pinned tree accepted trailing bytes: repaired by the fix commit recorded in known_findings.json.",
    design_ref="DESIGN.md §6 C12",
    rule="3 networks x 3 types x random valid keys / payment ids both directions; every single-field corruption of ~50 addresses; random and adversarial base58 / hex strings.",
    assumptions=["checksum hash returns at least 4 bytes (true for Keccak-256)"],
    gen_items=["network.", "address.from_slice", "CAP"],
)

PROPS["C15"] = dict(
    level="proof",
    technique="Lean 4 theorems: byte-level model of parse_signed_to_piconero / from_str_in / fmt_piconero_in (denomination tables generated from source) proved equal to an exact-decimal spec for every byte string and denomination; round-trip theorems; grammar-directed + junk differential check",
    level_text="C15_parse_iff: for every byte string, denomination and signedness the model parser returns r iff the exact-decimal spec does (grammar -?D*(.D*)?, at most `decimals` fraction digits, <= 50 bytes, |r| <= 2^63-1, unsigned refuses '-'); C15_never_wraps / C15_overflow_iff: no intermediate wrap; C15_fmt_exact: exact expansion with the fixed number of decimals incl. i64::MIN; C15_parse_fmt(_suffix): parse(format a) = a with and without suffix; C15_precision_table ties everything to the regenerated precision table. Real code vs model vs spec on ~360k (quick) operations. Session 4: C15_parse_fmt_iff, C15_parse_fmt_out_of_range, C15_display_roundtrip, C15_fmt_injective, and C15_parser_constants / C15_checked_steps (the 50-byte cap, the three checked arithmetic sites and both from_str_in shapes are regenerated from the source).",
    level_note="Trusted: Lean kernel; model/Rust correspondence differential; Rust's u64 Display assumed canonical decimal (validated by the format ops); chars()-vs-bytes argument for valid UTF-8 documented in Model/AmountText.lean. Reading decisions (\".\" = 0, \"-0\" negative for unsigned) in DESIGN.md §8.",
    design_ref="DESIGN.md §6 C15",
    rule="grammar-directed literals (digit counts 0..50, point at every position, magnitudes around 2^63/2^64, 12/13 decimals, signs) + junk stream (other ASCII, multi-byte UTF-8, two dots, inner signs, spaces) x 5 denominations x {unsigned, signed}; formatting on boundary and random values.",
    assumptions=["permissive grammar reading of DESIGN.md §8"],
    gen_items=["amount.precision", "amount.denom_display", "amount.denom_fromstr", "amount.parse."],
)

PROPS["C16"] = dict(
    level="proof",
    technique="Lean 4 theorems about a cursor-tracking model of SubField decode/encode and the ExtraField::try_parse loop (resynchronisation after a failed sub-field modelled exactly); round-trip, totality (strict decrease of remaining input), ok-iff-clean-chain; differential check incl. salvaged fields",
    level_text="C16_roundtrip: every well-formed sub-field sequence (short padding only last, 255-padding anywhere, valid keys, sizes within the cap) serialises to raw bytes that try_parse returns unchanged with success; C16_single_strict; C16_first_keys (accessors = first matching sub-field); C16_total: every sub-field read on non-empty input consumes at least one byte, so the loop terminates for every input (fuel |e| always suffices); C16_ok_iff_no_resync; C16_never_fails_tx: the enclosing prefix decode does not look at the extra's content (C16_tx_fails_iff: it fails exactly when the extra exceeds the allocation cap; C16_over_cap: above the cap the raw conversion panics). For ANY bytes: C16_decoder_sound / C16_parsed_wf (whatever is returned is a well-formed sequence, each field decoded from exactly its encoding up to the ignored merge-mining size byte), C16_ok_exact (Ok accounts for every input byte), C16_reparse (idempotence), C16_parse_equations + C16_pre_semantics (accumulator-free characterisation; pre = the maximal chain of successful reads from offset 0), C16_prefix_survives (valid fields in front of any junk are returned unchanged, accessors included), C16_short_padding_not_roundtrip (the WF restriction is necessary), C16_layout_is_spec / C16_roundtrip_spec (the model encoder IS the independent Spec.Extra layout; the u8 size byte never wraps), *_ed25519 instances for the driver's key validity. Model = library on ~15k (quick) generated, mutated and random extras including the full salvaged list after resynchronisation; flag and pre also against an independent grammar reader (Spec.Extra.parse, run time only).",
    level_note="Trusted: Lean kernel; model/Rust correspondence differential; public-key validity is a parameter of the theorems (reference Ed25519 acceptance in the driver, C13).",
    design_ref="DESIGN.md §6 C16",
    rule="generated sequences (every padding size, blob lengths across varint boundaries, 0..129 additional keys incl. invalid ones and one list of 200+ keys, merge-mining depths of every width, one raw extra above 64 KiB), constructible non-well-formed sequences through the library encoder, six mutation kinds, declared lengths around the cap, the cap boundary of the raw conversion, tag-rich random bytes.",
    assumptions=[],
    gen_items=["CAP"],
)

PROPS["C17"] = dict(
    level="other",
    technique="conformance of a dependency to a standard: Lean reference Keccak-256 (total, executable) vs tiny-keccak on every length 0..1100 + long messages; Lean theorems for what is monero-rs logic: hash-to-scalar = LE(digest) mod l, padding length/shape, sponge block structure; published KATs by kernel evaluation (labelled tests)",
    level_text="PARTIAL by nature: keccak_256 is a six-line wrapper around tiny-keccak, so that the dependency *is* Keccak-f[1600] for all inputs cannot be proved here. Proved: C17_hs / C17_hash_to_scalar (result < l, = little-endian value mod l, identity below l, 32-byte encoding), C17_hs_spec (= an independently written reduction), C17_pad_len / C17_pad_shape (original 0x01..0x80 padding, rate 136), C17_absorb_blocks (the sponge absorbs exactly |pad m|/136 blocks); C17_kats_* check published vectors in the kernel (tests, not the unbounded claim). Decided by conformance: library hash = Lean reference Keccak for every length 0..=1100 (seed-derived content), block-boundary lengths and 200 (quick) / 20 000 (thorough) longer messages; hash-to-scalar on random digests and digests >= l, 2l, 2^256-1. Session 4: C17_state_size (the state stays 25 lanes: no totalised accessor falls back), C17_tables_generated (round constants, rho and pi offsets from the specification's rules), C17_keccak_sponge, C17_pad_injective, a NIST two-block vector, C17_hashable_hash_to_scalar; a table-free Rust Keccak written from the specification is a second oracle; messages up to 1 MiB.",
    level_note="Trusted: Lean kernel and the compiled reference Keccak (validated against published vectors in the kernel); tiny-keccak is modelled, not verified. What the model cannot exhibit: a divergence of tiny-keccak from Keccak-f on an untested input.",
    design_ref="DESIGN.md §6 C17",
    rule="every message length 0..=1100, lengths around 136*k, longer random messages; digests incl. values >= l and 2^256-1.",
    assumptions=["tiny-keccak implements Keccak-f[1600] (tested, not proved)"],
    gen_items=[],
)

PROPS["C13"] = dict(
    level="proof",
    technique="Lean 4 theorems about a model of PrivateKey::from_slice / PublicKey::from_slice (dalek's permissive decompress mirrored incl. sqrt_ratio_i, then recompress-and-compare) over ZMod p with a machine-checked primality certificate of p (Pratt/Lucas) and the p = 5 mod 8 square-root argument; group arithmetic: dalek vs a Lean reference curve that is PROVED to be the group law of the curve (Proofs/EdwardsGroup, EdwardsRef, EdwardsLawful)",
    level_text="C13_secret_iff: accepted <-> 32 bytes and LE value < l. C13_public_iff (sound + complete): accepted <-> canonical encoding of a point on the curve (y < p, x recoverable with the encoded sign, no negative zero); completeness uses Nat.Prime p proved from a generated Pratt certificate. C13_public_eq_reference: the model accepts exactly what RFC 8032 strict decoding accepts, for every byte string. C13_rejects_noncanonical_y (all y in [p, 2^255)), C13_rejects_negative_zero, C13_bytes_roundtrip (binary, hex, consensus). Key ARITHMETIC (from_private_key, +, -, *) delegates to curve25519-dalek and is compared on every run with the Lean reference curve on random and special operands (identity, small-order points, l-1, P+(-P)); C13_curve_points_form_a_group / C13_group_law / C13_base_point_order / C13_encoding_bijective prove that this reference is the abelian group of curve points (complete Edwards addition law), with base point of order exactly l and a bijective encoding. The text, Display and consensus forms have an independent spec side (accepted iff RFC 8032 / < l). Session 4: the operators are modelled on the stored key bytes (Model/KeyOps.lean: point(), +, -, *, from_private_key, scalar arithmetic) with C13_{add,sub,smul,pub_of}_bytes, C13_operators_no_panic, C13_scalar_ops, the identities of the statement (C13_pub_add, C13_smul_smul, C13_add_sub and their byte-level forms), the curve constants pinned (C13_d_is_ed25519, C13_G_is_ed25519) and C13_rejects_negative_zero_bytes.",
    level_note="Trusted: Lean kernel (+ Mathlib for ZMod / lucas_primality); model/Rust correspondence of acceptance differential (incl. all 38 non-canonical-y encodings, both negative-zero encodings, the 8 small-order points); dalek's field/point arithmetic is a dependency: modelled by Ref/Ed25519.lean (proved to be the Edwards group law) and tied to it differentially.",
    design_ref="DESIGN.md §6 C13",
    rule="random 32-byte strings, all non-canonical-y and negative-zero encodings, small-order points and sign flips, random valid points / invalid y, boundary scalars; arithmetic on random and special operands.",
    assumptions=["curve25519-dalek computes the same functions as Ref/Ed25519.lean (differential tie); that Ref/Ed25519.lean is the group law is proved"],
    gen_items=[],
)

_CRYPTO_NOTE = ("Trusted: Lean kernel (+ Mathlib's AddCommGroup/Module for the abstract group); the theorems hold for EVERY lawful instance of CryptoOps "
                "(Proofs/Group.lean `Lawful`: add/sub/smul are the operations of an additive commutative group, l•G = 0, 8 < l, enc injective, dec∘enc = some; "
                "a toy lawful instance Z/(8l) is exhibited) AND are instantiated, hypothesis-free, at Ed25519 itself (`*_ed25519` theorems): "
                "Proofs/EdwardsGroup.lean proves the twisted Edwards addition law on GF(2^255-19) is an abelian group (completeness from d non-square, "
                "associativity by polynomial certificates), Proofs/EdwardsRef*/EdwardsLawful.lean that the executable reference Ref/Ed25519.lean (what the "
                "driver runs) computes in that group and that its primitives record is Lawful (l•G = 0, injective encoding, strict decoding). What remains "
                "trusted is that curve25519-dalek and tiny-keccak (dependencies) compute the same functions as Ref/Ed25519.lean and Ref/Keccak.lean: tied "
                "differentially. Model/Rust correspondence of the control flow is differential; salts, cofactor and H are regenerated from source.")

PROPS["C10"] = dict(
    level="proof",
    technique="Lean 4 theorems in an arbitrary lawful abelian group: the model of KeyGenerator::from_key/from_random equals 8•(a•B) for every point incl. torsion, sender/receiver commute, one-time keys recognised; counterexample for the pinned scalar-times-8 formula; torsion-augmented differential check vs the Lean reference curve",
    level_text="C10_derivation: derive a B = 8•(a•B) for every point B (torsion component removed: C10_derivation_torsion); C10_sender_receiver; C10_onetime_recognised / C10_view_tag_recognised (the by-the-book sender's key and tag are what the receiver computes); C10_scalar8_agrees_on_torsion_free + C10_scalar8_counterexample document the defect repaired by the fix commit (the pinned formula (8a mod l)•B differs on a point of order 8 - in the toy group Z/(8l) AND on Ed25519 itself: C10_scalar8_counterexample_ed25519 with T8 = the accepted key of order exactly 8, C10_eight_torsion_points_ed25519). C10_constructors / C10_sender_receiver_split: from_random and from_key are two model functions (deriveSender / deriveReceiver), each proved to be 8•(a•B); C10_check_iff / C10_check_accepts_sender_key / C10_check_rejects_shifted: model of KeyGenerator::check; C10_no_subgroup_check / C10_derivation_bytes: from the accepted 32 bytes to the group element, and the executable driver instance prints exactly its encoding (C10_driver_refines). Every test key is used 9 times (as is and plus each of the 8 small-order points) against model, by-the-book spec on the reference curve, and dalek's mul_by_cofactor.",
    level_note=_CRYPTO_NOTE,
    design_ref="DESIGN.md §6 C10, §7 item 1",
    rule="300 (quick) / 2000 (thorough) keys x 9 torsion variants, scalars random/0/1/l-1/small/near-l/ceil(j*l/8) and the scalar below it, one-time keys with torsion on R, V, S; per key also: sender constructor on V+T (T of any order, independent of the scalar stratum), get_rvn_scalar, receiver key and KeyGenerator::check (right key + one wrong key: position n+-1, key+T, other spend key, negated key) with an independent spend key and independent torsion on R and S; families: two wallets sharing the spend key (from_key, from_random, SubKeyChecker::check consecutively), scalars of every top byte 0x00..0x0f x 8 torsion points, long-then-short output indices on the same keys; wire keys of wrong length; malformed operands. Statistic c10.formulas-differ counts the cases that separate (8a mod l)B from 8(aB).",
    assumptions=["curve25519-dalek computes the same functions as Ref/Ed25519.lean (differential tie); that Ref/Ed25519.lean is the Ed25519 group law is proved (edOps_lawful)"],
    gen_items=["mulFactor"],
)

PROPS["C09"] = dict(
    level="proof",
    technique="Lean 4 theorems in an arbitrary lawful group: recovered secret = Hs(8vR ‖ n) + s' and its public key is the sender-built one-time key, for primary and subaddress destinations; differential check vs reference curve and an independent dalek sender",
    level_text="C09_recover_value (recover = (Hs(enc(8•(v•R)) ‖ varint n) + s') mod l with s' the subaddress spend secret), C09_recover_matches_scan (for every R, recover•G is the key the scanner matched), C09_recover_pub (for honest senders, recover•G = the by-the-book one-time key, primary and subaddress), C09_recover_reduced; C09_owned_recover(_all_apis): for EVERY output the scan model (C07) reports, the model of OwnedTxOut::recover_key (Owned.recoverKey) returns a reduced x with from_private_key(x) = that output's one-time key; C09_recoverer_object (KeyRecoverer as a two-step object has no state beyond (v, s, rv)); C09_recover_value_bounded (nothing is truncated on u32/u64/32-byte inputs); C09_driver_refines (the driver instance computes the scalars of the _ed25519 theorems). Wallets x positions (127/128/16383/16384/2^21 boundaries) x indices with zero components, also with torsion on the tx key.",
    level_note=_CRYPTO_NOTE,
    design_ref="DESIGN.md §6 C09",
    rule="10 (quick) / 100 (thorough) wallets x 10 positions x 6 indices ((0,0), small one-zero-component, small, byte-boundary, (0,big)/(big,0)), every 5th case (rotating through the index families) plus a 1-in-12 coin with a torsioned tx key; per wallet 2 sequences of 11 recoveries on ONE KeyRecoverer (c09_recover_seq) and the same queries consecutively; 40 / 300 scanner scenarios (positions beyond 128 / 300 / 16384, thorough also 70000; a third with all subaddress indices shifted to byte / sign-bit boundaries); 8 / 60 whole transactions with honest keys and keys moved by a small-order point through Transaction::check_outputs + recover_key (c09_scan_tx), half of them after a failing scan.",
    assumptions=["curve25519-dalek computes the same functions as Ref/Ed25519.lean (differential tie); that Ref/Ed25519.lean is the Ed25519 group law is proved (edOps_lawful)"],
    gen_items=["mulFactor", "subaddrSalt"],
)

PROPS["C11"] = dict(
    level="proof",
    technique="Lean 4 theorems in an arbitrary lawful group for the public- and secret-side subaddress derivations, the hashed preimage and its injectivity in (i,j), the address; distinctness reduced to a named hash assumption; stratified differential check on 3 networks",
    level_text="C11_keys_are_monero / C11_keys_are_spec (S' = S + Hs(\"SubAddr\\0\"‖v‖i‖j)•G, V' = v•S', and the secret counterparts), C11_public_secret_agree (public keys = G times secret keys), C11_zero_index, C11_single_zero_component_is_not_zero, C11_preimage (message layout, 48 bytes, injective in (i,j) below 2^32), C11_address (SubAddress-type address of those keys on the requested network, text = C12 spec text). C11_secret_reduced, C11_secret_keys_pair (get_secret_keys, order of the pair); C11_distinct_keys_or_collision(_ed25519): for distinct 32-bit indices other than (0,0) the 48-byte messages differ and EITHER Hs collides on them OR spend keys, encodings, spend secrets, address texts and (v != 0 mod l) view keys are all distinct - on Ed25519 without any hypothesis about the group; C11_driver_refines. C11_distinct_keys_partial: distinct indices give distinct keys PROVIDED Hs does not collide on the two (distinct) preimages and G has order exactly l - the cryptographic assumption no proof can discharge.",
    level_note=_CRYPTO_NOTE + " Observation (DESIGN.md §8): at index (0,0) get_subaddress prints a SubAddress-typed address of the primary keys, as the property's letter says; Monero's wallet prints the Standard address there.",
    design_ref="DESIGN.md §6 C11",
    rule="20 (quick) / 120 (thorough) wallets x (49 stratified indices (0, 1, 0xff, 0x100, 0xffff, 0x10000, u32::MAX per side) + 5 fixed indices at the 3rd/4th byte and sign-bit boundaries) x networks (all four in Rust, rotating through Lean); get_secret_scalar directly on half of the grid, get_secret_keys on a sixth; pairwise distinctness of keys / secrets / texts per wallet; per wallet 11 spend keys outside {s*G} (8 small-order components, identity, S' = identity, S' = T1) and s = -m; secret side in the shared-component family; the crate's own (2,18) vectors as literals.",
    assumptions=["collision-freeness of Hs on the 48-byte preimages (for distinctness only)"],
    gen_items=["subaddrSalt", "network."],
)

PROPS["C07"] = dict(
    level="proof",
    technique="Lean 4 theorems about a model of check_outputs_with (iterator pipeline, SubKeyChecker table as insert list, view tags, additional keys) in an arbitrary lawful group: exact characterisation of the reported set (sound + complete), sender outputs recognised, in the model the position enters as its LEB128 string, injectively; scenario-based three-way check with an independent sender (which is what ties the position encoding of the Rust code)",
    level_text="C07_sound / C07_complete / C07_reported_iff: position i is reported, with key K and index idx, iff K is the main key or (when the main key addresses nothing there) the additional key at position i, the view tag matches when present, and P_i = Hs(enc(8•(v•K)) ‖ varint i)•G + subSpendPub idx for an in-range idx (last-insert-wins on equal spend keys); C07_sender_recognised / C07_sender_reported: outputs built by the by-the-book sender for the primary address or an in-range subaddress (main-key or per-output key, tagged or not, any position, tx key with added 8-torsion) are reported; C07_position_encoding (in the model the position enters as Spec.leb128 i for every i — rvnScalar_eq / viewTagOf_eq — and the hashed message determines the position; the Rust side of this is tied by the scenarios around positions 128 / 16384, not proved); C07_errors (incl. Err(NoTxPublicKey) iff no key sub-field). apis_agree / addressed_iff / check_eq are definitional unfoldings (helpers, not results; Rust side: APIS-DIFFER / CHECK-DIFFER in the harness). Scenarios (wallet, ranges, per-output assignment primary/subaddress in or out of range/foreign/garbage, derivation, tag right/wrong/absent, version, RingCT type, positions beyond 128 and 16384) are built independently by the harness (dalek sender) and by the Lean spec; library scan = model = expected set. Session 4: the negative clauses are theorems — C07_wrong_tag_not_reported unconditional; C07_out_of_range_not_reported only under explicit no-collision hypotheses (hno: no in-range index has the spend key of the target index, which is the hash assumption and implies that the index is out of range; hK: the other key addresses nothing), its content being addressed_spend_unique + the contrapositive of C07_reported_iff (= C07_not_addressed_not_reported); C07_index_exact under hinj (spend keys of the ranges pairwise different); both hypotheses have non-trivial witnesses (zmodOps1). C07_sender_tx_reported / _clear (sender's extra bytes composed with the scan; no .ok premise in the clear case), C07_witness_ed25519 (an Ok scan on Ed25519 that reports an output), C07_check_sound / _complete / _iff for SubKeyChecker::check. Indices are Nat in the model; meant for range bounds <= 2^32.",
    level_note=_CRYPTO_NOTE + " That a foreign key does not satisfy the equation by accident is cryptographic (sampled, not proved); the theorem is an exact characterisation so it needs no such assumption.",
    design_ref="DESIGN.md §6 C07",
    rule="~40 (quick) / ~400 (thorough) scenarios; positions cross 128 and 16384 via filler outputs around real ones; missing/duplicate tx key fields, short / long additional-key lists (half, n-1, n+1 keys), wrong tags/positions, out-of-range subaddresses, torsioned keys; ranges 0..1 x 0..1 with primary-address outputs sent through additional keys; a tagged foreign first output before untagged owned ones; an additional-key output whose tag collides with the main-key tag (ground seed).",
    assumptions=["curve25519-dalek computes the same functions as Ref/Ed25519.lean (differential tie); that Ref/Ed25519.lean is the Ed25519 group law is proved (edOps_lawful)"],
    gen_items=["viewTagSalt", "mulFactor", "subaddrSalt", "CAP"],
)

PROPS["C08"] = dict(
    level="proof",
    technique="Lean 4 theorems: legacy and compact ecdh decode invert the by-the-book Monero sender encode for every amount < 2^64, mask and shared secret; any reported opening opens the on-chain commitment (for arbitrary, incl. corrupted, fields); clear amounts; differential check with an independent dalek encoder",
    level_text="C08_legacy_roundtrip / C08_compact_roundtrip / C08_sender_roundtrip: decoding the sender's encoding returns exactly (a, y) resp. (a, derived mask) and passes the commitment check; C08_opening_sound: for ARBITRARY ecdh/commitment bytes a reported opening (a', y', C') satisfies y'•G + a'•H = C' = the decoded on-chain commitment, otherwise the scan errs (no third case, via C07_errors); C08_clear_amounts (no RctSigBase — decoded version-1 or input-less transactions, C08_clear_amounts_decoded — or a base of type Null: a > 0 ↦ a, 0 ↦ unknown; proved is 'type Null ⇒ clear amount', NOT 'coinbase ⇒ clear amount': consensus requires Null of coinbase, the decoder and the scan do not look at the inputs, C08_gen_input_ringct_opened). The legacy theorem holds for the code after the fix commit (the pinned tree hashed the unreduced digest). Session 4: C08_scan_reports_sender_amount (end to end through the scan), C08_opening_sound_with (any checker; amount < 2^64 conditional on an 8-byte compact field, unconditional for decoded transactions: C08_opening_sound_decoded), C08_open_commitment_sound, C08_honest_scan_ok / _amounts, C08_sender_tx_amount (no .ok premise), C08_witness_ed25519 (all transaction-level hypotheses instantiated on Ed25519 with real Keccak), C08_H_is_monero / C08_H_decodes / C08_edH / C08_no_panic_commit, and *_ed25519_permissive instances over a model of dalek's permissive point decoding (tied to dalek differentially; proved to return curve points, to extend the strict decoder and to invert enc), instantiated with the point edH that Gen.pointH denotes: no decP / H / l / Keccak hypothesis left.",
    level_note=_CRYPTO_NOTE,
    design_ref="DESIGN.md §6 C08, §7 item 2",
    rule="(amount, mask, secret) triples x 2 encodings incl. 0, 2^64-1 and every power of two ±1; corrupted ecdh / commitments (bit flips, non-canonical encodings); commitments of two or three owned outputs exchanged or shifted by ±D with the sum preserved; legacy masks 0 / 1 / l-1 x amounts 0 / 1 / 2^64-1 through scans (identity commitment); v1 / input-less / type-Null clear amounts incl. 0 ↦ unknown.",
    assumptions=["2^64 <= l <= 2^256 and Keccak output >= 8 bytes (true for Ed25519 / Keccak-256)"],
    gen_items=["amountSalt", "maskSalt", "pointH", "mulFactor"],
)

PROPS["C19"] = dict(
    level="other",
    technique="Lean 4 theorems fromJson (toJson x) = some x on a model of the serde data model as configured in /repo (shapes determined from real serde_json output) for every public type, amount helpers via C15 and address via C12 theorems; JSON text of the model compared with serde_json's on the same values, and deserialisers on reordered / malformed documents",
    level_text="PARTIAL by nature: serde_derive's expansion and serde_json's printer/parser are trusted, not modelled. Proved on the model: C19_roundtrip_<T> for 26 types from Key/Hash/VarInt up to Transaction and Block (under explicit wf predicates), C19_amount_pico (every u64/i64), C19_amount_xmr (exact decimal string of C15, round-trips iff magnitude <= 2^63-1; C19_amount_xmr_refused above), option and sequence variants, C19_address_json / C19_invalid_address_refused (via C12). Decided by conformance: the model's compact JSON text equals serde_json::to_string on the same values (all RingCT types, both versions), read-back equality, and deserialisers agree on reordered, escaped and malformed documents. Session 4: C19_roundtrip_wire* / _decoded* (every value decoded from the wire round-trips through JSON: the wf predicates are consequences of decoding), amount theorems against Spec.Decimal, a generated serde shape table Gen/JsonShapes.lean with C19_shape_* theorems, models of PublicKey / SubField / ExtraField, from_reader / from_value / from_slice entry points.",
    level_note="Trusted: serde_derive, serde_json, serde-big-array; Lean kernel for the model-level theorems; the feature gate is exercised because the harness always builds monero with `serde`. What the model cannot exhibit: a divergence between serde_json's printer and parser on trees the tests do not reach.",
    design_ref="DESIGN.md §6 C19",
    rule="values from the shared generators (transactions/blocks of all types), amounts on the u64/i64 boundary sets, addresses (3 networks x 3 types), Index, Hash; malformed / reordered JSON documents.",
    assumptions=["serde_derive / serde_json conventions as observed on real output"],
    gen_items=[],
)

PROPS["C04"] = dict(
    level="proof",
    technique="Lean 4 theorems on the model (decoded vectors within the cap => tree-hash precondition for every parsed block; bounded VarInt reads; extra loop terminates; allocation-ledger bound closed under the decoder combinators and instantiated on the worst vector nesting) + isolated execution of every entry point (child process, catch_unwind, time limit, counting allocator) compared with the model's accept/reject",
    level_text="PARTIAL. Proved on the model: C04_vec_cap (a capped vector decoder returns exactly n elements with n*size_of <= CAP), C04_treehash_pre / C04_parsed_block_root_no_panic (every parsed block lists <= 2^20 hashes, so tree_hash's asserts and indexings cannot fire: the model of tree_hash returns `some` = no panic), C04_varint_bounded (1..10 bytes), C04_extra_total (the extra loop terminates on every input), C04_alloc_bind / C04_alloc_vec (ledger bound peak <= A + B*bytes closed under sequencing and capped pre-allocating vectors), C04_alloc_bound_tx / C04_alloc_bound_block (instrumented decoders of the WHOLE transaction and block - with_capacity reservations after their cap check, push-grown vectors with growth factor 4 - compute exactly the model's result and keep peak <= 2*CAP + 88*|b| on success and failure), C04_alloc_released. All model decoders are total Lean functions (structural recursion or fuel proved sufficient). What the model cannot exhibit - panics inside dependencies (dalek, tiny-keccak, base58-monero, hex, fixed-hash, std formatting), stack exhaustion, allocator/OS behaviour, real time - is observed by running every entry point and every public operation on parsed values in a child process under catch_unwind, a 20 s limit and a counting allocator: outcome must equal the model's accept/reject (never PANIC/ABORT/TIMEOUT) and peak heap must stay <= 2*CAP + 4 MiB + 160*|input|. Session 4: the data-dependent panic sites are EXPLICIT in Model/Panics.lean (slices, indices, str slices with char boundaries, machine-integer + and -) and proved unreachable for every input, the panic-explicit functions being proved equal to the total models: C04_no_panic_address(_type), _amount_parser, _fmt_piconero, _signed_to_string, _signed_from_str, _padding, _varint, _ring_size, _tx (whole transaction decoder), _prunable (public decoder, every usize argument — stating it exposed a genuine overflow panic, repaired by a fix commit), C04_raw_from_parsed_extra_no_panic.",
    level_note="Trusted: Lean kernel; model/Rust correspondence differential; the isolated runs sample the input space (valid, mutated, truncated at every position, declared-length attacks at every position and nested, random bytes, text inputs incl. invalid UTF-8 and 100 kB strings). Scanning time is linear in |major|x|minor| by the caller's choice of ranges; the harness uses small ranges.",
    design_ref="DESIGN.md §6 C04",
    rule="~10k (quick) / ~100k (thorough) isolated runs over 20 entry points; non-trivial = inputs that parse (all public operations are then run on the value).",
    assumptions=["the ledger charges what the Rust source allocates explicitly (Vec capacities); allocator overhead and temporaries of operations on parsed values are covered by the measured bound only", "dependencies do not panic on the sampled inputs"],
    gen_items=["CAP"],
    panic_inventory=True,
)
