"""Registry of claimed properties (source of MANIFEST.json; see `python3 check.py --manifest`)."""

TRUSTED_BASE = [
    "Lean 4.33 kernel (thorough tier: re-checked by leanchecker); axioms limited to propext, Classical.choice, Quot.sound, audited per theorem on every run",
    "Lean compiler/runtime for the compiled driver (compiled definitions assumed to compute what the kernel-level definitions denote)",
    "the translator (harness `extract`, syn AST matching) and the correspondence harness + check.py: they are what ties the hand-written model to /repo's source",
    "rustc 1.95 / std semantics; third-party crates (curve25519-dalek, tiny-keccak, base58-monero, hex, fixed-hash, serde*) are modelled by Lean references and validated only differentially",
]

NOTES = ("Technique family: machine-checked proof in Lean 4. Each check = (A) theorems about an executable model re-checked against "
         "tables regenerated from /repo, (B) correspondence model vs real code on generated operation lines, (C) oracle real code vs "
         "Lean spec/reference. A VIOLATION carries a replay with a failing input when C finds one, otherwise names the theorem or "
         "correspondence family that no longer checks (no-failing-input-found). See DESIGN.md.")

NOT_APPLICABLE = {}

PROPS = {}

PROPS["C14"] = dict(
    level="proof",
    technique="Lean 4 theorems (induction on the group list / strong induction on n) about a model of the VarInt encoder and two-phase decoder; model tied to code by exhaustive (<=2 bytes; <=3 bytes thorough) and boundary differential testing",
    level_text="C14_dec_iff proves for every byte string and every natural that the decoder model accepts exactly `leb128 n ++ rest` with n < 2^64 (bijection, minimality, overflow, truncation, no over-read are corollaries); the encoder-as-written is proved equal to LEB128 with exact length. The model is the Rust control flow (collect/reverse/accumulate with the leading_zeros guard) and is compared with the real decoder on every string of <= 2 bytes (<= 3 in thorough), the 9/10/11-byte boundary families and random inputs.",
    level_note="Trusted: Lean kernel; the hand-written model's correspondence to encode.rs:319-384 is established by differential testing (exhaustive on short strings), not by proof; io::Cursor/Read semantics of std.",
    design_ref="DESIGN.md §6 C14",
    rule="cases: exhaustive short strings, boundary families, encodings of boundary-biased u64 with suffix/truncation/non-minimal variants, random continuation-heavy strings.",
    assumptions=["model/Rust correspondence is differential (exhaustive for strings of <= 2 bytes, <= 3 bytes in thorough tier)"],
    gen_items=[],
)

PROPS["C20"] = dict(
    level="proof",
    technique="model generated from source by the translator (tag tables of network.rs / address.rs); Lean `decide +kernel` over the whole finite domain (3x3 pairs, all 256 bytes) lifted to arbitrary blobs; exhaustive differential check",
    level_text="The model IS the tables regenerated from src/network.rs and src/util/address.rs on every run; C20_table/_injective/_network_inverse/_reject_others/_type_lookup/_cross_network are proved against Monero's literal table (Spec.tag) by kernel evaluation over every (network, type) pair and every byte value and lifted to blobs of any length. A one-sided or two-sided edit of any table entry changes Gen and makes `decide` fail. In addition the real functions are compared with model and spec on the complete domain (61 708 cases).",
    level_note="Trusted: Lean kernel; the translator's reading of the match arms (cross-checked by the exhaustive differential run); Spec.tag is my transcription of cryptonote_config.h.",
    design_ref="DESIGN.md §6 C20",
    rule="exhaustive enumeration of the finite domain.",
    assumptions=["Spec.tag (18/19/42, 53/54/63, 24/25/36) is Monero's table"],
    gen_items=["network.", "address.from_slice"],
)

PROPS["C18"] = dict(
    level="proof",
    technique="delegation structure generated from amount.rs (which std method each checked_*/operator/assign calls) over Lean models of the std integer methods; theorems on Int for all operands in range; complete boundary-grid differential check",
    level_text="C18_checked_unsigned_iff / C18_checked_signed_iff prove, for all operands in u64 / i64, that each checked operation of the regenerated model returns r iff r is the exact integer result, representable, with non-zero divisor (signed rem: at every pair except (MIN,-1), where C18_rem_min_neg1 proves the deviation - a recorded known finding); operators panic iff checked is None, assign = operator, conversions and positive_sub exact. Binding a method to wrapping_*/saturating_* or an operator to the wrong checked method is representable in Gen and refutes the theorems.",
    level_note="Trusted: Lean kernel; models of std's checked_* semantics (StdInt.lean) validated on the boundary grid; translator's recognition of `self.0.m(rhs.0).map(T)`, `self.checked_m(rhs).expect(..)`, `*self = *self op other`; to_signed/to_unsigned/positive_sub hand-modelled with a reviewed-shape check.",
    design_ref="DESIGN.md §6 C18",
    rule="complete grid over ~50 boundary values per type x 5 ops x {checked, operator, assign}, conversions, positive_sub, random near-boundary pairs.",
    assumptions=["std integer methods behave as documented (modelled in Model/StdInt.lean, validated differentially)"],
    gen_items=["amount.Amount", "amount.SignedAmount"],
)

_CODEC_NOTE = ("Trusted: Lean kernel; the hand-written codec model (Model/VarInt, Tx, Block, Len) is tied to encode.rs / transaction.rs / "
               "ringct.rs / block.rs by differential testing (accept/reject, bytes consumed, re-encoded bytes, reported length on structured, "
               "mutated, truncated, tag-swept and declared-length inputs), not by proof; CAP is regenerated from source; size_of values are "
               "constants of the model (Tx.lean `sizes`) checked against std::mem::size_of by the declared-length cases.")

PROPS["C01"] = dict(
    level="proof",
    technique="Lean 4 theorems: `Sound enc dec` for every consensus decoder by combinator lemmas + case analysis of the Transaction/RingCT dispatch (decoder and encoder are separately modelled); differential correspondence on structured + malformed byte strings",
    level_text="C01_sound_* prove for every byte string b, every version, all seven RingCT types and every count that `dec b = some (x, rest)` implies `b = enc x ++ rest`, for VarInt, fixed-width records, capped vectors, TxIn, TxOut targets, prefix, ecdh, Bulletproof(+), MLSAG/CLSAG, RctSigBase(i,o), RctSigPrunable(type,i,o,m), Transaction, BlockHeader and Block; injectivity and 'identifiers commit to the received bytes' are corollaries. The model's decoders/encoders mirror the Rust ones and agree with them on ~58k (quick) structured, mutated, truncated and tag-swept inputs; the real code is additionally checked directly (serialize(parse b) == b[..n]).",
    level_note=_CODEC_NOTE,
    design_ref="DESIGN.md §6 C01",
    rule="40% valid encodings from the type-directed generator, 60% malformed stream (9 mutation kinds, 256-value sweeps at leading byte positions, truncation at every position, declared lengths around the cap).",
    assumptions=["model/Rust correspondence of the codec is differential", "String and bool codecs are not reachable from Block/Transaction and are not modelled"],
    gen_items=["CAP"],
)

PROPS["C02"] = dict(
    level="proof",
    technique="Lean 4 theorems: `Complete wf enc dec` on explicit decidable well-formedness predicates, separately modelled length accounting proved equal to bytes written, strictness lemmas; round-trip / length / strictness oracles on generated values",
    level_text="C02_complete_* prove `dec (enc x ++ r) = some (x, r)` for every well-formed x (wfTx/wfBlock: implicit vectors have the implied lengths, numbers are u64, keys 32 bytes, explicit vectors within the cap, one-byte BulletproofPlus count < 256) and every continuation r; C02_len_* prove that the byte count each encoder reports (a separately written fold mirroring `len += ...`) equals the bytes written for every value; C02_strict / C02_strict_iff_partial / C02_partial_count give the strict/partial clauses. The real code is checked on generated values of all shapes (round trip, reported length, strict rejection of suffixes) and against the model.",
    level_note=_CODEC_NOTE + " Known finding: BulletproofPlus counts > 255 do not round-trip (recorded, DESIGN.md §7 item 4).",
    design_ref="DESIGN.md §6 C02, Appendix B",
    rule="type-directed values: both versions, all 7 RingCT types, rings 1..40 (a few with thousands of members), 0..18 outputs (a few with thousands), long extras, blocks with 0..thousands of hashes; primitives at every varint width boundary.",
    assumptions=["WF includes the decoder's allocation cap (C04 requires it)", "Padding sub-fields are C16's subject (not prefix-free by design)"],
    gen_items=["CAP"],
)

PROPS["C06"] = dict(
    level="proof",
    technique="Lean 4 loop-invariant proof: the imperative in-place array tree hash (model of tree_hash_cnt/tree_hash with every assert and index checked) equals the recursive CryptoNote definition for every hash function and every n <= 2^28; blob/id formulas by unfolding; differential check for every n in an initial segment and around powers of two",
    level_text="C06_tree_eq_spec proves, for every H, root and list of extra hashes with count <= 2^28, that the model of the Rust loops (doubling loop with both asserts, first in-place pairing loop, assert_eq, halving loops, final combine; none = panic) returns exactly the recursive CryptoNote tree hash; C06_cnt characterises tree_hash_cnt; C06_blob / C06_id / C06_exception give the PoW blob, the id and the block-202612 substitution. The model instantiated with the reference Keccak reproduces the library's tree_hash for every n <= 300 (1100 thorough) and 2^k-2..2^k+2, and tx_root / hashable blob / id of generated blocks and of block 202612.",
    level_note="Trusted: Lean kernel; model/Rust correspondence of the loops is differential; Keccak-256 itself is tiny-keccak (C17); the header bytes and miner-tx hash fed to the Lean side come from the library (the Block codec model is C01/C02's, the tx id is C05's).",
    design_ref="DESIGN.md §6 C06",
    rule="every leaf count n in 1..=300 (quick) / 1..=1100 (thorough), 2^k-2..2^k+2 for k <= 12 / 16, generated blocks with hash counts around powers of two, block 202612.",
    assumptions=["count <= 2^28 (the code's own assert; guaranteed for parsed blocks by the allocation cap)"],
    gen_items=[],
)
