"""Registry of claimed properties (source of MANIFEST.json; see `python3 check.py --manifest`)."""

TRUSTED_BASE = [
    "Lean 4.33 kernel (thorough tier: re-checked by leanchecker); axioms limited to propext, Classical.choice, Quot.sound, audited per theorem on every run",
    "Lean compiler/runtime for the compiled driver (compiled definitions assumed to compute what the kernel-level definitions denote)",
    "the translator (harness `extract`, syn AST matching) and the correspondence harness + check.py: they are what ties the hand-written model to /repo's source",
    "rustc 1.95 / std semantics; third-party crates (curve25519-dalek, tiny-keccak, base58-monero, hex, fixed-hash, serde*) are modelled by Lean references and validated only differentially",
]

NOTES = ("Technique family: machine-checked proof in Lean 4. Each check = (A) theorems about an executable model re-checked against "
         "tables regenerated from /repo, (B) correspondence model vs real code on generated operation lines, (C) oracle real code vs "
         "Lean spec/reference. A VIOLATION carries a replay with a failing input when C finds one, otherwise names the theorem or "
         "correspondence family that no longer checks (no-failing-input-found). See DESIGN.md.")

NOT_APPLICABLE = {}

PROPS = {}

PROPS["C14"] = dict(
    level="proof",
    technique="Lean 4 theorems (induction on the group list / strong induction on n) about a model of the VarInt encoder and two-phase decoder; model tied to code by exhaustive (<=2 bytes; <=3 bytes thorough) and boundary differential testing",
    level_text="C14_dec_iff proves for every byte string and every natural that the decoder model accepts exactly `leb128 n ++ rest` with n < 2^64 (bijection, minimality, overflow, truncation, no over-read are corollaries); the encoder-as-written is proved equal to LEB128 with exact length. The model is the Rust control flow (collect/reverse/accumulate with the leading_zeros guard) and is compared with the real decoder on every string of <= 2 bytes (<= 3 in thorough), the 9/10/11-byte boundary families and random inputs.",
    level_note="Trusted: Lean kernel; the hand-written model's correspondence to encode.rs:319-384 is established by differential testing (exhaustive on short strings), not by proof; io::Cursor/Read semantics of std.",
    design_ref="DESIGN.md §6 C14",
    rule="cases: exhaustive short strings, boundary families, encodings of boundary-biased u64 with suffix/truncation/non-minimal variants, random continuation-heavy strings.",
    assumptions=["model/Rust correspondence is differential (exhaustive for strings of <= 2 bytes, <= 3 bytes in thorough tier)"],
    gen_items=[],
)
