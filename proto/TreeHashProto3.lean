import Feas.P.TH2
/-! C06 prototype, final assembly. -/
variable {α : Type} (H : α → α → α)

/-- `tree_hash` (hash.rs:192-224) with its asserts and index checks; `none` = panic -/
def treeHash (root : α) (extra : List α) : Option α :=
  match extra with
  | [] => some root
  | [e] => some (H root e)
  | _ =>
    let count := extra.length + 1
    match treeHashCnt count with
    | none => none
    | some cnt =>
      match phase1 H cnt (root :: extra) (2 * cnt - count) (2 * cnt - count) cnt with
      | none => none
      | some (hs1, i) =>
        if i ≠ count then none else
        match phase2 H 64 hs1 cnt with
        | none => none
        | some hs2 =>
          match hs2[0]?, hs2[1]? with
          | some a, some b => some (H a b)
          | _, _ => none

/-- the recursive CryptoNote definition for `n ≥ 3` leaves, given the level `m` with `2^m < n ≤ 2^(m+1)`:
    keep `k = 2·2^m − n` leading leaves, pair the rest, then a perfect binary tree of height `m` -/
def treeSpec (m : Nat) (hs : List α) : Option α :=
  let k := 2 * 2^m - hs.length
  treeOf H m (hs.take k ++ pairs H (2^m - k) (hs.drop k))

theorem treeHash_eq_spec (root : α) (extra : List α) (h2 : 2 ≤ extra.length) (hmax : extra.length + 1 ≤ 2^28) :
    ∃ m, 1 ≤ m ∧ 2^m < extra.length + 1 ∧ extra.length + 1 ≤ 2^(m+1) ∧
      treeHash H root extra = treeSpec H m (root :: extra) := by
  obtain ⟨m, hm1, hcnt, hlo, hhi⟩ := treeHashCnt_spec (extra.length + 1) (by omega) hmax
  refine ⟨m, hm1, hlo, hhi, ?_⟩
  have hpow : 2^(m+1) = 2 * 2^m := by rw [Nat.pow_succ]; omega
  -- unfold the non-trivial branch
  have hbranch : treeHash H root extra =
      (match treeHashCnt (extra.length + 1) with
       | none => none
       | some cnt =>
         match phase1 H cnt (root :: extra) (2 * cnt - (extra.length + 1)) (2 * cnt - (extra.length + 1)) cnt with
         | none => none
         | some (hs1, i) =>
           if i ≠ extra.length + 1 then none else
           match phase2 H 64 hs1 cnt with
           | none => none
           | some hs2 =>
             match hs2[0]?, hs2[1]? with
             | some a, some b => some (H a b)
             | _, _ => none) := by
    match extra, h2 with
    | a :: b :: t, _ => rfl
  rw [hbranch, hcnt]
  simp only
  set_option maxRecDepth 10000 in
  have hlen : (root :: extra).length = extra.length + 1 := by simp
  have hk : 2 * 2^m - (extra.length + 1) ≤ 2^m := by omega
  have hp := phase1_spec H (2^m) (root :: extra) (2 * 2^m - (extra.length + 1)) (2 * 2^m - (extra.length + 1)) (2^m)
    (Nat.le_refl _) hk (by omega) (by rw [hlen]; omega) (by rw [hlen]; omega)
  rw [hp]
  have hi : 2 * 2^m - (extra.length + 1) + 2 * (2^m - (2 * 2^m - (extra.length + 1))) = extra.length + 1 := by omega
  simp only [hi, ne_eq, not_true_eq_false, if_false]
  -- length of the level
  have hpl : (pairs H (2^m - (2 * 2^m - (extra.length + 1))) ((root :: extra).drop (2 * 2^m - (extra.length + 1)))).length
      = 2^m - (2 * 2^m - (extra.length + 1)) :=
    pairs_length H _ _ (by simp only [List.length_drop, hlen]; omega)
  have hlevel : ((root :: extra).take (2 * 2^m - (extra.length + 1)) ++
      pairs H (2^m - (2 * 2^m - (extra.length + 1))) ((root :: extra).drop (2 * 2^m - (extra.length + 1)))).length = 2^m := by
    rw [List.length_append, hpl, List.length_take, hlen]; omega
  obtain ⟨m', rfl⟩ : ∃ m', m = m' + 1 := ⟨m - 1, by omega⟩
  obtain ⟨hs2, e1, e2⟩ := phase2_spec H m' 64
    ((root :: extra).take (2 * 2^(m'+1) - (extra.length + 1)) ++
      pairs H (2^(m'+1) - (2 * 2^(m'+1) - (extra.length + 1))) ((root :: extra).drop (2 * 2^(m'+1) - (extra.length + 1))) ++
      (root :: extra).drop (2^(m'+1)))
    (by
      have : 2^(m'+1) < 2^28 := by omega
      have := (Nat.pow_lt_pow_iff_right (a := 2) (by decide)).1 this
      omega)
    (by rw [List.length_append, hlevel]; omega)
  rw [e1]
  simp only
  refine Eq.trans e2 ?_
  rw [treeOf_append H (m'+1) _ _ (by rw [hlevel]; exact Nat.le_refl _)]
  simp [treeSpec, hlen]

#print axioms treeHash_eq_spec
