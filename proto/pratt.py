import sys, time
from sympy import factorint, isprime, primitive_root
sys.setrecursionlimit(10000)
def tree(n, depth=0, seen={}):
    if n in seen or n < 1000: return
    t=time.time()
    f = factorint(n-1)
    seen[n]=f
    print("  "*depth, n.bit_length(), "bits", n, "p-1 =", f, "%.1fs"%(time.time()-t), flush=True)
    for q in f:
        tree(q, depth+1, seen)
p = 2**255-19
l = 2**252 + 27742317777372353535851937790883648493
tree(l)
