import Feas.Extra
import Feas.Keccak
/-! Prototype model of check_outputs_with (transaction.rs:499-580), SubKeyChecker, KeyGenerator, subaddress keys. -/
namespace Scan
open TxModel Extra Ed

def leBytes32 (n : Nat) : Bytes := Ed.toBytesLE n 32
def hs (b : Bytes) : Nat := leNat (Keccak.keccak256 b) % Ed.l
def decPoint (k : Bytes) : Option Pt :=
  let kk := leNat k
  match Ed.decompress kk with | none => none | some P => if Ed.compress P == kk then some P else none
def encPoint (P : Pt) : Bytes := leBytes32 (Ed.compress P)
def neg (P : Pt) : Pt := ⟨(Ed.p - P.x) % Ed.p, P.y, P.z, (Ed.p - P.t) % Ed.p⟩
def le32 (n : Nat) : Bytes := Ed.toBytesLE n 4

/-- m = Hs("SubAddr\0" || v || major_le32 || minor_le32) -/
def subScalar (v : Nat) (i j : Nat) : Nat :=
  hs ("SubAddr".toUTF8.toList ++ [0] ++ leBytes32 v ++ le32 i ++ le32 j)
def subSpend (v : Nat) (S : Pt) (i j : Nat) : Pt :=
  if i = 0 ∧ j = 0 then S else Ed.add S (Ed.smul (subScalar v i j) Ed.G)

/-- table as association list keyed by compressed bytes; later inserts win -/
def table (v : Nat) (S : Pt) (majLo majHi minLo minHi : Nat) : List (Bytes × (Nat × Nat)) := Id.run do
  let mut t : List (Bytes × (Nat × Nat)) := []
  for i in [majLo:majHi] do
    for j in [minLo:minHi] do
      t := (encPoint (subSpend v S i j), (i, j)) :: t
  return t

/-- derivation as on the pinned tree: (8·v mod l)·R -/
def derive (v : Nat) (R : Pt) : Pt := Ed.smul ((8 * v) % Ed.l) R

def viewTag (D : Pt) (i : Nat) : UInt8 :=
  (Keccak.keccak256 ("view_tag".toUTF8.toList ++ encPoint D ++ encVarint i)).head!

def checkKey (v : Nat) (tbl : List (Bytes × (Nat × Nat))) (out : TxOut) (i : Nat) (K : Bytes) : Option (Nat × (Nat × Nat) × Bytes) :=
  let (keyBytes, tag?) := match out.target with | .key k => (k, none) | .tagged k t => (k, some t)
  match decPoint keyBytes, decPoint K with
  | some P, some R =>
    let D := derive v R
    if (match tag? with | some t => t != viewTag D i | none => false) then none else
    let h := hs (encPoint D ++ encVarint i)
    let cand := Ed.add P (neg (Ed.smul h Ed.G))
    match tbl.lookup (encPoint cand) with
    | some idx => some (i, idx, K)
    | none => none
  | _, _ => none

def scan (v : Nat) (S : Pt) (majLo majHi minLo minHi : Nat) (p : Prefix) : Option (List (Nat × (Nat × Nat) × Bytes)) :=
  let (_, fields) := tryParse (p.extra.length + 1) p.extra [] false
  match fields.findSome? (fun f => match f with | .txPub k => some k | _ => none) with
  | none => none     -- NoTxPublicKey
  | some R =>
    let adds := (fields.findSome? (fun f => match f with | .addKeys ks => some ks | _ => none)).getD []
    let tbl := table v S majLo majHi minLo minHi
    let rec go : List TxOut → Nat → List Bytes → List (Nat × (Nat × Nat) × Bytes)
      | [], _, _ => []
      | o :: os, i, as =>
        let a? := as.head?
        let r := match checkKey v tbl o i R with
          | some x => some x
          | none => match a? with | some a => checkKey v tbl o i a | none => none
        (match r with | some x => [x] | none => []) ++ go os (i+1) as.tail
    some (go p.outs 0 adds)
end Scan
