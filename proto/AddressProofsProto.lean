import Feas.Address
open Address

/-- the conditions under which the byte parser accepts, spelled out -/
theorem fromBytes_some (strict : Bool) (b : Bytes) (a : Addr) (h : fromBytes strict b = some a) :
    ∃ net kind, 65 ≤ b.length ∧ netOf b.head!.toNat = some net ∧ kindOf b net = some kind ∧
      bodyLen kind + 4 ≤ b.length ∧ (strict = true → b.length = bodyLen kind + 4) ∧
      (Keccak.keccak256 (b.take (bodyLen kind))).take 4 = (b.drop (bodyLen kind)).take 4 ∧
      a = ⟨net, kind, (b.drop 1).take 32, (b.drop 33).take 32⟩ := by
  by_cases h1 : b.length < 65
  · simp [fromBytes, h1] at h
  · cases hn : netOf b.head!.toNat with
    | none => simp [fromBytes, h1, hn] at h
    | some net =>
      cases hk : kindOf b net with
      | none => simp [fromBytes, h1, hn, hk] at h
      | some kind =>
        simp [fromBytes, h1, hn, hk] at h
        obtain ⟨_, _, l1, l2, c, rfl⟩ := h
        exact ⟨net, kind, by omega, rfl, hk, l1, l2, c, by simp [List.drop_one]⟩

theorem tag_roundtrip (b : Bytes) (net : Net) (kind : Kind) (hne : b ≠ [])
    (hn : netOf b.head!.toNat = some net) (hk : kindOf b net = some kind) :
    UInt8.ofNat (tagOf net kind) = b.head! ∧ (pidOf kind = (b.drop 65).take (bodyLen kind - 65)) := by
  unfold kindOf at hk
  have hlt := b.head!.toNat_lt
  cases net <;> simp only at hk <;> (
    split at hk
    · rename_i h; simp at hk; subst hk
      exact ⟨by simp only [tagOf]; rw [← h]; exact UInt8.ofNat_toNat, by simp [pidOf, bodyLen]⟩
    · split at hk
      · rename_i h; split at hk
        · simp at hk
        · simp at hk; subst hk
          exact ⟨by simp only [tagOf]; rw [← h]; exact UInt8.ofNat_toNat, by simp [pidOf, bodyLen]⟩
      · split at hk
        · rename_i h; simp at hk; subst hk
          exact ⟨by simp only [tagOf]; rw [← h]; exact UInt8.ofNat_toNat, by simp [pidOf, bodyLen]⟩
        · simp at hk)

/-- C12 (blob form) for the repaired parser: an accepted blob is exactly the canonical form of the address returned -/
theorem fromBytes_canonical (b : Bytes) (a : Addr) (h : fromBytes true b = some a) : asBytes a = b := by
  obtain ⟨net, kind, h65, hn, hk, hl, hs, hc, rfl⟩ := fromBytes_some true b a h
  have hlen := hs rfl
  have hne : b ≠ [] := by intro e; subst e; simp at h65
  obtain ⟨ht, hp⟩ := tag_roundtrip b net kind hne hn hk
  have hbl : 65 ≤ bodyLen kind := by cases kind <;> simp [bodyLen]
  -- b.take (bodyLen kind) decomposes into the four fields
  have hbody : b.take (bodyLen kind) = b.head! :: (b.drop 1).take 32 ++ (b.drop 33).take 32 ++ pidOf kind := by
    have e : bodyLen kind = 1 + (32 + (32 + (bodyLen kind - 65))) := by omega
    rw [hp]
    conv => lhs; rw [e, List.take_add, List.take_add, List.take_add]
    have h1 : b.take 1 = [b.head!] := by
      cases b with
      | nil => exact absurd rfl hne
      | cons x xs => simp [List.head!]
    simp only [h1, List.drop_drop, List.singleton_append, List.cons_append, List.append_assoc, List.nil_append]
  have hlast : (b.drop (bodyLen kind)).take 4 = b.drop (bodyLen kind) := List.take_of_length_le (by simp [hlen])
  unfold asBytes
  simp only [ht]
  rw [← hbody, hc, hlast, List.take_append_drop]

#print axioms fromBytes_canonical
