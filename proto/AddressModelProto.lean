import Feas.Keccak
import Feas.Ed
/-! Prototype model of Monero base58 (base58-monero 2.1.0) and Address::{from_bytes, as_bytes, Display, FromStr} (address.rs). -/
namespace Address
abbrev Bytes := List UInt8

def alphabet : Array UInt8 := "123456789ABCDEFGHJKLMNPQRSTUVWXYZabcdefghijkmnopqrstuvwxyz".toUTF8.toList.toArray
def encSizes : List Nat := [0, 2, 3, 5, 6, 7, 9, 10, 11]

def beNat (b : Bytes) : Nat := b.foldl (fun acc x => acc * 256 + x.toNat) 0
def toBE (n k : Nat) : Bytes := (List.range k).reverse.map fun i => UInt8.ofNat ((n / 256^i) % 256)
def digits58 (n k : Nat) : Bytes := (List.range k).reverse.map fun i => alphabet[(n / 58^i) % 58]!

/-- encode_block: 1..8 bytes → fixed-width base-58 -/
def encodeBlock (data : Bytes) : Bytes := digits58 (beNat data) (encSizes[data.length]!)

def chunks (n : Nat) : Nat → Bytes → List Bytes
  | 0, _ => []
  | _, [] => []
  | f+1, b => b.take n :: chunks n f (b.drop n)

def encode (data : Bytes) : Bytes := ((chunks 8 (data.length + 1) data).map encodeBlock).flatten

def digitVal (c : UInt8) : Option Nat := alphabet.toList.idxOf? c
def val58 : Bytes → Nat → Option Nat
  | [], acc => some acc
  | c :: cs, acc => match digitVal c with | none => none | some d => val58 cs (acc * 58 + d)

/-- decode_block: size lookup, alphabet check, overflow check -/
def decodeBlock (cs : Bytes) : Option Bytes :=
  match encSizes.idxOf? cs.length with
  | none => none
  | some size =>
    match val58 cs 0 with
    | none => none
    | some v => if v < 256 ^ size then some (toBE v size) else none

def decode (s : Bytes) : Option Bytes :=
  (chunks 11 (s.length + 1) s).foldr (fun c acc => match decodeBlock c, acc with | some b, some r => some (b ++ r) | _, _ => none) (some [])

inductive Net | Mainnet | Testnet | Stagenet deriving DecidableEq, Repr
inductive Kind | Standard | Integrated (pid : Bytes) | SubAddress deriving DecidableEq, Repr
structure Addr where (net : Net) (kind : Kind) (spend view : Bytes) deriving DecidableEq, Repr

def netOf (b : Nat) : Option Net :=
  if b = 18 ∨ b = 19 ∨ b = 42 then some .Mainnet else if b = 53 ∨ b = 54 ∨ b = 63 then some .Testnet
  else if b = 24 ∨ b = 25 ∨ b = 36 then some .Stagenet else none
def tagOf : Net → Kind → Nat
  | .Mainnet, .Standard => 18 | .Mainnet, .Integrated _ => 19 | .Mainnet, .SubAddress => 42
  | .Testnet, .Standard => 53 | .Testnet, .Integrated _ => 54 | .Testnet, .SubAddress => 63
  | .Stagenet, .Standard => 24 | .Stagenet, .Integrated _ => 25 | .Stagenet, .SubAddress => 36
/-- AddressType::from_slice (non-empty input) -/
def kindOf (bytes : Bytes) (net : Net) : Option Kind :=
  let b := bytes.head!.toNat
  let (s, i, u) := match net with | .Mainnet => (18, 19, 42) | .Testnet => (53, 54, 63) | .Stagenet => (24, 25, 36)
  if b = s then some .Standard
  else if b = i then (if bytes.length < 73 then none else some (.Integrated ((bytes.drop 65).take 8)))
  else if b = u then some .SubAddress else none

def leNat (b : Bytes) : Nat := b.foldr (fun x acc => x.toNat + 256 * acc) 0
def validPoint (k : Bytes) : Bool :=
  let kk := leNat k
  match Ed.decompress kk with | none => false | some P => Ed.compress P == kk

def bodyLen : Kind → Nat | .Integrated _ => 73 | _ => 65
def pidOf : Kind → Bytes | .Integrated p => p | _ => []

/-- Address::from_bytes; `strict` = the repaired length check (exactly 69 / 77), `false` = the pinned tree -/
def fromBytes (strict : Bool) (bytes : Bytes) : Option Addr :=
  if bytes.length < 65 then none else
  match netOf bytes.head!.toNat with
  | none => none
  | some net =>
    match kindOf bytes net with
    | none => none
    | some kind =>
      if !validPoint ((bytes.drop 1).take 32) then none
      else if !validPoint ((bytes.drop 33).take 32) then none
      else if bytes.length < bodyLen kind + 4 then none
      else if strict && bytes.length != bodyLen kind + 4 then none
      else if (Keccak.keccak256 (bytes.take (bodyLen kind))).take 4 != (bytes.drop (bodyLen kind)).take 4 then none
      else some ⟨net, kind, (bytes.drop 1).take 32, (bytes.drop 33).take 32⟩

def asBytes (a : Addr) : Bytes :=
  let body := UInt8.ofNat (tagOf a.net a.kind) :: a.spend ++ a.view ++ pidOf a.kind
  body ++ (Keccak.keccak256 body).take 4

def toStr (a : Addr) : Bytes := encode (asBytes a)
def fromStr (strict : Bool) (s : Bytes) : Option Addr := match decode s with | none => none | some b => fromBytes strict b
end Address
