use monero::blockdata::transaction::*;
use monero::consensus::encode::{serialize, VarInt};
use monero::{PublicKey, Hash};
use curve25519_dalek::scalar::Scalar;
use curve25519_dalek::constants::ED25519_BASEPOINT_POINT as G;
use std::io::Write;
struct Rng(u64);
impl Rng { fn next(&mut self) -> u64 { self.0 = self.0.wrapping_add(0x9E3779B97F4A7C15); let mut z = self.0; z = (z ^ (z >> 30)).wrapping_mul(0xBF58476D1CE4E5B9); z = (z ^ (z >> 27)).wrapping_mul(0x94D049BB133111EB); z ^ (z >> 31) } fn below(&mut self,n:u64)->u64{self.next()%n}
  fn bytes(&mut self,n:usize)->Vec<u8>{(0..n).map(|_|self.next() as u8).collect()} fn b32(&mut self)->[u8;32]{let v=self.bytes(32); let mut a=[0u8;32]; a.copy_from_slice(&v); a} }
fn hx(b:&[u8])->String{ if b.is_empty() {"-".into()} else {b.iter().map(|x|format!("{:02x}",x)).collect()} }
fn pk(r:&mut Rng)->PublicKey{ PublicKey::from_slice((G*Scalar::from_bytes_mod_order(r.b32())).compress().as_bytes()).unwrap() }
fn field(r:&mut Rng)->SubField{ match r.below(7) { 0=>SubField::TxPublicKey(pk(r)), 1=>{let n=[0,1,32,127,128,129,255,300][r.below(8) as usize]; SubField::Nonce(r.bytes(n))}, 2=>SubField::Padding([0u8,1,2,100,254,255][r.below(6) as usize]),
  3=>SubField::MergeMining(VarInt([0u64,127,128,1<<20,u64::MAX][r.below(5) as usize]), Hash(r.b32())), 4=>{let n=r.below(4) as usize; SubField::AdditionalPublickKey((0..n).map(|_|pk(r)).collect())}, 5=>{let n=[0,5,128,200][r.below(4) as usize]; SubField::MysteriousMinerGate(r.bytes(n))}, _=>SubField::TxPublicKey(pk(r)) } }
fn main(){
    let mut r=Rng(3);
    let mut ops=std::io::BufWriter::new(std::fs::File::create("/tmp/scratch/ex_ops.txt").unwrap());
    let mut res=std::io::BufWriter::new(std::fs::File::create("/tmp/scratch/ex_impl.txt").unwrap());
    let mut emit=|b:&[u8]| { writeln!(ops,"{}",hx(b)).unwrap(); let raw=RawExtraField(b.to_vec());
        let (flag,f)=match ExtraField::try_parse(&raw){Ok(f)=>("ok",f),Err(f)=>("err",f)};
        writeln!(res,"{} {}",flag,f.0.iter().map(|s|hx(&serialize(s))).collect::<Vec<_>>().join(",")).unwrap(); };
    for _ in 0..6000 { let n=r.below(5) as usize; let fs:Vec<SubField>=(0..n).map(|_|field(&mut r)).collect(); let mut b=vec![]; for f in &fs { b.extend(serialize(f)); } emit(&b);
        for m in 0..6 { let mut bb=b.clone(); if bb.is_empty(){continue;} match m { 0=>{let i=r.below(bb.len() as u64) as usize; bb[i]=r.next() as u8;} 1=>{let i=r.below(bb.len() as u64) as usize; bb.truncate(i);} 2=>{let i=r.below(bb.len() as u64) as usize; bb.insert(i,[0,1,2,3,4,0xde,0x80,0xff][r.below(8) as usize]);} 3=>{bb.extend([0,0,0]);} 4=>{let i=r.below(bb.len() as u64) as usize; bb[i]=[0,1,2,3,4,0xde][r.below(6) as usize];} _=>{let i=r.below(bb.len() as u64) as usize; bb[i]^=0x80;} } emit(&bb); } }
    for _ in 0..8000 { let n=r.below(90) as usize; let mut b=r.bytes(n); for x in b.iter_mut() { if r.below(3)==0 { *x=[0,1,2,3,4,0xde,0x80,0x20][r.below(8) as usize]; } } emit(&b); }
    // huge declared lengths
    for t in [2u8,4,0xde] { for cnt in [1u64<<20,(1<<20)+1,1<<25,(1<<25)+1,1<<40,u64::MAX] { let mut b=vec![t]; let mut n=cnt; loop { let x=(n&0x7f) as u8; n>>=7; if n==0 {b.push(x);break} else {b.push(x|0x80)} } b.extend([1,2,3,1]); b.extend(pk(&mut r).as_bytes()); emit(&b); } }
}
