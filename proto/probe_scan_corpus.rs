#![allow(non_snake_case)]
use monero::*;
use monero::blockdata::transaction::*;
use monero::consensus::encode::{serialize, VarInt};
use monero::cryptonote::hash::keccak_256;
use monero::cryptonote::subaddress::{self, Index};
use curve25519_dalek::scalar::Scalar;
use curve25519_dalek::edwards::CompressedEdwardsY;
use curve25519_dalek::constants::{ED25519_BASEPOINT_POINT as G, EIGHT_TORSION};
use std::io::Write;
struct Rng(u64);
impl Rng { fn next(&mut self) -> u64 { self.0 = self.0.wrapping_add(0x9E3779B97F4A7C15); let mut z = self.0; z = (z ^ (z >> 30)).wrapping_mul(0xBF58476D1CE4E5B9); z = (z ^ (z >> 27)).wrapping_mul(0x94D049BB133111EB); z ^ (z >> 31) } fn below(&mut self,n:u64)->u64{self.next()%n}
  fn b32(&mut self)->[u8;32]{ let mut b=[0u8;32]; for i in 0..4 { b[i*8..i*8+8].copy_from_slice(&self.next().to_le_bytes()); } b } fn scalar(&mut self)->Scalar{Scalar::from_bytes_mod_order(self.b32())} }
fn hx(b:&[u8])->String{ if b.is_empty() {"-".into()} else {b.iter().map(|x|format!("{:02x}",x)).collect()} }
fn kh(b:&[u8])->[u8;32]{keccak_256(b)} fn hs(b:&[u8])->Scalar{Scalar::from_bytes_mod_order(kh(b))}
fn varint(mut n: u64) -> Vec<u8> { let mut v=vec![]; loop { let b=(n&0x7f) as u8; n>>=7; if n==0 { v.push(b); break } else { v.push(b|0x80) } } v }
fn main(){
    let mut r=Rng(21);
    let mut ops=std::io::BufWriter::new(std::fs::File::create("/tmp/scratch/sc_ops.txt").unwrap());
    let mut res=std::io::BufWriter::new(std::fs::File::create("/tmp/scratch/sc_impl.txt").unwrap());
    let mut nrep=0;
    for trial in 0..60 {
        let v=r.scalar(); let s=r.scalar();
        let kp=KeyPair{view:PrivateKey::from_scalar(v),spend:PrivateKey::from_scalar(s)}; let vp:ViewPair=(&kp).into();
        let nout=match trial%6 {0=>3,1=>140,2=>20,3=>300,4=>1,_=>60} as usize;
        let r_main=r.scalar(); let Rmain=G*r_main; let with_adds=trial%3!=2; let nadds = if trial%5==4 { nout/2 } else { nout };
        let mut outs=vec![]; let mut adds=vec![];
        for pos in 0..nout { let kind=r.below(7); let tagged=r.below(2)==0; let mut key=r.b32(); let mut tag=r.next() as u8; let mut addk=G*r.scalar();
            let mk=|D:curve25519_dalek::edwards::EdwardsPoint,S_:curve25519_dalek::edwards::EdwardsPoint,pos:usize|{ let mut m=D.compress().as_bytes().to_vec(); m.extend(varint(pos as u64)); let P=G*hs(&m)+S_; let mut t=b"view_tag".to_vec(); t.extend_from_slice(D.compress().as_bytes()); t.extend(varint(pos as u64)); (P.compress().to_bytes(), kh(&t)[0]) };
            match kind { 0=>{ let (k,t)=mk((G*v*r_main).mul_by_cofactor(), G*s, pos); key=k; tag=t; }
              1|2=>{ let idx=if kind==1 {Index{major:1,minor:2}} else {Index{major:[0,5,1][r.below(3) as usize],minor:[7,0,3][r.below(3) as usize]}}; let (V_,S_)=subaddress::get_public_keys(&vp,idx);
                    let S_=CompressedEdwardsY(S_.to_bytes()).decompress().unwrap(); let V_=CompressedEdwardsY(V_.to_bytes()).decompress().unwrap(); let rr=r.scalar(); addk=S_*rr; let (k,t)=mk((V_*rr).mul_by_cofactor(), S_, pos); key=k; tag=t; }
              3=>{ let (k,t)=mk((G*v*r_main).mul_by_cofactor(), G*s, pos); key=k; tag=t.wrapping_add(1); }
              4=>{ let (k,t)=mk((G*v*r_main).mul_by_cofactor(), G*s, pos+1); key=k; tag=t; } // wrong position
              5=>{ key=(G*r.scalar()+EIGHT_TORSION[(pos%8) as usize]).compress().to_bytes(); }
              _=>{} }
            outs.push(TxOut{amount:VarInt(0),target: if tagged {TxOutTarget::ToTaggedKey{key,view_tag:tag}} else {TxOutTarget::ToKey{key}}});
            adds.push(PublicKey::from_slice(addk.compress().as_bytes()).unwrap()); }
        adds.truncate(nadds);
        let mut fields=vec![]; if trial%7==6 { fields.push(SubField::Nonce(vec![1,2,3])); }
        if trial%11!=10 { fields.push(SubField::TxPublicKey(PublicKey::from_slice(Rmain.compress().as_bytes()).unwrap())); }
        if with_adds { fields.push(SubField::AdditionalPublickKey(adds)); }
        if trial%4==1 { fields.push(SubField::TxPublicKey(PublicKey::from_slice((G*r.scalar()).compress().as_bytes()).unwrap())); } // second pubkey ignored
        let prefix=TransactionPrefix{version:VarInt(2),unlock_time:VarInt(0),inputs:vec![TxIn::Gen{height:VarInt(1)}],outputs:outs,extra:ExtraField(fields).into()};
        let (a,b,c,d)=[(0u32,2u32,0u32,3u32),(0,1,0,1),(1,2,2,3),(0,6,0,8)][trial%4];
        writeln!(ops,"{} {} {} {} {} {} {}",hx(v.as_bytes()),hx(vp.spend.as_bytes()),a,b,c,d,hx(&serialize(&prefix))).unwrap();
        match prefix.check_outputs(&vp,a..b,c..d,None){ Ok(v)=>{ nrep+=v.len(); writeln!(res,"ok {}",v.iter().map(|o|format!("{}:{}/{}:{}",o.index(),o.sub_index().major,o.sub_index().minor,hx(o.tx_pubkey().as_bytes()))).collect::<Vec<_>>().join(" ")).unwrap()}, Err(_)=>writeln!(res,"err").unwrap() }
    }
    eprintln!("reported outputs total {}", nrep);
}
