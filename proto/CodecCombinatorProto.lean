abbrev Bytes := List UInt8
inductive DErr | eof | bad deriving Repr, DecidableEq
abbrev Dec (α : Type) := Bytes → Except DErr (α × Bytes)

def Sound {α} (enc : α → Bytes) (dec : Dec α) : Prop :=
  ∀ b x r, dec b = .ok (x, r) → b = enc x ++ r
def Complete {α} (wf : α → Prop) (enc : α → Bytes) (dec : Dec α) : Prop :=
  ∀ x r, wf x → dec (enc x ++ r) = .ok (x, r)

def u8Dec : Dec UInt8 | [] => .error .eof | b :: r => .ok (b, r)
def u8Enc (b : UInt8) : Bytes := [b]
theorem u8_sound : Sound u8Enc u8Dec := by
  intro b x r h; cases b with
  | nil => simp [u8Dec] at h
  | cons a t => simp [u8Dec] at h; obtain ⟨rfl, rfl⟩ := h; rfl

def repDec {α} (d : Dec α) : Nat → Dec (List α)
  | 0, b => .ok ([], b)
  | n+1, b => match d b with
    | .error e => .error e
    | .ok (x, r) => match repDec d n r with
      | .error e => .error e
      | .ok (xs, r') => .ok (x :: xs, r')
def repEnc {α} (e : α → Bytes) (xs : List α) : Bytes := (xs.map e).flatten

theorem rep_sound {α} (e : α → Bytes) (d : Dec α) (h : Sound e d) (n : Nat) :
    ∀ b xs r, repDec d n b = .ok (xs, r) → b = repEnc e xs ++ r ∧ xs.length = n := by
  induction n with
  | zero => intro b xs r hh; simp [repDec] at hh; obtain ⟨rfl, rfl⟩ := hh; simp [repEnc]
  | succ n ih =>
    intro b xs r hh
    simp only [repDec] at hh
    split at hh
    · simp at hh
    · rename_i x r1 hd
      split at hh
      · simp at hh
      · rename_i ys r2 hr
        simp at hh; obtain ⟨rfl, rfl⟩ := hh
        have h1 := h _ _ _ hd
        have ⟨h2, h3⟩ := ih _ _ _ hr
        subst h1; subst h2
        simp [repEnc, h3]

theorem rep_complete {α} (wf : α → Prop) (e : α → Bytes) (d : Dec α) (h : Complete wf e d) :
    ∀ (xs : List α) r, (∀ x ∈ xs, wf x) → repDec d xs.length (repEnc e xs ++ r) = .ok (xs, r) := by
  intro xs; induction xs with
  | nil => intro r _; simp [repDec, repEnc]
  | cons x xs ih =>
    intro r hw
    have hx := h x (repEnc e xs ++ r) (hw x (by simp))
    simp only [List.length_cons, repDec, repEnc, List.map_cons, List.flatten_cons, List.append_assoc] at *
    rw [hx]; simp only []
    rw [ih r (fun y hy => hw y (by simp [hy]))]
#print axioms rep_sound
#print axioms rep_complete
