import Feas.P.TH
/-! C06 prototype, continued: the whole `tree_hash` (hash.rs:160-224) equals the recursive CryptoNote definition. -/
variable {α : Type} (H : α → α → α)

/-! ### the count loop: `pow = 2; while pow < count { pow <<= 1 }; pow >> 1` -/
def cntLoop : Nat → Nat → Nat → Nat
  | 0, pow, _ => pow
  | f+1, pow, count => if pow < count then cntLoop f (pow * 2) count else pow

/-- `tree_hash_cnt` with its two asserts; `none` = assertion failure -/
def treeHashCnt (count : Nat) : Option Nat :=
  if 3 ≤ count ∧ count ≤ 2^28 then some (cntLoop 64 2 count / 2) else none

theorem cntLoop_spec : ∀ (f k count : Nat), 1 ≤ k → 2^(k-1) < count → count ≤ 2^(k + f) →
    ∃ m, k ≤ m ∧ cntLoop f (2^k) count = 2^m ∧ 2^(m-1) < count ∧ count ≤ 2^m := by
  intro f; induction f with
  | zero => intro k count hk hlo hhi; exact ⟨k, Nat.le_refl _, rfl, hlo, by simpa using hhi⟩
  | succ f ih =>
    intro k count hk hlo hhi
    simp only [cntLoop]
    by_cases hlt : 2^k < count
    · simp only [hlt, if_true]
      have : 2^k * 2 = 2^(k+1) := by rw [Nat.pow_succ]
      rw [this]
      obtain ⟨m, hm, h1, h2, h3⟩ := ih (k+1) count (by omega) (by simpa using hlt) (by rw [show k + 1 + f = k + (f + 1) by omega]; exact hhi)
      exact ⟨m, by omega, h1, h2, h3⟩
    · simp only [hlt, if_false]
      exact ⟨k, Nat.le_refl _, rfl, hlo, by omega⟩

theorem treeHashCnt_spec (count : Nat) (h3 : 3 ≤ count) (hmax : count ≤ 2^28) :
    ∃ m, 1 ≤ m ∧ treeHashCnt count = some (2^m) ∧ 2^m < count ∧ count ≤ 2^(m+1) := by
  obtain ⟨m, hm, h1, h2, h3'⟩ := cntLoop_spec 64 1 count (Nat.le_refl _) (by simp; omega)
    (by have : (2:Nat)^28 ≤ 2^(1+64) := Nat.pow_le_pow_right (by decide) (by decide); omega)
  have hm2 : 2 ≤ m := by
    rcases Nat.lt_or_ge m 2 with h | h
    · have : m = 1 := by omega
      subst this; simp at h3'; omega
    · exact h
  refine ⟨m - 1, by omega, ?_, ?_, ?_⟩
  · unfold treeHashCnt
    simp only [h3, hmax, and_self, if_true]
    have e : cntLoop 64 (2^1) count = cntLoop 64 2 count := by simp
    rw [← e, h1]
    have : 2^m = 2^(m-1) * 2 := by rw [← Nat.pow_succ]; congr 1; omega
    rw [this]; simp
  · exact h2
  · have : m - 1 + 1 = m := by omega
    rw [this]; exact h3'

/-! ### phase 2: `while cnt > 2 { cnt >>= 1; for i in 0..cnt { hashes[i] = H(hashes[2i], hashes[2i+1]) } }` -/
def phase2 : Nat → List α → Nat → Option (List α)
  | 0, hs, _ => some hs
  | f+1, hs, cnt =>
    if cnt > 2 then
      match phase1 H (cnt / 2) hs 0 0 (cnt / 2) with
      | some (hs', _) => phase2 f hs' (cnt / 2)
      | none => none
    else some hs

/-- perfect binary tree over the first `2^m` entries of a list -/
def treeOf : Nat → List α → Option α
  | 0, l => l[0]?
  | m+1, l => treeOf m (pairs H (2^m) l)

theorem pairs_length : ∀ (n : Nat) (l : List α), 2 * n ≤ l.length → (pairs H n l).length = n
  | 0, _, _ => rfl
  | n+1, [], h => by simp at h
  | n+1, [_], h => by simp at h; omega
  | n+1, a :: b :: t, h => by
    simp only [pairs, List.length_cons]
    rw [pairs_length n t (by simp at h; omega)]

theorem pairs_append : ∀ (n : Nat) (l l' : List α), 2 * n ≤ l.length → pairs H n (l ++ l') = pairs H n l
  | 0, _, _, _ => rfl
  | n+1, [], _, h => by simp at h
  | n+1, [_], _, h => by simp at h; omega
  | n+1, a :: b :: t, l', h => by
    simp only [List.cons_append, pairs]
    rw [pairs_append n t l' (by simp at h; omega)]

theorem treeOf_append : ∀ (m : Nat) (l l' : List α), 2^m ≤ l.length → treeOf H m (l ++ l') = treeOf H m l
  | 0, l, l', h => by
    simp only [treeOf]
    have : 0 < l.length := by simp at h; omega
    rw [List.getElem?_append_left this]
  | m+1, l, l', h => by
    simp only [treeOf]
    have h2 : 2 * 2^m ≤ l.length := by rw [Nat.pow_succ] at h; omega
    rw [pairs_append H (2^m) l l' h2]

/-- after phase 2 started at `cnt = 2^(m+1)`, combining the first two slots gives the perfect tree -/
theorem phase2_spec : ∀ (m f : Nat) (hs : List α), m ≤ f → 2^(m+1) ≤ hs.length →
    ∃ hs', phase2 H f hs (2^(m+1)) = some hs' ∧
      (match hs'[0]?, hs'[1]? with | some a, some b => some (H a b) | _, _ => none) = treeOf H (m+1) hs := by
  intro m; induction m with
  | zero =>
    intro f hs _ hlen
    refine ⟨hs, ?_, ?_⟩
    · cases f with
      | zero => rfl
      | succ f => simp [phase2]
    · simp only [treeOf, Nat.pow_zero]
      match hs, hlen with
      | a :: b :: t, _ => simp [pairs]
  | succ m ih =>
    intro f hs hf hlen
    cases f with
    | zero => omega
    | succ f =>
      have hpow : 2^(m+1+1) = 2 * 2^(m+1) := by rw [Nat.pow_succ]; omega
      have hgt : 2^(m+1+1) > 2 := by
        have : 1 ≤ 2^m := Nat.one_le_two_pow
        rw [hpow, Nat.pow_succ]; omega
      have hhalf : 2^(m+1+1) / 2 = 2^(m+1) := by rw [hpow]; simp
      simp only [phase2, hgt, if_true, hhalf]
      have hp := phase1_spec H (2^(m+1)) hs 0 0 (2^(m+1)) (Nat.le_refl _) (Nat.zero_le _) (by simp)
        (by rw [hpow] at hlen; simpa using hlen) (by rw [hpow] at hlen; omega)
      rw [hp]
      simp only [List.take_zero, List.nil_append, Nat.sub_zero, List.drop_zero]
      have hl1 : (pairs H (2^(m+1)) hs).length = 2^(m+1) := pairs_length H _ _ (by rw [hpow] at hlen; exact hlen)
      obtain ⟨hs', h1, h2⟩ := ih f (pairs H (2^(m+1)) hs ++ hs.drop (2^(m+1))) (by omega)
        (by simp [hl1])
      refine ⟨hs', h1, ?_⟩
      rw [h2, treeOf_append H (m+1) _ _ (by rw [hl1]; exact Nat.le_refl _)]
      rfl

#print axioms phase2_spec
#print axioms treeHashCnt_spec
