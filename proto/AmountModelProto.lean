/-! Prototype model of parse_signed_to_piconero / from_str_in / fmt_piconero_in (amount.rs:118-230, 277-300, 544-568). -/
namespace Amount
abbrev Bytes := List UInt8

inductive PErr | invalidFormat | inputTooLarge | tooPrecise | tooBig | invalidChar | negative
  deriving Repr, DecidableEq

def isDigit (c : UInt8) : Bool := 0x30 ≤ c.toNat && c.toNat ≤ 0x39
def U64MAX : Nat := 2^64 - 1

/-- the digit loop: checked `10*value + digit`, decimal counter bounded by `maxDec` -/
def parseLoop : Bytes → Nat → Option Nat → Nat → Except PErr (Nat × Option Nat)
  | [], v, d, _ => .ok (v, d)
  | c :: cs, v, d, md =>
    if isDigit c then
      if 10 * v > U64MAX then .error .tooBig
      else if 10 * v + (c.toNat - 0x30) > U64MAX then .error .tooBig
      else
        match d with
        | none => parseLoop cs (10 * v + (c.toNat - 0x30)) none md
        | some k => if k < md then parseLoop cs (10 * v + (c.toNat - 0x30)) (some (k+1)) md else .error .tooPrecise
    else if c.toNat = 0x2e then
      match d with
      | none => parseLoop cs v (some 0) md
      | some _ => .error .invalidFormat
    else .error .invalidChar

/-- the final rescale loop: `scale` times `checked_mul(10)` -/
def rescale : Nat → Nat → Except PErr Nat
  | 0, v => .ok v
  | n+1, v => if 10 * v > U64MAX then .error .tooBig else rescale n (10 * v)

def parseSigned (s : Bytes) (maxDec : Nat) : Except PErr (Bool × Nat) :=
  if s = [] then .error .invalidFormat
  else if s.length > 50 then .error .inputTooLarge
  else
    let neg := s.head? = some 0x2d
    if neg ∧ s.length = 1 then .error .invalidFormat
    else
      let body := if neg then s.tail else s
      match parseLoop body 0 none maxDec with
      | .error e => .error e
      | .ok (v, d) =>
        match rescale (maxDec - d.getD 0) v with
        | .error e => .error e
        | .ok q => .ok (neg, q)

def I64MAX : Nat := 2^63 - 1
/-- Amount::from_str_in -/
def parseUnsigned (s : Bytes) (md : Nat) : Except PErr Nat :=
  match parseSigned s md with
  | .error e => .error e
  | .ok (neg, q) => if neg then .error .negative else if q > I64MAX then .error .tooBig else .ok q
/-- SignedAmount::from_str_in -/
def parseSignedAmt (s : Bytes) (md : Nat) : Except PErr Int :=
  match parseSigned s md with
  | .error e => .error e
  | .ok (neg, q) => if q > I64MAX then .error .tooBig else .ok (if neg then -(q : Int) else q)

/-- decimal digits of n, most significant first (what `format!("{}", n)` prints) -/
def digitsAux : Nat → Nat → List UInt8 → List UInt8
  | 0, _, acc => acc
  | f+1, n, acc => if n < 10 then UInt8.ofNat (0x30 + n) :: acc else digitsAux f (n / 10) (UInt8.ofNat (0x30 + n % 10) :: acc)
def digits (n : Nat) : Bytes := digitsAux 40 n []

/-- fmt_piconero_in for precision ≤ 0: zero-pad to `dec` digits and insert the point -/
def fmt (n : Nat) (neg : Bool) (dec : Nat) : Bytes :=
  let sign := if neg then [0x2d] else []
  if dec = 0 then sign ++ digits n else
  let ds := digits n
  let real := List.replicate (dec - ds.length) 0x30 ++ ds
  if real.length = dec then sign ++ [0x30, 0x2e] ++ real
  else sign ++ real.take (real.length - dec) ++ [0x2e] ++ real.drop (real.length - dec)
end Amount
