//! Prototype translator: network tag tables and amount.rs arithmetic delegations -> Lean.
use syn::{visit::Visit, *};
use quote::ToTokens;

fn lit_int(e: &Expr) -> Option<u64> { if let Expr::Lit(ExprLit { lit: Lit::Int(i), .. }) = e { i.base10_parse().ok() } else { None } }
fn pat_name(p: &Pat) -> Option<String> { match p { Pat::Ident(i) => Some(i.ident.to_string()), Pat::TupleStruct(t) => t.path.segments.last().map(|s| s.ident.to_string()), Pat::Path(p) => p.path.segments.last().map(|s| s.ident.to_string()), _ => None } }
fn pat_ints(p: &Pat, out: &mut Vec<u64>) -> bool { match p { Pat::Lit(l) => { if let Lit::Int(i) = &l.lit { out.push(i.base10_parse().unwrap()); true } else { false } } Pat::Or(o) => o.cases.iter().all(|c| pat_ints(c, out)), _ => false } }
fn tail_expr(b: &Block) -> Option<&Expr> { match b.stmts.last()? { Stmt::Expr(e, None) => Some(e), _ => None } }
fn find_match(b: &Block) -> Option<&ExprMatch> { b.stmts.iter().rev().find_map(|s| if let Stmt::Expr(Expr::Match(m), _) = s { Some(m) } else { None }) }

struct Fns<'a> { found: Vec<(String, String, &'a ImplItemFn)> }   // (self type / trait, fn name, item)
impl<'a> Visit<'a> for Fns<'a> {
    fn visit_item_impl(&mut self, i: &'a ItemImpl) {
        let ty = i.self_ty.to_token_stream().to_string().replace(' ', "");
        let tr = i.trait_.as_ref().map(|(_, p, _)| p.to_token_stream().to_string().replace(' ', "")).unwrap_or_default();
        for it in &i.items { if let ImplItem::Fn(f) = it { self.found.push((format!("{}|{}", ty, tr), f.sig.ident.to_string(), f)); } }
    }
    fn visit_item_mod(&mut self, m: &'a ItemMod) { if m.ident != "tests" && m.ident != "serde" { visit::visit_item_mod(self, m); } }
}

fn method_chain(e: &Expr) -> Vec<String> { // self.0.checked_add(rhs.0).map(Amount) -> ["self.0","checked_add(rhs.0)","map(Amount)"]
    let mut v = vec![]; let mut cur = e;
    loop { match cur { Expr::MethodCall(m) => { v.push(format!("{}({})", m.method, m.args.iter().map(|a| a.to_token_stream().to_string().replace(' ', "")).collect::<Vec<_>>().join(","))); cur = &m.receiver; }
        other => { v.push(other.to_token_stream().to_string().replace(' ', "")); break; } } }
    v.reverse(); v }

fn main() {
    let net = parse_file(&std::fs::read_to_string("/repo/src/network.rs").unwrap()).unwrap();
    let mut f = Fns { found: vec![] }; f.visit_file(&net);
    println!("-- generated from /repo/src/network.rs");
    for (ty, name, item) in &f.found {
        if ty.starts_with("Network|") && name == "as_u8" {
            let m = find_match(&item.block).expect("EXTRACT-FAIL as_u8: no match");
            println!("def Gen.asU8 : List (String × String × Nat) := [");
            for arm in &m.arms { let net = pat_name(&arm.pat).expect("EXTRACT-FAIL net pat");
                let inner = if let Expr::Match(im) = &*arm.body { im } else { panic!("EXTRACT-FAIL inner") };
                for ia in &inner.arms { println!("  (\"{}\", \"{}\", {}),", net, pat_name(&ia.pat).unwrap(), lit_int(&ia.body).expect("EXTRACT-FAIL lit")); } }
            println!("]");
        }
        if ty.starts_with("Network|") && name == "from_u8" {
            let m = find_match(&item.block).expect("EXTRACT-FAIL from_u8");
            println!("def Gen.fromU8 : List (Nat × String) := [");
            for arm in &m.arms { let mut ints = vec![]; if pat_ints(&arm.pat, &mut ints) {
                let v = if let Expr::Call(c) = &*arm.body { c.args.first().unwrap().to_token_stream().to_string() } else { panic!("EXTRACT-FAIL body") };
                for i in ints { println!("  ({}, \"{}\"),", i, v); } } else if !matches!(arm.pat, Pat::Wild(_)) { panic!("EXTRACT-FAIL pattern") } }
            println!("]");
        }
    }
    let amt = parse_file(&std::fs::read_to_string("/repo/src/util/amount.rs").unwrap()).unwrap();
    let mut f = Fns { found: vec![] }; f.visit_file(&amt);
    println!("-- generated from /repo/src/util/amount.rs");
    for (ty, name, item) in &f.found {
        let interesting = name.starts_with("checked_") || ["add","sub","mul","div","rem","add_assign","sub_assign","mul_assign","div_assign","rem_assign","to_signed","to_unsigned","positive_sub"].contains(&name.as_str());
        if !interesting || !(ty.starts_with("Amount|") || ty.starts_with("SignedAmount|")) { continue; }
        let body = match tail_expr(&item.block) { Some(e) => method_chain(e).join(" . "), None => item.block.stmts.iter().map(|s| s.to_token_stream().to_string().replace(' ', "")).collect::<Vec<_>>().join(" ; ") };
        println!("-- {:28} {:14} := {}", ty, name, body);
    }
    // denomination precision table
    for (ty, name, item) in &f.found { if ty.starts_with("Denomination|") && name == "precision" { let m = find_match(&item.block).unwrap();
        println!("def Gen.precision : List (String × Int) := [{}]", m.arms.iter().map(|a| format!("(\"{}\", {})", pat_name(&a.pat).unwrap(), a.body.to_token_stream().to_string().replace(' ', ""))).collect::<Vec<_>>().join(", ")); } }
}
