import Feas
open TxModel
def unhex (s : String) : List UInt8 :=
  if s == "-" then [] else
  let v (c : Char) : Nat := if c.isDigit then c.toNat - 48 else c.toNat - 87
  let rec go : List Char → List UInt8
    | a :: b :: t => UInt8.ofNat (v a * 16 + v b) :: go t
    | _ => []
  go s.toList
def hexOf (bs : List UInt8) : String :=
  let d := "0123456789abcdef".toList.toArray
  String.ofList (bs.foldr (fun b acc => d[b.toNat/16]! :: d[b.toNat%16]! :: acc) [])
partial def loop (h : IO.FS.Stream) (out : IO.FS.Stream) : IO Unit := do
  let line ← h.getLine
  if line.isEmpty then return ()
  let b := unhex line.trimAscii.toString
  match tx b with
  | none => out.putStrLn "err"
  | some (t, r) => out.putStrLn s!"ok {b.length - r.length} {hexOf (encTx t)}"
  loop h out
def main : IO Unit := do loop (← IO.getStdin) (← IO.getStdout)
