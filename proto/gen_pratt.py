import sys
from sympy import factorint, isprime
sys.setrecursionlimit(10000)
SMALL = 100000   # below this: norm_num trial division
KNOWN = {}       # supplied factorizations for numbers sympy cannot factor quickly
l = 2**252 + 27742317777372353535851937790883648493
KNOWN[l-1] = {2:2, 3:1, 11:1, 198211423230930754013084525763697:1, 276602624281642239937218680557139826668747:1}
nodes = {}       # n -> (a, factors dict)
def build(n):
    if n in nodes or n < SMALL: return
    f = KNOWN.get(n-1) or factorint(n-1)
    assert all(isprime(q) for q in f)
    a = next(a for a in range(2, 1000) if all(pow(a, (n-1)//q, n) != 1 for q in f))
    assert pow(a, n-1, n) == 1
    nodes[n] = (a, f)
    for q in f: build(q)
def emit(targets, out):
    for t in targets: build(t)
    w = out.write
    w("""import Mathlib.NumberTheory.LucasPrimality
import Mathlib.Tactic.NormNum.Prime
import Mathlib.Tactic.ReduceModChar

set_option maxRecDepth 1000000
set_option exponentiation.threshold 1000000

namespace Pratt

theorem prime_factor_cases (q : ℕ) (hq : q.Prime) : ∀ (l : List (ℕ × ℕ)), (∀ f ∈ l, (f.1).Prime) →
    q ∣ (l.map (fun f => f.1 ^ f.2)).prod → ∃ f ∈ l, q = f.1 := by
  intro l
  induction l with
  | nil => intro _ h; simp at h; exact absurd h hq.one_lt.ne'
  | cons f t ih =>
    intro hp h
    simp only [List.map_cons, List.prod_cons] at h
    rcases (Nat.Prime.dvd_mul hq).1 h with h1 | h1
    · have := hq.dvd_of_dvd_pow h1
      exact ⟨f, by simp, (Nat.prime_dvd_prime_iff_eq hq (hp f (by simp))).1 this⟩
    · obtain ⟨g, hg, rfl⟩ := ih (fun g hg => hp g (by simp [hg])) h1
      exact ⟨g, by simp [hg], rfl⟩

""")
    def pname(q): return f"prime_{q}"
    for n in sorted(nodes):
        a, f = nodes[n]
        fl = sorted(f.items())
        lst = "[" + ", ".join(f"({q}, {e})" for q, e in fl) + "]"
        w(f"theorem {pname(n)} : Nat.Prime {n} := by\n")
        w(f"  apply lucas_primality {n} ({a} : ZMod {n})\n")
        w(f"  · reduce_mod_char\n")
        w(f"  · intro q hq hd\n")
        w(f"    have hfac : ({n} - 1 : ℕ) = (({lst} : List (ℕ × ℕ)).map (fun f => f.1 ^ f.2)).prod := by norm_num\n")
        w(f"    rw [hfac] at hd\n")
        w(f"    have hpr : ∀ f ∈ ({lst} : List (ℕ × ℕ)), (f.1).Prime := by\n")
        w(f"      intro f hf\n      simp only [List.mem_cons, List.not_mem_nil, or_false] at hf\n")
        w(f"      rcases hf with " + " | ".join(["rfl"]*len(fl)) + "\n")
        for q, e in fl:
            if q < SMALL: w(f"      · norm_num\n")
            else: w(f"      · exact {pname(q)}\n")
        w(f"    obtain ⟨f, hf, rfl⟩ := prime_factor_cases q hq _ hpr hd\n")
        w(f"    simp only [List.mem_cons, List.not_mem_nil, or_false] at hf\n")
        w(f"    rcases hf with " + " | ".join(["rfl"]*len(fl)) + "\n")
        for q, e in fl:
            w(f"    · show ({a} : ZMod {n}) ^ (({n} - 1) / {q}) ≠ 1\n      reduce_mod_char\n      decide\n")
        w("\n")
    w("end Pratt\n")
    for t in targets: w(f"#print axioms Pratt.prime_{t}\n")
if __name__ == "__main__":
    p = 2**255 - 19
    emit([p, l] if len(sys.argv) > 1 and sys.argv[1] == "both" else [p], open("Feas/Pratt.lean", "w"))
    print(len(nodes), "nodes")
