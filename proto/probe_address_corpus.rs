use monero::*; use monero::util::address::PaymentId;
use curve25519_dalek::scalar::Scalar; use curve25519_dalek::constants::ED25519_BASEPOINT_POINT as G;
use std::io::Write; use std::str::FromStr;
struct Rng(u64);
impl Rng { fn next(&mut self) -> u64 { self.0 = self.0.wrapping_add(0x9E3779B97F4A7C15); let mut z = self.0; z = (z ^ (z >> 30)).wrapping_mul(0xBF58476D1CE4E5B9); z = (z ^ (z >> 27)).wrapping_mul(0x94D049BB133111EB); z ^ (z >> 31) } fn below(&mut self,n:u64)->u64{self.next()%n}
  fn b32(&mut self)->[u8;32]{ let mut b=[0u8;32]; for i in 0..4 { b[i*8..i*8+8].copy_from_slice(&self.next().to_le_bytes()); } b } }
fn hx(b:&[u8])->String{ if b.is_empty() {"-".into()} else {b.iter().map(|x|format!("{:02x}",x)).collect()} }
fn main(){
    let mut r=Rng(8);
    let mut ops=std::io::BufWriter::new(std::fs::File::create("/tmp/scratch/ad_ops.txt").unwrap());
    let mut res=std::io::BufWriter::new(std::fs::File::create("/tmp/scratch/ad_impl.txt").unwrap());
    let mut emit_b=|b:&[u8]| { writeln!(ops,"B {}",hx(b)).unwrap(); match Address::from_bytes(b){Ok(a)=>writeln!(res,"ok {}",a).unwrap(),Err(_)=>writeln!(res,"err").unwrap()} };
    let mut strs:Vec<String>=vec![];
    for i in 0..400 { let pk=|r:&mut Rng| PublicKey::from_slice((G*Scalar::from_bytes_mod_order(r.b32())).compress().as_bytes()).unwrap();
        let net=[Network::Mainnet,Network::Testnet,Network::Stagenet][i%3]; let (s,v)=(pk(&mut r),pk(&mut r));
        let a=match (i/3)%3 {0=>Address::standard(net,s,v),1=>Address::subaddress(net,s,v),_=>Address::integrated(net,s,v,PaymentId(r.next().to_le_bytes()))};
        let b=a.as_bytes(); emit_b(&b); strs.push(a.to_string());
        for m in 0..12 { let mut bb=b.clone(); match m { 0=>{bb[0]=r.next() as u8;} 1=>{let i=1+r.below(64) as usize; bb[i]^=1<<r.below(8);} 2=>{let n=bb.len(); bb[n-1-r.below(4) as usize]^=1;} 3=>{let n=r.below(bb.len() as u64) as usize; bb.truncate(n);} 4=>{bb.push(r.next() as u8);} 5=>{bb.extend([0u8;8]);}
              6=>{bb[0]=[18,19,42,53,54,63,24,25,36][r.below(9) as usize];} 7=>{ for k in 1..33 { bb[k]=0xff; } } 8=>{ bb[32]|=0x80; } 9=>{let i=65+r.below((bb.len()-65) as u64) as usize; bb[i]=bb[i].wrapping_add(1);} 10=>{bb.truncate(69.min(bb.len()));} _=>{bb.insert(33,0);} }
            emit_b(&bb); if m%3==0 { if let Ok(s)=base58_monero::encode(&bb) { strs.push(s); } } } }
    drop(emit_b);
    // string-level cases
    let alpha=b"123456789ABCDEFGHJKLMNPQRSTUVWXYZabcdefghijkmnopqrstuvwxyz";
    let n0=strs.len(); for i in 0..n0 { let s=strs[i].clone(); if s.is_empty() { continue; } let mut c=s.clone().into_bytes(); let k=r.below(6);
        match k { 0=>{let p=r.below(c.len() as u64) as usize; c[p]=alpha[r.below(58) as usize];} 1=>{let p=r.below(c.len() as u64) as usize; c[p]=b"0OIl+ "[r.below(6) as usize];} 2=>{c.pop();} 3=>{c.push(alpha[r.below(58) as usize]);} 4=>{ for p in 0..11.min(c.len()) { c[p]=b'z'; } } _=>{c.truncate(r.below(c.len() as u64) as usize);} }
        strs.push(String::from_utf8(c).unwrap()); }
    for s in &strs { writeln!(ops,"S {}",hx(s.as_bytes())).unwrap(); match Address::from_str(s){Ok(a)=>writeln!(res,"ok {}",a).unwrap(),Err(_)=>writeln!(res,"err").unwrap()} }
}
