import Mathlib.Algebra.Module.Basic
import Mathlib.Algebra.Group.Basic
import Mathlib.Tactic.Ring
import Mathlib.Tactic.Abel

/-! Prototype of the algebra behind C07–C11: any additive commutative group, a base point of order dividing l. -/

def l : ℕ := 2^252 + 27742317777372353535851937790883648493

variable {G : Type} [AddCommGroup G]

/-- scalar reduction is invisible on l-torsion points -/
theorem smul_mod_l (B : G) (hB : l • B = 0) (k : ℕ) : (k % l) • B = k • B := by
  conv_rhs => rw [← Nat.div_add_mod k l]
  rw [add_smul, mul_comm, mul_smul, hB, smul_zero, zero_add]

/-- l-torsion is closed under the operations used -/
theorem torsion_smul (B : G) (hB : l • B = 0) (k : ℕ) : l • (k • B) = 0 := by
  rw [smul_comm, hB, smul_zero]
theorem torsion_add (P Q : G) (hP : l • P = 0) (hQ : l • Q = 0) : l • (P + Q) = 0 := by
  rw [smul_add, hP, hQ, add_zero]

/-- Monero's derivation -/
def derive (a : ℕ) (P : G) : G := 8 • (a • P)

/-- C10: sender and receiver compute the same derivation -/
theorem C10_sender_receiver (B : G) (r v : ℕ) : derive r (v • B) = derive v (r • B) := by
  unfold derive; rw [smul_comm r v]

/-- C10: the scalar-times-8 formula of the pinned tree agrees on l-torsion points -/
theorem C10_scalar8_on_torsion (P : G) (hP : l • P = 0) (a : ℕ) : ((8 * a) % l) • P = derive a P := by
  unfold derive; rw [smul_mod_l P hP, mul_smul]

/-- subaddress keys (C11): S' = S + m•B, s' = (s + m) % l, v' = (v * s') % l -/
theorem C11_spend (B : G) (hB : l • B = 0) (s m : ℕ) : ((s + m) % l) • B = s • B + m • B := by
  rw [smul_mod_l B hB, add_smul]
theorem C11_view (B : G) (hB : l • B = 0) (v s' : ℕ) : ((v * s') % l) • B = v • (s' • B) := by
  rw [smul_mod_l B hB, mul_smul]

/-- C09: the recovered secret is the discrete log of the one-time key P = h•B + S' -/
theorem C09_recover_pub (B : G) (hB : l • B = 0) (h s' : ℕ) : ((h + s') % l) • B = h • B + s' • B := by
  rw [smul_mod_l B hB, add_smul]

/-- C07 core: the receiver's candidate equals the destination spend key exactly when the
    one-time key was built from it -/
theorem C07_candidate (P S' hB : G) : P - hB = S' ↔ P = hB + S' := by
  constructor
  · intro h; rw [← h]; abel
  · intro h; rw [h]; abel

/-- C07: sender to a subaddress (R = r•S', derivation 8•(r•V') with V' = v•S') is seen by the receiver (8•(v•R)) -/
theorem C07_subaddress_derivation (S' : G) (r v : ℕ) : derive r (v • S') = derive v (r • S') := by
  unfold derive; rw [smul_comm r v]

/-- C08 legacy: scalar subtraction mod l undoes the sender's addition (dalek `a - b` = (a + (l - b % l)) % l) -/
def ssub (a b : ℕ) : ℕ := (a + (l - b % l)) % l
theorem C08_legacy_scalar (x k : ℕ) : ssub ((x + k) % l) k = x % l := by
  unfold ssub l; omega
theorem C08_legacy_amount (a k : ℕ) (ha : a < 2^64) : ssub ((a + k) % l) k % 2^64 = a := by
  rw [C08_legacy_scalar]; unfold l; omega

/-- C08 compact: xor with the same mask twice -/
theorem C08_compact (a m : ℕ) : (a ^^^ m) ^^^ m = a := by
  rw [Nat.xor_assoc, Nat.xor_self, Nat.xor_zero]

#print axioms C10_scalar8_on_torsion
#print axioms C08_legacy_amount
#print axioms C07_candidate
