import sys, re
from fractions import Fraction
DEC={'xmr':12,'millinero':9,'micronero':6,'nanonero':3,'piconero':0}
def spec(s, dec, signed):
    # grammar: -? D* (. D*)? with non-empty body ; <=50 bytes
    if len(s.encode())==0 or len(s.encode())>50: return None
    m=re.fullmatch(r'(-?)([0-9]*)(?:(\.)([0-9]*))?', s, re.ASCII)
    if not m: return None
    neg, ip, dot, fp = m.group(1)=='-', m.group(2), m.group(3), m.group(4) or ''
    if ip=='' and dot is None: return None      # "" or "-"
    if len(fp)>dec: return None
    val = Fraction(int(ip or '0')) + (Fraction(int(fp), 10**len(fp)) if fp else 0)
    q = val*10**dec
    assert q.denominator==1
    q=int(q)
    # accumulation guard of the code: digits-as-integer must fit u64 as well (implied by q<2^64 since q>=that)
    if q > 2**63-1: return None
    if neg and not signed: return None
    return -q if neg else q
bad=0; n=0
for line in open('/tmp/scratch/amt.tsv', encoding='utf-8'):
    f=line.rstrip('\n').split('\t')
    if f[0]=='P':
        dn=f[1]; s='' if f[2]=='-' else bytes.fromhex(f[2]).decode('utf-8'); n+=1
        for signed,res in ((False,f[3]),(True,f[4])):
            exp=spec(s,DEC[dn],signed)
            got=int(res[3:]) if res.startswith('ok') else None
            if exp!=got:
                bad+=1
                if bad<25: print('PARSE MISMATCH',dn,repr(s),'signed' if signed else 'unsigned','got',res,'expected',exp)
    elif f[0] in 'FG':
        dn=f[1]; v=int(f[2]); dec=DEC[dn]; n+=1
        sign='-' if v<0 else ''; a=abs(v)
        exp = f"{sign}{a//10**dec}.{a%10**dec:0{dec}d}" if dec else f"{sign}{a}"
        if f[3]!=exp or f[4]!=exp+' '+dn: bad+=1; print('FMT MISMATCH',f)
        expback = v if abs(v)<=2**63-1 else None
        if eval(f[5].replace('Some','').replace('None','None')) != (expback if not isinstance(expback,int) else expback) and eval(f[5].replace('Some(','(')) != expback: bad+=1; print('ROUNDTRIP MISMATCH',f)
        if eval(f[6].replace('Some(','(')) != expback: bad+=1; print('ROUNDTRIP2 MISMATCH',f)
    elif f[0]=='U':
        a,b=int(f[1]),int(f[2]); n+=1
        def rng(x): return x if x is not None and 0<=x<2**64 else None
        exp=[rng(a+b),rng(a-b),rng(a*b),rng(a//b) if b else None,rng(a%b) if b else None]
        got=[eval(x.replace('Some(','(')) for x in f[3:8]]
        pan=''.join('P' if e is None else '.' for e in exp)
        if got!=exp or f[8]!=pan: bad+=1; print('U MISMATCH',f,exp,pan)
    elif f[0]=='S':
        a,b=int(f[1]),int(f[2]); n+=1
        def rng(x): return x if x is not None and -2**63<=x<2**63 else None
        def tdiv(a,b): q=abs(a)//abs(b); return q if (a<0)==(b<0) else -q
        def trem(a,b): return a-b*tdiv(a,b)
        exp=[rng(a+b),rng(a-b),rng(a*b),rng(tdiv(a,b)) if b else None,rng(trem(a,b)) if b else None, (a-b) if 0<=b<=a else None]
        got=[eval(x.replace('Some(','(')) for x in f[3:9]]
        pan=''.join('P' if e is None else '.' for e in exp[:5])
        if got!=exp or f[9]!=pan: bad+=1; print('S MISMATCH',f[1:3],'got',got,f[9],'exp',exp,pan)
print('lines',n,'bad',bad)
