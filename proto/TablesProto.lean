/-! Prototype for C20 (generated tag tables, `decide` over the whole domain) and C18 (std integer op models). Core Lean. -/

namespace C20
inductive Net | Mainnet | Testnet | Stagenet deriving DecidableEq, Repr
inductive Kind | Standard | Integrated | SubAddress deriving DecidableEq, Repr

-- what the translator emits from /repo/src/network.rs (both directions)
def genAsU8 : List (Net × Kind × Nat) := [
  (.Mainnet, .Standard, 18), (.Mainnet, .Integrated, 19), (.Mainnet, .SubAddress, 42),
  (.Testnet, .Standard, 53), (.Testnet, .Integrated, 54), (.Testnet, .SubAddress, 63),
  (.Stagenet, .Standard, 24), (.Stagenet, .Integrated, 25), (.Stagenet, .SubAddress, 36)]
def genFromU8 : List (Nat × Net) := [
  (18, .Mainnet), (19, .Mainnet), (42, .Mainnet), (53, .Testnet), (54, .Testnet), (63, .Testnet),
  (24, .Stagenet), (25, .Stagenet), (36, .Stagenet)]

def asU8 (n : Net) (k : Kind) : Option Nat := (genAsU8.find? fun e => e.1 = n ∧ e.2.1 = k).map (·.2.2)
def fromU8 (b : Nat) : Option Net := (genFromU8.find? fun e => e.1 = b).map (·.2)

-- the specification: Monero's table, written independently of the generated lists
def specTag : Net → Kind → Nat
  | .Mainnet, .Standard => 18 | .Mainnet, .Integrated => 19 | .Mainnet, .SubAddress => 42
  | .Testnet, .Standard => 53 | .Testnet, .Integrated => 54 | .Testnet, .SubAddress => 63
  | .Stagenet, .Standard => 24 | .Stagenet, .Integrated => 25 | .Stagenet, .SubAddress => 36

def nets : List Net := [.Mainnet, .Testnet, .Stagenet]
def kinds : List Kind := [.Standard, .Integrated, .SubAddress]

theorem table : ∀ n ∈ nets, ∀ k ∈ kinds, asU8 n k = some (specTag n k) := by decide
theorem inverse : ∀ n ∈ nets, ∀ k ∈ kinds, fromU8 (specTag n k) = some n := by decide
theorem reject_others : ∀ b ∈ List.range 256,
    (∀ n ∈ nets, ∀ k ∈ kinds, specTag n k ≠ b) → fromU8 b = none := by decide +kernel
theorem injective : ∀ n ∈ nets, ∀ k ∈ kinds, ∀ n' ∈ nets, ∀ k' ∈ kinds,
    specTag n k = specTag n' k' → n = n' ∧ k = k' := by decide
end C20

namespace C18
def I64MIN : Int := -(2^63)
def I64MAX : Int := 2^63 - 1
def inI64 (x : Int) : Prop := I64MIN ≤ x ∧ x ≤ I64MAX
instance (x : Int) : Decidable (inI64 x) := by unfold inI64; infer_instance

/-- models of the std methods the translator can bind a `checked_*` function to -/
def checked (x : Int) : Option Int := if inI64 x then some x else none
def i64_checked_add (a b : Int) : Option Int := checked (a + b)
def i64_checked_sub (a b : Int) : Option Int := checked (a - b)
def i64_checked_mul (a b : Int) : Option Int := checked (a * b)
def i64_checked_div (a b : Int) : Option Int := if b = 0 then none else checked (Int.tdiv a b)
/-- Rust: `None` if `rhs == 0` or the division overflows (MIN / -1), although the remainder itself is 0 -/
def i64_checked_rem (a b : Int) : Option Int :=
  if b = 0 then none else if a = I64MIN ∧ b = -1 then none else checked (Int.tmod a b)
def i64_wrapping_add (a b : Int) : Option Int := some ((a + b + 2^63) % 2^64 - 2^63)

theorem add_iff (a b r : Int) : i64_checked_add a b = some r ↔ r = a + b ∧ inI64 r := by
  unfold i64_checked_add checked; split <;> rename_i h
  · constructor
    · intro e; simp at e; subst e; exact ⟨rfl, h⟩
    · rintro ⟨rfl, _⟩; rfl
  · constructor
    · intro e; simp at e
    · rintro ⟨rfl, h'⟩; exact absurd h' h

/-- a swapped method is representable and the theorem fails for it: -/
example : ¬ (∀ a b r, i64_wrapping_add a b = some r ↔ r = a + b ∧ inI64 r) := by
  intro h
  have := (h I64MAX 1 I64MIN).1 (by decide)
  exact absurd this.1 (by decide)

/-- the one point where checked remainder is not "exact result iff representable" (known finding) -/
theorem rem_min_neg1 : i64_checked_rem I64MIN (-1) = none ∧ Int.tmod I64MIN (-1) = 0 ∧ inI64 0 := by decide

theorem rem_iff_partial (a b r : Int) (ha : inI64 a) (hb : inI64 b) (hne : ¬ (a = I64MIN ∧ b = -1)) :
    i64_checked_rem a b = some r ↔ b ≠ 0 ∧ r = Int.tmod a b ∧ inI64 r := by
  unfold i64_checked_rem checked
  by_cases h0 : b = 0
  · simp [h0]
  · simp only [h0, hne, if_false]
    split <;> rename_i h
    · constructor
      · intro e; simp at e; subst e; exact ⟨h0, rfl, h⟩
      · rintro ⟨_, rfl, _⟩; rfl
    · constructor
      · intro e; simp at e
      · rintro ⟨_, rfl, h'⟩; exact absurd h' h
end C18
#print axioms C20.reject_others
#print axioms C18.rem_iff_partial
