/-! Prototype for C06: the in-place pairing loop of `tree_hash` (hash.rs:203-209) equals a functional description. Core Lean only. -/
variable {α : Type} (H : α → α → α)

/-- take `n` adjacent pairs from the front of a list -/
def pairs : Nat → List α → List α
  | 0, _ => []
  | n+1, a :: b :: t => H a b :: pairs n t
  | _+1, _ => []

/-- phase 1 exactly as written: `while j < cnt { hashes[j] = H(hashes[i], hashes[i+1]); i += 2; j += 1 }`;
    `none` = an index panic -/
def phase1 : Nat → List α → Nat → Nat → Nat → Option (List α × Nat)
  | 0, hs, i, _, _ => some (hs, i)
  | f+1, hs, i, j, cnt =>
    if j < cnt then
      match hs[i]?, hs[i+1]? with
      | some a, some b =>
        if j < hs.length then phase1 f (hs.set j (H a b)) (i+2) (j+1) cnt else none
      | _, _ => none
    else some (hs, i)

theorem pairs_drop (hs : List α) (i n : Nat) (a b : α) (ha : hs[i]? = some a) (hb : hs[i+1]? = some b) :
    pairs H (n+1) (hs.drop i) = H a b :: pairs H n (hs.drop (i+2)) := by
  have hi : i < hs.length := by
    rcases Nat.lt_or_ge i hs.length with h | h
    · exact h
    · simp [List.getElem?_eq_none h] at ha
  have hi1 : i + 1 < hs.length := by
    rcases Nat.lt_or_ge (i+1) hs.length with h | h
    · exact h
    · simp [List.getElem?_eq_none h] at hb
  have e1 : hs.drop i = hs[i] :: hs.drop (i+1) := List.drop_eq_getElem_cons hi
  have e2 : hs.drop (i+1) = hs[i+1] :: hs.drop (i+2) := List.drop_eq_getElem_cons hi1
  have ha' : hs[i] = a := by simpa [List.getElem?_eq_getElem hi] using ha
  have hb' : hs[i+1] = b := by simpa [List.getElem?_eq_getElem hi1] using hb
  rw [e1, e2, ha', hb']; rfl

theorem phase1_spec : ∀ (f : Nat) (hs : List α) (i j cnt : Nat),
    j ≤ i → j ≤ cnt → cnt - j ≤ f → i + 2 * (cnt - j) ≤ hs.length → cnt ≤ hs.length →
    phase1 H f hs i j cnt =
      some (hs.take j ++ pairs H (cnt - j) (hs.drop i) ++ hs.drop cnt, i + 2 * (cnt - j)) := by
  intro f
  induction f with
  | zero =>
    intro hs i j cnt hji hjc hf _ _
    have : cnt - j = 0 := by omega
    have hcj : cnt = j := by omega
    subst hcj
    simp [phase1, pairs]
  | succ f ih =>
    intro hs i j cnt hji hjc hf hlen hclen
    unfold phase1
    by_cases hlt : j < cnt
    · simp only [hlt, if_true]
      have hi : i < hs.length := by omega
      have hi1 : i + 1 < hs.length := by omega
      have hjl : j < hs.length := by omega
      rw [List.getElem?_eq_getElem hi, List.getElem?_eq_getElem hi1]
      simp only [hjl, if_true]
      have hlen' : (hs.set j (H hs[i] hs[i+1])).length = hs.length := List.length_set
      rw [ih (hs.set j (H hs[i] hs[i+1])) (i+2) (j+1) cnt (by omega) (by omega) (by omega)
            (by rw [hlen']; omega) (by rw [hlen']; omega)]
      have hsub : cnt - j = (cnt - (j+1)) + 1 := by omega
      have hpd := pairs_drop H hs i (cnt - (j+1)) hs[i] hs[i+1]
        (List.getElem?_eq_getElem hi) (List.getElem?_eq_getElem hi1)
      rw [hsub, hpd]
      have d1 : (hs.set j (H hs[i] hs[i+1])).drop (i+2) = hs.drop (i+2) :=
        List.drop_set_of_lt (by omega)
      have d2 : (hs.set j (H hs[i] hs[i+1])).drop cnt = hs.drop cnt :=
        List.drop_set_of_lt (by omega)
      have t1 : (hs.set j (H hs[i] hs[i+1])).take (j+1) = hs.take j ++ [H hs[i] hs[i+1]] := by
        rw [List.take_succ, List.take_set_of_le (by omega)]
        simp [List.getElem?_set_self hjl]
      rw [d1, d2, t1]
      have : i + 2 + 2 * (cnt - (j + 1)) = i + 2 * (cnt - (j + 1) + 1) := by omega
      simp [this]
    · have hcj : cnt = j := by omega
      subst hcj
      simp [pairs]

#print axioms phase1_spec
