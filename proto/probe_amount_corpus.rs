use monero::*;
use std::io::Write;
struct Rng(u64);
impl Rng { fn next(&mut self) -> u64 { self.0 = self.0.wrapping_add(0x9E3779B97F4A7C15); let mut z = self.0; z = (z ^ (z >> 30)).wrapping_mul(0xBF58476D1CE4E5B9); z = (z ^ (z >> 27)).wrapping_mul(0x94D049BB133111EB); z ^ (z >> 31) } fn below(&mut self,n:u64)->u64{self.next()%n} }
fn hexs(s:&str)->String{ if s.is_empty() {"-".into()} else { s.bytes().map(|b|format!("{:02x}",b)).collect() } }
fn main(){
    let dens=[(12,Denomination::Monero),(9,Denomination::Millinero),(6,Denomination::Micronero),(3,Denomination::Nanonero),(0,Denomination::Piconero)];
    let mut r=Rng(99);
    let specials=["","-",".","-.","0","-0","0.","-.0",".0","00","1e3","+1"," 1","1 ","1_0","1..2","1.2.3","--1","1-","９","9223372036854775807","9223372036854775808","18446744073709551615","18446744073709551616","9223372.036854775807","9223372.036854775808","18446744.073709551615","18446744.073709551616","0.000000000001","0.0000000000001","00000000000000000000000000000000000000000000000001","000000000000000000000000000000000000000000000000001","1.000000000000","1.0000000000000","1844674407370955161.5","184467440737095516.15","-9223372036854775808"];
    let mut cases:Vec<String>=specials.iter().map(|s|s.to_string()).collect();
    for _ in 0..40000 { let mut s=String::new(); if r.below(4)==0 { s.push('-'); }
        let style=r.below(6); let nint = match style {0=>r.below(3),1=>r.below(8),2=>18+r.below(4),3=>r.below(25),4=>5+r.below(4),_=>r.below(52)};
        for _ in 0..nint { let d = if r.below(5)==0 {0} else { r.below(10) }; s.push((b'0'+d as u8) as char); }
        if style==2 && r.below(2)==0 { let base=[9223372036854775807u128,18446744073709551615u128,9223372036854u128,18446744073709u128,9223372036854775u128][r.below(5) as usize]; let v=base + r.below(5) as u128 - 2; s = format!("{}{}", if s.starts_with('-'){"-"}else{""}, v); }
        if r.below(3)!=0 { s.push('.'); let nf=match r.below(5){0=>0,1=>r.below(4),2=>12,3=>13,_=>r.below(16)}; for _ in 0..nf { let d= if r.below(3)==0 {0} else {r.below(10)}; s.push((b'0'+d as u8) as char);} }
        if r.below(25)==0 { let pos=r.below(s.len() as u64+1) as usize; let junk=['x',' ','-','.','+','e','_','é','٣'][r.below(9) as usize]; if s.is_char_boundary(pos) { s.insert(pos,junk); } }
        cases.push(s); }
    let mut ops=std::io::BufWriter::new(std::fs::File::create("/tmp/scratch/am_ops.txt").unwrap());
    let mut res=std::io::BufWriter::new(std::fs::File::create("/tmp/scratch/am_impl.txt").unwrap());
    for s in &cases { for (md,d) in dens.iter() {
        writeln!(ops,"P {} {}",md,hexs(s)).unwrap();
        let u=Amount::from_str_in(s,*d); let si=SignedAmount::from_str_in(s,*d);
        writeln!(res,"{} {}", match u {Ok(a)=>format!("ok {}",a.as_pico()),Err(_)=>"err".into()}, match si {Ok(a)=>format!("ok {}",a.as_pico()),Err(_)=>"err".into()}).unwrap(); } }
    let mut vals:Vec<u64>=vec![0,1,9,10,99,100,999_999_999_999,1_000_000_000_000,1_000_000_000_001,u64::MAX,u64::MAX-1,i64::MAX as u64,i64::MAX as u64+1];
    for _ in 0..3000 { let w=r.below(64); vals.push(r.next()>>w); }
    for v in vals { for (md,d) in dens.iter() {
        writeln!(ops,"F {} {}",md,v).unwrap(); writeln!(res,"{}",Amount::from_pico(v).to_string_in(*d)).unwrap();
        writeln!(ops,"G {} {}",md,v as i64).unwrap(); writeln!(res,"{}",SignedAmount::from_pico(v as i64).to_string_in(*d)).unwrap(); } }
}
