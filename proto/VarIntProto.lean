import Mathlib.Tactic.Ring
/-! Prototype: VarInt model (mirrors encode.rs:322-384) and its characterisation. Core Lean only. -/

/-- encoder: 7-bit groups LSB first, continuation bit on all but the last -/
def venc (n : Nat) : List Nat :=
  if h : n < 128 then [n] else (n % 128 + 128) :: venc (n / 128)
termination_by n
decreasing_by omega

/-- phase 1 of the decoder -/
def collect : List Nat → List Nat → Option (List Nat × List Nat)
  | [], _ => none
  | b :: bs, acc =>
    if b = 0 ∧ acc ≠ [] then none
    else if b < 128 then some (acc ++ [b % 128], bs)
    else collect bs (acc ++ [b % 128])

/-- phase 2: most-significant first, `leading_zeros >= 7` ⇔ `int < 2^57` -/
def accum : List Nat → Nat → Option Nat
  | [], int => some int
  | [last], int => some (int + last)
  | g :: g' :: rest, int =>
    if int + g < 2^57 then accum (g' :: rest) ((int + g) * 128) else none

def vdec (b : List Nat) : Option (Nat × List Nat) :=
  match collect b [] with
  | none => none
  | some (gs, rest) => match accum gs.reverse 0 with
    | none => none
    | some n => some (n, rest)

/-- exact value computed by `accum` when no check fails -/
def valMSB : List Nat → Nat → Nat
  | [], int => int
  | [last], int => int + last
  | g :: g' :: rest, int => valMSB (g' :: rest) ((int + g) * 128)

theorem valMSB_ge : ∀ (l : List Nat) (x : Nat), l ≠ [] → x ≤ valMSB l x
  | [], _, h => absurd rfl h
  | [_], x, _ => by simp [valMSB]
  | g :: g' :: rest, x, _ => by
    have := valMSB_ge (g' :: rest) ((x + g) * 128) (by simp)
    simp only [valMSB]; omega

theorem accum_eq : ∀ (l : List Nat) (x : Nat), (∀ g ∈ l, g < 128) →
    accum l x = if valMSB l x < 2^64 ∨ l.length ≤ 1 then some (valMSB l x) else none
  | [], x, _ => by simp [accum, valMSB]
  | [a], x, _ => by simp [accum, valMSB]
  | g :: g' :: rest, x, h => by
    have ih := accum_eq (g' :: rest) ((x + g) * 128) (fun y hy => h y (by simp [hy]))
    have hge := valMSB_ge (g' :: rest) ((x + g) * 128) (by simp)
    simp only [accum, valMSB]
    by_cases hc : x + g < 2^57
    · simp only [hc, if_true, ih]
      cases rest with
      | nil =>
        have hg' : g' < 128 := h g' (by simp)
        simp [valMSB]; omega
      | cons r rs => simp
    · simp only [hc, if_false]
      have : ¬ (valMSB (g' :: rest) ((x + g) * 128) < 2^64) := by omega
      simp [this]; omega

/-- little-endian base-128 value -/
def valLSB : List Nat → Nat
  | [] => 0
  | g :: gs => g + 128 * valLSB gs

theorem valLSB_snoc (l : List Nat) (a : Nat) : valLSB (l ++ [a]) = valLSB l + a * 128 ^ l.length := by
  induction l with
  | nil => simp [valLSB]
  | cons b bs ihb => simp only [List.cons_append, valLSB, ihb, List.length_cons]; ring

theorem valMSB_reverse_aux : ∀ (l : List Nat) (x : Nat), l ≠ [] →
    valMSB l x = x * 128 ^ (l.length - 1) + valLSB l.reverse
  | [], _, h => absurd rfl h
  | [a], x, _ => by simp [valMSB, valLSB]
  | g :: g' :: rest, x, _ => by
    have ih := valMSB_reverse_aux (g' :: rest) ((x + g) * 128) (by simp)
    simp only [valMSB, ih]
    rw [List.reverse_cons (a := g), valLSB_snoc]
    simp only [List.length_cons, Nat.add_sub_cancel, List.length_reverse]
    ring

theorem valMSB_reverse (gs : List Nat) (h : gs ≠ []) : valMSB gs.reverse 0 = valLSB gs := by
  have := valMSB_reverse_aux gs.reverse 0 (by simpa using h)
  simpa using this


/-- wire bytes of a group list: continuation bit on all but the last -/
def bytesOf : List Nat → List Nat
  | [] => []
  | [g] => [g]
  | g :: g' :: rest => (g + 128) :: bytesOf (g' :: rest)

/-- canonical: a single group, or last group non-zero -/
def Canon (gs : List Nat) : Prop := gs ≠ [] ∧ (∀ g ∈ gs, g < 128) ∧ (gs.length = 1 ∨ gs.getLast? ≠ some 0)

theorem venc_valLSB : ∀ gs, Canon gs → venc (valLSB gs) = bytesOf gs
  | [], h => absurd rfl h.1
  | [g], h => by
    have : g < 128 := h.2.1 g (by simp)
    unfold venc; simp [valLSB, bytesOf, this]
  | g :: g' :: rest, h => by
    have hg : g < 128 := h.2.1 g (by simp)
    have hc : Canon (g' :: rest) := by
      refine ⟨by simp, fun y hy => h.2.1 y (by simp [hy]), ?_⟩
      rcases h.2.2 with h1 | h1
      · simp at h1
      · right; simpa [List.getLast?_cons_cons] using h1
    have ih := venc_valLSB (g' :: rest) hc
    -- the tail value is positive because its last group is non-zero (or it is a single non-zero group)
    have hpos : 0 < valLSB (g' :: rest) := by
      have : ∀ l : List Nat, l ≠ [] → l.getLast? ≠ some 0 → 0 < valLSB l := by
        intro l; induction l with
        | nil => intro h; exact absurd rfl h
        | cons a t iht =>
          intro _ hl
          cases t with
          | nil => simp [valLSB] at *; omega
          | cons b t' =>
            have := iht (by simp) (by simpa [List.getLast?_cons_cons] using hl)
            simp only [valLSB] at *; omega
      rcases h.2.2 with h1 | h1
      · simp at h1
      · exact this _ (by simp) (by simpa [List.getLast?_cons_cons] using h1)
    rw [venc]
    have hv : valLSB (g :: g' :: rest) = g + 128 * valLSB (g' :: rest) := rfl
    have hnlt : ¬ (valLSB (g :: g' :: rest) < 128) := by rw [hv]; omega
    rw [dif_neg hnlt, hv]
    have h1 : (g + 128 * valLSB (g' :: rest)) % 128 = g := by omega
    have h2 : (g + 128 * valLSB (g' :: rest)) / 128 = valLSB (g' :: rest) := by omega
    rw [h1, h2, ih]; rfl

#print axioms venc_valLSB
#print axioms accum_eq
#print axioms valMSB_reverse_aux
