import Mathlib.NumberTheory.LucasPrimality
import Mathlib.Tactic.NormNum.Prime
import Mathlib.Tactic.ReduceModChar

set_option maxRecDepth 1000000
set_option exponentiation.threshold 1000000

namespace Pratt

theorem prime_factor_cases (q : ℕ) (hq : q.Prime) : ∀ (l : List (ℕ × ℕ)), (∀ f ∈ l, (f.1).Prime) →
    q ∣ (l.map (fun f => f.1 ^ f.2)).prod → ∃ f ∈ l, q = f.1 := by
  intro l
  induction l with
  | nil => intro _ h; simp at h; exact absurd h hq.one_lt.ne'
  | cons f t ih =>
    intro hp h
    simp only [List.map_cons, List.prod_cons] at h
    rcases (Nat.Prime.dvd_mul hq).1 h with h1 | h1
    · have := hq.dvd_of_dvd_pow h1
      exact ⟨f, by simp, (Nat.prime_dvd_prime_iff_eq hq (hp f (by simp))).1 this⟩
    · obtain ⟨g, hg, rfl⟩ := ih (fun g hg => hp g (by simp [hg])) h1
      exact ⟨g, by simp [hg], rfl⟩

theorem prime_132049 : Nat.Prime 132049 := by
  apply lucas_primality 132049 (26 : ZMod 132049)
  · reduce_mod_char
  · intro q hq hd
    have hfac : (132049 - 1 : ℕ) = (([(2, 4), (3, 2), (7, 1), (131, 1)] : List (ℕ × ℕ)).map (fun f => f.1 ^ f.2)).prod := by norm_num
    rw [hfac] at hd
    have hpr : ∀ f ∈ ([(2, 4), (3, 2), (7, 1), (131, 1)] : List (ℕ × ℕ)), (f.1).Prime := by
      intro f hf
      simp only [List.mem_cons, List.not_mem_nil, or_false] at hf
      rcases hf with rfl | rfl | rfl | rfl
      · norm_num
      · norm_num
      · norm_num
      · norm_num
    obtain ⟨f, hf, rfl⟩ := prime_factor_cases q hq _ hpr hd
    simp only [List.mem_cons, List.not_mem_nil, or_false] at hf
    rcases hf with rfl | rfl | rfl | rfl
    · show (26 : ZMod 132049) ^ ((132049 - 1) / 2) ≠ 1
      reduce_mod_char
      decide
    · show (26 : ZMod 132049) ^ ((132049 - 1) / 3) ≠ 1
      reduce_mod_char
      decide
    · show (26 : ZMod 132049) ^ ((132049 - 1) / 7) ≠ 1
      reduce_mod_char
      decide
    · show (26 : ZMod 132049) ^ ((132049 - 1) / 131) ≠ 1
      reduce_mod_char
      decide

theorem prime_132667 : Nat.Prime 132667 := by
  apply lucas_primality 132667 (5 : ZMod 132667)
  · reduce_mod_char
  · intro q hq hd
    have hfac : (132667 - 1 : ℕ) = (([(2, 1), (3, 1), (22111, 1)] : List (ℕ × ℕ)).map (fun f => f.1 ^ f.2)).prod := by norm_num
    rw [hfac] at hd
    have hpr : ∀ f ∈ ([(2, 1), (3, 1), (22111, 1)] : List (ℕ × ℕ)), (f.1).Prime := by
      intro f hf
      simp only [List.mem_cons, List.not_mem_nil, or_false] at hf
      rcases hf with rfl | rfl | rfl
      · norm_num
      · norm_num
      · norm_num
    obtain ⟨f, hf, rfl⟩ := prime_factor_cases q hq _ hpr hd
    simp only [List.mem_cons, List.not_mem_nil, or_false] at hf
    rcases hf with rfl | rfl | rfl
    · show (5 : ZMod 132667) ^ ((132667 - 1) / 2) ≠ 1
      reduce_mod_char
      decide
    · show (5 : ZMod 132667) ^ ((132667 - 1) / 3) ≠ 1
      reduce_mod_char
      decide
    · show (5 : ZMod 132667) ^ ((132667 - 1) / 22111) ≠ 1
      reduce_mod_char
      decide

theorem prime_137849 : Nat.Prime 137849 := by
  apply lucas_primality 137849 (3 : ZMod 137849)
  · reduce_mod_char
  · intro q hq hd
    have hfac : (137849 - 1 : ℕ) = (([(2, 3), (17231, 1)] : List (ℕ × ℕ)).map (fun f => f.1 ^ f.2)).prod := by norm_num
    rw [hfac] at hd
    have hpr : ∀ f ∈ ([(2, 3), (17231, 1)] : List (ℕ × ℕ)), (f.1).Prime := by
      intro f hf
      simp only [List.mem_cons, List.not_mem_nil, or_false] at hf
      rcases hf with rfl | rfl
      · norm_num
      · norm_num
    obtain ⟨f, hf, rfl⟩ := prime_factor_cases q hq _ hpr hd
    simp only [List.mem_cons, List.not_mem_nil, or_false] at hf
    rcases hf with rfl | rfl
    · show (3 : ZMod 137849) ^ ((137849 - 1) / 2) ≠ 1
      reduce_mod_char
      decide
    · show (3 : ZMod 137849) ^ ((137849 - 1) / 17231) ≠ 1
      reduce_mod_char
      decide

theorem prime_409477 : Nat.Prime 409477 := by
  apply lucas_primality 409477 (2 : ZMod 409477)
  · reduce_mod_char
  · intro q hq hd
    have hfac : (409477 - 1 : ℕ) = (([(2, 2), (3, 1), (34123, 1)] : List (ℕ × ℕ)).map (fun f => f.1 ^ f.2)).prod := by norm_num
    rw [hfac] at hd
    have hpr : ∀ f ∈ ([(2, 2), (3, 1), (34123, 1)] : List (ℕ × ℕ)), (f.1).Prime := by
      intro f hf
      simp only [List.mem_cons, List.not_mem_nil, or_false] at hf
      rcases hf with rfl | rfl | rfl
      · norm_num
      · norm_num
      · norm_num
    obtain ⟨f, hf, rfl⟩ := prime_factor_cases q hq _ hpr hd
    simp only [List.mem_cons, List.not_mem_nil, or_false] at hf
    rcases hf with rfl | rfl | rfl
    · show (2 : ZMod 409477) ^ ((409477 - 1) / 2) ≠ 1
      reduce_mod_char
      decide
    · show (2 : ZMod 409477) ^ ((409477 - 1) / 3) ≠ 1
      reduce_mod_char
      decide
    · show (2 : ZMod 409477) ^ ((409477 - 1) / 34123) ≠ 1
      reduce_mod_char
      decide

theorem prime_430751 : Nat.Prime 430751 := by
  apply lucas_primality 430751 (17 : ZMod 430751)
  · reduce_mod_char
  · intro q hq hd
    have hfac : (430751 - 1 : ℕ) = (([(2, 1), (5, 3), (1723, 1)] : List (ℕ × ℕ)).map (fun f => f.1 ^ f.2)).prod := by norm_num
    rw [hfac] at hd
    have hpr : ∀ f ∈ ([(2, 1), (5, 3), (1723, 1)] : List (ℕ × ℕ)), (f.1).Prime := by
      intro f hf
      simp only [List.mem_cons, List.not_mem_nil, or_false] at hf
      rcases hf with rfl | rfl | rfl
      · norm_num
      · norm_num
      · norm_num
    obtain ⟨f, hf, rfl⟩ := prime_factor_cases q hq _ hpr hd
    simp only [List.mem_cons, List.not_mem_nil, or_false] at hf
    rcases hf with rfl | rfl | rfl
    · show (17 : ZMod 430751) ^ ((430751 - 1) / 2) ≠ 1
      reduce_mod_char
      decide
    · show (17 : ZMod 430751) ^ ((430751 - 1) / 5) ≠ 1
      reduce_mod_char
      decide
    · show (17 : ZMod 430751) ^ ((430751 - 1) / 1723) ≠ 1
      reduce_mod_char
      decide

theorem prime_531581 : Nat.Prime 531581 := by
  apply lucas_primality 531581 (2 : ZMod 531581)
  · reduce_mod_char
  · intro q hq hd
    have hfac : (531581 - 1 : ℕ) = (([(2, 2), (5, 1), (7, 1), (3797, 1)] : List (ℕ × ℕ)).map (fun f => f.1 ^ f.2)).prod := by norm_num
    rw [hfac] at hd
    have hpr : ∀ f ∈ ([(2, 2), (5, 1), (7, 1), (3797, 1)] : List (ℕ × ℕ)), (f.1).Prime := by
      intro f hf
      simp only [List.mem_cons, List.not_mem_nil, or_false] at hf
      rcases hf with rfl | rfl | rfl | rfl
      · norm_num
      · norm_num
      · norm_num
      · norm_num
    obtain ⟨f, hf, rfl⟩ := prime_factor_cases q hq _ hpr hd
    simp only [List.mem_cons, List.not_mem_nil, or_false] at hf
    rcases hf with rfl | rfl | rfl | rfl
    · show (2 : ZMod 531581) ^ ((531581 - 1) / 2) ≠ 1
      reduce_mod_char
      decide
    · show (2 : ZMod 531581) ^ ((531581 - 1) / 5) ≠ 1
      reduce_mod_char
      decide
    · show (2 : ZMod 531581) ^ ((531581 - 1) / 7) ≠ 1
      reduce_mod_char
      decide
    · show (2 : ZMod 531581) ^ ((531581 - 1) / 3797) ≠ 1
      reduce_mod_char
      decide

theorem prime_569003 : Nat.Prime 569003 := by
  apply lucas_primality 569003 (2 : ZMod 569003)
  · reduce_mod_char
  · intro q hq hd
    have hfac : (569003 - 1 : ℕ) = (([(2, 1), (7, 1), (97, 1), (419, 1)] : List (ℕ × ℕ)).map (fun f => f.1 ^ f.2)).prod := by norm_num
    rw [hfac] at hd
    have hpr : ∀ f ∈ ([(2, 1), (7, 1), (97, 1), (419, 1)] : List (ℕ × ℕ)), (f.1).Prime := by
      intro f hf
      simp only [List.mem_cons, List.not_mem_nil, or_false] at hf
      rcases hf with rfl | rfl | rfl | rfl
      · norm_num
      · norm_num
      · norm_num
      · norm_num
    obtain ⟨f, hf, rfl⟩ := prime_factor_cases q hq _ hpr hd
    simp only [List.mem_cons, List.not_mem_nil, or_false] at hf
    rcases hf with rfl | rfl | rfl | rfl
    · show (2 : ZMod 569003) ^ ((569003 - 1) / 2) ≠ 1
      reduce_mod_char
      decide
    · show (2 : ZMod 569003) ^ ((569003 - 1) / 7) ≠ 1
      reduce_mod_char
      decide
    · show (2 : ZMod 569003) ^ ((569003 - 1) / 97) ≠ 1
      reduce_mod_char
      decide
    · show (2 : ZMod 569003) ^ ((569003 - 1) / 419) ≠ 1
      reduce_mod_char
      decide

theorem prime_1224481 : Nat.Prime 1224481 := by
  apply lucas_primality 1224481 (13 : ZMod 1224481)
  · reduce_mod_char
  · intro q hq hd
    have hfac : (1224481 - 1 : ℕ) = (([(2, 5), (3, 1), (5, 1), (2551, 1)] : List (ℕ × ℕ)).map (fun f => f.1 ^ f.2)).prod := by norm_num
    rw [hfac] at hd
    have hpr : ∀ f ∈ ([(2, 5), (3, 1), (5, 1), (2551, 1)] : List (ℕ × ℕ)), (f.1).Prime := by
      intro f hf
      simp only [List.mem_cons, List.not_mem_nil, or_false] at hf
      rcases hf with rfl | rfl | rfl | rfl
      · norm_num
      · norm_num
      · norm_num
      · norm_num
    obtain ⟨f, hf, rfl⟩ := prime_factor_cases q hq _ hpr hd
    simp only [List.mem_cons, List.not_mem_nil, or_false] at hf
    rcases hf with rfl | rfl | rfl | rfl
    · show (13 : ZMod 1224481) ^ ((1224481 - 1) / 2) ≠ 1
      reduce_mod_char
      decide
    · show (13 : ZMod 1224481) ^ ((1224481 - 1) / 3) ≠ 1
      reduce_mod_char
      decide
    · show (13 : ZMod 1224481) ^ ((1224481 - 1) / 5) ≠ 1
      reduce_mod_char
      decide
    · show (13 : ZMod 1224481) ^ ((1224481 - 1) / 2551) ≠ 1
      reduce_mod_char
      decide

theorem prime_1923133 : Nat.Prime 1923133 := by
  apply lucas_primality 1923133 (2 : ZMod 1923133)
  · reduce_mod_char
  · intro q hq hd
    have hfac : (1923133 - 1 : ℕ) = (([(2, 2), (3, 1), (43, 1), (3727, 1)] : List (ℕ × ℕ)).map (fun f => f.1 ^ f.2)).prod := by norm_num
    rw [hfac] at hd
    have hpr : ∀ f ∈ ([(2, 2), (3, 1), (43, 1), (3727, 1)] : List (ℕ × ℕ)), (f.1).Prime := by
      intro f hf
      simp only [List.mem_cons, List.not_mem_nil, or_false] at hf
      rcases hf with rfl | rfl | rfl | rfl
      · norm_num
      · norm_num
      · norm_num
      · norm_num
    obtain ⟨f, hf, rfl⟩ := prime_factor_cases q hq _ hpr hd
    simp only [List.mem_cons, List.not_mem_nil, or_false] at hf
    rcases hf with rfl | rfl | rfl | rfl
    · show (2 : ZMod 1923133) ^ ((1923133 - 1) / 2) ≠ 1
      reduce_mod_char
      decide
    · show (2 : ZMod 1923133) ^ ((1923133 - 1) / 3) ≠ 1
      reduce_mod_char
      decide
    · show (2 : ZMod 1923133) ^ ((1923133 - 1) / 43) ≠ 1
      reduce_mod_char
      decide
    · show (2 : ZMod 1923133) ^ ((1923133 - 1) / 3727) ≠ 1
      reduce_mod_char
      decide

theorem prime_8574133 : Nat.Prime 8574133 := by
  apply lucas_primality 8574133 (2 : ZMod 8574133)
  · reduce_mod_char
  · intro q hq hd
    have hfac : (8574133 - 1 : ℕ) = (([(2, 2), (3, 1), (7, 1), (103, 1), (991, 1)] : List (ℕ × ℕ)).map (fun f => f.1 ^ f.2)).prod := by norm_num
    rw [hfac] at hd
    have hpr : ∀ f ∈ ([(2, 2), (3, 1), (7, 1), (103, 1), (991, 1)] : List (ℕ × ℕ)), (f.1).Prime := by
      intro f hf
      simp only [List.mem_cons, List.not_mem_nil, or_false] at hf
      rcases hf with rfl | rfl | rfl | rfl | rfl
      · norm_num
      · norm_num
      · norm_num
      · norm_num
      · norm_num
    obtain ⟨f, hf, rfl⟩ := prime_factor_cases q hq _ hpr hd
    simp only [List.mem_cons, List.not_mem_nil, or_false] at hf
    rcases hf with rfl | rfl | rfl | rfl | rfl
    · show (2 : ZMod 8574133) ^ ((8574133 - 1) / 2) ≠ 1
      reduce_mod_char
      decide
    · show (2 : ZMod 8574133) ^ ((8574133 - 1) / 3) ≠ 1
      reduce_mod_char
      decide
    · show (2 : ZMod 8574133) ^ ((8574133 - 1) / 7) ≠ 1
      reduce_mod_char
      decide
    · show (2 : ZMod 8574133) ^ ((8574133 - 1) / 103) ≠ 1
      reduce_mod_char
      decide
    · show (2 : ZMod 8574133) ^ ((8574133 - 1) / 991) ≠ 1
      reduce_mod_char
      decide

theorem prime_14741173 : Nat.Prime 14741173 := by
  apply lucas_primality 14741173 (2 : ZMod 14741173)
  · reduce_mod_char
  · intro q hq hd
    have hfac : (14741173 - 1 : ℕ) = (([(2, 2), (3, 2), (409477, 1)] : List (ℕ × ℕ)).map (fun f => f.1 ^ f.2)).prod := by norm_num
    rw [hfac] at hd
    have hpr : ∀ f ∈ ([(2, 2), (3, 2), (409477, 1)] : List (ℕ × ℕ)), (f.1).Prime := by
      intro f hf
      simp only [List.mem_cons, List.not_mem_nil, or_false] at hf
      rcases hf with rfl | rfl | rfl
      · norm_num
      · norm_num
      · exact prime_409477
    obtain ⟨f, hf, rfl⟩ := prime_factor_cases q hq _ hpr hd
    simp only [List.mem_cons, List.not_mem_nil, or_false] at hf
    rcases hf with rfl | rfl | rfl
    · show (2 : ZMod 14741173) ^ ((14741173 - 1) / 2) ≠ 1
      reduce_mod_char
      decide
    · show (2 : ZMod 14741173) ^ ((14741173 - 1) / 3) ≠ 1
      reduce_mod_char
      decide
    · show (2 : ZMod 14741173) ^ ((14741173 - 1) / 409477) ≠ 1
      reduce_mod_char
      decide

theorem prime_58964693 : Nat.Prime 58964693 := by
  apply lucas_primality 58964693 (2 : ZMod 58964693)
  · reduce_mod_char
  · intro q hq hd
    have hfac : (58964693 - 1 : ℕ) = (([(2, 2), (14741173, 1)] : List (ℕ × ℕ)).map (fun f => f.1 ^ f.2)).prod := by norm_num
    rw [hfac] at hd
    have hpr : ∀ f ∈ ([(2, 2), (14741173, 1)] : List (ℕ × ℕ)), (f.1).Prime := by
      intro f hf
      simp only [List.mem_cons, List.not_mem_nil, or_false] at hf
      rcases hf with rfl | rfl
      · norm_num
      · exact prime_14741173
    obtain ⟨f, hf, rfl⟩ := prime_factor_cases q hq _ hpr hd
    simp only [List.mem_cons, List.not_mem_nil, or_false] at hf
    rcases hf with rfl | rfl
    · show (2 : ZMod 58964693) ^ ((58964693 - 1) / 2) ≠ 1
      reduce_mod_char
      decide
    · show (2 : ZMod 58964693) ^ ((58964693 - 1) / 14741173) ≠ 1
      reduce_mod_char
      decide

theorem prime_292386187 : Nat.Prime 292386187 := by
  apply lucas_primality 292386187 (2 : ZMod 292386187)
  · reduce_mod_char
  · intro q hq hd
    have hfac : (292386187 - 1 : ℕ) = (([(2, 1), (3, 4), (307, 1), (5879, 1)] : List (ℕ × ℕ)).map (fun f => f.1 ^ f.2)).prod := by norm_num
    rw [hfac] at hd
    have hpr : ∀ f ∈ ([(2, 1), (3, 4), (307, 1), (5879, 1)] : List (ℕ × ℕ)), (f.1).Prime := by
      intro f hf
      simp only [List.mem_cons, List.not_mem_nil, or_false] at hf
      rcases hf with rfl | rfl | rfl | rfl
      · norm_num
      · norm_num
      · norm_num
      · norm_num
    obtain ⟨f, hf, rfl⟩ := prime_factor_cases q hq _ hpr hd
    simp only [List.mem_cons, List.not_mem_nil, or_false] at hf
    rcases hf with rfl | rfl | rfl | rfl
    · show (2 : ZMod 292386187) ^ ((292386187 - 1) / 2) ≠ 1
      reduce_mod_char
      decide
    · show (2 : ZMod 292386187) ^ ((292386187 - 1) / 3) ≠ 1
      reduce_mod_char
      decide
    · show (2 : ZMod 292386187) ^ ((292386187 - 1) / 307) ≠ 1
      reduce_mod_char
      decide
    · show (2 : ZMod 292386187) ^ ((292386187 - 1) / 5879) ≠ 1
      reduce_mod_char
      decide

theorem prime_2773320623 : Nat.Prime 2773320623 := by
  apply lucas_primality 2773320623 (5 : ZMod 2773320623)
  · reduce_mod_char
  · intro q hq hd
    have hfac : (2773320623 - 1 : ℕ) = (([(2, 1), (2437, 1), (569003, 1)] : List (ℕ × ℕ)).map (fun f => f.1 ^ f.2)).prod := by norm_num
    rw [hfac] at hd
    have hpr : ∀ f ∈ ([(2, 1), (2437, 1), (569003, 1)] : List (ℕ × ℕ)), (f.1).Prime := by
      intro f hf
      simp only [List.mem_cons, List.not_mem_nil, or_false] at hf
      rcases hf with rfl | rfl | rfl
      · norm_num
      · norm_num
      · exact prime_569003
    obtain ⟨f, hf, rfl⟩ := prime_factor_cases q hq _ hpr hd
    simp only [List.mem_cons, List.not_mem_nil, or_false] at hf
    rcases hf with rfl | rfl | rfl
    · show (5 : ZMod 2773320623) ^ ((2773320623 - 1) / 2) ≠ 1
      reduce_mod_char
      decide
    · show (5 : ZMod 2773320623) ^ ((2773320623 - 1) / 2437) ≠ 1
      reduce_mod_char
      decide
    · show (5 : ZMod 2773320623) ^ ((2773320623 - 1) / 569003) ≠ 1
      reduce_mod_char
      decide

theorem prime_72106336199 : Nat.Prime 72106336199 := by
  apply lucas_primality 72106336199 (7 : ZMod 72106336199)
  · reduce_mod_char
  · intro q hq hd
    have hfac : (72106336199 - 1 : ℕ) = (([(2, 1), (13, 1), (2773320623, 1)] : List (ℕ × ℕ)).map (fun f => f.1 ^ f.2)).prod := by norm_num
    rw [hfac] at hd
    have hpr : ∀ f ∈ ([(2, 1), (13, 1), (2773320623, 1)] : List (ℕ × ℕ)), (f.1).Prime := by
      intro f hf
      simp only [List.mem_cons, List.not_mem_nil, or_false] at hf
      rcases hf with rfl | rfl | rfl
      · norm_num
      · norm_num
      · exact prime_2773320623
    obtain ⟨f, hf, rfl⟩ := prime_factor_cases q hq _ hpr hd
    simp only [List.mem_cons, List.not_mem_nil, or_false] at hf
    rcases hf with rfl | rfl | rfl
    · show (7 : ZMod 72106336199) ^ ((72106336199 - 1) / 2) ≠ 1
      reduce_mod_char
      decide
    · show (7 : ZMod 72106336199) ^ ((72106336199 - 1) / 13) ≠ 1
      reduce_mod_char
      decide
    · show (7 : ZMod 72106336199) ^ ((72106336199 - 1) / 2773320623) ≠ 1
      reduce_mod_char
      decide

theorem prime_213441916511 : Nat.Prime 213441916511 := by
  apply lucas_primality 213441916511 (13 : ZMod 213441916511)
  · reduce_mod_char
  · intro q hq hd
    have hfac : (213441916511 - 1 : ℕ) = (([(2, 1), (5, 1), (73, 1), (292386187, 1)] : List (ℕ × ℕ)).map (fun f => f.1 ^ f.2)).prod := by norm_num
    rw [hfac] at hd
    have hpr : ∀ f ∈ ([(2, 1), (5, 1), (73, 1), (292386187, 1)] : List (ℕ × ℕ)), (f.1).Prime := by
      intro f hf
      simp only [List.mem_cons, List.not_mem_nil, or_false] at hf
      rcases hf with rfl | rfl | rfl | rfl
      · norm_num
      · norm_num
      · norm_num
      · exact prime_292386187
    obtain ⟨f, hf, rfl⟩ := prime_factor_cases q hq _ hpr hd
    simp only [List.mem_cons, List.not_mem_nil, or_false] at hf
    rcases hf with rfl | rfl | rfl | rfl
    · show (13 : ZMod 213441916511) ^ ((213441916511 - 1) / 2) ≠ 1
      reduce_mod_char
      decide
    · show (13 : ZMod 213441916511) ^ ((213441916511 - 1) / 5) ≠ 1
      reduce_mod_char
      decide
    · show (13 : ZMod 213441916511) ^ ((213441916511 - 1) / 73) ≠ 1
      reduce_mod_char
      decide
    · show (13 : ZMod 213441916511) ^ ((213441916511 - 1) / 292386187) ≠ 1
      reduce_mod_char
      decide

theorem prime_1257559732178653 : Nat.Prime 1257559732178653 := by
  apply lucas_primality 1257559732178653 (2 : ZMod 1257559732178653)
  · reduce_mod_char
  · intro q hq hd
    have hfac : (1257559732178653 - 1 : ℕ) = (([(2, 2), (3, 1), (7, 1), (23, 1), (531581, 1), (1224481, 1)] : List (ℕ × ℕ)).map (fun f => f.1 ^ f.2)).prod := by norm_num
    rw [hfac] at hd
    have hpr : ∀ f ∈ ([(2, 2), (3, 1), (7, 1), (23, 1), (531581, 1), (1224481, 1)] : List (ℕ × ℕ)), (f.1).Prime := by
      intro f hf
      simp only [List.mem_cons, List.not_mem_nil, or_false] at hf
      rcases hf with rfl | rfl | rfl | rfl | rfl | rfl
      · norm_num
      · norm_num
      · norm_num
      · norm_num
      · exact prime_531581
      · exact prime_1224481
    obtain ⟨f, hf, rfl⟩ := prime_factor_cases q hq _ hpr hd
    simp only [List.mem_cons, List.not_mem_nil, or_false] at hf
    rcases hf with rfl | rfl | rfl | rfl | rfl | rfl
    · show (2 : ZMod 1257559732178653) ^ ((1257559732178653 - 1) / 2) ≠ 1
      reduce_mod_char
      decide
    · show (2 : ZMod 1257559732178653) ^ ((1257559732178653 - 1) / 3) ≠ 1
      reduce_mod_char
      decide
    · show (2 : ZMod 1257559732178653) ^ ((1257559732178653 - 1) / 7) ≠ 1
      reduce_mod_char
      decide
    · show (2 : ZMod 1257559732178653) ^ ((1257559732178653 - 1) / 23) ≠ 1
      reduce_mod_char
      decide
    · show (2 : ZMod 1257559732178653) ^ ((1257559732178653 - 1) / 531581) ≠ 1
      reduce_mod_char
      decide
    · show (2 : ZMod 1257559732178653) ^ ((1257559732178653 - 1) / 1224481) ≠ 1
      reduce_mod_char
      decide

theorem prime_1919519569386763 : Nat.Prime 1919519569386763 := by
  apply lucas_primality 1919519569386763 (2 : ZMod 1919519569386763)
  · reduce_mod_char
  · intro q hq hd
    have hfac : (1919519569386763 - 1 : ℕ) = (([(2, 1), (3, 1), (7, 1), (19, 1), (47, 2), (127, 1), (8574133, 1)] : List (ℕ × ℕ)).map (fun f => f.1 ^ f.2)).prod := by norm_num
    rw [hfac] at hd
    have hpr : ∀ f ∈ ([(2, 1), (3, 1), (7, 1), (19, 1), (47, 2), (127, 1), (8574133, 1)] : List (ℕ × ℕ)), (f.1).Prime := by
      intro f hf
      simp only [List.mem_cons, List.not_mem_nil, or_false] at hf
      rcases hf with rfl | rfl | rfl | rfl | rfl | rfl | rfl
      · norm_num
      · norm_num
      · norm_num
      · norm_num
      · norm_num
      · norm_num
      · exact prime_8574133
    obtain ⟨f, hf, rfl⟩ := prime_factor_cases q hq _ hpr hd
    simp only [List.mem_cons, List.not_mem_nil, or_false] at hf
    rcases hf with rfl | rfl | rfl | rfl | rfl | rfl | rfl
    · show (2 : ZMod 1919519569386763) ^ ((1919519569386763 - 1) / 2) ≠ 1
      reduce_mod_char
      decide
    · show (2 : ZMod 1919519569386763) ^ ((1919519569386763 - 1) / 3) ≠ 1
      reduce_mod_char
      decide
    · show (2 : ZMod 1919519569386763) ^ ((1919519569386763 - 1) / 7) ≠ 1
      reduce_mod_char
      decide
    · show (2 : ZMod 1919519569386763) ^ ((1919519569386763 - 1) / 19) ≠ 1
      reduce_mod_char
      decide
    · show (2 : ZMod 1919519569386763) ^ ((1919519569386763 - 1) / 47) ≠ 1
      reduce_mod_char
      decide
    · show (2 : ZMod 1919519569386763) ^ ((1919519569386763 - 1) / 127) ≠ 1
      reduce_mod_char
      decide
    · show (2 : ZMod 1919519569386763) ^ ((1919519569386763 - 1) / 8574133) ≠ 1
      reduce_mod_char
      decide

theorem prime_31757755568855353 : Nat.Prime 31757755568855353 := by
  apply lucas_primality 31757755568855353 (10 : ZMod 31757755568855353)
  · reduce_mod_char
  · intro q hq hd
    have hfac : (31757755568855353 - 1 : ℕ) = (([(2, 3), (3, 1), (31, 1), (107, 1), (223, 1), (4153, 1), (430751, 1)] : List (ℕ × ℕ)).map (fun f => f.1 ^ f.2)).prod := by norm_num
    rw [hfac] at hd
    have hpr : ∀ f ∈ ([(2, 3), (3, 1), (31, 1), (107, 1), (223, 1), (4153, 1), (430751, 1)] : List (ℕ × ℕ)), (f.1).Prime := by
      intro f hf
      simp only [List.mem_cons, List.not_mem_nil, or_false] at hf
      rcases hf with rfl | rfl | rfl | rfl | rfl | rfl | rfl
      · norm_num
      · norm_num
      · norm_num
      · norm_num
      · norm_num
      · norm_num
      · exact prime_430751
    obtain ⟨f, hf, rfl⟩ := prime_factor_cases q hq _ hpr hd
    simp only [List.mem_cons, List.not_mem_nil, or_false] at hf
    rcases hf with rfl | rfl | rfl | rfl | rfl | rfl | rfl
    · show (10 : ZMod 31757755568855353) ^ ((31757755568855353 - 1) / 2) ≠ 1
      reduce_mod_char
      decide
    · show (10 : ZMod 31757755568855353) ^ ((31757755568855353 - 1) / 3) ≠ 1
      reduce_mod_char
      decide
    · show (10 : ZMod 31757755568855353) ^ ((31757755568855353 - 1) / 31) ≠ 1
      reduce_mod_char
      decide
    · show (10 : ZMod 31757755568855353) ^ ((31757755568855353 - 1) / 107) ≠ 1
      reduce_mod_char
      decide
    · show (10 : ZMod 31757755568855353) ^ ((31757755568855353 - 1) / 223) ≠ 1
      reduce_mod_char
      decide
    · show (10 : ZMod 31757755568855353) ^ ((31757755568855353 - 1) / 4153) ≠ 1
      reduce_mod_char
      decide
    · show (10 : ZMod 31757755568855353) ^ ((31757755568855353 - 1) / 430751) ≠ 1
      reduce_mod_char
      decide

theorem prime_4434155615661930479 : Nat.Prime 4434155615661930479 := by
  apply lucas_primality 4434155615661930479 (17 : ZMod 4434155615661930479)
  · reduce_mod_char
  · intro q hq hd
    have hfac : (4434155615661930479 - 1 : ℕ) = (([(2, 1), (41, 1), (43, 1), (1257559732178653, 1)] : List (ℕ × ℕ)).map (fun f => f.1 ^ f.2)).prod := by norm_num
    rw [hfac] at hd
    have hpr : ∀ f ∈ ([(2, 1), (41, 1), (43, 1), (1257559732178653, 1)] : List (ℕ × ℕ)), (f.1).Prime := by
      intro f hf
      simp only [List.mem_cons, List.not_mem_nil, or_false] at hf
      rcases hf with rfl | rfl | rfl | rfl
      · norm_num
      · norm_num
      · norm_num
      · exact prime_1257559732178653
    obtain ⟨f, hf, rfl⟩ := prime_factor_cases q hq _ hpr hd
    simp only [List.mem_cons, List.not_mem_nil, or_false] at hf
    rcases hf with rfl | rfl | rfl | rfl
    · show (17 : ZMod 4434155615661930479) ^ ((4434155615661930479 - 1) / 2) ≠ 1
      reduce_mod_char
      decide
    · show (17 : ZMod 4434155615661930479) ^ ((4434155615661930479 - 1) / 41) ≠ 1
      reduce_mod_char
      decide
    · show (17 : ZMod 4434155615661930479) ^ ((4434155615661930479 - 1) / 43) ≠ 1
      reduce_mod_char
      decide
    · show (17 : ZMod 4434155615661930479) ^ ((4434155615661930479 - 1) / 1257559732178653) ≠ 1
      reduce_mod_char
      decide

theorem prime_3044861653679985063343 : Nat.Prime 3044861653679985063343 := by
  apply lucas_primality 3044861653679985063343 (5 : ZMod 3044861653679985063343)
  · reduce_mod_char
  · intro q hq hd
    have hfac : (3044861653679985063343 - 1 : ℕ) = (([(2, 1), (3, 1), (11, 1), (30703, 1), (82163, 1), (132667, 1), (137849, 1)] : List (ℕ × ℕ)).map (fun f => f.1 ^ f.2)).prod := by norm_num
    rw [hfac] at hd
    have hpr : ∀ f ∈ ([(2, 1), (3, 1), (11, 1), (30703, 1), (82163, 1), (132667, 1), (137849, 1)] : List (ℕ × ℕ)), (f.1).Prime := by
      intro f hf
      simp only [List.mem_cons, List.not_mem_nil, or_false] at hf
      rcases hf with rfl | rfl | rfl | rfl | rfl | rfl | rfl
      · norm_num
      · norm_num
      · norm_num
      · norm_num
      · norm_num
      · exact prime_132667
      · exact prime_137849
    obtain ⟨f, hf, rfl⟩ := prime_factor_cases q hq _ hpr hd
    simp only [List.mem_cons, List.not_mem_nil, or_false] at hf
    rcases hf with rfl | rfl | rfl | rfl | rfl | rfl | rfl
    · show (5 : ZMod 3044861653679985063343) ^ ((3044861653679985063343 - 1) / 2) ≠ 1
      reduce_mod_char
      decide
    · show (5 : ZMod 3044861653679985063343) ^ ((3044861653679985063343 - 1) / 3) ≠ 1
      reduce_mod_char
      decide
    · show (5 : ZMod 3044861653679985063343) ^ ((3044861653679985063343 - 1) / 11) ≠ 1
      reduce_mod_char
      decide
    · show (5 : ZMod 3044861653679985063343) ^ ((3044861653679985063343 - 1) / 30703) ≠ 1
      reduce_mod_char
      decide
    · show (5 : ZMod 3044861653679985063343) ^ ((3044861653679985063343 - 1) / 82163) ≠ 1
      reduce_mod_char
      decide
    · show (5 : ZMod 3044861653679985063343) ^ ((3044861653679985063343 - 1) / 132667) ≠ 1
      reduce_mod_char
      decide
    · show (5 : ZMod 3044861653679985063343) ^ ((3044861653679985063343 - 1) / 137849) ≠ 1
      reduce_mod_char
      decide

theorem prime_172054593956031949258510691 : Nat.Prime 172054593956031949258510691 := by
  apply lucas_primality 172054593956031949258510691 (2 : ZMod 172054593956031949258510691)
  · reduce_mod_char
  · intro q hq hd
    have hfac : (172054593956031949258510691 - 1 : ℕ) = (([(2, 1), (5, 1), (1361, 1), (2851, 1), (4434155615661930479, 1)] : List (ℕ × ℕ)).map (fun f => f.1 ^ f.2)).prod := by norm_num
    rw [hfac] at hd
    have hpr : ∀ f ∈ ([(2, 1), (5, 1), (1361, 1), (2851, 1), (4434155615661930479, 1)] : List (ℕ × ℕ)), (f.1).Prime := by
      intro f hf
      simp only [List.mem_cons, List.not_mem_nil, or_false] at hf
      rcases hf with rfl | rfl | rfl | rfl | rfl
      · norm_num
      · norm_num
      · norm_num
      · norm_num
      · exact prime_4434155615661930479
    obtain ⟨f, hf, rfl⟩ := prime_factor_cases q hq _ hpr hd
    simp only [List.mem_cons, List.not_mem_nil, or_false] at hf
    rcases hf with rfl | rfl | rfl | rfl | rfl
    · show (2 : ZMod 172054593956031949258510691) ^ ((172054593956031949258510691 - 1) / 2) ≠ 1
      reduce_mod_char
      decide
    · show (2 : ZMod 172054593956031949258510691) ^ ((172054593956031949258510691 - 1) / 5) ≠ 1
      reduce_mod_char
      decide
    · show (2 : ZMod 172054593956031949258510691) ^ ((172054593956031949258510691 - 1) / 1361) ≠ 1
      reduce_mod_char
      decide
    · show (2 : ZMod 172054593956031949258510691) ^ ((172054593956031949258510691 - 1) / 2851) ≠ 1
      reduce_mod_char
      decide
    · show (2 : ZMod 172054593956031949258510691) ^ ((172054593956031949258510691 - 1) / 4434155615661930479) ≠ 1
      reduce_mod_char
      decide

theorem prime_198211423230930754013084525763697 : Nat.Prime 198211423230930754013084525763697 := by
  apply lucas_primality 198211423230930754013084525763697 (5 : ZMod 198211423230930754013084525763697)
  · reduce_mod_char
  · intro q hq hd
    have hfac : (198211423230930754013084525763697 - 1 : ℕ) = (([(2, 4), (3, 1), (23, 1), (58964693, 1), (3044861653679985063343, 1)] : List (ℕ × ℕ)).map (fun f => f.1 ^ f.2)).prod := by norm_num
    rw [hfac] at hd
    have hpr : ∀ f ∈ ([(2, 4), (3, 1), (23, 1), (58964693, 1), (3044861653679985063343, 1)] : List (ℕ × ℕ)), (f.1).Prime := by
      intro f hf
      simp only [List.mem_cons, List.not_mem_nil, or_false] at hf
      rcases hf with rfl | rfl | rfl | rfl | rfl
      · norm_num
      · norm_num
      · norm_num
      · exact prime_58964693
      · exact prime_3044861653679985063343
    obtain ⟨f, hf, rfl⟩ := prime_factor_cases q hq _ hpr hd
    simp only [List.mem_cons, List.not_mem_nil, or_false] at hf
    rcases hf with rfl | rfl | rfl | rfl | rfl
    · show (5 : ZMod 198211423230930754013084525763697) ^ ((198211423230930754013084525763697 - 1) / 2) ≠ 1
      reduce_mod_char
      decide
    · show (5 : ZMod 198211423230930754013084525763697) ^ ((198211423230930754013084525763697 - 1) / 3) ≠ 1
      reduce_mod_char
      decide
    · show (5 : ZMod 198211423230930754013084525763697) ^ ((198211423230930754013084525763697 - 1) / 23) ≠ 1
      reduce_mod_char
      decide
    · show (5 : ZMod 198211423230930754013084525763697) ^ ((198211423230930754013084525763697 - 1) / 58964693) ≠ 1
      reduce_mod_char
      decide
    · show (5 : ZMod 198211423230930754013084525763697) ^ ((198211423230930754013084525763697 - 1) / 3044861653679985063343) ≠ 1
      reduce_mod_char
      decide

theorem prime_75445702479781427272750846543864801 : Nat.Prime 75445702479781427272750846543864801 := by
  apply lucas_primality 75445702479781427272750846543864801 (7 : ZMod 75445702479781427272750846543864801)
  · reduce_mod_char
  · intro q hq hd
    have hfac : (75445702479781427272750846543864801 - 1 : ℕ) = (([(2, 5), (3, 2), (5, 2), (75707, 1), (72106336199, 1), (1919519569386763, 1)] : List (ℕ × ℕ)).map (fun f => f.1 ^ f.2)).prod := by norm_num
    rw [hfac] at hd
    have hpr : ∀ f ∈ ([(2, 5), (3, 2), (5, 2), (75707, 1), (72106336199, 1), (1919519569386763, 1)] : List (ℕ × ℕ)), (f.1).Prime := by
      intro f hf
      simp only [List.mem_cons, List.not_mem_nil, or_false] at hf
      rcases hf with rfl | rfl | rfl | rfl | rfl | rfl
      · norm_num
      · norm_num
      · norm_num
      · norm_num
      · exact prime_72106336199
      · exact prime_1919519569386763
    obtain ⟨f, hf, rfl⟩ := prime_factor_cases q hq _ hpr hd
    simp only [List.mem_cons, List.not_mem_nil, or_false] at hf
    rcases hf with rfl | rfl | rfl | rfl | rfl | rfl
    · show (7 : ZMod 75445702479781427272750846543864801) ^ ((75445702479781427272750846543864801 - 1) / 2) ≠ 1
      reduce_mod_char
      decide
    · show (7 : ZMod 75445702479781427272750846543864801) ^ ((75445702479781427272750846543864801 - 1) / 3) ≠ 1
      reduce_mod_char
      decide
    · show (7 : ZMod 75445702479781427272750846543864801) ^ ((75445702479781427272750846543864801 - 1) / 5) ≠ 1
      reduce_mod_char
      decide
    · show (7 : ZMod 75445702479781427272750846543864801) ^ ((75445702479781427272750846543864801 - 1) / 75707) ≠ 1
      reduce_mod_char
      decide
    · show (7 : ZMod 75445702479781427272750846543864801) ^ ((75445702479781427272750846543864801 - 1) / 72106336199) ≠ 1
      reduce_mod_char
      decide
    · show (7 : ZMod 75445702479781427272750846543864801) ^ ((75445702479781427272750846543864801 - 1) / 1919519569386763) ≠ 1
      reduce_mod_char
      decide

theorem prime_19757330305831588566944191468367130476339 : Nat.Prime 19757330305831588566944191468367130476339 := by
  apply lucas_primality 19757330305831588566944191468367130476339 (2 : ZMod 19757330305831588566944191468367130476339)
  · reduce_mod_char
  · intro q hq hd
    have hfac : (19757330305831588566944191468367130476339 - 1 : ℕ) = (([(2, 1), (269, 1), (213441916511, 1), (172054593956031949258510691, 1)] : List (ℕ × ℕ)).map (fun f => f.1 ^ f.2)).prod := by norm_num
    rw [hfac] at hd
    have hpr : ∀ f ∈ ([(2, 1), (269, 1), (213441916511, 1), (172054593956031949258510691, 1)] : List (ℕ × ℕ)), (f.1).Prime := by
      intro f hf
      simp only [List.mem_cons, List.not_mem_nil, or_false] at hf
      rcases hf with rfl | rfl | rfl | rfl
      · norm_num
      · norm_num
      · exact prime_213441916511
      · exact prime_172054593956031949258510691
    obtain ⟨f, hf, rfl⟩ := prime_factor_cases q hq _ hpr hd
    simp only [List.mem_cons, List.not_mem_nil, or_false] at hf
    rcases hf with rfl | rfl | rfl | rfl
    · show (2 : ZMod 19757330305831588566944191468367130476339) ^ ((19757330305831588566944191468367130476339 - 1) / 2) ≠ 1
      reduce_mod_char
      decide
    · show (2 : ZMod 19757330305831588566944191468367130476339) ^ ((19757330305831588566944191468367130476339 - 1) / 269) ≠ 1
      reduce_mod_char
      decide
    · show (2 : ZMod 19757330305831588566944191468367130476339) ^ ((19757330305831588566944191468367130476339 - 1) / 213441916511) ≠ 1
      reduce_mod_char
      decide
    · show (2 : ZMod 19757330305831588566944191468367130476339) ^ ((19757330305831588566944191468367130476339 - 1) / 172054593956031949258510691) ≠ 1
      reduce_mod_char
      decide

theorem prime_276602624281642239937218680557139826668747 : Nat.Prime 276602624281642239937218680557139826668747 := by
  apply lucas_primality 276602624281642239937218680557139826668747 (2 : ZMod 276602624281642239937218680557139826668747)
  · reduce_mod_char
  · intro q hq hd
    have hfac : (276602624281642239937218680557139826668747 - 1 : ℕ) = (([(2, 1), (7, 1), (19757330305831588566944191468367130476339, 1)] : List (ℕ × ℕ)).map (fun f => f.1 ^ f.2)).prod := by norm_num
    rw [hfac] at hd
    have hpr : ∀ f ∈ ([(2, 1), (7, 1), (19757330305831588566944191468367130476339, 1)] : List (ℕ × ℕ)), (f.1).Prime := by
      intro f hf
      simp only [List.mem_cons, List.not_mem_nil, or_false] at hf
      rcases hf with rfl | rfl | rfl
      · norm_num
      · norm_num
      · exact prime_19757330305831588566944191468367130476339
    obtain ⟨f, hf, rfl⟩ := prime_factor_cases q hq _ hpr hd
    simp only [List.mem_cons, List.not_mem_nil, or_false] at hf
    rcases hf with rfl | rfl | rfl
    · show (2 : ZMod 276602624281642239937218680557139826668747) ^ ((276602624281642239937218680557139826668747 - 1) / 2) ≠ 1
      reduce_mod_char
      decide
    · show (2 : ZMod 276602624281642239937218680557139826668747) ^ ((276602624281642239937218680557139826668747 - 1) / 7) ≠ 1
      reduce_mod_char
      decide
    · show (2 : ZMod 276602624281642239937218680557139826668747) ^ ((276602624281642239937218680557139826668747 - 1) / 19757330305831588566944191468367130476339) ≠ 1
      reduce_mod_char
      decide

theorem prime_74058212732561358302231226437062788676166966415465897661863160754340907 : Nat.Prime 74058212732561358302231226437062788676166966415465897661863160754340907 := by
  apply lucas_primality 74058212732561358302231226437062788676166966415465897661863160754340907 (2 : ZMod 74058212732561358302231226437062788676166966415465897661863160754340907)
  · reduce_mod_char
  · intro q hq hd
    have hfac : (74058212732561358302231226437062788676166966415465897661863160754340907 - 1 : ℕ) = (([(2, 1), (3, 1), (353, 1), (57467, 1), (132049, 1), (1923133, 1), (31757755568855353, 1), (75445702479781427272750846543864801, 1)] : List (ℕ × ℕ)).map (fun f => f.1 ^ f.2)).prod := by norm_num
    rw [hfac] at hd
    have hpr : ∀ f ∈ ([(2, 1), (3, 1), (353, 1), (57467, 1), (132049, 1), (1923133, 1), (31757755568855353, 1), (75445702479781427272750846543864801, 1)] : List (ℕ × ℕ)), (f.1).Prime := by
      intro f hf
      simp only [List.mem_cons, List.not_mem_nil, or_false] at hf
      rcases hf with rfl | rfl | rfl | rfl | rfl | rfl | rfl | rfl
      · norm_num
      · norm_num
      · norm_num
      · norm_num
      · exact prime_132049
      · exact prime_1923133
      · exact prime_31757755568855353
      · exact prime_75445702479781427272750846543864801
    obtain ⟨f, hf, rfl⟩ := prime_factor_cases q hq _ hpr hd
    simp only [List.mem_cons, List.not_mem_nil, or_false] at hf
    rcases hf with rfl | rfl | rfl | rfl | rfl | rfl | rfl | rfl
    · show (2 : ZMod 74058212732561358302231226437062788676166966415465897661863160754340907) ^ ((74058212732561358302231226437062788676166966415465897661863160754340907 - 1) / 2) ≠ 1
      reduce_mod_char
      decide
    · show (2 : ZMod 74058212732561358302231226437062788676166966415465897661863160754340907) ^ ((74058212732561358302231226437062788676166966415465897661863160754340907 - 1) / 3) ≠ 1
      reduce_mod_char
      decide
    · show (2 : ZMod 74058212732561358302231226437062788676166966415465897661863160754340907) ^ ((74058212732561358302231226437062788676166966415465897661863160754340907 - 1) / 353) ≠ 1
      reduce_mod_char
      decide
    · show (2 : ZMod 74058212732561358302231226437062788676166966415465897661863160754340907) ^ ((74058212732561358302231226437062788676166966415465897661863160754340907 - 1) / 57467) ≠ 1
      reduce_mod_char
      decide
    · show (2 : ZMod 74058212732561358302231226437062788676166966415465897661863160754340907) ^ ((74058212732561358302231226437062788676166966415465897661863160754340907 - 1) / 132049) ≠ 1
      reduce_mod_char
      decide
    · show (2 : ZMod 74058212732561358302231226437062788676166966415465897661863160754340907) ^ ((74058212732561358302231226437062788676166966415465897661863160754340907 - 1) / 1923133) ≠ 1
      reduce_mod_char
      decide
    · show (2 : ZMod 74058212732561358302231226437062788676166966415465897661863160754340907) ^ ((74058212732561358302231226437062788676166966415465897661863160754340907 - 1) / 31757755568855353) ≠ 1
      reduce_mod_char
      decide
    · show (2 : ZMod 74058212732561358302231226437062788676166966415465897661863160754340907) ^ ((74058212732561358302231226437062788676166966415465897661863160754340907 - 1) / 75445702479781427272750846543864801) ≠ 1
      reduce_mod_char
      decide

theorem prime_7237005577332262213973186563042994240857116359379907606001950938285454250989 : Nat.Prime 7237005577332262213973186563042994240857116359379907606001950938285454250989 := by
  apply lucas_primality 7237005577332262213973186563042994240857116359379907606001950938285454250989 (2 : ZMod 7237005577332262213973186563042994240857116359379907606001950938285454250989)
  · reduce_mod_char
  · intro q hq hd
    have hfac : (7237005577332262213973186563042994240857116359379907606001950938285454250989 - 1 : ℕ) = (([(2, 2), (3, 1), (11, 1), (198211423230930754013084525763697, 1), (276602624281642239937218680557139826668747, 1)] : List (ℕ × ℕ)).map (fun f => f.1 ^ f.2)).prod := by norm_num
    rw [hfac] at hd
    have hpr : ∀ f ∈ ([(2, 2), (3, 1), (11, 1), (198211423230930754013084525763697, 1), (276602624281642239937218680557139826668747, 1)] : List (ℕ × ℕ)), (f.1).Prime := by
      intro f hf
      simp only [List.mem_cons, List.not_mem_nil, or_false] at hf
      rcases hf with rfl | rfl | rfl | rfl | rfl
      · norm_num
      · norm_num
      · norm_num
      · exact prime_198211423230930754013084525763697
      · exact prime_276602624281642239937218680557139826668747
    obtain ⟨f, hf, rfl⟩ := prime_factor_cases q hq _ hpr hd
    simp only [List.mem_cons, List.not_mem_nil, or_false] at hf
    rcases hf with rfl | rfl | rfl | rfl | rfl
    · show (2 : ZMod 7237005577332262213973186563042994240857116359379907606001950938285454250989) ^ ((7237005577332262213973186563042994240857116359379907606001950938285454250989 - 1) / 2) ≠ 1
      reduce_mod_char
      decide
    · show (2 : ZMod 7237005577332262213973186563042994240857116359379907606001950938285454250989) ^ ((7237005577332262213973186563042994240857116359379907606001950938285454250989 - 1) / 3) ≠ 1
      reduce_mod_char
      decide
    · show (2 : ZMod 7237005577332262213973186563042994240857116359379907606001950938285454250989) ^ ((7237005577332262213973186563042994240857116359379907606001950938285454250989 - 1) / 11) ≠ 1
      reduce_mod_char
      decide
    · show (2 : ZMod 7237005577332262213973186563042994240857116359379907606001950938285454250989) ^ ((7237005577332262213973186563042994240857116359379907606001950938285454250989 - 1) / 198211423230930754013084525763697) ≠ 1
      reduce_mod_char
      decide
    · show (2 : ZMod 7237005577332262213973186563042994240857116359379907606001950938285454250989) ^ ((7237005577332262213973186563042994240857116359379907606001950938285454250989 - 1) / 276602624281642239937218680557139826668747) ≠ 1
      reduce_mod_char
      decide

theorem prime_57896044618658097711785492504343953926634992332820282019728792003956564819949 : Nat.Prime 57896044618658097711785492504343953926634992332820282019728792003956564819949 := by
  apply lucas_primality 57896044618658097711785492504343953926634992332820282019728792003956564819949 (2 : ZMod 57896044618658097711785492504343953926634992332820282019728792003956564819949)
  · reduce_mod_char
  · intro q hq hd
    have hfac : (57896044618658097711785492504343953926634992332820282019728792003956564819949 - 1 : ℕ) = (([(2, 2), (3, 1), (65147, 1), (74058212732561358302231226437062788676166966415465897661863160754340907, 1)] : List (ℕ × ℕ)).map (fun f => f.1 ^ f.2)).prod := by norm_num
    rw [hfac] at hd
    have hpr : ∀ f ∈ ([(2, 2), (3, 1), (65147, 1), (74058212732561358302231226437062788676166966415465897661863160754340907, 1)] : List (ℕ × ℕ)), (f.1).Prime := by
      intro f hf
      simp only [List.mem_cons, List.not_mem_nil, or_false] at hf
      rcases hf with rfl | rfl | rfl | rfl
      · norm_num
      · norm_num
      · norm_num
      · exact prime_74058212732561358302231226437062788676166966415465897661863160754340907
    obtain ⟨f, hf, rfl⟩ := prime_factor_cases q hq _ hpr hd
    simp only [List.mem_cons, List.not_mem_nil, or_false] at hf
    rcases hf with rfl | rfl | rfl | rfl
    · show (2 : ZMod 57896044618658097711785492504343953926634992332820282019728792003956564819949) ^ ((57896044618658097711785492504343953926634992332820282019728792003956564819949 - 1) / 2) ≠ 1
      reduce_mod_char
      decide
    · show (2 : ZMod 57896044618658097711785492504343953926634992332820282019728792003956564819949) ^ ((57896044618658097711785492504343953926634992332820282019728792003956564819949 - 1) / 3) ≠ 1
      reduce_mod_char
      decide
    · show (2 : ZMod 57896044618658097711785492504343953926634992332820282019728792003956564819949) ^ ((57896044618658097711785492504343953926634992332820282019728792003956564819949 - 1) / 65147) ≠ 1
      reduce_mod_char
      decide
    · show (2 : ZMod 57896044618658097711785492504343953926634992332820282019728792003956564819949) ^ ((57896044618658097711785492504343953926634992332820282019728792003956564819949 - 1) / 74058212732561358302231226437062788676166966415465897661863160754340907) ≠ 1
      reduce_mod_char
      decide

end Pratt
#print axioms Pratt.prime_57896044618658097711785492504343953926634992332820282019728792003956564819949
#print axioms Pratt.prime_7237005577332262213973186563042994240857116359379907606001950938285454250989
