namespace Ed
def p : Nat := 2^255 - 19
def l : Nat := 2^252 + 27742317777372353535851937790883648493
def d : Nat := 37095705934669439343138083508754565189542113879843219016388785533085940283555
def sqrtm1 : Nat := 19681161376707505956807079304988542015446066515923890162744021073123829784752

def powmod (b e m : Nat) : Nat := Id.run do
  let mut r := 1
  let mut b := b % m
  let mut e := e
  while e > 0 do
    if e % 2 == 1 then r := r * b % m
    b := b * b % m
    e := e / 2
  return r
def inv (x : Nat) : Nat := powmod x (p - 2) p

structure Pt where (x y z t : Nat) deriving Repr

def zero : Pt := ⟨0, 1, 1, 0⟩
instance : Inhabited Pt := ⟨zero⟩
def add (a b : Pt) : Pt :=
  let A := (a.y + p - a.x) * (b.y + p - b.x) % p
  let B := (a.y + a.x) * (b.y + b.x) % p
  let C := a.t * 2 * d % p * b.t % p
  let D := a.z * 2 * b.z % p
  let E := (B + p - A) % p
  let F := (D + p - C) % p
  let G := (D + C) % p
  let H := (B + A) % p
  ⟨E * F % p, G * H % p, F * G % p, E * H % p⟩
def smul (k : Nat) (P : Pt) : Pt := Id.run do
  let mut r := zero
  let mut q := P
  let mut k := k
  while k > 0 do
    if k % 2 == 1 then r := add r q
    q := add q q
    k := k / 2
  return r
def compress (P : Pt) : Nat :=
  let zi := inv P.z
  let x := P.x * zi % p
  let y := P.y * zi % p
  y + (x % 2) * 2^255
def decompress (k : Nat) : Option Pt :=
  let y := k % 2^255
  let sign := k / 2^255
  if y ≥ p then none else
  let u := (y * y + p - 1) % p
  let v := (d * y % p * y + 1) % p
  let x2 := u * inv v % p
  let x := powmod x2 ((p + 3) / 8) p
  let x := if (x * x + p - x2) % p != 0 then x * sqrtm1 % p else x
  if (x * x + p - x2) % p != 0 then none else
  if x == 0 && sign == 1 then none else
  let x := if x % 2 != sign then p - x else x
  some ⟨x, y, 1, x * y % p⟩
def Gy : Nat := 46316835694926478169428394003475163141307993866256225615783033603165251855960
def G : Pt := (decompress Gy).get!
def toBytesLE (n : Nat) (len : Nat) : List UInt8 := (List.range len).map fun i => UInt8.ofNat ((n / 256^i) % 256)
end Ed
