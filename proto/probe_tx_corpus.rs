#![allow(non_snake_case, unused)]
use monero::*;
use monero::blockdata::transaction::*;
use monero::consensus::encode::{serialize, deserialize, deserialize_partial, VarInt};
use monero::cryptonote::hash::Hashable;
use monero::util::ringct::*;
use std::panic::catch_unwind;

struct Rng(u64);
impl Rng { fn next(&mut self) -> u64 { self.0 = self.0.wrapping_add(0x9E3779B97F4A7C15); let mut z = self.0; z = (z ^ (z >> 30)).wrapping_mul(0xBF58476D1CE4E5B9); z = (z ^ (z >> 27)).wrapping_mul(0x94D049BB133111EB); z ^ (z >> 31) }
  fn below(&mut self, n:u64)->u64{ self.next()%n }
  fn bytes32(&mut self) -> [u8;32] { let mut b=[0u8;32]; for i in 0..4 { b[i*8..i*8+8].copy_from_slice(&self.next().to_le_bytes()); } b }
  fn key(&mut self)->Key{Key::from(self.bytes32())}
  fn keys(&mut self,n:usize)->Vec<Key>{(0..n).map(|_|self.key()).collect()}
  fn vi(&mut self)->VarInt{ let w=self.below(11); VarInt(if w==0 {0} else if w==10 {u64::MAX - self.below(3)} else { let lo=1u64<<(7*(w-1)).min(63); lo + self.below(3) - if self.below(2)==0 {1} else {0} }) } }

fn gen_tx(r:&mut Rng)->Transaction{
    let version = if r.below(4)==0 {1} else {2};
    let nin = r.below(4) as usize + if r.below(8)==0 {0} else {1};
    let ring = r.below(5) as usize + 1;
    let nout = r.below(4) as usize;
    let coinbase = r.below(5)==0;
    let inputs:Vec<TxIn> = (0..nin).map(|i| if coinbase && i==0 { TxIn::Gen{height:r.vi()} } else { TxIn::ToKey{amount:r.vi(), key_offsets:(0..ring).map(|_|r.vi()).collect(), k_image:KeyImage{image:Hash(r.bytes32())}} }).collect();
    let outputs:Vec<TxOut> = (0..nout).map(|_| TxOut{amount:r.vi(), target: if r.below(2)==0 {TxOutTarget::ToKey{key:r.bytes32()}} else {TxOutTarget::ToTaggedKey{key:r.bytes32(),view_tag:r.next() as u8}}}).collect();
    let extra = RawExtraField((0..r.below(40)).map(|_| r.next() as u8).collect());
    let prefix=TransactionPrefix{version:VarInt(version),unlock_time:r.vi(),inputs,outputs,extra};
    if version==1 {
        let signatures = prefix.inputs.iter().filter_map(|i| match i { TxIn::ToKey{key_offsets,..}=>Some((0..key_offsets.len()).map(|_|Signature{c:r.key(),r:r.key()}).collect()), _=>None}).collect();
        return Transaction{prefix,signatures,rct_signatures:RctSig{sig:None,p:None}};
    }
    if nin==0 { return Transaction{prefix,signatures:vec![],rct_signatures:RctSig{sig:None,p:None}}; }
    let t = [RctType::Null,RctType::Full,RctType::Simple,RctType::Bulletproof,RctType::Bulletproof2,RctType::Clsag,RctType::BulletproofPlus][r.below(7) as usize];
    if t==RctType::Null { return Transaction{prefix,signatures:vec![],rct_signatures:RctSig{sig:Some(RctSigBase{rct_type:t,txn_fee:Default::default(),pseudo_outs:vec![],ecdh_info:vec![],out_pk:vec![]}),p:None}}; }
    let mixin = match &prefix.inputs[0] { TxIn::ToKey{key_offsets,..}=>key_offsets.len()-1, _=>0 };
    let compact = matches!(t, RctType::Bulletproof2|RctType::Clsag|RctType::BulletproofPlus);
    let base=RctSigBase{rct_type:t,txn_fee:Amount::from_pico(r.vi().0),pseudo_outs: if t==RctType::Simple {r.keys(nin)} else {vec![]},
        ecdh_info:(0..nout).map(|_| if compact {EcdhInfo::Bulletproof{amount:monero::cryptonote::hash::Hash8(r.next().to_le_bytes())}} else {EcdhInfo::Standard{mask:r.key(),amount:r.key()}}).collect(),
        out_pk:(0..nout).map(|_|CtKey{mask:r.key()}).collect()};
    let nbp=r.below(3) as usize;
    let mut p=RctSigPrunable{range_sigs:vec![],bulletproofs:vec![],bulletproofplus:vec![],MGs:vec![],Clsags:vec![],pseudo_outs:vec![]};
    match t { RctType::Full|RctType::Simple => { p.range_sigs=(0..nout).map(|_| RangeSig{asig:BoroSig{s0:Key64::from([r.key();64]),s1:Key64::from([r.key();64]),ee:r.key()},Ci:Key64::from([r.key();64])}).collect(); }
      RctType::BulletproofPlus => { p.bulletproofplus=(0..nbp).map(|_| { let n=r.below(4) as usize; BulletproofPlus{A:r.key(),A1:r.key(),B:r.key(),r1:r.key(),s1:r.key(),d1:r.key(),L:r.keys(n),R:r.keys(n)}}).collect(); }
      _ => { p.bulletproofs=(0..nbp).map(|_| { let n=r.below(4) as usize; Bulletproof{A:r.key(),S:r.key(),T1:r.key(),T2:r.key(),taux:r.key(),mu:r.key(),L:r.keys(n),R:r.keys(n),a:r.key(),b:r.key(),t:r.key()}}).collect(); } }
    match t { RctType::Clsag|RctType::BulletproofPlus => { p.Clsags=(0..nin).map(|_|Clsag{s:r.keys(mixin+1),c1:r.key(),D:r.key()}).collect(); }
      RctType::Full => { p.MGs=vec![MgSig{ss:(0..=mixin).map(|_|r.keys(nin+1)).collect(),cc:r.key()}]; }
      _ => { p.MGs=(0..nin).map(|_|MgSig{ss:(0..=mixin).map(|_|r.keys(2)).collect(),cc:r.key()}).collect(); } }
    if matches!(t, RctType::Bulletproof|RctType::Bulletproof2|RctType::Clsag|RctType::BulletproofPlus) { p.pseudo_outs=r.keys(nin); }
    Transaction{prefix,signatures:vec![],rct_signatures:RctSig{sig:Some(base),p:Some(p)}}
}

fn main(){
    use std::io::Write;
    std::panic::set_hook(Box::new(|_|{}));
    let mut r=Rng(11);
    let mut ops=std::io::BufWriter::new(std::fs::File::create("/tmp/scratch/tx_ops.txt").unwrap());
    let mut res=std::io::BufWriter::new(std::fs::File::create("/tmp/scratch/tx_impl.txt").unwrap());
    let mut emit=|bb:&[u8]| { writeln!(ops,"{}", if bb.is_empty() {"-".to_string()} else {hex(bb)}).unwrap();
        match deserialize_partial::<Transaction>(bb) { Ok((t,n)) => writeln!(res,"ok {} {}", n, hex(&serialize(&t))).unwrap(), Err(_)=> writeln!(res,"err").unwrap() } };
    for it in 0..2500 {
        let tx=gen_tx(&mut r); let b=serialize(&tx); emit(&b);
        for m in 0..24 { let mut bb=b.clone();
            match m%6 { 0=>{ let i=r.below(bb.len() as u64) as usize; bb[i]=r.next() as u8; } 1=>{ let i=r.below(bb.len() as u64) as usize; bb.truncate(i); } 2=>{ let i=r.below(bb.len().min(12) as u64) as usize; bb[i]^=1<<r.below(8); }
              3=>{ let i=r.below(bb.len() as u64) as usize; bb.insert(i, [0x80,0xff,0x00,0x01][r.below(4) as usize]); }
              4=>{ let i=r.below(bb.len().min(40) as u64) as usize; bb[i]=[0,1,2,3,4,5,6,7,0xff,0x80,0x7f][r.below(11) as usize]; }
              _=>{ bb.extend([1,2,3]); } }
            emit(&bb); }
    }
    // adversarial declared lengths
    for cnt in [1u64<<19, (1<<19)+1, 1<<25, 1<<32, u64::MAX] { let mut b=vec![2u8,0]; let mut n=cnt; loop { let x=(n&0x7f) as u8; n>>=7; if n==0 {b.push(x);break} else {b.push(x|0x80)} } b.extend([0xff,1]); emit(&b); }
}
fn hex(b:&[u8])->String{ b.iter().map(|x|format!("{:02x}",x)).collect() }
