import Mathlib.Data.ZMod.Basic
import Mathlib.Algebra.Module.Basic
import Mathlib.Tactic.Ring
import Mathlib.Tactic.NormNum

def l : ℕ := 2^252 + 27742317777372353535851937790883648493

theorem smul_mod_of_torsion {G : Type} [AddCommGroup G] (B : G) (hB : l • B = 0) (k : ℕ) :
    (k % l) • B = k • B := by
  conv_rhs => rw [← Nat.div_add_mod k l]
  rw [add_smul, mul_comm, mul_smul, hB, smul_zero, zero_add]

theorem derive_comm {G : Type} [AddCommGroup G] (r v : ℕ) (B : G) :
    8 • (r • (v • B)) = 8 • (v • (r • B)) := by
  rw [smul_comm r v]

-- concrete counterexample in Z/(8l): B = l (order 8), a = l-1
example : ((8 * (l - 1)) % l * l) % (8 * l) ≠ (8 * ((l - 1) * l)) % (8 * l) := by
  unfold l; norm_num
#print axioms smul_mod_of_torsion
