import Feas.TxModel
import Feas.Ed
/-! Prototype model of SubField decode/encode and ExtraField::try_parse (transaction.rs:318-341, 820-919) -/
namespace Extra
open TxModel

inductive SubField
  | txPub (k : Bytes) | nonce (n : Bytes) | padding (n : Nat) | mergeMining (depth : Nat) (root : Bytes)
  | addKeys (ks : List Bytes) | minerGate (d : Bytes)

/-- a read that tracks the cursor even on failure: result, remaining -/
abbrev Rd (α : Type) := Bytes → (Option α × Bytes)

def leNat (b : Bytes) : Nat := b.foldr (fun x acc => x.toNat + 256 * acc) 0
def validPoint (k : Bytes) : Bool :=
  let kk := leNat k
  match Ed.decompress kk with | none => false | some P => Ed.compress P == kk

/-- VarInt with cursor tracking: EOF consumes everything; the zero-byte rule consumes the zero;
    overflow is detected after the terminator has been read -/
def varintRd (b : Bytes) : Option Nat × Bytes :=
  let rec go : Bytes → List Nat → Option (List Nat) × Bytes
    | [], _ => (none, [])
    | x :: xs, acc =>
      if x.toNat = 0 ∧ acc ≠ [] then (none, xs)
      else if x.toNat < 128 then (some (acc ++ [x.toNat % 128]), xs)
      else go xs (acc ++ [x.toNat % 128])
  match go b [] with
  | (none, r) => (none, r)
  | (some gs, r) => (accum gs.reverse 0, r)

def takeRd (n : Nat) (b : Bytes) : Option Bytes × Bytes :=
  if b.length < n then (none, []) else (some (b.take n), b.drop n)

def vecU8Rd (b : Bytes) : Option Bytes × Bytes :=
  match varintRd b with
  | (none, r) => (none, r)
  | (some n, r) => if n > CAP then (none, r) else takeRd n r

def keysRd : Nat → Bytes → Option (List Bytes) × Bytes
  | 0, b => (some [], b)
  | n+1, b => match takeRd 32 b with
    | (none, r) => (none, r)
    | (some k, r) => if !validPoint k then (none, r) else
      match keysRd n r with
      | (none, r') => (none, r')
      | (some ks, r') => (some (k :: ks), r')

def padRd : Nat → Nat → Bytes → Option SubField × Bytes
  | 0, i, b => (some (.padding i), b)
  | _+1, i, [] => (some (.padding i), [])
  | f+1, i, x :: xs => if x ≠ 0 then (none, xs) else padRd f (i+1) xs

def subFieldRd (b : Bytes) : Option SubField × Bytes :=
  match b with
  | [] => (none, [])
  | tag :: r =>
    if tag = 0 then padRd 255 0 r
    else if tag = 1 then match takeRd 32 r with
      | (none, r') => (none, r')
      | (some k, r') => if validPoint k then (some (.txPub k), r') else (none, r')
    else if tag = 2 then match vecU8Rd r with | (none, r') => (none, r') | (some n, r') => (some (.nonce n), r')
    else if tag = 3 then match r with
      | [] => (none, [])
      | _ :: r1 => match varintRd r1 with
        | (none, r2) => (none, r2)
        | (some d, r2) => match takeRd 32 r2 with
          | (none, r3) => (none, r3)
          | (some h, r3) => (some (.mergeMining d h), r3)
    else if tag = 4 then match varintRd r with
      | (none, r') => (none, r')
      | (some n, r') => if n * 32 > CAP then (none, r') else
        match keysRd n r' with | (none, r2) => (none, r2) | (some ks, r2) => (some (.addKeys ks), r2)
    else if tag = 0xde then match vecU8Rd r with | (none, r') => (none, r') | (some n, r') => (some (.minerGate n), r')
    else (none, r)

/-- try_parse: loop while bytes remain; fuel = length (each iteration consumes ≥ 1 byte) -/
def tryParse : Nat → Bytes → List SubField → Bool → (Bool × List SubField)
  | 0, _, acc, err => (err, acc.reverse)
  | _, [], acc, err => (err, acc.reverse)
  | f+1, b, acc, err => match subFieldRd b with
    | (some sf, r) => tryParse f r (sf :: acc) err
    | (none, r) => tryParse f r acc true

def encSub : SubField → Bytes
  | .padding n => 0 :: List.replicate n 0
  | .txPub k => 1 :: k
  | .nonce n => 2 :: encVarint n.length ++ n
  | .mergeMining d h => 3 :: UInt8.ofNat (32 + (encVarint d).length) :: encVarint d ++ h
  | .addKeys ks => 4 :: encVarint ks.length ++ ks.flatten
  | .minerGate d => 0xde :: encVarint d.length ++ d
end Extra
