#!/usr/bin/env python3
"""Orchestrator for the Lean-4 proof + correspondence checks of monero-rs (see DESIGN.md §3).

  python3 check.py Cxx [--tier quick|thorough] [--replay FILE]
  python3 check.py --setup            build everything once (Gen, Lean project, driver, harness)
  python3 check.py --manifest         rewrite MANIFEST.json from the registry in props.py

A run decides one property:
  A  theorems of MoneroModel/Props/Cxx.lean re-checked against the regenerated Gen files (+ axiom audit)
  B  correspondence: real library vs executable Lean model on the same operation lines
  C  oracle: real library vs Lean spec / reference and vs intrinsic equalities
Exit 0 = held on everything explored; exit 1 + "VIOLATION property=Cxx replay=<path>" otherwise.
"""
import fcntl, hashlib, json, os, re, subprocess, sys, time

ROOT = os.path.dirname(os.path.abspath(__file__))
LEAN = os.path.join(ROOT, "lean")
HARN = os.path.join(ROOT, "harness")
WORK = os.path.join(ROOT, "work")
sys.path.insert(0, ROOT)
import props as REG  # registry of properties

ENV = dict(os.environ, CARGO_NET_OFFLINE="true")
ALLOWED_AXIOMS = {"propext", "Classical.choice", "Quot.sound"}
FORBIDDEN = re.compile(r"\bsorry\b|\badmit\b|^axiom |native_decide|bv_decide|implemented_by|\bunsafe |maxHeartbeats 0", re.M)


def sh(cmd, cwd=None, timeout=None, stdin=None, stdout=None):
    t = time.time()
    p = subprocess.run(cmd, cwd=cwd, env=ENV, stdin=stdin, stdout=stdout or subprocess.PIPE, stderr=subprocess.STDOUT,
                       text=True, timeout=timeout)
    return p.returncode, (p.stdout or ""), time.time() - t


class Lock:
    def __enter__(self):
        os.makedirs(WORK, exist_ok=True)
        self.f = open(os.path.join(WORK, ".build.lock"), "w")
        fcntl.flock(self.f, fcntl.LOCK_EX)
    def __exit__(self, *a):
        fcntl.flock(self.f, fcntl.LOCK_UN); self.f.close()


def strip_comments(src):
    src = re.sub(r"/-.*?-/", "", src, flags=re.S)
    return re.sub(r"--.*", "", src)


def build_harness():
    rc, out, dt = sh(["cargo", "build", "--offline", "--quiet"], cwd=HARN, timeout=1800)
    errs = [l for l in out.splitlines() if l.startswith("error")]
    return rc == 0, ("\n".join(errs) or out[-2000:]) if rc else "", dt


EXTRACT_NOTES = []


def extract():
    """Translator: regenerate MoneroModel/Gen/*.lean from /repo's current source. Returns (ok, failures, log)."""
    gen_tmp = os.path.join(WORK, "gen")
    os.makedirs(gen_tmp, exist_ok=True)
    rc, out, dt = sh([os.path.join(HARN, "target/debug/harness"), "extract", gen_tmp, os.path.join(LEAN, "GenReviewed")], timeout=300)
    fails = [l for l in out.splitlines() if l.startswith("EXTRACT-FAIL")]
    global EXTRACT_NOTES
    EXTRACT_NOTES = [l for l in out.splitlines() if l.startswith("EXTRACT-NOTE")]
    if rc != 0:
        fails.append("EXTRACT-FAIL extractor exited with %d: %s" % (rc, out[-500:]))
        return False, fails, out
    for fn in sorted(os.listdir(gen_tmp)):
        if not fn.endswith(".lean"): continue
        new = open(os.path.join(gen_tmp, fn)).read()
        dst = os.path.join(LEAN, "MoneroModel", "Gen", fn)
        old = open(dst).read() if os.path.exists(dst) else None
        if old != new:
            open(dst, "w").write(new)
    return True, fails, out


def theorem_names(prop):
    src = strip_comments(open(os.path.join(LEAN, "MoneroModel", "Props", prop + ".lean")).read())
    return [prop + "." + m for m in re.findall(r"^theorem\s+([A-Za-z0-9_'.]+)", src, re.M) if m.startswith(prop + "_")]


def lean_sources(prop):
    """all project sources the property's theorem module can depend on (everything but other Props files)"""
    out = []
    for d, _, fs in os.walk(os.path.join(LEAN, "MoneroModel")):
        for f in fs:
            if f.endswith(".lean") and not (os.path.basename(d) == "Props" and f != prop + ".lean"):
                out.append(os.path.join(d, f))
    return out


def first_errors(out, n=6):
    lines = out.splitlines()
    res = []
    for i, l in enumerate(lines):
        if l.startswith("error:"):
            res.append("\n".join(lines[i:i + 8]))
            if len(res) >= n: break
    return res


def enclosing_theorems(prop, out):
    """map `error: file:line` to the theorem that contains the line"""
    names = set()
    for m in re.finditer(r"error: (\S+\.lean):(\d+):", out):
        path = os.path.join(LEAN, m.group(1))
        try: src = open(path).read().splitlines()
        except OSError: continue
        ln = int(m.group(2))
        for i in range(min(ln, len(src)) - 1, -1, -1):
            mm = re.match(r"\s*(?:private\s+)?(?:theorem|lemma|def|example|instance)\s+([^\s:(\[{]+)?", src[i])
            if mm:
                names.add("%s (%s:%d)" % (mm.group(1) or "example", m.group(1), i + 1)); break
    return sorted(names)


def prove(prop, tier):
    """Relation A. Returns dict(ok, obligations, discharged, axioms, problems[])."""
    res = dict(ok=True, obligations=0, discharged=0, axioms={}, problems=[], wall=0.0, failing=[])
    t0 = time.time()
    thms = theorem_names(prop)
    res["obligations"] = len(thms)
    res["theorems"] = thms
    # source scan
    for path in lean_sources(prop):
        body = strip_comments(open(path).read())
        m = FORBIDDEN.search(body)
        if m:
            res["ok"] = False
            res["problems"].append("forbidden construct %r in %s" % (m.group(0), os.path.relpath(path, LEAN)))
    targets = ["MoneroModel.Props." + prop, "drv"]
    rc, out, dt = sh(["lake", "build"] + targets, cwd=LEAN, timeout=3600)
    res["build_log_tail"] = out[-1500:]
    if rc != 0:
        res["ok"] = False
        res["problems"].append("lake build failed")
        res["failing"] = enclosing_theorems(prop, out)
        res["errors"] = first_errors(out)
        res["wall"] = time.time() - t0
        # the driver may still exist from an earlier build; try to build it alone so that B and C can run
        rc2, out2, _ = sh(["lake", "build", "drv"], cwd=LEAN, timeout=3600)
        res["driver_ok"] = rc2 == 0
        return res
    res["driver_ok"] = True
    # axiom audit
    os.makedirs(os.path.join(WORK, prop), exist_ok=True)
    audit = os.path.join(WORK, prop, "Audit.lean")
    with open(audit, "w") as f:
        f.write("import MoneroModel.Props.%s\n" % prop)
        for t in thms: f.write("#print axioms %s\n" % t)
    rc, out, dt = sh(["lake", "env", "lean", audit], cwd=LEAN, timeout=1200)
    seen = {}
    for m in re.finditer(r"'([^']+)' (?:depends on axioms: \[([^\]]*)\]|does not depend on any axioms)", out.replace("\n ", " ").replace("\n", " ")):
        seen[m.group(1)] = [a.strip() for a in (m.group(2) or "").split(",") if a.strip()]
    for t in thms:
        if t not in seen:
            res["ok"] = False; res["problems"].append("no axiom report for " + t); res["failing"].append(t)
        elif set(seen[t]) - ALLOWED_AXIOMS:
            res["ok"] = False; res["problems"].append("%s uses axioms %s" % (t, sorted(set(seen[t]) - ALLOWED_AXIOMS))); res["failing"].append(t)
        else:
            res["discharged"] += 1
    res["axioms"] = sorted({a for v in seen.values() for a in v})
    if tier == "thorough" and res["ok"]:
        rc, out, dt = sh(["lake", "env", "leanchecker", "MoneroModel.Props." + prop], cwd=LEAN, timeout=3600)
        res["leanchecker"] = "ok" if rc == 0 else out[-800:]
        if rc != 0:
            res["ok"] = False; res["problems"].append("leanchecker rejected the module")
    res["wall"] = time.time() - t0
    return res


def run_driver(opsfile, outfile):
    with open(opsfile) as fi, open(outfile, "w") as fo:
        p = subprocess.run([os.path.join(LEAN, ".lake/build/bin/drv")], stdin=fi, stdout=fo, stderr=subprocess.PIPE, text=True, env=ENV)
    return p.returncode, p.stderr


def compare(wd):
    try: keys = json.load(open(os.path.join(wd, "meta.json"))).get("keys", {})
    except (OSError, ValueError): keys = {}
    ops = open(os.path.join(wd, "ops.txt")).read().splitlines()
    imp = open(os.path.join(wd, "impl.txt")).read().splitlines()
    mod = open(os.path.join(wd, "model.txt")).read().splitlines()
    b_mis, c_mis, n_model, n_spec = [], [], 0, 0
    if not (len(ops) == len(imp) == len(mod)):
        b_mis.append(dict(op="<line count>", impl=str(len(imp)), model=str(len(mod)), note="driver produced %d lines for %d ops" % (len(mod), len(ops))))
    for i, (o, a, m) in enumerate(zip(ops, imp, mod)):
        ms = m.split("\t")
        mm, ss = ms[0], (ms[1] if len(ms) > 1 else "-")
        if mm != "-":
            n_model += 1
            if mm != a and len(b_mis) < 50: b_mis.append(dict(index=i, op=o, impl=a, model=mm))
        if ss != "-":
            n_spec += 1
            if ss != a and len(c_mis) < 50: c_mis.append(dict(index=i, what="impl vs spec: " + o.split(" ")[0], input=o, impl=a, expected=ss, key=keys.get(str(i), "")))
    return b_mis, c_mis, n_model, n_spec


SHARED_FILES = ["src/consensus/encode.rs", "src/cryptonote/hash.rs", "src/util/key.rs", "src/internal_macros.rs"]


def anchored_files(prop):
    """files the property is anchored in (properties.jsonl) plus the files every codec / key operation goes through"""
    for l in open(os.path.join(ROOT, "properties.jsonl")):
        if l.strip():
            d = json.loads(l)
            if d["id"] == prop:
                return sorted(set(d.get("anchors", {}).get("files", [])) | set(SHARED_FILES))
    return SHARED_FILES


def load_known():
    try: return json.load(open(os.path.join(ROOT, "known_findings.json")))
    except OSError: return {"known": [], "fixed": []}


def match_known(prop, failure, known):
    for k in known.get("known", []):
        if k["property"] != prop: continue
        if k.get("what") and k["what"] != failure.get("what"): continue
        if k.get("what_regex") and not re.search(k["what_regex"], failure.get("what", "")): continue
        if k.get("input_regex") and not re.search(k["input_regex"], failure.get("input", "")): continue
        if k.get("key_regex") and not re.search(k["key_regex"], failure.get("key", "")): continue
        return k
    return None


def write_evidence(prop, tier, seed, level, coverage, assumptions, wall, violations):
    os.makedirs(os.path.join(ROOT, "evidence"), exist_ok=True)
    ev = dict(property_id=prop, tier=tier, seed=seed, level=level, coverage=coverage, assumptions=assumptions,
              wall_s=round(wall, 2), violations=violations)
    with open(os.path.join(ROOT, "evidence", prop + ".json"), "w") as f:
        json.dump(ev, f, indent=1, sort_keys=True)


def harness_run(prop, tier, seed, wd):
    rc, out, dt = sh([os.path.join(HARN, "target/debug/harness"), "run", prop, tier, str(seed), wd], timeout=7200)
    return rc, out, dt


def check(prop, tier, seed):
    t0 = time.time()
    P = REG.PROPS[prop]
    wd = os.path.join(WORK, prop)
    os.makedirs(wd, exist_ok=True)
    os.makedirs(os.path.join(ROOT, "replays"), exist_ok=True)
    info = dict(A={}, B={}, C={})
    escalate = False
    with Lock():
        hok, herr, hdt = build_harness()
        if hok:
            eok, efails, elog = extract()
        else:
            eok, efails, elog = False, ["harness does not build against /repo: " + herr[:500]], ""
        relevant_fails = [f for f in efails if any(tag in f for tag in P.get("gen_items", [])) or "extractor exited" in f or "harness does not build" in f]
        A = prove(prop, tier)
    if relevant_fails:
        A["ok"] = False
        A["problems"] += relevant_fails
    if P.get("field_orders") and eok:
        # E3 (C03): the `impl_consensus_encoding!` field orders and declared field types of the current source must be the reviewed ones
        cur = json.load(open(os.path.join(WORK, "gen", "field_orders.json")))
        rev = json.load(open(os.path.join(ROOT, "field_orders.json")))
        ck = lambda l: {x["type"]: (x["wire_order"], x["declared_fields"]) for x in l}
        diff = sorted(t for t in set(ck(cur)) | set(ck(rev)) if ck(cur).get(t) != ck(rev).get(t))
        A["field_orders"] = dict(types=len(cur), changed=diff)
        if diff:
            A["ok"] = False
            A["problems"].append("consensus field order / field types changed for: %s (current %s)" % (", ".join(diff), "; ".join("%s=%s" % (t, ck(cur).get(t, ("<removed>",))[0]) for t in diff)))
            A.setdefault("failing", []).append("C03 field-order table (E3)")
    if P.get("panic_inventory") and eok:
        # E6 (C04): every potential panic site of the current source must be in the reviewed inventory
        import collections
        cur = json.load(open(os.path.join(WORK, "gen", "panic_sites.json")))
        rev = json.load(open(os.path.join(ROOT, "panic_inventory.json")))["sites"]
        key = lambda x: (x["file"], x["fn"], x["kind"], x["expr"])
        extra = collections.Counter(map(key, cur)) - collections.Counter(map(key, rev))
        A["panic_sites"] = dict(current=len(cur), reviewed=len(rev), unreviewed=sum(extra.values()),
                                unreviewed_sites=["%s :: %s :: %s :: %s" % k for k in list(extra)[:40]])
        # The inventory is review evidence, not a proof obligation: ordinary maintenance adds arithmetic, indexing and
        # `unwrap`s all the time, and a site being new says nothing about whether it can fire. New sites ESCALATE the search
        # (three more seeds of the same tier below); they are listed in the evidence, and only a panic / abort / timeout /
        # out-of-bound allocation that is actually observed is a violation.
        escalate = bool(extra)
    if eok:
        # E7: which items of the anchored sources changed since the reviewed snapshot (fingerprints.json)? A changed item is
        # never an alarm by itself; it ENLARGES the search of the properties anchored in that file (three more seeds).
        try:
            cur = json.load(open(os.path.join(WORK, "gen", "fingerprints.json")))
            rev = json.load(open(os.path.join(ROOT, "fingerprints.json")))
            files = set(anchored_files(prop))
            changed = sorted(k for k in set(cur) | set(rev) if cur.get(k) != rev.get(k) and k.split("::")[0] in files)
            A["source_changes"] = dict(items_fingerprinted=len(cur), changed_in_anchored_files=changed[:60], n_changed=len(changed))
            if changed: escalate = True
        except (OSError, ValueError) as e:
            A["source_changes"] = dict(error=str(e))
    A["translator_notes"] = [n for n in EXTRACT_NOTES if any(tag in n for tag in P.get("gen_defs", [])) or not P.get("gen_defs")][:20]
    info["A"] = A
    b_mis, c_fail, n_model, n_spec, meta = [], [], 0, 0, {}
    ran = False
    if hok and A.get("driver_ok"):
        rc, out, dt = harness_run(prop, tier, seed, wd)
        if rc != 0:
            b_mis.append(dict(op="<harness>", impl="exit %d" % rc, model="", note=out[-800:]))
        else:
            rc, err = run_driver(os.path.join(wd, "ops.txt"), os.path.join(wd, "model.txt"))
            if rc != 0:
                b_mis.append(dict(op="<driver>", impl="", model="exit %d" % rc, note=err[-800:]))
            meta = json.load(open(os.path.join(wd, "meta.json")))
            bm, cm, n_model, n_spec = compare(wd)
            b_mis += bm
            c_fail = list(meta.get("direct_failures", [])) + cm
            ran = True
    elif not hok:
        b_mis.append(dict(op="<harness build>", impl=herr[:800], model=""))
    # enlarged oracle search when a proof obligation or the correspondence broke and nothing concrete was found yet
    if ran and (not A["ok"] or b_mis or escalate) and not c_fail:
        # (same tier, fresh seeds: the budget stays bounded; the thorough tier is the deeper search)
        for extra_seed in (seed + 1, seed + 2, seed + 3):
            wd2 = os.path.join(WORK, prop, "search%d" % extra_seed)
            rc, out, dt = harness_run(prop, tier, extra_seed, wd2)
            if rc == 0:
                run_driver(os.path.join(wd2, "ops.txt"), os.path.join(wd2, "model.txt"))
                m2 = json.load(open(os.path.join(wd2, "meta.json")))
                bm, cm, _, _ = compare(wd2)
                c_fail = list(m2.get("direct_failures", [])) + cm
                for m in bm: m["seed"] = extra_seed
                b_mis += bm[:10]
                if c_fail: break
            else:
                b_mis.append(dict(op="<harness>", impl="exit %d (seed %d)" % (rc, extra_seed), model="", note=out[-800:]))
    known = load_known()
    new_fail, known_hit = [], {}
    for f in c_fail:
        k = match_known(prop, f, known)
        if k: known_hit.setdefault(k["id"], (k, f))
        else: new_fail.append(f)
    for kid, (k, f) in sorted(known_hit.items()):
        print("KNOWN-FINDING: property=%s %s [%s]" % (prop, k["description"], kid))
    violation, replay = False, None
    if new_fail:
        violation = True
        replay = os.path.join(ROOT, "replays", "%s-seed%d-input.json" % (prop, seed))
        json.dump(dict(property=prop, seed=seed, tier=tier, kind="failing-input", failures=new_fail[:10],
                       ops=[(f.get("input") if re.match(r"^(c\d\d_|varint_|net_|addrtype|amt_)", f.get("input") or "") else f.get("last_op")) for f in new_fail[:10]],
                       proof_status=dict(ok=A["ok"], problems=A["problems"], failing=A.get("failing", [])),
                       correspondence_mismatches=b_mis[:5]), open(replay, "w"), indent=1)
        print("VIOLATION property=%s replay=%s" % (prop, replay))
    elif not A["ok"] or b_mis:
        violation = True
        replay = os.path.join(ROOT, "replays", "%s-seed%d-unproved.json" % (prop, seed))
        json.dump(dict(property=prop, seed=seed, tier=tier, kind="no-failing-input-found",
                       broken=("theorems: " + "; ".join(A.get("failing", []) or A["problems"])) if not A["ok"] else "correspondence",
                       proof_problems=A["problems"], lean_errors=A.get("errors", []),
                       correspondence_mismatches=b_mis[:10], ops=[m.get("op") for m in b_mis[:10]]), open(replay, "w"), indent=1)
        print("VIOLATION property=%s replay=%s no-failing-input-found" % (prop, replay))
    wall = time.time() - t0
    cov = dict(
        obligations=A["obligations"], discharged=A["discharged"] if A["ok"] or A["discharged"] else 0,
        checker_cmd="cd /verif/lean && lake build MoneroModel.Props.%s && lake env lean <audit: #print axioms on every theorem>%s" % (prop, " && lake env leanchecker MoneroModel.Props." + prop if tier == "thorough" else ""),
        trusted_base=REG.TRUSTED_BASE + P.get("trusted_extra", []),
        theorems=A.get("theorems", []), axioms_seen=A.get("axioms", []), proof_problems=A["problems"],
        proof_wall_s=round(A.get("wall", 0), 2),
        evaluations=int(meta.get("evaluations", 0)), distinct_nontrivial=int(meta.get("distinct_nontrivial", 0)),
        rule=P.get("rule", "") + " " + " ".join(meta.get("notes", [])),
        samples=meta.get("samples", [])[:12] or ["<no cases ran>"],
        correspondence=dict(ops=meta.get("ops", 0), compared_with_model=n_model, compared_with_spec=n_spec,
                            model_mismatches=len(b_mis), direct_oracle_checks=meta.get("direct_checks", 0),
                            oracle_failures=len(c_fail), known_findings_reproduced=sorted(known_hit)),
        input_distribution=meta.get("stats", {}),
        extractor=dict(ok=eok, failures=efails, notes=A.get("translator_notes", [])), source_changes=A.get("source_changes"), panic_sites=A.get("panic_sites"), field_orders=A.get("field_orders"),
        exhaustive=bool(meta.get("exhaustive", False)),
        explanation=P["level_text"],
    )
    write_evidence(prop, tier, seed, P["level"], cov, P.get("assumptions", []), wall, 1 if violation else 0)
    print("%s %s: theorems %d/%d, ops %d (model %d, spec %d), direct oracle checks %d, model mismatches %d, oracle failures %d (known %d), %.1fs"
          % (prop, tier, cov["discharged"], cov["obligations"], meta.get("ops", 0), n_model, n_spec, meta.get("direct_checks", 0), len(b_mis), len(c_fail), len(c_fail) - len(new_fail), wall))
    return 1 if violation else 0


def replay(prop, path):
    r = json.load(open(path))
    ops = [o for o in r.get("ops", []) if o and not o.startswith("<")]
    print("replay of %s (%s)" % (path, r.get("kind")))
    if r.get("kind") == "no-failing-input-found":
        print("no failing input was found; what no longer checks: %s" % r.get("broken"))
        for e in r.get("lean_errors", [])[:3]: print(e)
    if not ops: return 0
    with Lock():
        hok, herr, _ = build_harness()
        sh(["lake", "build", "drv"], cwd=LEAN)
    p = subprocess.run([os.path.join(HARN, "target/debug/harness"), "exec"], input="\n".join(ops) + "\n", stdout=subprocess.PIPE, text=True, env=ENV)
    q = subprocess.run([os.path.join(LEAN, ".lake/build/bin/drv")], input="\n".join(ops) + "\n", stdout=subprocess.PIPE, text=True, env=ENV)
    bad = 0
    for o, a, m in zip(ops, p.stdout.splitlines(), q.stdout.splitlines()):
        ms = m.split("\t")
        print("op:    %s\nimpl:  %s\nmodel: %s\nspec:  %s" % (o, a, ms[0], ms[1] if len(ms) > 1 else "-"))
        if (ms[0] != "-" and ms[0] != a) or (len(ms) > 1 and ms[1] != "-" and ms[1] != a): bad += 1
    return 1 if bad else 0


def setup():
    with Lock():
        hok, herr, dt = build_harness()
        if not hok: print(herr); return 1
        eok, efails, _ = extract()
        for f in efails: print(f)
        rc, out, dt = sh(["lake", "build"], cwd=LEAN, timeout=7200)
        if rc != 0: print(out[-3000:]); return 1
    print("setup ok")
    return 0


def manifest():
    checks = []
    for pid in sorted(REG.PROPS):
        P = REG.PROPS[pid]
        checks.append(dict(
            property_id=pid, quick_cmd="python3 check.py %s --tier quick" % pid, thorough_cmd="python3 check.py %s --tier thorough" % pid,
            evidence_file="/verif/evidence/%s.json" % pid, replay_cmd_template="python3 check.py %s --replay {path}" % pid,
            engine="lean4-proof+correspondence",
            level_claimed=dict(category=P["level"], text=P["level_text"], design_ref=P.get("design_ref", "DESIGN.md §6")),
            level_note=P["level_note"], technique=P["technique"]))
    na = [dict(property_id=k, reason=v) for k, v in sorted(REG.NOT_APPLICABLE.items())]
    allp = [json.loads(l)["id"] for l in open(os.path.join(ROOT, "properties.jsonl")) if l.strip()]
    for pid in allp:
        if pid not in REG.PROPS and pid not in REG.NOT_APPLICABLE:
            na.append(dict(property_id=pid, reason="not claimed yet: the check for this property is still under construction (the technique applies; see DESIGN.md §6)"))
    na.sort(key=lambda e: e["property_id"])
    m = dict(version=1, setup_cmd="python3 check.py --setup",
             hooks=dict(guard="monero_rs_verif", enable="harness/.cargo/config.toml sets rustflags = [\"--cfg\", \"monero_rs_verif\"]; the harness path-depends on /repo (features=[\"serde\"]) and rebuilds it from the working tree. One hook: cryptonote::hash::verif_tree_hash_cnt exposes the private tree_hash_cnt (C06). Everything else is reached through the public API.",
                        baseline_off_cmd="cd /repo && cargo test --workspace --no-fail-fast --offline", source_commits=["4308eff"], add_only=True),
             engines=[dict(name="lean4-proof+correspondence", path="/verif/check.py", serves_properties=sorted(REG.PROPS),
                           kind_free_text="Lean 4 theorems about an executable model (lake build + #print axioms audit), model tied to /repo by a syn-based translator for tables/constants and by a differential correspondence check (Rust harness vs compiled Lean driver); Lean spec/reference as independent oracle")],
             checks=checks, not_applicable=na, notes=REG.NOTES)
    json.dump(m, open(os.path.join(ROOT, "MANIFEST.json"), "w"), indent=1)
    print("MANIFEST.json written: %d checks, %d not_applicable" % (len(checks), len(na)))
    return 0


def main():
    a = sys.argv[1:]
    if not a: print(__doc__); return 2
    if a[0] == "--setup": return setup()
    if a[0] == "--manifest": return manifest()
    prop = a[0]
    tier = os.environ.get("VERIF_TIER", "quick")
    if "--tier" in a: tier = a[a.index("--tier") + 1]
    seed = int(os.environ.get("VERIF_SEED", "20260929"))
    if "--replay" in a: return replay(prop, a[a.index("--replay") + 1])
    if prop not in REG.PROPS: print("property %s is not claimed" % prop); return 2
    return check(prop, tier, seed)


if __name__ == "__main__":
    sys.exit(main())
