#!/bin/bash
# like confirm_mutant.sh but with --features serde (C19): also runs the default-feature suite
WT=$1; K=$2; D=$WT/deliver
export CARGO_TARGET_DIR=$WT/target CARGO_NET_OFFLINE=true
cd $WT || exit 2
git checkout -q -- . && git clean -qfd -e deliver -e target
cp $D/demo$K.rs tests/zz_demo$K.rs
cargo test --offline --features serde --test zz_demo$K > $D/confirm$K.pristine.log 2>&1; P=$?
git apply $D/mutant$K.diff || { echo "mutant$K: DIFF DOES NOT APPLY"; exit 1; }
cargo test --offline --workspace --no-fail-fast > $D/confirm$K.suite.log 2>&1
cargo test --offline --workspace --no-fail-fast --features serde > $D/confirm$K.suite_serde.log 2>&1
OTHER_FAILED=$(cat $D/confirm$K.suite.log $D/confirm$K.suite_serde.log | awk '/Running/ {bin=$0} /^test result: FAILED/ {print bin}' | grep -v zz_demo | wc -l)
cargo test --offline --features serde --test zz_demo$K > $D/confirm$K.mutant.log 2>&1; M=$?
git checkout -q -- . && git clean -qfd -e deliver -e target
echo "mutant$K: demo_on_pristine_rc=$P (want 0) suite_failed_binaries_with_mutant=$OTHER_FAILED (want 0; default + serde features) demo_with_mutant_rc=$M (want !=0)"
