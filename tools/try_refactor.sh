#!/bin/bash
# try_refactor.sh <patch.diff> [props...] : apply a behaviour-preserving change to /repo, run the quick checks (all 20 by default, in parallel),
# print one line per check (VIOLATION lines included), undo the change. A correct machinery prints no VIOLATION here.
P=$1; shift
PROPS=${@:-C01 C02 C03 C04 C05 C06 C07 C08 C09 C10 C11 C12 C13 C14 C15 C16 C17 C18 C19 C20}
cd /repo
git apply "$P" 2>/dev/null || patch -p1 --fuzz=3 -s --no-backup-if-mismatch < "$P" || { echo "patch does not apply"; git checkout -- .; git clean -fdq src; exit 2; }
cd /verif
T=$(mktemp -d)
for c in $PROPS; do ( timeout 1800 python3 check.py $c > $T/$c.log 2>&1; echo "rc=$?" >> $T/$c.log ) & done; wait
for c in $PROPS; do grep -E "VIOLATION|quick:|rc=[^0]" $T/$c.log | cut -c1-260; done
rm -rf $T
git -C /repo checkout -- . ; git -C /repo clean -fdq src
