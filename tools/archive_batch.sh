#!/bin/bash
# archive_batch.sh <batchdir> <first-free-index-base>: copy confirmed sub-agent mutants into /verif/seeded/<P>-m<K+base>/ and record a final check run
B=$1; BASE=$2
for d in $B/C*/; do
  P=$(basename $d)
  for f in $d/deliver/mutant*.diff; do
    K=$(basename $f .diff | sed 's/mutant//'); ID=$P-m$((K+BASE))
    conf=$(grep "^mutant$K:" $B/$P.confirm)
    echo "$conf" | grep -q "demo_on_pristine_rc=0 (want 0) suite_failed_binaries_with_mutant=0 (want 0" || { echo "$ID NOT CONFIRMED: $conf"; continue; }
    echo "$conf" | grep -q "demo_with_mutant_rc=0 " && { echo "$ID demo does not fail"; continue; }
    mkdir -p /verif/seeded/$ID
    cp $f /verif/seeded/$ID/patch.diff; cp $d/deliver/demo$K.rs /verif/seeded/$ID/demo.rs; cp $d/deliver/notes$K.md /verif/seeded/$ID/notes.md
    out=$(/verif/tools/try_mutant.sh $f $P 2>&1)
    python3 - "$ID" "$P" "$conf" "$out" "$K" <<'PY'
import json,sys
ID,P,conf,out,K=sys.argv[1:6]
notes=open(f'/verif/seeded/{ID}/notes.md').read().splitlines()
meta={"id":ID,"property":P,"origin":"independent sub-agent (batch "+__import__("os").environ.get("BATCH","4")+") given only the property record and a scratch worktree of /repo",
 "what_it_needs":notes[:14],
 "confirmed_by_me":{"cmd":f"tools/confirm_all.sh "+__import__("os").environ.get("BATCHDIR","/tmp/mut4")+f"/{P}","result":conf,"meaning":"demo passes on the pristine tree; with the patch the whole existing suite still passes and the demo fails"},
 "check_runs":out.splitlines(),"detected_by":f"python3 check.py {P}",
 "detected": ("VIOLATION" in out), "with_failing_input": ("VIOLATION" in out and "no-failing-input-found" not in out)}
json.dump(meta,open(f'/verif/seeded/{ID}/meta.json','w'),indent=1)
print(ID, "DETECTED" if meta["with_failing_input"] else ("NO-INPUT" if meta["detected"] else "MISSED"))
PY
  done
done
