#!/bin/bash
# merge_group.sh <G> : merge the commits of an implementer group's private copy (/tmp/impl/<G>/verif) into /verif (3-way);
# evidence/ conflicts are resolved in favour of /verif (evidence is rewritten by the checks anyway)
G=$1
cd /verif || exit 2
git fetch -q ${IMPLDIR:-/tmp/impl}/$G/verif HEAD:refs/heads/impl-$G -f || exit 2
git merge --no-edit -q impl-$G 2>&1 | tail -5
for f in $(git diff --name-only --diff-filter=U | grep '^evidence/'); do git checkout --ours -- $f; git add $f; done
U=$(git diff --name-only --diff-filter=U)
if [ -n "$U" ]; then echo "CONFLICTS: $U"; exit 1; fi
git commit -q --no-edit 2>/dev/null
git log --oneline | head -1
