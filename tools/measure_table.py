#!/usr/bin/env python3
"""measure_table.py: rewrite the 'Measured on the unchanged tree' table of DESIGN.md §14.1 from /verif/evidence/Cxx.json
(the evidence of the last run of every check; run all 20 quick checks on the clean tree first)."""
import json, re
rows = []
for i in range(1, 21):
    p = 'C%02d' % i
    e = json.load(open('/verif/evidence/%s.json' % p)); c = e['coverage']; k = c.get('correspondence') or {}
    def n(x): return '–' if not x else '{:,}'.format(x).replace(',', ' ')
    rows.append('| %s | %d | %s / %s | %s | %d s |' % (p, c.get('discharged') or 0, n(k.get('compared_with_model')), n(k.get('compared_with_spec')),
                                                       n(k.get('direct_oracle_checks')), round(e.get('wall_s') or 0)))
seed = json.load(open('/verif/evidence/C01.json')).get('seed'); tier = json.load(open('/verif/evidence/C01.json')).get('tier')
head = ('Measured on the unchanged tree (%s tier, seed %s, all 20 checks started together on 16 cores; wall time includes the incremental lake and\n'
        'cargo builds; table written by `tools/measure_table.py` from evidence/*.json):\n\n'
        '| id | theorems audited | operation lines compared with the model / with the spec | direct oracle checks | wall |\n|----|----|----|----|----|\n' % (tier, seed))
s = open('/verif/DESIGN.md').read()
m = re.search(r'Measured on the unchanged tree \([^|]*?\n\n\| id \|[^\n]*\n\|----[^\n]*\n(?:\| C\d\d [^\n]*\n)+', s)
assert m, 'table not found'
before = s.count('\n')
s = s[:m.start()] + head + '\n'.join(rows) + '\n' + s[m.end():]
assert abs(s.count('\n') - before) < 10, 'the rewrite would change more than the table'
open('/verif/DESIGN.md', 'w').write(s)
print('table rewritten:', len(rows), 'rows')
