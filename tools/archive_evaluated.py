#!/usr/bin/env python3
"""archive_evaluated.py <mutdir> <base> <batch-label> <first-logs-dir> <final-logs-dir> <first-machinery> <final-machinery>
Copy the confirmed seeded changes of a batch (sub-agent deliveries <mutdir>/<P>/deliver/{mutantK.diff,demoK.rs,notesK.md}, confirmations
<mutdir>/<P>.confirm) into /verif/seeded/<P>-m<K+base>/ with a meta.json that records the FIRST evaluation (logs of tools/eval_slots/run_slot.sh
in <first-logs-dir>) and the FINAL one (<final-logs-dir>: only the changes that were re-run after strengthening)."""
import sys, os, re, json, glob, shutil

mutdir, base, label, firstd, finald, mach1, mach2 = sys.argv[1:8]
base = int(base)

def parse(d):
    res = {}
    for f in sorted(glob.glob(os.path.join(d, 'out*.log'))):
        cur = None
        for line in open(f, errors='replace'):
            line = line.rstrip('\n')
            m = re.match(r'### (C\d\d) (\d+)$', line)
            if m: cur = (m.group(1), int(m.group(2))); res[cur] = []; continue
            if cur and (line.startswith('VIOLATION') or ' quick:' in line or 'KNOWN-FINDING' in line): res[cur].append(line[:330])
    return res

def status(lines, prop):
    v = [l for l in lines if l.startswith('VIOLATION property=' + prop)]
    if not v: return 'missed'
    return 'detected, no failing input found' if all('no-failing-input-found' in l for l in v) else 'detected with a failing input'

first, final = parse(firstd), parse(finald)
tot = {'n': 0, 'first_input': 0, 'first_noinput': 0, 'final_input': 0, 'final_noinput': 0}
for pd in sorted(glob.glob(os.path.join(mutdir, 'C??'))):
    P = os.path.basename(pd)
    conf = {}
    cf = os.path.join(mutdir, P + '.confirm')
    if os.path.exists(cf):
        for l in open(cf):
            m = re.match(r'mutant(\d+):', l)
            if m: conf[int(m.group(1))] = l.strip()
    for f in sorted(glob.glob(os.path.join(pd, 'deliver', 'mutant*.diff'))):
        K = int(re.search(r'mutant(\d+)\.diff', f).group(1)); ID = '%s-m%d' % (P, K + base)
        c = conf.get(K, '')
        if 'demo_on_pristine_rc=0 (want 0) suite_failed_binaries_with_mutant=0 (want 0' not in c or 'demo_with_mutant_rc=0 ' in c:
            print(ID, 'NOT CONFIRMED:', c); continue
        if (P, K) not in first: print(ID, 'NO FIRST RUN'); continue
        out = os.path.join('/verif/seeded', ID); os.makedirs(out, exist_ok=True)
        shutil.copy(f, os.path.join(out, 'patch.diff'))
        for src, dst in (('demo%d.rs' % K, 'demo.rs'), ('notes%d.md' % K, 'notes.md')):
            s = os.path.join(pd, 'deliver', src)
            if os.path.exists(s): shutil.copy(s, os.path.join(out, dst))
        notes = open(os.path.join(out, 'notes.md'), errors='replace').read().splitlines() if os.path.exists(os.path.join(out, 'notes.md')) else []
        s1 = status(first[(P, K)], P)
        fin = final.get((P, K))
        s2 = status(fin, P) if fin is not None else s1
        meta = {'id': ID, 'property': P,
                'origin': 'independent sub-agent (%s) given only the property record, a scratch worktree of /repo and one-line summaries of the ideas already used' % label,
                'what_it_needs': notes[:14],
                'confirmed_by_me': {'cmd': 'confirm_par.sh (tools/confirm_all.sh per property) on %s/%s' % (mutdir, P), 'result': c,
                                    'meaning': 'demo passes on the pristine tree; with the patch the whole existing suite still passes and the demo fails'},
                'first_run': {'machinery': mach1, 'status': s1, 'check_runs': first[(P, K)]},
                'final_run': ({'machinery': mach2, 'status': s2, 'check_runs': fin} if fin is not None else {'machinery': mach2, 'status': s2, 'note': 'unchanged since the first run'}),
                'detected_by': 'python3 check.py ' + P, 'detected': s2 != 'missed', 'with_failing_input': s2 == 'detected with a failing input'}
        json.dump(meta, open(os.path.join(out, 'meta.json'), 'w'), indent=1)
        tot['n'] += 1
        tot['first_input'] += s1 == 'detected with a failing input'; tot['first_noinput'] += s1.startswith('detected, no')
        tot['final_input'] += s2 == 'detected with a failing input'; tot['final_noinput'] += s2.startswith('detected, no')
        print(ID, '|', s1, '|', s2)
print(tot)
