#!/bin/bash
# try_mutant.sh <patch.diff> <prop> [<prop> ...] : apply a seeded change to /repo, run the given checks, undo the change
P=$1; shift
cd /repo
git apply "$P" 2>/dev/null || patch -p1 --fuzz=3 -s --no-backup-if-mismatch < "$P" || { echo "patch does not apply"; git checkout -- .; git clean -fdq src; exit 2; }
cd /verif
for c in "$@"; do timeout 1500 python3 check.py $c 2>&1 | grep -E "VIOLATION|quick:|thorough:" | cut -c1-330; done
git -C /repo checkout -- . ; git -C /repo clean -fdq src
