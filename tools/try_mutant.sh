#!/bin/bash
# try_mutant.sh <patch.diff> <prop> [<prop> ...] : apply a seeded change to /repo, run the given checks, undo the change
P=$1; shift
cd /verif
git -C /repo apply "$P" || { echo "patch does not apply"; exit 2; }
for c in "$@"; do python3 check.py $c 2>&1 | grep -E "VIOLATION|KNOWN|quick:|thorough:" | cut -c1-400; done
git -C /repo checkout -- .
