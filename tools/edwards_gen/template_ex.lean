import Mathlib.Algebra.Field.Basic
import Mathlib.Algebra.Group.Even
import Mathlib.Tactic.Ring
import Mathlib.Tactic.LinearCombination
import Mathlib.Tactic.FieldSimp
import Mathlib.Algebra.Field.ZMod
import Mathlib.Tactic.NormNum.Prime
import MoneroModel.Proofs.EdwardsRaw
/-! The affine twisted Edwards curve −x² + y² = 1 + d·x²·y² (a = −1) over an arbitrary field `F` in which `d` is not a
square and −1 is a square is an abelian group under the unified addition law `addRaw` (vocabulary of
`Proofs/EdwardsRaw.lean`). No hypothesis on the characteristic is needed.

* `denom_ne_zero` : completeness (the denominators 1 ± d·x₁x₂y₁y₂ never vanish on curve points; Bernstein–Lange).
* `onCurve_add`, `onCurve_neg`, `onCurve_zero` : closure.
* `addRaw_comm`, `zero_addRaw`, `addRaw_zero`, `neg_addRaw`, `addRaw_assoc` : the laws on raw pairs.
* `Point d`, `instance : AddCommGroup (Point d)` under `[Fact (¬ IsSquare d)] [Fact (IsSquare (-1 : F))]`.

Associativity is the polynomial identity `N_L · D_R = N_R · D_L` between the cross-multiplied coordinates of (P+Q)+R and
P+(Q+R); it holds modulo the three curve equations, with explicit cofactors (computed with a Gröbner-style division
outside Lean, checked here by `linear_combination`). -/
namespace Monero.Edw
variable {F : Type} [Field F]

/-! ### Completeness of the addition law -/

/-- the heart of the Bernstein–Lange argument, for either square root `i` of −1 and either sign `e` -/
private theorem key_sq {d x1 y1 x2 y2 e i : F}
    (hP : -x1 ^ 2 + y1 ^ 2 = 1 + d * x1 ^ 2 * y1 ^ 2) (hQ : -x2 ^ 2 + y2 ^ 2 = 1 + d * x2 ^ 2 * y2 ^ 2)
    (h : d * x1 * x2 * y1 * y2 = e) (he : e * e = 1) (hi : i * i = -1) :
    (y1 + e * i * x1) ^ 2 = d * x1 ^ 2 * y1 ^ 2 * (y2 + i * x2) ^ 2 := by
  linear_combination hP - d * x1 ^ 2 * y1 ^ 2 * hQ + (x1 ^ 2 * i ^ 2 - 1) * he
    + (x1 ^ 2 - d * x1 ^ 2 * y1 ^ 2 * x2 ^ 2) * hi - (d * x1 * x2 * y1 * y2 + e + 2 * i * x1 * y1) * h

private theorem no_unit_eps {d : F} (hd : ¬ IsSquare d) (hi : IsSquare (-1 : F)) {x1 y1 x2 y2 e : F}
    (hP : -x1 ^ 2 + y1 ^ 2 = 1 + d * x1 ^ 2 * y1 ^ 2) (hQ : -x2 ^ 2 + y2 ^ 2 = 1 + d * x2 ^ 2 * y2 ^ 2)
    (he : e * e = 1) : d * x1 * x2 * y1 * y2 ≠ e := by
  intro h
  obtain ⟨i, hi⟩ := hi
  have hi : i * i = -1 := hi.symm
  have hi' : (-i) * (-i) = -1 := by rw [neg_mul_neg]; exact hi
  have he0 : e ≠ 0 := by rintro rfl; simp at he
  have hx1 : x1 ≠ 0 := by rintro rfl; apply he0; rw [← h]; ring
  have hy1 : y1 ≠ 0 := by rintro rfl; apply he0; rw [← h]; ring
  have hx2 : x2 ≠ 0 := by rintro rfl; apply he0; rw [← h]; ring
  have hy2 : y2 ≠ 0 := by rintro rfl; apply he0; rw [← h]; ring
  have k1 := key_sq hP hQ h he hi
  have k2 := key_sq hP hQ h he hi'
  by_cases c1 : y2 + i * x2 = 0
  · by_cases c2 : y2 + -i * x2 = 0
    · -- both vanish: y2² = x2², so d·x2²·y2² = −1 = i²
      apply hd
      have hxy : x2 * y2 ≠ 0 := mul_ne_zero hx2 hy2
      refine ⟨i / (x2 * y2), ?_⟩
      rw [div_mul_div_comm, eq_div_iff (mul_ne_zero hxy hxy)]
      linear_combination (-1 : F) * hQ + y2 * c1 - i * x2 * c2 - (x2 ^ 2 + 1) * hi
    · apply hd
      have hden : x1 * y1 * (y2 + -i * x2) ≠ 0 := mul_ne_zero (mul_ne_zero hx1 hy1) c2
      refine ⟨(y1 + e * -i * x1) / (x1 * y1 * (y2 + -i * x2)), ?_⟩
      rw [div_mul_div_comm, eq_div_iff (mul_ne_zero hden hden)]
      linear_combination -k2
  · apply hd
    have hden : x1 * y1 * (y2 + i * x2) ≠ 0 := mul_ne_zero (mul_ne_zero hx1 hy1) c1
    refine ⟨(y1 + e * i * x1) / (x1 * y1 * (y2 + i * x2)), ?_⟩
    rw [div_mul_div_comm, eq_div_iff (mul_ne_zero hden hden)]
    linear_combination -k1

/-- Completeness of the unified addition law: for points on the curve the denominators never vanish. -/
theorem denom_ne_zero {d : F} (hd : ¬ IsSquare d) (hi : IsSquare (-1 : F)) {P Q : F × F}
    (hP : OnCurve d P) (hQ : OnCurve d Q) :
    1 + d * P.1 * Q.1 * P.2 * Q.2 ≠ 0 ∧ 1 - d * P.1 * Q.1 * P.2 * Q.2 ≠ 0 := by
  obtain ⟨x1, y1⟩ := P
  obtain ⟨x2, y2⟩ := Q
  simp only [OnCurve] at hP hQ
  constructor
  · intro h0
    exact no_unit_eps hd hi hP hQ (e := -1) (by ring) (by linear_combination h0)
  · intro h0
    exact no_unit_eps hd hi hP hQ (e := 1) (by ring) (by linear_combination -h0)

/-! ### Closure -/

theorem onCurve_zero (d : F) : OnCurve d zeroRaw := by
  simp [OnCurve, zeroRaw]

theorem onCurve_neg {d : F} {P : F × F} (hP : OnCurve d P) : OnCurve d (negRaw P) := by
  simp only [OnCurve, negRaw] at hP ⊢
  linear_combination hP

/-- closure, cross-multiplied -/
private theorem closure_poly {d x1 y1 x2 y2 : F}
    (hP : -x1 ^ 2 + y1 ^ 2 = 1 + d * x1 ^ 2 * y1 ^ 2) (hQ : -x2 ^ 2 + y2 ^ 2 = 1 + d * x2 ^ 2 * y2 ^ 2) :
    -(x1 * y2 + y1 * x2) ^ 2 * (1 - d * x1 * x2 * y1 * y2) ^ 2
      + (y1 * y2 + x1 * x2) ^ 2 * (1 + d * x1 * x2 * y1 * y2) ^ 2
    = (1 + d * x1 * x2 * y1 * y2) ^ 2 * (1 - d * x1 * x2 * y1 * y2) ^ 2
      + d * (x1 * y2 + y1 * x2) ^ 2 * (y1 * y2 + x1 * x2) ^ 2 := by
  linear_combination
    (@CL1@) * hP
    + (@CL2@) * hQ

theorem onCurve_add {d : F} (hd : ¬ IsSquare d) (hi : IsSquare (-1 : F)) {P Q : F × F}
    (hP : OnCurve d P) (hQ : OnCurve d Q) : OnCurve d (addRaw d P Q) := by
  obtain ⟨h1, h2⟩ := denom_ne_zero hd hi hP hQ
  obtain ⟨x1, y1⟩ := P
  obtain ⟨x2, y2⟩ := Q
  simp only [OnCurve, addRaw] at hP hQ h1 h2 ⊢
  have key := closure_poly hP hQ
  obtain ⟨A, hA⟩ : ∃ A, A = (x1 * y2 + y1 * x2) / (1 + d * x1 * x2 * y1 * y2) := ⟨_, rfl⟩
  obtain ⟨B, hB⟩ : ∃ B, B = (y1 * y2 + x1 * x2) / (1 - d * x1 * x2 * y1 * y2) := ⟨_, rfl⟩
  have hX : x1 * y2 + y1 * x2 = A * (1 + d * x1 * x2 * y1 * y2) := by rw [hA, div_mul_cancel₀ _ h1]
  have hY : y1 * y2 + x1 * x2 = B * (1 - d * x1 * x2 * y1 * y2) := by rw [hB, div_mul_cancel₀ _ h2]
  rw [← hA, ← hB]
  rw [hX, hY] at key
  apply mul_left_cancel₀ (mul_ne_zero (pow_ne_zero 2 h1) (pow_ne_zero 2 h2))
  linear_combination key

/-! ### The easy laws -/

theorem addRaw_comm (d : F) (P Q : F × F) : addRaw d P Q = addRaw d Q P := by
  simp only [addRaw]
  congr 2 <;> ring

theorem zero_addRaw (d : F) (P : F × F) : addRaw d zeroRaw P = P := by
  simp [addRaw, zeroRaw]

theorem addRaw_zero (d : F) (P : F × F) : addRaw d P zeroRaw = P := by
  rw [addRaw_comm, zero_addRaw]

theorem neg_addRaw {d : F} (hd : ¬ IsSquare d) (hi : IsSquare (-1 : F)) {P : F × F} (hP : OnCurve d P) :
    addRaw d (negRaw P) P = zeroRaw := by
  obtain ⟨h1, h2⟩ := denom_ne_zero hd hi (onCurve_neg hP) hP
  obtain ⟨x, y⟩ := P
  simp only [OnCurve, addRaw, negRaw, zeroRaw] at hP h1 h2 ⊢
  refine Prod.ext ?_ ?_
  · show (-x * y + y * x) / _ = 0
    rw [show -x * y + y * x = 0 by ring, zero_div]
  · show (y * y + -x * x) / (1 - d * -x * x * y * y) = 1
    rw [div_eq_one_iff_eq h2]
    linear_combination hP

/-! ### Associativity -/

private theorem den_plus (d : F) {a b c e : F} (hb : b ≠ 0) (he : e ≠ 0) (x y : F) :
    1 + d * (a / b) * x * (c / e) * y = (b * e + d * a * c * x * y) / (b * e) := by
  field_simp

private theorem den_minus (d : F) {a b c e : F} (hb : b ≠ 0) (he : e ≠ 0) (x y : F) :
    1 - d * (a / b) * x * (c / e) * y = (b * e - d * a * c * x * y) / (b * e) := by
  field_simp

/-- adding a point given as a pair of fractions: the result as a pair of single fractions -/
private theorem addRaw_frac_left (d : F) {a b c e : F} (hb : b ≠ 0) (he : e ≠ 0) (x y : F) :
    addRaw d (a / b, c / e) (x, y)
      = ((a * e * y + c * b * x) / (b * e + d * a * c * x * y),
         (c * b * y + a * e * x) / (b * e - d * a * c * x * y)) := by
  have hbe : b * e ≠ 0 := mul_ne_zero hb he
  refine Prod.ext ?_ ?_
  · show (a / b * y + c / e * x) / (1 + d * (a / b) * x * (c / e) * y) = _
    rw [den_plus d hb he, show a / b * y + c / e * x = (a * e * y + c * b * x) / (b * e) by field_simp,
      div_div_div_cancel_right₀ hbe]
  · show (c / e * y + a / b * x) / (1 - d * (a / b) * x * (c / e) * y) = _
    rw [den_minus d hb he, show c / e * y + a / b * x = (c * b * y + a * e * x) / (b * e) by field_simp,
      div_div_div_cancel_right₀ hbe]

section polys
variable {d x1 y1 x2 y2 x3 y3 : F}

private theorem assoc_x_poly
    (hP : -x1 ^ 2 + y1 ^ 2 = 1 + d * x1 ^ 2 * y1 ^ 2) (hQ : -x2 ^ 2 + y2 ^ 2 = 1 + d * x2 ^ 2 * y2 ^ 2)
    (hR : -x3 ^ 2 + y3 ^ 2 = 1 + d * x3 ^ 2 * y3 ^ 2) :
    ((x1 * y2 + y1 * x2) * (1 - d * x1 * x2 * y1 * y2) * y3 + (y1 * y2 + x1 * x2) * (1 + d * x1 * x2 * y1 * y2) * x3)
      * ((1 + d * x2 * x3 * y2 * y3) * (1 - d * x2 * x3 * y2 * y3)
          + d * x1 * y1 * (x2 * y3 + y2 * x3) * (y2 * y3 + x2 * x3))
    = (x1 * (y2 * y3 + x2 * x3) * (1 + d * x2 * x3 * y2 * y3) + y1 * (x2 * y3 + y2 * x3) * (1 - d * x2 * x3 * y2 * y3))
      * ((1 + d * x1 * x2 * y1 * y2) * (1 - d * x1 * x2 * y1 * y2)
          + d * (x1 * y2 + y1 * x2) * (y1 * y2 + x1 * x2) * x3 * y3) := by
  linear_combination
    (@AX1@) * hP
    + (@AX2@) * hQ
    + (@AX3@) * hR

private theorem assoc_y_poly
    (hP : -x1 ^ 2 + y1 ^ 2 = 1 + d * x1 ^ 2 * y1 ^ 2) (hQ : -x2 ^ 2 + y2 ^ 2 = 1 + d * x2 ^ 2 * y2 ^ 2)
    (hR : -x3 ^ 2 + y3 ^ 2 = 1 + d * x3 ^ 2 * y3 ^ 2) :
    ((y1 * y2 + x1 * x2) * (1 + d * x1 * x2 * y1 * y2) * y3 + (x1 * y2 + y1 * x2) * (1 - d * x1 * x2 * y1 * y2) * x3)
      * ((1 + d * x2 * x3 * y2 * y3) * (1 - d * x2 * x3 * y2 * y3)
          - d * x1 * y1 * (x2 * y3 + y2 * x3) * (y2 * y3 + x2 * x3))
    = (y1 * (y2 * y3 + x2 * x3) * (1 + d * x2 * x3 * y2 * y3) + x1 * (x2 * y3 + y2 * x3) * (1 - d * x2 * x3 * y2 * y3))
      * ((1 + d * x1 * x2 * y1 * y2) * (1 - d * x1 * x2 * y1 * y2)
          - d * (x1 * y2 + y1 * x2) * (y1 * y2 + x1 * x2) * x3 * y3) := by
  linear_combination
    (@AY1@) * hP
    + (@AY2@) * hQ
    + (@AY3@) * hR

end polys

/-- Associativity of the unified addition law on curve points. -/
theorem addRaw_assoc {d : F} (hd : ¬ IsSquare d) (hi : IsSquare (-1 : F)) {P Q R : F × F}
    (hP : OnCurve d P) (hQ : OnCurve d Q) (hR : OnCurve d R) :
    addRaw d (addRaw d P Q) R = addRaw d P (addRaw d Q R) := by
  have hPQ := onCurve_add hd hi hP hQ
  have hQR := onCurve_add hd hi hQ hR
  obtain ⟨a1, a2⟩ := denom_ne_zero hd hi hP hQ
  obtain ⟨b1, b2⟩ := denom_ne_zero hd hi hQ hR
  obtain ⟨l1, l2⟩ := denom_ne_zero hd hi hPQ hR
  obtain ⟨r1, r2⟩ := denom_ne_zero hd hi hP hQR
  obtain ⟨x1, y1⟩ := P
  obtain ⟨x2, y2⟩ := Q
  obtain ⟨x3, y3⟩ := R
  simp only [OnCurve] at hP hQ hR
  have e12 : addRaw d (x1, y1) (x2, y2)
      = ((x1 * y2 + y1 * x2) / (1 + d * x1 * x2 * y1 * y2), (y1 * y2 + x1 * x2) / (1 - d * x1 * x2 * y1 * y2)) := rfl
  have e23 : addRaw d (x2, y2) (x3, y3)
      = ((x2 * y3 + y2 * x3) / (1 + d * x2 * x3 * y2 * y3), (y2 * y3 + x2 * x3) / (1 - d * x2 * x3 * y2 * y3)) := rfl
  rw [e12] at l1 l2
  rw [e23] at r1 r2
  simp only at a1 a2 b1 b2 l1 l2 r1 r2
  have hab : (1 + d * x1 * x2 * y1 * y2) * (1 - d * x1 * x2 * y1 * y2) ≠ 0 := mul_ne_zero a1 a2
  have hbb : (1 + d * x2 * x3 * y2 * y3) * (1 - d * x2 * x3 * y2 * y3) ≠ 0 := mul_ne_zero b1 b2
  rw [den_plus d a1 a2] at l1
  rw [den_minus d a1 a2] at l2
  have r1' : 1 + d * ((x2 * y3 + y2 * x3) / (1 + d * x2 * x3 * y2 * y3)) * x1
      * ((y2 * y3 + x2 * x3) / (1 - d * x2 * x3 * y2 * y3)) * y1 ≠ 0 := by
    intro h; apply r1; rw [← h]; ring
  have r2' : 1 - d * ((x2 * y3 + y2 * x3) / (1 + d * x2 * x3 * y2 * y3)) * x1
      * ((y2 * y3 + x2 * x3) / (1 - d * x2 * x3 * y2 * y3)) * y1 ≠ 0 := by
    intro h; apply r2; rw [← h]; ring
  rw [den_plus d b1 b2] at r1'
  rw [den_minus d b1 b2] at r2'
  have L1 := (div_ne_zero_iff.mp l1).1
  have L2 := (div_ne_zero_iff.mp l2).1
  have R1 := (div_ne_zero_iff.mp r1').1
  have R2 := (div_ne_zero_iff.mp r2').1
  rw [e12, e23, addRaw_frac_left d a1 a2, addRaw_comm d (x1, y1), addRaw_frac_left d b1 b2]
  refine Prod.ext ?_ ?_
  · show _ / _ = _ / _
    rw [div_eq_div_iff L1 R1]
    linear_combination assoc_x_poly hP hQ hR
  · show _ / _ = _ / _
    rw [div_eq_div_iff L2 R2]
    linear_combination assoc_y_poly hP hQ hR

/-! ### The group of curve points -/

/-- a point of the curve −x² + y² = 1 + d·x²·y² -/
@[ext] structure Point (d : F) where
  x : F
  y : F
  on : OnCurve d (x, y)

namespace Point
variable {d : F}

/-- the underlying coordinate pair -/
def toPair (P : Point d) : F × F := (P.x, P.y)

theorem toPair_injective : Function.Injective (toPair : Point d → F × F) := by
  intro P Q h
  have h1 : P.x = Q.x := congrArg Prod.fst h
  have h2 : P.y = Q.y := congrArg Prod.snd h
  exact Point.ext h1 h2

theorem onCurve_toPair (P : Point d) : OnCurve d P.toPair := P.on

/-- build a point from a pair on the curve -/
def ofPair (p : F × F) (h : OnCurve d p) : Point d := ⟨p.1, p.2, h⟩

@[simp] theorem toPair_ofPair (p : F × F) (h : OnCurve d p) : (ofPair p h).toPair = p := rfl

instance : Zero (Point d) := ⟨ofPair zeroRaw (onCurve_zero d)⟩
instance : Neg (Point d) := ⟨fun P => ofPair (negRaw P.toPair) (onCurve_neg P.on)⟩

@[simp] theorem toPair_zero : (0 : Point d).toPair = zeroRaw := rfl
@[simp] theorem toPair_neg (P : Point d) : (-P).toPair = negRaw P.toPair := rfl
@[simp] theorem zero_x : (0 : Point d).x = 0 := rfl
@[simp] theorem zero_y : (0 : Point d).y = 1 := rfl
@[simp] theorem neg_x (P : Point d) : (-P).x = -P.x := rfl
@[simp] theorem neg_y (P : Point d) : (-P).y = P.y := rfl

variable [hd : Fact (¬ IsSquare d)] [hi : Fact (IsSquare (-1 : F))]

instance : Add (Point d) := ⟨fun P Q => ofPair (addRaw d P.toPair Q.toPair) (onCurve_add hd.out hi.out P.on Q.on)⟩

@[simp] theorem toPair_add (P Q : Point d) : (P + Q).toPair = addRaw d P.toPair Q.toPair := rfl
theorem add_x (P Q : Point d) : (P + Q).x = (P.x * Q.y + P.y * Q.x) / (1 + d * P.x * Q.x * P.y * Q.y) := rfl
theorem add_y (P Q : Point d) : (P + Q).y = (P.y * Q.y + P.x * Q.x) / (1 - d * P.x * Q.x * P.y * Q.y) := rfl

/-- **The group law**: the points of the a = −1 twisted Edwards curve with non-square `d` over a field in which −1 is a
square form an abelian group under the unified addition law. -/
instance : AddCommGroup (Point d) where
  add_assoc P Q R := toPair_injective (addRaw_assoc hd.out hi.out P.on Q.on R.on)
  zero_add P := toPair_injective (zero_addRaw d P.toPair)
  add_zero P := toPair_injective (addRaw_zero d P.toPair)
  neg_add_cancel P := toPair_injective (neg_addRaw hd.out hi.out P.on)
  add_comm P Q := toPair_injective (addRaw_comm d P.toPair Q.toPair)
  nsmul := nsmulRec
  zsmul := zsmulRec

end Point

end Monero.Edw

/-! The hypotheses are satisfiable: over 𝔽₅, −1 = 2² and d = 2 is not a square. -/
section nonvacuous
private instance : Fact (Nat.Prime 5) := ⟨by norm_num⟩
private instance : Fact (¬ IsSquare (2 : ZMod 5)) := ⟨by rintro ⟨r, hr⟩; revert r; decide⟩
private instance : Fact (IsSquare (-1 : ZMod 5)) := ⟨⟨2, by decide⟩⟩
example : AddCommGroup (Monero.Edw.Point (2 : ZMod 5)) := inferInstance
end nonvacuous
