import sympy as sp
x1,y1,x2,y2,x3,y3,d = sp.symbols('x1 y1 x2 y2 x3 y3 d')
def g(x,y): return -x**2 + y**2 - (1 + d*x**2*y**2)
def L(p): return str(sp.expand(p)).replace('**','^')
X12 = x1*y2+y1*x2; Y12 = y1*y2+x1*x2; e12 = d*x1*x2*y1*y2; Dx12 = 1+e12; Dy12 = 1-e12
X23 = x2*y3+y2*x3; Y23 = y2*y3+x2*x3; e23 = d*x2*x3*y2*y3; Dx23 = 1+e23; Dy23 = 1-e23
NxL = X12*Dy12*y3 + Y12*Dx12*x3 ; DxL = Dx12*Dy12 + d*X12*Y12*x3*y3
NyL = Y12*Dx12*y3 + X12*Dy12*x3 ; DyL = Dx12*Dy12 - d*X12*Y12*x3*y3
NxR = x1*Y23*Dx23 + y1*X23*Dy23 ; DxR = Dx23*Dy23 + d*x1*y1*X23*Y23
NyR = y1*Y23*Dx23 + x1*X23*Dy23 ; DyR = Dx23*Dy23 - d*x1*y1*X23*Y23
fx = sp.expand(NxL*DxR - NxR*DxL)
fy = sp.expand(NyL*DyR - NyR*DyL)
G = [g(x1,y1), g(x2,y2), g(x3,y3)]
vs=(x1,y1,x2,y2,x3,y3,d)
out={}
for nm,f in [('AX',fx),('AY',fy)]:
    q,r = sp.reduced(f, G, *vs, order='grevlex')
    assert r==0
    for k,c in enumerate(q): out[nm+str(k+1)] = L(c)
fc = sp.expand(-X12**2*Dy12**2 + Y12**2*Dx12**2 - (Dx12**2*Dy12**2 + d*X12**2*Y12**2))
q,r = sp.reduced(fc, G[:2], x1,y1,x2,y2,d, order='grevlex'); assert r==0
assert sp.expand(fc - q[0]*G[0]-q[1]*G[1])==0
out['CL1']=L(q[0]); out['CL2']=L(q[1])
t = open('/tmp/edw/template_ex.lean').read()
for k,v in out.items(): t = t.replace('@'+k+'@', v)
open('/verif/lean/MoneroModel/Proofs/EdwardsGroup.lean','w').write(t)
