#!/bin/bash
# confirm_all.sh <worktree> : run confirm_mutant.sh for every deliver/mutantK.diff of a sub-agent's worktree
WT=$1
for f in $WT/deliver/mutant*.diff; do
  K=$(basename $f .diff | sed 's/mutant//')
  if grep -q 'cfg(feature = "serde")' $WT/deliver/demo$K.rs 2>/dev/null; then
    /verif/tools/confirm_mutant_serde.sh $WT $K
  else
    /verif/tools/confirm_mutant.sh $WT $K
  fi
done
