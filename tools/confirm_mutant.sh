#!/bin/bash
# confirm_mutant.sh <worktree> <k> : independently confirm a seeded mutant delivered by a sub-agent in <worktree>/deliver
#   (1) pristine: demo passes  (2) mutant applied: crate builds, full suite passes, demo fails.   Prints a one-line verdict.
WT=$1; K=$2; D=$WT/deliver
export CARGO_TARGET_DIR=$WT/target CARGO_NET_OFFLINE=true
cd $WT || exit 2
git checkout -q -- . && git clean -qfd -e deliver -e target
cp $D/demo$K.rs tests/zz_demo$K.rs
cargo test --offline --test zz_demo$K > $D/confirm$K.pristine.log 2>&1; P=$?
git apply $D/mutant$K.diff || { echo "mutant$K: DIFF DOES NOT APPLY"; exit 1; }
cargo test --offline --workspace --no-fail-fast -- --skip zz_never > $D/confirm$K.suite.log 2>&1
# suite = everything except the demo test binary
SUITE_FAIL=$(grep -E "^test result: FAILED|^error(\[|:)" $D/confirm$K.suite.log | grep -v zz_demo | wc -l)
# the workspace run includes the demo binary; judge the suite on the other binaries only
OTHER_FAILED=$(awk '/Running/ {bin=$0} /^test result: FAILED/ {print bin}' $D/confirm$K.suite.log | grep -v zz_demo | wc -l)
cargo test --offline --test zz_demo$K > $D/confirm$K.mutant.log 2>&1; M=$?
git checkout -q -- . && git clean -qfd -e deliver -e target
echo "mutant$K: demo_on_pristine_rc=$P (want 0) suite_failed_binaries_with_mutant=$OTHER_FAILED (want 0) demo_with_mutant_rc=$M (want !=0)"
