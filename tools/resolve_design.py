#!/usr/bin/env python3
"""resolve_design.py <branch> <P1> [P2 ...]: resolve a DESIGN.md merge conflict by taking OUR file and replacing, for the given
properties, the §6 section `### Pn —` and the rows `| Pn |` of the tables by the versions of <branch>."""
import subprocess, sys, re
br, props = sys.argv[1], sys.argv[2:]
ours = subprocess.run(["git", "show", "HEAD:DESIGN.md"], capture_output=True, text=True).stdout
theirs = subprocess.run(["git", "show", br + ":DESIGN.md"], capture_output=True, text=True).stdout
def section(text, p):
    m = re.search(r"^### %s — .*?(?=^###? )" % p, text, re.S | re.M)
    return m
for p in props:
    a, b = section(ours, p), section(theirs, p)
    if a and b: ours = ours[:a.start()] + b.group(0) + ours[a.end():]
    rows_t = re.findall(r"^\| %s \|.*$" % p, theirs, re.M)
    rows_o = re.findall(r"^\| %s \|.*$" % p, ours, re.M)
    if len(rows_t) == len(rows_o):
        for ro, rt in zip(rows_o, rows_t): ours = ours.replace(ro, rt, 1)
open("DESIGN.md", "w").write(ours)
