import re,glob
res={}
for f in sorted(glob.glob('/tmp/eval/out*.log')):
    cur=None
    for l in open(f):
        m=re.match(r'### (C\d+) (\d)',l)
        if m: cur=(m.group(1),int(m.group(2))); res[cur]=[]; continue
        if cur and l.strip() and not l.startswith('SLOTDONE'): res[cur].append(l.strip())
for k in sorted(res):
    v=res[k]; viol=[x for x in v if x.startswith('VIOLATION')]
    st='MISSED' if not viol else ('NO-INPUT' if 'no-failing-input-found' in viol[0] else 'DETECTED')
    q=[x for x in v if 'quick:' in x]
    print(k[0],k[1],st, (q[0].split('quick:')[1][:110] if q else ''))
print(len(res),'done')
