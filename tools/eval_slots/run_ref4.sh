#!/bin/bash
# run_ref4.sh <slot> <patch...>: the changed checks against behaviour-preserving refactors (archived in /verif/seeded/refactors)
S=$1; shift; RS="$@"
git -C /tmp/eval/$S/verif checkout -q -- . ; git -C /tmp/eval/$S/verif pull -q
unshare -m bash -c "
mount --bind /tmp/eval/$S/repo /repo && mount --bind /tmp/eval/$S/verif /verif || exit 9
cd /verif && python3 check.py --setup > /dev/null 2>&1
for R in $RS; do f=/verif/seeded/refactors/\$R.diff
  echo \"== \$R: \$(head -1 /verif/seeded/refactors/\$R.md | cut -c1-120)\"
  /verif/tools/try_refactor.sh \$f C01 C02 C03 C04 C05 C07 C08 C09 C10 C12 C17 2>&1 | grep -E 'VIOLATION|rc=|apply'
done
"
echo REFDONE
