#!/bin/bash
# run_refslot.sh <slot> <R...> : in a private mount namespace run ALL 20 quick checks against each behaviour-preserving refactor
S=$1; shift; RS="$@"
git -C /tmp/eval/$S/verif checkout -q -- . ; git -C /tmp/eval/$S/verif pull -q
unshare -m bash -c "
mount --bind /tmp/eval/$S/repo /repo && mount --bind /tmp/eval/$S/verif /verif || exit 9
cd /verif && python3 check.py --setup > /dev/null 2>&1
for R in $RS; do for k in 1 2 3 4 5; do f=/tmp/ref5/\$R/deliver/refactor\$k.diff; [ -f \$f ] || continue
  echo \"== \$R refactor \$k: \$(head -1 /tmp/ref5/\$R/deliver/notes\$k.md | cut -c1-120)\"
  /verif/tools/try_refactor.sh \$f 2>&1 | grep -E 'VIOLATION|rc=|apply'
done; done
"
echo REFDONE
