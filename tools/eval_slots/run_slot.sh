#!/bin/bash
# run_slot.sh <slot> <listfile> : inside a private mount namespace (/repo and /verif bind-mounted to the slot's copies) apply each
# seeded change "<P> <K>" of the list, run the check of its property, record the summary, undo.
S=$1; L=$2
unshare -m bash -c "
mount --bind /tmp/eval/$S/repo /repo && mount --bind /tmp/eval/$S/verif /verif || exit 9
while read P K; do
  f=/tmp/mut5/\$P/deliver/mutant\$K.diff
  cd /repo && git checkout -q -- . && git clean -fdq src
  git apply \$f 2>/dev/null || patch -p1 --fuzz=3 -s --no-backup-if-mismatch < \$f || { echo \"\$P \$K APPLYFAIL\"; continue; }
  cd /verif && out=\$(timeout 1800 nice -n 5 python3 check.py \$P 2>&1 | grep -E 'VIOLATION|quick:' | cut -c1-330)
  echo \"### \$P \$K\"; echo \"\$out\"
  cd /repo && git checkout -q -- . && git clean -fdq src
done < $L
"
echo SLOTDONE
