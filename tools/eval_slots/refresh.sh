#!/bin/bash
# refresh slot copies to the current /repo and /verif HEADs and rebuild
for s in s1 s2 s3; do
  git -C /tmp/eval/$s/repo checkout -q -- . ; git -C /tmp/eval/$s/repo clean -fdq src; git -C /tmp/eval/$s/repo pull -q
  git -C /tmp/eval/$s/verif checkout -q -- . ; git -C /tmp/eval/$s/verif pull -q
  ( unshare -m bash -c "mount --bind /tmp/eval/$s/repo /repo && mount --bind /tmp/eval/$s/verif /verif && cd /verif && python3 check.py --setup" > /tmp/eval/$s.setup.log 2>&1 ) &
done; wait; tail -1 /tmp/eval/s*.setup.log
