#!/bin/bash
# run_cross.sh <slot> <P> <K> <checkprop>: apply mutant K of property P, run the check of ANOTHER property
S=$1; P=$2; K=$3; C=$4
unshare -m bash -c "
mount --bind /tmp/eval/$S/repo /repo && mount --bind /tmp/eval/$S/verif /verif || exit 9
f=${MUTDIR:-/tmp/mut9}/$P/deliver/mutant$K.diff
cd /repo && git checkout -q -- . && git clean -fdq src && git apply \$f || exit 8
cd /verif && out=\$(timeout 1800 python3 check.py $C 2>&1 | grep -E 'VIOLATION|quick:' | cut -c1-330)
echo \"### $P $K under $C\"; echo \"\$out\"
cd /repo && git checkout -q -- . && git clean -fdq src
"
