#!/bin/bash
# run_patch.sh <slot> <patchfile> <checkprop>
S=$1; F=$2; C=$3
unshare -m bash -c "
mount --bind /tmp/eval/$S/repo /repo && mount --bind /tmp/eval/$S/verif /verif || exit 9
cd /repo && git checkout -q -- . && git clean -fdq src && git apply $F || exit 8
cd /verif && out=\$(timeout 1800 python3 check.py $C 2>&1 | grep -E 'VIOLATION|quick:' | cut -c1-330)
echo \"### $F under $C\"; echo \"\$out\"
cd /repo && git checkout -q -- . && git clean -fdq src
"
