import MoneroModel.Model.Tx
import MoneroModel.Proofs.TxSound4
import MoneroModel.Proofs.TxComplete
