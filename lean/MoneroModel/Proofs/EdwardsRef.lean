import MoneroModel.Proofs.EdwardsRef1
import MoneroModel.Proofs.EdwardsRef2
/-! Refinement of the raw affine twisted-Edwards law by the reference `Ref/Ed25519.lean`, part 3 (and root of the
`EdwardsRef*` files): the base point, its order, and validity of double-and-add.

Summary of PHASE 1 (all in `namespace Monero.Edw`, `F = ZMod Ed.p`):
* part 1 — `dF`, `aff`, `Reduced`, `Valid`, `Complete`; `nonsquare_d`, `isSquare_neg_one`; `valid_zero`, `aff_zero`;
  `valid_add`, `aff_add`; `valid_neg`, `aff_neg`; `valid_sub`, `aff_sub`; `eqPt_iff`;
* part 2 — `decompress_spec`, `decompress_valid`, `compress_decompress`, `decompress_compress`, `compress_inj`,
  `compress_eq_iff`, `compress_lt`; `decodePt_valid`, `encodePt_decodePt`, `decodePt_encodePt`, `encodePt_inj`, …;
* here — `G_valid`, `G_order`, `G_ne_zero`, `valid_smul`. -/
namespace Monero.Edw
open Ed Monero.Keys

/-! ### double-and-add preserves the invariant -/
theorem valid_smulAux (H : Complete dF) : ∀ (fuel : ℕ) (r q : Ed.Pt) (k : ℕ), Valid r → Valid q →
    Valid (Ed.smulAux fuel r q k) := by
  intro fuel
  induction fuel with
  | zero => intro r q k hr _; exact hr
  | succ n ih =>
    intro r q k hr hq
    rw [Ed.smulAux]
    by_cases hk : k = 0
    · rw [if_pos hk]; exact hr
    · rw [if_neg hk]
      apply ih _ _ _ _ (valid_add H hq hq)
      split
      · exact valid_add H hr hq
      · exact hr

theorem valid_smul (H : Complete dF) (k : ℕ) {P : Ed.Pt} (hP : Valid P) : Valid (Ed.smul k P) :=
  valid_smulAux H _ _ _ _ valid_zero hP

/-! ### the base point -/
theorem Gy_lt : Ed.Gy < 2 ^ 256 := by decide

set_option maxRecDepth 100000 in
theorem G_isSome : (Ed.decompress Ed.Gy).isSome = true := by decide +kernel

theorem decompress_Gy : Ed.decompress Ed.Gy = some Ed.G := by
  obtain ⟨P, h⟩ := Option.isSome_iff_exists.mp G_isSome
  unfold Ed.G
  rw [h]; rfl

theorem G_valid : Valid Ed.G := decompress_valid Gy_lt decompress_Gy

theorem compress_G : Ed.compress Ed.G = Ed.Gy := compress_decompress Gy_lt decompress_Gy

set_option maxRecDepth 100000 in
/-- `l·G` is the neutral element (kernel evaluation of the reference double-and-add) -/
theorem G_order : Ed.eqPt (Ed.smul Ed.l Ed.G) Ed.zero = true := by decide +kernel

set_option maxRecDepth 100000 in
theorem G_eqPt_zero : Ed.eqPt Ed.G Ed.zero = false := by decide +kernel

theorem G_order_aff (H : Complete dF) : aff (Ed.smul Ed.l Ed.G) = zeroRaw := by
  rw [← aff_zero]
  exact (eqPt_iff (valid_smul H _ G_valid) valid_zero).mp G_order

/-- `G` is not the neutral element (so, `l` being prime, `G` has order exactly `l` once `smul` is `nsmul`) -/
theorem G_ne_zero : aff Ed.G ≠ zeroRaw := by
  rw [← aff_zero]
  intro h
  have := (eqPt_iff G_valid valid_zero).mpr h
  rw [G_eqPt_zero] at this
  exact absurd this (by simp)

/-- why `decompress_spec` / `decompress_valid` assume `k < 2^256`: on a wider integer the sign field can be ≥ 2, and the
reference then returns the unreduced x-coordinate `p` for y = 1 -/
theorem decompress_unreduced_example : Ed.decompress (2 ^ 256 + 1) = some ⟨Ed.p, 1, 1, 0⟩ := by decide +kernel

end Monero.Edw
