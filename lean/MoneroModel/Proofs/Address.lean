import MoneroModel.Model.Address
import MoneroModel.Spec.Address
import MoneroModel.Props.C20
/-! Lemmas about the byte-level address model (`Monero.Address.fromBytes` / `asBytes`), for every checksum function `H`
and every key test `vk`. -/
open Monero
namespace Monero.Address
variable (H : Bytes → Bytes) (vk : Bytes → Bool)

/-- length of the checksummed part -/
def bodyLen (k : Kind) : Nat := if k = .Integrated then 73 else 65

/-- everything the byte parser checked, spelled out -/
theorem fromBytes_some (b : Bytes) (a : Address) (h : fromBytes H vk b = some a) :
    ∃ b0 rest, b = b0 :: rest ∧ fromU8 b0.toNat = some a.net ∧ addrTypeOf a.net b = some (a.kind, a.pid) ∧
      a.spend = (b.drop 1).take 32 ∧ a.view = (b.drop 33).take 32 ∧ vk a.spend = true ∧ vk a.view = true ∧
      b.length = bodyLen a.kind + 4 ∧
      (H (b.take (bodyLen a.kind))).take 4 = (b.drop (bodyLen a.kind)).take 4 := by
  unfold fromBytes at h
  cases b with
  | nil => simp at h
  | cons b0 rest =>
    refine ⟨b0, rest, rfl, ?_⟩
    by_cases hl : rest.length + 1 < 65
    · simp [hl] at h
    · simp only [List.isEmpty_cons, Bool.false_or, List.length_cons, hl, decide_false, Bool.false_eq_true, if_false] at h
      cases hn : fromU8 b0.toNat with
      | none => simp [hn] at h
      | some net =>
        simp only [hn] at h
        cases hk : addrTypeOf net (b0 :: rest) with
        | none => simp [hk] at h
        | some kp =>
          obtain ⟨kind, pid⟩ := kp
          simp only [hk, List.drop_succ_cons, List.drop_zero] at h
          by_cases hs : vk (rest.take 32) = true
          · by_cases hv : vk ((rest.drop 32).take 32) = true
            · simp only [hs, hv, Bool.not_true, Bool.false_eq_true, if_false] at h
              cases kind with
              | Integrated =>
                by_cases h77 : rest.length = 76
                · simp only [h77, bne_self_eq_false, Bool.false_eq_true, if_false] at h
                  split at h
                  · simp at h
                  · rename_i hc
                    simp only [Option.some.injEq] at h
                    subst h
                    simp only [bne_iff_ne, ne_eq, Decidable.not_not] at hc
                    exact ⟨rfl, hk, rfl, rfl, hs, hv, by simp [bodyLen, h77], by simpa [bodyLen] using hc⟩
                · simp [h77] at h
              | Standard =>
                by_cases h69 : rest.length = 68
                · simp only [h69, bne_self_eq_false, Bool.false_eq_true, if_false] at h
                  split at h
                  · simp at h
                  · rename_i hc
                    simp only [Option.some.injEq] at h
                    subst h
                    simp only [bne_iff_ne, ne_eq, Decidable.not_not] at hc
                    exact ⟨rfl, hk, rfl, rfl, hs, hv, by simp [bodyLen, h69], by simpa [bodyLen] using hc⟩
                · simp [h69] at h
              | SubAddress =>
                by_cases h69 : rest.length = 68
                · simp only [h69, bne_self_eq_false, Bool.false_eq_true, if_false] at h
                  split at h
                  · simp at h
                  · rename_i hc
                    simp only [Option.some.injEq] at h
                    subst h
                    simp only [bne_iff_ne, ne_eq, Decidable.not_not] at hc
                    exact ⟨rfl, hk, rfl, rfl, hs, hv, by simp [bodyLen, h69], by simpa [bodyLen] using hc⟩
                · simp [h69] at h
            · simp [hs, hv] at h
          · simp [hs] at h

/-! ### tags (from the facts of C20) -/
theorem untag_some (t : Nat) (n : Net) (k : Kind) (h : Spec.untag t = some (n, k)) : Spec.tag n k = t := by
  unfold Spec.untag at h
  have := List.find?_some h
  simpa using this

theorem tag_lt (n : Net) (k : Kind) : Spec.tag n k < 256 := by cases n <;> cases k <;> decide

theorem toNat_ofNat_tag (n : Net) (k : Kind) : (UInt8.ofNat (Spec.tag n k)).toNat = Spec.tag n k := by
  cases n <;> cases k <;> rfl

/-- what the two table lookups of `from_bytes` establish about the first byte -/
theorem tag_of_lookup (b0 : UInt8) (rest : Bytes) (net : Net) (kind : Kind) (pid : Bytes)
    (hn : fromU8 b0.toNat = some net) (hk : addrTypeOf net (b0 :: rest) = some (kind, pid)) :
    b0.toNat = Spec.tag net kind ∧ Spec.untag b0.toNat = some (net, kind) ∧
      pid = (if kind = .Integrated then ((b0 :: rest).drop 65).take 8 else []) := by
  rw [C20.C20_network_of_byte] at hn
  cases hu : Spec.untag b0.toNat with
  | none => simp [hu] at hn
  | some nk =>
    obtain ⟨n', k'⟩ := nk
    simp only [hu, Option.map_some, Option.some.injEq] at hn
    subst hn
    have ht := untag_some _ _ _ hu
    rw [C20.C20_type_lookup n' k' b0 rest ht.symm] at hk
    cases k' <;> simp at hk
    · obtain ⟨rfl, rfl⟩ := hk; exact ⟨ht.symm, rfl, by simp⟩
    · obtain ⟨_, rfl, rfl⟩ := hk; exact ⟨ht.symm, rfl, by simp⟩
    · obtain ⟨rfl, rfl⟩ := hk; exact ⟨ht.symm, rfl, by simp⟩

/-! ### the serialiser -/
/-- `as_bytes` in one piece -/
theorem asBytes_eq (a : Address) :
    asBytes H a =
      (UInt8.ofNat (Spec.tag a.net a.kind) :: (a.spend ++ (a.view ++ (if a.kind = .Integrated then a.pid else [])))) ++
        (H (UInt8.ofNat (Spec.tag a.net a.kind) :: (a.spend ++ (a.view ++ (if a.kind = .Integrated then a.pid else []))))).take 4 := by
  unfold asBytes
  rw [C20.C20_table]
  by_cases hk : a.kind = .Integrated <;> simp [hk]

/-- for the addresses the constructors build, `as_bytes` is the reference blob -/
theorem asBytes_eq_blob (a : Address) (hp : a.kind ≠ .Integrated → a.pid = []) :
    asBytes H a = Spec.Address.blob H a.net a.kind a.spend a.view a.pid := by
  rw [asBytes_eq]
  unfold Spec.Address.blob
  by_cases hk : a.kind = .Integrated
  · simp [hk]
  · simp [hk, hp hk]

theorem take_split (b0 : UInt8) (rest : Bytes) (n : Nat) :
    (b0 :: rest).take (65 + n) =
      b0 :: (((b0 :: rest).drop 1).take 32 ++ (((b0 :: rest).drop 33).take 32 ++ ((b0 :: rest).drop 65).take n)) := by
  have e : 65 + n = (32 + (32 + n)) + 1 := by omega
  rw [e, List.take_succ_cons, List.take_add, List.take_add]
  simp [List.drop_drop]

/-- an accepted blob is the serialisation of the address returned -/
theorem fromBytes_canonical (b : Bytes) (a : Address) (h : fromBytes H vk b = some a) : asBytes H a = b := by
  obtain ⟨b0, rest, rfl, hn, hk, hs, hv, _, _, hl, hc⟩ := fromBytes_some H vk b a h
  obtain ⟨ht, _, hp⟩ := tag_of_lookup b0 rest a.net a.kind a.pid hn hk
  rw [asBytes_eq, ← ht, UInt8.ofNat_toNat, hs, hv]
  have hbody : (b0 :: rest).take (bodyLen a.kind) =
      b0 :: (((b0 :: rest).drop 1).take 32 ++ (((b0 :: rest).drop 33).take 32 ++ (if a.kind = .Integrated then a.pid else []))) := by
    by_cases hki : a.kind = .Integrated
    · rw [hp]; simp only [hki, bodyLen, if_true]; exact take_split b0 rest 8
    · simp only [hki, bodyLen, if_false]
      have := take_split b0 rest 0
      simpa using this
  rw [← hbody, hc]
  have : ((b0 :: rest).drop (bodyLen a.kind)).take 4 = (b0 :: rest).drop (bodyLen a.kind) :=
    List.take_of_length_le (by rw [List.length_drop, hl]; omega)
  rw [this, List.take_append_drop]
/-! ### serialise, then parse -/
theorem blob_parts (t : UInt8) (s v p c : Bytes) (hs : s.length = 32) (hv : v.length = 32) :
    ((t :: (s ++ (v ++ (p ++ c)))).drop 1).take 32 = s ∧ ((t :: (s ++ (v ++ (p ++ c)))).drop 33).take 32 = v ∧
    (t :: (s ++ (v ++ (p ++ c)))).drop 65 = p ++ c ∧
    (t :: (s ++ (v ++ (p ++ c)))).take (65 + p.length) = t :: (s ++ (v ++ p)) ∧
    (t :: (s ++ (v ++ (p ++ c)))).drop (65 + p.length) = c ∧
    (t :: (s ++ (v ++ (p ++ c)))).length = 65 + p.length + c.length := by
  have d1 : (t :: (s ++ (v ++ (p ++ c)))).drop 33 = v ++ (p ++ c) := by
    rw [List.drop_succ_cons, ← hs, List.drop_left]
  have d2 : (t :: (s ++ (v ++ (p ++ c)))).drop 65 = p ++ c := by
    have : 65 = 33 + 32 := rfl
    rw [this, ← List.drop_drop, d1, ← hv, List.drop_left]
  refine ⟨?_, ?_, d2, ?_, ?_, ?_⟩
  · rw [List.drop_succ_cons, List.drop_zero, ← hs, List.take_left]
  · rw [d1, ← hv, List.take_left]
  · have e : 65 + p.length = (s.length + (v.length + p.length)) + 1 := by omega
    rw [e, List.take_succ_cons]
    have : s ++ (v ++ (p ++ c)) = (s ++ (v ++ p)) ++ c := by simp
    rw [this]
    have l : (s ++ (v ++ p)).length = s.length + (v.length + p.length) := by simp
    rw [← l, List.take_left]
  · rw [← List.drop_drop, d2, List.drop_left]
  · simp; omega

theorem fromBytes_blob (n : Net) (k : Kind) (s v p : Bytes) (hs : s.length = 32) (hv : v.length = 32)
    (hvs : vk s = true) (hvv : vk v = true) (hp : if k = .Integrated then p.length = 8 else p = [])
    (hH : ∀ x, 4 ≤ (H x).length) :
    fromBytes H vk (Spec.Address.blob H n k s v p) = some ⟨n, k, p, s, v⟩ := by
  unfold Spec.Address.blob
  simp only [List.cons_append, List.append_assoc]
  generalize hc : (H (UInt8.ofNat (Spec.tag n k) :: (s ++ (v ++ p)))).take 4 = c
  have hcl : c.length = 4 := by rw [← hc, List.length_take]; have := hH (UInt8.ofNat (Spec.tag n k) :: (s ++ (v ++ p))); omega
  have hc4 : c.take 4 = c := List.take_of_length_le (by omega)
  obtain ⟨e1, e2, e3, e4, e5, e6⟩ := blob_parts (UInt8.ofNat (Spec.tag n k)) s v p c hs hv
  have hnet : fromU8 (UInt8.ofNat (Spec.tag n k)).toNat = some n := by
    rw [toNat_ofNat_tag]; exact C20.C20_network_inverse n k
  have hty : addrTypeOf n (UInt8.ofNat (Spec.tag n k) :: (s ++ (v ++ (p ++ c)))) = some (k, p) := by
    rw [C20.C20_type_lookup n k _ _ (toNat_ofNat_tag n k)]
    by_cases hk : k = .Integrated
    · subst hk
      simp only [if_true] at hp ⊢
      rw [e6, e3, ← hp, List.take_left]
      simp; omega
    · simp only [hk, if_false] at hp ⊢
      rw [hp]
  unfold fromBytes
  simp only [hnet, hty, e1, e2, hvs, hvv, e6, hcl]
  by_cases hk : k = .Integrated
  · subst hk
    simp only [if_true] at hp
    rw [hp] at e4 e5 ⊢
    simp [e4, e5, hc, hc4]
  · simp only [hk, if_false] at hp
    subst hp
    simp only [List.length_nil, Nat.add_zero] at e4 e5
    cases k <;> simp_all
end Monero.Address
