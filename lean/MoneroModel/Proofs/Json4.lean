import MoneroModel.Proofs.TxComplete2
import MoneroModel.Model.Json
/-! Bridge between the two well-formedness predicates (C19 ← C02): every value that satisfies the WIRE predicate of C02
(`wfTx` … of `Proofs/TxComplete*.lean`, DESIGN.md Appendix B: what `consensus::serialize` / `deserialize` round-trip) is a
value of the Rust type in the sense of `Monero.Json.wf…` (widths and lengths only). Core Lean only. -/
namespace Monero.Json

theorem nil_all {α} (P : α → Prop) : ∀ x ∈ ([] : List α), P x := fun _ h => by cases h

theorem wfTxIn_of_wire (i : TxIn) (h : _root_.wfTxIn i) : wfTxIn i := by
  cases i with
  | gen ht => exact h
  | toKey a o k => obtain ⟨ha, ho, hk⟩ := h; exact ⟨ha, ho.1, hk⟩

theorem wfTarget_of_wire (t : Target) (h : _root_.wfTarget t) : wfTarget t := by
  cases t with
  | key k => exact h
  | tagged k v => exact h

theorem wfTxOut_of_wire (o : TxOut) (h : _root_.wfTxOut o) : wfTxOut o := ⟨h.1, wfTarget_of_wire _ h.2⟩

theorem wfPrefix_of_wire (p : Prefix) (h : _root_.wfPrefix p) : wfPrefix p := by
  obtain ⟨hv, hu, hi, ho, _⟩ := h
  exact ⟨hv, hu, fun i hx => wfTxIn_of_wire i (hi.1 i hx), fun o hx => wfTxOut_of_wire o (ho.1 o hx)⟩

theorem wfEcdh_of_wire (ty : Nat) (e : Ecdh) (h : _root_.wfEcdh ty e) : wfEcdh e := by
  cases e with
  | std m a => exact ⟨h.2.1, h.2.2⟩
  | bp a => exact h.2

theorem wfBase_of_wire (i o : Nat) (b : Base) (h : _root_.wfBase i o b) : wfBase b := by
  obtain ⟨hle, h0, hn0⟩ := h
  by_cases hz : b.ty = 0
  · obtain ⟨hf, hp, he, hk⟩ := h0 hz
    refine ⟨by omega, ?_, ?_, ?_, ?_⟩
    · rw [hf]; decide
    · rw [hp]; exact nil_all _
    · rw [he]; exact nil_all _
    · rw [hk]; exact nil_all _
  · obtain ⟨hf, hp, _, he, hk⟩ := hn0 hz
    refine ⟨by omega, hf, ?_, fun e he' => wfEcdh_of_wire b.ty e (he e he'), hk.2.1⟩
    by_cases h2 : b.ty = 2
    · simp only [h2, if_true] at hp; exact hp.2.1
    · simp only [h2, if_false] at hp; rw [hp]; exact nil_all _

theorem wfBP_of_wire (x : BP) (h : _root_.wfBP x) : wfBP x := ⟨h.1, h.2.1.1, h.2.2.1.1, h.2.2.2⟩
theorem wfBPP_of_wire (x : BPP) (h : _root_.wfBPP x) : wfBPP x := ⟨h.1, h.2.1.1, h.2.2.1⟩
theorem wfClsag_of_wire (m : Nat) (c : Clsag) (h : _root_.wfClsag m c) : wfClsag c := ⟨h.2.1, h.2.2.1, h.2.2.2⟩
theorem wfMG_of_wire (cols m : Nat) (g : MG) (h : _root_.wfMG cols m g) : wfMG g :=
  ⟨fun r hr => (h.2.1 r hr).2.1, h.2.2⟩

theorem wfProofs_of_wire (ty o : Nat) (rs : List Bytes) (bps : List BP) (bpps : List BPP)
    (h : _root_.wfProofs ty o rs bps bpps) :
    (∀ r ∈ rs, r.length = 6176) ∧ (∀ x ∈ bps, wfBP x) ∧ (∀ x ∈ bpps, wfBPP x) := by
  unfold _root_.wfProofs at h
  by_cases h45 : ty = 4 ∨ ty = 5
  · simp only [h45, if_true] at h
    obtain ⟨rfl, rfl, hv⟩ := h
    exact ⟨nil_all _, fun x hx => wfBP_of_wire x (hv.1 x hx), nil_all _⟩
  · simp only [h45, if_false] at h
    by_cases h3 : ty = 3
    · simp only [h3, if_true] at h
      obtain ⟨rfl, rfl, hw, _, _⟩ := h
      exact ⟨nil_all _, fun x hx => wfBP_of_wire x (hw x hx), nil_all _⟩
    · simp only [h3, if_false] at h
      by_cases h6 : ty = 6
      · simp only [h6, if_true] at h
        obtain ⟨rfl, rfl, hw, _, _⟩ := h
        exact ⟨nil_all _, nil_all _, fun x hx => wfBPP_of_wire x (hw x hx)⟩
      · simp only [h6, if_false] at h
        obtain ⟨rfl, rfl, _, hw, _⟩ := h
        exact ⟨hw, nil_all _, nil_all _⟩

theorem wfSigs_of_wire (ty i m : Nat) (ms : List MG) (cs : List Clsag) (h : _root_.wfSigs ty i m ms cs) :
    (∀ g ∈ ms, wfMG g) ∧ (∀ c ∈ cs, wfClsag c) := by
  unfold _root_.wfSigs at h
  by_cases h56 : ty = 5 ∨ ty = 6
  · simp only [h56, if_true] at h
    obtain ⟨rfl, _, hw⟩ := h
    exact ⟨nil_all _, fun c hc => wfClsag_of_wire m c (hw c hc)⟩
  · simp only [h56, if_false] at h
    obtain ⟨rfl, _, hw⟩ := h
    exact ⟨fun g hg => wfMG_of_wire _ m g (hw g hg), nil_all _⟩

theorem wfPseudo_of_wire (ty i : Nat) (po : List Bytes) (h : _root_.wfPseudo ty i po) : ∀ k ∈ po, k.length = 32 := by
  unfold _root_.wfPseudo at h
  by_cases h3 : ty ≥ 3
  · simp only [h3, if_true] at h; exact h.2.1
  · simp only [h3, if_false] at h; rw [h]; exact nil_all _

theorem wfPrunable_of_wire (ty i o m : Nat) (p : Prunable) (h : _root_.wfPrunable ty i o m p) : wfPrunable p := by
  obtain ⟨h1, h2, h3⟩ := h
  obtain ⟨a, b, c⟩ := wfProofs_of_wire ty o _ _ _ h1
  obtain ⟨d, e⟩ := wfSigs_of_wire ty i m _ _ h2
  exact ⟨a, b, c, d, e, wfPseudo_of_wire ty i _ h3⟩

theorem wfSigsV1_of_wire : ∀ (rings : List Nat) (ss : List (List Bytes)), _root_.wfSigsV1 rings ss →
    ∀ r ∈ ss, ∀ s ∈ r, s.length = 64
  | [], ss, h => by simp only [_root_.wfSigsV1] at h; rw [h]; exact nil_all _
  | n :: t, ss, h => by
    obtain ⟨s, rest, rfl, _, hw, ht⟩ := h
    intro r hr
    rcases List.mem_cons.mp hr with rfl | hr
    · exact hw
    · exact wfSigsV1_of_wire t rest ht r hr

theorem wfTx_of_wire (t : Tx) (h : _root_.wfTx t) : wfTx t := by
  obtain ⟨hp, h1, h2⟩ := h
  refine ⟨wfPrefix_of_wire _ hp, ?_, ?_, ?_⟩
  · by_cases hv : t.pre.version = 1
    · exact wfSigsV1_of_wire _ _ (h1 hv).1
    · rw [(h2 hv).1]; exact nil_all _
  · intro b hb
    by_cases hv : t.pre.version = 1
    · rw [(h1 hv).2.1] at hb; cases hb
    · obtain ⟨_, he, hne⟩ := h2 hv
      by_cases hi : t.pre.ins = []
      · rw [(he hi).1] at hb; cases hb
      · obtain ⟨b', hb', hw, _, _⟩ := hne hi
        rw [hb'] at hb; cases hb
        exact wfBase_of_wire _ _ _ hw
  · intro p hpp
    by_cases hv : t.pre.version = 1
    · rw [(h1 hv).2.2] at hpp; cases hpp
    · obtain ⟨_, he, hne⟩ := h2 hv
      by_cases hi : t.pre.ins = []
      · rw [(he hi).2] at hpp; cases hpp
      · obtain ⟨b', _, _, hz, hnz⟩ := hne hi
        by_cases hty : b'.ty = 0
        · rw [hz hty] at hpp; cases hpp
        · obtain ⟨_, p', hp', hw⟩ := hnz hty
          rw [hp'] at hpp; cases hpp
          exact wfPrunable_of_wire _ _ _ _ _ hw

theorem wfHeader_of_wire (h : Header) (hw : _root_.wfHeader h) : wfHeader h := hw

theorem wfBlock_of_wire (b : Block) (h : _root_.wfBlock b) : wfBlock b :=
  ⟨wfHeader_of_wire _ h.1, wfTx_of_wire _ h.2.1, h.2.2.1⟩

end Monero.Json
