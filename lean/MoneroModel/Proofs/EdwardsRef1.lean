import MoneroModel.Proofs.KeysRef
import MoneroModel.Proofs.EdwardsRaw
import Mathlib.Tactic.FieldSimp
import Mathlib.Tactic.LinearCombination
import Mathlib.Tactic.Ring
/-! Refinement of the raw affine twisted-Edwards law (`Proofs/EdwardsRaw.lean`) by the executable extended-coordinate
reference `Ref/Ed25519.lean`, part 1: the invariant `Valid`, the abstraction `aff`, and `zero` / `add` / `neg` / `sub` /
`eqPt`. Non-vanishing of the denominators of the addition law is taken as the explicit hypothesis `Complete dF`
(discharged by the group-law file from `nonsquare_d` and `isSquare_neg_one`, both proved here). -/
namespace Monero.Edw
open Ed Monero.Keys

/-! ### generic field lemmas -/
section generic
variable {K : Type} [Field K]

/-- the sum of two curve points is on the curve (given non-vanishing denominators) -/
theorem closure_poly (d x1 y1 x2 y2 : K)
    (h1 : -x1 ^ 2 + y1 ^ 2 = 1 + d * x1 ^ 2 * y1 ^ 2) (h2 : -x2 ^ 2 + y2 ^ 2 = 1 + d * x2 ^ 2 * y2 ^ 2) :
    -(x1 * y2 + y1 * x2) ^ 2 * (1 - d * x1 * x2 * y1 * y2) ^ 2 + (y1 * y2 + x1 * x2) ^ 2 * (1 + d * x1 * x2 * y1 * y2) ^ 2
      = (1 + d * x1 * x2 * y1 * y2) ^ 2 * (1 - d * x1 * x2 * y1 * y2) ^ 2
        + d * (x1 * y2 + y1 * x2) ^ 2 * (y1 * y2 + x1 * x2) ^ 2 := by
  linear_combination
    (d^3*x1^2*x2^4*y1^2*y2^4 - d^2*x1^2*x2^4*y2^4 + d^2*x2^4*y1^2*y2^4 - d^2*x2^4*y2^4 - d*x1^2*x2^4*y2^2
      + d*x1^2*x2^2*y2^4 + d*x2^4*y1^2*y2^2 - 2*d*x2^4*y2^4 - d*x2^2*y1^2*y2^4 - 2*d*x2^2*y2^2 - 2*x2^4*y2^2 + x2^4
      + 2*x2^2*y2^4 - 4*x2^2*y2^2 + y2^4) * h1
    + (d*x1^4*x2^2*y2^2 + 2*d*x1^2*x2^2*y2^2 + d*x2^2*y1^4*y2^2 - 2*d*x2^2*y1^2*y2^2 + d*x2^2*y2^2 + 2*x1^2*x2^2*y2^2
      - x1^2*x2^2 + x1^2*y2^2 - 2*x2^2*y1^2*y2^2 + x2^2*y1^2 + 2*x2^2*y2^2 - x2^2 - y1^2*y2^2 + y2^2 + 1) * h2

theorem onCurve_addRaw (d : K) (P Q : K × K) (hP : OnCurve d P) (hQ : OnCurve d Q)
    (hu : 1 + d * P.1 * Q.1 * P.2 * Q.2 ≠ 0) (hv : 1 - d * P.1 * Q.1 * P.2 * Q.2 ≠ 0) : OnCurve d (addRaw d P Q) := by
  obtain ⟨x1, y1⟩ := P
  obtain ⟨x2, y2⟩ := Q
  unfold OnCurve at *
  unfold addRaw
  simp only at *
  have key := closure_poly d x1 y1 x2 y2 hP hQ
  obtain ⟨a, ha⟩ : ∃ a, x1 * y2 + y1 * x2 = a * (1 + d * x1 * x2 * y1 * y2) := ⟨_ / _, (div_mul_cancel₀ _ hu).symm⟩
  obtain ⟨b, hb⟩ : ∃ b, y1 * y2 + x1 * x2 = b * (1 - d * x1 * x2 * y1 * y2) := ⟨_ / _, (div_mul_cancel₀ _ hv).symm⟩
  rw [ha, hb] at key ⊢
  rw [mul_div_cancel_right₀ _ hu, mul_div_cancel_right₀ _ hv]
  apply mul_left_cancel₀ (mul_ne_zero (pow_ne_zero 2 hu) (pow_ne_zero 2 hv))
  linear_combination key

theorem onCurve_negRaw (d : K) (P : K × K) (hP : OnCurve d P) : OnCurve d (negRaw P) := by
  unfold OnCurve negRaw at *
  simp only
  rw [neg_sq]; exact hP

theorem onCurve_zeroRaw (d : K) : OnCurve d (zeroRaw : K × K) := by
  unfold OnCurve zeroRaw; simp

/-- add-2008-hwcd-3 (a = −1) computes the affine law -/
theorem add_core (d X1 Y1 Z1 T1 X2 Y2 Z2 T2 : K) (h2 : (2 : K) ≠ 0) (hz1 : Z1 ≠ 0) (hz2 : Z2 ≠ 0)
    (ht1 : X1 * Y1 = Z1 * T1) (ht2 : X2 * Y2 = Z2 * T2)
    (hu : 1 + d * (X1 / Z1) * (X2 / Z2) * (Y1 / Z1) * (Y2 / Z2) ≠ 0)
    (hv : 1 - d * (X1 / Z1) * (X2 / Z2) * (Y1 / Z1) * (Y2 / Z2) ≠ 0) :
    (Z1 * 2 * Z2 - T1 * 2 * d * T2) * (Z1 * 2 * Z2 + T1 * 2 * d * T2) ≠ 0 ∧
    (((Y1 + X1) * (Y2 + X2) - (Y1 - X1) * (Y2 - X2)) * (Z1 * 2 * Z2 - T1 * 2 * d * T2)) /
        ((Z1 * 2 * Z2 - T1 * 2 * d * T2) * (Z1 * 2 * Z2 + T1 * 2 * d * T2))
      = ((X1 / Z1) * (Y2 / Z2) + (Y1 / Z1) * (X2 / Z2)) / (1 + d * (X1 / Z1) * (X2 / Z2) * (Y1 / Z1) * (Y2 / Z2)) ∧
    ((Z1 * 2 * Z2 + T1 * 2 * d * T2) * ((Y1 + X1) * (Y2 + X2) + (Y1 - X1) * (Y2 - X2))) /
        ((Z1 * 2 * Z2 - T1 * 2 * d * T2) * (Z1 * 2 * Z2 + T1 * 2 * d * T2))
      = ((Y1 / Z1) * (Y2 / Z2) + (X1 / Z1) * (X2 / Z2)) / (1 - d * (X1 / Z1) * (X2 / Z2) * (Y1 / Z1) * (Y2 / Z2)) := by
  obtain ⟨x1, rfl⟩ : ∃ x1, X1 = x1 * Z1 := ⟨X1 / Z1, by field_simp⟩
  obtain ⟨y1, rfl⟩ : ∃ y1, Y1 = y1 * Z1 := ⟨Y1 / Z1, by field_simp⟩
  obtain ⟨x2, rfl⟩ : ∃ x2, X2 = x2 * Z2 := ⟨X2 / Z2, by field_simp⟩
  obtain ⟨y2, rfl⟩ : ∃ y2, Y2 = y2 * Z2 := ⟨Y2 / Z2, by field_simp⟩
  obtain rfl : T1 = x1 * y1 * Z1 := by
    apply mul_left_cancel₀ hz1; linear_combination -ht1
  obtain rfl : T2 = x2 * y2 * Z2 := by
    apply mul_left_cancel₀ hz2; linear_combination -ht2
  simp only [mul_div_cancel_right₀ _ hz1, mul_div_cancel_right₀ _ hz2] at hu hv ⊢
  have hF : Z1 * 2 * Z2 - x1 * y1 * Z1 * 2 * d * (x2 * y2 * Z2) = 2 * Z1 * Z2 * (1 - d * x1 * x2 * y1 * y2) := by ring
  have hG : Z1 * 2 * Z2 + x1 * y1 * Z1 * 2 * d * (x2 * y2 * Z2) = 2 * Z1 * Z2 * (1 + d * x1 * x2 * y1 * y2) := by ring
  rw [hF, hG]
  have hc : 2 * Z1 * Z2 ≠ 0 := mul_ne_zero (mul_ne_zero h2 hz1) hz2
  refine ⟨mul_ne_zero (mul_ne_zero hc hv) (mul_ne_zero hc hu), ?_, ?_⟩
  · rw [div_eq_div_iff (mul_ne_zero (mul_ne_zero hc hv) (mul_ne_zero hc hu)) hu]; ring
  · rw [div_eq_div_iff (mul_ne_zero (mul_ne_zero hc hv) (mul_ne_zero hc hu)) hv]; ring
end generic

/-! ### the invariant -/
def dF : F := (Ed.d : F)

/-- affine point represented by extended coordinates -/
def aff (P : Ed.Pt) : F × F := ((P.x : F) / (P.z : F), (P.y : F) / (P.z : F))

/-- all four coordinates are reduced modulo p (true of every point the reference produces; needed because
`Ed.add` / `Ed.eqPt` subtract on `Nat` after adding `p`, resp. `p·p`) -/
def Reduced (P : Ed.Pt) : Prop := P.x < Ed.p ∧ P.y < Ed.p ∧ P.z < Ed.p ∧ P.t < Ed.p

/-- reduced extended coordinates of a point on the curve: Z ≠ 0, X·Y = Z·T, (X/Z, Y/Z) on the curve -/
def Valid (P : Ed.Pt) : Prop :=
  Reduced P ∧ (P.z : F) ≠ 0 ∧ (P.x : F) * (P.y : F) = (P.z : F) * (P.t : F) ∧ OnCurve dF (aff P)

/-- the addition law is complete (no exceptional pairs) -/
def Complete (d : F) : Prop :=
  ∀ P Q : F × F, OnCurve d P → OnCurve d Q →
    1 + d * P.1 * Q.1 * P.2 * Q.2 ≠ 0 ∧ 1 - d * P.1 * Q.1 * P.2 * Q.2 ≠ 0

theorem Valid.reduced {P : Ed.Pt} (h : Valid P) : Reduced P := h.1
theorem Valid.z_ne {P : Ed.Pt} (h : Valid P) : (P.z : F) ≠ 0 := h.2.1
theorem Valid.xy {P : Ed.Pt} (h : Valid P) : (P.x : F) * (P.y : F) = (P.z : F) * (P.t : F) := h.2.2.1
theorem Valid.onCurve {P : Ed.Pt} (h : Valid P) : OnCurve dF (aff P) := h.2.2.2

/-! ### the two facts the completeness proof needs -/
theorem isSquare_neg_one : IsSquare (-1 : F) := ⟨(sqrtm1 : F), i_sq.symm⟩

theorem nonsquare_d : ¬ IsSquare dF := by
  rintro ⟨r, hr⟩
  have hd := d_nonresidue
  have hr0 : r ≠ 0 := by
    rintro rfl
    have : (Ed.d : F) = 0 := by simpa [dF] using hr
    rw [this, zero_pow (by decide)] at hd
    exact one_ne_zero (α := F) (by linear_combination hd)
  have : (Ed.d : F) ^ (4 * e8 + 2) = r ^ (8 * e8 + 4) := by
    have : (Ed.d : F) = r * r := hr
    rw [this]; ring
  rw [this, fermat r hr0] at hd
  exact neg_one_ne_one hd.symm

theorem two_ne_zero_F : (2 : F) ≠ 0 := by
  intro h
  apply neg_one_ne_one
  linear_combination (-1 : F) * h

/-! ### casts -/
theorem cast_sub_p (a b : ℕ) (hb : b ≤ a + Ed.p) : ((a + Ed.p - b : ℕ) : F) = (a : F) - b := by
  rw [Nat.cast_sub hb]; push_cast; rw [cast_p]; ring

theorem cast_sub_pp_mod_zero (a b : ℕ) (hb : b ≤ Ed.p * Ed.p) : (a + Ed.p * Ed.p - b) % Ed.p = 0 ↔ (a : F) = (b : F) := by
  have h1 : (((a + Ed.p * Ed.p - b : ℕ)) : F) = (a : F) - b := by
    rw [Nat.cast_sub (by omega)]; push_cast; rw [cast_p]; ring
  constructor
  · intro h
    have : (((a + Ed.p * Ed.p - b : ℕ)) : F) = ((0 : ℕ) : F) := (cast_eq_iff _ _).mpr (by rw [h]; simp)
    rw [h1] at this
    simpa [sub_eq_zero] using this
  · intro h
    have : (((a + Ed.p * Ed.p - b : ℕ)) : F) = ((0 : ℕ) : F) := by rw [h1, h]; simp
    have := (cast_eq_iff _ _).mp this
    simpa using this

theorem mod_p_lt (a : ℕ) : a % Ed.p < Ed.p := Nat.mod_lt _ p_pos

/-! ### zero -/
theorem reduced_zero : Reduced Ed.zero := by
  have : 1 < Ed.p := p_gt_one
  unfold Reduced Ed.zero; simp only; omega

theorem aff_zero : aff Ed.zero = zeroRaw := by
  unfold aff Ed.zero zeroRaw; simp

theorem valid_zero : Valid Ed.zero := by
  refine ⟨reduced_zero, ?_, ?_, ?_⟩
  · simp [Ed.zero]
  · simp [Ed.zero]
  · rw [aff_zero]; exact onCurve_zeroRaw _

/-! ### addition -/
theorem reduced_add (a b : Ed.Pt) : Reduced (Ed.add a b) :=
  ⟨mod_p_lt _, mod_p_lt _, mod_p_lt _, mod_p_lt _⟩

/-- the coordinates of `Ed.add a b` as field elements -/
theorem add_cast (a b : Ed.Pt) (ha : a.x < Ed.p) (hb : b.x < Ed.p) :
    ((Ed.add a b).x : F) = (((a.y : F) + a.x) * ((b.y : F) + b.x) - ((a.y : F) - a.x) * ((b.y : F) - b.x)) *
        ((a.z : F) * 2 * b.z - (a.t : F) * 2 * dF * b.t) ∧
    ((Ed.add a b).y : F) = ((a.z : F) * 2 * b.z + (a.t : F) * 2 * dF * b.t) *
        (((a.y : F) + a.x) * ((b.y : F) + b.x) + ((a.y : F) - a.x) * ((b.y : F) - b.x)) ∧
    ((Ed.add a b).z : F) = ((a.z : F) * 2 * b.z - (a.t : F) * 2 * dF * b.t) *
        ((a.z : F) * 2 * b.z + (a.t : F) * 2 * dF * b.t) ∧
    ((Ed.add a b).t : F) = (((a.y : F) + a.x) * ((b.y : F) + b.x) - ((a.y : F) - a.x) * ((b.y : F) - b.x)) *
        (((a.y : F) + a.x) * ((b.y : F) + b.x) + ((a.y : F) - a.x) * ((b.y : F) - b.x)) := by
  have hA : (((a.y + Ed.p - a.x) * (b.y + Ed.p - b.x) % Ed.p : ℕ) : F) = ((a.y : F) - a.x) * ((b.y : F) - b.x) := by
    rw [cast_mod, Nat.cast_mul, cast_sub_p _ _ (by omega), cast_sub_p _ _ (by omega)]
  have hB : (((a.y + a.x) * (b.y + b.x) % Ed.p : ℕ) : F) = ((a.y : F) + a.x) * ((b.y : F) + b.x) := by
    rw [cast_mod]; push_cast; rfl
  have hC : ((a.t * 2 * Ed.d % Ed.p * b.t % Ed.p : ℕ) : F) = (a.t : F) * 2 * dF * b.t := by
    rw [cast_mod, Nat.cast_mul, cast_mod]; push_cast; rfl
  have hD : ((a.z * 2 * b.z % Ed.p : ℕ) : F) = (a.z : F) * 2 * b.z := by
    rw [cast_mod]; push_cast; rfl
  have hAlt := mod_p_lt ((a.y + Ed.p - a.x) * (b.y + Ed.p - b.x))
  have hClt := mod_p_lt (a.t * 2 * Ed.d % Ed.p * b.t)
  unfold Ed.add
  simp only
  generalize (a.y + Ed.p - a.x) * (b.y + Ed.p - b.x) % Ed.p = A at *
  generalize (a.y + a.x) * (b.y + b.x) % Ed.p = B at *
  generalize a.t * 2 * Ed.d % Ed.p * b.t % Ed.p = C at *
  generalize a.z * 2 * b.z % Ed.p = D at *
  have hE : (((B + Ed.p - A) % Ed.p : ℕ) : F) = (B : F) - A := by rw [cast_mod, cast_sub_p _ _ (by omega)]
  have hF : (((D + Ed.p - C) % Ed.p : ℕ) : F) = (D : F) - C := by rw [cast_mod, cast_sub_p _ _ (by omega)]
  have hG : (((D + C) % Ed.p : ℕ) : F) = (D : F) + C := by rw [cast_mod]; push_cast; rfl
  have hH : (((B + A) % Ed.p : ℕ) : F) = (B : F) + A := by rw [cast_mod]; push_cast; rfl
  refine ⟨?_, ?_, ?_, ?_⟩ <;>
    rw [cast_mod, Nat.cast_mul] <;> simp only [hE, hF, hG, hH, hA, hB, hC, hD]

theorem add_spec (H : Complete dF) {a b : Ed.Pt} (ha : Valid a) (hb : Valid b) :
    ((Ed.add a b).z : F) ≠ 0 ∧ aff (Ed.add a b) = addRaw dF (aff a) (aff b) := by
  obtain ⟨hx, hy, hz, -⟩ := add_cast a b ha.reduced.1 hb.reduced.1
  obtain ⟨hu, hv⟩ := H _ _ ha.onCurve hb.onCurve
  obtain ⟨h0, h1, h2⟩ := add_core dF (a.x : F) a.y a.z a.t b.x b.y b.z b.t two_ne_zero_F ha.z_ne hb.z_ne ha.xy hb.xy hu hv
  refine ⟨by rw [hz]; exact h0, ?_⟩
  unfold aff addRaw
  simp only
  rw [hx, hy, hz, h1, h2]

theorem aff_add (H : Complete dF) {a b : Ed.Pt} (ha : Valid a) (hb : Valid b) :
    aff (Ed.add a b) = addRaw dF (aff a) (aff b) := (add_spec H ha hb).2

theorem valid_add (H : Complete dF) {a b : Ed.Pt} (ha : Valid a) (hb : Valid b) : Valid (Ed.add a b) := by
  obtain ⟨hz, haff⟩ := add_spec H ha hb
  refine ⟨reduced_add a b, hz, ?_, ?_⟩
  · obtain ⟨hx, hy, hz', ht⟩ := add_cast a b ha.reduced.1 hb.reduced.1
    rw [hx, hy, hz', ht]; ring
  · rw [haff]
    obtain ⟨hu, hv⟩ := H _ _ ha.onCurve hb.onCurve
    exact onCurve_addRaw dF _ _ ha.onCurve hb.onCurve hu hv

/-! ### negation, subtraction -/
theorem neg_cast (a : Ed.Pt) :
    ((Ed.neg a).x : F) = -(a.x : F) ∧ (Ed.neg a).y = a.y ∧ (Ed.neg a).z = a.z ∧ ((Ed.neg a).t : F) = -(a.t : F) := by
  refine ⟨?_, rfl, rfl, ?_⟩
  · show (((Ed.p - a.x % Ed.p) % Ed.p : ℕ) : F) = _
    rw [cast_neg _ (mod_p_lt _), cast_mod]
  · show (((Ed.p - a.t % Ed.p) % Ed.p : ℕ) : F) = _
    rw [cast_neg _ (mod_p_lt _), cast_mod]

theorem reduced_neg {a : Ed.Pt} (ha : Reduced a) : Reduced (Ed.neg a) :=
  ⟨mod_p_lt _, ha.2.1, ha.2.2.1, mod_p_lt _⟩

theorem aff_neg (a : Ed.Pt) : aff (Ed.neg a) = negRaw (aff a) := by
  obtain ⟨hx, hy, hz, -⟩ := neg_cast a
  unfold aff negRaw
  simp only
  rw [hx, hy, hz, neg_div]

theorem valid_neg {a : Ed.Pt} (ha : Valid a) : Valid (Ed.neg a) := by
  obtain ⟨hx, hy, hz, ht⟩ := neg_cast a
  refine ⟨reduced_neg ha.reduced, by rw [hz]; exact ha.z_ne, ?_, ?_⟩
  · rw [hx, hy, hz, ht]; linear_combination (-1 : F) * ha.xy
  · rw [aff_neg]; exact onCurve_negRaw _ _ ha.onCurve

theorem aff_sub (H : Complete dF) {a b : Ed.Pt} (ha : Valid a) (hb : Valid b) :
    aff (Ed.sub a b) = addRaw dF (aff a) (negRaw (aff b)) := by
  unfold Ed.sub; rw [aff_add H ha (valid_neg hb), aff_neg]

theorem valid_sub (H : Complete dF) {a b : Ed.Pt} (ha : Valid a) (hb : Valid b) : Valid (Ed.sub a b) :=
  valid_add H ha (valid_neg hb)

/-! ### projective equality -/
theorem eqPt_iff {a b : Ed.Pt} (ha : Valid a) (hb : Valid b) : Ed.eqPt a b = true ↔ aff a = aff b := by
  have hbound : ∀ u v : ℕ, u < Ed.p → v < Ed.p → u * v ≤ Ed.p * Ed.p := fun u v hu hv =>
    Nat.mul_le_mul (Nat.le_of_lt hu) (Nat.le_of_lt hv)
  obtain ⟨hax, hay, haz, -⟩ := ha.reduced
  obtain ⟨hbx, hby, hbz, -⟩ := hb.reduced
  unfold Ed.eqPt aff
  rw [Bool.and_eq_true, beq_iff_eq, beq_iff_eq, cast_sub_pp_mod_zero _ _ (hbound _ _ hbx haz),
    cast_sub_pp_mod_zero _ _ (hbound _ _ hby haz), Prod.mk.injEq, div_eq_div_iff ha.z_ne hb.z_ne,
    div_eq_div_iff ha.z_ne hb.z_ne]
  push_cast
  exact Iff.rfl

end Monero.Edw
