import MoneroModel.Proofs.AddressForms
import MoneroModel.Proofs.AddressSpec
/-! The hex and consensus forms of an address agree with the by-the-book forms of `Spec.Address` (G07). -/
open Monero
namespace Monero.HexM

/-! ### `hex::encode` = by-the-book lowercase hexadecimal -/
private def encRowOk (n : Nat) : Bool :=
  HEX_CHARS_LOWER.getD (n >>> 4) 0 == UInt8.ofNat (if n / 16 < 10 then 48 + n / 16 else 87 + n / 16) &&
  HEX_CHARS_LOWER.getD (n &&& 15) 0 == UInt8.ofNat (if n % 16 < 10 then 48 + n % 16 else 87 + n % 16)
private theorem encTable : ∀ n, n < 256 → encRowOk n = true := by decide +kernel

theorem encode_byte_spec (x : UInt8) :
    HEX_CHARS_LOWER.getD (x.toNat >>> 4) 0 = UInt8.ofNat (if x.toNat / 16 < 10 then 48 + x.toNat / 16 else 87 + x.toNat / 16) ∧
    HEX_CHARS_LOWER.getD (x.toNat &&& 15) 0 = UInt8.ofNat (if x.toNat % 16 < 10 then 48 + x.toNat % 16 else 87 + x.toNat % 16) := by
  have := encTable x.toNat x.toNat_lt
  simp only [encRowOk, Bool.and_eq_true, beq_iff_eq] at this
  exact this

/-- Helper A: `hex::encode` is the by-the-book lowercase hexadecimal -/
theorem encode_eq_hexOf : ∀ b : Bytes, encode b = Spec.Address.hexOf b
  | [] => rfl
  | x :: r => by
    obtain ⟨h1, h2⟩ := encode_byte_spec x
    have ih := encode_eq_hexOf r
    simp only [Spec.Address.hexOf, List.flatMap_cons, List.cons_append, List.nil_append] at ih ⊢
    rw [encode, h1, h2, ih]

/-! ### `hex::decode` = by-the-book hexadecimal reader -/
private def valRowOk (n : Nat) : Bool :=
  val (UInt8.ofNat n) == Spec.Address.hexDigit (UInt8.ofNat n) &&
  (match val (UInt8.ofNat n) with | some x => decide (x < 16) | none => true)
private theorem valTable : ∀ n, n < 256 → valRowOk n = true := by decide +kernel

/-- Helper B1: the digit value function of the `hex` crate is the by-the-book one -/
theorem val_eq_hexDigit (c : UInt8) : val c = Spec.Address.hexDigit c := by
  have := valTable c.toNat c.toNat_lt
  simp only [valRowOk, Bool.and_eq_true, beq_iff_eq, UInt8.ofNat_toNat] at this
  exact this.1

theorem val_lt (c : UInt8) (x : Nat) (h : val c = some x) : x < 16 := by
  have := valTable c.toNat c.toNat_lt
  simp only [valRowOk, Bool.and_eq_true, UInt8.ofNat_toNat, h, decide_eq_true_eq] at this
  exact this.2

private def nibRowOk (n : Nat) : Bool := ((n / 16) <<< 4) ||| (n % 16) == 16 * (n / 16) + n % 16
private theorem nibTable : ∀ n, n < 256 → nibRowOk n = true := by decide +kernel

/-- Helper B2: `(x << 4) | y = 16·x + y` for two nibbles -/
theorem shl_or_nibble (x y : Nat) (hx : x < 16) (hy : y < 16) : (x <<< 4) ||| y = 16 * x + y := by
  have := nibTable (16 * x + y) (by omega)
  simp only [nibRowOk, beq_iff_eq] at this
  have e1 : (16 * x + y) / 16 = x := by omega
  have e2 : (16 * x + y) % 16 = y := by omega
  rw [e1, e2] at this
  exact this

/-- on an even number of characters the pair reader is the by-the-book reader; on an odd number the latter fails -/
theorem pairs_unhex : ∀ s : List UInt8,
    (s.length % 2 = 0 → pairs s = Spec.Address.unhexDigits s) ∧ (s.length % 2 = 1 → Spec.Address.unhexDigits s = none)
  | [] => ⟨fun _ => rfl, fun h => by simp at h⟩
  | [_] => ⟨fun h => by simp at h, fun _ => rfl⟩
  | a :: b :: t => by
    obtain ⟨ih0, ih1⟩ := pairs_unhex t
    have hl : (a :: b :: t).length % 2 = t.length % 2 := by simp only [List.length_cons]; omega
    rw [hl]
    constructor
    · intro h
      rw [pairs, Spec.Address.unhexDigits, ← val_eq_hexDigit, ← val_eq_hexDigit, ← ih0 h]
      cases ha : val a with
      | none => rfl
      | some x =>
        cases hb : val b with
        | none => rfl
        | some y =>
          have e := shl_or_nibble x y (val_lt a x ha) (val_lt b y hb)
          cases pairs t with
          | none => rfl
          | some r => simp only [e]
    · intro h
      rw [Spec.Address.unhexDigits, ih1 h]
      cases Spec.Address.hexDigit a <;> cases Spec.Address.hexDigit b <;> rfl

/-- Helper B: `hex::decode` is the by-the-book hexadecimal reader, on every input -/
theorem decode_eq_unhexDigits (s : List UInt8) : decode s = Spec.Address.unhexDigits s := by
  unfold decode
  obtain ⟨h0, h1⟩ := pairs_unhex s
  by_cases h : s.length % 2 = 0
  · rw [if_neg (by simpa using h)]; exact h0 h
  · rw [if_pos h]; exact (h1 (by omega)).symm
end Monero.HexM

namespace Monero.Address
variable (H : Bytes → Bytes) (vk : Bytes → Bool)

/-- Helper C: `strip_prefix("0x").unwrap_or(hex)` is the by-the-book optional prefix -/
theorem stripPrefix0x_eq (s : List UInt8) : stripPrefix0x s = (match s with | 48 :: 120 :: t => t | _ => s) := by
  unfold stripPrefix0x
  split
  · rfl
  · rename_i hne
    split
    · exact absurd rfl (hne _)
    · rfl

/-- a one-byte varint -/
theorem encVarint_small (n : Nat) (h : n < 128) : encVarint n = [UInt8.ofNat n] := by
  rw [encVarint, dif_pos h]

theorem flatten_singletons : ∀ xs : Bytes, (xs.map fun b => [b]).flatten = xs
  | [] => rfl
  | x :: r => by simp only [List.map_cons, List.flatten_cons, flatten_singletons r, List.cons_append, List.nil_append]

/-- the consensus form of a short byte string: one length byte, then the bytes -/
theorem encVec_bytes_small (xs : Bytes) (h : xs.length < 128) :
    encVec (fun b => [b]) xs = UInt8.ofNat xs.length :: xs := by
  rw [encVec, encVarint_small _ h, flatten_singletons]; rfl

/-- `consensus_encode` of a well-formed address, by the book -/
theorem consensusEncode_eq_spec (a : Address) (hw : WF vk a) (hH : ∀ x, 4 ≤ (H x).length) :
    consensusEncode H a =
      UInt8.ofNat (if a.kind = .Integrated then 77 else 69) :: Spec.Address.blob H a.net a.kind a.spend a.view a.pid := by
  obtain ⟨hs, hv, _, _, hp⟩ := hw
  have hpid : a.kind ≠ .Integrated → a.pid = [] := fun hk => by simpa [hk] using hp
  have hl := blob_length H a.net a.kind a.spend a.view a.pid hs hv hp hH
  rw [consensusEncode, asBytes_eq_blob H a hpid, encVec_bytes_small _ (by rw [hl]; split <;> omega), hl]

/-- the by-the-book consensus parser on a length byte followed by that many bytes and anything else -/
theorem parseConsensus_cons (l : UInt8) (blob rest : Bytes) (hl : l.toNat = blob.length) (h128 : blob.length < 128) :
    Spec.Address.parseConsensus H vk (l :: (blob ++ rest)) =
      (Spec.Address.parse H vk blob).map fun a => (a, 1 + blob.length) := by
  unfold Spec.Address.parseConsensus
  simp only [hl, List.take_left']
  rw [if_neg (by simp only [List.length_append]; omega)]
  cases Spec.Address.parse H vk blob <;> rfl

/-- everything the by-the-book consensus parser checked -/
theorem parseConsensus_some (b : Bytes) (r : Net × Kind × Bytes × Bytes × Bytes) (used : Nat)
    (h : Spec.Address.parseConsensus H vk b = some (r, used)) :
    ∃ l rest, b = l :: rest ∧ l.toNat < 128 ∧ l.toNat ≤ rest.length ∧
      Spec.Address.parse H vk (rest.take l.toNat) = some r ∧ used = 1 + l.toNat := by
  unfold Spec.Address.parseConsensus at h
  cases b with
  | nil => simp at h
  | cons l rest =>
    simp only at h
    by_cases hc : l.toNat ≥ 128 ∨ rest.length < l.toNat
    · rw [if_pos hc] at h; simp at h
    · rw [if_neg hc] at h
      cases hp : Spec.Address.parse H vk (rest.take l.toNat) with
      | none => simp [hp] at h
      | some a =>
        simp only [hp, Option.some.injEq, Prod.mk.injEq] at h
        obtain ⟨rfl, rfl⟩ := h
        exact ⟨l, rest, rfl, by omega, by omega, hp, rfl⟩

/-- the by-the-book hex parser, with the optional prefix written as the model's `stripPrefix0x` -/
theorem parseHex_eq (s : List UInt8) :
    Spec.Address.parseHex H vk s =
      (match Spec.Address.unhexDigits (stripPrefix0x s) with | none => none | some b => Spec.Address.parse H vk b) := by
  rw [stripPrefix0x_eq]; rfl

/-- accepted by the model ⇒ accepted by the book, same address, same rest -/
theorem consensusDecode_some_spec (b rest : Bytes) (a : Address) (hH : ∀ x, 4 ≤ (H x).length)
    (h : consensusDecode H vk b = some (a, rest)) :
    WF vk a ∧ ∃ used, Spec.Address.parseConsensus H vk b = some ((a.net, a.kind, a.spend, a.view, a.pid), used) ∧
      b.drop used = rest := by
  have hb := consensus_canonical H vk b rest a h
  have hw : WF vk a := by
    unfold consensusDecode at h
    obtain ⟨blob, r1, _, h2⟩ := bind_some h
    cases hf : fromBytes H vk blob with
    | none => simp [hf] at h2
    | some a' =>
      simp only [hf, Option.some.injEq, Prod.mk.injEq] at h2
      obtain ⟨rfl, _⟩ := h2
      obtain ⟨b0, rest', rfl, hn, hk, hs, hv, hvs, hvv, hl, _⟩ := fromBytes_some H vk _ a' hf
      obtain ⟨_, _, hp⟩ := tag_of_lookup b0 rest' a'.net a'.kind a'.pid hn hk
      have h65 : 65 ≤ bodyLen a'.kind := by unfold bodyLen; split <;> omega
      simp only [List.length_cons] at hl
      refine ⟨by rw [hs]; simp; omega, by rw [hv]; simp; omega, hvs, hvv, ?_⟩
      by_cases hki : a'.kind = .Integrated
      · simp only [hki, if_true] at hp ⊢
        rw [hp]; simp [bodyLen, hki] at hl ⊢; omega
      · simpa [hki] using hp
  refine ⟨hw, ?_⟩
  have hl := blob_length H a.net a.kind a.spend a.view a.pid hw.1 hw.2.1 hw.2.2.2.2 hH
  have h128 : (Spec.Address.blob H a.net a.kind a.spend a.view a.pid).length < 128 := by rw [hl]; split <;> omega
  have hl' : (UInt8.ofNat (if a.kind = .Integrated then 77 else 69)).toNat =
      (Spec.Address.blob H a.net a.kind a.spend a.view a.pid).length := by rw [hl]; split <;> rfl
  rw [consensusEncode_eq_spec H vk a hw hH, List.cons_append] at hb
  refine ⟨1 + (Spec.Address.blob H a.net a.kind a.spend a.view a.pid).length, ?_, ?_⟩
  · rw [hb, parseConsensus_cons H vk _ _ _ hl' h128, spec_parse_blob H vk _ _ _ _ _ hw hH]; rfl
  · rw [hb, Nat.add_comm 1, List.drop_succ_cons, List.drop_left']; rfl

/-- accepted by the book ⇒ accepted by the model -/
theorem consensusDecode_of_spec (b : Bytes) (n : Net) (k : Kind) (s v p : Bytes) (used : Nat)
    (hH : ∀ x, 4 ≤ (H x).length)
    (h : Spec.Address.parseConsensus H vk b = some ((n, k, s, v, p), used)) :
    consensusDecode H vk b = some (⟨n, k, p, s, v⟩, b.drop used) := by
  obtain ⟨l, rest, rfl, h128, hle, hp, rfl⟩ := parseConsensus_some H vk b _ used h
  obtain ⟨hw, hb⟩ := spec_parse_some H vk _ n k s v p hp
  have hl := blob_length H n k s v p hw.1 hw.2.1 hw.2.2.2.2 hH
  have hlen : (rest.take l.toNat).length = l.toNat := by rw [List.length_take]; omega
  have henc := consensusEncode_eq_spec H vk ⟨n, k, p, s, v⟩ hw hH
  simp only at henc
  have hl2 : UInt8.ofNat (if k = .Integrated then 77 else 69) = l := by
    rw [← hl, hb, hlen, UInt8.ofNat_toNat]
  rw [hl2, hb] at henc
  have e : l :: rest = consensusEncode H ⟨n, k, p, s, v⟩ ++ rest.drop l.toNat := by
    rw [henc, List.cons_append, List.take_append_drop]
  rw [Nat.add_comm 1, List.drop_succ_cons]
  conv => lhs; rw [e]
  exact consensus_roundtrip H vk _ _ hw hH

/-- the model of `Decodable for Address` is the by-the-book consensus parser, on every input -/
theorem consensusDecode_eq_spec (b : Bytes) (hH : ∀ x, 4 ≤ (H x).length) :
    consensusDecode H vk b = (Spec.Address.parseConsensus H vk b).map
      fun ((n, k, sp, v, p), used) => ((⟨n, k, p, sp, v⟩ : Address), b.drop used) := by
  cases hd : consensusDecode H vk b with
  | some ar =>
    obtain ⟨a, rest⟩ := ar
    obtain ⟨_, used, hp, hr⟩ := consensusDecode_some_spec H vk b rest a hH hd
    rw [hp, ← hr]; rfl
  | none =>
    cases hp : Spec.Address.parseConsensus H vk b with
    | none => rfl
    | some ru =>
      obtain ⟨⟨n, k, s, v, p⟩, used⟩ := ru
      rw [consensusDecode_of_spec H vk b n k s v p used hH hp] at hd
      exact absurd hd (by simp)
end Monero.Address
