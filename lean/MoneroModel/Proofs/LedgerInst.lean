import MoneroModel.Proofs.Ledger
import MoneroModel.Proofs.TxSound4
import MoneroModel.Model.Block
open Monero Ledger
/-! Instantiation of the allocation ledger on the worst nesting of explicit-length vectors in the transaction
decoder: `Vec<TxIn>` whose `ToKey` elements contain a `Vec<VarInt>` (`key_offsets`). The instrumented decoders compute
the same values as the model decoders (`*_val`), so the ledger bound is a statement about the modelled parse. -/

/-- a model decoder that allocates nothing -/
def lift {α} (d : Dec α) : RDec α := fun b => ⟨d b, 0, 0⟩

theorem bounded_lift {α} (d : Dec α) (hs : ∀ b x r, d b = some (x, r) → r.length ≤ b.length) : Bounded 0 0 (lift d) :=
  ⟨fun b x r h => hs b x r h, fun b => by simp [lift], fun b => by simp [lift], fun b _ => rfl⟩

theorem rbind_val {α β} (d : RDec α) (f : α → RDec β) (b : Bytes) :
    (rbind d f b).val = match (d b).val with | none => none | some (x, r) => (f x r).val := by
  unfold rbind
  cases hd : d b with
  | mk v p l =>
    cases v with
    | none => rfl
    | some xr =>
      obtain ⟨x, r⟩ := xr
      simp only
      cases hf : f x r with
      | mk v2 p2 l2 => cases v2 <;> rfl

theorem rrep_val {α} (rd : RDec α) (d : Dec α) (h : ∀ b, (rd b).val = d b) : ∀ n b, (rrep rd n b).val = rep d n b := by
  intro n; induction n with
  | zero => intro b; rfl
  | succ n ih =>
    intro b
    show (rbind rd (fun x => rbind (rrep rd n) fun xs => rpure (x :: xs)) b).val = Monero.bind d (fun x => Monero.bind (rep d n) fun xs => pure' (x :: xs)) b
    rw [rbind_val, h b]
    unfold Monero.bind
    cases d b with
    | none => rfl
    | some xr =>
      obtain ⟨x, r⟩ := xr
      simp only
      rw [rbind_val, ih r]
      cases rep d n r with
      | none => rfl
      | some yr => rfl

theorem rvecN_val {α} (sz : Nat) (rd : RDec α) (d : Dec α) (h : ∀ b, (rd b).val = d b) (n : Nat) (b : Bytes) :
    (rvecN CAP sz rd n b).val = sizedVec sz d n b := by
  unfold rvecN sizedVec
  split
  · rfl
  · have := rrep_val rd d h n b
    cases hr : rrep rd n b with
    | mk v p l => rw [hr] at this; cases v <;> simpa using this

/-- `Vec<T>::consensus_decode`: varint count, cap check, `with_capacity`, elements -/
def rvec {α} (sz : Nat) (rd : RDec α) : RDec (List α) := rbind (lift varint) fun n => rvecN CAP sz rd n
theorem rvec_val {α} (sz : Nat) (rd : RDec α) (d : Dec α) (h : ∀ b, (rd b).val = d b) (b : Bytes) :
    (rvec sz rd b).val = vec sz d b := by
  unfold rvec vec
  simp only [rbind_val, lift, Monero.bind]
  cases varint b with
  | none => rfl
  | some nr => exact rvecN_val sz rd d h nr.1 nr.2

theorem encVarint_ne_nil (n : Nat) : encVarint n ≠ [] := by
  rw [encVarint]; by_cases h : n < 128 <;> simp [h]
theorem varint_consumes (b : Bytes) (n : Nat) (r : Bytes) (h : varint b = some (n, r)) : r.length + 1 ≤ b.length := by
  have := sound_varint b n r h
  have hne := encVarint_ne_nil n
  subst this
  have : 0 < (encVarint n).length := List.length_pos_iff.mpr hne
  simp; omega
theorem takeN_suffix (k : Nat) (b x r : Bytes) (h : takeN k b = some (x, r)) : r.length ≤ b.length := by
  have := sound_takeN k b x r h; simp only [id] at this; subst this; simp
theorem u8_consumes (b : Bytes) (x : UInt8) (r : Bytes) (h : u8 b = some (x, r)) : r.length + 1 ≤ b.length := by
  have := sound_u8 b x r h; subst this; simp

def rvarint : RDec Nat := lift varint
theorem bounded_rvarint : Bounded 0 0 rvarint :=
  bounded_lift varint fun b x r h => by have := varint_consumes b x r h; omega

/-- instrumented `TxIn::consensus_decode` -/
def rtxin : RDec TxIn := rbind (lift u8) fun t =>
  if t = 0xff then rbind rvarint fun h => rpure (.gen h)
  else if t = 2 then rbind rvarint fun a => rbind (rvec sizes.varint rvarint) fun o => rbind (lift key) fun k => rpure (.toKey a o k)
  else rfail

theorem rtxin_val (b : Bytes) : (rtxin b).val = txin b := by
  have e1 : ∀ r, (rvarint r).val = varint r := fun _ => rfl
  have e2 : ∀ r, ((lift key) r).val = key r := fun _ => rfl
  have e3 : ∀ r, ((lift u8) r).val = u8 r := fun _ => rfl
  have hv := rvec_val sizes.varint rvarint varint e1
  unfold rtxin txin
  rw [rbind_val, e3]
  unfold Monero.bind
  cases u8 b with
  | none => rfl
  | some tr =>
    obtain ⟨t, r⟩ := tr
    simp only
    split
    · rw [rbind_val, e1]
      dsimp only
      cases varint r with
      | none => rfl
      | some hr => rfl
    · split
      · rw [rbind_val, e1]
        dsimp only
        cases varint r with
        | none => rfl
        | some ar =>
          obtain ⟨a, r1⟩ := ar
          dsimp only
          rw [rbind_val, hv]
          cases vec sizes.varint varint r1 with
          | none => rfl
          | some orr =>
            obtain ⟨o, r2⟩ := orr
            dsimp only
            rw [rbind_val, e2]
            cases key r2 with
            | none => rfl
            | some kr => rfl
      · rfl

theorem bounded_rfail {α} : Bounded 0 0 (rfail : RDec α) :=
  ⟨fun b x r h => by simp [rfail] at h, fun b => by simp [rfail], fun b => by simp [rfail], fun b _ => rfl⟩

theorem bounded_rvec_varint : Bounded CAP sizes.varint (rvec sizes.varint rvarint) := by
  unfold rvec
  refine bounded_bind (bounded_mono bounded_rvarint (Nat.zero_le _) (Nat.zero_le _)) fun n => ?_
  have := bounded_vecN (A := 0) (B := 0) (CAP := CAP) (sz := sizes.varint) (w := 1) bounded_rvarint (Nat.le_refl 1)
    (fun b x r h => by simp only [rvarint, lift] at h; exact varint_consumes b x r h) n
  simpa using this

theorem bounded_rtxin : Bounded CAP sizes.varint rtxin := by
  unfold rtxin
  have bl {α} {d : RDec α} (h : Bounded 0 0 d) : Bounded CAP sizes.varint d := bounded_mono h (Nat.zero_le _) (Nat.zero_le _)
  refine bounded_bind (bl (bounded_lift u8 fun b x r h => by have := u8_consumes b x r h; omega)) fun t => ?_
  split
  · exact bounded_bind (bl bounded_rvarint) fun h => bl (bounded_pure _)
  · split
    · refine bounded_bind (bl bounded_rvarint) fun a => bounded_bind bounded_rvec_varint fun o =>
        bounded_bind (bl (bounded_lift key fun b x r h => takeN_suffix 32 b x r h)) fun k => bl (bounded_pure _)
    · exact bl bounded_rfail

theorem rtxin_consumes (b : Bytes) (x : TxIn) (r : Bytes) (h : (rtxin b).val = some (x, r)) : r.length + 1 ≤ b.length := by
  rw [rtxin_val] at h
  have := sound_txin b x r h
  subst this
  cases x <;> simp [encTxIn] <;> omega

/-- the inputs vector of a transaction prefix -/
def rvecTxIn : RDec (List TxIn) := rvec sizes.txin rtxin
theorem rvecTxIn_val (b : Bytes) : (rvecTxIn b).val = vec sizes.txin txin b := rvec_val sizes.txin rtxin txin rtxin_val b
theorem bounded_rvecTxIn : Bounded (CAP + CAP) (sizes.varint + sizes.txin) rvecTxIn := by
  unfold rvecTxIn rvec
  refine bounded_bind (bounded_mono bounded_rvarint (Nat.zero_le _) (Nat.zero_le _)) fun n => ?_
  exact bounded_vecN (w := 1) bounded_rtxin (Nat.le_refl 1) rtxin_consumes n
