import MoneroModel.Proofs.Ledger
import MoneroModel.Proofs.TxSound4
import MoneroModel.Model.Block
open Monero Ledger
/-! Instantiation of the allocation ledger on the worst nesting of explicit-length vectors in the transaction
decoder: `Vec<TxIn>` whose `ToKey` elements contain a `Vec<VarInt>` (`key_offsets`). The instrumented decoders compute
the same values as the model decoders (`*_val`), so the ledger bound is a statement about the modelled parse.
The scratch vector of `VarInt::consensus_decode` (`rvarint`) is charged transiently: slope `VSLOPE = 8` per byte looked at. -/

theorem bounded_lift {α} (d : Dec α) (hs : ∀ b x r, d b = some (x, r) → r.length ≤ b.length) : Bounded 0 0 (lift d) :=
  ⟨fun b x r h => hs b x r h, fun b => by simp [lift], fun b => by simp [lift], fun b _ => rfl⟩

theorem rbind_val {α β} (d : RDec α) (f : α → RDec β) (b : Bytes) :
    (rbind d f b).val = match (d b).val with | none => none | some (x, r) => (f x r).val := by
  unfold rbind
  cases hd : d b with
  | mk v p l =>
    cases v with
    | none => rfl
    | some xr =>
      obtain ⟨x, r⟩ := xr
      simp only
      cases hf : f x r with
      | mk v2 p2 l2 => cases v2 <;> rfl

theorem rrep_val {α} (rd : RDec α) (d : Dec α) (h : ∀ b, (rd b).val = d b) : ∀ n b, (rrep rd n b).val = rep d n b := by
  intro n; induction n with
  | zero => intro b; rfl
  | succ n ih =>
    intro b
    show (rbind rd (fun x => rbind (rrep rd n) fun xs => rpure (x :: xs)) b).val = Monero.bind d (fun x => Monero.bind (rep d n) fun xs => pure' (x :: xs)) b
    rw [rbind_val, h b]
    unfold Monero.bind
    cases d b with
    | none => rfl
    | some xr =>
      obtain ⟨x, r⟩ := xr
      simp only
      rw [rbind_val, ih r]
      cases rep d n r with
      | none => rfl
      | some yr => rfl

theorem rvecN_val {α} (sz : Nat) (rd : RDec α) (d : Dec α) (h : ∀ b, (rd b).val = d b) (n : Nat) (b : Bytes) :
    (rvecN CAP sz rd n b).val = sizedVec sz d n b := by
  unfold rvecN sizedVec
  split
  · rfl
  · have := rrep_val rd d h n b
    cases hr : rrep rd n b with
    | mk v p l => rw [hr] at this; cases v <;> simpa using this

theorem rvec_val {α} (sz : Nat) (rd : RDec α) (d : Dec α) (h : ∀ b, (rd b).val = d b) (b : Bytes) :
    (rvec sz rd b).val = vec sz d b := by
  unfold rvec vec
  simp only [rbind_val, rvarint, Monero.bind]
  cases varint b with
  | none => rfl
  | some nr => exact rvecN_val sz rd d h nr.1 nr.2

theorem encVarint_ne_nil (n : Nat) : encVarint n ≠ [] := by
  rw [encVarint]; by_cases h : n < 128 <;> simp [h]
theorem varint_consumes (b : Bytes) (n : Nat) (r : Bytes) (h : varint b = some (n, r)) : r.length + 1 ≤ b.length := by
  have := sound_varint b n r h
  have hne := encVarint_ne_nil n
  subst this
  have : 0 < (encVarint n).length := List.length_pos_iff.mpr hne
  simp; omega
theorem takeN_suffix (k : Nat) (b x r : Bytes) (h : takeN k b = some (x, r)) : r.length ≤ b.length := by
  have := sound_takeN k b x r h; simp only [id] at this; subst this; simp
theorem u8_consumes (b : Bytes) (x : UInt8) (r : Bytes) (h : u8 b = some (x, r)) : r.length + 1 ≤ b.length := by
  have := sound_u8 b x r h; subst this; simp

/-- the group loop pushes at most one group per byte it reads -/
theorem varintPushed_le : ∀ (b : Bytes) (k : Nat), varintPushed b k ≤ k + b.length
  | [], k => by simp [varintPushed]
  | x :: xs, k => by
    unfold varintPushed
    split
    · omega
    · split
      · simp only [List.length_cons]; omega
      · have := varintPushed_le xs (k + 1); simp only [List.length_cons]; omega
/-- when the loop ends at a terminator, the groups pushed are exactly the bytes consumed -/
theorem varintPushed_collect : ∀ (b : Bytes) (acc gs : List Nat) (r : Bytes), collect b acc = some (gs, r) →
    varintPushed b acc.length + r.length = acc.length + b.length
  | [], _, _, _, h => by simp [collect] at h
  | x :: xs, acc, gs, r, h => by
    unfold collect at h
    unfold varintPushed
    by_cases h1 : x.toNat = 0 ∧ acc ≠ []
    · rw [if_pos h1] at h; simp at h
    · rw [if_neg h1] at h
      have h1' : ¬ (x.toNat = 0 ∧ acc.length ≠ 0) := by
        intro hh; exact h1 ⟨hh.1, fun e => hh.2 (by rw [e]; rfl)⟩
      rw [if_neg h1']
      by_cases h2 : x.toNat < 128
      · rw [if_pos h2] at h; rw [if_pos h2]
        simp only [Option.some.injEq, Prod.mk.injEq] at h
        obtain ⟨_, rfl⟩ := h
        simp only [List.length_cons]; omega
      · rw [if_neg h2] at h; rw [if_neg h2]
        have := varintPushed_collect xs _ gs r h
        have hl : (acc ++ [x.toNat % 128]).length = acc.length + 1 := by simp
        rw [hl] at this
        simp only [List.length_cons]
        omega
theorem varint_collect (b : Bytes) (n : Nat) (r : Bytes) (h : varint b = some (n, r)) : ∃ gs, collect b [] = some (gs, r) := by
  unfold varint at h
  cases hc : collect b [] with
  | none => rw [hc] at h; simp at h
  | some v =>
    obtain ⟨gs, r'⟩ := v
    rw [hc] at h
    simp only at h
    cases ha : accum gs.reverse 0 with
    | none => rw [ha] at h; simp at h
    | some m => rw [ha] at h; simp only [Option.some.injEq, Prod.mk.injEq] at h; exact ⟨gs, by rw [h.2]⟩

/-- slope of the VarInt scratch vector: `max 8 (GROW·k) ≤ 8·k` bytes for `k ≥ 1` groups -/
def VSLOPE : Nat := 8
theorem scratchU8_le (k : Nat) : scratchU8 k ≤ VSLOPE * k := by
  unfold scratchU8 VSLOPE GROW
  split
  · omega
  · simp only [Nat.max_le]; omega

/-- the scratch vector is paid for by the bytes the VarInt decoder looked at — consumed on success, at most the whole input
on failure (a run of `0xff`) -/
theorem varint_scratch_le_used (b : Bytes) : scratchU8 (varintPushed b 0) ≤ VSLOPE * used b (rvarint b) := by
  refine Nat.le_trans (scratchU8_le _) (Nat.mul_le_mul_left _ ?_)
  unfold used
  have hval : (rvarint b).val = varint b := rfl
  rw [hval]
  cases hv : varint b with
  | none => have := varintPushed_le b 0; simpa using this
  | some v =>
    obtain ⟨n, r⟩ := v
    obtain ⟨gs, hc⟩ := varint_collect b n r hv
    have := varintPushed_collect b [] gs r hc
    simp only [List.length_nil] at this
    simp only; omega

theorem bounded_rvarint : Bounded 0 VSLOPE rvarint := by
  refine ⟨?_, ?_, ?_, ?_⟩
  · intro b x r h; have := varint_consumes b x r h; omega
  · intro b; have := varint_scratch_le_used b; show scratchU8 (varintPushed b 0) ≤ _; omega
  · intro b; show 0 ≤ _; omega
  · intro b _; rfl

/-- non-vacuity of the charge: on a run of `n` bytes `0xff` the decoder fails and the ledger reports the whole scratch vector -/
theorem rvarint_ff (n : Nat) : varintPushed (List.replicate n 0xff) 0 = n := by
  have : ∀ n k, varintPushed (List.replicate n (0xff : UInt8)) k = k + n := by
    intro n; induction n with
    | zero => intro k; simp [varintPushed]
    | succ n ih =>
      intro k
      rw [List.replicate_succ]
      unfold varintPushed
      rw [if_neg (fun h => absurd h.1 (by decide)), if_neg (by decide), ih]; omega
  simpa using this n 0

theorem rtxin_val (b : Bytes) : (rtxin b).val = txin b := by
  have e1 : ∀ r, (rvarint r).val = varint r := fun _ => rfl
  have e2 : ∀ r, ((lift key) r).val = key r := fun _ => rfl
  have e3 : ∀ r, ((lift u8) r).val = u8 r := fun _ => rfl
  have hv := rvec_val sizes.varint rvarint varint e1
  unfold rtxin txin
  rw [rbind_val, e3]
  unfold Monero.bind
  cases u8 b with
  | none => rfl
  | some tr =>
    obtain ⟨t, r⟩ := tr
    simp only
    split
    · rw [rbind_val, e1]
      dsimp only
      cases varint r with
      | none => rfl
      | some hr => rfl
    · split
      · rw [rbind_val, e1]
        dsimp only
        cases varint r with
        | none => rfl
        | some ar =>
          obtain ⟨a, r1⟩ := ar
          dsimp only
          rw [rbind_val, hv]
          cases vec sizes.varint varint r1 with
          | none => rfl
          | some orr =>
            obtain ⟨o, r2⟩ := orr
            dsimp only
            rw [rbind_val, e2]
            cases key r2 with
            | none => rfl
            | some kr => rfl
      · rfl

theorem bounded_rfail {α} : Bounded 0 0 (rfail : RDec α) :=
  ⟨fun b x r h => by simp [rfail] at h, fun b => by simp [rfail], fun b => by simp [rfail], fun b _ => rfl⟩

theorem bounded_rvec_varint : Bounded CAP (VSLOPE + sizes.varint) (rvec sizes.varint rvarint) := by
  unfold rvec
  refine bounded_bind (bounded_mono bounded_rvarint (Nat.zero_le _) (Nat.le_add_right _ _)) fun n => ?_
  have := bounded_vecN (A := 0) (B := VSLOPE) (CAP := CAP) (sz := sizes.varint) (w := 1) bounded_rvarint (Nat.le_refl 1)
    (fun b x r h => varint_consumes b x r h) n
  simpa using this

theorem bounded_rtxin : Bounded CAP (VSLOPE + sizes.varint) rtxin := by
  unfold rtxin
  have bl {α} {B : Nat} {d : RDec α} (h : Bounded 0 B d) (hB : B ≤ VSLOPE + sizes.varint := by omega) :
      Bounded CAP (VSLOPE + sizes.varint) d := bounded_mono h (Nat.zero_le _) hB
  refine bounded_bind (bl (bounded_lift u8 fun b x r h => by have := u8_consumes b x r h; omega)) fun t => ?_
  split
  · exact bounded_bind (bl bounded_rvarint) fun h => bl (bounded_pure _)
  · split
    · refine bounded_bind (bl bounded_rvarint) fun a => bounded_bind bounded_rvec_varint fun o =>
        bounded_bind (bl (bounded_lift key fun b x r h => takeN_suffix 32 b x r h)) fun k => bl (bounded_pure _)
    · exact bl bounded_rfail

theorem rtxin_consumes (b : Bytes) (x : TxIn) (r : Bytes) (h : (rtxin b).val = some (x, r)) : r.length + 1 ≤ b.length := by
  rw [rtxin_val] at h
  have := sound_txin b x r h
  subst this
  cases x <;> simp [encTxIn] <;> omega

theorem rvecTxIn_val (b : Bytes) : (rvecTxIn b).val = vec sizes.txin txin b := rvec_val sizes.txin rtxin txin rtxin_val b
theorem bounded_rvecTxIn : Bounded (CAP + CAP) (VSLOPE + sizes.varint + sizes.txin) rvecTxIn := by
  unfold rvecTxIn rvec
  refine bounded_bind (bounded_mono bounded_rvarint (Nat.zero_le _) (by omega)) fun n => ?_
  exact bounded_vecN (w := 1) bounded_rtxin (Nat.le_refl 1) rtxin_consumes n
