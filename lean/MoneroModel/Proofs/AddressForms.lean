import MoneroModel.Proofs.Address
import MoneroModel.Proofs.TxSound1
import MoneroModel.Proofs.TxComplete
/-! The hex and consensus forms of an address. -/
open Monero
namespace Monero.HexM

private def rowOk (n : Nat) : Bool :=
  val (HEX_CHARS_LOWER.getD (n >>> 4) 0) == some (n >>> 4) && val (HEX_CHARS_LOWER.getD (n &&& 15) 0) == some (n &&& 15) &&
  UInt8.ofNat (((n >>> 4) <<< 4) ||| (n &&& 15)) == UInt8.ofNat n && HEX_CHARS_LOWER.getD (n &&& 15) 0 != 120
private theorem table : ∀ n, n < 256 → rowOk n = true := by decide +kernel

theorem byte_facts (x : UInt8) :
    val (HEX_CHARS_LOWER.getD (x.toNat >>> 4) 0) = some (x.toNat >>> 4) ∧
    val (HEX_CHARS_LOWER.getD (x.toNat &&& 15) 0) = some (x.toNat &&& 15) ∧
    UInt8.ofNat (((x.toNat >>> 4) <<< 4) ||| (x.toNat &&& 15)) = x ∧ HEX_CHARS_LOWER.getD (x.toNat &&& 15) 0 ≠ 120 := by
  have := table x.toNat x.toNat_lt
  simp only [rowOk, Bool.and_eq_true, beq_iff_eq, bne_iff_ne, UInt8.ofNat_toNat] at this
  obtain ⟨⟨⟨a, b⟩, c⟩, d⟩ := this
  exact ⟨a, b, c, d⟩

theorem encode_length : ∀ b : Bytes, (encode b).length = 2 * b.length
  | [] => rfl
  | _ :: r => by simp only [encode, List.length_cons, encode_length r]; omega

theorem pairs_encode : ∀ b : Bytes, pairs (encode b) = some b
  | [] => rfl
  | x :: r => by
    obtain ⟨h1, h2, h3, _⟩ := byte_facts x
    simp only [encode, pairs, h1, h2, pairs_encode r, h3]

/-- `hex::decode (hex::encode b) = b` -/
theorem decode_encode (b : Bytes) : decode (encode b) = some b := by
  unfold decode
  rw [encode_length, pairs_encode]
  simp
end Monero.HexM

namespace Monero.Address
variable (H : Bytes → Bytes) (vk : Bytes → Bool)

/-- the lowercase hex of a blob never starts with `0x` -/
theorem stripPrefix0x_encode (b : Bytes) : stripPrefix0x (HexM.encode b) = HexM.encode b := by
  cases b with
  | nil => rfl
  | cons x r =>
    obtain ⟨_, _, _, h4⟩ := HexM.byte_facts x
    simp only [HexM.encode]
    unfold stripPrefix0x
    split
    · rename_i heq
      simp only [List.cons.injEq] at heq
      exact absurd heq.2.1 h4
    · rfl

theorem stripPrefix0x_prefixed (t : List UInt8) : stripPrefix0x (48 :: 120 :: t) = t := rfl

theorem blob_length (n : Net) (k : Kind) (s v p : Bytes) (hs : s.length = 32) (hv : v.length = 32)
    (hp : if k = .Integrated then p.length = 8 else p = []) (hH : ∀ x, 4 ≤ (H x).length) :
    (Spec.Address.blob H n k s v p).length = if k = .Integrated then 77 else 69 := by
  unfold Spec.Address.blob
  have h4 : ∀ x, ((H x).take 4).length = 4 := fun x => by rw [List.length_take]; have := hH x; omega
  by_cases hk : k = .Integrated
  · simp only [hk, if_true] at hp ⊢
    simp [hs, hv, hp, h4]
  · simp only [hk, if_false] at hp ⊢
    subst hp
    simp [hs, hv, h4]

/-- encode, then decode, with anything after it left untouched -/
theorem consensus_roundtrip (a : Address) (rest : Bytes) (hw : WF vk a) (hH : ∀ x, 4 ≤ (H x).length) :
    consensusDecode H vk (consensusEncode H a ++ rest) = some (a, rest) := by
  obtain ⟨hs, hv, hvs, hvv, hp⟩ := hw
  have hpid : a.kind ≠ .Integrated → a.pid = [] := fun hk => by simpa [hk] using hp
  have hlen : (asBytes H a).length ≤ 77 := by
    rw [asBytes_eq_blob H a hpid, blob_length H a.net a.kind a.spend a.view a.pid hs hv hp hH]
    split <;> omega
  have hrt : fromBytes H vk (asBytes H a) = some a := by
    rw [asBytes_eq_blob H a hpid]
    exact fromBytes_blob H vk a.net a.kind a.spend a.view a.pid hs hv hvs hvv hp hH
  unfold consensusDecode consensusEncode
  rw [bind_eq (complete_vec sizes.u8 (fun _ => True) (fun b => [b]) u8 complete_u8 (asBytes H a) rest
    (fun _ _ => trivial) (by simp only [sizes, Gen.sizes, CAP, Gen.CAP]; omega) (by omega))]
  simp only [hrt]

/-- an accepted consensus encoding is the canonical one -/
theorem consensus_canonical (b rest : Bytes) (a : Address) (h : consensusDecode H vk b = some (a, rest)) :
    b = consensusEncode H a ++ rest := by
  unfold consensusDecode at h
  obtain ⟨blob, r1, h1, h2⟩ := bind_some h
  cases hf : fromBytes H vk blob with
  | none => simp [hf] at h2
  | some a' =>
    simp only [hf, Option.some.injEq, Prod.mk.injEq] at h2
    obtain ⟨rfl, rfl⟩ := h2
    have := sound_vec sizes.u8 (fun b => [b]) u8 sound_u8 _ _ _ h1
    rw [this, consensusEncode, fromBytes_canonical H vk blob a' hf]
end Monero.Address
