import MoneroModel.Proofs.ExtraSound
open Monero Monero.Extra

/-! Accumulator-free characterisation of `tryParse` (three recursive equations that determine it), and what follows:
the returned fields are always a well-formed sequence, an `Ok` result is the input byte for byte (up to merge-mining
size bytes), parsing is idempotent, a valid prefix survives whatever follows it, `pre` is the maximal chain of
successful reads from offset 0. Core Lean only. -/
namespace Monero.Extra

/-- the loop started with `extra` already pushed (and counted in `npre`) returns the same with `extra` in front -/
theorem loop_shift (vk : Bytes → Bool) (extra : List SubField) : ∀ (fuel : Nat) (b : Bytes) (acc : List SubField)
    (err : Bool) (npre : Nat) (p : Parsed), loop vk fuel b acc err npre = some p →
    loop vk fuel b (acc ++ extra) err (npre + extra.length) =
      some ⟨p.err, extra.reverse ++ p.fields, extra.reverse ++ p.pre⟩ := by
  have hnil : ∀ (acc : List SubField) (err : Bool) (npre : Nat),
      (⟨err, (acc ++ extra).reverse, (acc ++ extra).reverse.take (npre + extra.length)⟩ : Parsed) =
        ⟨err, extra.reverse ++ acc.reverse, extra.reverse ++ acc.reverse.take npre⟩ := by
    intro acc err npre
    have : (acc ++ extra).reverse.take (npre + extra.length) = extra.reverse ++ acc.reverse.take npre := by
      rw [List.reverse_append, Nat.add_comm, ← List.length_reverse (as := extra)]
      exact List.take_length_add_append _
    rw [this, List.reverse_append]
  intro fuel
  induction fuel with
  | zero =>
    intro b acc err npre p h
    cases b with
    | nil => rw [loop_nil] at h ⊢; cases h; rw [hnil]
    | cons x xs => rw [loop_zero_cons] at h; cases h
  | succ fuel ih =>
    intro b acc err npre p h
    cases b with
    | nil => rw [loop_nil] at h ⊢; cases h; rw [hnil]
    | cons x xs =>
      rw [loop_succ_cons] at h ⊢
      cases h' : subFieldRd vk (x :: xs) with
      | mk o r =>
        rw [h'] at h
        cases o with
        | none => exact ih r acc true npre p h
        | some sf =>
          have := ih r (sf :: acc) err _ p h
          simp only [List.cons_append] at this ⊢
          have e : (if err = true then npre else npre + 1) + extra.length =
              (if err = true then npre + extra.length else npre + extra.length + 1) := by
            cases err <;> simp <;> omega
          rw [e] at this; exact this

/-- once a read has failed, the list of fields is the same as without the failure, and nothing more goes to `pre` -/
theorem loop_after_error (vk : Bytes → Bool) : ∀ (fuel : Nat) (b : Bytes) (acc : List SubField) (err : Bool)
    (npre : Nat) (p : Parsed), loop vk fuel b acc err npre = some p →
    loop vk fuel b acc true 0 = some ⟨true, p.fields, []⟩ := by
  intro fuel
  induction fuel with
  | zero =>
    intro b acc err npre p h
    cases b with
    | nil => rw [loop_nil] at h ⊢; cases h; simp
    | cons x xs => rw [loop_zero_cons] at h; cases h
  | succ fuel ih =>
    intro b acc err npre p h
    cases b with
    | nil => rw [loop_nil] at h ⊢; cases h; simp
    | cons x xs =>
      rw [loop_succ_cons] at h ⊢
      cases h' : subFieldRd vk (x :: xs) with
      | mk o r =>
        rw [h'] at h
        cases o with
        | none => exact ih r acc true npre p h
        | some sf => exact ih r (sf :: acc) err _ p h

/-! ### the three equations -/

theorem tryParse_nil (vk : Bytes → Bool) : tryParse vk [] = ⟨false, [], []⟩ := rfl

/-- a successful read: the sub-field goes in front of the parse of the rest (fields and `pre`), the flag is that of
the rest -/
theorem tryParse_some (vk : Bytes → Bool) {b : Bytes} {sf : SubField} {r : Bytes} (hb : b ≠ [])
    (h : subFieldRd vk b = (some sf, r)) :
    tryParse vk b = ⟨(tryParse vk r).err, sf :: (tryParse vk r).fields, sf :: (tryParse vk r).pre⟩ := by
  cases b with
  | nil => exact absurd rfl hb
  | cons x xs =>
    have hc := subFieldRd_consumes vk x xs
    rw [h] at hc
    have h1 := tryParse_eq_loop vk (x :: xs) (xs.length + 1) (by simp)
    rw [loop_succ_cons, h] at h1
    have h2 := loop_shift vk [sf] xs.length r [] false 0 _ (tryParse_eq_loop vk r xs.length hc)
    simp only [List.nil_append, List.length_singleton, Nat.zero_add, List.reverse_singleton,
      List.singleton_append] at h2
    simp only [Bool.false_eq_true, if_false, Nat.zero_add] at h1
    rw [h2] at h1
    exact (Option.some.inj h1).symm

/-- a failed read: flag `Err`, nothing before the first failure, and the fields salvaged from where the cursor was
left -/
theorem tryParse_none (vk : Bytes → Bool) {b : Bytes} {r : Bytes} (hb : b ≠ []) (h : subFieldRd vk b = (none, r)) :
    tryParse vk b = ⟨true, (tryParse vk r).fields, []⟩ := by
  cases b with
  | nil => exact absurd rfl hb
  | cons x xs =>
    have hc := subFieldRd_consumes vk x xs
    rw [h] at hc
    have h1 := tryParse_eq_loop vk (x :: xs) (xs.length + 1) (by simp)
    rw [loop_succ_cons, h] at h1
    have h2 := loop_after_error vk xs.length r [] false 0 _ (tryParse_eq_loop vk r xs.length hc)
    simp only at h1
    rw [h2] at h1
    exact (Option.some.inj h1).symm

/-- induction principle along the reads of `tryParse` -/
theorem tryParse_induction (vk : Bytes → Bool) (P : Bytes → Prop) (hnil : P [])
    (hsome : ∀ b sf r, b ≠ [] → subFieldRd vk b = (some sf, r) → P r → P b)
    (hnone : ∀ b r, b ≠ [] → subFieldRd vk b = (none, r) → P r → P b) : ∀ e, P e := by
  have : ∀ n e, e.length ≤ n → P e := by
    intro n
    induction n with
    | zero =>
      intro e he
      have : e = [] := List.eq_nil_of_length_eq_zero (by omega)
      subst this; exact hnil
    | succ n ih =>
      intro e he
      cases e with
      | nil => exact hnil
      | cons x xs =>
        have hc := subFieldRd_consumes vk x xs
        simp only [List.length_cons] at he
        cases h : subFieldRd vk (x :: xs) with
        | mk o r =>
          rw [h] at hc
          cases o with
          | none => exact hnone _ r (by simp) h (ih r (by simp at hc; omega))
          | some sf => exact hsome _ sf r (by simp) h (ih r (by simp at hc; omega))
  exact fun e => this e.length e (Nat.le_refl _)

/-! ### consequences of decoder soundness -/

theorem WFSeq_cons {vk : Bytes → Bool} {f : SubField} {fs : List SubField} (hf : WFField vk f)
    (hs : ShortPad f → fs = []) (hw : WFSeq vk fs) : WFSeq vk (f :: fs) := by
  cases fs with
  | nil => exact hf
  | cons g rest => exact ⟨hf, fun h => absurd (hs h) (List.cons_ne_nil _ _), hw⟩

/-- whatever `try_parse` returns, `Ok` or `Err`, is a well-formed sequence -/
theorem tryParse_wf (vk : Bytes → Bool) : ∀ e, WFSeq vk (tryParse vk e).fields := by
  refine tryParse_induction vk _ ?_ ?_ ?_
  · rw [tryParse_nil]; trivial
  · intro b sf r hb h ih
    rw [tryParse_some vk hb h]
    obtain ⟨hw, hs, _⟩ := subFieldRd_sound vk b sf r h
    refine WFSeq_cons hw (fun hsp => ?_) ih
    rw [hs hsp, tryParse_nil]
  · intro b r hb h ih
    rw [tryParse_none vk hb h]; exact ih

/-- `bs` is the concatenation of the encodings of `fs`, up to the merge-mining size bytes -/
inductive EncUpToSize : List SubField → Bytes → Prop
  | nil : EncUpToSize [] []
  | cons (sz : UInt8) (f : SubField) {fs : List SubField} {r : Bytes} :
      EncUpToSize fs r → EncUpToSize (f :: fs) (encSubSz sz f ++ r)

theorem EncUpToSize.length_eq {fs : List SubField} {b : Bytes} (h : EncUpToSize fs b) : b.length = (flat fs).length := by
  induction h with
  | nil => rfl
  | cons sz f _ ih => simp [flat, encSubSz_len] at ih ⊢; omega

theorem EncUpToSize.eq_flat {fs : List SubField} {b : Bytes} (h : EncUpToSize fs b) (hm : ∀ f ∈ fs, isMM f = false) :
    b = flat fs := by
  induction h with
  | nil => rfl
  | cons sz f _ ih =>
    rw [encSubSz_of_not_mm sz f (hm f (by simp)), ih (fun g hg => hm g (by simp [hg]))]
    simp [flat]

theorem EncUpToSize.flat (fs : List SubField) : EncUpToSize fs (flat fs) := by
  induction fs with
  | nil => exact EncUpToSize.nil
  | cons f fs ih =>
    obtain ⟨sz, hsz⟩ := encSubSz_self f
    have : Monero.Extra.flat (f :: fs) = encSubSz sz f ++ Monero.Extra.flat fs := by simp [Monero.Extra.flat, hsz]
    rw [this]; exact EncUpToSize.cons sz f ih

/-- an `Ok` result accounts for every byte of the input -/
theorem tryParse_ok_exact (vk : Bytes → Bool) : ∀ e, (tryParse vk e).err = false → EncUpToSize (tryParse vk e).fields e := by
  refine tryParse_induction vk _ ?_ ?_ ?_
  · intro _; rw [tryParse_nil]; exact EncUpToSize.nil
  · intro b sf r hb h ih
    rw [tryParse_some vk hb h]
    intro he
    obtain ⟨_, _, sz, hbz⟩ := subFieldRd_sound vk b sf r h
    have := EncUpToSize.cons sz sf (ih he)
    rw [← hbz] at this; exact this
  · intro b r hb h _
    rw [tryParse_none vk hb h]; intro he; cases he

/-- in every case the fields before the first failure are the encoding-exact initial part of the input -/
theorem tryParse_pre_prefix (vk : Bytes → Bool) : ∀ e, ∃ p t, e = p ++ t ∧ EncUpToSize (tryParse vk e).pre p := by
  refine tryParse_induction vk _ ?_ ?_ ?_
  · exact ⟨[], [], rfl, by rw [tryParse_nil]; exact EncUpToSize.nil⟩
  · intro b sf r hb h ih
    obtain ⟨p, t, hr, hp⟩ := ih
    obtain ⟨_, _, sz, hbz⟩ := subFieldRd_sound vk b sf r h
    rw [tryParse_some vk hb h]
    exact ⟨encSubSz sz sf ++ p, t, by rw [hbz, hr, List.append_assoc], EncUpToSize.cons sz sf hp⟩
  · intro b r hb h _
    rw [tryParse_none vk hb h]
    exact ⟨[], b, rfl, EncUpToSize.nil⟩

/-! ### `pre` semantically -/

/-- the maximal chain of successful sub-field reads from the start of the input: it ends at the end of the input or
at the first failed read -/
inductive PreChain (vk : Bytes → Bool) : Bytes → List SubField → Prop
  | done : PreChain vk [] []
  | fail {b r : Bytes} : b ≠ [] → subFieldRd vk b = (none, r) → PreChain vk b []
  | step {b r : Bytes} {sf : SubField} {l : List SubField} :
      b ≠ [] → subFieldRd vk b = (some sf, r) → PreChain vk r l → PreChain vk b (sf :: l)

theorem PreChain.unique {vk : Bytes → Bool} {b : Bytes} {l1 l2 : List SubField} (h1 : PreChain vk b l1)
    (h2 : PreChain vk b l2) : l1 = l2 := by
  induction h1 generalizing l2 with
  | done => cases h2 with
    | done => rfl
    | fail hb _ => exact absurd rfl hb
    | step hb _ _ => exact absurd rfl hb
  | fail hb h => cases h2 with
    | done => exact absurd rfl hb
    | fail _ _ => rfl
    | step _ h' _ => rw [h] at h'; cases h'
  | step hb h _ ih => cases h2 with
    | done => exact absurd rfl hb
    | fail _ h' => rw [h] at h'; cases h'
    | step _ h' hc => rw [h] at h'; cases h'; rw [ih hc]

theorem tryParse_preChain (vk : Bytes → Bool) : ∀ e, PreChain vk e (tryParse vk e).pre := by
  refine tryParse_induction vk _ ?_ ?_ ?_
  · rw [tryParse_nil]; exact PreChain.done
  · intro b sf r hb h ih
    rw [tryParse_some vk hb h]; exact PreChain.step hb h ih
  · intro b r hb h _
    rw [tryParse_none vk hb h]; exact PreChain.fail hb h

/-! ### a valid prefix survives whatever follows -/

theorem flat_cons (f : SubField) (fs : List SubField) : flat (f :: fs) = encSub f ++ flat fs := by simp [flat]

/-- well-formed fields without short padding in front of ANY bytes `t`: they are returned first, unchanged, followed
by the parse of `t`; the flag is that of `t` -/
theorem tryParse_flat_append (vk : Bytes → Bool) (t : Bytes) : ∀ (fs : List SubField),
    (∀ f ∈ fs, WFField vk f ∧ ¬ ShortPad f) →
    tryParse vk (flat fs ++ t) = ⟨(tryParse vk t).err, fs ++ (tryParse vk t).fields, fs ++ (tryParse vk t).pre⟩
  | [], _ => by simp [flat]
  | f :: fs, h => by
    have hf := h f (by simp)
    have hne : flat (f :: fs) ++ t ≠ [] := by
      rw [flat_cons]; simp [encSub_ne_nil]
    have hrd : subFieldRd vk (flat (f :: fs) ++ t) = (some f, flat fs ++ t) := by
      rw [flat_cons, List.append_assoc]
      exact subField_complete vk f _ hf.1 (fun hs => absurd hs hf.2)
    rw [tryParse_some vk hne hrd, tryParse_flat_append vk t fs (fun g hg => h g (by simp [hg]))]
    simp

theorem txPubkey_append_some {fs : List SubField} {k : Bytes} (h : txPubkey fs = some k) (rest : List SubField) :
    txPubkey (fs ++ rest) = some k := by
  induction fs with
  | nil => cases h
  | cons f fs ih => cases f <;> simp only [List.cons_append, txPubkey] at h ⊢ <;> first | exact h | exact ih h

theorem txAdd_append_some {fs : List SubField} {ks : List Bytes} (h : txAdditionalPubkeys fs = some ks)
    (rest : List SubField) : txAdditionalPubkeys (fs ++ rest) = some ks := by
  induction fs with
  | nil => cases h
  | cons f fs ih =>
    cases f <;> simp only [List.cons_append, txAdditionalPubkeys] at h ⊢ <;> first | exact h | exact ih h

end Monero.Extra
