import MoneroModel.Proofs.TxSound2
open Monero

theorem sound_bp : Sound encBP bp := by
  intro b x r h
  unfold bp at h
  obtain ⟨f, r1, h1, h2⟩ := bind_some h
  obtain ⟨l, r2, h3, h4⟩ := bind_some h2
  obtain ⟨rr, r3, h5, h6⟩ := bind_some h4
  obtain ⟨t, r4, h7, h8⟩ := bind_some h6
  obtain ⟨rfl, rfl⟩ := pure_some h8
  have c1 := sound_takeN _ _ _ _ h1
  have c2 := sound_vec sizes.key id key sound_key _ _ _ h3
  have c3 := sound_vec sizes.key id key sound_key _ _ _ h5
  have c4 := sound_takeN _ _ _ _ h7
  simp only [id] at c1 c4; subst c1; subst c2; subst c3; subst c4
  simp [encBP]

theorem sound_bpp : Sound encBPP bpp := by
  intro b x r h
  unfold bpp at h
  obtain ⟨f, r1, h1, h2⟩ := bind_some h
  obtain ⟨l, r2, h3, h4⟩ := bind_some h2
  obtain ⟨rr, r3, h5, h6⟩ := bind_some h4
  obtain ⟨rfl, rfl⟩ := pure_some h6
  have c1 := sound_takeN _ _ _ _ h1
  have c2 := sound_vec sizes.key id key sound_key _ _ _ h3
  have c3 := sound_vec sizes.key id key sound_key _ _ _ h5
  simp only [id] at c1; subst c1; subst c2; subst c3
  simp [encBPP]

theorem ofNat_eq (n : Nat) (x : UInt8) (h : n = x.toNat) : UInt8.ofNat n = x := by
  subst h; exact UInt8.ofNat_toNat

/-- little-endian 4-byte read re-encodes (needed for the u32 proof count of type 3) -/
theorem leBytes_foldr4 (b : Bytes) (h : b.length = 4) :
    leBytes ((b.foldr (fun x acc => x.toNat + 256 * acc) 0) % 2^32) 4 = b := by
  match b, h with
  | [a, b1, c, d], _ =>
    have ha := a.toNat_lt; have hb := b1.toNat_lt; have hc := c.toNat_lt; have hd := d.toNat_lt
    simp only [List.foldr, leBytes, List.range, List.range.loop, List.map]
    simp only [List.cons.injEq, and_true]
    refine ⟨?_, ?_, ?_, ?_⟩ <;> (apply ofNat_eq; omega)

theorem sizedVec_length {α} (sz : Nat) (d : Dec α) (n : Nat) : ∀ b xs r, sizedVec sz d n b = some (xs, r) → xs.length = n := by
  intro b xs r h; unfold sizedVec at h
  split at h
  · exact (fail_some h).elim
  · exact rep_length d n _ _ _ h

theorem takeN_length (n : Nat) : ∀ b x r, takeN n b = some (x, r) → x.length = n := by
  intro b x r h; unfold takeN at h
  split at h
  · simp at h
  · rename_i hl; simp at h; obtain ⟨rfl, _⟩ := h; simp; omega

theorem sound_proofs (ty o : Nat) : ∀ b rs bps bpps r, proofsDec ty o b = some ((rs, bps, bpps), r) →
    b = encProofs rs bps bpps ty ++ r := by
  intro b rs bps bpps r h
  unfold proofsDec at h
  split at h
  · rename_i h45
    obtain ⟨x, r1, h1, h2⟩ := bind_some h
    obtain ⟨he, rfl⟩ := pure_some h2
    simp at he; obtain ⟨rfl, rfl, rfl⟩ := he
    have c := sound_vec sizes.bp encBP bp sound_bp _ _ _ h1
    subst c; simp [encProofs, h45]
  · rename_i h45
    split at h
    · rename_i h3
      obtain ⟨n, r1, h1, h2⟩ := bind_some h
      obtain ⟨x, r2, h3', h4⟩ := bind_some h2
      obtain ⟨he, rfl⟩ := pure_some h4
      simp at he; obtain ⟨rfl, rfl, rfl⟩ := he
      unfold u32le at h1
      obtain ⟨raw, r1', h1a, h1b⟩ := bind_some h1
      obtain ⟨rfl, rfl⟩ := pure_some h1b
      have hl := takeN_length 4 _ _ _ h1a
      have c1 := sound_takeN 4 _ _ _ h1a
      have hn := sizedVec_length _ _ _ _ _ _ h3'
      have c2 := sound_sized sizes.bp encBP bp sound_bp _ _ _ _ h3'
      simp only [id] at c1; subst c1; subst c2
      simp only [encProofs, h45, h3, if_false, if_true]
      rw [hn, leBytes_foldr4 raw hl]; simp
    · rename_i h3
      split at h
      · rename_i h6
        obtain ⟨n, r1, h1, h2⟩ := bind_some h
        obtain ⟨x, r2, h3', h4⟩ := bind_some h2
        obtain ⟨he, rfl⟩ := pure_some h4
        simp at he; obtain ⟨rfl, rfl, rfl⟩ := he
        have c1 := sound_u8 _ _ _ h1; simp only at c1
        have hn := sizedVec_length _ _ _ _ _ _ h3'
        have c2 := sound_sized sizes.bpp encBPP bpp sound_bpp _ _ _ _ h3'
        subst c1; subst c2
        have hlt := n.toNat_lt
        simp only [encProofs, h45, h3, h6, if_false, if_true]
        rw [hn, Nat.mod_eq_of_lt hlt, UInt8.ofNat_toNat]; simp
      · rename_i h6
        obtain ⟨x, r1, h1, h2⟩ := bind_some h
        obtain ⟨he, rfl⟩ := pure_some h2
        simp at he; obtain ⟨rfl, rfl, rfl⟩ := he
        have c := sound_sized sizes.rangesig id (takeN 6176) (sound_takeN 6176) _ _ _ _ h1
        subst c; simp [encProofs, h45, h3, h6]

theorem sound_clsag (m : Nat) : Sound encClsag (clsagDec m) := by
  intro b x r h
  unfold clsagDec at h
  obtain ⟨s, r1, h1, h2⟩ := bind_some h
  obtain ⟨c1, r2, h3, h4⟩ := bind_some h2
  obtain ⟨d, r3, h5, h6⟩ := bind_some h4
  obtain ⟨rfl, rfl⟩ := pure_some h6
  have e1 := sound_rep id key sound_key _ _ _ _ h1
  have e2 := sound_key _ _ _ h3; have e3 := sound_key _ _ _ h5
  simp only [id] at e2 e3; subst e1; subst e2; subst e3
  simp [encClsag]

theorem sound_mg (cols m : Nat) : Sound encMG (mgDec cols m) := by
  intro b x r h
  unfold mgDec at h
  obtain ⟨ss, r1, h1, h2⟩ := bind_some h
  obtain ⟨cc, r2, h3, h4⟩ := bind_some h2
  obtain ⟨rfl, rfl⟩ := pure_some h4
  have e1 := sound_rep (encSized id) (sizedVec sizes.key key cols) (sound_sized sizes.key id key sound_key cols) _ _ _ _ h1
  have e2 := sound_key _ _ _ h3
  simp only [id] at e2; subst e1; subst e2
  simp [encMG]

theorem sound_sigs (ty i m : Nat) : ∀ b ms cs r, sigsDec ty i m b = some ((ms, cs), r) →
    b = encSigs ms cs ty ++ r := by
  intro b ms cs r h
  unfold sigsDec at h
  split at h
  · rename_i h56
    obtain ⟨x, r1, h1, h2⟩ := bind_some h
    obtain ⟨he, rfl⟩ := pure_some h2
    simp at he; obtain ⟨rfl, rfl⟩ := he
    have c := sound_rep encClsag (clsagDec m) (sound_clsag m) _ _ _ _ h1
    subst c; simp [encSigs, h56]
  · rename_i h56
    simp only at h
    obtain ⟨x, r1, h1, h2⟩ := bind_some h
    obtain ⟨he, rfl⟩ := pure_some h2
    simp at he; obtain ⟨rfl, rfl⟩ := he
    have c := sound_rep encMG (mgDec _ m) (sound_mg _ m) _ _ _ _ h1
    subst c; simp [encSigs, h56]

theorem sound_pseudo (ty i : Nat) : ∀ b po r, pseudoDec ty i b = some (po, r) → b = encPseudo po ty ++ r := by
  intro b po r h
  unfold pseudoDec at h
  split at h
  · rename_i h3
    have c := sound_sized sizes.key id key sound_key _ _ _ _ h
    subst c; simp [encPseudo, h3]
  · rename_i h3
    obtain ⟨rfl, rfl⟩ := pure_some h
    simp [encPseudo, h3]

theorem sound_prunable (ty i o m : Nat) : ∀ b x r, prunable ty i o m b = some (x, r) →
    (ty = 0 ∧ x = none ∧ b = r) ∨ (ty ≠ 0 ∧ ∃ p, x = some p ∧ b = encPrunable p ty ++ r) := by
  intro b x r h
  unfold prunable at h
  split at h
  · rename_i h0
    obtain ⟨rfl, rfl⟩ := pure_some h
    exact Or.inl ⟨h0, rfl, rfl⟩
  · rename_i h0
    obtain ⟨⟨rs, bps, bpps⟩, r1, h1, h2⟩ := bind_some h
    obtain ⟨⟨ms, cs⟩, r2, h3, h4⟩ := bind_some h2
    obtain ⟨po, r3, h5, h6⟩ := bind_some h4
    obtain ⟨rfl, rfl⟩ := pure_some h6
    have c1 := sound_proofs ty o _ _ _ _ _ h1
    have c2 := sound_sigs ty i m _ _ _ _ h3
    have c3 := sound_pseudo ty i _ _ _ h5
    refine Or.inr ⟨h0, _, rfl, ?_⟩
    subst c1; subst c2; subst c3
    simp [encPrunable, h0]

