import MoneroModel.Proofs.ScanAmounts
import MoneroModel.Proofs.TxSound4
/-! Further facts about the scan model used by the C07 / C08 theorems added after the audit: the pipeline with an ARBITRARY
`Checker`, which failing output determines the error (the first matched one whose opening fails), when the scan is `Ok`,
uniqueness of the spend key in the one-time-address relation, width of the recovered amount and mask, the honest-sender
predicate for one position, and "a decoded version-1 / input-less transaction has no `RctSigBase`". -/
namespace Monero.Scan
open Monero.Extra
variable {P : Type}

/-! ### the entry point with a pre-built checker -/

theorem with_ok (ops : CryptoOps P) (decP : Bytes → Option P) (p : Prefix) (ck : Checker P) (base : Option Base)
    (ws : List Owned) (h : checkOutputsWith ops decP p ck base = .ok ws) :
    ∃ Rm, mainKey ops p = some Rm ∧ go ops decP ck base Rm p.outs 0 (addKeys ops p) = .ok ws := by
  rw [checkOutputsWith_eq] at h
  cases hm : mainKey ops p with
  | none => rw [hm] at h; cases h
  | some R => rw [hm] at h; exact ⟨R, rfl, h⟩

theorem with_error (ops : CryptoOps P) (decP : Bytes → Option P) (p : Prefix) (ck : Checker P) (base : Option Base)
    (e : ScanErr) (h : checkOutputsWith ops decP p ck base = .error e) :
    (mainKey ops p = none ∧ e = .noTxPublicKey) ∨
    ∃ Rm, mainKey ops p = some Rm ∧ go ops decP ck base Rm p.outs 0 (addKeys ops p) = .error e := by
  rw [checkOutputsWith_eq] at h
  cases hm : mainKey ops p with
  | none => rw [hm] at h; simp only [Except.error.injEq] at h; exact Or.inl ⟨rfl, h.symm⟩
  | some R => rw [hm] at h; exact Or.inr ⟨R, rfl, h⟩

section pipeline
variable (ops : CryptoOps P) (decP : Bytes → Option P) (ck : Checker P) (base : Option Base) (R : Bytes)

/-- an `Err` result is the error of the opening step of the FIRST matched output whose opening fails: every matched output
before it opened successfully (the iterator is lazy, `collect` stops at the first `Err`) -/
theorem go_error_first : ∀ (outs : List TxOut) (i0 : Nat) (adds : List Bytes) (e : ScanErr),
    go ops decP ck base R outs i0 adds = .error e →
    ∃ j, ∃ hj : j < outs.length, ∃ idx K,
      matchOutput ops ck outs[j] (i0 + j) R adds[j]? = some (i0 + j, idx, K) ∧
      openStep ops decP ck.v base (i0 + j) K = .error e ∧
      ∀ j' (hj' : j' < outs.length), j' < j → ∀ idx' K',
        matchOutput ops ck outs[j'] (i0 + j') R adds[j']? = some (i0 + j', idx', K') →
        ∃ op, openStep ops decP ck.v base (i0 + j') K' = .ok op := by
  intro outs
  induction outs with
  | nil => intro i0 adds e h; simp [go] at h
  | cons o os ih =>
    intro i0 adds e h
    rw [go] at h
    -- lifting the statement for the tail, given what happened at the head
    have lift : (∀ idx' K', matchOutput ops ck o i0 R adds.head? = some (i0, idx', K') →
          ∃ op, openStep ops decP ck.v base i0 K' = .ok op) →
        go ops decP ck base R os (i0 + 1) adds.tail = .error e →
        ∃ j, ∃ hj : j < (o :: os).length, ∃ idx K,
          matchOutput ops ck (o :: os)[j] (i0 + j) R adds[j]? = some (i0 + j, idx, K) ∧
          openStep ops decP ck.v base (i0 + j) K = .error e ∧
          ∀ j' (hj' : j' < (o :: os).length), j' < j → ∀ idx' K',
            matchOutput ops ck (o :: os)[j'] (i0 + j') R adds[j']? = some (i0 + j', idx', K') →
            ∃ op, openStep ops decP ck.v base (i0 + j') K' = .ok op := by
      intro hhead h'
      obtain ⟨j, hj, idx, K, h1, h2, h3⟩ := ih (i0 + 1) adds.tail e h'
      refine ⟨j + 1, by simp; omega, idx, K, ?_, ?_, ?_⟩
      · rw [getElem?_tail'] at h1
        have e' : i0 + 1 + j = i0 + (j + 1) := by omega
        rw [e'] at h1
        simpa using h1
      · have e' : i0 + 1 + j = i0 + (j + 1) := by omega
        rw [e'] at h2; exact h2
      · intro j' hj' hlt idx' K' hm'
        cases j' with
        | zero =>
          simp only [List.getElem_cons_zero, Nat.add_zero, ← head?_eq'] at hm'
          simpa using hhead idx' K' hm'
        | succ j'' =>
          have hj'' : j'' < os.length := by simpa using hj'
          have e' : i0 + (j'' + 1) = i0 + 1 + j'' := by omega
          simp only [List.getElem_cons_succ] at hm'
          rw [e', ← getElem?_tail'] at hm'
          obtain ⟨op, hop⟩ := h3 j'' hj'' (by omega) idx' K' hm'
          exact ⟨op, by rw [e']; exact hop⟩
    cases hm : matchOutput ops ck o i0 R adds.head? with
    | none =>
      rw [hm] at h
      exact lift (fun idx' K' hc => by rw [hm] at hc; cases hc) h
    | some r =>
      obtain ⟨i', idx, K⟩ := r
      have hi : i' = i0 := matchOutput_index ops ck o i0 R adds.head? _ hm
      subst hi
      rw [hm] at h; simp only at h
      cases ho : openStep ops decP ck.v base i' K with
      | error e' =>
        rw [ho] at h; simp only [Except.error.injEq] at h; subst h
        refine ⟨0, by simp, idx, K, ?_, by simpa using ho, ?_⟩
        · rw [head?_eq'] at hm; simpa using hm
        · intro j' _ hlt; omega
      | ok op =>
        rw [ho] at h; simp only at h
        cases hrest : go ops decP ck base R os (i' + 1) adds.tail with
        | error e' =>
          rw [hrest] at h; simp only [Except.error.injEq] at h; subst h
          refine lift ?_ hrest
          intro idx' K' hc
          rw [hm] at hc
          simp only [Option.some.injEq, Prod.mk.injEq] at hc
          obtain ⟨_, _, rfl⟩ := hc
          exact ⟨op, ho⟩
        | ok rest => rw [hrest] at h; cases h

/-- the scan is `Ok` as soon as the opening step succeeds for every output that MATCHES (nothing is required of the others) -/
theorem go_ok_of_matched_open (outs : List TxOut) (i0 : Nat) (adds : List Bytes)
    (hop : ∀ j (hj : j < outs.length) idx K, matchOutput ops ck outs[j] (i0 + j) R adds[j]? = some (i0 + j, idx, K) →
      ∃ op, openStep ops decP ck.v base (i0 + j) K = .ok op) :
    ∃ ws, go ops decP ck base R outs i0 adds = .ok ws := by
  cases h : go ops decP ck base R outs i0 adds with
  | ok ws => exact ⟨ws, rfl⟩
  | error e =>
    obtain ⟨j, hj, idx, K, h1, h2⟩ := go_error ops decP ck base R outs i0 adds e h
    obtain ⟨op, h3⟩ := hop j hj idx K h1
    rw [h3] at h2; cases h2
/-- the opening recorded in a reported output is the result of the opening step at its position with its matched key -/
theorem go_ok_opening (outs : List TxOut) (i0 : Nat) (adds : List Bytes) (ws : List Owned)
    (h : go ops decP ck base R outs i0 adds = .ok ws) :
    ∀ w ∈ ws, openStep ops decP ck.v base w.index w.txKey = .ok w.opening := by
  intro w hw
  obtain ⟨j, _, _, h2, _, h4⟩ := go_ok_sound ops decP ck base R outs i0 adds ws h w hw
  rw [h2]; exact h4
end pipeline

/-! ### the relation determines the spend key -/

/-- for a fixed output, position and transaction key the one-time-address relation holds for ONE spend key only -/
theorem addressed_spend_unique [AddCommGroup P] (ops : CryptoOps P) (v : Nat) (S : P) (out : TxOut) (i : Nat) (K : Bytes)
    (idx idx' : Nat × Nat) (h : Addressed ops v S out i K idx) (h' : Addressed ops v S out i K idx') :
    subSpendPub ops v S idx.1 idx.2 = subSpendPub ops v S idx'.1 idx'.2 := by
  obtain ⟨Pi, R, h1, h2, _, h4⟩ := h
  obtain ⟨Pi', R', h1', h2', _, h4'⟩ := h'
  rw [h1] at h1'; rw [h2] at h2'
  cases h1'; cases h2'
  rw [h4] at h4'
  exact add_left_cancel h4'

/-- a tagged output whose tag differs from the derived one is not addressed through that key, whatever the index -/
theorem not_addressed_of_wrong_tag [AddCommGroup P] (ops : CryptoOps P) (v : Nat) (S : P) (out : TxOut) (i : Nat)
    (K : Bytes) (k : Bytes) (t : UInt8) (ht : out.target = .tagged k t)
    (hw : ∀ R, ops.dec K = some R → t ≠ viewTagOf ops (derive ops v R) i) (idx : Nat × Nat) :
    ¬ Addressed ops v S out i K idx := by
  rintro ⟨Pi, R, _, h2, h3, _⟩
  rw [ht] at h3
  simp only [checkViewTag, beq_iff_eq] at h3
  exact hw R h2 h3

/-! ### width of what `open_commitment` computes -/

/-- the mask is a reduced scalar; the amount fits 64 bits (for the compact form: when the field has at most 8 bytes, as
`Hash8` has) -/
theorem ecdhDecode_bounds (ops : CryptoOps P) (hl : 0 < ops.l) (e : Ecdh) (k : Nat) :
    (ecdhDecode ops e k).2 < ops.l ∧
    ((∀ am, e = .bp am → am.length ≤ 8) → (ecdhDecode ops e k).1 < 2 ^ 64) := by
  cases e with
  | std m a =>
    refine ⟨scalarSub_lt _ _ _ hl, fun _ => ?_⟩
    show _ % 2 ^ 64 < 2 ^ 64
    exact Nat.mod_lt _ (by decide)
  | bp am =>
    refine ⟨hsOf_lt ops hl _, fun hlen => ?_⟩
    have h8 := hlen am rfl
    show leNat am ^^^ leNat ((ops.keccak (Gen.amountSalt ++ scalarBytes k)).take 8) < 2 ^ 64
    have pw : ∀ n, n ≤ 8 → (256 : Nat) ^ n ≤ 2 ^ 64 := by
      intro n hn
      have : (2 : Nat) ^ 64 = 256 ^ 8 := by decide
      rw [this]; exact Nat.pow_le_pow_right (by decide) hn
    have b1 : leNat am < 2 ^ 64 := by
      rw [leNat_eq_Ed]; exact Nat.lt_of_lt_of_le (Ed.leNat_lt am) (pw _ h8)
    have b2 : leNat ((ops.keccak (Gen.amountSalt ++ scalarBytes k)).take 8) < 2 ^ 64 := by
      rw [leNat_eq_Ed]
      refine Nat.lt_of_lt_of_le (Ed.leNat_lt _) (pw _ ?_)
      rw [List.length_take]; exact Nat.min_le_left _ _
    exact Nat.xor_lt_two_pow b1 b2

/-- a failed `open_commitment` is `Err(InvalidCommitment)` of the opening step, and conversely the step returns an opening
only if `open_commitment` did -/
theorem openStep_of_open (ops : CryptoOps P) (decP : Bytes → Option P) (v : Nat) (b : Base) (hty : b.ty ≠ 0) (i : Nat) (K : Bytes)
    (e : Ecdh) (he : b.ecdh[i]? = some e) (cb : Bytes) (hcb : b.outPk[i]? = some cb) (C : P) (hC : decP cb = some C)
    (R : P) (hR : ops.dec K = some R) :
    openStep ops decP v (some b) i K =
      match openCommitment ops decP e v R i C with
      | none => .error .invalidCommitment
      | some o => .ok (some o) := by
  unfold openStep
  simp only [hty, if_false, he, hcb, hC, hR]
  cases openCommitment ops decP e v R i C <;> rfl

/-- the opening step never returns `NoTxPublicKey` (that error comes from the missing transaction key only) -/
theorem openStep_ne_noTxPublicKey (ops : CryptoOps P) (decP : Bytes → Option P) (v : Nat) (base : Option Base) (i : Nat) (K : Bytes) :
    openStep ops decP v base i K ≠ .error .noTxPublicKey := by
  unfold openStep
  intro h
  repeat' split at h
  all_goals cases h

/-- the commitment `y·G + a·H` is computed (no panic of `H.point.decompress().unwrap()`) as soon as the constant `H` decompresses -/
theorem commit_some (ops : CryptoOps P) (decP : Bytes → Option P) (H : P) (hH : decP Gen.pointH = some H) (y a : Nat) :
    commit ops decP y a = some (ops.add (ops.smul y ops.base) (ops.smul a H)) := by
  unfold commit; rw [hH]

/-! ### an honestly built position -/

/-- position `n` of a transaction with RingCT base `b` was built by the by-the-book sender (`Spec.Sender`, `Spec.Amounts`)
for the wallet `(v, S)` and is scanned with transaction key `K`: for some subaddress index `(i,j)`, sender secret `r`,
small-order shift `T`, amount `a < 2^64` and mask `y < l`, `K` is the published key `txKey r dest + T`, the ecdh entry at `n` is
the legacy encoding of `(a, y)` or the compact encoding of `a` (with `y` the derived mask) under the shared scalar, and the
commitment entry at `n` is the encoding of `y·G + a·H`. -/
def HonestAt [AddCommGroup P] (ops : CryptoOps P) (H : P) (v : Nat) (S : P) (b : Base) (n : Nat) (K : Bytes) : Prop :=
  ∃ (i j r : Nat) (T : P) (a y : Nat), 8 • T = 0 ∧ a < 2 ^ 64 ∧ y < ops.l ∧
    K = ops.enc (Spec.Sender.txKey (specPrims ops) r (Spec.Sender.destAt (specPrims ops) v S i j) + T) ∧
    b.outPk[n]? = some (ops.enc (Spec.Amounts.commitment (specPrims ops) H y a)) ∧
    (b.ecdh[n]? = some (.std
        (Spec.Amounts.legacyEncode (specPrims ops) (Spec.Sender.derivationScalar (specPrims ops)
          (Spec.Sender.derivation (specPrims ops) r (Spec.Sender.destAt (specPrims ops) v S i j).view) n) y a).1
        (Spec.Amounts.legacyEncode (specPrims ops) (Spec.Sender.derivationScalar (specPrims ops)
          (Spec.Sender.derivation (specPrims ops) r (Spec.Sender.destAt (specPrims ops) v S i j).view) n) y a).2) ∨
     (b.ecdh[n]? = some (.bp (Spec.Amounts.compactEncode (specPrims ops) (Spec.Sender.derivationScalar (specPrims ops)
          (Spec.Sender.derivation (specPrims ops) r (Spec.Sender.destAt (specPrims ops) v S i j).view) n) a)) ∧
      y = Spec.Amounts.compactMask (specPrims ops) (Spec.Sender.derivationScalar (specPrims ops)
          (Spec.Sender.derivation (specPrims ops) r (Spec.Sender.destAt (specPrims ops) v S i j).view) n)))
end Monero.Scan

namespace Monero
/-- a transaction that came out of the decoder with version 1, or with no inputs, carries no `RctSigBase`; with inputs and
version ≠ 1 it carries one -/
theorem tx_base_none (b : Bytes) (t : Tx) (r : Bytes) (h : tx b = some (t, r))
    (hv : t.pre.version = 1 ∨ t.pre.ins = []) : t.base = none := by
  unfold tx at h
  obtain ⟨p, r1, _, h2⟩ := bind_some h
  simp only at h2
  split at h2
  · obtain ⟨s, r2, _, h4⟩ := bind_some h2
    obtain ⟨rfl, _⟩ := pure_some h4
    rfl
  · rename_i hv1
    split at h2
    · obtain ⟨rfl, _⟩ := pure_some h2
      rfl
    · rename_i hin
      exfalso
      -- the decoded prefix is `p`; neither disjunct of `hv` can hold
      have hp : t.pre = p := by
        obtain ⟨bs, r2, _, h4⟩ := bind_some h2
        split at h4
        · cases hh : p.ins.head? with
          | none =>
            simp only [hh] at h4
            obtain ⟨pr, r3, _, h6⟩ := bind_some h4
            obtain ⟨rfl, _⟩ := pure_some h6; rfl
          | some i0 =>
            cases i0 with
            | gen hgt =>
              simp only [hh] at h4
              obtain ⟨pr, r3, _, h6⟩ := bind_some h4
              obtain ⟨rfl, _⟩ := pure_some h6; rfl
            | toKey a o k =>
              simp only [hh] at h4
              split at h4
              · exact (fail_some h4).elim
              · obtain ⟨pr, r3, _, h6⟩ := bind_some h4
                obtain ⟨rfl, _⟩ := pure_some h6; rfl
        · obtain ⟨rfl, _⟩ := pure_some h4; rfl
      rw [hp] at hv
      rcases hv with hv | hv
      · exact hv1 hv
      · apply hin; rw [hv]; rfl
end Monero
