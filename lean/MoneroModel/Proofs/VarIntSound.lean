import MoneroModel.Model.Tx
open Monero

/-! VarInt decoder soundness for the UInt8 model: `varint b = some (n, r) → b = encVarint n ++ r`. Core Lean only. -/

def valMSB : List Nat → Nat → Nat
  | [], int => int
  | [last], int => int + last
  | g :: g' :: rest, int => valMSB (g' :: rest) ((int + g) * 128)

def valLSB : List Nat → Nat
  | [] => 0
  | g :: gs => g + 128 * valLSB gs

theorem accum_val : ∀ (l : List Nat) (x n : Nat), accum l x = some n → n = valMSB l x
  | [], x, n, h => by simp [accum] at h; simp [valMSB, h]
  | [a], x, n, h => by simp [accum] at h; simp [valMSB, h]
  | g :: g' :: rest, x, n, h => by
    simp only [accum] at h
    split at h
    · exact accum_val (g' :: rest) _ n h
    · simp at h

theorem valLSB_snoc (l : List Nat) (a : Nat) : valLSB (l ++ [a]) = valLSB l + a * 128 ^ l.length := by
  induction l with
  | nil => simp [valLSB]
  | cons b bs ihb =>
    simp only [List.cons_append, valLSB, ihb, List.length_cons, Nat.pow_succ]
    rw [Nat.mul_add, Nat.add_assoc]
    congr 2
    rw [← Nat.mul_assoc, ← Nat.mul_assoc, Nat.mul_comm 128 a, Nat.mul_right_comm]

theorem valMSB_reverse_aux : ∀ (l : List Nat) (x : Nat), l ≠ [] →
    valMSB l x = x * 128 ^ (l.length - 1) + valLSB l.reverse
  | [], _, h => absurd rfl h
  | [a], x, _ => by simp [valMSB, valLSB]
  | g :: g' :: rest, x, _ => by
    have ih := valMSB_reverse_aux (g' :: rest) ((x + g) * 128) (by simp)
    simp only [valMSB, ih]
    rw [List.reverse_cons (a := g), valLSB_snoc]
    simp only [List.length_cons, Nat.add_sub_cancel, List.length_reverse, Nat.pow_succ, Nat.add_mul]
    ac_rfl

theorem valMSB_reverse (gs : List Nat) (h : gs ≠ []) : valMSB gs.reverse 0 = valLSB gs := by
  have := valMSB_reverse_aux gs.reverse 0 (by simpa using h)
  simpa using this

/-- wire bytes of a group list -/
def wire : List Nat → Bytes
  | [] => []
  | [g] => [UInt8.ofNat g]
  | g :: g' :: rest => UInt8.ofNat (g + 128) :: wire (g' :: rest)

theorem wire_cons (g : Nat) (l : List Nat) (h : l ≠ []) : wire (g :: l) = UInt8.ofNat (g + 128) :: wire l := by
  cases l with
  | nil => exact absurd rfl h
  | cons a t => rfl

theorem collect_spec : ∀ (b : Bytes) (acc gs : List Nat) (r : Bytes),
    collect b acc = some (gs, r) →
    ∃ new, gs = acc ++ new ∧ new ≠ [] ∧ b = wire new ++ r ∧ (∀ g ∈ new, g < 128) ∧
      ((acc = [] ∧ new.length = 1) ∨ new.getLast? ≠ some 0)
  | [], acc, gs, r, h => by simp [collect] at h
  | x :: xs, acc, gs, r, h => by
    have hx : x.toNat < 256 := x.toNat_lt
    simp only [collect] at h
    split at h
    · simp at h
    · rename_i hz
      split at h
      · rename_i hlt
        simp at h; obtain ⟨rfl, rfl⟩ := h
        refine ⟨[x.toNat % 128], rfl, by simp, ?_, ?_, ?_⟩
        · have : x.toNat % 128 = x.toNat := Nat.mod_eq_of_lt hlt
          simp [wire, this]
        · intro g hg; simp at hg; subst hg; exact Nat.mod_lt _ (by decide)
        · by_cases ha : acc = []
          · left; exact ⟨ha, rfl⟩
          · right
            have hne : x.toNat ≠ 0 := fun h0 => hz ⟨h0, ha⟩
            have : x.toNat % 128 = x.toNat := Nat.mod_eq_of_lt hlt
            simp [this, hne]
      · rename_i hge
        obtain ⟨new', hgs, hne, hb, hlt, hcan⟩ := collect_spec xs (acc ++ [x.toNat % 128]) gs r h
        refine ⟨(x.toNat % 128) :: new', by simp [hgs], by simp, ?_, ?_, ?_⟩
        · rw [wire_cons _ _ hne, hb]
          have : x.toNat % 128 + 128 = x.toNat := by omega
          simp [this]
        · intro g hg; simp at hg; rcases hg with rfl | hg
          · exact Nat.mod_lt _ (by decide)
          · exact hlt g hg
        · right
          rcases hcan with ⟨hc, _⟩ | hc
          · simp at hc
          · cases new' with
            | nil => exact absurd rfl hne
            | cons a t => simpa [List.getLast?_cons_cons] using hc

theorem valLSB_pos : ∀ l : List Nat, l ≠ [] → l.getLast? ≠ some 0 → 0 < valLSB l
  | [], h, _ => absurd rfl h
  | [a], _, hl => by simp [valLSB] at *; omega
  | a :: b :: t, _, hl => by
    have := valLSB_pos (b :: t) (by simp) (by simpa [List.getLast?_cons_cons] using hl)
    simp only [valLSB] at *; omega

theorem enc_valLSB : ∀ gs : List Nat, gs ≠ [] → (∀ g ∈ gs, g < 128) →
    (gs.length = 1 ∨ gs.getLast? ≠ some 0) → encVarint (valLSB gs) = wire gs
  | [], h, _, _ => absurd rfl h
  | [g], _, hlt, _ => by
    have : g < 128 := hlt g (by simp)
    unfold encVarint; simp [valLSB, wire, this]
  | g :: g' :: rest, _, hlt, hc => by
    have hg : g < 128 := hlt g (by simp)
    have hc' : (g' :: rest).getLast? ≠ some 0 := by
      rcases hc with h1 | h1
      · simp at h1
      · simpa [List.getLast?_cons_cons] using h1
    have ih := enc_valLSB (g' :: rest) (by simp) (fun y hy => hlt y (by simp [hy])) (Or.inr hc')
    have hpos := valLSB_pos (g' :: rest) (by simp) hc'
    have hv : valLSB (g :: g' :: rest) = g + 128 * valLSB (g' :: rest) := rfl
    rw [encVarint]
    have hnlt : ¬ (valLSB (g :: g' :: rest) < 128) := by rw [hv]; omega
    rw [dif_neg hnlt, hv]
    have h1 : (g + 128 * valLSB (g' :: rest)) % 128 = g := by omega
    have h2 : (g + 128 * valLSB (g' :: rest)) / 128 = valLSB (g' :: rest) := by omega
    rw [h1, h2, ih]; rfl

/-- C14/C01 for VarInt: whatever the decoder accepts re-encodes to exactly the consumed bytes -/
theorem sound_varint : ∀ b n r, varint b = some (n, r) → b = encVarint n ++ r := by
  intro b n r h
  unfold varint at h
  split at h
  · simp at h
  · rename_i gs rest hc
    split at h
    · simp at h
    · rename_i m ha
      simp at h; obtain ⟨rfl, rfl⟩ := h
      obtain ⟨new, hgs, hne, hb, hlt, hcan⟩ := collect_spec b [] gs rest hc
      simp at hgs; subst hgs
      have hm : m = valLSB gs := by
        rw [accum_val _ _ _ ha, valMSB_reverse gs hne]
      have hcanon : gs.length = 1 ∨ gs.getLast? ≠ some 0 := by
        rcases hcan with ⟨_, h1⟩ | h1
        · left; exact h1
        · right; exact h1
      rw [hb, hm, enc_valLSB gs hne hlt hcanon]

