import MoneroModel.Proofs.AmountText8
/-! Converse of the round trip: what the specification's parser returns on a formatted amount, whatever its magnitude
(`specParse_specFormat_iff`), hence injectivity of the formatter (core Lean only). -/
namespace Monero.AmtText
open Spec.Decimal (specParse specFormat natOfDigits splitSign maxAmount)

/-- sign, grammar and value of a formatted amount: the string splits into the sign of `a` and a body of the grammar whose
digits write `|a|` with exactly `md` fraction digits -/
theorem specFormat_lit (md : Nat) (a : Int) :
    ∃ ip fp, (splitSign (specFormat md a)).1 = decide (a < 0) ∧ (splitSign (specFormat md a)).2 ≠ [] ∧
      Lit (splitSign (specFormat md a)).2 ip fp ∧ fp.length ≤ md ∧
      natOfDigits (ip ++ fp) * 10 ^ (md - fp.length) = a.natAbs := by
  obtain ⟨ip, fp, he, h1, h2, h3, h4, h5, _⟩ := specFormat_shape md a
  have hfp0 : md = 0 → fp = [] := by
    intro h0; rw [h0] at h4; exact List.eq_nil_of_length_eq_zero h4
  have hlit : Lit (ip ++ (if md = 0 then [] else 0x2e :: fp)) ip fp := by
    by_cases h0 : md = 0
    · simp only [h0, if_true, List.append_nil]
      rw [hfp0 h0]; exact ⟨h1, AllDigits_nil, Or.inl ⟨rfl, rfl⟩⟩
    · simp only [h0, if_false]
      exact ⟨h1, h3, Or.inr rfl⟩
  have hval : natOfDigits (ip ++ fp) * 10 ^ (md - fp.length) = a.natAbs := by rw [h4, h5]; simp
  refine ⟨ip, fp, ?_⟩
  rw [he]
  by_cases hneg : a < 0
  · simp only [hneg, if_true]
    have hss : splitSign ([0x2d] ++ ip ++ (if md = 0 then [] else 0x2e :: fp)) = (true, ip ++ (if md = 0 then [] else 0x2e :: fp)) := by
      simp [splitSign]
    rw [hss]
    exact ⟨by simp, by simp [h2], hlit, by omega, hval⟩
  · simp only [hneg, if_false, List.nil_append]
    rw [splitSign_digits_first ip _ h1 h2]
    exact ⟨by simp, by simp [h2], hlit, by omega, hval⟩

/-- the specification's parser on a formatted amount of ANY magnitude: it returns a value iff that value is `a`, `a` is
within `±(2^63 − 1)`, the type admits its sign and the string is not longer than 50 bytes -/
theorem specParse_specFormat_iff (signed : Bool) (md : Nat) (a r : Int) :
    specParse signed md (specFormat md a) = some r ↔
      (r = a ∧ a.natAbs ≤ maxAmount ∧ (a < 0 → signed = true) ∧ (specFormat md a).length ≤ 50) := by
  constructor
  · intro h
    obtain ⟨hlen, _, ip', fp', hl', _, hmag, hs⟩ := (specParse_some_iff signed md _ r).mp h
    obtain ⟨ip, fp, hsg, _, hl, _, hval⟩ := specFormat_lit md a
    obtain ⟨rfl, rfl⟩ := Lit_unique hl hl'
    rw [hval] at hmag hs
    rw [hsg] at hs
    refine ⟨?_, hmag, ?_, hlen⟩
    · rcases hs with ⟨h1, h2⟩ | ⟨h1, _, h2⟩
      · have : ¬ a < 0 := by simpa using h1
        rw [h2]; omega
      · have : a < 0 := by simpa using h1
        rw [h2]; omega
    · intro hneg
      rcases hs with ⟨h1, _⟩ | ⟨_, h2, _⟩
      · have : ¬ a < 0 := by simpa using h1
        exact absurd hneg this
      · exact h2
  · rintro ⟨rfl, hmag, hsg, hlen⟩
    exact specParse_specFormat signed md r hmag hsg hlen

/-- the formatter is injective: two amounts with the same text in the same denomination are equal -/
theorem specFormat_injective (md : Nat) (a b : Int) (h : specFormat md a = specFormat md b) : a = b := by
  obtain ⟨ip, fp, hsg, _, hl, _, hval⟩ := specFormat_lit md a
  obtain ⟨ip', fp', hsg', _, hl', _, hval'⟩ := specFormat_lit md b
  rw [h] at hsg hl
  obtain ⟨rfl, rfl⟩ := Lit_unique hl hl'
  have hs : decide (a < 0) = decide (b < 0) := by rw [← hsg, ← hsg']
  have hab : a.natAbs = b.natAbs := by rw [← hval, ← hval']
  by_cases ha : a < 0
  · have : b < 0 := by simpa [ha] using hs
    omega
  · have : ¬ b < 0 := by simpa [ha] using hs
    omega

end Monero.AmtText
