import MoneroModel.Proofs.VarIntSound
open Monero

/-! VarInt completeness: `n < 2^64 → varint (encVarint n ++ r) = some (n, r)`. Core Lean only. -/


theorem toNat_ofNat_lt (k : Nat) (h : k < 256) : (UInt8.ofNat k).toNat = k := by
  simp [UInt8.toNat_ofNat', Nat.mod_eq_of_lt h]

theorem collect_enc (r : Bytes) : ∀ (n : Nat) (acc : List Nat), (acc = [] ∨ n ≠ 0) →
    collect (encVarint n ++ r) acc = some (acc ++ groups n, r) := by
  intro n
  induction n using Nat.strongRecOn with
  | _ n ih =>
    intro acc hacc
    rw [encVarint, groups]
    by_cases hlt : n < 128
    · simp only [hlt, dif_pos, List.singleton_append]
      have ht : (UInt8.ofNat n).toNat = n := toNat_ofNat_lt n (by omega)
      simp only [collect, ht]
      have hz : ¬ (n = 0 ∧ acc ≠ []) := by
        rintro ⟨h0, hne⟩; rcases hacc with h | h
        · exact hne h
        · exact h h0
      simp [hz, hlt, Nat.mod_eq_of_lt hlt]
    · simp only [hlt, dif_neg, not_false_eq_true, List.cons_append]
      have hb : n % 128 + 128 < 256 := by omega
      have ht : (UInt8.ofNat (n % 128 + 128)).toNat = n % 128 + 128 := toNat_ofNat_lt _ hb
      simp only [collect, ht]
      have hz : ¬ (n % 128 + 128 = 0 ∧ acc ≠ []) := by omega
      have hge : ¬ (n % 128 + 128 < 128) := by omega
      simp only [hz, hge, if_false]
      have := ih (n / 128) (by omega) (acc ++ [(n % 128 + 128) % 128]) (Or.inr (by omega))
      rw [this]
      have : (n % 128 + 128) % 128 = n % 128 := by omega
      simp [this]

theorem valLSB_groups : ∀ n, valLSB (groups n) = n := by
  intro n
  induction n using Nat.strongRecOn with
  | _ n ih =>
    rw [groups]
    by_cases hlt : n < 128
    · simp [hlt, valLSB]
    · simp only [hlt, dif_neg, not_false_eq_true, valLSB, ih (n / 128) (by omega)]; omega

theorem groups_ne_nil (n : Nat) : groups n ≠ [] := by
  rw [groups]; by_cases hlt : n < 128 <;> simp [hlt]

theorem groups_lt : ∀ n, ∀ g ∈ groups n, g < 128 := by
  intro n
  induction n using Nat.strongRecOn with
  | _ n ih =>
    intro g hg
    rw [groups] at hg
    by_cases hlt : n < 128
    · simp [hlt] at hg; omega
    · simp only [hlt, dif_neg, not_false_eq_true, List.mem_cons] at hg
      rcases hg with rfl | hg
      · omega
      · exact ih (n / 128) (by omega) g hg

theorem valMSB_ge : ∀ (l : List Nat) (x : Nat), l ≠ [] → x ≤ valMSB l x
  | [], _, h => absurd rfl h
  | [_], x, _ => by simp [valMSB]
  | g :: g' :: rest, x, _ => by
    have := valMSB_ge (g' :: rest) ((x + g) * 128) (by simp)
    simp only [valMSB]; omega

theorem accum_ok : ∀ (l : List Nat) (x : Nat), (∀ g ∈ l, g < 128) → valMSB l x < 2^64 →
    accum l x = some (valMSB l x)
  | [], x, _, _ => by simp [accum, valMSB]
  | [a], x, _, _ => by simp [accum, valMSB]
  | g :: g' :: rest, x, h, hv => by
    have hge := valMSB_ge (g' :: rest) ((x + g) * 128) (by simp)
    simp only [valMSB] at hv
    have hc : x + g < 2^57 := by omega
    simp only [accum, valMSB, hc, if_true]
    exact accum_ok (g' :: rest) _ (fun y hy => h y (by simp [hy])) hv

/-- C02/C14 for VarInt -/
theorem complete_varint (n : Nat) (hn : n < 2^64) (r : Bytes) : varint (encVarint n ++ r) = some (n, r) := by
  unfold varint
  rw [collect_enc r n [] (Or.inl rfl)]
  simp only [List.nil_append]
  have hv : valMSB (groups n).reverse 0 = n := by
    rw [valMSB_reverse _ (groups_ne_nil n), valLSB_groups]
  have := accum_ok (groups n).reverse 0 (by intro g hg; exact groups_lt n g (by simpa using hg)) (by rw [hv]; exact hn)
  rw [this, hv]

/-- and the decoder refuses everything at or above 2^64 -/
theorem varint_lt (b : Bytes) (n : Nat) (r : Bytes) (h : varint b = some (n, r)) : n < 2^64 := by
  unfold varint at h
  split at h
  · simp at h
  · rename_i gs rest hc
    split at h
    · simp at h
    · rename_i m ha
      simp at h; obtain ⟨rfl, rfl⟩ := h
      obtain ⟨new, hgs, hne, hb, hlt, hcan⟩ := collect_spec b [] gs rest hc
      simp at hgs; subst hgs
      -- accum only succeeds below 2^64
      have key : ∀ (l : List Nat) (x : Nat), (∀ g ∈ l, g < 128) → x < 2^64 → (x % 128 = 0) → ∀ m, accum l x = some m → m < 2^64 := by
        intro l; induction l with
        | nil => intro x _ hx _ m h; simp [accum] at h; omega
        | cons g t ih =>
          intro x hl hx hx0 m h
          cases t with
          | nil => simp [accum] at h; have := hl g (by simp); omega
          | cons g' rest =>
            simp only [accum] at h
            split at h
            · rename_i hc
              exact ih ((x + g) * 128) (fun y hy => hl y (by simp [hy])) (by omega) (by omega) m h
            · simp at h
      exact key gs.reverse 0 (by intro g hg; exact hlt g (by simpa using hg)) (by omega) (by omega) m ha

