import MoneroModel.Proofs.ScanTop
import MoneroModel.Model.ScanRecover
import MoneroModel.Proofs.VarIntComplete
import Mathlib.Algebra.Group.PUnit
/-! `OwnedTxOut::recover_key` on what the scan reports (helpers of Props/C09): every output in an `Ok` result of the scan
model satisfies the one-time-address relation for exactly the fields it carries (from Proofs/ScanGo, ScanMatch, ScanTop), and
on such an output the model of `recover_key` returns the discrete logarithm of the output's one-time public key. -/
namespace Monero.Scan
variable {P : Type} [AddCommGroup P] {ops : CryptoOps P}

/-- every reported output is the output at its position and is addressed through the key, position and index it carries -/
theorem reported_addressed (L : Lawful ops) (decP : Bytes → Option P) (p : Prefix) (v : Nat) (S : P) (a b c d : Nat)
    (base : Option Base) (ws : List Owned) (h : checkOutputsPrefix ops decP p v S a b c d base = .ok ws) :
    ∀ w ∈ ws, ∃ hi : w.index < p.outs.length, w.out = p.outs[w.index] ∧ InRange a b c d w.sub ∧
      Addressed ops v S w.out w.index w.txKey w.sub := by
  obtain ⟨Rm, _, hgo⟩ := prefix_ok ops decP p v S a b c d base ws h
  intro w hw
  obtain ⟨j, hj, hm, hidx, hout, _⟩ := go_ok_sound ops decP _ base Rm p.outs 0 _ ws hgo w hw
  rw [Nat.zero_add] at hm hidx
  obtain ⟨_, hr, hA, _, _⟩ := matchOutput_some L v S a b c d p.outs[j] j Rm _ _ hm
  simp only at hr hA
  subst hidx
  exact ⟨hj, hout, hr, by rw [hout]; exact hA⟩

/-- on an output that is addressed through the fields it carries, `recover_key` does not hit the `expect` of
`PublicKey::point()`, and returns a reduced scalar `x` with `x·G` = the output's one-time public key -/
theorem owned_recover_of_addressed (L : Lawful ops) (v s : Nat) (S : P) (hS : S = s • ops.base) (w : Owned)
    (hA : Addressed ops v S w.out w.index w.txKey w.sub) :
    ∃ x Pi R, Owned.recoverKey ops w v s = some x ∧ asOneTimeKey ops w.out.target = some Pi ∧
      ops.dec w.txKey = some R ∧ x = Monero.recoverKey ops v s R w.index w.sub.1 w.sub.2 ∧
      pubOf ops x = Pi ∧ x • ops.base = Pi ∧ x < ops.l := by
  obtain ⟨Pi, R, h1, h2, _, h4⟩ := hA
  have hx : Monero.recoverKey ops v s R w.index w.sub.1 w.sub.2 • ops.base = Pi := by
    rw [L.recoverKey_pub v s S hS, L.oneTimeKey_val, h4]
  refine ⟨_, Pi, R, ?_, h1, h2, rfl, ?_, hx, Nat.mod_lt _ L.l_pos⟩
  · unfold Owned.recoverKey; rw [h2]
  · rw [L.pubOf_eq]; exact hx

omit [AddCommGroup P] in
/-- driver glue (`rfl`; `Recoverer` is a pure record written for the `c09_recover_seq` driver arm): the two-step record computes the
one-step function `KeyRecoverer::new(keys, R).recover(n, (i,j))`. Not evidence about the Rust object's state. -/
theorem recoverer_recover (v s : Nat) (R : P) (n i j : Nat) :
    (Recoverer.new ops v s R).recover ops n i j = Monero.recoverKey ops v s R n i j := rfl

omit [AddCommGroup P] in
/-- … for any list of calls on one record (driver glue, `rfl`) -/
theorem recoverer_recoverAll (v s : Nat) (R : P) (qs : List (Nat × Nat × Nat)) :
    (Recoverer.new ops v s R).recoverAll ops qs = qs.map fun q => Monero.recoverKey ops v s R q.1 q.2.1 q.2.2 := rfl
/-! ### a lawful instance on which the scan computes by `rfl` (satisfiability witness for Props/C09) -/
/-- the one-element group: every operation returns the only point. Lawful (the encoding of one point is injective), useless
for cryptography, but the scan model evaluates on it in the kernel -/
def unitOps : CryptoOps PUnit :=
  { add := fun _ _ => PUnit.unit, sub := fun _ _ => PUnit.unit, smul := fun _ _ => PUnit.unit, base := PUnit.unit,
    enc := fun _ => [], dec := fun _ => some PUnit.unit, keccak := fun _ => [], l := 9 }
theorem unitOps_lawful : Lawful unitOps where
  add_eq _ _ := rfl
  sub_eq _ _ := rfl
  smul_eq _ _ := rfl
  l_gt := by decide
  base_order := rfl
  enc_inj := fun _ _ _ => rfl
  dec_enc := fun _ => rfl
/-- version 2, no inputs, one output of amount 7, extra = one transaction public key -/
def unitPrefix : Prefix := ⟨2, 0, [], [⟨7, .key []⟩], 1 :: List.replicate 32 0⟩
theorem unitScan_ok : ∃ ws, checkOutputsPrefix unitOps (fun _ => none) unitPrefix 1 PUnit.unit 0 1 0 1 none = .ok ws ∧
    ws.length = 1 := ⟨_, rfl, rfl⟩
end Monero.Scan
