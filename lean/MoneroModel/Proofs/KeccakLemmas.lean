import MoneroModel.Ref.Keccak
/-! Structure lemmas about the reference sponge: padding length / shape, block-wise unrolling of `absorb`. Core Lean only. -/
namespace Keccak

/-- one absorbed block -/
def absorbBlock (st : Array UInt64) (blk : List UInt8) : Array UInt64 := f1600 (xorBlock st blk)

/-- the first `n` rate-sized blocks of `m` -/
def blocks : Nat → List UInt8 → List (List UInt8)
  | 0, _ => []
  | n + 1, m => m.take rate :: blocks n (m.drop rate)

theorem absorb_nil (st : Array UInt64) : absorb st [] = st := by rw [absorb]; simp

theorem absorb_step (st : Array UInt64) (blk rest : List UInt8) (h : blk.length = rate) :
    absorb st (blk ++ rest) = absorb (f1600 (xorBlock st blk)) rest := by
  rw [absorb]
  have hne : blk ++ rest ≠ [] := by
    intro h0
    have : (blk ++ rest).length = 0 := by rw [h0]; rfl
    simp [h, rate] at this
  rw [dif_neg hne, List.take_left' h, List.drop_left' h]

theorem blocks_length (n : Nat) : ∀ m : List UInt8, (blocks n m).length = n := by
  induction n with
  | zero => intro m; rfl
  | succ k ih => intro m; simp [blocks, ih]

theorem blocks_spec (n : Nat) : ∀ (m : List UInt8), m.length = rate * n →
    (∀ b ∈ blocks n m, b.length = rate) ∧ (blocks n m).flatten = m := by
  induction n with
  | zero => intro m h; simp at h; subst h; simp [blocks]
  | succ k ih =>
    intro m h
    have hd : (m.drop rate).length = rate * k := by simp [List.length_drop, h, Nat.mul_succ]
    obtain ⟨h1, h2⟩ := ih _ hd
    constructor
    · intro b hb
      simp only [blocks, List.mem_cons] at hb
      rcases hb with rfl | hb
      · simp [List.length_take, h, Nat.mul_succ]
      · exact h1 b hb
    · simp [blocks, h2]

theorem absorb_blocks (n : Nat) : ∀ (st : Array UInt64) (m : List UInt8), m.length = rate * n →
    absorb st m = (blocks n m).foldl absorbBlock st := by
  induction n with
  | zero => intro st m h; simp at h; subst h; simp [blocks, absorb_nil]
  | succ k ih =>
    intro st m h
    have hd : (m.drop rate).length = rate * k := by simp [List.length_drop, h, Nat.mul_succ]
    have ht : (m.take rate).length = rate := by simp [List.length_take, h, Nat.mul_succ]
    conv => lhs; rw [← List.take_append_drop rate m]
    rw [absorb_step _ _ _ ht, ih _ _ hd]
    simp [blocks, absorbBlock]

theorem pad_eq (m : List UInt8) :
    pad m = if m.length % 136 = 135 then m ++ [0x81]
            else m ++ [0x01] ++ List.replicate (134 - m.length % 136) 0 ++ [0x80] := by
  have hr : m.length % rate < rate := Nat.mod_lt _ (by decide)
  unfold pad
  simp only [rate] at *
  by_cases h : m.length % 136 = 135
  · have h1 : (136 - m.length % 136 == 1) = true := by simp; omega
    simp [h]
  · have h1 : ¬ ((136 - m.length % 136 == 1) = true) := by simp; omega
    have h2 : 136 - m.length % 136 - 2 = 134 - m.length % 136 := by omega
    simp [h, h1, h2]

theorem pad_length (m : List UInt8) : (pad m).length = m.length + (rate - m.length % rate) := by
  have hr : m.length % rate < rate := Nat.mod_lt _ (by decide)
  rw [pad_eq]
  simp only [rate] at *
  by_cases h : m.length % 136 = 135
  · simp [h]
  · simp [h]; omega

/-! injectivity of the padding: the padded string determines the message -/
theorem snoc_inj {α : Type} (a b : List α) (x y : α) (h : a ++ [x] = b ++ [y]) : a = b ∧ x = y := by
  have := List.append_inj' h rfl
  exact ⟨this.1, by simpa using this.2⟩

theorem pad_tail_inj : ∀ (ka kb : Nat) (a b : List UInt8),
    a ++ [0x01] ++ List.replicate ka 0 = b ++ [0x01] ++ List.replicate kb 0 → a = b := by
  intro ka
  induction ka with
  | zero =>
    intro kb a b h
    cases kb with
    | zero => simp at h; exact h
    | succ k =>
      rw [List.replicate_succ', ← List.append_assoc] at h
      simp only [List.replicate_zero, List.append_nil] at h
      have := (snoc_inj _ _ _ _ h).2
      exact absurd this (by decide)
  | succ k ih =>
    intro kb a b h
    cases kb with
    | zero =>
      rw [List.replicate_succ', ← List.append_assoc] at h
      simp only [List.replicate_zero, List.append_nil] at h
      have := (snoc_inj _ _ _ _ h).2
      exact absurd this (by decide)
    | succ k' =>
      rw [List.replicate_succ', List.replicate_succ', ← List.append_assoc, ← List.append_assoc] at h
      exact ih k' a b (snoc_inj _ _ _ _ h).1

theorem pad_injective (a b : List UInt8) (h : pad a = pad b) : a = b := by
  rw [pad_eq a, pad_eq b] at h
  by_cases ha : a.length % 136 = 135 <;> by_cases hb : b.length % 136 = 135
  · rw [if_pos ha, if_pos hb] at h; exact (snoc_inj _ _ _ _ h).1
  · rw [if_pos ha, if_neg hb] at h; exact absurd (snoc_inj _ _ _ _ h).2 (by decide)
  · rw [if_neg ha, if_pos hb] at h; exact absurd (snoc_inj _ _ _ _ h).2 (by decide)
  · rw [if_neg ha, if_neg hb] at h; exact pad_tail_inj _ _ a b (snoc_inj _ _ _ _ h).1
end Keccak
