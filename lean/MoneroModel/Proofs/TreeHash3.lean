import MoneroModel.Proofs.TreeHash2
import MoneroModel.Proofs.BlockSound
import MoneroModel.Proofs.VarIntImp
import MoneroModel.Model.Build
import MoneroModel.Spec.Wire
/-! C06 helper lemmas, part 3: (a) well-formedness of the reference definition (`Spec.TreeHash.treeSpec` never uses one of
its totalising defaults), (b) the facts about PARSED blocks that the block-level theorems need (number of listed hashes
below the assert of `tree_hash_cnt`, header bytes = leading bytes of the block), (c) the header layout. Core Lean only. -/
namespace Monero
namespace TreeHash
open Spec.TreeHash

/-! ### (a) the reference definition -/

/-- `levelBelow n` is the exponent of the largest power of two strictly below `n`, for EVERY `n ≥ 2` (no upper bound) -/
theorem levelBelow_bounds (n : Nat) (h : 2 ≤ n) : 2 ^ levelBelow n < n ∧ n ≤ 2 * 2 ^ levelBelow n := by
  unfold levelBelow
  have hne : n - 1 ≠ 0 := by omega
  have h1 : 2 ^ (n - 1).log2 ≤ n - 1 := Nat.log2_self_le hne
  have h2 : n - 1 < 2 ^ ((n - 1).log2 + 1) := Nat.lt_log2_self
  rw [Nat.pow_succ] at h2
  omega

/-- `pairUp` on a list of even length loses nothing: it has half the length -/
theorem pairUp_length_even (H : Bytes → Bytes) (l : List Bytes) (k : Nat) (h : l.length = 2 * k) :
    (pairUp H l).length = k := pairUp_length H k l h

/-- shape facts of the `n ≥ 3` arm of `treeSpec`: the truncated subtraction `2·cnt − n` does not truncate, the list handed to
`pairUp` has even length `2·(n − cnt)` (no odd last element is dropped), and the list handed to `perfect` has exactly
`cnt = 2^m` nodes -/
theorem treeSpec_shape (H : Bytes → Bytes) (hs : List Bytes) (h : 3 ≤ hs.length) :
    let m := levelBelow hs.length
    let keep := 2 * 2 ^ m - hs.length
    hs.length ≤ 2 * 2 ^ m ∧ keep < 2 ^ m ∧ keep ≤ hs.length ∧
    (hs.drop keep).length = 2 * (hs.length - 2 ^ m) ∧
    (pairUp H (hs.drop keep)).length = hs.length - 2 ^ m ∧
    (hs.take keep ++ pairUp H (hs.drop keep)).length = 2 ^ m := by
  dsimp only
  obtain ⟨hlo, hhi⟩ := levelBelow_bounds hs.length (by omega)
  generalize levelBelow hs.length = m at *
  generalize hk : 2 * 2 ^ m - hs.length = keep
  have hd : (hs.drop keep).length = 2 * (hs.length - 2 ^ m) := by
    rw [List.length_drop]; omega
  have hp : (pairUp H (hs.drop keep)).length = hs.length - 2 ^ m := pairUp_length H _ _ hd
  refine ⟨hhi, by omega, by omega, hd, hp, ?_⟩
  rw [List.length_append, hp, List.length_take]; omega

/-- `perfect` with an explicit default in place of `[]` (only used to state that the default is irrelevant) -/
def perfectD (H : Bytes → Bytes) (d : Bytes) : Nat → List Bytes → Bytes
  | 0, l => l.headD d
  | m+1, l => H (perfectD H d m (l.take (2^m)) ++ perfectD H d m (l.drop (2^m)))

/-- on exactly `2^m` nodes the default of `perfect` is never used: any other default gives the same root, both halves of every
split have exactly `2^(m-1)` nodes, and a single node is its own root -/
theorem perfect_default_irrelevant (H : Bytes → Bytes) (d : Bytes) : ∀ (m : Nat) (l : List Bytes), l.length = 2 ^ m →
    perfectD H d m l = perfect H m l := by
  intro m
  induction m with
  | zero =>
    intro l hl
    match l, hl with
    | [a], _ => rfl
  | succ m ih =>
    intro l hl
    have hpow : 2 ^ (m + 1) = 2 * 2 ^ m := by rw [Nat.pow_succ]; omega
    rw [perfectD, perfect, ih _ (by rw [List.length_take, hl, hpow]; omega),
      ih _ (by rw [List.length_drop, hl, hpow]; omega)]

/-- the `n ≥ 3` arm of `treeSpec`, unfolded -/
theorem treeSpec_many (H : Bytes → Bytes) (hs : List Bytes) (h : 3 ≤ hs.length) :
    treeSpec H hs = perfect H (levelBelow hs.length)
      (hs.take (2 * 2 ^ levelBelow hs.length - hs.length) ++ pairUp H (hs.drop (2 * 2 ^ levelBelow hs.length - hs.length))) := by
  match hs, h with
  | a :: b :: c :: t, _ => simp only [treeSpec]

/-! ### (b) parsed blocks -/

/-- a capped vector decoder returns at most `CAP / size` elements -/
theorem vec_len_cap {α} (sz : Nat) (d : Dec α) (b : Bytes) (xs : List α) (r : Bytes)
    (h : vec sz d b = some (xs, r)) : xs.length * sz ≤ CAP := by
  unfold vec at h
  obtain ⟨n, r1, _, h2⟩ := bind_some h
  have hl := sizedVec_length sz d n r1 xs r h2
  unfold sizedVec at h2
  split at h2
  · exact (fail_some h2).elim
  · rw [hl]; omega

/-- a parsed block lists fewer than `2^28` hashes (allocation cap of the decoder), so `tree_hash_cnt` cannot assert -/
theorem parsed_block_count (b : Bytes) (blk : Block) (r : Bytes) (h : block b = some (blk, r)) :
    blk.hashes.length + 1 ≤ 2^28 := by
  unfold block at h
  obtain ⟨hd, r1, _, h⟩ := bind_some h
  obtain ⟨t, r2, _, h⟩ := bind_some h
  obtain ⟨hs, r3, h3, h⟩ := bind_some h
  obtain ⟨rfl, rfl⟩ := pure_some h
  have := vec_len_cap sizes.key key r2 hs r3 h3
  have hk : 1 ≤ sizes.key := by decide
  have hc : CAP + 1 ≤ 2^28 := by decide
  have : hs.length ≤ hs.length * sizes.key := Nat.le_mul_of_pos_right _ hk
  show hs.length + 1 ≤ 2^28
  omega

/-- the serialised header of a parsed block is literally the leading bytes of the block -/
theorem parsed_block_header_prefix (b : Bytes) (blk : Block) (r : Bytes) (h : block b = some (blk, r)) :
    ∃ rest, b = encHeader blk.hdr ++ rest := by
  have := sound_block b blk r h
  exact ⟨encTx blk.miner ++ encVec id blk.hashes ++ r, by rw [this]; simp [encBlock, List.append_assoc]⟩

/-- a shape-revealing stand-in for the hash function in examples: the argument in brackets (`40 … 41`), so that the value of a tree
hash spells out which leaves were kept, which were paired and how the nodes were combined -/
def bracketH : Bytes → Bytes := fun b => 40 :: b ++ [41]

/-! ### (c) header layout -/

/-- the model's header encoder on the header built from a description is the by-the-book layout
`varint major ‖ varint minor ‖ varint timestamp ‖ prev_id ‖ nonce as 4 bytes little endian` -/
theorem encHeader_eq_specHeader (d : Spec.HeaderD) : encHeader (buildHeader d) = Spec.specHeader d := by
  have h4 : encUintLE 4 d.nonce = Spec.u32le d.nonce := by
    simp only [encUintLE, leBytes, Spec.u32le, List.range, List.range.loop, List.map_cons, List.map_nil]
    simp
  simp only [buildHeader, encHeader, Spec.specHeader, Spec.varint, encVarint_eq_leb128, h4]

end TreeHash
end Monero
