import MoneroModel.Proofs.AddressKAT
/-! A third known-answer vector (added after the review): the SUB-ADDRESS vector of the library's own test-suite
(src/util/address.rs `deserialize_sub_address`, wallet generated, keys given there as bytes) — tag 42, the third address type.
Same method as Proofs/AddressKAT.lean; a file of its own so that the two build in parallel. -/
open Monero Monero.Address
namespace Monero.AddressKAT
def subAddr : Address := ⟨.Mainnet, .SubAddress, [],
  [212, 104, 103, 28, 131, 98, 226, 228, 37, 244, 133, 145, 213, 157, 184, 232, 6, 146, 127, 69, 187, 95, 33, 143, 9, 102, 181, 189, 230, 223, 231, 7],
  [154, 155, 57, 25, 23, 70, 165, 134, 222, 126, 85, 60, 127, 96, 21, 243, 108, 152, 150, 87, 66, 59, 161, 121, 206, 130, 170, 233, 69, 102, 128, 103]⟩
def subBlob : Bytes := [42, 212, 104, 103, 28, 131, 98, 226, 228, 37, 244, 133, 145, 213, 157, 184, 232, 6, 146, 127, 69, 187, 95, 33, 143, 9, 102, 181, 189, 230, 223, 231, 7, 154, 155, 57, 25, 23, 70, 165, 134, 222, 126, 85, 60, 127, 96, 21, 243, 108, 152, 150, 87, 66, 59, 161, 121, 206, 130, 170, 233, 69, 102, 128, 103, 48, 225, 17, 191]
def subText : List UInt8 := str "8AW7SotwFrqfAKnibspuuhfowW4g3asvpQvdrTmPcpNr2GmXPtBBSxUPZQATAt8Vw2hiX9GDyxB4tMNgHjwt8qYsCeFDVvn"
set_option maxRecDepth 100000 in
theorem sub_blob : Spec.Address.blob Keccak.keccak256 subAddr.net subAddr.kind subAddr.spend subAddr.view subAddr.pid = subBlob := by decide +kernel
set_option maxRecDepth 100000 in
theorem sub_b58 : Base58.encode subBlob = subText := by decide +kernel
set_option maxRecDepth 100000 in
theorem sub_keys : Keys.publicAccept subAddr.spend = true ∧ Keys.publicAccept subAddr.view = true := by decide +kernel
theorem sub_wf : WF Keys.publicAccept subAddr := ⟨by decide, by decide, sub_keys.1, sub_keys.2, by decide⟩
end Monero.AddressKAT
