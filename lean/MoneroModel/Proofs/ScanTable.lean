import MoneroModel.Model.Scan
/-! Facts about the `SubKeyChecker` table of the scan model: the `HashMap` filled by the nested loops is the reversed list
of its `insert`s, its keys are exactly the spend keys of the in-range indices, and a lookup returns the index inserted LAST
among those with that key — the lexicographically greatest one. Core Lean only. -/
namespace Monero.Scan
variable {P : Type}

/-- the index lies in the scanned ranges `majLo..majHi × minLo..minHi` -/
def InRange (majLo majHi minLo minHi : Nat) (idx : Nat × Nat) : Prop :=
  majLo ≤ idx.1 ∧ idx.1 < majHi ∧ minLo ≤ idx.2 ∧ idx.2 < minHi

/-- order in which `SubKeyChecker::new` visits the indices -/
def LexLt (a b : Nat × Nat) : Prop := a.1 < b.1 ∨ (a.1 = b.1 ∧ a.2 < b.2)

theorem foldl_tblInsert (l acc : List (Bytes × (Nat × Nat))) : l.foldl tblInsert acc = l.reverse ++ acc := by
  induction l generalizing acc with
  | nil => rfl
  | cons e t ih => simp [List.foldl_cons, ih, tblInsert]

theorem new_table (ops : CryptoOps P) (v : Nat) (S : P) (a b c d : Nat) :
    (Checker.new ops v S a b c d).table = (inserts ops v S a b c d).reverse := by
  unfold Checker.new; simp [foldl_tblInsert]

theorem new_v (ops : CryptoOps P) (v : Nat) (S : P) (a b c d : Nat) : (Checker.new ops v S a b c d).v = v := rfl

theorem mem_inserts (ops : CryptoOps P) (v : Nat) (S : P) (a b c d : Nat) (e : Bytes × (Nat × Nat)) :
    e ∈ inserts ops v S a b c d ↔ InRange a b c d e.2 ∧ e.1 = ops.enc (subSpendPub ops v S e.2.1 e.2.2) := by
  unfold inserts InRange
  simp only [List.mem_flatMap, List.mem_map, List.mem_range'_1]
  constructor
  · rintro ⟨maj, hmaj, min, hmin, rfl⟩
    have h1 := hmaj.2; have h2 := hmin.2
    exact ⟨⟨hmaj.1, by show maj < b; omega, hmin.1, by show min < d; omega⟩, rfl⟩
  · rintro ⟨⟨h1, h2, h3, h4⟩, he⟩
    refine ⟨e.2.1, ⟨h1, by omega⟩, e.2.2, ⟨h3, by omega⟩, ?_⟩
    obtain ⟨k, i, j⟩ := e
    simp only at he ⊢
    rw [he]

theorem inserts_sorted (ops : CryptoOps P) (v : Nat) (S : P) (a b c d : Nat) :
    (inserts ops v S a b c d).Pairwise fun x y => LexLt x.2 y.2 := by
  unfold inserts
  rw [List.pairwise_flatMap]
  constructor
  · intro maj _
    rw [List.pairwise_map]
    exact (List.pairwise_lt_range' (s := c) (n := d - c)).imp fun h => Or.inr ⟨rfl, h⟩
  · refine (List.pairwise_lt_range' (s := a) (n := b - a)).imp ?_
    intro m1 m2 hlt x hx y hy
    simp only [List.mem_map] at hx hy
    obtain ⟨_, _, rfl⟩ := hx
    obtain ⟨_, _, rfl⟩ := hy
    exact Or.inl hlt

/-- a successful lookup: the index is in range, its spend key has the looked-up encoding, and every other in-range index
with the same key encoding precedes it in insertion order (last insert wins) -/
theorem tblGet_new_some (ops : CryptoOps P) (v : Nat) (S : P) (a b c d : Nat) (k : Bytes) (idx : Nat × Nat)
    (h : tblGet (Checker.new ops v S a b c d).table k = some idx) :
    InRange a b c d idx ∧ k = ops.enc (subSpendPub ops v S idx.1 idx.2) ∧
    ∀ idx', InRange a b c d idx' → ops.enc (subSpendPub ops v S idx'.1 idx'.2) = k → idx' = idx ∨ LexLt idx' idx := by
  rw [new_table] at h
  unfold tblGet at h
  obtain ⟨l1, l2, hl, hne⟩ := List.lookup_eq_some_iff.mp h
  have hmem : (k, idx) ∈ inserts ops v S a b c d := by
    rw [← List.mem_reverse, hl]; simp
  have hm := (mem_inserts ops v S a b c d (k, idx)).mp hmem
  refine ⟨hm.1, hm.2, ?_⟩
  intro idx' hr hk
  have hmem' : (k, idx') ∈ (inserts ops v S a b c d).reverse := by
    rw [List.mem_reverse]; exact (mem_inserts ops v S a b c d (k, idx')).mpr ⟨hr, hk.symm⟩
  have hs := inserts_sorted ops v S a b c d
  rw [← List.pairwise_reverse, hl, List.pairwise_append] at hs
  rw [hl, List.mem_append, List.mem_cons] at hmem'
  rcases hmem' with h1 | h2 | h3
  · have := hne _ h1; simp at this
  · left; exact (Prod.mk.inj h2).2
  · right
    have := (List.pairwise_cons.mp hs.2.1).1 _ h3
    exact this

/-- a failed lookup: no in-range index has a spend key with that encoding -/
theorem tblGet_new_none (ops : CryptoOps P) (v : Nat) (S : P) (a b c d : Nat) (k : Bytes)
    (h : tblGet (Checker.new ops v S a b c d).table k = none) :
    ∀ idx, InRange a b c d idx → ops.enc (subSpendPub ops v S idx.1 idx.2) ≠ k := by
  rw [new_table] at h
  unfold tblGet at h
  rw [List.lookup_eq_none_iff] at h
  intro idx hr hk
  have hmem : (k, idx) ∈ (inserts ops v S a b c d).reverse := by
    rw [List.mem_reverse]; exact (mem_inserts ops v S a b c d (k, idx)).mpr ⟨hr, hk.symm⟩
  have := h _ hmem
  simp at this
end Monero.Scan
