import MoneroModel.Proofs.BlockSound
import MoneroModel.Proofs.VarIntComplete
import MoneroModel.Proofs.Json4
/-! Every value the consensus DECODERS of `Model/Tx.lean` / `Model/Block.lean` return is a value of the Rust type in the sense of
`Monero.Json.wf…`: decoded integers are below `2^64` (`varint_lt`), decoded keys have 32 bytes, … . Together with
`C19_roundtrip_*` this makes "every value produced by the generators of C02" (values that come out of `deserialize`) a formal
instance of the JSON round-trip theorems. Core Lean only. -/
open Monero
namespace Monero.Json

/-- every value the decoder returns satisfies `P` -/
def Yields {α} (P : α → Prop) (d : Dec α) : Prop := ∀ b x r, d b = some (x, r) → P x

theorem none_all {α} (P : α → Prop) : ∀ y, (none : Option α) = some y → P y := fun _ h => by cases h
theorem some_all {α} (P : α → Prop) (x : α) (hx : P x) : ∀ y, some x = some y → P y := fun _ h => by cases h; exact hx

theorem yields_varint : Yields (fun n => n < U64) varint := fun b n r h => varint_lt b n r h
theorem yields_takeN (n : Nat) : Yields (fun x : Bytes => x.length = n) (takeN n) := fun b x r h => takeN_length n b x r h
theorem yields_key : Yields (fun k : Bytes => k.length = 32) key := yields_takeN 32

theorem yields_rep {α} (P : α → Prop) (d : Dec α) (hd : Yields P d) : ∀ n, Yields (fun xs => ∀ x ∈ xs, P x) (rep d n) := by
  intro n; induction n with
  | zero => intro b xs r h; obtain ⟨rfl, _⟩ := pure_some h; exact nil_all _
  | succ n ih =>
    intro b xs r h
    simp only [rep] at h
    obtain ⟨y, r1, h1, h2⟩ := bind_some h
    obtain ⟨ys, r2, h3, h4⟩ := bind_some h2
    obtain ⟨rfl, _⟩ := pure_some h4
    intro x hx
    rcases List.mem_cons.mp hx with rfl | hx
    · exact hd _ _ _ h1
    · exact ih _ _ _ h3 x hx

theorem yields_sized {α} (P : α → Prop) (sz : Nat) (d : Dec α) (hd : Yields P d) (n : Nat) :
    Yields (fun xs => ∀ x ∈ xs, P x) (sizedVec sz d n) := by
  intro b xs r h; unfold sizedVec at h
  split at h
  · exact (fail_some h).elim
  · exact yields_rep P d hd n _ _ _ h

theorem yields_vec {α} (P : α → Prop) (sz : Nat) (d : Dec α) (hd : Yields P d) :
    Yields (fun xs => ∀ x ∈ xs, P x) (vec sz d) := by
  intro b xs r h; unfold vec at h
  obtain ⟨n, r1, _, h2⟩ := bind_some h
  exact yields_sized P sz d hd n _ _ _ h2

theorem yields_txin : Yields wfTxIn txin := by
  intro b x r h
  unfold txin at h
  obtain ⟨t, r1, _, h2⟩ := bind_some h
  split at h2
  · obtain ⟨hh, r2, h3, h4⟩ := bind_some h2
    obtain ⟨rfl, _⟩ := pure_some h4
    exact varint_lt _ _ _ h3
  · split at h2
    · obtain ⟨a, r2, h3, h4⟩ := bind_some h2
      obtain ⟨o, r3, h5, h6⟩ := bind_some h4
      obtain ⟨k, r4, h7, h8⟩ := bind_some h6
      obtain ⟨rfl, _⟩ := pure_some h8
      exact ⟨varint_lt _ _ _ h3, yields_vec _ _ _ yields_varint _ _ _ h5, yields_key _ _ _ h7⟩
    · exact (fail_some h2).elim

theorem yields_target : Yields wfTarget target := by
  intro b x r h
  unfold target at h
  obtain ⟨t, r1, _, h2⟩ := bind_some h
  split at h2
  · obtain ⟨k, r2, h3, h4⟩ := bind_some h2
    obtain ⟨rfl, _⟩ := pure_some h4
    exact yields_key _ _ _ h3
  · split at h2
    · obtain ⟨k, r2, h3, h4⟩ := bind_some h2
      obtain ⟨v, r3, _, h6⟩ := bind_some h4
      obtain ⟨rfl, _⟩ := pure_some h6
      exact yields_key _ _ _ h3
    · exact (fail_some h2).elim

theorem yields_txout : Yields wfTxOut txout := by
  intro b x r h
  unfold txout at h
  obtain ⟨a, r1, h1, h2⟩ := bind_some h
  obtain ⟨t, r2, h3, h4⟩ := bind_some h2
  obtain ⟨rfl, _⟩ := pure_some h4
  exact ⟨varint_lt _ _ _ h1, yields_target _ _ _ h3⟩

theorem yields_prefix : Yields wfPrefix prefix' := by
  intro b x r h
  unfold prefix' at h
  obtain ⟨v, r1, h1, h2⟩ := bind_some h
  obtain ⟨u, r2, h3, h4⟩ := bind_some h2
  obtain ⟨i, r3, h5, h6⟩ := bind_some h4
  obtain ⟨o, r4, h7, h8⟩ := bind_some h6
  obtain ⟨e, r5, _, h10⟩ := bind_some h8
  obtain ⟨rfl, _⟩ := pure_some h10
  exact ⟨varint_lt _ _ _ h1, varint_lt _ _ _ h3, yields_vec _ _ _ yields_txin _ _ _ h5, yields_vec _ _ _ yields_txout _ _ _ h7⟩

theorem yields_ecdh (ty : Nat) : Yields wfEcdh (ecdh ty) := by
  intro b x r h
  unfold ecdh at h
  split at h
  · obtain ⟨m, r1, h1, h2⟩ := bind_some h
    obtain ⟨a, r2, h3, h4⟩ := bind_some h2
    obtain ⟨rfl, _⟩ := pure_some h4
    exact ⟨yields_key _ _ _ h1, yields_key _ _ _ h3⟩
  · obtain ⟨a, r1, h1, h2⟩ := bind_some h
    obtain ⟨rfl, _⟩ := pure_some h2
    exact yields_takeN 8 _ _ _ h1

theorem yields_base (i o : Nat) : Yields wfBase (base i o) := by
  intro b x r h
  unfold base at h
  obtain ⟨t, r1, _, h2⟩ := bind_some h
  simp only at h2
  split at h2
  · exact (fail_some h2).elim
  · rename_i hle
    split at h2
    · obtain ⟨rfl, _⟩ := pure_some h2
      exact ⟨by decide, by decide, nil_all _, nil_all _, nil_all _⟩
    · obtain ⟨fee, r2, h3, h4⟩ := bind_some h2
      obtain ⟨ps, r3, h5, h6⟩ := bind_some h4
      obtain ⟨e, r4, h7, h8⟩ := bind_some h6
      obtain ⟨pk, r5, h9, h10⟩ := bind_some h8
      obtain ⟨rfl, _⟩ := pure_some h10
      refine ⟨by simp only; omega, varint_lt _ _ _ h3, ?_, yields_rep _ _ (yields_ecdh _) _ _ _ _ h7,
        yields_sized _ _ _ yields_key _ _ _ _ h9⟩
      split at h5
      · exact yields_sized _ _ _ yields_key _ _ _ _ h5
      · obtain ⟨rfl, _⟩ := pure_some h5; exact nil_all _

theorem yields_bp : Yields wfBP bp := by
  intro b x r h
  unfold bp at h
  obtain ⟨f, r1, h1, h2⟩ := bind_some h
  obtain ⟨l, r2, h3, h4⟩ := bind_some h2
  obtain ⟨rr, r3, h5, h6⟩ := bind_some h4
  obtain ⟨t, r4, h7, h8⟩ := bind_some h6
  obtain ⟨rfl, _⟩ := pure_some h8
  exact ⟨yields_takeN _ _ _ _ h1, yields_vec _ _ _ yields_key _ _ _ h3, yields_vec _ _ _ yields_key _ _ _ h5,
    yields_takeN _ _ _ _ h7⟩

theorem yields_bpp : Yields wfBPP bpp := by
  intro b x r h
  unfold bpp at h
  obtain ⟨f, r1, h1, h2⟩ := bind_some h
  obtain ⟨l, r2, h3, h4⟩ := bind_some h2
  obtain ⟨rr, r3, h5, h6⟩ := bind_some h4
  obtain ⟨rfl, _⟩ := pure_some h6
  exact ⟨yields_takeN _ _ _ _ h1, yields_vec _ _ _ yields_key _ _ _ h3, yields_vec _ _ _ yields_key _ _ _ h5⟩

theorem yields_proofs (ty o : Nat) :
    Yields (fun x : List Bytes × List BP × List BPP =>
      (∀ r ∈ x.1, r.length = 6176) ∧ (∀ y ∈ x.2.1, wfBP y) ∧ (∀ y ∈ x.2.2, wfBPP y)) (proofsDec ty o) := by
  intro b x r h
  unfold proofsDec at h
  split at h
  · obtain ⟨y, r1, h1, h2⟩ := bind_some h
    obtain ⟨rfl, _⟩ := pure_some h2
    exact ⟨nil_all _, yields_vec _ _ _ yields_bp _ _ _ h1, nil_all _⟩
  · split at h
    · obtain ⟨n, r1, _, h2⟩ := bind_some h
      obtain ⟨y, r2, h3, h4⟩ := bind_some h2
      obtain ⟨rfl, _⟩ := pure_some h4
      exact ⟨nil_all _, yields_sized _ _ _ yields_bp _ _ _ _ h3, nil_all _⟩
    · split at h
      · obtain ⟨n, r1, _, h2⟩ := bind_some h
        obtain ⟨y, r2, h3, h4⟩ := bind_some h2
        obtain ⟨rfl, _⟩ := pure_some h4
        exact ⟨nil_all _, nil_all _, yields_sized _ _ _ yields_bpp _ _ _ _ h3⟩
      · obtain ⟨y, r1, h1, h2⟩ := bind_some h
        obtain ⟨rfl, _⟩ := pure_some h2
        exact ⟨yields_sized _ _ _ (yields_takeN 6176) _ _ _ _ h1, nil_all _, nil_all _⟩

theorem yields_clsag (m : Nat) : Yields wfClsag (clsagDec m) := by
  intro b x r h
  unfold clsagDec at h
  obtain ⟨s, r1, h1, h2⟩ := bind_some h
  obtain ⟨c1, r2, h3, h4⟩ := bind_some h2
  obtain ⟨d, r3, h5, h6⟩ := bind_some h4
  obtain ⟨rfl, _⟩ := pure_some h6
  exact ⟨yields_rep _ _ yields_key _ _ _ _ h1, yields_key _ _ _ h3, yields_key _ _ _ h5⟩

theorem yields_mg (cols m : Nat) : Yields wfMG (mgDec cols m) := by
  intro b x r h
  unfold mgDec at h
  obtain ⟨ss, r1, h1, h2⟩ := bind_some h
  obtain ⟨cc, r2, h3, h4⟩ := bind_some h2
  obtain ⟨rfl, _⟩ := pure_some h4
  exact ⟨yields_rep _ _ (yields_sized _ _ _ yields_key _) _ _ _ _ h1, yields_key _ _ _ h3⟩

theorem yields_sigs (ty i m : Nat) :
    Yields (fun x : List MG × List Clsag => (∀ g ∈ x.1, wfMG g) ∧ (∀ c ∈ x.2, wfClsag c)) (sigsDec ty i m) := by
  intro b x r h
  unfold sigsDec at h
  split at h
  · obtain ⟨y, r1, h1, h2⟩ := bind_some h
    obtain ⟨rfl, _⟩ := pure_some h2
    exact ⟨nil_all _, yields_rep _ _ (yields_clsag m) _ _ _ _ h1⟩
  · simp only at h
    obtain ⟨y, r1, h1, h2⟩ := bind_some h
    obtain ⟨rfl, _⟩ := pure_some h2
    exact ⟨yields_rep _ _ (yields_mg _ m) _ _ _ _ h1, nil_all _⟩

theorem yields_pseudo (ty i : Nat) : Yields (fun po : List Bytes => ∀ k ∈ po, k.length = 32) (pseudoDec ty i) := by
  intro b x r h
  unfold pseudoDec at h
  split at h
  · exact yields_sized _ _ _ yields_key _ _ _ _ h
  · obtain ⟨rfl, _⟩ := pure_some h; exact nil_all _

theorem yields_prunable (ty i o m : Nat) : Yields (fun x : Option Prunable => ∀ p, x = some p → wfPrunable p) (prunable ty i o m) := by
  intro b x r h
  unfold prunable at h
  split at h
  · obtain ⟨rfl, _⟩ := pure_some h
    intro p hp; cases hp
  · obtain ⟨⟨rs, bps, bpps⟩, r1, h1, h2⟩ := bind_some h
    obtain ⟨⟨ms, cs⟩, r2, h3, h4⟩ := bind_some h2
    obtain ⟨po, r3, h5, h6⟩ := bind_some h4
    obtain ⟨rfl, _⟩ := pure_some h6
    intro p hp; cases hp
    obtain ⟨a1, a2, a3⟩ := yields_proofs ty o _ _ _ h1
    obtain ⟨a4, a5⟩ := yields_sigs ty i m _ _ _ h3
    exact ⟨a1, a2, a3, a4, a5, yields_pseudo ty i _ _ _ h5⟩

theorem yields_sigs_v1 : ∀ (rings : List Nat), Yields (fun ss : List (List Bytes) => ∀ r ∈ ss, ∀ s ∈ r, s.length = 64) (tx.sigs rings) := by
  intro rings; induction rings with
  | nil => intro b s r h; simp only [tx.sigs] at h; obtain ⟨rfl, _⟩ := pure_some h; exact nil_all _
  | cons n t ih =>
    intro b s r h
    simp only [tx.sigs] at h
    obtain ⟨x, r1, h1, h2⟩ := bind_some h
    obtain ⟨xs, r2, h3, h4⟩ := bind_some h2
    obtain ⟨rfl, _⟩ := pure_some h4
    intro row hrow
    rcases List.mem_cons.mp hrow with rfl | hrow
    · exact yields_rep _ _ (yields_takeN 64) _ _ _ _ h1
    · exact ih _ _ _ h3 row hrow

/-- whatever `Transaction::consensus_decode` returns is a value of the Rust type -/
theorem yields_tx : Yields wfTx tx := by
  intro b t r h
  unfold tx at h
  obtain ⟨p, r1, h1, h2⟩ := bind_some h
  have hp := yields_prefix _ _ _ h1
  simp only at h2
  split at h2
  · obtain ⟨s, r2, h3, h4⟩ := bind_some h2
    obtain ⟨rfl, _⟩ := pure_some h4
    exact ⟨hp, yields_sigs_v1 _ _ _ _ h3, none_all _, none_all _⟩
  · split at h2
    · obtain ⟨rfl, _⟩ := pure_some h2
      exact ⟨hp, nil_all _, none_all _, none_all _⟩
    · obtain ⟨bs, r2, h3, h4⟩ := bind_some h2
      have hb := yields_base _ _ _ _ _ h3
      split at h4
      · have fin : ∀ m pr r', prunable bs.ty p.ins.length p.outs.length m r2 = some (pr, r') →
            pure' (Tx.mk p [] (some bs) pr) r' = some (t, r) → wfTx t := by
          intro m pr r' hq hx
          obtain ⟨rfl, _⟩ := pure_some hx
          exact ⟨hp, nil_all _, some_all _ _ hb, yields_prunable _ _ _ _ _ _ _ hq⟩
        cases hh : p.ins.head? with
        | none =>
          simp only [hh] at h4
          obtain ⟨pr, r3, h5, h6⟩ := bind_some h4
          exact fin _ _ _ h5 h6
        | some i0 =>
          cases i0 with
          | gen hgt =>
            simp only [hh] at h4
            obtain ⟨pr, r3, h5, h6⟩ := bind_some h4
            exact fin _ _ _ h5 h6
          | toKey a o k =>
            simp only [hh] at h4
            split at h4
            · exact (fail_some h4).elim
            · obtain ⟨pr, r3, h5, h6⟩ := bind_some h4
              exact fin _ _ _ h5 h6
      · obtain ⟨rfl, _⟩ := pure_some h4
        exact ⟨hp, nil_all _, some_all _ _ hb, none_all _⟩

theorem yields_header : Yields wfHeader header := by
  intro b x r h
  unfold header at h
  obtain ⟨ma, r1, h1, h⟩ := bind_some h
  obtain ⟨mi, r2, h2, h⟩ := bind_some h
  obtain ⟨ts, r3, h3, h⟩ := bind_some h
  obtain ⟨pv, r4, h4, h⟩ := bind_some h
  obtain ⟨n, r5, h5, h⟩ := bind_some h
  obtain ⟨rfl, _⟩ := pure_some h
  exact ⟨varint_lt _ _ _ h1, varint_lt _ _ _ h2, varint_lt _ _ _ h3, yields_key _ _ _ h4, (sound_uintLE 4 _ _ _ h5).2⟩

theorem yields_block : Yields wfBlock block := by
  intro b x r h
  unfold block at h
  obtain ⟨hd, r1, h1, h⟩ := bind_some h
  obtain ⟨t, r2, h2, h⟩ := bind_some h
  obtain ⟨hs, r3, h3, h⟩ := bind_some h
  obtain ⟨rfl, _⟩ := pure_some h
  exact ⟨yields_header _ _ _ h1, yields_tx _ _ _ h2, yields_vec _ _ _ yields_key _ _ _ h3⟩

end Monero.Json
