import MoneroModel.Proofs.GroupRefine
import MoneroModel.Model.ScanRecover
/-! Scan-level refinement (helpers of Props/C09): the WHOLE scan model of Model/Scan.lean (`checkOutputsPrefix`, i.e. extra
parsing with key validation, the `SubKeyChecker` table, per-output matching through main and additional key, view tags, the
opening of the RingCT data) evaluated on an executable instance `ops` over `Ed.Pt` that refines `edOps` (`RefinesEd`,
Proofs/EdwardsLawful.lean) returns LITERALLY the result it returns on the lawful instance `edOps` — an `Owned` record holds only
bytes and numbers. So which outputs the compiled driver reports, with which key / position / index, is what the `_ed25519`
theorems speak about. Hypotheses: the view secret is below 2^260 (every 32-byte scalar), the spend key is a valid
representative, the permissive decoder `decP` refines `decP'`, and the compact (`Bulletproof`-style) ecdh amounts of the RingCT
base are at most 8 bytes long (they are exactly 8 bytes in every parsed transaction: the parser reads `Hash8`). -/
namespace Monero.Edw
open Monero Monero.Scan Monero.Extra

variable {ops : CryptoOps Ed.Pt}

/-- a decoder into representatives refines a decoder into the group -/
def DecRefines (d : Bytes → Option Ed.Pt) (d' : Bytes → Option EdPoint) : Prop :=
  ∀ b, (∀ Q, d b = some Q → ∃ h : Valid Q, d' b = some (toPoint Q h)) ∧ (d b = none → d' b = none)

theorem dec_refines (R : RefinesEd ops) : DecRefines ops.dec edOps.dec := fun b => ⟨R.dec_some b, R.dec_none b⟩

/-- the two checkers hold the same table (bytes ↦ index) and the same view secret -/
structure CkRel (ck : Checker Ed.Pt) (ck' : Checker EdPoint) : Prop where
  table : ck.table = ck'.table
  v : ck.v = ck'.v
  v_lt : ck.v < 2 ^ 260

/-- compact ecdh amounts are at most 8 bytes -/
def EcdhOk : Ecdh → Prop
  | .std _ _ => True
  | .bp a => a.length ≤ 8
def BaseOk : Option Base → Prop
  | none => True
  | some b => ∀ e ∈ b.ecdh, EcdhOk e

theorem refines_inserts (R : RefinesEd ops) (v : ℕ) (S : Ed.Pt) (hS : Valid S) (a b c d : ℕ) :
    inserts ops v S a b c d = inserts edOps v (toPoint S hS) a b c d := by
  unfold inserts
  have h : ∀ maj min, ops.enc (subSpendPub ops v S maj min) = edOps.enc (subSpendPub edOps v (toPoint S hS) maj min) := by
    intro maj min
    obtain ⟨h, e⟩ := refines_subSpendPub R v S hS maj min
    rw [R.enc _ h, e]
  simp only [h]

theorem refines_checkerNew (R : RefinesEd ops) (v : ℕ) (hv : v < 2 ^ 260) (S : Ed.Pt) (hS : Valid S) (a b c d : ℕ) :
    CkRel (Checker.new ops v S a b c d) (Checker.new edOps v (toPoint S hS) a b c d) :=
  ⟨by unfold Checker.new; rw [refines_inserts R v S hS], rfl, hv⟩

theorem refines_viewTagOf (R : RefinesEd ops) (D : Ed.Pt) (hD : Valid D) (n : ℕ) :
    viewTagOf ops D n = viewTagOf edOps (toPoint D hD) n := by
  unfold viewTagOf; rw [R.keccak, R.enc D hD]

theorem refines_checkViewTag (R : RefinesEd ops) (t : Target) (D : Ed.Pt) (hD : Valid D) (n : ℕ) :
    checkViewTag ops t D n = checkViewTag edOps t (toPoint D hD) n := by
  unfold checkViewTag
  cases t with
  | key _ => rfl
  | tagged _ tag => simp only [refines_viewTagOf R D hD]

theorem refines_checkWithKeyGenerator (R : RefinesEd ops) {ck : Checker Ed.Pt} {ck' : Checker EdPoint} (hck : CkRel ck ck')
    (D : Ed.Pt) (hD : Valid D) (n : ℕ) (key : Ed.Pt) (hkey : Valid key) :
    ck.checkWithKeyGenerator ops D n key = ck'.checkWithKeyGenerator edOps (toPoint D hD) n (toPoint key hkey) := by
  unfold Checker.checkWithKeyGenerator
  have hk : rvnScalar ops D n < 2 ^ 260 := by rw [refines_rvnScalar R D hD]; exact hsOf_edOps_lt _
  obtain ⟨h1, e1⟩ := refines_pubOf R _ hk
  obtain ⟨h2, e2⟩ := R.sub key _ hkey h1
  rw [R.enc _ h2, e2, e1, refines_rvnScalar R D hD, hck.table]

theorem refines_asOneTimeKey (R : RefinesEd ops) (t : Target) :
    (∀ Q, asOneTimeKey ops t = some Q → ∃ h : Valid Q, asOneTimeKey edOps t = some (toPoint Q h)) ∧
    (asOneTimeKey ops t = none → asOneTimeKey edOps t = none) := by
  cases t <;> exact ⟨R.dec_some _, R.dec_none _⟩

theorem refines_checkKey (R : RefinesEd ops) {ck : Checker Ed.Pt} {ck' : Checker EdPoint} (hck : CkRel ck ck')
    (out : TxOut) (i : ℕ) (K : Bytes) : checkKey ops ck out i K = checkKey edOps ck' out i K := by
  unfold checkKey
  cases hk : asOneTimeKey ops out.target with
  | none => rw [(refines_asOneTimeKey R out.target).2 hk]
  | some key =>
    obtain ⟨hkey, ek⟩ := (refines_asOneTimeKey R out.target).1 key hk
    rw [ek]
    cases hR : ops.dec K with
    | none => rw [R.dec_none K hR]
    | some Rp =>
      obtain ⟨hRp, eR⟩ := R.dec_some K Rp hR
      rw [eR]
      obtain ⟨hD, eD⟩ := refines_derive R ck.v hck.v_lt Rp hRp
      dsimp only
      rw [refines_checkViewTag R out.target _ hD, refines_checkWithKeyGenerator R hck _ hD i key hkey, eD, hck.v]

theorem refines_matchOutput (R : RefinesEd ops) {ck : Checker Ed.Pt} {ck' : Checker EdPoint} (hck : CkRel ck ck')
    (out : TxOut) (i : ℕ) (K : Bytes) (add? : Option Bytes) :
    matchOutput ops ck out i K add? = matchOutput edOps ck' out i K add? := by
  unfold matchOutput
  rw [refines_checkKey R hck]
  cases add? with
  | none => rfl
  | some a => simp only [refines_checkKey R hck out i a]

/-! ### the opening -/
theorem ecdhDecode_eq (R : RefinesEd ops) (e : Ecdh) (k : ℕ) : ecdhDecode ops e k = ecdhDecode edOps e k := by
  cases e with
  | std m a => simp only [ecdhDecode, refines_hsOf R, R.l]
  | bp a => simp only [ecdhDecode, xorAmount, maskOf, refines_hsOf R, R.keccak]

theorem leNat_lt_of_length_le (b : Bytes) (h : b.length ≤ 8) : leNat b < 2 ^ 64 := by
  have h1 := Ed.leNat_lt b
  have h2 : 256 ^ b.length ≤ 256 ^ 8 := Nat.pow_le_pow_right (by decide) h
  have h3 : (256 : ℕ) ^ 8 = 2 ^ 64 := by decide
  rw [leNat_eq_Ed]; omega

theorem ecdhDecode_lt (e : Ecdh) (he : EcdhOk e) (k : ℕ) :
    (ecdhDecode edOps e k).1 < 2 ^ 260 ∧ (ecdhDecode edOps e k).2 < 2 ^ 260 := by
  have hl : 0 < edOps.l := by rw [edOps_l]; exact l_pos'
  have hl260 : edOps.l < 2 ^ 260 := by rw [edOps_l]; exact l_lt_260
  cases e with
  | std m a =>
    simp only [ecdhDecode]
    refine ⟨Nat.lt_trans (Nat.mod_lt _ (by decide)) (by decide), ?_⟩
    unfold scalarSub
    exact Nat.lt_trans (Nat.mod_lt _ hl) hl260
  | bp a =>
    simp only [ecdhDecode]
    refine ⟨?_, Nat.lt_trans (Nat.mod_lt _ hl) hl260⟩
    unfold xorAmount
    have h1 : leNat a < 2 ^ 64 := leNat_lt_of_length_le a he
    have h2 : leNat ((edOps.keccak (Gen.amountSalt ++ scalarBytes k)).take 8) < 2 ^ 64 :=
      leNat_lt_of_length_le _ (by rw [List.length_take]; exact Nat.min_le_left _ _)
    exact Nat.lt_trans (Nat.xor_lt_two_pow h1 h2) (by decide)

theorem refines_commit (R : RefinesEd ops) {decP : Bytes → Option Ed.Pt} {decP' : Bytes → Option EdPoint}
    (hd : DecRefines decP decP') (mask amount : ℕ) (hm : mask < 2 ^ 260) (ha : amount < 2 ^ 260) :
    (∀ X, commit ops decP mask amount = some X → ∃ h : Valid X, commit edOps decP' mask amount = some (toPoint X h)) ∧
    (commit ops decP mask amount = none → commit edOps decP' mask amount = none) := by
  unfold commit
  cases hH : decP Gen.pointH with
  | none => rw [(hd _).2 hH]; exact ⟨fun _ h => (by cases h), fun _ => rfl⟩
  | some Hp =>
    obtain ⟨hHp, eH⟩ := (hd _).1 Hp hH
    rw [eH]
    obtain ⟨hb, eb⟩ := R.base
    obtain ⟨h1, e1⟩ := R.smul mask hm _ hb
    obtain ⟨h2, e2⟩ := R.smul amount ha _ hHp
    obtain ⟨h3, e3⟩ := R.add _ _ h1 h2
    refine ⟨fun X hX => ?_, fun h => (by cases h)⟩
    cases hX
    exact ⟨h3, by rw [e3, e1, e2, eb]⟩

theorem refines_openCommitment (R : RefinesEd ops) {decP : Bytes → Option Ed.Pt} {decP' : Bytes → Option EdPoint}
    (hd : DecRefines decP decP') (e : Ecdh) (he : EcdhOk e) (v : ℕ) (hv : v < 2 ^ 260) (Rp : Ed.Pt) (hRp : Valid Rp) (n : ℕ)
    (cand : Ed.Pt) (hc : Valid cand) :
    openCommitment ops decP e v Rp n cand = openCommitment edOps decP' e v (toPoint Rp hRp) n (toPoint cand hc) := by
  unfold openCommitment
  obtain ⟨hD, eD⟩ := refines_derive R v hv Rp hRp
  dsimp only
  rw [refines_rvnScalar R _ hD, eD, ecdhDecode_eq R]
  obtain ⟨ha, hm⟩ := ecdhDecode_lt e he (rvnScalar edOps (derive edOps v (toPoint Rp hRp)) n)
  generalize ecdhDecode edOps e (rvnScalar edOps (derive edOps v (toPoint Rp hRp)) n) = am at ha hm
  obtain ⟨amount, mask⟩ := am
  simp only at ha hm ⊢
  have hcm := refines_commit R hd mask amount hm ha
  cases hX : commit ops decP mask amount with
  | none => rw [hcm.2 hX]
  | some X =>
    obtain ⟨hXv, eX⟩ := hcm.1 X hX
    rw [eX]
    simp only [R.enc X hXv, R.enc cand hc]

theorem refines_openStep (R : RefinesEd ops) {decP : Bytes → Option Ed.Pt} {decP' : Bytes → Option EdPoint}
    (hd : DecRefines decP decP') (v : ℕ) (hv : v < 2 ^ 260) (base : Option Base) (hb : BaseOk base) (i : ℕ) (K : Bytes) :
    openStep ops decP v base i K = openStep edOps decP' v base i K := by
  unfold openStep
  cases base with
  | none => rfl
  | some b =>
    simp only
    split
    · rfl
    · cases he : b.ecdh[i]? with
      | none => rfl
      | some e =>
        have hE : EcdhOk e := hb e (List.mem_of_getElem? he)
        cases hc : b.outPk[i]? with
        | none => rfl
        | some cb =>
          simp only
          cases hcand : decP cb with
          | none => rw [(hd cb).2 hcand]
          | some cand =>
            obtain ⟨hcv, ec⟩ := (hd cb).1 cand hcand
            rw [ec]
            cases hR : ops.dec K with
            | none => rw [R.dec_none K hR]
            | some Rp =>
              obtain ⟨hRp, eR⟩ := R.dec_some K Rp hR
              rw [eR]
              simp only [refines_openCommitment R hd e hE v hv Rp hRp i cand hcv]

/-! ### the pipeline -/
theorem refines_go (R : RefinesEd ops) {decP : Bytes → Option Ed.Pt} {decP' : Bytes → Option EdPoint}
    (hd : DecRefines decP decP') {ck : Checker Ed.Pt} {ck' : Checker EdPoint} (hck : CkRel ck ck') (base : Option Base)
    (hb : BaseOk base) (K : Bytes) :
    ∀ (outs : List TxOut) (i : ℕ) (adds : List Bytes),
      go ops decP ck base K outs i adds = go edOps decP' ck' base K outs i adds := by
  intro outs
  induction outs with
  | nil => intro i adds; rfl
  | cons o os ih =>
    intro i adds
    unfold go
    rw [refines_matchOutput R hck, ih (i + 1) adds.tail]
    cases matchOutput edOps ck' o i K adds.head? with
    | none => rfl
    | some r =>
      obtain ⟨i', idx, K'⟩ := r
      dsimp only
      rw [refines_openStep R hd ck.v hck.v_lt base hb i' K', hck.v]

theorem validKey_eq (R : RefinesEd ops) : validKey ops = validKey edOps := by
  funext b
  unfold validKey
  cases h : ops.dec b with
  | none => rw [R.dec_none b h]; rfl
  | some Q => obtain ⟨_, e⟩ := R.dec_some b Q h; rw [e]; rfl

theorem refines_checkOutputsWith (R : RefinesEd ops) {decP : Bytes → Option Ed.Pt} {decP' : Bytes → Option EdPoint}
    (hd : DecRefines decP decP') {ck : Checker Ed.Pt} {ck' : Checker EdPoint} (hck : CkRel ck ck') (p : Prefix)
    (base : Option Base) (hb : BaseOk base) :
    checkOutputsWith ops decP p ck base = checkOutputsWith edOps decP' p ck' base := by
  unfold checkOutputsWith
  rw [validKey_eq R]
  dsimp only
  cases txPubkey (rawTryParse (validKey edOps) p.extra) with
  | none => rfl
  | some K => exact refines_go R hd hck base hb K _ _ _

/-- **the scan of the executable instance is the scan of the lawful instance** -/
theorem refines_checkOutputsPrefix (R : RefinesEd ops) {decP : Bytes → Option Ed.Pt} {decP' : Bytes → Option EdPoint}
    (hd : DecRefines decP decP') (p : Prefix) (v : ℕ) (hv : v < 2 ^ 260) (S : Ed.Pt) (hS : Valid S) (a b c d : ℕ)
    (base : Option Base) (hb : BaseOk base) :
    checkOutputsPrefix ops decP p v S a b c d base = checkOutputsPrefix edOps decP' p v (toPoint S hS) a b c d base :=
  refines_checkOutputsWith R hd (refines_checkerNew R v hv S hS a b c d) p base hb

/-- `SubKeyChecker::check` on a checker built by `SubKeyChecker::new` -/
theorem refines_checkerCheck (R : RefinesEd ops) (v : ℕ) (hv : v < 2 ^ 260) (S : Ed.Pt) (hS : Valid S) (a b c d : ℕ)
    (n : ℕ) (key Rp : Ed.Pt) (hkey : Valid key) (hRp : Valid Rp) :
    (Checker.new ops v S a b c d).check ops n key Rp
      = (Checker.new edOps v (toPoint S hS) a b c d).check edOps n (toPoint key hkey) (toPoint Rp hRp) := by
  unfold Checker.check
  have hck := refines_checkerNew R v hv S hS a b c d
  obtain ⟨hD, eD⟩ := refines_derive R (Checker.new ops v S a b c d).v hck.v_lt Rp hRp
  rw [refines_checkWithKeyGenerator R hck _ hD n key hkey, eD, hck.v]

/-- `OwnedTxOut::recover_key` on the same record -/
theorem refines_ownedRecoverKey (R : RefinesEd ops) (w : Owned) (v s : ℕ) (hv : v < 2 ^ 260) :
    Owned.recoverKey ops w v s = Owned.recoverKey edOps w v s := by
  unfold Owned.recoverKey
  cases h : ops.dec w.txKey with
  | none => rw [R.dec_none _ h]
  | some Rp =>
    obtain ⟨hRp, e⟩ := R.dec_some _ Rp h
    rw [e]
    simp only [refines_recoverKey R v s hv Rp hRp]
end Monero.Edw
