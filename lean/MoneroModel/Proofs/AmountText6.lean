import MoneroModel.Proofs.AmountText4
import MoneroModel.Proofs.AmountText5
/-! The formatter against `Spec.Decimal.specFormat`, the shape and value of the formatted string, and the round trip
through the specification's parser (core Lean only). -/
namespace Monero.AmtText
open Spec.Decimal (natOfDigits digitVal natDigits fracDigits specFormat specParse splitSign maxAmount)

theorem natDigits_zero : natDigits 0 = [0x30] := by rw [← digits_eq_natDigits, digits_zero]

/-- `fmt_piconero_in` for a denomination of generated precision `-(md)` -/
theorem fmtPiconeroIn_eq (n : Nat) (neg : Bool) (d : Denom) (md : Nat) (hp : precisionOf d = -(md : Int)) :
    fmtPiconeroIn n neg d =
      (if neg then [0x2d] else []) ++ natDigits (n / 10 ^ md) ++ (if md = 0 then [] else 0x2e :: fracDigits md n) := by
  unfold fmtPiconeroIn
  rw [hp]
  by_cases h0 : md = 0
  · subst h0
    simp [digits_eq_natDigits]
  · have hpos : 0 < md := Nat.pos_of_ne_zero h0
    have h1 : ¬ (-(md : Int) > 0) := by omega
    have h2 : (-(md : Int)) < 0 := by omega
    have h3 : (-(md : Int)).natAbs = md := by omega
    simp only [h1, h2, h3, if_true, if_false, h0]
    by_cases hn : n < 10 ^ md
    · rw [padZero_small md n hpos hn]
      simp only [fracDigits_length, if_true, Nat.sub_self, List.drop_zero]
      rw [Nat.div_eq_of_lt hn, natDigits_zero]
      simp
    · have hge : 10 ^ md ≤ n := by omega
      have hlen : ¬ (digits n).length ≤ md := by rw [digits_length_le_iff _ _ hpos]; omega
      have hpad : padZero md (digits n) = digits n := by
        unfold padZero
        have : md - (digits n).length = 0 := by omega
        rw [this]; rfl
      rw [hpad]
      have hne : (digits n).length ≠ md := by omega
      simp only [hne, if_false]
      rw [digits_split md n hge]
      have hl : (digits (n / 10 ^ md) ++ fracDigits md n).length - md = (digits (n / 10 ^ md)).length := by
        simp [fracDigits_length]
      rw [hl, List.take_left, List.drop_left, digits_eq_natDigits]
      simp

theorem amountToStringIn_eq (n : Nat) (d : Denom) (md : Nat) (hp : precisionOf d = -(md : Int)) :
    amountToStringIn n d = specFormat md (n : Int) := by
  unfold amountToStringIn specFormat
  rw [fmtPiconeroIn_eq n false d md hp]
  have : ¬ ((n : Int) < 0) := by omega
  simp [this]

theorem signedToStringIn_eq (a : Int) (d : Denom) (md : Nat) (hp : precisionOf d = -(md : Int)) :
    signedToStringIn a d = specFormat md a := by
  unfold signedToStringIn specFormat
  have hpic : (if a = -(2 ^ 63 : Int) then U64MAX - (a % (2 ^ 64 : Int)).toNat + 1 else a.natAbs) = a.natAbs := by
    by_cases h : a = -(2 ^ 63 : Int)
    · subst h; decide
    · rw [if_neg h]
  rw [hpic, fmtPiconeroIn_eq _ _ d md hp]
  by_cases hneg : a < 0
  · simp [hneg]
  · simp [hneg]

/-- shape and value of the specified output: sign, a non-empty canonical integer part, and — iff `md > 0` — a point and
exactly `md` fraction digits; read as digits, integer and fraction part together are `|a|`, i.e. the string denotes
`a / 10^md` exactly -/
theorem specFormat_shape (md : Nat) (a : Int) :
    ∃ ip fp, specFormat md a = (if a < 0 then [0x2d] else []) ++ ip ++ (if md = 0 then [] else 0x2e :: fp) ∧
      AllDigits ip ∧ ip ≠ [] ∧ AllDigits fp ∧ fp.length = md ∧ natOfDigits (ip ++ fp) = a.natAbs ∧
      ip = natDigits (a.natAbs / 10 ^ md) := by
  refine ⟨natDigits (a.natAbs / 10 ^ md), fracDigits md a.natAbs, rfl, ?_, ?_, AllDigits_fracDigits _ _,
    fracDigits_length _ _, ?_, rfl⟩
  · rw [← digits_eq_natDigits]; exact AllDigits_digits _
  · rw [← digits_eq_natDigits]; exact digits_ne_nil _
  · rw [natOfDigits_append, fracDigits_length, natOfDigits_fracDigits, ← digits_eq_natDigits, natOfDigits_digits]
    exact Nat.div_add_mod' _ _

theorem splitSign_digits_first (l r : Bytes) (hl : AllDigits l) (hne : l ≠ []) : splitSign (l ++ r) = (false, l ++ r) := by
  cases l with
  | nil => exact absurd rfl hne
  | cons c t =>
    have hc := (AllDigits_cons.mp hl).1
    simp only [List.cons_append, splitSign]
    have : c ≠ 45 := by
      intro h; subst h; exact absurd hc (by decide)
    simp [this]

/-- the specification's parser inverts the specification's formatter on magnitudes up to `2^63 − 1` -/
theorem specParse_specFormat (signed : Bool) (md : Nat) (a : Int) (hmag : a.natAbs ≤ maxAmount)
    (hsg : a < 0 → signed = true) (hlen : (specFormat md a).length ≤ 50) :
    specParse signed md (specFormat md a) = some a := by
  obtain ⟨ip, fp, he, h1, h2, h3, h4, h5, _⟩ := specFormat_shape md a
  have hbody : ∀ (ip fp : Bytes), AllDigits ip → AllDigits fp → fp.length = md →
      Lit (ip ++ (if md = 0 then [] else 0x2e :: fp)) ip (if md = 0 then [] else fp) := by
    intro ip fp a1 a2 a3
    by_cases h0 : md = 0
    · simp only [h0, if_true, List.append_nil]
      exact ⟨a1, AllDigits_nil, Or.inl ⟨rfl, rfl⟩⟩
    · simp only [h0, if_false]
      exact ⟨a1, a2, Or.inr rfl⟩
  have hfp0 : md = 0 → fp = [] := by
    intro h0; rw [h0] at h4; exact List.eq_nil_of_length_eq_zero h4
  have hfp' : (if md = 0 then [] else fp) = fp := by
    by_cases h0 : md = 0
    · simp [h0, hfp0 h0]
    · simp [h0]
  rw [specParse_some_iff]
  rw [he] at hlen ⊢
  by_cases hneg : a < 0
  · simp only [hneg, if_true] at hlen ⊢
    have hss : splitSign ([0x2d] ++ ip ++ (if md = 0 then [] else 0x2e :: fp)) = (true, ip ++ (if md = 0 then [] else 0x2e :: fp)) := by
      simp [splitSign]
    rw [hss]
    refine ⟨hlen, by simp [h2], ip, fp, ?_, by omega, ?_, Or.inr ⟨rfl, hsg hneg, ?_⟩⟩
    · have := hbody ip fp h1 h3 h4; rwa [hfp'] at this
    · rw [h4, h5]; simpa using hmag
    · rw [h4, h5]; simp; omega
  · simp only [hneg, if_false, List.nil_append] at hlen ⊢
    rw [splitSign_digits_first ip _ h1 h2]
    refine ⟨hlen, by simp [h2], ip, fp, ?_, by omega, ?_, Or.inl ⟨rfl, ?_⟩⟩
    · have := hbody ip fp h1 h3 h4; rwa [hfp'] at this
    · rw [h4, h5]; simpa using hmag
    · rw [h4, h5]; simp; omega

end Monero.AmtText
