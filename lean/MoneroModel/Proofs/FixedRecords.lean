import MoneroModel.Model.Block
import MoneroModel.Proofs.TxSound1
import MoneroModel.Proofs.TxComplete
open Monero
/-! Structured models of the fixed-width records that `Model/Block.lean` and `Model/Tx.lean` flatten to one `takeN`:
`Key64` (a loop over 64 keys, ringct.rs:106-126), `[T; N]` (`impl_array!`: N element reads, encode.rs:424-458),
`BoroSig { s0: Key64, s1: Key64, ee: Key }`, `RangeSig { asig, Ci: Key64 }`, `Signature { c, r }`, and the 6 + 3 keys of
`Bulletproof` / 6 keys of `BulletproofPlus` (`bpS`, `bppS`: `A S T1 T2 taux mu`, `L`, `R`, `a b t` / `A A1 B r1 s1 d1`, `L`, `R`
read key by key). They are written field by field / element by element, as the Rust is; the
theorems say that reading them that way consumes exactly the bytes of the flat `takeN`, with the same rest, and that the
concatenation of the parts is the flat value — so the flat models used by the driver and by the transaction model are
faithful to the element-wise Rust code. -/
namespace Monero

/-- a read of m + n bytes = a read of m bytes followed by a read of n bytes, concatenated (function form, for rewriting under binders) -/
theorem takeN_add' (m n : Nat) :
    takeN (m + n) = (bind (takeN m) fun x => bind (takeN n) fun y => pure' (x ++ y)) := by
  funext b
  unfold Monero.bind takeN
  by_cases h1 : b.length < m
  · have h3 : b.length < m + n := by omega
    simp only [h1, h3, if_true]
  · simp only [h1, if_false]
    have hd : (b.drop m).length = b.length - m := List.length_drop
    by_cases h2 : (b.drop m).length < n
    · have h3 : b.length < m + n := by omega
      simp only [h2, h3, if_true]
    · have h3 : ¬ b.length < m + n := by omega
      simp only [h2, h3, if_false, pure', Option.some.injEq, Prod.mk.injEq]
      exact ⟨List.take_add, by rw [List.drop_drop]⟩

theorem takeN_add (m n : Nat) (b : Bytes) :
    takeN (m + n) b = (bind (takeN m) fun x => bind (takeN n) fun y => pure' (x ++ y)) b := by
  rw [takeN_add']

/-- n fixed-width elements read one after another = one read of n·w bytes, split -/
theorem rep_takeN_flat (w : Nat) : ∀ (n : Nat) (b : Bytes),
    (rep (takeN w) n b).map (fun p => (p.1.flatten, p.2)) = takeN (w * n) b := by
  intro n; induction n with
  | zero => intro b; simp [rep, pure', takeN]
  | succ n ih =>
    intro b
    rw [Nat.mul_succ, Nat.add_comm (w * n) w, takeN_add']
    simp only [rep]
    unfold Monero.bind
    cases takeN w b with
    | none => rfl
    | some p =>
      obtain ⟨x, r⟩ := p
      simp only
      rw [← ih r]
      cases rep (takeN w) n r with
      | none => rfl
      | some q => rfl

/-- `Key64::consensus_decode`: a loop of 64 `Key` reads -/
def key64S : Dec (List Bytes) := rep key 64
/-- `Signature { c, r }` -/
def signatureS : Dec (Bytes × Bytes) := bind key fun c => bind key fun r => pure' (c, r)
/-- `BoroSig { s0, s1, ee }` and `RangeSig { asig, Ci }` field by field -/
def boroSigS : Dec (List Bytes × List Bytes × Bytes) := bind key64S fun s0 => bind key64S fun s1 => bind key fun ee => pure' (s0, s1, ee)
def rangeSigS : Dec ((List Bytes × List Bytes × Bytes) × List Bytes) := bind boroSigS fun a => bind key64S fun ci => pure' (a, ci)
def encBoroS (x : List Bytes × List Bytes × Bytes) : Bytes := encSized id x.1 ++ encSized id x.2.1 ++ x.2.2
def encRangeSigS (x : (List Bytes × List Bytes × Bytes) × List Bytes) : Bytes := encBoroS x.1 ++ encSized id x.2

theorem key64S_flat (b : Bytes) : (key64S b).map (fun p => (p.1.flatten, p.2)) = key64 b := by
  unfold key64S key key64; exact rep_takeN_flat 32 64 b

theorem sound_key64S : Sound (encSized id) key64S := sound_rep id key sound_key 64

/-- `Signature` read as two keys = 64 flat bytes -/
theorem signatureS_flat (b : Bytes) : (signatureS b).map (fun p => (p.1.1 ++ p.1.2, p.2)) = signature b := by
  unfold signature signatureS key
  rw [show (64 : Nat) = 32 + 32 from rfl, takeN_add']
  unfold Monero.bind
  cases takeN 32 b with
  | none => rfl
  | some p =>
    obtain ⟨x, r⟩ := p
    simp only
    cases takeN 32 r with
    | none => rfl
    | some q => rfl

/-- `RangeSig` read field by field (64 + 64 + 1 + 64 keys) = 6176 flat bytes -/
theorem rangeSigS_flat (b : Bytes) : (rangeSigS b).map (fun p => (encRangeSigS p.1, p.2)) = rangeSig b := by
  unfold rangeSig rangeSigS boroSigS
  rw [show (6176 : Nat) = 2048 + (2048 + (32 + 2048)) from rfl]
  simp only [takeN_add']
  have k := key64S_flat
  unfold key64 at k
  unfold Monero.bind
  rw [← k b]
  cases key64S b with
  | none => rfl
  | some p =>
    obtain ⟨s0, r0⟩ := p
    simp only [Option.map_some]
    rw [← k r0]
    cases key64S r0 with
    | none => rfl
    | some p1 =>
      obtain ⟨s1, r1⟩ := p1
      simp only [Option.map_some]
      unfold key
      cases takeN 32 r1 with
      | none => rfl
      | some p2 =>
        obtain ⟨ee, r2⟩ := p2
        simp only [pure']
        rw [← k r2]
        cases key64S r2 with
        | none => rfl
        | some p3 =>
          obtain ⟨ci, r3⟩ := p3
          simp [encRangeSigS, encBoroS, encSized]

/-- … and the structured `RangeSig` codec is sound on its own: re-encoding the parsed fields gives the consumed bytes -/
theorem sound_rangeSigS : Sound encRangeSigS rangeSigS := by
  intro b x r h
  have hf := rangeSigS_flat b
  rw [h] at hf
  simp only [Option.map_some] at hf
  have := sound_takeN 6176 b (encRangeSigS x) r (by unfold rangeSig at hf; exact hf.symm)
  simpa using this

/-- `BoroSig` alone is sound -/
theorem sound_boroSigS : Sound encBoroS boroSigS := by
  intro b x r h
  unfold boroSigS at h
  obtain ⟨s0, r0, h0, h1⟩ := bind_some h
  obtain ⟨s1, r1, h1', h2⟩ := bind_some h1
  obtain ⟨ee, r2, h2', h3⟩ := bind_some h2
  obtain ⟨rfl, rfl⟩ := pure_some h3
  rw [sound_key64S _ _ _ h0, sound_key64S _ _ _ h1', sound_key _ _ _ h2']
  simp [encBoroS]

/-- `Bulletproof { A, S, T1, T2, taux, mu, L, R, a, b, t }` (`impl_consensus_encoding!`, ringct.rs): six keys, two key vectors,
three keys — read key by key -/
def bpS : Dec (List Bytes × List Bytes × List Bytes × List Bytes) :=
  bind (rep key 6) fun f => bind (vec sizes.key key) fun l => bind (vec sizes.key key) fun r => bind (rep key 3) fun t => pure' (f, l, r, t)
/-- `BulletproofPlus { A, A1, B, r1, s1, d1, L, R }`: six keys, two key vectors -/
def bppS : Dec (List Bytes × List Bytes × List Bytes) :=
  bind (rep key 6) fun f => bind (vec sizes.key key) fun l => bind (vec sizes.key key) fun r => pure' (f, l, r)

/-- reading a Bulletproof key by key gives the value of the flat model `bp` (192-byte head, L, R, 96-byte tail) and the same rest -/
theorem bpS_flat (b : Bytes) :
    (bpS b).map (fun p => ((⟨p.1.1.flatten, p.1.2.1, p.1.2.2.1, p.1.2.2.2.flatten⟩ : BP), p.2)) = bp b := by
  unfold bpS bp key
  unfold Monero.bind
  rw [← rep_takeN_flat 32 6 b]
  cases rep (takeN 32) 6 b with
  | none => rfl
  | some p =>
    obtain ⟨f, r0⟩ := p
    simp only [Option.map_some]
    cases vec sizes.key (takeN 32) r0 with
    | none => rfl
    | some q =>
      obtain ⟨l, r1⟩ := q
      simp only
      cases vec sizes.key (takeN 32) r1 with
      | none => rfl
      | some q2 =>
        obtain ⟨rr, r2⟩ := q2
        simp only
        rw [← rep_takeN_flat 32 3 r2]
        cases rep (takeN 32) 3 r2 with
        | none => rfl
        | some q3 => rfl

theorem bppS_flat (b : Bytes) :
    (bppS b).map (fun p => ((⟨p.1.1.flatten, p.1.2.1, p.1.2.2⟩ : BPP), p.2)) = bpp b := by
  unfold bppS bpp key
  unfold Monero.bind
  rw [← rep_takeN_flat 32 6 b]
  cases rep (takeN 32) 6 b with
  | none => rfl
  | some p =>
    obtain ⟨f, r0⟩ := p
    simp only [Option.map_some]
    cases vec sizes.key (takeN 32) r0 with
    | none => rfl
    | some q =>
      obtain ⟨l, r1⟩ := q
      simp only
      cases vec sizes.key (takeN 32) r1 with
      | none => rfl
      | some q2 => rfl

end Monero
