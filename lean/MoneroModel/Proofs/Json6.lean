import MoneroModel.Proofs.Json1
/-! Round-trip lemmas for `PublicKey`, `SubField`, `ExtraField` of the serde model (C19). Core Lean only. -/
namespace Monero.Json

theorem publicKey_rt (k : Bytes) (h : k.length = 32) : publicKeyFromJson (publicKeyJ k) = some k := by
  simp only [publicKeyFromJson, publicKeyJ, fieldsOf_one, req, readBytesN_bytesJ k 32 h]

theorem subField_rt (f : Extra.SubField) (h : wfSubField f) : subFieldFromJson (subFieldJ f) = some f := by
  cases f with
  | txPub k =>
    simp only [wfSubField] at h
    simp only [subFieldJ, subFieldFromJson, if_true, publicKey_rt k h, Option.map_some]
  | nonce n =>
    simp only [subFieldJ, subFieldFromJson, (by decide : ¬ ("Nonce" = "TxPublicKey")), if_false, if_true,
      readByteVec_bytesJ, Option.map_some]
  | padding n =>
    simp only [wfSubField] at h
    simp only [subFieldJ, subFieldFromJson, (by decide : ¬ ("Padding" = "TxPublicKey")), (by decide : ¬ ("Padding" = "Nonce")),
      if_false, if_true, readUInt_natJ 256 n h, Option.map_some]
  | mergeMining d r =>
    obtain ⟨hd, hr⟩ := h
    simp only [subFieldJ, subFieldFromJson, (by decide : ¬ ("MergeMining" = "TxPublicKey")),
      (by decide : ¬ ("MergeMining" = "Nonce")), (by decide : ¬ ("MergeMining" = "Padding")), if_false, if_true,
      readUInt_natJ U64 d hd, readBytesN_bytesJ r 32 hr]
  | addKeys ks =>
    simp only [wfSubField] at h
    simp only [subFieldJ, subFieldFromJson, (by decide : ¬ ("AdditionalPublickKey" = "TxPublicKey")),
      (by decide : ¬ ("AdditionalPublickKey" = "Nonce")), (by decide : ¬ ("AdditionalPublickKey" = "Padding")),
      (by decide : ¬ ("AdditionalPublickKey" = "MergeMining")), if_false, if_true,
      readVec_listJ publicKeyJ publicKeyFromJson ks (fun k hk => publicKey_rt k (h k hk)), Option.map_some]
  | minerGate d =>
    simp only [subFieldJ, subFieldFromJson, (by decide : ¬ ("MysteriousMinerGate" = "TxPublicKey")),
      (by decide : ¬ ("MysteriousMinerGate" = "Nonce")), (by decide : ¬ ("MysteriousMinerGate" = "Padding")),
      (by decide : ¬ ("MysteriousMinerGate" = "MergeMining")), (by decide : ¬ ("MysteriousMinerGate" = "AdditionalPublickKey")),
      if_false, if_true, readByteVec_bytesJ, Option.map_some]

theorem extraField_rt (fs : List Extra.SubField) (h : ∀ f ∈ fs, wfSubField f) :
    extraFieldFromJson (extraFieldJ fs) = some fs :=
  readVec_listJ subFieldJ subFieldFromJson fs (fun f hf => subField_rt f (h f hf))

end Monero.Json
