import MoneroModel.Proofs.TxSound1
open Monero

theorem fail_some {α} {b : Bytes} {y : α} {r : Bytes} (h : (fail : Dec α) b = some (y, r)) : False := by
  simp [fail] at h

theorem sound_ecdh (ty : Nat) : Sound encEcdh (ecdh ty) := by
  intro b x r h
  unfold ecdh at h
  split at h
  · obtain ⟨m, r1, h1, h2⟩ := bind_some h
    obtain ⟨a, r2, h3, h4⟩ := bind_some h2
    obtain ⟨rfl, rfl⟩ := pure_some h4
    have c1 := sound_key _ _ _ h1; have c2 := sound_key _ _ _ h3
    simp only [id] at c1 c2; subst c1; subst c2; simp [encEcdh]
  · obtain ⟨a, r1, h1, h2⟩ := bind_some h
    obtain ⟨rfl, rfl⟩ := pure_some h2
    have c1 := sound_takeN 8 _ _ _ h1; simp only [id] at c1; subst c1; simp [encEcdh]

/-- what the base decoder guarantees about the value it returns -/
theorem sound_base (i o : Nat) : ∀ b x r, base i o b = some (x, r) → b = encBase x ++ r ∧ x.ty ≤ 6 := by
  intro b x r h
  unfold base at h
  obtain ⟨t, r1, h1, h2⟩ := bind_some h
  have a := sound_u8 _ _ _ h1; simp only at a; subst a
  simp only at h2
  split at h2
  · exact (fail_some h2).elim
  · rename_i hle
    split at h2
    · rename_i h0
      obtain ⟨rfl, rfl⟩ := pure_some h2
      have : t = 0 := by
        have := t.toNat_lt
        exact UInt8.toNat_inj.mp (by simpa using h0)
      subst this
      exact ⟨by simp [encBase], by simp⟩
    · rename_i hne
      obtain ⟨fee, r2, h3, h4⟩ := bind_some h2
      obtain ⟨ps, r3, h5, h6⟩ := bind_some h4
      obtain ⟨e, r4, h7, h8⟩ := bind_some h6
      obtain ⟨pk, r5, h9, h10⟩ := bind_some h8
      obtain ⟨rfl, rfl⟩ := pure_some h10
      have c1 := sound_varint' _ _ _ h3
      have c3 := sound_rep encEcdh (ecdh t.toNat) (sound_ecdh _) o _ _ _ h7
      have c4 := sound_sized sizes.key id key sound_key o _ _ _ h9
      refine ⟨?_, by simp; omega⟩
      subst c1
      by_cases h2t : t.toNat = 2
      · simp only [h2t, if_true] at h5
        have c2 := sound_sized sizes.key id key sound_key i _ _ _ h5
        subst c2; subst c3; subst c4
        simp only [encBase, hne, if_false, UInt8.ofNat_toNat]
        simp [h2t]
      · simp only [h2t, if_false] at h5
        obtain ⟨rfl, rfl⟩ := pure_some h5
        subst c3; subst c4
        simp only [encBase, hne, if_false, UInt8.ofNat_toNat]
        simp [h2t]

