import MoneroModel.Ref.Keccak
/-! The reference sponge never changes the number of lanes: every write of `Ref/Keccak.lean` is a `set!` (size-preserving, in range
or not), so the state that starts as 25 zero lanes has 25 lanes after any number of absorbed blocks. This says nothing about the
INDICES used; that no totalised accessor `st[i]!` / `set!` / `rc[r]!` of the reference falls back is proved in
`Proofs/KeccakChecked.lean`, which uses the size invariant of this file as its hypothesis. Core Lean only. -/
namespace Keccak

theorem foldl_inv {α β : Type} (P : β → Prop) (f : β → α → β) (hf : ∀ b a, P b → P (f b a)) :
    ∀ (l : List α) (init : β), P init → P (l.foldl f init) := by
  intro l
  induction l with
  | nil => intro init h; exact h
  | cons a t ih => intro init h; exact ih _ (hf _ _ h)

theorem xorBlock_size (st : Array UInt64) (blk : List UInt8) : (xorBlock st blk).size = st.size := by
  unfold xorBlock
  simp only [Id.run, List.forIn_pure_yield_eq_foldl, bind_pure_comp, map_pure]
  show (List.foldl _ (st, 0) blk).fst.size = st.size
  apply foldl_inv (fun (b : Array UInt64 × Nat) => b.fst.size = st.size)
  · intro b a h; simpa using h
  · rfl

theorem round_size (st : Array UInt64) (r : Nat) : (round st r).size = st.size := by
  unfold round
  simp only [Id.run, Std.Legacy.Range.forIn_eq_forIn_range', List.forIn_pure_yield_eq_foldl, bind_pure_comp, map_pure]
  show (Array.set! _ 0 _).size = st.size
  rw [Array.set!_eq_setIfInBounds, Array.size_setIfInBounds]
  apply foldl_inv (fun (b : Array UInt64) => b.size = st.size)
  · intro b a h; simpa using h
  apply foldl_inv (fun (b : Array UInt64 × UInt64) => b.fst.size = st.size)
  · intro b a h; simpa using h
  dsimp only
  apply foldl_inv (fun (b : Array UInt64) => b.size = st.size)
  · intro b a h
    apply foldl_inv (fun (b : Array UInt64) => b.size = st.size)
    · intro b a h; simpa using h
    · exact h
  · rfl

theorem f1600_eq_foldl (st : Array UInt64) : f1600 st = (List.range' 0 24).foldl round st := by
  have h24 : (Std.Legacy.Range.mk 0 24 1 (by decide)).size = 24 := by decide
  unfold f1600
  simp only [Std.Legacy.Range.forIn_eq_forIn_range', List.forIn_pure_yield_eq_foldl, bind_pure, Id.run_pure, h24]

theorem f1600_size (st : Array UInt64) : (f1600 st).size = st.size := by
  rw [f1600_eq_foldl]
  apply foldl_inv (fun (b : Array UInt64) => b.size = st.size)
  · intro b a h; rw [round_size]; exact h
  · rfl

theorem absorb_size : ∀ (n : Nat) (m : List UInt8) (st : Array UInt64), m.length ≤ n → (absorb st m).size = st.size := by
  intro n
  induction n with
  | zero => intro m st h; have : m = [] := List.length_eq_zero_iff.mp (by omega); subst this; rw [absorb]; simp
  | succ k ih =>
    intro m st h
    rw [absorb]
    by_cases hm : m = []
    · simp [hm]
    · rw [dif_neg hm, ih _ _ (by have : 0 < m.length := List.length_pos_iff.mpr hm; simp [List.length_drop, rate]; omega), f1600_size, xorBlock_size]

theorem state_size (m : List UInt8) : (absorb (Array.replicate 25 0) m).size = 25 := by
  rw [absorb_size m.length m _ (Nat.le_refl _)]; simp
end Keccak
