import Mathlib.Algebra.Field.Defs
/-! Affine twisted-Edwards arithmetic with a = −1 over an arbitrary field, as raw functions on coordinate pairs
(no subtype): the shared vocabulary of `Proofs/EdwardsGroup.lean` (group law) and `Proofs/EdwardsRef.lean`
(refinement of the extended-coordinate reference `Ref/Ed25519.lean`). Curve: −x² + y² = 1 + d·x²·y². -/
namespace Monero.Edw
variable {F : Type} [Field F]

/-- (x, y) satisfies −x² + y² = 1 + d·x²·y² -/
def OnCurve (d : F) (P : F × F) : Prop := -P.1 ^ 2 + P.2 ^ 2 = 1 + d * P.1 ^ 2 * P.2 ^ 2

/-- the unified addition law of a twisted Edwards curve with a = −1 -/
def addRaw (d : F) (P Q : F × F) : F × F :=
  ((P.1 * Q.2 + P.2 * Q.1) / (1 + d * P.1 * Q.1 * P.2 * Q.2),
   (P.2 * Q.2 + P.1 * Q.1) / (1 - d * P.1 * Q.1 * P.2 * Q.2))

def negRaw (P : F × F) : F × F := (-P.1, P.2)
def zeroRaw : F × F := (0, 1)
end Monero.Edw
