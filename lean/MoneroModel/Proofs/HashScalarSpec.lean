import MoneroModel.Model.HashScalar
import MoneroModel.Spec.HashScalar
import MoneroModel.Proofs.LeBytes
/-! The independent statement `Spec.HashScalar` coincides with the model `Monero.HashScalar`. Core Lean only. -/
namespace Spec.HashScalar
open Ed

theorem order_eq : order = Ed.l := by decide

theorem beNat_foldl (b : List UInt8) : ∀ acc, b.foldl (fun acc x => acc * 256 + x.toNat) acc
    = acc * 256 ^ b.length + beNat b := by
  induction b with
  | nil => intro acc; simp [beNat]
  | cons x t ih =>
    intro acc
    simp only [List.foldl_cons, beNat, List.length_cons]
    rw [ih, ih (0 * 256 + x.toNat), Nat.pow_succ]
    simp only [Nat.zero_mul, Nat.zero_add, Nat.add_mul, Nat.mul_assoc, Nat.add_assoc, beNat]
    rw [Nat.mul_comm 256 (256 ^ t.length)]

theorem leValue_eq (b : List UInt8) : leValue b = leNat b := by
  induction b with
  | nil => rfl
  | cons x t ih =>
    unfold leValue at *
    rw [List.reverse_cons, beNat, List.foldl_append, leNat_cons]
    simp only [List.foldl_cons, List.foldl_nil]
    show beNat t.reverse * 256 + x.toNat = _
    rw [ih]; omega

theorem reduce_eq (n : Nat) : reduce n = n % Ed.l := by
  unfold reduce
  rw [order_eq]
  have := Nat.div_add_mod n Ed.l
  have h2 : Ed.l * (n / Ed.l) = n / Ed.l * Ed.l := Nat.mul_comm _ _
  omega

theorem leBytes_eq (len : Nat) : ∀ n, leBytes len n = toBytesLE n len := by
  induction len with
  | zero => intro n; simp [leBytes, toBytesLE]
  | succ k ih => intro n; rw [leBytes, toBytesLE_succ, ih]

theorem scalarOfDigest_eq (d : List UInt8) : scalarOfDigest d = Monero.HashScalar.hsBytes d := by
  unfold scalarOfDigest Monero.HashScalar.hsBytes Monero.HashScalar.hs
  rw [leBytes_eq, reduce_eq, leValue_eq]

end Spec.HashScalar
