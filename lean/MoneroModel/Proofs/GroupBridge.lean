import MoneroModel.Model.Crypto
import MoneroModel.Spec.Sender
import MoneroModel.Proofs.LeBytes
import MoneroModel.Proofs.VarIntImp
/-! Bridge between the byte-level helpers of the key-derivation model (Model/Crypto.lean) and of the by-the-book sender
(Spec/Sender.lean): the two were written independently; here they are shown to denote the same strings and numbers.
Also: injectivity of the little-endian index encoding. Core Lean only. -/
namespace Monero
open Spec.Sender (Prims)

/-- the primitives of `ops` seen as the parameter record of the sender specification -/
def specPrims {P : Type} (ops : CryptoOps P) : Prims P :=
  { add := ops.add, smul := ops.smul, G := ops.base, enc := ops.enc, keccak := ops.keccak, l := ops.l }

theorem leNat_eq_Ed (b : Bytes) : leNat b = Ed.leNat b := rfl
theorem toBytesLE_eq_Ed (n len : Nat) : toBytesLE n len = Ed.toBytesLE n len := rfl

theorem leNat_eq_leVal (b : Bytes) : leNat b = Spec.Sender.leVal b := by
  induction b with
  | nil => rfl
  | cons x t ih => rw [leNat_eq_Ed, Ed.leNat_cons, Spec.Sender.leVal, ← ih, leNat_eq_Ed]

theorem toBytesLE_eq_le (len : Nat) : ∀ n, toBytesLE n len = Spec.Sender.le len n := by
  induction len with
  | zero => intro n; rw [toBytesLE_eq_Ed, Ed.toBytesLE_zero]; rfl
  | succ k ih => intro n; rw [toBytesLE_eq_Ed, Ed.toBytesLE_succ, Spec.Sender.le, ← ih, toBytesLE_eq_Ed]

theorem scalarBytes_eq (n : Nat) : scalarBytes n = Spec.Sender.scalar32 n := toBytesLE_eq_le 32 n
theorem le32_eq (n : Nat) : le32 n = Spec.Sender.u32le n := toBytesLE_eq_le 4 n

theorem subaddrSalt_eq : Gen.subaddrSalt = Spec.Sender.subAddrSalt := by decide
theorem viewTagSalt_eq : Gen.viewTagSalt = Spec.Sender.viewTagSalt := by decide

variable {P : Type}

theorem hsOf_eq (ops : CryptoOps P) (m : Bytes) : hsOf ops m = Spec.Sender.hs (specPrims ops) m := by
  unfold hsOf Spec.Sender.hs; rw [leNat_eq_leVal]; rfl

theorem rvnScalar_eq (ops : CryptoOps P) (D : P) (n : Nat) :
    rvnScalar ops D n = Spec.Sender.derivationScalar (specPrims ops) D n := by
  unfold rvnScalar Spec.Sender.derivationScalar; rw [hsOf_eq, encVarint_eq_leb128]; rfl

theorem subScalar_eq (ops : CryptoOps P) (v i j : Nat) :
    subScalar ops v i j = Spec.Sender.subScalar (specPrims ops) v i j := by
  unfold subScalar Spec.Sender.subScalar; rw [hsOf_eq, subaddrSalt_eq, scalarBytes_eq, le32_eq, le32_eq]

theorem viewTagOf_eq (ops : CryptoOps P) (D : P) (n : Nat) :
    viewTagOf ops D n = Spec.Sender.viewTag (specPrims ops) D n := by
  unfold viewTagOf Spec.Sender.viewTag; rw [viewTagSalt_eq, encVarint_eq_leb128]; rfl

/-- the model's one-time key is the specification's `derive_public_key` (same primitives) -/
theorem oneTimeKey_eq_spec (ops : CryptoOps P) (D S : P) (n : Nat) :
    oneTimeKey ops D S n = Spec.Sender.oneTimeKey (specPrims ops) D S n := by
  unfold oneTimeKey Spec.Sender.oneTimeKey pubOf; rw [rvnScalar_eq]; rfl

theorem hsOf_lt (ops : CryptoOps P) (h : 0 < ops.l) (m : Bytes) : hsOf ops m < ops.l := Nat.mod_lt _ h

/-! ### the index encoding -/
theorem le32_length (n : Nat) : (le32 n).length = 4 := by rw [le32, toBytesLE_eq_Ed, Ed.length_toBytesLE]
theorem scalarBytes_length (n : Nat) : (scalarBytes n).length = 32 := by
  rw [scalarBytes, toBytesLE_eq_Ed, Ed.length_toBytesLE]

/-- `u32::consensus_encode` is injective on 32-bit values -/
theorem le32_injective {a b : Nat} (ha : a < 2 ^ 32) (hb : b < 2 ^ 32) (h : le32 a = le32 b) : a = b := by
  have e : (2 : Nat) ^ 32 = 256 ^ 4 := by decide
  have h1 := Ed.leNat_toBytesLE 4 a (e ▸ ha)
  have h2 := Ed.leNat_toBytesLE 4 b (e ▸ hb)
  unfold le32 at h; rw [toBytesLE_eq_Ed, toBytesLE_eq_Ed] at h
  rw [← h1, ← h2, h]

/-- the hashed subaddress message -/
def subPreimage (v i j : Nat) : Bytes := Gen.subaddrSalt ++ scalarBytes v ++ le32 i ++ le32 j

theorem subScalar_preimage (ops : CryptoOps P) (v i j : Nat) : subScalar ops v i j = hsOf ops (subPreimage v i j) := rfl

/-- for a fixed view key the message determines the index -/
theorem subPreimage_injective {v i j i' j' : Nat} (hi : i < 2 ^ 32) (hj : j < 2 ^ 32) (hi' : i' < 2 ^ 32)
    (hj' : j' < 2 ^ 32) (h : subPreimage v i j = subPreimage v i' j') : i = i' ∧ j = j' := by
  unfold subPreimage at h
  rw [List.append_assoc, List.append_assoc (Gen.subaddrSalt ++ scalarBytes v)] at h
  have h1 := List.append_cancel_left h
  have h2 := List.append_inj h1 (by rw [le32_length, le32_length])
  exact ⟨le32_injective hi hi' h2.1, le32_injective hj hj' h2.2⟩
end Monero
