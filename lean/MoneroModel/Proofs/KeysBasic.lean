import MoneroModel.Model.Keys
import MoneroModel.Proofs.LeBytes
/-! Core-Lean lemmas for C13: `powmod` is modular exponentiation, secret-key acceptance, text/consensus round trips. -/
namespace Ed

theorem powmodAux_eq (m : Nat) (hm : 0 < m) : ∀ (fuel r b e : Nat), r < m → e < 2 ^ fuel →
    powmodAux m fuel r b e = r * b ^ e % m := by
  intro fuel
  induction fuel with
  | zero =>
    intro r b e hr he
    have : e = 0 := by simp at he; exact he
    subst this
    simp [powmodAux, Nat.mod_eq_of_lt hr]
  | succ k ih =>
    intro r b e hr he
    rw [powmodAux]
    by_cases h0 : e = 0
    · subst h0; simp [Nat.mod_eq_of_lt hr]
    · rw [if_neg h0]
      have he2 : e / 2 < 2 ^ k := by rw [Nat.pow_succ] at he; omega
      have hr' : (if e % 2 = 1 then r * b % m else r) < m := by
        split
        · exact Nat.mod_lt _ hm
        · exact hr
      rw [ih _ _ _ hr' he2]
      have hsq : (b * b % m) ^ (e / 2) % m = (b * b) ^ (e / 2) % m := by rw [← Nat.pow_mod]
      have hbe : b ^ e = (b * b) ^ (e / 2) * b ^ (e % 2) := by
        rw [← Nat.pow_two, ← Nat.pow_mul, ← Nat.pow_add, Nat.div_add_mod]
      rw [Nat.mul_mod, hsq, ← Nat.mul_mod, hbe]
      by_cases hodd : e % 2 = 1
      · rw [if_pos hodd, hodd, Nat.pow_one]
        rw [Nat.mul_mod (r * b % m), Nat.mod_mod, ← Nat.mul_mod]
        congr 1
        simp only [Nat.mul_assoc, Nat.mul_comm]
      · have : e % 2 = 0 := by omega
        rw [if_neg hodd, this, Nat.pow_zero, Nat.mul_one]

/-- `powmod` is exponentiation modulo `m` for exponents below 2^260 -/
theorem powmod_eq (b e m : Nat) (hm : 1 < m) (he : e < 2 ^ 260) : powmod b e m = b ^ e % m := by
  unfold powmod
  rw [powmodAux_eq m (by omega) 260 _ _ _ (Nat.mod_lt _ (by omega)) he, Nat.mod_eq_of_lt hm, Nat.one_mul, ← Nat.pow_mod]

theorem powmod_lt (b e m : Nat) (hm : 1 < m) (he : e < 2 ^ 260) : powmod b e m < m := by
  rw [powmod_eq b e m hm he]; exact Nat.mod_lt _ (by omega)

theorem p_gt_one : 1 < p := by decide
theorem inv_one : inv 1 = 1 := by
  unfold inv
  rw [powmod_eq 1 (p - 2) p p_gt_one (by decide), Nat.one_pow, Nat.mod_eq_of_lt p_gt_one]

/-- the byte at index `i` is bounded by the value -/
theorem leNat_ge_byte (b : List UInt8) : ∀ i, 256 ^ i * (b.getD i 0).toNat ≤ leNat b := by
  induction b with
  | nil => intro i; simp [leNat]
  | cons x t ih =>
    intro i
    cases i with
    | zero => simp [leNat_cons]
    | succ j =>
      have := ih j
      simp only [List.getD_cons_succ, leNat_cons, Nat.pow_succ]
      calc 256 ^ j * 256 * (t.getD j 0).toNat = 256 * (256 ^ j * (t.getD j 0).toNat) := by
            simp only [Nat.mul_assoc, Nat.mul_comm]
        _ ≤ 256 * leNat t := Nat.mul_le_mul_left _ this
        _ ≤ _ := Nat.le_add_left _ _

end Ed

namespace Monero.Keys
open Ed

theorem shr7_eq_zero (x : UInt8) (h : x.toNat < 128) : (x >>> 7 == 0) = true := by
  rw [beq_iff_eq]
  apply UInt8.toNat_inj.mp
  rw [UInt8.toNat_shiftRight]
  simp [Nat.shiftRight_eq_div_pow]
  omega

theorem l_lt : Ed.l < 2 ^ 253 := by decide
theorem l_pos : 0 < Ed.l := by decide

theorem secretAccept_iff (b : Bytes) : secretAccept b = true ↔ b.length = 32 ∧ leNat b < Ed.l := by
  unfold secretAccept
  by_cases hlen : b.length = 32
  · have hne : (b.length != 32) = false := by simp [hlen]
    rw [hne]
    simp only [Bool.false_eq_true, if_false, hlen, true_and]
    unfold scalarFromCanonicalBytes
    simp only [Bool.and_eq_true, beq_iff_eq]
    constructor
    · rintro ⟨_, hc⟩
      have hlt : leNat b % Ed.l < Ed.l := Nat.mod_lt _ l_pos
      have h256 : leNat b % Ed.l < 256 ^ 32 := Nat.lt_trans hlt (by decide)
      have := leNat_toBytesLE 32 _ h256
      rw [hc] at this
      rw [this]; exact hlt
    · intro hlt
      constructor
      · have hb := leNat_ge_byte b 31
        have h := l_lt
        have : (b.getD 31 0).toNat < 128 := by
          have h31 : (256 : Nat) ^ 31 = 2 ^ 248 := by decide
          rw [h31] at hb
          have h5 : (2 : Nat) ^ 253 = 2 ^ 248 * 32 := by decide
          rw [h5] at h
          have : 2 ^ 248 * (b.getD 31 0).toNat < 2 ^ 248 * 32 := by omega
          have := Nat.lt_of_mul_lt_mul_left this
          omega
        have := shr7_eq_zero _ this
        simpa using this
      · rw [Nat.mod_eq_of_lt hlt, ← hlen]; exact toBytesLE_leNat b
  · have hne : (b.length != 32) = true := by simp [hlen]
    rw [hne]; simp [hlen]

/-! text form -/
theorem hexVal_hexDigit : ∀ n, n < 16 → hexVal (hexDigit n) = some n := by decide

theorem hexDecode_hexEncode (b : Bytes) : hexDecode (hexEncode b) = some b := by
  induction b with
  | nil => rfl
  | cons x t ih =>
    have hx := x.toNat_lt
    rw [hexEncode, hexDecode, hexVal_hexDigit _ (by omega), hexVal_hexDigit _ (Nat.mod_lt _ (by decide)), ih]
    simp only [Option.some.injEq, List.cons.injEq, and_true]
    have : x.toNat / 16 * 16 + x.toNat % 16 = x.toNat := by omega
    rw [this]; simp

theorem hexEncode_length (b : Bytes) : (hexEncode b).length = 2 * b.length := by
  induction b with
  | nil => rfl
  | cons x t ih => simp [hexEncode, ih]; omega

/-! consensus form -/
theorem consensusDecode_encode (accept : Bytes → Bool) (k rest : Bytes) (hk : k.length = 32) (ha : accept k = true) :
    consensusDecodeWith accept (consensusEncode k ++ rest) = some (k, rest) := by
  unfold consensusDecodeWith consensusEncode takeN
  have h1 : ¬ (k ++ rest).length < 32 := by simp [hk]
  rw [if_neg h1]
  simp [List.take_left' hk, List.drop_left' hk, ha]

end Monero.Keys
