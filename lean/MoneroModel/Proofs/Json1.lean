import MoneroModel.Model.Json
/-! Round-trip lemmas for the leaves of the serde model (C19). Core Lean only. -/
namespace Monero.Json

theorem mapOpt_map {α β} (f : α → β) (g : β → Option α) (xs : List α) (h : ∀ x ∈ xs, g (f x) = some x) :
    mapOpt g (xs.map f) = some xs := by
  induction xs with
  | nil => rfl
  | cons x xs ih =>
    have h1 := h x (List.mem_cons_self)
    have h2 := ih (fun y hy => h y (List.mem_cons_of_mem _ hy))
    simp only [List.map_cons, mapOpt, h1, h2]

theorem readVec_listJ {α} (f : α → Json) (g : Json → Option α) (xs : List α) (h : ∀ x ∈ xs, g (f x) = some x) :
    readVec g (listJ f xs) = some xs := by
  simp only [listJ, readVec]; exact mapOpt_map f g xs h

theorem readArrayN_listJ {α} (f : α → Json) (g : Json → Option α) (xs : List α) (n : Nat) (hn : xs.length = n)
    (h : ∀ x ∈ xs, g (f x) = some x) : readArrayN n g (listJ f xs) = some xs := by
  simp only [listJ, readArrayN, List.length_map, hn, if_true]; exact mapOpt_map f g xs h

theorem readUInt_natJ (bound n : Nat) (h : n < bound) : readUInt bound (natJ n) = some n := by
  simp only [natJ, readUInt]
  have : (0 : Int) ≤ (n : Int) ∧ (n : Int).toNat < bound := ⟨by omega, by simpa using h⟩
  rw [if_pos this]; simp

theorem readU8_num (x : UInt8) : readU8 (.num x.toNat) = some x := by
  have h := readUInt_natJ 256 x.toNat (UInt8.toNat_lt x)
  simp only [natJ] at h
  simp only [readU8, h, Option.map_some, UInt8.ofNat_toNat]

theorem readU8_natJ (x : UInt8) : readU8 (natJ x.toNat) = some x := readU8_num x

theorem readBytesN_bytesJ (b : Bytes) (n : Nat) (h : b.length = n) : readBytesN n (bytesJ b) = some b :=
  readArrayN_listJ (fun x : UInt8 => Json.num x.toNat) readU8 b n h (fun x _ => readU8_num x)

theorem readByteVec_bytesJ (b : Bytes) : readByteVec (bytesJ b) = some b :=
  readVec_listJ (fun x : UInt8 => Json.num x.toNat) readU8 b (fun x _ => readU8_num x)

theorem fieldsOf_one (n : String) (v : Json) (m : Nat) : fieldsOf [n] m (.obj [(n, v)]) = some [some v] := by
  simp [fieldsOf, mapOpt, lookupAll, List.filter]

theorem keyFromJson_keyJ (k : Bytes) (h : k.length = 32) : keyFromJson (keyJ k) = some k := by
  simp only [keyFromJson, keyJ, fieldsOf_one, req, readBytesN_bytesJ k 32 h]

theorem keyImage_rt (k : Bytes) (h : k.length = 32) : keyImageFromJson (.obj [("image", bytesJ k)]) = some k := by
  simp only [keyImageFromJson, fieldsOf_one, req, readBytesN_bytesJ k 32 h]

theorem ctKeyFromJson_ctKeyJ (k : Bytes) (h : k.length = 32) : ctKeyFromJson (ctKeyJ k) = some k := by
  simp only [ctKeyFromJson, ctKeyJ, fieldsOf_one, req, keyFromJson_keyJ k h]

theorem readVec_keys (ks : List Bytes) (h : ∀ k ∈ ks, k.length = 32) : readVec keyFromJson (listJ keyJ ks) = some ks :=
  readVec_listJ keyJ keyFromJson ks (fun k hk => keyFromJson_keyJ k (h k hk))

/-! chunks -/
theorem chunks_flatten (sz : Nat) : ∀ (n : Nat) (b : Bytes), b.length = sz * n → (chunks sz n b).flatten = b
  | 0, b, h => by
    have : b = [] := List.eq_nil_of_length_eq_zero (by simpa using h)
    simp [chunks, this]
  | n+1, b, h => by
    have hd : (b.drop sz).length = sz * n := by rw [List.length_drop, h, Nat.mul_succ]; omega
    simp only [chunks, List.flatten_cons, chunks_flatten sz n _ hd, List.take_append_drop]

theorem chunks_length (sz : Nat) : ∀ (n : Nat) (b : Bytes), (chunks sz n b).length = n
  | 0, _ => rfl
  | n+1, b => by simp only [chunks, List.length_cons, chunks_length sz n]

theorem chunks_mem (sz : Nat) : ∀ (n : Nat) (b : Bytes), b.length = sz * n → ∀ c ∈ chunks sz n b, c.length = sz
  | 0, _, _, c, hc => by simp [chunks] at hc
  | n+1, b, h, c, hc => by
    have hd : (b.drop sz).length = sz * n := by rw [List.length_drop, h, Nat.mul_succ]; omega
    simp only [chunks, List.mem_cons] at hc
    rcases hc with rfl | hc
    · rw [List.length_take, h, Nat.mul_succ]; omega
    · exact chunks_mem sz n _ hd c hc

theorem key64_rt (b : Bytes) (h : b.length = 2048) : key64FromJson (key64J b) = some b := by
  have h' : b.length = 32 * 64 := h
  have := readArrayN_listJ keyJ keyFromJson (chunks 32 64 b) 64 (chunks_length 32 64 b)
    (fun k hk => keyFromJson_keyJ k (chunks_mem 32 64 b h' k hk))
  simp only [key64FromJson, key64J, fieldsOf_one, req, this, Option.map_some, chunks_flatten 32 64 b h']

/-! 32-byte slices -/
theorem slice_append_drop (b : Bytes) (i : Nat) : slice b i ++ b.drop (32 * (i + 1)) = b.drop (32 * i) := by
  have : b.drop (32 * (i + 1)) = (b.drop (32 * i)).drop 32 := by rw [List.drop_drop]; congr 1
  rw [slice, this, List.take_append_drop]

theorem slice_length (b : Bytes) (i : Nat) (h : 32 * (i + 1) ≤ b.length) : (slice b i).length = 32 := by
  rw [slice, List.length_take, List.length_drop]; omega

theorem slice_last (b : Bytes) (i : Nat) (h : b.length = 32 * (i + 1)) : slice b i = b.drop (32 * i) := by
  rw [slice]; apply List.take_of_length_le; rw [List.length_drop]; omega

theorem slices2 (b : Bytes) (h : b.length = 64) : slice b 0 ++ slice b 1 = b := by
  rw [slice_last b 1 (by omega)]; exact slice_append_drop b 0
theorem slices3 (b : Bytes) (h : b.length = 96) : slice b 0 ++ (slice b 1 ++ slice b 2) = b := by
  rw [slice_last b 2 (by omega), slice_append_drop b 1]; exact slice_append_drop b 0
theorem slices6 (b : Bytes) (h : b.length = 192) :
    slice b 0 ++ (slice b 1 ++ (slice b 2 ++ (slice b 3 ++ (slice b 4 ++ slice b 5)))) = b := by
  rw [slice_last b 5 (by omega), slice_append_drop b 4, slice_append_drop b 3, slice_append_drop b 2, slice_append_drop b 1]
  exact slice_append_drop b 0

end Monero.Json
