import MoneroModel.Spec.TxSkip
import MoneroModel.Proofs.TxDecodedWF
import MoneroModel.Proofs.VarIntSpec
open Monero
/-! The by-the-book skipper `Spec.txBounds` (Spec/TxSkip.lean) finds the boundaries of EVERY accepted parse: whenever the decoder
model accepts (`tx b = some (t, r)`, any version, any remainder `r`), the skipper walks the same bytes, and its `p`, `q`, Null flag
and — where it reports one — end of the transaction are the lengths of the parts the decoder consumed. Used by Props/C05. -/
namespace WireSkip

theorem rdVarint_of_varint {b : Bytes} {n : Nat} {r : Bytes} (h : varint b = some (n, r)) :
    Spec.rdVarint b = some (n, r) := by
  have hs := sound_varint b n r h
  have hn := varint_lt b n r h
  rw [encVarint_eq_leb128] at hs
  obtain ⟨gs, h1, h2⟩ := VarIntSpec.readGroups_leb128 r n
  subst hs
  simp [Spec.rdVarint, Spec.leb128Accept, h1, h2, hn]

theorem skipVarint_of_varint {b : Bytes} {n : Nat} {r : Bytes} (h : varint b = some (n, r)) :
    Spec.skipVarint b = some r := by
  simp [Spec.skipVarint, rdVarint_of_varint h]

theorem skipN_drop : ∀ (n : Nat) (b : Bytes), n ≤ b.length → Spec.skipN n b = some (b.drop n)
  | 0, b, _ => by simp [Spec.skipN]
  | n + 1, [], h => by simp at h
  | n + 1, _ :: r, h => by
    simp only [Spec.skipN, List.drop_succ_cons]
    exact skipN_drop n r (by simpa using h)

theorem skipN_of_takeN {n : Nat} {b x r : Bytes} (h : takeN n b = some (x, r)) : Spec.skipN n b = some r := by
  unfold takeN at h
  split at h
  · simp at h
  · simp at h; obtain ⟨_, rfl⟩ := h; exact skipN_drop n b (by omega)

theorem rep_of_sized {α} {sz : Nat} {d : Dec α} {n : Nat} {b : Bytes} {xs : List α} {r : Bytes}
    (h : sizedVec sz d n b = some (xs, r)) : rep d n b = some (xs, r) := by
  unfold sizedVec at h
  split at h
  · exact (fail_some h).elim
  · exact h

theorem skipRep_of_rep {α} (d : Dec α) (s : Bytes → Option Bytes) (hs : ∀ b x r, d b = some (x, r) → s b = some r) :
    ∀ n b xs r, rep d n b = some (xs, r) → Spec.skipRep s n b = some r := by
  intro n; induction n with
  | zero => intro b xs r h; obtain ⟨_, rfl⟩ := pure_some h; rfl
  | succ n ih =>
    intro b xs r h
    simp only [rep] at h
    obtain ⟨y, r1, h1, h2⟩ := bind_some h
    obtain ⟨ys, r2, h3, h4⟩ := bind_some h2
    obtain ⟨_, rfl⟩ := pure_some h4
    simp [Spec.skipRep, hs _ _ _ h1, ih _ _ _ h3]

theorem skipN_of_rep_u8 : ∀ n b xs r, rep u8 n b = some (xs, r) → Spec.skipN n b = some r := by
  intro n; induction n with
  | zero => intro b xs r h; obtain ⟨_, rfl⟩ := pure_some h; rfl
  | succ n ih =>
    intro b xs r h
    simp only [rep] at h
    obtain ⟨y, r1, h1, h2⟩ := bind_some h
    obtain ⟨ys, r2, h3, h4⟩ := bind_some h2
    obtain ⟨_, rfl⟩ := pure_some h4
    cases b with
    | nil => simp [u8] at h1
    | cons a tl =>
      simp [u8] at h1; obtain ⟨_, rfl⟩ := h1
      simp only [Spec.skipN]
      exact ih _ _ _ h3

/-- ring members of an input (what `skipIn` counts) -/
def ringOf : TxIn → Nat | .gen _ => 0 | .toKey _ o _ => o.length

theorem skipIn_of_txin {b : Bytes} {x : TxIn} {r : Bytes} (h : txin b = some (x, r)) :
    Spec.skipIn b = some (ringOf x, r) := by
  unfold txin at h
  obtain ⟨t, r1, h1, h2⟩ := bind_some h
  cases b with
  | nil => simp [u8] at h1
  | cons a tl =>
    simp [u8] at h1; obtain ⟨rfl, rfl⟩ := h1
    split at h2
    · rename_i hff
      obtain ⟨hh, r2, h3, h4⟩ := bind_some h2
      obtain ⟨rfl, rfl⟩ := pure_some h4
      simp [Spec.skipIn, hff, skipVarint_of_varint h3, ringOf]
    · rename_i hnff
      split at h2
      · rename_i h02
        obtain ⟨am, r2, h3, h4⟩ := bind_some h2
        obtain ⟨o, r3, h5, h6⟩ := bind_some h4
        obtain ⟨k, r4, h7, h8⟩ := bind_some h6
        obtain ⟨rfl, rfl⟩ := pure_some h8
        unfold vec at h5
        obtain ⟨n, r5, h9, h10⟩ := bind_some h5
        have hl := sizedVec_length _ _ _ _ _ _ h10
        have hr := skipRep_of_rep varint Spec.skipVarint (fun _ _ _ hv => skipVarint_of_varint hv) n _ _ _ (rep_of_sized h10)
        have hk : Spec.skipN 32 r3 = some r4 := skipN_of_takeN h7
        simp [Spec.skipIn, h02, rdVarint_of_varint h3, rdVarint_of_varint h9, hr, hk, ringOf, hl]
      · exact (fail_some h2).elim

theorem skipRepSum_of_rep : ∀ n b xs r acc, rep txin n b = some (xs, r) →
    Spec.skipRepSum Spec.skipIn n acc b = some (acc + (xs.map ringOf).sum, r) := by
  intro n; induction n with
  | zero => intro b xs r acc h; obtain ⟨rfl, rfl⟩ := pure_some h; simp [Spec.skipRepSum]
  | succ n ih =>
    intro b xs r acc h
    simp only [rep] at h
    obtain ⟨y, r1, h1, h2⟩ := bind_some h
    obtain ⟨ys, r2, h3, h4⟩ := bind_some h2
    obtain ⟨rfl, rfl⟩ := pure_some h4
    simp only [Spec.skipRepSum, skipIn_of_txin h1, ih _ _ _ _ h3, List.map_cons, List.sum_cons]
    congr 2; omega

theorem skipOut_of_txout {b : Bytes} {x : TxOut} {r : Bytes} (h : txout b = some (x, r)) : Spec.skipOut b = some r := by
  unfold txout at h
  obtain ⟨a, r1, h1, h2⟩ := bind_some h
  obtain ⟨tg, r2, h3, h4⟩ := bind_some h2
  obtain ⟨_, rfl⟩ := pure_some h4
  unfold target at h3
  obtain ⟨t, r3, h5, h6⟩ := bind_some h3
  cases r1 with
  | nil => simp [u8] at h5
  | cons c tl =>
    simp [u8] at h5; obtain ⟨rfl, rfl⟩ := h5
    split at h6
    · rename_i h02
      obtain ⟨k, r4, h7, h8⟩ := bind_some h6
      obtain ⟨_, rfl⟩ := pure_some h8
      have hk : Spec.skipN 32 tl = some r4 := skipN_of_takeN h7
      simp [Spec.skipOut, rdVarint_of_varint h1, h02, hk]
    · rename_i hn02
      split at h6
      · rename_i h03
        obtain ⟨k, r4, h7, h8⟩ := bind_some h6
        obtain ⟨v, r5, h9, h10⟩ := bind_some h8
        obtain ⟨_, rfl⟩ := pure_some h10
        have hk : Spec.skipN 33 tl = some r5 := by
          have h7' : takeN 32 tl = some (k, r4) := h7
          unfold takeN at h7'
          split at h7'
          · simp at h7'
          · rename_i hlen
            simp at h7'; obtain ⟨_, rfl⟩ := h7'
            cases hd : List.drop 32 tl with
            | nil => rw [hd] at h9; simp [u8] at h9
            | cons w rest =>
              rw [hd] at h9; simp [u8] at h9; obtain ⟨_, rfl⟩ := h9
              have hl : (List.drop 32 tl).length = tl.length - 32 := List.length_drop
              rw [hd] at hl; simp at hl
              rw [skipN_drop 33 tl (by omega)]
              have : List.drop 33 tl = List.drop 1 (List.drop 32 tl) := by rw [List.drop_drop]
              rw [this, hd]; rfl
        simp [Spec.skipOut, rdVarint_of_varint h1, h03, hk]
      · exact (fail_some h6).elim

theorem skipPrefix_of_prefix {b : Bytes} {p : Prefix} {r : Bytes} (h : prefix' b = some (p, r)) :
    Spec.skipPrefix b = some ⟨p.version, p.ins.length, (p.ins.map ringOf).sum, p.outs.length, r⟩ := by
  unfold prefix' at h
  obtain ⟨v, r1, h1, h2⟩ := bind_some h
  obtain ⟨u, r2, h3, h4⟩ := bind_some h2
  obtain ⟨ins, r3, h5, h6⟩ := bind_some h4
  obtain ⟨outs, r4, h7, h8⟩ := bind_some h6
  obtain ⟨ex, r5, h9, h10⟩ := bind_some h8
  obtain ⟨rfl, rfl⟩ := pure_some h10
  unfold vec at h5 h7 h9
  obtain ⟨nin, s1, a1, a2⟩ := bind_some h5
  obtain ⟨nout, s2, b1, b2⟩ := bind_some h7
  obtain ⟨ne, s3, c1, c2⟩ := bind_some h9
  have li := sizedVec_length _ _ _ _ _ _ a2
  have lo := sizedVec_length _ _ _ _ _ _ b2
  have hi := skipRepSum_of_rep nin _ _ _ 0 (rep_of_sized a2)
  have ho := skipRep_of_rep txout Spec.skipOut (fun _ _ _ hv => skipOut_of_txout hv) nout _ _ _ (rep_of_sized b2)
  have he := skipN_of_rep_u8 ne _ _ _ (rep_of_sized c2)
  simp [Spec.skipPrefix, rdVarint_of_varint h1, rdVarint_of_varint h3, rdVarint_of_varint a1, hi, rdVarint_of_varint b1, ho,
    rdVarint_of_varint c1, he, li, lo]

/-! consumed lengths -/

theorem takeN_consumed {n : Nat} {b x r : Bytes} (h : takeN n b = some (x, r)) : b.length = n + r.length := by
  unfold takeN at h
  split at h
  · simp at h
  · simp at h; obtain ⟨_, rfl⟩ := h; simp; omega

theorem rep_consumed {α} (d : Dec α) (c : Nat) (hc : ∀ b x r, d b = some (x, r) → b.length = c + r.length) :
    ∀ n b xs r, rep d n b = some (xs, r) → b.length = c * n + r.length := by
  intro n; induction n with
  | zero => intro b xs r h; obtain ⟨_, rfl⟩ := pure_some h; simp
  | succ n ih =>
    intro b xs r h
    simp only [rep] at h
    obtain ⟨y, r1, h1, h2⟩ := bind_some h
    obtain ⟨ys, r2, h3, h4⟩ := bind_some h2
    obtain ⟨_, rfl⟩ := pure_some h4
    have e1 := hc _ _ _ h1; have e2 := ih _ _ _ h3
    rw [Nat.mul_succ]; omega

theorem ecdh_consumed (ty : Nat) {b : Bytes} {x : Ecdh} {r : Bytes} (h : ecdh ty b = some (x, r)) :
    b.length = (if ty ≤ 3 then 64 else 8) + r.length := by
  unfold ecdh at h
  by_cases h3t : ty ≤ 3
  · simp only [h3t, if_true] at h ⊢
    obtain ⟨m, r1, h1, h2⟩ := bind_some h
    obtain ⟨a, r2, h3, h4⟩ := bind_some h2
    obtain ⟨_, hr⟩ := pure_some h4
    have e1 : r1.length + 32 = b.length := by have := takeN_consumed (n := 32) h1; omega
    have e2 : r2.length + 32 = r1.length := by have := takeN_consumed (n := 32) h3; omega
    rw [← hr]; omega
  · simp only [h3t, if_false] at h ⊢
    obtain ⟨a, r1, h1, h2⟩ := bind_some h
    obtain ⟨_, hr⟩ := pure_some h2
    have := takeN_consumed h1; rw [← hr]; omega

theorem skipBase_of_base {i o : Nat} {b : Bytes} {bs : Base} {r : Bytes} (h : base i o b = some (bs, r)) :
    Spec.skipBase i o b = some (b.length - r.length, decide (bs.ty = 0)) ∧ r.length ≤ b.length := by
  unfold base at h
  obtain ⟨t, r1, h1, h2⟩ := bind_some h
  cases b with
  | nil => simp [u8] at h1
  | cons a tl =>
    simp [u8] at h1; obtain ⟨rfl, rfl⟩ := h1
    simp only at h2
    split at h2
    · exact (fail_some h2).elim
    · split at h2
      · rename_i h0
        obtain ⟨hbs, hr⟩ := pure_some h2
        rw [← hbs, ← hr]
        have ht : a = 0 := UInt8.toNat_inj.mp (by simpa using h0)
        subst ht
        simp [Spec.skipBase]
      · rename_i hne
        obtain ⟨fee, r2, h3, h4⟩ := bind_some h2
        obtain ⟨ps, r3, h5, h6⟩ := bind_some h4
        obtain ⟨e, r4, h7, h8⟩ := bind_some h6
        obtain ⟨pk, r5, h9, h10⟩ := bind_some h8
        obtain ⟨hbs, hr⟩ := pure_some h10
        rw [← hbs, ← hr]
        have ht : ¬ a = 0 := fun h0 => hne (by rw [h0]; rfl)
        have ef := sound_varint _ _ _ h3
        have lf : tl.length = (encVarint fee).length + r2.length := by rw [ef]; simp
        have lp : r2.length = (if a.toNat = 2 then 32 * i else 0) + r3.length := by
          by_cases h2t : a.toNat = 2
          · simp only [h2t, if_true] at h5 ⊢
            exact rep_consumed key 32 (fun _ _ _ hk => takeN_consumed hk) i _ _ _ (rep_of_sized h5)
          · simp only [h2t, if_false] at h5 ⊢
            obtain ⟨_, rfl⟩ := pure_some h5; simp
        have le : r3.length = (if a.toNat ≤ 3 then 64 else 8) * o + r4.length :=
          rep_consumed (ecdh a.toNat) _ (fun _ _ _ hk => ecdh_consumed a.toNat hk) o _ _ _ h7
        have lk : r4.length = 32 * o + r5.length :=
          rep_consumed key 32 (fun _ _ _ hk => takeN_consumed hk) o _ _ _ (rep_of_sized h9)
        have hz : ¬ a.toNat = 0 := hne
        have hfl : tl.length - r2.length = (encVarint fee).length := by omega
        simp only [Spec.skipBase, ht, if_false, rdVarint_of_varint h3, hfl, hz, decide_false, List.length_cons]
        by_cases h3t : a.toNat ≤ 3
        · simp only [h3t, if_true] at le ⊢
          rw [Nat.mul_comm o 64]
          by_cases h2t : a.toNat = 2
          · simp only [h2t, if_true] at lp ⊢
            constructor
            · rw [if_pos (by omega)]; congr 2; omega
            · omega
          · simp only [h2t, if_false] at lp ⊢
            constructor
            · rw [if_pos (by omega)]; congr 2; omega
            · omega
        · simp only [h3t, if_false] at le ⊢
          rw [Nat.mul_comm o 8]
          have h2t : ¬ a.toNat = 2 := by omega
          simp only [h2t, if_false] at lp ⊢
          constructor
          · rw [if_pos (by omega)]; congr 2; omega
          · omega

/-- total length of well-formed version-1 signature rows: 64 bytes per ring member -/
theorem sigs_len : ∀ (rings : List Nat) (ss : List (List Bytes)), wfSigsV1 rings ss →
    (encSized (encSized id) ss).length = 64 * rings.sum
  | [], ss, h => by simp only [wfSigsV1] at h; subst h; simp [encSized]
  | n :: t, ss, h => by
    obtain ⟨s, rest, rfl, hl, h64, hr⟩ := h
    have ih := sigs_len t rest hr
    have hs : (encSized id s).length = 64 * n := by
      subst hl
      clear ih hr
      induction s with
      | nil => simp [encSized]
      | cons x xs ihx =>
        have hx := h64 x (by simp)
        have := ihx (fun y hy => h64 y (by simp [hy]))
        simp only [encSized, List.map_cons, List.flatten_cons, List.length_append, id, List.length_cons] at this ⊢
        omega
    simp only [encSized, List.map_cons, List.flatten_cons, List.length_append, List.sum_cons] at ih hs ⊢
    omega

theorem ringsOf_sum (ins : List TxIn) : (ringsOf ins).sum = (ins.map ringOf).sum := by
  induction ins with
  | nil => rfl
  | cons i t ih =>
    cases i with
    | gen h => simpa [ringsOf, ringOf] using ih
    | toKey a o k => simp only [ringsOf, List.filterMap_cons, List.sum_cons, List.map_cons, ringOf] at ih ⊢; omega

/-- the main statement: what the skipper returns on any accepted byte string, in terms of the parsed value -/
theorem txBounds_of_tx (b : Bytes) (t : Tx) (r : Bytes) (h : tx b = some (t, r)) :
    ∃ bd, Spec.txBounds b = some bd ∧ bd.version = t.pre.version ∧ bd.inputs = t.pre.ins.length ∧
      bd.outputs = t.pre.outs.length ∧ bd.p = (encPrefix t.pre).length ∧
      (bd.hasRct = true ↔ t.pre.version ≠ 1 ∧ t.pre.ins ≠ []) ∧
      (bd.hasRct = true → ∃ bs, t.base = some bs ∧ bd.q = (encPrefix t.pre).length + (encBase bs).length ∧
        (bd.isNull = true ↔ bs.ty = 0)) ∧
      (∀ e, bd.end? = some e → e = b.length - r.length) ∧
      (bd.end? = none ↔ bd.hasRct = true ∧ bd.isNull = false) := by
  have hs := sound_tx b t r h
  obtain ⟨hwp, hw1, hw2⟩ := decoded_wf_tx b t r h
  -- the rest after the prefix
  have hx : ∃ X, encTx t = encPrefix t.pre ++ X := ⟨_, rfl⟩
  obtain ⟨X, hX⟩ := hx
  have hb : b = encPrefix t.pre ++ (X ++ r) := by rw [hs, hX, List.append_assoc]
  have hpre : prefix' b = some (t.pre, X ++ r) := by rw [hb]; exact complete_prefix t.pre (X ++ r) hwp
  have hsk := skipPrefix_of_prefix hpre
  have hp : b.length - (X ++ r).length = (encPrefix t.pre).length := by
    rw [hb]; simp only [List.length_append]; omega
  have hbl : b.length = (encPrefix t.pre).length + X.length + r.length := by
    rw [hb]; simp only [List.length_append]; omega
  by_cases hv : t.pre.version = 1
  · obtain ⟨hsg, _, _⟩ := hw1 hv
    have hXl : X.length = 64 * (t.pre.ins.map ringOf).sum := by
      have : X = encSized (encSized id) t.sigs := by
        have := hX; simp only [encTx, hv, if_true] at this; exact (List.append_cancel_left this).symm
      rw [this, sigs_len _ _ hsg, ringsOf_sum]
    refine ⟨⟨t.pre.version, t.pre.ins.length, t.pre.outs.length, (encPrefix t.pre).length, (encPrefix t.pre).length, false, false,
      some ((encPrefix t.pre).length + 64 * (t.pre.ins.map ringOf).sum)⟩, ?_, rfl, rfl, rfl, rfl, ?_, ?_, ?_, ?_⟩
    · simp only [Spec.txBounds, hsk, hv, if_true, hp]
      rw [if_pos (by omega)]
    · simp [hv]
    · simp
    · intro e he; simp at he; omega
    · simp
  · obtain ⟨_, hn, hy⟩ := hw2 hv
    by_cases hi : t.pre.ins = []
    · obtain ⟨hbn, _⟩ := hn hi
      have hXl : X = [] := by
        have := hX; simp only [encTx, hv, if_false, hbn, List.append_nil] at this
        have h2 : encPrefix t.pre ++ [] = encPrefix t.pre ++ X := by simpa using this
        exact (List.append_cancel_left h2).symm
      have hl0 : t.pre.ins.length = 0 := by simp [hi]
      refine ⟨⟨t.pre.version, t.pre.ins.length, t.pre.outs.length, (encPrefix t.pre).length, (encPrefix t.pre).length, false, false,
        some (encPrefix t.pre).length⟩, ?_, rfl, rfl, rfl, rfl, ?_, ?_, ?_, ?_⟩
      · simp only [Spec.txBounds, hsk, hv, if_false, hp, hl0, if_true]
      · simp [hi]
      · simp
      · intro e he; simp at he; subst hXl; simp at hbl; omega
      · simp
    · obtain ⟨bs, hbs, hwb, _⟩ := hy hi
      have hXe : ∃ Y, X = encBase bs ++ Y := by
        have := hX; simp only [encTx, hv, if_false, hbs] at this
        exact ⟨_, (List.append_cancel_left this).symm⟩
      obtain ⟨Y, rfl⟩ := hXe
      have hbase : base t.pre.ins.length t.pre.outs.length (encBase bs ++ Y ++ r) = some (bs, Y ++ r) := by
        rw [List.append_assoc]; exact complete_base _ _ bs (Y ++ r) hwb
      obtain ⟨hsb, _⟩ := skipBase_of_base hbase
      have hlen : (encBase bs ++ Y ++ r).length - (Y ++ r).length = (encBase bs).length := by
        simp only [List.length_append]; omega
      rw [hlen] at hsb
      have hl0 : ¬ t.pre.ins.length = 0 := by
        intro h0; exact hi (List.eq_nil_of_length_eq_zero h0)
      refine ⟨⟨t.pre.version, t.pre.ins.length, t.pre.outs.length, (encPrefix t.pre).length,
        (encPrefix t.pre).length + (encBase bs).length, decide (bs.ty = 0), true,
        if decide (bs.ty = 0) = true then some ((encPrefix t.pre).length + (encBase bs).length) else none⟩,
        ?_, rfl, rfl, rfl, rfl, ?_, ?_, ?_, ?_⟩
      · simp only [Spec.txBounds, hsk, hv, if_false, hp, hl0, hsb]
      · simp [hv, hi]
      · intro _; exact ⟨bs, hbs, rfl, by simp⟩
      · intro e he
        by_cases h0 : bs.ty = 0
        · simp only [h0, decide_true, if_true, Option.some.injEq] at he
          have hY : Y = [] := by
            have hpn := hy hi
            obtain ⟨bs', hbs', _, hz, _⟩ := hpn
            rw [hbs] at hbs'; cases hbs'
            have hpr := hz h0
            have := hX; simp only [encTx, hv, if_false, hbs, hpr, List.append_nil] at this
            have h2 : encPrefix t.pre ++ (encBase bs ++ []) = encPrefix t.pre ++ (encBase bs ++ Y) := by simpa using this
            exact (List.append_cancel_left (List.append_cancel_left h2)).symm
          subst hY
          simp only [List.length_append, List.length_nil] at hbl
          omega
        · simp [h0] at he
      · by_cases h0 : bs.ty = 0 <;> simp [h0]
end WireSkip
