import MoneroModel.Proofs.FixedRecords
/-! Completeness (round trip) of the STRUCTURED fixed-size records of Proofs/FixedRecords.lean — `Key64` read as a loop of 64
`Key`s, `Signature { c, r }`, `BoroSig { s0, s1, ee }`, `RangeSig { asig, Ci }` read field by field — as opposed to the opaque
k-byte `takeN k` of `C02_complete_bytes`. Core Lean only. -/
namespace Monero

/-- a `Key64`: exactly 64 keys of 32 bytes -/
def wfKey64 (ks : List Bytes) : Prop := ks.length = 64 ∧ ∀ k ∈ ks, Key32 k
def wfSignatureS (x : Bytes × Bytes) : Prop := Key32 x.1 ∧ Key32 x.2
def encSignatureS (x : Bytes × Bytes) : Bytes := x.1 ++ x.2
def wfBoroS (x : List Bytes × List Bytes × Bytes) : Prop := wfKey64 x.1 ∧ wfKey64 x.2.1 ∧ Key32 x.2.2
def wfRangeSigS (x : (List Bytes × List Bytes × Bytes) × List Bytes) : Prop := wfBoroS x.1 ∧ wfKey64 x.2

theorem complete_key64S : Complete wfKey64 (encSized id) key64S := by
  intro ks r ⟨hl, hk⟩
  have := complete_rep Key32 id key complete_key ks r hk
  rw [hl] at this
  exact this

theorem complete_signatureS : Complete wfSignatureS encSignatureS signatureS := by
  intro ⟨c, s⟩ r ⟨h1, h2⟩
  simp only [signatureS, encSignatureS, List.append_assoc]
  rw [bind_eq (complete_key' c _ h1), bind_eq (complete_key' s _ h2)]; rfl

theorem complete_boroSigS : Complete wfBoroS encBoroS boroSigS := by
  intro ⟨s0, s1, ee⟩ r ⟨h0, h1, h2⟩
  simp only [boroSigS, encBoroS, List.append_assoc]
  rw [bind_eq (complete_key64S s0 _ h0), bind_eq (complete_key64S s1 _ h1), bind_eq (complete_key' ee _ h2)]; rfl

theorem complete_rangeSigS : Complete wfRangeSigS encRangeSigS rangeSigS := by
  intro ⟨a, ci⟩ r ⟨ha, hc⟩
  simp only [rangeSigS, encRangeSigS, List.append_assoc]
  rw [bind_eq (complete_boroSigS a _ ha), bind_eq (complete_key64S ci _ hc)]; rfl

/-- the structured `RangeSig` encoding is 6176 bytes: (64 + 64 + 1 + 64) × 32 -/
theorem length_encSized_keys (ks : List Bytes) (hk : ∀ k ∈ ks, Key32 k) : (encSized id ks).length = 32 * ks.length := by
  induction ks with
  | nil => rfl
  | cons k ks ih =>
    have h1 : k.length = 32 := hk k (List.mem_cons_self ..)
    have h2 := ih (fun x hx => hk x (List.mem_cons_of_mem _ hx))
    simp only [encSized, List.map_cons, List.flatten_cons, List.length_append, id, List.length_cons] at h2 ⊢
    omega

theorem length_encRangeSigS (x : (List Bytes × List Bytes × Bytes) × List Bytes) (h : wfRangeSigS x) :
    (encRangeSigS x).length = 6176 := by
  obtain ⟨⟨⟨l0, k0⟩, ⟨l1, k1⟩, he⟩, ⟨l2, k2⟩⟩ := h
  have he' : x.1.2.2.length = 32 := he
  simp only [encRangeSigS, encBoroS, List.length_append, length_encSized_keys _ k0, length_encSized_keys _ k1,
    length_encSized_keys _ k2, l0, l1, l2, he']

end Monero
