import MoneroModel.Proofs.AmountText2
/-! Assembly: `parse_signed_to_piconero` and the two `from_str_in` against `Spec.Decimal.specParse`, for every
denomination whose generated precision is `-(md)` (core Lean only). -/
namespace Monero.AmtText
open Spec.Decimal (natOfDigits digitVal splitBody splitSign literal specParse maxAmount maxLen)

/-- the generated precision table is the specification's table of decimals, negated -/
theorem precisionOf_eq (d : Denom) : precisionOf d = -((Spec.Decimal.decimals d : Nat) : Int) := by
  cases d <;> decide

theorem maxDecimals_eq (s : Bytes) (d : Denom) (md : Nat) (hp : precisionOf d = -(md : Int)) :
    maxDecimals s d = .ok (s, md) := by
  unfold maxDecimals
  rw [hp]
  have h1 : ¬ ((md : Int) < 0) := by omega
  simp only [Int.neg_neg, h1, if_false, Int.toNat_natCast]

theorem sign_split (s : Bytes) (hs : s ≠ []) :
    (splitSign s).1 = decide (s.head? = some 0x2d) ∧
    (splitSign s).2 = (if s.head? = some 0x2d then s.tail else s) := by
  cases s with
  | nil => exact absurd rfl hs
  | cons c t =>
    simp only [splitSign, List.head?_cons, Option.some.injEq, List.tail_cons]
    by_cases hc : c = 45
    · subst hc; simp
    · simp [hc]

theorem parseLoop_ok_iff' (body : Bytes) (md v f : Nat) :
    (∃ d, parseLoop body 0 none md = .ok (v, d) ∧ d.getD 0 = f) ↔
      ∃ ip fp, Lit body ip fp ∧ fp.length = f ∧ f ≤ md ∧ v = natOfDigits (ip ++ fp) ∧ v ≤ U64MAX := by
  constructor
  · rintro ⟨d, h, hd⟩
    obtain ⟨ip, fp, hl, h1, h2, h3, h4⟩ := (parseLoop_ok_iff body md v d).mp h
    refine ⟨ip, fp, hl, ?_, ?_, h2, h3⟩
    · subst h4
      by_cases hb : body = ip
      · rcases hl.2.2 with ⟨_, hf⟩ | hf
        · simp [hb] at hd; simp [hf, hd]
        · rw [hb] at hf
          have := congrArg List.length hf
          simp at this
      · simpa [hb] using hd
    · subst h4
      by_cases hb : body = ip
      · simp [hb] at hd; omega
      · simp [hb] at hd; omega
  · rintro ⟨ip, fp, hl, h1, h2, h3, h4⟩
    refine ⟨if body = ip then none else some fp.length, (parseLoop_ok_iff body md v _).mpr ⟨ip, fp, hl, by omega, h3, h4, rfl⟩, ?_⟩
    by_cases hb : body = ip
    · rcases hl.2.2 with ⟨_, hf⟩ | hf
      · simp [hb, hf] at h1 ⊢; exact h1
      · rw [hb] at hf
        have := congrArg List.length hf
        simp at this
    · simp [hb, h1]

/-- `parse_signed_to_piconero` accepts exactly: at most 50 bytes, optional `-`, non-empty body of the grammar, at most
`md` fraction digits, scaled digit value within u64 — and returns that scaled value -/
theorem parseSigned_ok_iff (s : Bytes) (d : Denom) (md : Nat) (hp : precisionOf d = -(md : Int)) (neg : Bool) (q : Nat) :
    parseSignedToPiconero s d = .ok (neg, q) ↔
      s.length ≤ 50 ∧ (splitSign s).2 ≠ [] ∧ neg = (splitSign s).1 ∧
      ∃ ip fp, Lit (splitSign s).2 ip fp ∧ fp.length ≤ md ∧
        q = natOfDigits (ip ++ fp) * 10 ^ (md - fp.length) ∧ q ≤ U64MAX := by
  unfold parseSignedToPiconero
  by_cases hs : s = []
  · subst hs; simp [splitSign]
  obtain ⟨hsg1, hsg2⟩ := sign_split s hs
  rw [hsg1, hsg2]
  simp only [hs, if_false]
  by_cases hlen : s.length > 50
  · simp only [hlen, if_true]
    constructor
    · intro h; cases h
    · intro h; omega
  simp only [hlen, if_false]
  by_cases hone : s.head? = some 0x2d ∧ s.length = 1
  · simp only [hone, and_self, if_true]
    constructor
    · intro h; cases h
    · rintro ⟨_, h, _⟩
      exfalso; apply h
      cases s with
      | nil => rfl
      | cons c t => simp at hone; simp [hone.2]
  simp only [hone, if_false]
  rw [maxDecimals_eq _ d md hp]
  simp only
  generalize hbody : (if s.head? = some 0x2d then s.tail else s) = body
  have hbne : body ≠ [] := by
    rw [← hbody]
    by_cases hh : s.head? = some 0x2d
    · simp only [hh, if_true]
      intro ht
      apply hone
      refine ⟨hh, ?_⟩
      cases s with
      | nil => exact absurd rfl hs
      | cons c t => simp at ht; simp [ht]
    · simp only [hh, if_false]; exact hs
  constructor
  · intro h
    cases hpl : parseLoop body 0 none md with
    | error e => rw [hpl] at h; cases h
    | ok r =>
      obtain ⟨v, dd⟩ := r
      rw [hpl] at h
      simp only at h
      obtain ⟨ip, fp, hl, h1, h2, h3, h4⟩ := (parseLoop_ok_iff' body md v (dd.getD 0)).mp ⟨dd, hpl, rfl⟩
      rw [rescale_spec _ _ h4] at h
      by_cases hq : v * 10 ^ (md - dd.getD 0) ≤ U64MAX
      · simp only [hq, if_true, Except.ok.injEq, Prod.mk.injEq] at h
        refine ⟨by omega, hbne, h.1.symm, ip, fp, hl, by omega, ?_, ?_⟩
        · rw [← h.2, h3, h1]
        · rw [← h.2]; exact hq
      · simp only [hq, if_false] at h; cases h
  · rintro ⟨_, _, hneg, ip, fp, hl, hmd, hq, hqle⟩
    have hN : natOfDigits (ip ++ fp) ≤ U64MAX := by
      have : 1 ≤ 10 ^ (md - fp.length) := Nat.one_le_pow _ _ (by decide)
      have : natOfDigits (ip ++ fp) * 1 ≤ natOfDigits (ip ++ fp) * 10 ^ (md - fp.length) := Nat.mul_le_mul_left _ this
      omega
    obtain ⟨dd, hpl, hdd⟩ := (parseLoop_ok_iff' body md (natOfDigits (ip ++ fp)) fp.length).mpr ⟨ip, fp, hl, rfl, hmd, rfl, hN⟩
    rw [hpl]
    simp only
    rw [rescale_spec _ _ hN, hdd]
    rw [← hq]
    simp [hqle, hneg]

end Monero.AmtText
