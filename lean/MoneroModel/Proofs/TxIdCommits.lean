import MoneroModel.Model.TxHash
import MoneroModel.Proofs.TxSound4
/-! # The transaction identifier commits to the received bytes (relative to collisions of `H` among the strings it hashes)

`hashed H t` is the finite list of byte strings that `Transaction::hash` feeds to the hash function while computing the
identifier of `t` (the model `txHash H t`, Model/TxHash.lean). `txid_commits`: two strictly parsed transactions of the same
version class with the same identifier were parsed from the same bytes, unless two DIFFERENT strings, one of `hashed H t1`
and one of `hashed H t2`, have the same hash (`H` is an arbitrary function with 32-byte outputs; Keccak-256 in the code).
The collision is between two explicit members of two explicit lists: "`H` has some collision somewhere" — which every
function into 32-byte strings has, by counting — would say nothing.  Core Lean only. -/
namespace Monero

/-- what the decoder guarantees about a parsed non-v1 transaction with at least one input: the RingCT base is
present, and the prunable part is present exactly when the type is not Null
(copy of `C05.parsed_shape`; `Props/` is not imported from `Proofs/`) -/
theorem parsed_shape' (b : Bytes) (t : Tx) (r : Bytes) (h : tx b = some (t, r)) (hv : t.pre.version ≠ 1) (hi : t.pre.ins ≠ []) :
    ∃ bs, t.base = some bs ∧ (bs.ty = 0 → t.prun = none) ∧ (bs.ty ≠ 0 → ∃ p, t.prun = some p) := by
  unfold tx at h
  obtain ⟨p, r1, h1, h2⟩ := bind_some h
  have cp := sound_prefix _ _ _ h1
  simp only at h2
  split at h2
  · rename_i hv1
    obtain ⟨s, r2, _, h4⟩ := bind_some h2
    obtain ⟨rfl, _⟩ := pure_some h4
    exact absurd hv1 hv
  · split at h2
    · rename_i hz
      obtain ⟨rfl, _⟩ := pure_some h2
      simp at hz; exact absurd hz hi
    · obtain ⟨bs, r2, h3, h4⟩ := bind_some h2
      split at h4
      · rename_i hty
        have fin : ∀ m pr r3, prunable bs.ty p.ins.length p.outs.length m r2 = some (pr, r3) →
            pure' (⟨p, [], some bs, pr⟩ : Tx) r3 = some (t, r) →
            ∃ bs', t.base = some bs' ∧ (bs'.ty = 0 → t.prun = none) ∧ (bs'.ty ≠ 0 → ∃ q, t.prun = some q) := by
          intro m pr r3 hp hq
          obtain ⟨rfl, _⟩ := pure_some hq
          rcases sound_prunable _ _ _ _ _ _ _ hp with ⟨h0, _, _⟩ | ⟨_, q, rfl, _⟩
          · exact absurd h0 hty
          · exact ⟨bs, rfl, fun h0 => absurd h0 hty, fun _ => ⟨q, rfl⟩⟩
        cases hh : p.ins.head? with
        | none =>
          simp only [hh] at h4
          obtain ⟨pr, r3, h5, h6⟩ := bind_some h4
          exact fin _ _ _ h5 h6
        | some i0 =>
          cases i0 with
          | gen g =>
            simp only [hh] at h4
            obtain ⟨pr, r3, h5, h6⟩ := bind_some h4
            exact fin _ _ _ h5 h6
          | toKey a o k =>
            simp only [hh] at h4
            split at h4
            · exact (fail_some h4).elim
            · obtain ⟨pr, r3, h5, h6⟩ := bind_some h4
              exact fin _ _ _ h5 h6
      · rename_i hty
        obtain ⟨rfl, _⟩ := pure_some h4
        exact ⟨bs, rfl, fun _ => rfl, fun h0 => absurd (by simpa using hty) h0⟩

/-- a parsed non-v1 transaction without inputs carries no RingCT base -/
theorem parsed_no_inputs (b : Bytes) (t : Tx) (r : Bytes) (h : tx b = some (t, r)) (hv : t.pre.version ≠ 1)
    (hi : t.pre.ins = []) : t.base = none := by
  unfold tx at h
  obtain ⟨p, r1, h1, h2⟩ := bind_some h
  simp only at h2
  split at h2
  · rename_i hv1
    obtain ⟨s, r2, _, h4⟩ := bind_some h2
    obtain ⟨rfl, _⟩ := pure_some h4
    exact absurd hv1 hv
  · split at h2
    · obtain ⟨rfl, _⟩ := pure_some h2
      rfl
    · rename_i hz
      have fin : ∀ (bs : Base) pr r3, pure' (⟨p, [], some bs, pr⟩ : Tx) r3 = some (t, r) → t.base = none := by
        intro bs pr r3 hq
        obtain ⟨rfl, _⟩ := pure_some hq
        exact absurd (by simp [show p.ins = [] from hi]) hz
      obtain ⟨bs, r2, h3, h4⟩ := bind_some h2
      split at h4
      · cases hh : p.ins.head? with
        | none =>
          simp only [hh] at h4
          obtain ⟨pr, r3, _, h6⟩ := bind_some h4
          exact fin _ _ _ h6
        | some i0 =>
          cases i0 with
          | gen g =>
            simp only [hh] at h4
            obtain ⟨pr, r3, _, h6⟩ := bind_some h4
            exact fin _ _ _ h6
          | toKey a o k =>
            simp only [hh] at h4
            split at h4
            · exact (fail_some h4).elim
            · obtain ⟨pr, r3, _, h6⟩ := bind_some h4
              exact fin _ _ _ h6
      · exact fin _ _ _ h4

/-- the RingCT type of a parsed transaction is one of the seven known types -/
theorem parsed_base_ty (b : Bytes) (t : Tx) (r : Bytes) (h : tx b = some (t, r)) (bs : Base) (hb : t.base = some bs) :
    bs.ty ≤ 6 := by
  unfold tx at h
  obtain ⟨p, r1, h1, h2⟩ := bind_some h
  simp only at h2
  split at h2
  · obtain ⟨s, r2, _, h4⟩ := bind_some h2
    obtain ⟨rfl, _⟩ := pure_some h4
    simp at hb
  · split at h2
    · obtain ⟨rfl, _⟩ := pure_some h2
      simp at hb
    · obtain ⟨bs', r2, h3, h4⟩ := bind_some h2
      have hle := (sound_base _ _ _ _ _ h3).2
      have fin : ∀ pr r3, pure' (⟨p, [], some bs', pr⟩ : Tx) r3 = some (t, r) → bs.ty ≤ 6 := by
        intro pr r3 hq
        obtain ⟨rfl, _⟩ := pure_some hq
        simp at hb; subst hb; exact hle
      split at h4
      · cases hh : p.ins.head? with
        | none =>
          simp only [hh] at h4
          obtain ⟨pr, r3, _, h6⟩ := bind_some h4
          exact fin _ _ h6
        | some i0 =>
          cases i0 with
          | gen g =>
            simp only [hh] at h4
            obtain ⟨pr, r3, _, h6⟩ := bind_some h4
            exact fin _ _ h6
          | toKey a o k =>
            simp only [hh] at h4
            split at h4
            · exact (fail_some h4).elim
            · obtain ⟨pr, r3, _, h6⟩ := bind_some h4
              exact fin _ _ h6
      · exact fin _ _ h4

/-- **The strings hashed while computing `txHash H t`**, in the order in which `Transaction::hash` hashes them
(transaction.rs:780-817): version 1 — the serialisation; otherwise the prefix (`TransactionPrefix::hash`), then, when a RingCT
base is present, the base (`RctSigBase::hash`) and, for a non-Null type with a prunable part, the prunable part; last the
concatenation of the 32-byte digests (1 or 3 of them; the third is 0³² for Null and a hard-coded constant for a missing
prunable part), whose hash is the identifier (`txHash_eq_hash_last`). -/
def hashed (H : Bytes → Bytes) (t : Tx) : List Bytes :=
  if t.pre.version = 1 then [encTx t] else
  match t.base with
  | none => [encPrefix t.pre, H (encPrefix t.pre)]
  | some b =>
    [encPrefix t.pre, encBase b] ++
    (if b.ty = 0 then [] else match t.prun with | some p => [encPrunable p b.ty] | none => []) ++
    [H (encPrefix t.pre) ++ (H (encBase b) ++
      (if b.ty = 0 then zeroHash else match t.prun with | some p => H (encPrunable p b.ty) | none => Gen.emptyPrunableHash))]

/-- the identifier is the hash of the LAST string of `hashed H t` … -/
theorem txHash_eq_hash_last (H : Bytes → Bytes) (t : Tx) :
    ∃ u, (hashed H t).getLast? = some u ∧ txHash H t = H u := by
  unfold hashed txHash
  by_cases hv : t.pre.version = 1
  · simp [hv]
  · cases hb : t.base with
    | none => simp [hv, prefixHash]
    | some b =>
      by_cases h0 : b.ty = 0
      · simp [hv, prefixHash, h0]
      · cases t.prun <;> simp [hv, prefixHash, h0]

/-- … and, when the version is not 1, that last string is the concatenation of the digests of the strings before it, in order
(followed by 0³² for the Null type, where nothing else is hashed) — for every transaction that carries a prunable part exactly
when its type is not Null (every parsed one: `parsed_shape'`) -/
theorem hashed_last_is_digests (H : Bytes → Bytes) (t : Tx) (hv : t.pre.version ≠ 1)
    (hp : ∀ b, t.base = some b → b.ty ≠ 0 → t.prun ≠ none) :
    ∃ u, (hashed H t).getLast? = some u ∧
      u = (((hashed H t).dropLast).map H).flatten ++
        (match t.base with | some b => if b.ty = 0 then zeroHash else [] | none => []) := by
  unfold hashed
  cases hb : t.base with
  | none => simp [hv]
  | some b =>
    by_cases h0 : b.ty = 0
    · simp [hv, h0]
    · cases hq : t.prun with
      | none => exact absurd hq (hp b hb h0)
      | some p => simp [hv, h0]

/-- normal form of (received bytes, identifier, hashed strings) of a strictly parsed non-v1 transaction: either
`b = prefix`, `id = H (H prefix)`, or `b = prefix ‖ base ‖ X`, `id = H (H prefix ‖ H base ‖ Y)` with
`X = []`, `Y = 0^32` for the Null type and `Y = H X` otherwise -/
def IdShape (H : Bytes → Bytes) (b id : Bytes) (L : List Bytes) : Prop :=
  (∃ e, b = e ∧ id = H (H e) ∧ L = [e, H e]) ∨
  ∃ e bs X Y, b = e ++ (encBase bs ++ X) ∧ id = H (H e ++ (H (encBase bs) ++ Y)) ∧ bs.ty ≤ 6 ∧
    ((bs.ty = 0 ∧ X = [] ∧ Y = zeroHash ∧ L = [e, encBase bs, H e ++ (H (encBase bs) ++ Y)]) ∨
     (bs.ty ≠ 0 ∧ Y = H X ∧ L = [e, encBase bs, X, H e ++ (H (encBase bs) ++ Y)]))

theorem parsed_idShape (H : Bytes → Bytes) (b : Bytes) (t : Tx) (h : tx b = some (t, [])) (hv : t.pre.version ≠ 1) :
    IdShape H b (txHash H t) (hashed H t) := by
  have hs := sound_tx b t [] h
  simp only [List.append_nil] at hs
  by_cases hi : t.pre.ins = []
  · have hb := parsed_no_inputs b t [] h hv hi
    refine Or.inl ⟨encPrefix t.pre, ?_, ?_, ?_⟩
    · rw [hs]; simp [encTx, hv, hb]
    · simp [txHash, hv, hb, prefixHash]
    · simp [hashed, hv, hb]
  · obtain ⟨bs, hb, hz, hnz⟩ := parsed_shape' b t [] h hv hi
    have hle := parsed_base_ty b t [] h bs hb
    by_cases hty : bs.ty = 0
    · have hp := hz hty
      refine Or.inr ⟨encPrefix t.pre, bs, [], zeroHash, ?_, ?_, hle, Or.inl ⟨hty, rfl, rfl, ?_⟩⟩
      · rw [hs]; simp [encTx, hv, hb, hp]
      · simp [txHash, hv, hb, hty, prefixHash]
      · simp [hashed, hv, hb, hty]
    · obtain ⟨p, hp⟩ := hnz hty
      refine Or.inr ⟨encPrefix t.pre, bs, encPrunable p bs.ty, H (encPrunable p bs.ty), ?_, ?_, hle, Or.inr ⟨hty, rfl, ?_⟩⟩
      · rw [hs]; simp [encTx, hv, hb, hp]
      · simp [txHash, hv, hb, hty, hp, prefixHash]
      · simp [hashed, hv, hb, hty, hp]

theorem ofNat_inj_le6 (a c : Nat) (ha : a ≤ 6) (hc : c ≤ 6) (h : UInt8.ofNat a = UInt8.ofNat c) : a = c := by
  have := congrArg UInt8.toNat h
  simp at this
  omega

theorem encBase_ty (b1 b2 : Base) (h1 : b1.ty ≤ 6) (h2 : b2.ty ≤ 6) (h : encBase b1 = encBase b2) : b1.ty = b2.ty := by
  unfold encBase at h
  exact ofNat_inj_le6 _ _ h1 h2 (List.cons.inj h).1

theorem zeroHash_length : zeroHash.length = 32 := by simp [zeroHash]

/-- a collision of `H` between a string of `L1` and a string of `L2` -/
def CollisionBetween (H : Bytes → Bytes) (L1 L2 : List Bytes) : Prop :=
  ∃ u, u ∈ L1 ∧ ∃ v, v ∈ L2 ∧ u ≠ v ∧ H u = H v

/-- two byte strings in normal form with the same identifier are equal, or `H` collides on two of the hashed strings -/
theorem idShape_commits (H : Bytes → Bytes) (hlen : ∀ x, (H x).length = 32) (b1 b2 id : Bytes) (L1 L2 : List Bytes)
    (s1 : IdShape H b1 id L1) (s2 : IdShape H b2 id L2) :
    b1 = b2 ∨ CollisionBetween H L1 L2 := by
  unfold CollisionBetween
  rcases s1 with ⟨e1, rfl, i1, rfl⟩ | ⟨e1, bs1, X1, Y1, rfl, i1, l1, c1⟩
  · rcases s2 with ⟨e2, rfl, i2, rfl⟩ | ⟨e2, bs2, X2, Y2, rfl, i2, l2, c2⟩
    · -- no base / no base
      by_cases ho : H b1 = H b2
      · by_cases he : b1 = b2
        · exact Or.inl he
        · exact Or.inr ⟨b1, by simp, b2, by simp, he, ho⟩
      · exact Or.inr ⟨H b1, by simp, H b2, by simp, ho, i1.symm.trans i2⟩
    · -- no base / base: the last hashed strings have lengths 32 and 96
      have hne : H b1 ≠ H e2 ++ (H (encBase bs2) ++ Y2) := by
        intro he
        have := congrArg List.length he
        simp [hlen] at this
      refine Or.inr ⟨H b1, by simp, H e2 ++ (H (encBase bs2) ++ Y2), ?_, hne, i1.symm.trans i2⟩
      rcases c2 with ⟨_, _, _, rfl⟩ | ⟨_, _, rfl⟩ <;> simp
  · rcases s2 with ⟨e2, rfl, i2, rfl⟩ | ⟨e2, bs2, X2, Y2, rfl, i2, l2, c2⟩
    · have hne : H e1 ++ (H (encBase bs1) ++ Y1) ≠ H b2 := by
        intro he
        have := congrArg List.length he
        simp [hlen] at this
      refine Or.inr ⟨H e1 ++ (H (encBase bs1) ++ Y1), ?_, H b2, by simp, hne, i1.symm.trans i2⟩
      rcases c1 with ⟨_, _, _, rfl⟩ | ⟨_, _, rfl⟩ <;> simp
    · -- base / base
      have m1 : e1 ∈ L1 ∧ encBase bs1 ∈ L1 ∧ H e1 ++ (H (encBase bs1) ++ Y1) ∈ L1 := by
        rcases c1 with ⟨_, _, _, rfl⟩ | ⟨_, _, rfl⟩ <;> simp
      have m2 : e2 ∈ L2 ∧ encBase bs2 ∈ L2 ∧ H e2 ++ (H (encBase bs2) ++ Y2) ∈ L2 := by
        rcases c2 with ⟨_, _, _, rfl⟩ | ⟨_, _, rfl⟩ <;> simp
      by_cases ho : H e1 ++ (H (encBase bs1) ++ Y1) = H e2 ++ (H (encBase bs2) ++ Y2)
      · obtain ⟨ha, hr⟩ := List.append_inj ho (by rw [hlen, hlen])
        obtain ⟨hbq, hy⟩ := List.append_inj hr (by rw [hlen, hlen])
        by_cases he : e1 = e2
        · by_cases hbe : encBase bs1 = encBase bs2
          · have hty := encBase_ty bs1 bs2 l1 l2 hbe
            rcases c1 with ⟨z1, rfl, rfl, rfl⟩ | ⟨n1, rfl, rfl⟩
            · rcases c2 with ⟨_, rfl, rfl, rfl⟩ | ⟨n2, _, _⟩
              · exact Or.inl (by rw [he, hbe])
              · exact absurd (hty ▸ z1) n2
            · rcases c2 with ⟨z2, _, _, _⟩ | ⟨n2, rfl, rfl⟩
              · exact absurd (hty ▸ z2) n1
              · by_cases hx : X1 = X2
                · exact Or.inl (by rw [he, hbe, hx])
                · exact Or.inr ⟨X1, by simp, X2, by simp, hx, hy⟩
          · exact Or.inr ⟨_, m1.2.1, _, m2.2.1, hbe, hbq⟩
        · exact Or.inr ⟨_, m1.1, _, m2.1, he, ha⟩
      · exact Or.inr ⟨_, m1.2.2, _, m2.2.2, ho, i1.symm.trans i2⟩

/-- two strictly parsed transactions of the same version class with equal identifiers were parsed from the same bytes, or
two different strings — one hashed for the first identifier, one hashed for the second — have the same hash -/
theorem txid_commits (H : Bytes → Bytes) (hlen : ∀ x, (H x).length = 32) (b1 b2 : Bytes) (t1 t2 : Tx)
    (h1 : tx b1 = some (t1, [])) (h2 : tx b2 = some (t2, []))
    (hv : t1.pre.version = 1 ↔ t2.pre.version = 1)
    (hid : txHash H t1 = txHash H t2) :
    b1 = b2 ∨ CollisionBetween H (hashed H t1) (hashed H t2) := by
  by_cases hv1 : t1.pre.version = 1
  · have hv2 := hv.mp hv1
    have e1 := sound_tx _ _ _ h1
    have e2 := sound_tx _ _ _ h2
    simp only [List.append_nil] at e1 e2
    simp only [txHash, hv1, hv2, if_true] at hid
    by_cases he : encTx t1 = encTx t2
    · exact Or.inl (by rw [e1, e2, he])
    · exact Or.inr ⟨encTx t1, by simp [hashed, hv1], encTx t2, by simp [hashed, hv2], he, hid⟩
  · have hv2 : ¬ t2.pre.version = 1 := fun h => hv1 (hv.mpr h)
    exact idShape_commits H hlen b1 b2 (txHash H t2) _ _ (hid ▸ parsed_idShape H b1 t1 h1 hv1)
      (parsed_idShape H b2 t2 h2 hv2)

/-- the same without the hypothesis on the versions: the only further possibility is that the SERIALISATION of the version-1
transaction is itself the 32- or 96-byte digest string hashed last for the other one (version-1 and RingCT identifiers are not
domain-separated) -/
theorem txid_commits_any_version (H : Bytes → Bytes) (hlen : ∀ x, (H x).length = 32) (b1 b2 : Bytes) (t1 t2 : Tx)
    (h1 : tx b1 = some (t1, [])) (h2 : tx b2 = some (t2, []))
    (hid : txHash H t1 = txHash H t2) :
    b1 = b2 ∨ CollisionBetween H (hashed H t1) (hashed H t2) ∨
      (t1.pre.version = 1 ∧ t2.pre.version ≠ 1 ∧ (hashed H t2).getLast? = some b1) ∨
      (t2.pre.version = 1 ∧ t1.pre.version ≠ 1 ∧ (hashed H t1).getLast? = some b2) := by
  by_cases hv : t1.pre.version = 1 ↔ t2.pre.version = 1
  · rcases txid_commits H hlen b1 b2 t1 t2 h1 h2 hv hid with h | h
    · exact Or.inl h
    · exact Or.inr (Or.inl h)
  · have e1 := sound_tx _ _ _ h1
    have e2 := sound_tx _ _ _ h2
    simp only [List.append_nil] at e1 e2
    obtain ⟨u1, l1, q1⟩ := txHash_eq_hash_last H t1
    obtain ⟨u2, l2, q2⟩ := txHash_eq_hash_last H t2
    have hh : H u1 = H u2 := by rw [← q1, ← q2, hid]
    by_cases hu : u1 = u2
    · by_cases hv1 : t1.pre.version = 1
      · have hv2 : t2.pre.version ≠ 1 := fun h => hv ⟨fun _ => h, fun _ => hv1⟩
        have : u1 = encTx t1 := by simp [hashed, hv1] at l1; exact l1.symm
        exact Or.inr (Or.inr (Or.inl ⟨hv1, hv2, by rw [l2, ← hu, this, e1]⟩))
      · have hv2 : t2.pre.version = 1 := Classical.byContradiction fun h => hv ⟨fun h' => absurd h' hv1, fun h' => absurd h' h⟩
        have : u2 = encTx t2 := by simp [hashed, hv2] at l2; exact l2.symm
        exact Or.inr (Or.inr (Or.inr ⟨hv2, hv1, by rw [l1, hu, this, e2]⟩))
    · exact Or.inr (Or.inl ⟨u1, List.mem_of_getLast? l1, u2, List.mem_of_getLast? l2, hu, hh⟩)

/-- a 32-byte-valued function without collisions on the strings below (length byte, then the first 31 bytes, zero-padded) -/
def toyH (x : Bytes) : Bytes := UInt8.ofNat x.length :: ((x ++ List.replicate 31 0).take 31)

/- non-vacuity 1: the hypotheses are jointly satisfiable (a Null-type coinbase transaction, constant `H`) -/
example : ∃ (H : Bytes → Bytes) (b1 b2 : Bytes) (t1 t2 : Tx), (∀ x, (H x).length = 32) ∧
    tx b1 = some (t1, []) ∧ tx b2 = some (t2, []) ∧ (t1.pre.version = 1 ↔ t2.pre.version = 1) ∧
    txHash H t1 = txHash H t2 :=
  ⟨fun _ => List.replicate 32 0, [2, 0, 1, 0xff, 5, 0, 0, 0], [2, 0, 1, 0xff, 5, 0, 0, 0],
   ⟨⟨2, 0, [.gen 5], [], []⟩, [], some ⟨0, 0, [], [], []⟩, none⟩,
   ⟨⟨2, 0, [.gen 5], [], []⟩, [], some ⟨0, 0, [], [], []⟩, none⟩,
   fun _ => by simp, by rfl, by rfl, Iff.rfl, rfl⟩

theorem toyH_length (x : Bytes) : (toyH x).length = 32 := by
  simp [toyH, List.length_take]

/- non-vacuity 2: the conclusion is NOT a consequence of `hlen` alone — for `toyH` and two different accepted byte strings
(coinbase transactions at heights 5 and 6) the second disjunct is false (no string hashed for the one identifier collides with a
different string hashed for the other), so the theorem forces the identifiers to differ — and they do -/
example : ∃ (b1 b2 : Bytes) (t1 t2 : Tx), tx b1 = some (t1, []) ∧ tx b2 = some (t2, []) ∧
    (t1.pre.version = 1 ↔ t2.pre.version = 1) ∧ b1 ≠ b2 ∧ ¬ CollisionBetween toyH (hashed toyH t1) (hashed toyH t2) ∧
    txHash toyH t1 ≠ txHash toyH t2 := by
  refine ⟨[2, 0, 1, 0xff, 5, 0, 0, 0], [2, 0, 1, 0xff, 6, 0, 0, 0],
    ⟨⟨2, 0, [.gen 5], [], []⟩, [], some ⟨0, 0, [], [], []⟩, none⟩,
    ⟨⟨2, 0, [.gen 6], [], []⟩, [], some ⟨0, 0, [], [], []⟩, none⟩, by rfl, by rfl, by decide, by decide, ?_, ?_⟩
  · have : ∀ u ∈ hashed toyH ⟨⟨2, 0, [.gen 5], [], []⟩, [], some ⟨0, 0, [], [], []⟩, none⟩,
        ∀ v ∈ hashed toyH ⟨⟨2, 0, [.gen 6], [], []⟩, [], some ⟨0, 0, [], [], []⟩, none⟩, toyH u = toyH v → u = v := by
      decide +kernel
    rintro ⟨u, hu, v, hv, hne, he⟩
    exact hne (this u hu v hv he)
  · decide +kernel
end Monero
