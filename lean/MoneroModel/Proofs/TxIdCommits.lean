import MoneroModel.Model.TxHash
import MoneroModel.Proofs.TxSound4
/-! # The transaction identifier commits to the received bytes (relative to collisions of `H`)

`txid_commits`: two strictly parsed transactions of the same version class with the same identifier were parsed
from the same bytes, unless the equality of identifiers exhibits a collision of the hash function `H`
(an arbitrary function with 32-byte outputs; Keccak-256 in the code).  Core Lean only. -/
namespace Monero

/-- what the decoder guarantees about a parsed non-v1 transaction with at least one input: the RingCT base is
present, and the prunable part is present exactly when the type is not Null
(copy of `C05.parsed_shape`; `Props/` is not imported from `Proofs/`) -/
theorem parsed_shape' (b : Bytes) (t : Tx) (r : Bytes) (h : tx b = some (t, r)) (hv : t.pre.version ≠ 1) (hi : t.pre.ins ≠ []) :
    ∃ bs, t.base = some bs ∧ (bs.ty = 0 → t.prun = none) ∧ (bs.ty ≠ 0 → ∃ p, t.prun = some p) := by
  unfold tx at h
  obtain ⟨p, r1, h1, h2⟩ := bind_some h
  have cp := sound_prefix _ _ _ h1
  simp only at h2
  split at h2
  · rename_i hv1
    obtain ⟨s, r2, _, h4⟩ := bind_some h2
    obtain ⟨rfl, _⟩ := pure_some h4
    exact absurd hv1 hv
  · split at h2
    · rename_i hz
      obtain ⟨rfl, _⟩ := pure_some h2
      simp at hz; exact absurd hz hi
    · obtain ⟨bs, r2, h3, h4⟩ := bind_some h2
      split at h4
      · rename_i hty
        have fin : ∀ m pr r3, prunable bs.ty p.ins.length p.outs.length m r2 = some (pr, r3) →
            pure' (⟨p, [], some bs, pr⟩ : Tx) r3 = some (t, r) →
            ∃ bs', t.base = some bs' ∧ (bs'.ty = 0 → t.prun = none) ∧ (bs'.ty ≠ 0 → ∃ q, t.prun = some q) := by
          intro m pr r3 hp hq
          obtain ⟨rfl, _⟩ := pure_some hq
          rcases sound_prunable _ _ _ _ _ _ _ hp with ⟨h0, _, _⟩ | ⟨_, q, rfl, _⟩
          · exact absurd h0 hty
          · exact ⟨bs, rfl, fun h0 => absurd h0 hty, fun _ => ⟨q, rfl⟩⟩
        cases hh : p.ins.head? with
        | none =>
          simp only [hh] at h4
          obtain ⟨pr, r3, h5, h6⟩ := bind_some h4
          exact fin _ _ _ h5 h6
        | some i0 =>
          cases i0 with
          | gen g =>
            simp only [hh] at h4
            obtain ⟨pr, r3, h5, h6⟩ := bind_some h4
            exact fin _ _ _ h5 h6
          | toKey a o k =>
            simp only [hh] at h4
            split at h4
            · exact (fail_some h4).elim
            · obtain ⟨pr, r3, h5, h6⟩ := bind_some h4
              exact fin _ _ _ h5 h6
      · rename_i hty
        obtain ⟨rfl, _⟩ := pure_some h4
        exact ⟨bs, rfl, fun _ => rfl, fun h0 => absurd (by simpa using hty) h0⟩

/-- a parsed non-v1 transaction without inputs carries no RingCT base -/
theorem parsed_no_inputs (b : Bytes) (t : Tx) (r : Bytes) (h : tx b = some (t, r)) (hv : t.pre.version ≠ 1)
    (hi : t.pre.ins = []) : t.base = none := by
  unfold tx at h
  obtain ⟨p, r1, h1, h2⟩ := bind_some h
  simp only at h2
  split at h2
  · rename_i hv1
    obtain ⟨s, r2, _, h4⟩ := bind_some h2
    obtain ⟨rfl, _⟩ := pure_some h4
    exact absurd hv1 hv
  · split at h2
    · obtain ⟨rfl, _⟩ := pure_some h2
      rfl
    · rename_i hz
      have fin : ∀ (bs : Base) pr r3, pure' (⟨p, [], some bs, pr⟩ : Tx) r3 = some (t, r) → t.base = none := by
        intro bs pr r3 hq
        obtain ⟨rfl, _⟩ := pure_some hq
        exact absurd (by simp [show p.ins = [] from hi]) hz
      obtain ⟨bs, r2, h3, h4⟩ := bind_some h2
      split at h4
      · cases hh : p.ins.head? with
        | none =>
          simp only [hh] at h4
          obtain ⟨pr, r3, _, h6⟩ := bind_some h4
          exact fin _ _ _ h6
        | some i0 =>
          cases i0 with
          | gen g =>
            simp only [hh] at h4
            obtain ⟨pr, r3, _, h6⟩ := bind_some h4
            exact fin _ _ _ h6
          | toKey a o k =>
            simp only [hh] at h4
            split at h4
            · exact (fail_some h4).elim
            · obtain ⟨pr, r3, _, h6⟩ := bind_some h4
              exact fin _ _ _ h6
      · exact fin _ _ _ h4

/-- the RingCT type of a parsed transaction is one of the seven known types -/
theorem parsed_base_ty (b : Bytes) (t : Tx) (r : Bytes) (h : tx b = some (t, r)) (bs : Base) (hb : t.base = some bs) :
    bs.ty ≤ 6 := by
  unfold tx at h
  obtain ⟨p, r1, h1, h2⟩ := bind_some h
  simp only at h2
  split at h2
  · obtain ⟨s, r2, _, h4⟩ := bind_some h2
    obtain ⟨rfl, _⟩ := pure_some h4
    simp at hb
  · split at h2
    · obtain ⟨rfl, _⟩ := pure_some h2
      simp at hb
    · obtain ⟨bs', r2, h3, h4⟩ := bind_some h2
      have hle := (sound_base _ _ _ _ _ h3).2
      have fin : ∀ pr r3, pure' (⟨p, [], some bs', pr⟩ : Tx) r3 = some (t, r) → bs.ty ≤ 6 := by
        intro pr r3 hq
        obtain ⟨rfl, _⟩ := pure_some hq
        simp at hb; subst hb; exact hle
      split at h4
      · cases hh : p.ins.head? with
        | none =>
          simp only [hh] at h4
          obtain ⟨pr, r3, _, h6⟩ := bind_some h4
          exact fin _ _ h6
        | some i0 =>
          cases i0 with
          | gen g =>
            simp only [hh] at h4
            obtain ⟨pr, r3, _, h6⟩ := bind_some h4
            exact fin _ _ h6
          | toKey a o k =>
            simp only [hh] at h4
            split at h4
            · exact (fail_some h4).elim
            · obtain ⟨pr, r3, _, h6⟩ := bind_some h4
              exact fin _ _ h6
      · exact fin _ _ h4

/-- normal form of (received bytes, identifier) of a strictly parsed non-v1 transaction: either
`b = prefix`, `id = H (H prefix)`, or `b = prefix ‖ base ‖ X`, `id = H (H prefix ‖ H base ‖ Y)` with
`X = []`, `Y = 0^32` for the Null type and `Y = H X` otherwise -/
def IdShape (H : Bytes → Bytes) (b id : Bytes) : Prop :=
  (∃ e, b = e ∧ id = H (H e)) ∨
  ∃ e bs X Y, b = e ++ (encBase bs ++ X) ∧ id = H (H e ++ (H (encBase bs) ++ Y)) ∧ bs.ty ≤ 6 ∧
    ((bs.ty = 0 ∧ X = [] ∧ Y = zeroHash) ∨ (bs.ty ≠ 0 ∧ Y = H X))

theorem parsed_idShape (H : Bytes → Bytes) (b : Bytes) (t : Tx) (h : tx b = some (t, [])) (hv : t.pre.version ≠ 1) :
    IdShape H b (txHash H t) := by
  have hs := sound_tx b t [] h
  simp only [List.append_nil] at hs
  by_cases hi : t.pre.ins = []
  · have hb := parsed_no_inputs b t [] h hv hi
    refine Or.inl ⟨encPrefix t.pre, ?_, ?_⟩
    · rw [hs]; simp [encTx, hv, hb]
    · simp [txHash, hv, hb, prefixHash]
  · obtain ⟨bs, hb, hz, hnz⟩ := parsed_shape' b t [] h hv hi
    have hle := parsed_base_ty b t [] h bs hb
    by_cases hty : bs.ty = 0
    · have hp := hz hty
      refine Or.inr ⟨encPrefix t.pre, bs, [], zeroHash, ?_, ?_, hle, Or.inl ⟨hty, rfl, rfl⟩⟩
      · rw [hs]; simp [encTx, hv, hb, hp]
      · simp [txHash, hv, hb, hty, prefixHash]
    · obtain ⟨p, hp⟩ := hnz hty
      refine Or.inr ⟨encPrefix t.pre, bs, encPrunable p bs.ty, H (encPrunable p bs.ty), ?_, ?_, hle, Or.inr ⟨hty, rfl⟩⟩
      · rw [hs]; simp [encTx, hv, hb, hp]
      · simp [txHash, hv, hb, hty, hp, prefixHash]

theorem ofNat_inj_le6 (a c : Nat) (ha : a ≤ 6) (hc : c ≤ 6) (h : UInt8.ofNat a = UInt8.ofNat c) : a = c := by
  have := congrArg UInt8.toNat h
  simp at this
  omega

theorem encBase_ty (b1 b2 : Base) (h1 : b1.ty ≤ 6) (h2 : b2.ty ≤ 6) (h : encBase b1 = encBase b2) : b1.ty = b2.ty := by
  unfold encBase at h
  exact ofNat_inj_le6 _ _ h1 h2 (List.cons.inj h).1

theorem zeroHash_length : zeroHash.length = 32 := by simp [zeroHash]

/-- two byte strings in normal form with the same identifier are equal, or `H` has a collision -/
theorem idShape_commits (H : Bytes → Bytes) (hlen : ∀ x, (H x).length = 32) (b1 b2 id : Bytes)
    (s1 : IdShape H b1 id) (s2 : IdShape H b2 id) :
    b1 = b2 ∨ ∃ u v, u ≠ v ∧ H u = H v := by
  rcases s1 with ⟨e1, rfl, i1⟩ | ⟨e1, bs1, X1, Y1, rfl, i1, l1, c1⟩
  · rcases s2 with ⟨e2, rfl, i2⟩ | ⟨e2, bs2, X2, Y2, rfl, i2, l2, c2⟩
    · -- no base / no base
      by_cases ho : H b1 = H b2
      · by_cases he : b1 = b2
        · exact Or.inl he
        · exact Or.inr ⟨_, _, he, ho⟩
      · exact Or.inr ⟨_, _, ho, i1.symm.trans i2⟩
    · -- no base / base: the hashed strings have lengths 32 and 96
      refine Or.inr ⟨_, _, ?_, i1.symm.trans i2⟩
      intro he
      have := congrArg List.length he
      simp [hlen] at this
  · rcases s2 with ⟨e2, rfl, i2⟩ | ⟨e2, bs2, X2, Y2, rfl, i2, l2, c2⟩
    · refine Or.inr ⟨_, _, ?_, i1.symm.trans i2⟩
      intro he
      have := congrArg List.length he
      simp [hlen] at this
    · -- base / base
      by_cases ho : H e1 ++ (H (encBase bs1) ++ Y1) = H e2 ++ (H (encBase bs2) ++ Y2)
      · obtain ⟨ha, hr⟩ := List.append_inj ho (by rw [hlen, hlen])
        obtain ⟨hbq, hy⟩ := List.append_inj hr (by rw [hlen, hlen])
        by_cases he : e1 = e2
        · by_cases hbe : encBase bs1 = encBase bs2
          · have hty := encBase_ty bs1 bs2 l1 l2 hbe
            rcases c1 with ⟨z1, rfl, rfl⟩ | ⟨n1, rfl⟩
            · rcases c2 with ⟨_, rfl, rfl⟩ | ⟨n2, _⟩
              · exact Or.inl (by rw [he, hbe])
              · exact absurd (hty ▸ z1) n2
            · rcases c2 with ⟨z2, _, _⟩ | ⟨n2, rfl⟩
              · exact absurd (hty ▸ z2) n1
              · by_cases hx : X1 = X2
                · exact Or.inl (by rw [he, hbe, hx])
                · exact Or.inr ⟨_, _, hx, hy⟩
          · exact Or.inr ⟨_, _, hbe, hbq⟩
        · exact Or.inr ⟨_, _, he, ha⟩
      · exact Or.inr ⟨_, _, ho, i1.symm.trans i2⟩

/-- two strictly parsed transactions of the same version class with equal identifiers were parsed from the same bytes, or the
equality exhibits a collision of `H` -/
theorem txid_commits (H : Bytes → Bytes) (hlen : ∀ x, (H x).length = 32) (b1 b2 : Bytes) (t1 t2 : Tx)
    (h1 : tx b1 = some (t1, [])) (h2 : tx b2 = some (t2, []))
    (hv : t1.pre.version = 1 ↔ t2.pre.version = 1)
    (hid : txHash H t1 = txHash H t2) :
    b1 = b2 ∨ ∃ u v, u ≠ v ∧ H u = H v := by
  by_cases hv1 : t1.pre.version = 1
  · have hv2 := hv.mp hv1
    have e1 := sound_tx _ _ _ h1
    have e2 := sound_tx _ _ _ h2
    simp only [List.append_nil] at e1 e2
    simp only [txHash, hv1, hv2, if_true] at hid
    by_cases he : encTx t1 = encTx t2
    · exact Or.inl (by rw [e1, e2, he])
    · exact Or.inr ⟨_, _, he, hid⟩
  · have hv2 : ¬ t2.pre.version = 1 := fun h => hv1 (hv.mpr h)
    exact idShape_commits H hlen b1 b2 (txHash H t2) (hid ▸ parsed_idShape H b1 t1 h1 hv1)
      (parsed_idShape H b2 t2 h2 hv2)

/- non-vacuity: the hypotheses are jointly satisfiable (a Null-type coinbase transaction, constant `H`) -/
example : ∃ (H : Bytes → Bytes) (b1 b2 : Bytes) (t1 t2 : Tx), (∀ x, (H x).length = 32) ∧
    tx b1 = some (t1, []) ∧ tx b2 = some (t2, []) ∧ (t1.pre.version = 1 ↔ t2.pre.version = 1) ∧
    txHash H t1 = txHash H t2 :=
  ⟨fun _ => List.replicate 32 0, [2, 0, 1, 0xff, 5, 0, 0, 0], [2, 0, 1, 0xff, 5, 0, 0, 0],
   ⟨⟨2, 0, [.gen 5], [], []⟩, [], some ⟨0, 0, [], [], []⟩, none⟩,
   ⟨⟨2, 0, [.gen 5], [], []⟩, [], some ⟨0, 0, [], [], []⟩, none⟩,
   fun _ => by simp, by rfl, by rfl, Iff.rfl, rfl⟩
end Monero
