import MoneroModel.Proofs.TxIdCommits
import MoneroModel.Proofs.TreeHash3
import MoneroModel.Proofs.TxDecodedWF
import MoneroModel.Proofs.VarIntSpec
/-! # The block identifier commits to the received bytes (relative to collisions of `H` among the strings it hashes)

Counterpart of `TxIdCommits.lean` for `Block::id` (block.rs:93-141, model `TreeHash.blockId`).  `H` is an arbitrary function
with 32-byte outputs (Keccak-256 in the code); the two constants of the block-202612 substitution are arbitrary parameters.

* `hashedBlock H x` is the finite list of the strings to which `H` is applied while computing the identifier of the block `x`:
  `hashed H x.miner` (TxIdCommits.lean), the node pairs `treeNodes H (txHash H x.miner :: x.hashes)` of the transaction tree
  (`treeNodes` is the trace component of `treeSpecTr`, a copy of `Spec.TreeHash.treeSpec` that records every argument of `H`;
  `treeSpecTr_fst`: its value component is `treeSpec`; `treeHash_eq_treeSpec`: `treeSpec` is what the model of `tree_hash`
  returns), and last `blockPre H x` = `varint(|blob|) ‖ blob` (`parsed_blockId`).
* `blockid_level1`: equal identifiers of two parsed blocks give equal header bytes, roots and counts, or an explicit collision
  between the two last strings, or the substitution case (raw hashes `correct` and `existing`).
* `treeSpec_inj` / `treeHash_inj`: Merkle injectivity for leaf lists of the same length with 32-byte members, relative to
  collisions between `treeNodes H l1` and `treeNodes H l2`.
* `blockid_commits`: two strictly parsed blocks (miner transactions of the same version class) with equal identifiers were parsed
  from the same bytes, or two DIFFERENT strings, one of `hashedBlock H x1` and one of `hashedBlock H x2`, have the same hash, or the
  substitution case.  `blockid_commits_any_version` drops the hypothesis on the versions at the price of the two extra
  disjuncts of `txid_commits_any_version`.
The bound `count ≤ 2^28` needed by `treeHash_eq_treeSpec` comes from parsing (`parsed_block_count`), it is not a hypothesis.
Nothing is claimed about blocks that were not produced by the decoder, nor about Keccak.  Core Lean only. -/
namespace Monero
namespace TreeHash
open Spec.TreeHash

/-! ## Level 1: the last hash -/

/-- the string whose hash is the raw block identifier: `varint(|blob|) ‖ blob`, `blob = header ‖ root ‖ varint(n + 1)`
(what `blockIdOf` applies `H` to, `blockIdOf_eq`) -/
def blockIdPre (hdr root : Bytes) (n : Nat) : Bytes := encVarint (blobOf hdr root n).length ++ blobOf hdr root n

theorem blockIdOf_eq (H : Bytes → Bytes) (correct existing hdr root : Bytes) (n : Nat) :
    blockIdOf H correct existing (blobOf hdr root n) =
      if H (blockIdPre hdr root n) = correct then existing else H (blockIdPre hdr root n) := rfl

theorem encVarint_prefix_free (n m : Nat) (r r' : Bytes) (h : encVarint n ++ r = encVarint m ++ r') : n = m := by
  rw [encVarint_eq_leb128, encVarint_eq_leb128] at h
  exact VarIntSpec.leb128_prefix_free n m r r' h

/-- header encodings are prefix-free on well-formed headers -/
theorem encHeader_prefix_free (h1 h2 : Header) (w1 : wfHeader h1) (w2 : wfHeader h2) (r1 r2 : Bytes)
    (h : encHeader h1 ++ r1 = encHeader h2 ++ r2) : h1 = h2 ∧ r1 = r2 := by
  have c1 := complete_header h1 r1 w1
  have c2 := complete_header h2 r2 w2
  rw [h, c2] at c1
  simp only [Option.some.injEq, Prod.mk.injEq] at c1
  exact ⟨c1.1.symm, c1.2.symm⟩

/-- the pre-image of the raw identifier determines header, root and count (well-formed headers, 32-byte roots) -/
theorem blockIdPre_inj (h1 h2 : Header) (w1 : wfHeader h1) (w2 : wfHeader h2) (r1 r2 : Bytes)
    (l1 : r1.length = 32) (l2 : r2.length = 32) (n1 n2 : Nat)
    (h : blockIdPre (encHeader h1) r1 n1 = blockIdPre (encHeader h2) r2 n2) : h1 = h2 ∧ r1 = r2 ∧ n1 = n2 := by
  unfold blockIdPre at h
  have hl := encVarint_prefix_free _ _ _ _ h
  rw [hl] at h
  have hb := List.append_cancel_left h
  unfold blobOf at hb
  rw [List.append_assoc, List.append_assoc] at hb
  obtain ⟨hh, hr⟩ := encHeader_prefix_free h1 h2 w1 w2 _ _ hb
  obtain ⟨hr1, hv⟩ := List.append_inj hr (by rw [l1, l2])
  have hn := encVarint_prefix_free (n1 + 1) (n2 + 1) [] [] (by simpa using hv)
  exact ⟨hh, hr1, by omega⟩

theorem txHash_length (H : Bytes → Bytes) (hlen : ∀ x, (H x).length = 32) (t : Tx) : (txHash H t).length = 32 := by
  unfold txHash
  split
  · exact hlen _
  · exact hlen _

/-- the tree hash of a non-empty list of 32-byte strings is 32 bytes long -/
theorem treeSpec_length (H : Bytes → Bytes) (hlen : ∀ x, (H x).length = 32) (hs : List Bytes) (hne : hs ≠ [])
    (h32 : ∀ h ∈ hs, h.length = 32) : (treeSpec H hs).length = 32 := by
  match hs, hne, h32 with
  | [h], _, h32 => exact h32 h (by simp)
  | [a, b], _, _ => exact hlen _
  | a :: b :: c :: t, _, _ =>
    have h3 : 3 ≤ (a :: b :: c :: t).length := by simp
    rw [treeSpec_many H _ h3]
    obtain ⟨hlo, hhi⟩ := levelBelow_bounds (a :: b :: c :: t).length (by omega)
    cases hm : levelBelow (a :: b :: c :: t).length with
    | zero => rw [hm] at hhi; simp at hhi
    | succ m => rw [perfect]; exact hlen _

/-- the hashes listed in a parsed block are 32 bytes long -/
theorem parsed_block_hashes32 (b : Bytes) (x : Block) (r : Bytes) (h : block b = some (x, r)) :
    ∀ k ∈ x.hashes, k.length = 32 := (decoded_wf_block b x r h).2.2.1

/-- the leaves of the transaction tree of a parsed block (miner-transaction identifier, then the listed hashes) are 32 bytes long -/
theorem parsed_block_leaves32 (H : Bytes → Bytes) (hlen : ∀ x, (H x).length = 32) (b : Bytes) (x : Block) (r : Bytes)
    (h : block b = some (x, r)) : ∀ k ∈ txHash H x.miner :: x.hashes, k.length = 32 := by
  intro k hk
  rcases List.mem_cons.mp hk with rfl | hk
  · exact txHash_length H hlen _
  · exact parsed_block_hashes32 b x r h k hk

/-- `Block::tx_root` of a parsed block does not panic and is the reference tree hash of the leaves -/
theorem parsed_block_txRoot (H : Bytes → Bytes) (b : Bytes) (x : Block) (r : Bytes) (h : block b = some (x, r)) :
    txRoot H (txHash H x.miner) x.hashes = some (treeSpec H (txHash H x.miner :: x.hashes)) :=
  treeHash_eq_treeSpec H _ _ (parsed_block_count b x r h)

/-- **Level 1.** Two parsed blocks with the same identifier (`Block::id`; the two constants of the block-202612 substitution
are arbitrary parameters), `r1`, `r2` their transaction roots.  Then
(a) the serialised headers, the roots and the numbers of listed hashes are equal, or
(b) the two explicit strings `blockIdPre …` hashed last are different and have the same hash, or
(c) the substitution is involved: the raw hash of one block is `correct` (so its identifier is `existing`), the raw hash of the
    other one is `existing` itself, and `correct ≠ existing`. -/
theorem blockid_level1 (H : Bytes → Bytes) (hlen : ∀ x, (H x).length = 32) (correct existing : Bytes)
    (b1 b2 : Bytes) (x1 x2 : Block) (p1 : block b1 = some (x1, [])) (p2 : block b2 = some (x2, []))
    (r1 r2 : Bytes)
    (hr1 : txRoot H (txHash H x1.miner) x1.hashes = some r1)
    (hr2 : txRoot H (txHash H x2.miner) x2.hashes = some r2)
    (hid : blockId H correct existing (encHeader x1.hdr) (txHash H x1.miner) x1.hashes =
           blockId H correct existing (encHeader x2.hdr) (txHash H x2.miner) x2.hashes) :
    (encHeader x1.hdr = encHeader x2.hdr ∧ r1 = r2 ∧ x1.hashes.length = x2.hashes.length) ∨
    (blockIdPre (encHeader x1.hdr) r1 x1.hashes.length ≠ blockIdPre (encHeader x2.hdr) r2 x2.hashes.length ∧
      H (blockIdPre (encHeader x1.hdr) r1 x1.hashes.length) = H (blockIdPre (encHeader x2.hdr) r2 x2.hashes.length)) ∨
    (correct ≠ existing ∧
      ((H (blockIdPre (encHeader x1.hdr) r1 x1.hashes.length) = correct ∧
        H (blockIdPre (encHeader x2.hdr) r2 x2.hashes.length) = existing) ∨
       (H (blockIdPre (encHeader x2.hdr) r2 x2.hashes.length) = correct ∧
        H (blockIdPre (encHeader x1.hdr) r1 x1.hashes.length) = existing))) := by
  have e1 := parsed_block_txRoot H b1 x1 [] p1
  have e2 := parsed_block_txRoot H b2 x2 [] p2
  have l1 : r1.length = 32 := by
    have : r1 = treeSpec H (txHash H x1.miner :: x1.hashes) := Option.some.inj (hr1.symm.trans e1)
    rw [this]; exact treeSpec_length H hlen _ (by simp) (parsed_block_leaves32 H hlen b1 x1 [] p1)
  have l2 : r2.length = 32 := by
    have : r2 = treeSpec H (txHash H x2.miner :: x2.hashes) := Option.some.inj (hr2.symm.trans e2)
    rw [this]; exact treeSpec_length H hlen _ (by simp) (parsed_block_leaves32 H hlen b2 x2 [] p2)
  simp only [blockId, serializeHeaderAndRoot, hr1, hr2, blockIdOf_eq, Option.some.injEq] at hid
  generalize hP1 : blockIdPre (encHeader x1.hdr) r1 x1.hashes.length = P1 at hid ⊢
  generalize hP2 : blockIdPre (encHeader x2.hdr) r2 x2.hashes.length = P2 at hid ⊢
  by_cases hh : H P1 = H P2
  · by_cases hp : P1 = P2
    · obtain ⟨a, b, c⟩ := blockIdPre_inj x1.hdr x2.hdr (decoded_wf_block b1 x1 [] p1).1 (decoded_wf_block b2 x2 [] p2).1
        r1 r2 l1 l2 _ _ (hP1.trans (hp.trans hP2.symm))
      exact Or.inl ⟨by rw [a], b, c⟩
    · exact Or.inr (Or.inl ⟨hp, hh⟩)
  · refine Or.inr (Or.inr ?_)
    by_cases c1 : H P1 = correct
    · by_cases c2 : H P2 = correct
      · exact absurd (c1.trans c2.symm) hh
      · simp only [c1, c2, if_true, if_false] at hid
        exact ⟨fun h => hh (c1.trans (h.trans hid)), Or.inl ⟨c1, hid.symm⟩⟩
    · by_cases c2 : H P2 = correct
      · simp only [c1, c2, if_true, if_false] at hid
        exact ⟨fun h => hh (hid.trans (h.symm.trans c2.symm)), Or.inr ⟨c2, hid⟩⟩
      · simp only [c1, c2, if_false] at hid
        exact absurd hid hh

/-! ## Level 2: the tree hash -/

/-- `CollisionBetween` is monotone in both lists -/
theorem collision_mono {H : Bytes → Bytes} {L1 L2 M1 M2 : List Bytes} (h : CollisionBetween H L1 L2)
    (s1 : ∀ u ∈ L1, u ∈ M1) (s2 : ∀ v ∈ L2, v ∈ M2) : CollisionBetween H M1 M2 := by
  obtain ⟨u, hu, v, hv, hne, he⟩ := h
  exact ⟨u, s1 u hu, v, s2 v hv, hne, he⟩

/-- `pairUp` with a trace: the result and the list of the strings to which `H` was applied -/
def pairUpTr (H : Bytes → Bytes) : List Bytes → List Bytes × List Bytes
  | a :: b :: t => (H (a ++ b) :: (pairUpTr H t).1, (a ++ b) :: (pairUpTr H t).2)
  | _ => ([], [])

/-- `perfect` with a trace: the result and the list of the strings to which `H` was applied (left subtree, right subtree, root) -/
def perfectTr (H : Bytes → Bytes) : Nat → List Bytes → Bytes × List Bytes
  | 0, l => (l.headD [], [])
  | m+1, l =>
    let L := perfectTr H m (l.take (2^m))
    let R := perfectTr H m (l.drop (2^m))
    (H (L.1 ++ R.1), L.2 ++ R.2 ++ [L.1 ++ R.1])

/-- `treeSpec` with a trace: the result and the list of the strings to which `H` was applied -/
def treeSpecTr (H : Bytes → Bytes) (hs : List Bytes) : Bytes × List Bytes :=
  match hs with
  | [] => ([], [])
  | [h] => (h, [])
  | [h0, h1] => (H (h0 ++ h1), [h0 ++ h1])
  | _ =>
    let n := hs.length
    let m := levelBelow n
    let cnt := 2 ^ m
    let keep := 2 * cnt - n
    let P := pairUpTr H (hs.drop keep)
    let R := perfectTr H m (hs.take keep ++ P.1)
    (R.1, P.2 ++ R.2)

/-- **the strings hashed while computing the tree hash of `leaves`** (each is the concatenation of two nodes) -/
def treeNodes (H : Bytes → Bytes) (leaves : List Bytes) : List Bytes := (treeSpecTr H leaves).2

theorem pairUpTr_fst (H : Bytes → Bytes) : ∀ l : List Bytes, (pairUpTr H l).1 = pairUp H l
  | [] => rfl
  | [_] => rfl
  | a :: b :: t => by rw [pairUpTr, pairUp, pairUpTr_fst H t]

theorem perfectTr_fst (H : Bytes → Bytes) : ∀ (m : Nat) (l : List Bytes), (perfectTr H m l).1 = perfect H m l
  | 0, _ => rfl
  | m+1, l => by simp only [perfectTr, perfect, perfectTr_fst H m]

/-- the traced function computes `treeSpec` -/
theorem treeSpecTr_fst (H : Bytes → Bytes) (hs : List Bytes) : (treeSpecTr H hs).1 = treeSpec H hs := by
  match hs with
  | [] => rfl
  | [h] => rfl
  | [h0, h1] => rfl
  | a :: b :: c :: t => simp only [treeSpecTr, treeSpec, perfectTr_fst, pairUpTr_fst]

theorem perfectTr_snd_succ (H : Bytes → Bytes) (m : Nat) (l : List Bytes) :
    (perfectTr H (m+1) l).2 = (perfectTr H m (l.take (2^m))).2 ++ (perfectTr H m (l.drop (2^m))).2 ++
      [perfect H m (l.take (2^m)) ++ perfect H m (l.drop (2^m))] := by
  simp only [perfectTr, perfectTr_fst]

/-- the `n ≥ 3` arm of `treeNodes`, unfolded: the pairs hashed first, then the nodes of the perfect tree -/
theorem treeNodes_many (H : Bytes → Bytes) (hs : List Bytes) (h : 3 ≤ hs.length) :
    treeNodes H hs = (pairUpTr H (hs.drop (2 * 2 ^ levelBelow hs.length - hs.length))).2 ++
      (perfectTr H (levelBelow hs.length)
        (hs.take (2 * 2 ^ levelBelow hs.length - hs.length) ++ pairUp H (hs.drop (2 * 2 ^ levelBelow hs.length - hs.length)))).2 := by
  match hs, h with
  | a :: b :: c :: t, _ => simp only [treeNodes, treeSpecTr, pairUpTr_fst]

theorem pairUp_all32 (H : Bytes → Bytes) (hlen : ∀ x, (H x).length = 32) : ∀ l : List Bytes, ∀ x ∈ pairUp H l, x.length = 32
  | [], x, hx => by simp [pairUp] at hx
  | [_], x, hx => by simp [pairUp] at hx
  | a :: b :: t, x, hx => by
    rw [pairUp] at hx
    rcases List.mem_cons.mp hx with rfl | hx
    · exact hlen _
    · exact pairUp_all32 H hlen t x hx

/-- `pairUp` on two lists of 32-byte strings of the same even length: equal results come from equal lists, or two different
hashed pairs have the same hash -/
theorem pairUp_inj (H : Bytes → Bytes) : ∀ (l1 l2 : List Bytes), l1.length = l2.length → l1.length % 2 = 0 →
    (∀ h ∈ l1, h.length = 32) → (∀ h ∈ l2, h.length = 32) → pairUp H l1 = pairUp H l2 →
    l1 = l2 ∨ CollisionBetween H (pairUpTr H l1).2 (pairUpTr H l2).2
  | [], [], _, _, _, _, _ => Or.inl rfl
  | [], _ :: _, hl, _, _, _, _ => by simp at hl
  | _ :: _, [], hl, _, _, _, _ => by simp at hl
  | [_], _, _, he, _, _, _ => by simp at he
  | _ :: _ :: _, [_], hl, _, _, _, _ => by simp at hl
  | a :: b :: t, a' :: b' :: t', hl, he, w1, w2, h => by
    rw [pairUp, pairUp] at h
    obtain ⟨hh, ht⟩ := List.cons.inj h
    by_cases hp : a ++ b = a' ++ b'
    · obtain ⟨ha, hb⟩ := List.append_inj hp (by rw [w1 a (by simp), w2 a' (by simp)])
      subst ha hb
      rcases pairUp_inj H t t' (by simpa using hl) (by simp at he; omega)
        (fun h hh => w1 h (by simp [hh])) (fun h hh => w2 h (by simp [hh])) ht with rfl | hc
      · exact Or.inl rfl
      · exact Or.inr (collision_mono hc (fun u hu => by simp [pairUpTr, hu]) (fun v hv => by simp [pairUpTr, hv]))
    · exact Or.inr ⟨a ++ b, by simp [pairUpTr], a' ++ b', by simp [pairUpTr], hp, hh⟩

/-- the root of a perfect tree over `2^m` strings of 32 bytes is 32 bytes long -/
theorem perfect_length (H : Bytes → Bytes) (hlen : ∀ x, (H x).length = 32) (m : Nat) (l : List Bytes) (hl : l.length = 2 ^ m)
    (w : ∀ h ∈ l, h.length = 32) : (perfect H m l).length = 32 := by
  cases m with
  | zero =>
    match l, hl with
    | [a], _ => exact w a (by simp)
  | succ m => rw [perfect]; exact hlen _

/-- perfect trees over two lists of `2^m` strings of 32 bytes: equal roots come from equal lists, or two different hashed
node pairs have the same hash -/
theorem perfect_inj (H : Bytes → Bytes) (hlen : ∀ x, (H x).length = 32) : ∀ (m : Nat) (l1 l2 : List Bytes),
    l1.length = 2 ^ m → l2.length = 2 ^ m → (∀ h ∈ l1, h.length = 32) → (∀ h ∈ l2, h.length = 32) →
    perfect H m l1 = perfect H m l2 →
    l1 = l2 ∨ CollisionBetween H (perfectTr H m l1).2 (perfectTr H m l2).2 := by
  intro m
  induction m with
  | zero =>
    intro l1 l2 h1 h2 _ _ h
    match l1, l2, h1, h2 with
    | [a], [b], _, _ => simp [perfect] at h; exact Or.inl (by rw [h])
  | succ m ih =>
    intro l1 l2 h1 h2 w1 w2 h
    have hpow : 2 ^ (m + 1) = 2 * 2 ^ m := by rw [Nat.pow_succ]; omega
    have t1 : (l1.take (2 ^ m)).length = 2 ^ m := by rw [List.length_take, h1, hpow]; omega
    have t2 : (l2.take (2 ^ m)).length = 2 ^ m := by rw [List.length_take, h2, hpow]; omega
    have d1 : (l1.drop (2 ^ m)).length = 2 ^ m := by rw [List.length_drop, h1, hpow]; omega
    have d2 : (l2.drop (2 ^ m)).length = 2 ^ m := by rw [List.length_drop, h2, hpow]; omega
    have wt1 : ∀ h ∈ l1.take (2 ^ m), h.length = 32 := fun h hh => w1 h (List.mem_of_mem_take hh)
    have wt2 : ∀ h ∈ l2.take (2 ^ m), h.length = 32 := fun h hh => w2 h (List.mem_of_mem_take hh)
    have wd1 : ∀ h ∈ l1.drop (2 ^ m), h.length = 32 := fun h hh => w1 h (List.mem_of_mem_drop hh)
    have wd2 : ∀ h ∈ l2.drop (2 ^ m), h.length = 32 := fun h hh => w2 h (List.mem_of_mem_drop hh)
    rw [perfect, perfect] at h
    rw [perfectTr_snd_succ, perfectTr_snd_succ]
    by_cases hp : perfect H m (l1.take (2 ^ m)) ++ perfect H m (l1.drop (2 ^ m)) =
        perfect H m (l2.take (2 ^ m)) ++ perfect H m (l2.drop (2 ^ m))
    · obtain ⟨hL, hR⟩ := List.append_inj hp
        (by rw [perfect_length H hlen m _ t1 wt1, perfect_length H hlen m _ t2 wt2])
      rcases ih _ _ t1 t2 wt1 wt2 hL with eL | cL
      · rcases ih _ _ d1 d2 wd1 wd2 hR with eR | cR
        · left
          rw [← List.take_append_drop (2 ^ m) l1, ← List.take_append_drop (2 ^ m) l2, eL, eR]
        · exact Or.inr (collision_mono cR (fun u hu => by simp [hu]) (fun v hv => by simp [hv]))
      · exact Or.inr (collision_mono cL (fun u hu => by simp [hu]) (fun v hv => by simp [hv]))
    · exact Or.inr ⟨_, by simp, _, by simp, hp, h⟩

theorem list_len1 {α} : ∀ l : List α, l.length = 1 → ∃ a, l = [a]
  | [a], _ => ⟨a, rfl⟩
theorem list_len2 {α} : ∀ l : List α, l.length = 2 → ∃ a b, l = [a, b]
  | [a, b], _ => ⟨a, b, rfl⟩

/-- **Level 2 (Merkle injectivity).** Two leaf lists of the same length, all leaves 32 bytes long: equal tree hashes come from
equal lists, or two DIFFERENT strings — one hashed while computing the tree hash of `l1`, one for `l2` — have the same hash. -/
theorem treeSpec_inj (H : Bytes → Bytes) (hlen : ∀ x, (H x).length = 32) (l1 l2 : List Bytes)
    (hl : l1.length = l2.length) (w1 : ∀ h ∈ l1, h.length = 32) (w2 : ∀ h ∈ l2, h.length = 32)
    (h : treeSpec H l1 = treeSpec H l2) :
    l1 = l2 ∨ CollisionBetween H (treeNodes H l1) (treeNodes H l2) := by
  by_cases h3 : 3 ≤ l1.length
  · have h3' : 3 ≤ l2.length := hl ▸ h3
    rw [treeSpec_many H l1 h3, treeSpec_many H l2 h3'] at h
    rw [treeNodes_many H l1 h3, treeNodes_many H l2 h3']
    obtain ⟨_, _, k1, e1, _, s1⟩ := treeSpec_shape H l1 h3
    obtain ⟨_, _, k2, e2, _, s2⟩ := treeSpec_shape H l2 h3'
    rw [← hl] at h e2 s2 k2 ⊢
    generalize levelBelow l1.length = m at *
    generalize 2 * 2 ^ m - l1.length = keep at *
    have a1 : ∀ h ∈ l1.take keep ++ pairUp H (l1.drop keep), h.length = 32 := by
      intro x hx
      rcases List.mem_append.mp hx with hx | hx
      · exact w1 x (List.mem_of_mem_take hx)
      · exact pairUp_all32 H hlen _ x hx
    have a2 : ∀ h ∈ l2.take keep ++ pairUp H (l2.drop keep), h.length = 32 := by
      intro x hx
      rcases List.mem_append.mp hx with hx | hx
      · exact w2 x (List.mem_of_mem_take hx)
      · exact pairUp_all32 H hlen _ x hx
    rcases perfect_inj H hlen m _ _ s1 s2 a1 a2 h with he | hc
    · obtain ⟨ht, hp⟩ := List.append_inj he (by rw [List.length_take, List.length_take, hl])
      rcases pairUp_inj H _ _ (by rw [e1, e2]) (by rw [e1]; omega)
        (fun x hx => w1 x (List.mem_of_mem_drop hx)) (fun x hx => w2 x (List.mem_of_mem_drop hx)) hp with hd | hc
      · left
        rw [← List.take_append_drop keep l1, ← List.take_append_drop keep l2, ht, hd]
      · exact Or.inr (collision_mono hc (fun u hu => by simp [hu]) (fun v hv => by simp [hv]))
    · exact Or.inr (collision_mono hc (fun u hu => by simp [hu]) (fun v hv => by simp [hv]))
  · have : l1.length = 0 ∨ l1.length = 1 ∨ l1.length = 2 := by omega
    rcases this with h0 | h1 | h2
    · have e1 : l1 = [] := List.eq_nil_of_length_eq_zero h0
      have e2 : l2 = [] := List.eq_nil_of_length_eq_zero (hl ▸ h0)
      exact Or.inl (e1.trans e2.symm)
    · obtain ⟨a, rfl⟩ := list_len1 l1 h1
      obtain ⟨b, rfl⟩ := list_len1 l2 (hl ▸ h1)
      simp only [treeSpec] at h
      exact Or.inl (by rw [h])
    · obtain ⟨a, b, rfl⟩ := list_len2 l1 h2
      obtain ⟨a', b', rfl⟩ := list_len2 l2 (hl ▸ h2)
      simp only [treeSpec] at h
      by_cases hp : a ++ b = a' ++ b'
      · obtain ⟨ha, hb⟩ := List.append_inj hp (by rw [w1 a (by simp), w2 a' (by simp)])
        exact Or.inl (by rw [ha, hb])
      · exact Or.inr ⟨a ++ b, by simp [treeNodes, treeSpecTr], a' ++ b', by simp [treeNodes, treeSpecTr], hp, h⟩

/-- Level 2 for the model of the Rust function: `tree_hash` (= `Block::tx_root`) on two inputs with the same number of extra
hashes, below the `2^28` bound of `tree_hash_cnt` (true of every parsed block: `parsed_block_count`), all 32 bytes long -/
theorem treeHash_inj (H : Bytes → Bytes) (hlen : ∀ x, (H x).length = 32) (root1 root2 : Bytes) (extra1 extra2 : List Bytes)
    (hl : extra1.length = extra2.length) (hmax : extra1.length + 1 ≤ 2^28)
    (w1 : ∀ h ∈ root1 :: extra1, h.length = 32) (w2 : ∀ h ∈ root2 :: extra2, h.length = 32)
    (h : treeHash H root1 extra1 = treeHash H root2 extra2) :
    (root1 = root2 ∧ extra1 = extra2) ∨
      CollisionBetween H (treeNodes H (root1 :: extra1)) (treeNodes H (root2 :: extra2)) := by
  rw [treeHash_eq_treeSpec H root1 extra1 hmax, treeHash_eq_treeSpec H root2 extra2 (hl ▸ hmax)] at h
  rcases treeSpec_inj H hlen _ _ (by simp [hl]) w1 w2 (Option.some.inj h) with he | hc
  · exact Or.inl (List.cons.inj he)
  · exact Or.inr hc

/-! ## Level 3: the block identifier -/

/-- the string hashed last for the identifier of `x`: `blockIdPre` of the serialised header, the reference tree hash of the
leaves (= `Block::tx_root` for every parsed block, `parsed_block_txRoot`) and the number of listed hashes -/
def blockPre (H : Bytes → Bytes) (x : Block) : Bytes :=
  blockIdPre (encHeader x.hdr) (treeSpec H (txHash H x.miner :: x.hashes)) x.hashes.length

/-- **The strings hashed while computing the identifier of the block `x`**: those hashed for the identifier of the miner
transaction (`hashed`, TxIdCommits.lean), the node pairs of the transaction tree over (miner-transaction identifier, listed
hashes), and the length-prefixed blob `header ‖ root ‖ varint(count)` -/
def hashedBlock (H : Bytes → Bytes) (x : Block) : List Bytes :=
  hashed H x.miner ++ treeNodes H (txHash H x.miner :: x.hashes) ++ [blockPre H x]

/-- the identifier of a parsed block is the hash of the LAST string of `hashedBlock H x`, up to the block-202612 substitution
(in particular `Block::id` does not panic on a parsed block) -/
theorem parsed_blockId (H : Bytes → Bytes) (correct existing : Bytes) (b : Bytes) (x : Block) (r : Bytes)
    (h : block b = some (x, r)) :
    (hashedBlock H x).getLast? = some (blockPre H x) ∧
    blockId H correct existing (encHeader x.hdr) (txHash H x.miner) x.hashes =
      some (if H (blockPre H x) = correct then existing else H (blockPre H x)) := by
  constructor
  · simp [hashedBlock]
  · simp only [blockId, serializeHeaderAndRoot, parsed_block_txRoot H b x r h]
    rfl

/-- the miner transaction of a parsed block is strictly parsed from its own serialisation -/
theorem parsed_block_miner (b : Bytes) (x : Block) (r : Bytes) (h : block b = some (x, r)) :
    tx (encTx x.miner) = some (x.miner, []) := by
  have := complete_tx x.miner [] (decoded_wf_block b x r h).2.1
  simpa using this

/-- **Level 3.** Two strictly parsed blocks whose miner transactions are of the same version class (both version 1 or both
not; hypothesis inherited from `txid_commits`) and whose identifiers (`Block::id`, the two constants of the block-202612
substitution being arbitrary parameters) are equal.  Then
* the two blocks were parsed from the same bytes, or
* two DIFFERENT strings, one of `hashedBlock H x1` and one of `hashedBlock H x2`, have the same hash, or
* the substitution is involved: `correct ≠ existing`, the raw hash of one block is `correct` (its identifier is `existing`) and
  the raw hash of the other block is `existing` itself. -/
theorem blockid_commits (H : Bytes → Bytes) (hlen : ∀ x, (H x).length = 32) (correct existing : Bytes)
    (b1 b2 : Bytes) (x1 x2 : Block) (p1 : block b1 = some (x1, [])) (p2 : block b2 = some (x2, []))
    (hv : x1.miner.pre.version = 1 ↔ x2.miner.pre.version = 1)
    (hid : blockId H correct existing (encHeader x1.hdr) (txHash H x1.miner) x1.hashes =
           blockId H correct existing (encHeader x2.hdr) (txHash H x2.miner) x2.hashes) :
    b1 = b2 ∨ CollisionBetween H (hashedBlock H x1) (hashedBlock H x2) ∨
    (correct ≠ existing ∧
      ((H (blockPre H x1) = correct ∧ H (blockPre H x2) = existing) ∨
       (H (blockPre H x2) = correct ∧ H (blockPre H x1) = existing))) := by
  rcases blockid_level1 H hlen correct existing b1 b2 x1 x2 p1 p2 _ _
      (parsed_block_txRoot H b1 x1 [] p1) (parsed_block_txRoot H b2 x2 [] p2) hid with ⟨hh, hr, hn⟩ | ⟨hne, he⟩ | hs
  · rcases treeSpec_inj H hlen _ _ (by simp [hn]) (parsed_block_leaves32 H hlen b1 x1 [] p1)
        (parsed_block_leaves32 H hlen b2 x2 [] p2) hr with hl | hc
    · obtain ⟨htx, hhs⟩ := List.cons.inj hl
      rcases txid_commits H hlen _ _ x1.miner x2.miner (parsed_block_miner b1 x1 [] p1) (parsed_block_miner b2 x2 [] p2)
          hv htx with em | cm
      · left
        rw [sound_block b1 x1 [] p1, sound_block b2 x2 [] p2, encBlock, encBlock, hh, em, hhs]
      · exact Or.inr (Or.inl (collision_mono cm (fun u hu => by simp [hashedBlock, hu]) (fun v hv => by simp [hashedBlock, hv])))
    · exact Or.inr (Or.inl (collision_mono hc (fun u hu => by simp [hashedBlock, hu]) (fun v hv => by simp [hashedBlock, hv])))
  · exact Or.inr (Or.inl ⟨blockPre H x1, by simp [hashedBlock], blockPre H x2, by simp [hashedBlock], hne, he⟩)
  · exact Or.inr (Or.inr hs)

/-- the same without the hypothesis on the versions of the miner transactions: the further possibility is that of
`txid_commits_any_version` (the serialisation of the version-1 miner transaction is the digest string hashed last for the other) -/
theorem blockid_commits_any_version (H : Bytes → Bytes) (hlen : ∀ x, (H x).length = 32) (correct existing : Bytes)
    (b1 b2 : Bytes) (x1 x2 : Block) (p1 : block b1 = some (x1, [])) (p2 : block b2 = some (x2, []))
    (hid : blockId H correct existing (encHeader x1.hdr) (txHash H x1.miner) x1.hashes =
           blockId H correct existing (encHeader x2.hdr) (txHash H x2.miner) x2.hashes) :
    b1 = b2 ∨ CollisionBetween H (hashedBlock H x1) (hashedBlock H x2) ∨
    (correct ≠ existing ∧
      ((H (blockPre H x1) = correct ∧ H (blockPre H x2) = existing) ∨
       (H (blockPre H x2) = correct ∧ H (blockPre H x1) = existing))) ∨
    (x1.miner.pre.version = 1 ∧ x2.miner.pre.version ≠ 1 ∧ (hashed H x2.miner).getLast? = some (encTx x1.miner)) ∨
    (x2.miner.pre.version = 1 ∧ x1.miner.pre.version ≠ 1 ∧ (hashed H x1.miner).getLast? = some (encTx x2.miner)) := by
  rcases blockid_level1 H hlen correct existing b1 b2 x1 x2 p1 p2 _ _
      (parsed_block_txRoot H b1 x1 [] p1) (parsed_block_txRoot H b2 x2 [] p2) hid with ⟨hh, hr, hn⟩ | ⟨hne, he⟩ | hs
  · rcases treeSpec_inj H hlen _ _ (by simp [hn]) (parsed_block_leaves32 H hlen b1 x1 [] p1)
        (parsed_block_leaves32 H hlen b2 x2 [] p2) hr with hl | hc
    · obtain ⟨htx, hhs⟩ := List.cons.inj hl
      rcases txid_commits_any_version H hlen _ _ x1.miner x2.miner (parsed_block_miner b1 x1 [] p1)
          (parsed_block_miner b2 x2 [] p2) htx with em | cm | hx | hx
      · left
        rw [sound_block b1 x1 [] p1, sound_block b2 x2 [] p2, encBlock, encBlock, hh, em, hhs]
      · exact Or.inr (Or.inl (collision_mono cm (fun u hu => by simp [hashedBlock, hu]) (fun v hv => by simp [hashedBlock, hv])))
      · exact Or.inr (Or.inr (Or.inr (Or.inl hx)))
      · exact Or.inr (Or.inr (Or.inr (Or.inr hx)))
    · exact Or.inr (Or.inl (collision_mono hc (fun u hu => by simp [hashedBlock, hu]) (fun v hv => by simp [hashedBlock, hv])))
  · exact Or.inr (Or.inl ⟨blockPre H x1, by simp [hashedBlock], blockPre H x2, by simp [hashedBlock], hne, he⟩)
  · exact Or.inr (Or.inr (Or.inl hs))

/-! ## The hypotheses are satisfiable, the conclusions are not vacuous -/

/-- example input: header (major version `v`, minor version 0, timestamp 0, previous id 0³², nonce 0), a version-2 coinbase miner
transaction at height 5 without outputs (RingCT type Null), and the listed hashes `hs` (fewer than 128 of them) -/
def exBytes (v : UInt8) (hs : List Bytes) : Bytes :=
  [v, 0, 0] ++ List.replicate 32 0 ++ [0, 0, 0, 0] ++ [2, 0, 1, 0xff, 5, 0, 0, 0] ++ [UInt8.ofNat hs.length] ++ hs.flatten
/-- the block that `exBytes v hs` decodes to -/
def exBlock (v : Nat) (hs : List Bytes) : Block :=
  ⟨⟨v, 0, 0, List.replicate 32 0, 0⟩, ⟨⟨2, 0, [.gen 5], [], []⟩, [], some ⟨0, 0, [], [], []⟩, none⟩, hs⟩
/-- two listed hashes: with the miner transaction three leaves, the `n ≥ 3` arm of the tree hash -/
def exHashes : List Bytes := [List.replicate 32 7, List.replicate 32 8]

/- the hypotheses of `blockid_level1`, `blockid_commits` (and of `blockid_commits_any_version`) are jointly satisfiable, with two
DIFFERENT blocks: for a constant `H` all identifiers coincide (and the theorems then exhibit a collision) -/
example : ∃ (H : Bytes → Bytes) (correct existing b1 b2 : Bytes) (x1 x2 : Block) (r1 r2 : Bytes),
    (∀ x, (H x).length = 32) ∧ block b1 = some (x1, []) ∧ block b2 = some (x2, []) ∧ b1 ≠ b2 ∧
    txRoot H (txHash H x1.miner) x1.hashes = some r1 ∧ txRoot H (txHash H x2.miner) x2.hashes = some r2 ∧
    (x1.miner.pre.version = 1 ↔ x2.miner.pre.version = 1) ∧
    blockId H correct existing (encHeader x1.hdr) (txHash H x1.miner) x1.hashes =
      blockId H correct existing (encHeader x2.hdr) (txHash H x2.miner) x2.hashes :=
  ⟨fun _ => List.replicate 32 0, computedId202612, historicalId202612, exBytes 1 exHashes, exBytes 2 [List.replicate 32 9],
   exBlock 1 exHashes, exBlock 2 [List.replicate 32 9], List.replicate 32 0, List.replicate 32 0,
   fun _ => by simp, by rfl, by rfl, by decide, by decide +kernel, by decide +kernel, by decide, by decide +kernel⟩

/- the hypotheses of `treeSpec_inj` / `treeHash_inj` are satisfiable with two different leaf lists (constant `H`) -/
example : ∃ (H : Bytes → Bytes) (root1 root2 : Bytes) (extra1 extra2 : List Bytes), (∀ x, (H x).length = 32) ∧
    extra1.length = extra2.length ∧ extra1.length + 1 ≤ 2^28 ∧ (∀ h ∈ root1 :: extra1, h.length = 32) ∧
    (∀ h ∈ root2 :: extra2, h.length = 32) ∧ root1 :: extra1 ≠ root2 :: extra2 ∧
    treeSpec H (root1 :: extra1) = treeSpec H (root2 :: extra2) ∧ treeHash H root1 extra1 = treeHash H root2 extra2 :=
  ⟨fun _ => List.replicate 32 0, List.replicate 32 1, List.replicate 32 2, exHashes, exHashes,
   fun _ => by simp, rfl, by decide, by decide, by decide, by decide, by decide +kernel, by decide +kernel⟩

/- `treeSpec_inj` is not vacuous: for `toyH` and two different lists of three leaves no hashed pair of the one tree collides with
a different hashed pair of the other, so the theorem forces the roots to differ — and they do -/
example : ∃ (l1 l2 : List Bytes), l1.length = l2.length ∧ (∀ h ∈ l1, h.length = 32) ∧ (∀ h ∈ l2, h.length = 32) ∧ l1 ≠ l2 ∧
    ¬ CollisionBetween toyH (treeNodes toyH l1) (treeNodes toyH l2) ∧ treeSpec toyH l1 ≠ treeSpec toyH l2 := by
  refine ⟨List.replicate 32 1 :: exHashes, List.replicate 32 2 :: exHashes, rfl, by decide, by decide, by decide, ?_, by decide +kernel⟩
  have : ∀ u ∈ treeNodes toyH (List.replicate 32 1 :: exHashes), ∀ v ∈ treeNodes toyH (List.replicate 32 2 :: exHashes),
      toyH u = toyH v → u = v := by decide +kernel
  rintro ⟨u, hu, v, hv, hne, he⟩
  exact hne (this u hu v hv he)

/- `blockid_commits` is not vacuous: for `toyH`, the real constants of block 202612 and two different accepted byte strings
(the headers differ in the major version) no string hashed for the one identifier collides with a different string hashed for
the other, and the substitution is not involved; so the theorem forces the identifiers to differ — and they do -/
example : ∃ (b1 b2 : Bytes) (x1 x2 : Block), block b1 = some (x1, []) ∧ block b2 = some (x2, []) ∧
    (x1.miner.pre.version = 1 ↔ x2.miner.pre.version = 1) ∧ b1 ≠ b2 ∧
    ¬ CollisionBetween toyH (hashedBlock toyH x1) (hashedBlock toyH x2) ∧
    toyH (blockPre toyH x1) ≠ computedId202612 ∧ toyH (blockPre toyH x2) ≠ computedId202612 ∧
    blockId toyH computedId202612 historicalId202612 (encHeader x1.hdr) (txHash toyH x1.miner) x1.hashes ≠
      blockId toyH computedId202612 historicalId202612 (encHeader x2.hdr) (txHash toyH x2.miner) x2.hashes := by
  refine ⟨exBytes 1 exHashes, exBytes 2 exHashes, exBlock 1 exHashes, exBlock 2 exHashes, by rfl, by rfl, by decide, by decide,
    ?_, by decide +kernel, by decide +kernel, by decide +kernel⟩
  have : ∀ u ∈ hashedBlock toyH (exBlock 1 exHashes), ∀ v ∈ hashedBlock toyH (exBlock 2 exHashes),
      toyH u = toyH v → u = v := by decide +kernel
  rintro ⟨u, hu, v, hv, hne, he⟩
  exact hne (this u hu v hv he)

/- the substitution disjunct of `blockid_level1` / `blockid_commits` cannot be dropped: with `correct` := the raw hash of the first
block and `existing` := the raw hash of the second, two different blocks have the same identifier although no two different
hashed strings collide (by design of `Block::id`: it maps the raw hash `correct` to `existing`) -/
example : ∃ (correct existing b1 b2 : Bytes) (x1 x2 : Block), block b1 = some (x1, []) ∧ block b2 = some (x2, []) ∧
    (x1.miner.pre.version = 1 ↔ x2.miner.pre.version = 1) ∧ b1 ≠ b2 ∧
    blockId toyH correct existing (encHeader x1.hdr) (txHash toyH x1.miner) x1.hashes =
      blockId toyH correct existing (encHeader x2.hdr) (txHash toyH x2.miner) x2.hashes ∧
    ¬ CollisionBetween toyH (hashedBlock toyH x1) (hashedBlock toyH x2) := by
  refine ⟨toyH (blockPre toyH (exBlock 1 exHashes)), toyH (blockPre toyH (exBlock 2 exHashes)),
    exBytes 1 exHashes, exBytes 2 exHashes, exBlock 1 exHashes, exBlock 2 exHashes, by rfl, by rfl, by decide, by decide,
    by decide +kernel, ?_⟩
  have : ∀ u ∈ hashedBlock toyH (exBlock 1 exHashes), ∀ v ∈ hashedBlock toyH (exBlock 2 exHashes),
      toyH u = toyH v → u = v := by decide +kernel
  rintro ⟨u, hu, v, hv, hne, he⟩
  exact hne (this u hu v hv he)

end TreeHash
end Monero
