import MoneroModel.Model.Scan
/-! The iterator pipeline of `check_outputs_with` (`Scan.go`): what an `Ok` result contains, where an `Err` comes from.
Generic in the primitives (no group law needed). Core Lean only. -/
namespace Monero.Scan
variable {P : Type}

theorem checkKey_index (ops : CryptoOps P) (ck : Checker P) (out : TxOut) (i : Nat) (K : Bytes)
    (r : Nat × (Nat × Nat) × Bytes) (h : checkKey ops ck out i K = some r) : r.1 = i ∧ r.2.2 = K := by
  unfold checkKey at h
  cases hk : asOneTimeKey ops out.target with
  | none => rw [hk] at h; simp at h
  | some Pi =>
    rw [hk] at h; simp only at h
    cases hR : ops.dec K with
    | none => rw [hR] at h; simp at h
    | some R =>
      rw [hR] at h; simp only at h
      split at h
      · cases h
      · cases hg : ck.checkWithKeyGenerator ops (derive ops ck.v R) i Pi with
        | none => rw [hg] at h; cases h
        | some idx => rw [hg] at h; simp only [Option.some.injEq] at h; subst h; exact ⟨rfl, rfl⟩

theorem matchOutput_index (ops : CryptoOps P) (ck : Checker P) (out : TxOut) (i : Nat) (R : Bytes) (add? : Option Bytes)
    (r : Nat × (Nat × Nat) × Bytes) (h : matchOutput ops ck out i R add? = some r) : r.1 = i := by
  unfold matchOutput at h
  cases h1 : checkKey ops ck out i R with
  | some r1 => rw [h1] at h; simp only [Option.some.injEq] at h; subst h; exact (checkKey_index ops ck out i R r1 h1).1
  | none =>
    rw [h1] at h; simp only at h
    cases add? with
    | none => cases h
    | some ak => exact (checkKey_index ops ck out i ak r h).1

theorem getElem?_tail' {α} (l : List α) (j : Nat) : l.tail[j]? = l[j+1]? := by
  cases l <;> simp

theorem head?_eq' {α} (l : List α) : l.head? = l[0]? := by
  cases l <;> simp

variable (ops : CryptoOps P) (decP : Bytes → Option P) (ck : Checker P) (base : Option Base) (R : Bytes)

/-- every element of an `Ok` result comes from an output that matched and whose opening step succeeded -/
theorem go_ok_sound : ∀ (outs : List TxOut) (i0 : Nat) (adds : List Bytes) (ws : List Owned),
    go ops decP ck base R outs i0 adds = .ok ws →
    ∀ w ∈ ws, ∃ j, ∃ hj : j < outs.length,
      matchOutput ops ck outs[j] (i0 + j) R adds[j]? = some (i0 + j, w.sub, w.txKey) ∧
      w.index = i0 + j ∧ w.out = outs[j] ∧ openStep ops decP ck.v base (i0 + j) w.txKey = .ok w.opening := by
  intro outs
  induction outs with
  | nil => intro i0 adds ws h w hw; simp [go] at h; subst h; cases hw
  | cons o os ih =>
    intro i0 adds ws h w hw
    rw [go] at h
    cases hm : matchOutput ops ck o i0 R adds.head? with
    | none =>
      rw [hm] at h; simp only at h
      obtain ⟨j, hj, h1, h2, h3, h4⟩ := ih (i0 + 1) adds.tail ws h w hw
      refine ⟨j + 1, by simp; omega, ?_⟩
      rw [getElem?_tail'] at h1
      have e : i0 + 1 + j = i0 + (j + 1) := by omega
      rw [e] at h1 h2 h4
      exact ⟨by simpa using h1, h2, by simpa using h3, h4⟩
    | some r =>
      obtain ⟨i', idx, K⟩ := r
      have hi : i' = i0 := matchOutput_index ops ck o i0 R adds.head? _ hm
      subst hi
      rw [hm] at h; simp only at h
      cases ho : openStep ops decP ck.v base i' K with
      | error e => rw [ho] at h; cases h
      | ok op =>
        rw [ho] at h; simp only at h
        cases hrest : go ops decP ck base R os (i' + 1) adds.tail with
        | error e => rw [hrest] at h; cases h
        | ok rest =>
          rw [hrest] at h; simp only [Except.ok.injEq] at h
          subst h
          rcases List.mem_cons.mp hw with rfl | hw'
          · refine ⟨0, by simp, ?_⟩
            rw [head?_eq'] at hm
            exact ⟨by simpa using hm, rfl, by simp, by simpa using ho⟩
          · obtain ⟨j, hj, h1, h2, h3, h4⟩ := ih (i' + 1) adds.tail rest hrest w hw'
            refine ⟨j + 1, by simp; omega, ?_⟩
            rw [getElem?_tail'] at h1
            have e : i' + 1 + j = i' + (j + 1) := by omega
            rw [e] at h1 h2 h4
            exact ⟨by simpa using h1, h2, by simpa using h3, h4⟩

/-- every output that matches is in an `Ok` result -/
theorem go_ok_complete : ∀ (outs : List TxOut) (i0 : Nat) (adds : List Bytes) (ws : List Owned),
    go ops decP ck base R outs i0 adds = .ok ws →
    ∀ j (hj : j < outs.length) (r : Nat × (Nat × Nat) × Bytes),
      matchOutput ops ck outs[j] (i0 + j) R adds[j]? = some r →
      ∃ w ∈ ws, w.index = i0 + j ∧ w.sub = r.2.1 ∧ w.txKey = r.2.2 ∧ w.out = outs[j] := by
  intro outs
  induction outs with
  | nil => intro i0 adds ws _ j hj; simp at hj
  | cons o os ih =>
    intro i0 adds ws h j hj r hmj
    rw [go] at h
    cases j with
    | zero =>
      simp only [List.getElem_cons_zero, Nat.add_zero, ← head?_eq'] at hmj
      rw [hmj] at h
      obtain ⟨i', idx, K⟩ := r
      have hi : i' = i0 := matchOutput_index ops ck o i0 R adds.head? _ hmj
      subst hi
      simp only at h
      cases ho : openStep ops decP ck.v base i' K with
      | error e => rw [ho] at h; cases h
      | ok op =>
        rw [ho] at h; simp only at h
        cases hrest : go ops decP ck base R os (i' + 1) adds.tail with
        | error e => rw [hrest] at h; cases h
        | ok rest =>
          rw [hrest] at h; simp only [Except.ok.injEq] at h
          subst h
          exact ⟨_, List.mem_cons_self, rfl, rfl, rfl, by simp⟩
    | succ j =>
      have hj' : j < os.length := by simpa using hj
      have e : i0 + (j + 1) = i0 + 1 + j := by omega
      simp only [List.getElem_cons_succ] at hmj
      rw [e, ← getElem?_tail'] at hmj
      have key : ∀ ws', go ops decP ck base R os (i0 + 1) adds.tail = .ok ws' →
          ∃ w ∈ ws', w.index = i0 + (j + 1) ∧ w.sub = r.2.1 ∧ w.txKey = r.2.2 ∧ w.out = (o :: os)[j + 1] := by
        intro ws' h'
        obtain ⟨w, hw, h1, h2, h3, h4⟩ := ih (i0 + 1) adds.tail ws' h' j hj' r hmj
        exact ⟨w, hw, by omega, h2, h3, by simpa using h4⟩
      cases hm : matchOutput ops ck o i0 R adds.head? with
      | none => rw [hm] at h; exact key ws h
      | some r0 =>
        obtain ⟨i', idx, K⟩ := r0
        rw [hm] at h; simp only at h
        cases ho : openStep ops decP ck.v base i' K with
        | error e => rw [ho] at h; cases h
        | ok op =>
          rw [ho] at h; simp only at h
          cases hrest : go ops decP ck base R os (i0 + 1) adds.tail with
          | error e => rw [hrest] at h; cases h
          | ok rest =>
            rw [hrest] at h; simp only [Except.ok.injEq] at h
            subst h
            obtain ⟨w, hw, hh⟩ := key rest hrest
            exact ⟨w, List.mem_cons_of_mem _ hw, hh⟩

/-- the reported outputs are in output order, each position at most once -/
theorem go_ok_sorted : ∀ (outs : List TxOut) (i0 : Nat) (adds : List Bytes) (ws : List Owned),
    go ops decP ck base R outs i0 adds = .ok ws → ws.Pairwise fun a b => a.index < b.index := by
  intro outs
  induction outs with
  | nil => intro i0 adds ws h; simp [go] at h; subst h; exact List.Pairwise.nil
  | cons o os ih =>
    intro i0 adds ws h
    have hall := h
    rw [go] at h
    cases hm : matchOutput ops ck o i0 R adds.head? with
    | none => rw [hm] at h; exact ih _ _ _ h
    | some r =>
      obtain ⟨i', idx, K⟩ := r
      have hi : i' = i0 := matchOutput_index ops ck o i0 R adds.head? _ hm
      subst hi
      rw [hm] at h; simp only at h
      cases ho : openStep ops decP ck.v base i' K with
      | error e => rw [ho] at h; cases h
      | ok op =>
        rw [ho] at h; simp only at h
        cases hrest : go ops decP ck base R os (i' + 1) adds.tail with
        | error e => rw [hrest] at h; cases h
        | ok rest =>
          rw [hrest] at h; simp only [Except.ok.injEq] at h
          subst h
          refine List.pairwise_cons.mpr ⟨?_, ih _ _ _ hrest⟩
          intro w hw
          obtain ⟨j, _, _, h2, _⟩ := go_ok_sound ops decP ck base R os (i' + 1) adds.tail rest hrest w hw
          show i' < w.index
          omega

/-- an `Err` result is the error of the opening step of some matched output -/
theorem go_error : ∀ (outs : List TxOut) (i0 : Nat) (adds : List Bytes) (e : ScanErr),
    go ops decP ck base R outs i0 adds = .error e →
    ∃ j, ∃ hj : j < outs.length, ∃ idx K,
      matchOutput ops ck outs[j] (i0 + j) R adds[j]? = some (i0 + j, idx, K) ∧
      openStep ops decP ck.v base (i0 + j) K = .error e := by
  intro outs
  induction outs with
  | nil => intro i0 adds e h; simp [go] at h
  | cons o os ih =>
    intro i0 adds e h
    rw [go] at h
    have lift : go ops decP ck base R os (i0 + 1) adds.tail = .error e →
        ∃ j, ∃ hj : j < (o :: os).length, ∃ idx K,
          matchOutput ops ck (o :: os)[j] (i0 + j) R adds[j]? = some (i0 + j, idx, K) ∧
          openStep ops decP ck.v base (i0 + j) K = .error e := by
      intro h'
      obtain ⟨j, hj, idx, K, h1, h2⟩ := ih (i0 + 1) adds.tail e h'
      refine ⟨j + 1, by simp; omega, idx, K, ?_⟩
      rw [getElem?_tail'] at h1
      have e' : i0 + 1 + j = i0 + (j + 1) := by omega
      rw [e'] at h1 h2
      exact ⟨by simpa using h1, h2⟩
    cases hm : matchOutput ops ck o i0 R adds.head? with
    | none => rw [hm] at h; exact lift h
    | some r =>
      obtain ⟨i', idx, K⟩ := r
      have hi : i' = i0 := matchOutput_index ops ck o i0 R adds.head? _ hm
      subst hi
      rw [hm] at h; simp only at h
      cases ho : openStep ops decP ck.v base i' K with
      | error e' =>
        rw [ho] at h; simp only [Except.error.injEq] at h; subst h
        refine ⟨0, by simp, idx, K, ?_⟩
        rw [head?_eq'] at hm
        exact ⟨by simpa using hm, by simpa using ho⟩
      | ok op =>
        rw [ho] at h; simp only at h
        cases hrest : go ops decP ck base R os (i' + 1) adds.tail with
        | error e' => rw [hrest] at h; simp only [Except.error.injEq] at h; subst h; exact lift hrest
        | ok rest => rw [hrest] at h; cases h

/-- without RingCT data (no base, or type `Null`) the opening step never fails and opens nothing -/
theorem openStep_clear (v : Nat) (i : Nat) (K : Bytes) (hb : base = none ∨ ∃ b, base = some b ∧ b.ty = 0) :
    openStep ops decP v base i K = .ok none := by
  rcases hb with rfl | ⟨b, rfl, hb⟩
  · rfl
  · simp [openStep, hb]

theorem go_total_of_open_ok (hop : ∀ i K, ∃ op, openStep ops decP ck.v base i K = .ok op) :
    ∀ (outs : List TxOut) (i0 : Nat) (adds : List Bytes), ∃ ws, go ops decP ck base R outs i0 adds = .ok ws := by
  intro outs i0 adds
  cases h : go ops decP ck base R outs i0 adds with
  | ok ws => exact ⟨ws, rfl⟩
  | error e =>
    obtain ⟨j, _, idx, K, _, h2⟩ := go_error ops decP ck base R outs i0 adds e h
    obtain ⟨op, h3⟩ := hop (i0 + j) K
    rw [h3] at h2; cases h2
end Monero.Scan
