import MoneroModel.Proofs.Group
import MoneroModel.Proofs.Base58Bij
import MoneroModel.Spec.Address
import Mathlib.Data.Nat.Prime.Basic
import Mathlib.Data.Nat.ModEq
/-! Helpers of Props/C11 (distinct subaddress indices): cancellation in a group whose base point has order exactly `l`, and
injectivity of the by-the-book address text in the spend key. -/
namespace Monero
variable {P : Type} [AddCommGroup P] {ops : CryptoOps P}

/-- `S + m•G = S + m'•G` with reduced `m, m'` forces `m = m'` when `G` has order exactly `l` -/
theorem add_smul_base_inj (hord : ∀ k, k < ops.l → k • ops.base = 0 → k = 0) (S : P) (m m' : ℕ)
    (hm : m < ops.l) (hm' : m' < ops.l) (h : S + m • ops.base = S + m' • ops.base) : m = m' := by
  have key : ∀ a b : ℕ, b < ops.l → a ≤ b → a • ops.base = b • ops.base → a = b := by
    intro a b hb hle h1
    obtain ⟨d, rfl⟩ := Nat.exists_eq_add_of_le hle
    rw [add_smul] at h1
    have h2 : d • ops.base = 0 := by
      have : a • ops.base + 0 = a • ops.base + d • ops.base := by rw [add_zero]; exact h1
      exact (add_left_cancel this).symm
    have := hord d (by omega) h2
    omega
  have h1 := add_left_cancel h
  rcases Nat.le_total m m' with hle | hle
  · exact key m m' hm' hle h1
  · exact (key m' m hm hle h1.symm).symm

/-- `v•(S + m•G) = v•(S + m'•G)` with reduced `m ≠ m'` forces `l ∣ v` when `l` is prime and `G` has order exactly `l` -/
theorem smul_add_smul_base_inj (L : Lawful ops) (hord : ∀ k, k < ops.l → k • ops.base = 0 → k = 0)
    (hp : Nat.Prime ops.l) (v : ℕ) (hv : v % ops.l ≠ 0) (S : P) (m m' : ℕ) (hm : m < ops.l) (hm' : m' < ops.l)
    (h : v • (S + m • ops.base) = v • (S + m' • ops.base)) : m = m' := by
  have key : ∀ a b : ℕ, b < ops.l → a ≤ b → v • (a • ops.base) = v • (b • ops.base) → a = b := by
    intro a b hb hle h1
    obtain ⟨d, rfl⟩ := Nat.exists_eq_add_of_le hle
    rw [add_smul, smul_add] at h1
    have h2 : v • (d • ops.base) = 0 := by
      have : v • (a • ops.base) + 0 = v • (a • ops.base) + v • (d • ops.base) := by rw [add_zero]; exact h1
      exact (add_left_cancel this).symm
    rw [← mul_smul, ← L.smul_mod_base] at h2
    have h3 := hord _ (Nat.mod_lt _ L.l_pos) h2
    have h4 : ops.l ∣ v * d := Nat.dvd_of_mod_eq_zero h3
    rcases (Nat.Prime.dvd_mul hp).1 h4 with h5 | h5
    · exact absurd (Nat.mod_eq_zero_of_dvd h5) hv
    · have : d = 0 := Nat.eq_zero_of_dvd_of_lt h5 (by omega)
      omega
  rw [smul_add, smul_add] at h
  have h1 := add_left_cancel h
  rcases Nat.le_total m m' with hle | hle
  · exact key m m' hm' hle h1
  · exact (key m' m hm hle h1.symm).symm

/-- two multiples of a base point of order exactly `l` coincide iff the scalars are congruent mod `l` -/
theorem smul_base_eq_iff (L : Lawful ops) (hord : ∀ k, k < ops.l → k • ops.base = 0 → k = 0) (a b : ℕ) :
    a • ops.base = b • ops.base ↔ a % ops.l = b % ops.l := by
  constructor
  · intro h
    rw [← L.smul_mod_base a, ← L.smul_mod_base b] at h
    have h' : (0 : P) + (a % ops.l) • ops.base = 0 + (b % ops.l) • ops.base := by rw [h]
    exact add_smul_base_inj hord 0 _ _ (Nat.mod_lt _ L.l_pos) (Nat.mod_lt _ L.l_pos) h'
  · intro h
    rw [← L.smul_mod_base a, h, L.smul_mod_base]

/-- for prime `l` and `v ≢ 0`: `v·x ≡ v (mod l)` iff `x ≡ 1 (mod l)` -/
theorem mul_mod_eq_self_iff {l : ℕ} (hp : Nat.Prime l) (v x : ℕ) (hv : v % l ≠ 0) :
    (v * x) % l = v % l ↔ x % l = 1 % l := by
  have hc : Nat.gcd l v = 1 := by
    have : ¬ l ∣ v := fun h => hv (Nat.mod_eq_zero_of_dvd h)
    exact (Nat.Prime.coprime_iff_not_dvd hp).2 this
  constructor
  · intro h
    have h' : v * x ≡ v * 1 [MOD l] := by rw [Nat.mul_one]; exact h
    exact Nat.ModEq.cancel_left_of_coprime hc h'
  · intro h
    have h' : v * x ≡ v * 1 [MOD l] := Nat.ModEq.mul_left v h
    rw [Nat.mul_one] at h'
    exact h'

/-- the address text determines the spend key (32-byte keys): base-58 is injective and the blob is
`tag ‖ spend ‖ view ‖ payment id ‖ checksum` -/
theorem text_spend_inj (H : Bytes → Bytes) (n : Net) (k : Kind) (spend spend' view view' pid pid' : Bytes)
    (hlen : spend.length = spend'.length)
    (h : Spec.Address.text H n k spend view pid = Spec.Address.text H n k spend' view' pid') : spend = spend' := by
  unfold Spec.Address.text at h
  have hb : Spec.Address.blob H n k spend view pid = Spec.Address.blob H n k spend' view' pid' := by
    have h1 := Base58.decode_encode _ (Spec.Address.blob H n k spend view pid) rfl
    have h2 := Base58.decode_encode _ (Spec.Address.blob H n k spend' view' pid') rfl
    rw [h, h2] at h1
    exact (Option.some.inj h1).symm
  unfold Spec.Address.blob at hb
  simp only [List.cons_append, List.cons.injEq, true_and, List.append_assoc] at hb
  exact (List.append_inj hb hlen).1
end Monero
