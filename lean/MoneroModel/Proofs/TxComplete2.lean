import MoneroModel.Proofs.TxComplete
import MoneroModel.Model.Block
open Monero
/-! Completeness (C02) for the RingCT records, the full transaction and the block: on the explicit well-formedness
predicates below (DESIGN.md Appendix B), decoding an encoding returns the value and leaves the rest untouched. -/

theorem takeN_app (k r : Bytes) (n : Nat) (h : k.length = n) : takeN n (k ++ r) = some (k, r) :=
  complete_takeN n k r h

theorem pure_eq {α} (x : α) (b : Bytes) : pure' x b = some (x, b) := rfl

def wfEcdh (ty : Nat) : Ecdh → Prop
  | .std m a => ty ≤ 3 ∧ Key32 m ∧ Key32 a
  | .bp a => ¬ ty ≤ 3 ∧ a.length = 8

theorem complete_ecdh (ty : Nat) : Complete (wfEcdh ty) encEcdh (ecdh ty) := by
  intro x r h
  cases x with
  | std m a =>
    obtain ⟨ht, hm, ha⟩ := h
    simp only [encEcdh, ecdh, ht, if_true, List.append_assoc]
    rw [bind_eq (complete_key' m _ hm), bind_eq (complete_key' a _ ha)]; rfl
  | bp a =>
    obtain ⟨ht, ha⟩ := h
    simp only [encEcdh, ecdh, ht, if_false]
    rw [bind_eq (takeN_app a r 8 ha)]; rfl

def KeysOK (n : Nat) (ks : List Bytes) : Prop := ks.length = n ∧ (∀ k ∈ ks, Key32 k) ∧ n * sizes.key ≤ CAP

theorem complete_keys (n : Nat) (ks : List Bytes) (r : Bytes) (h : KeysOK n ks) :
    sizedVec sizes.key key n (encSized id ks ++ r) = some (ks, r) := by
  obtain ⟨hl, hk, hc⟩ := h
  subst hl
  exact complete_sized sizes.key Key32 id key complete_key ks r hk hc

def wfBase (i o : Nat) (b : Base) : Prop :=
  b.ty ≤ 6 ∧
  (b.ty = 0 → b.fee = 0 ∧ b.pseudo = [] ∧ b.ecdh = [] ∧ b.outPk = []) ∧
  (b.ty ≠ 0 → U64 b.fee ∧ (if b.ty = 2 then KeysOK i b.pseudo else b.pseudo = []) ∧
     b.ecdh.length = o ∧ (∀ e ∈ b.ecdh, wfEcdh b.ty e) ∧ KeysOK o b.outPk)

theorem toNat_ofNat_le6 (n : Nat) (h : n ≤ 6) : (UInt8.ofNat n).toNat = n := by
  simp [UInt8.toNat_ofNat', Nat.mod_eq_of_lt (by omega : n < 256)]

theorem complete_base (i o : Nat) : Complete (wfBase i o) encBase (base i o) := by
  intro b r ⟨hle, h0, hn0⟩
  simp only [encBase, List.cons_append, base]
  rw [bind_eq (u8_cons _ _)]
  simp only [toNat_ofNat_le6 b.ty hle]
  have hgt : ¬ (b.ty > 6) := by omega
  simp only [hgt, if_false]
  by_cases hz : b.ty = 0
  · obtain ⟨hf, hp, he, hk⟩ := h0 hz
    simp only [hz, if_true, List.nil_append]
    obtain ⟨ty, fee, ps, ec, pk⟩ := b
    simp only at hz hf hp he hk
    subst hz hf hp he hk
    rfl
  · obtain ⟨hf, hp, hel, he, hk⟩ := hn0 hz
    simp only [hz, if_false, List.append_assoc]
    rw [bind_eq (complete_varint' b.fee _ hf)]
    by_cases h2 : b.ty = 2
    · simp only [h2, if_true] at hp ⊢
      rw [bind_eq (complete_keys i b.pseudo _ hp)]
      have := complete_rep (wfEcdh b.ty) encEcdh (ecdh b.ty) (complete_ecdh b.ty) b.ecdh (encSized id b.outPk ++ r) he
      rw [hel, h2] at this
      rw [bind_eq this, bind_eq (complete_keys o b.outPk r hk)]
      obtain ⟨ty, fee, ps, ec, pk⟩ := b
      simp only at h2; subst h2; rfl
    · simp only [h2, if_false] at hp ⊢
      rw [bind_eq (pure_eq _ _)]
      simp only [List.nil_append]
      have := complete_rep (wfEcdh b.ty) encEcdh (ecdh b.ty) (complete_ecdh b.ty) b.ecdh (encSized id b.outPk ++ r) he
      rw [hel] at this
      rw [bind_eq this, bind_eq (complete_keys o b.outPk r hk)]
      obtain ⟨ty, fee, ps, ec, pk⟩ := b
      simp only at hp; subst hp; rfl

def KeyVecOK (ks : List Bytes) : Prop := VecOK sizes.key Key32 ks
theorem complete_keyvec (ks : List Bytes) (r : Bytes) (h : KeyVecOK ks) :
    vec sizes.key key (encVec id ks ++ r) = some (ks, r) :=
  complete_vec sizes.key Key32 id key complete_key ks r h.1 h.2.1 h.2.2

def wfBP (x : BP) : Prop := x.fixed.length = 32 * 6 ∧ KeyVecOK x.L ∧ KeyVecOK x.R ∧ x.tail.length = 32 * 3
def wfBPP (x : BPP) : Prop := x.fixed.length = 32 * 6 ∧ KeyVecOK x.L ∧ KeyVecOK x.R

theorem complete_bp : Complete wfBP encBP bp := by
  intro x r ⟨hf, hl, hr, ht⟩
  simp only [encBP, bp, List.append_assoc]
  rw [bind_eq (takeN_app x.fixed _ _ hf), bind_eq (complete_keyvec x.L _ hl), bind_eq (complete_keyvec x.R _ hr),
      bind_eq (takeN_app x.tail r _ ht)]; rfl

theorem complete_bpp : Complete wfBPP encBPP bpp := by
  intro x r ⟨hf, hl, hr⟩
  simp only [encBPP, bpp, List.append_assoc]
  rw [bind_eq (takeN_app x.fixed _ _ hf), bind_eq (complete_keyvec x.L _ hl), bind_eq (complete_keyvec x.R r hr)]; rfl

/-- section 1 of the prunable part -/
def wfProofs (ty o : Nat) (rs : List Bytes) (bps : List BP) (bpps : List BPP) : Prop :=
  if ty = 4 ∨ ty = 5 then rs = [] ∧ bpps = [] ∧ VecOK sizes.bp wfBP bps
  else if ty = 3 then rs = [] ∧ bpps = [] ∧ (∀ x ∈ bps, wfBP x) ∧ bps.length * sizes.bp ≤ CAP ∧ bps.length < 2^32
  else if ty = 6 then rs = [] ∧ bps = [] ∧ (∀ x ∈ bpps, wfBPP x) ∧ bpps.length * sizes.bpp ≤ CAP ∧ bpps.length < 256
  else bps = [] ∧ bpps = [] ∧ rs.length = o ∧ (∀ x ∈ rs, x.length = 6176) ∧ o * sizes.rangesig ≤ CAP

theorem foldr_leBytes (n k : Nat) (h : n < 256 ^ k) :
    (leBytes n k).foldr (fun x acc => x.toNat + 256 * acc) 0 = n := by
  induction k generalizing n with
  | zero => simp [leBytes] at *; omega
  | succ k ih =>
    unfold leBytes
    rw [List.range_succ_eq_map, List.map_cons, List.map_map, List.foldr_cons]
    have e : (List.map ((fun i => UInt8.ofNat (n / 256 ^ i % 256)) ∘ Nat.succ) (List.range k)) = leBytes (n / 256) k := by
      unfold leBytes
      apply List.map_congr_left
      intro i _
      simp only [Function.comp, Nat.pow_succ]
      congr 2
      rw [Nat.mul_comm (256 ^ i) 256, ← Nat.div_div_eq_div_mul]
    rw [e, ih (n / 256) (by rw [Nat.pow_succ] at h; omega)]
    simp [UInt8.toNat_ofNat']
    omega

theorem leBytes_length (n k : Nat) : (leBytes n k).length = k := by simp [leBytes]

theorem complete_proofs (ty o : Nat) (rs : List Bytes) (bps : List BP) (bpps : List BPP) (r : Bytes)
    (h : wfProofs ty o rs bps bpps) :
    proofsDec ty o (encProofs rs bps bpps ty ++ r) = some ((rs, bps, bpps), r) := by
  unfold wfProofs at h
  unfold proofsDec encProofs
  by_cases h45 : ty = 4 ∨ ty = 5
  · simp only [h45, if_true] at h ⊢
    obtain ⟨rfl, rfl, hv⟩ := h
    rw [bind_eq (complete_vec sizes.bp wfBP encBP bp complete_bp bps r hv.1 hv.2.1 hv.2.2)]; rfl
  · simp only [h45, if_false] at h ⊢
    by_cases h3 : ty = 3
    · simp only [h3, if_true] at h ⊢
      obtain ⟨rfl, rfl, hw, hc, hl⟩ := h
      have hm : bps.length % 2^32 = bps.length := Nat.mod_eq_of_lt hl
      simp only [List.append_assoc]
      have hpow : (256:Nat)^4 = 2^32 := by decide
      have hu : u32le (leBytes (bps.length % 2 ^ 32) 4 ++ (encSized encBP bps ++ r)) = some (bps.length, encSized encBP bps ++ r) := by
        unfold u32le
        rw [bind_eq (takeN_app _ _ 4 (leBytes_length _ 4))]
        simp only [pure', hm]
        rw [foldr_leBytes bps.length 4 (by omega)]
      rw [bind_eq hu]
      rw [bind_eq (complete_sized sizes.bp wfBP encBP bp complete_bp bps r hw hc)]; rfl
    · simp only [h3, if_false] at h ⊢
      by_cases h6 : ty = 6
      · simp only [h6, if_true] at h ⊢
        obtain ⟨rfl, rfl, hw, hc, hl⟩ := h
        have hm : bpps.length % 256 = bpps.length := Nat.mod_eq_of_lt hl
        have : (UInt8.ofNat (bpps.length % 256)).toNat = bpps.length := by
          simp [UInt8.toNat_ofNat', hm]
        have hu : u8 ([UInt8.ofNat (bpps.length % 256)] ++ encSized encBPP bpps ++ r) = some (UInt8.ofNat (bpps.length % 256), encSized encBPP bpps ++ r) := by
          simp [u8]
        rw [bind_eq hu]
        simp only [this]
        rw [bind_eq (complete_sized sizes.bpp wfBPP encBPP bpp complete_bpp bpps r hw hc)]; rfl
      · simp only [h6, if_false] at h ⊢
        obtain ⟨rfl, rfl, hl, hw, hc⟩ := h
        subst hl
        rw [bind_eq (complete_sized sizes.rangesig (fun x : Bytes => x.length = 6176) id (takeN 6176) (complete_takeN 6176) rs r hw hc)]; rfl

def wfClsag (m : Nat) (c : Clsag) : Prop := c.s.length = m + 1 ∧ (∀ k ∈ c.s, Key32 k) ∧ Key32 c.c1 ∧ Key32 c.D
theorem complete_clsag (m : Nat) : Complete (wfClsag m) encClsag (clsagDec m) := by
  intro c r ⟨hl, hs, h1, hd⟩
  simp only [encClsag, clsagDec, List.append_assoc]
  have := complete_rep Key32 id key complete_key c.s (c.c1 ++ (c.D ++ r)) hs
  rw [hl] at this
  rw [bind_eq this, bind_eq (complete_key' c.c1 _ h1), bind_eq (complete_key' c.D r hd)]; rfl

def wfMG (cols m : Nat) (g : MG) : Prop :=
  g.ss.length = m + 1 ∧ (∀ row ∈ g.ss, KeysOK cols row) ∧ Key32 g.cc
theorem complete_mg (cols m : Nat) : Complete (wfMG cols m) encMG (mgDec cols m) := by
  intro g r ⟨hl, hs, hc⟩
  simp only [encMG, mgDec, List.append_assoc]
  have hrow : Complete (KeysOK cols) (encSized id) (sizedVec sizes.key key cols) := fun row rr hr => complete_keys cols row rr hr
  have := complete_rep (KeysOK cols) (encSized id) (sizedVec sizes.key key cols) hrow g.ss (g.cc ++ r) hs
  rw [hl] at this
  rw [bind_eq this, bind_eq (complete_key' g.cc r hc)]; rfl

/-- section 2: ring signatures -/
def wfSigs (ty i m : Nat) (ms : List MG) (cs : List Clsag) : Prop :=
  if ty = 5 ∨ ty = 6 then ms = [] ∧ cs.length = i ∧ (∀ c ∈ cs, wfClsag m c)
  else cs = [] ∧ ms.length = (if ty = 2 ∨ ty = 3 ∨ ty = 4 then i else 1) ∧
       (∀ g ∈ ms, wfMG (if ty = 2 ∨ ty = 3 ∨ ty = 4 then 2 else 1 + i) m g)

theorem complete_sigs (ty i m : Nat) (ms : List MG) (cs : List Clsag) (r : Bytes) (h : wfSigs ty i m ms cs) :
    sigsDec ty i m (encSigs ms cs ty ++ r) = some ((ms, cs), r) := by
  unfold wfSigs at h
  unfold sigsDec encSigs
  by_cases h56 : ty = 5 ∨ ty = 6
  · simp only [h56, if_true] at h ⊢
    obtain ⟨rfl, hl, hw⟩ := h
    have := complete_rep (wfClsag m) encClsag (clsagDec m) (complete_clsag m) cs r hw
    rw [hl] at this
    rw [bind_eq this]; rfl
  · simp only [h56, if_false] at h ⊢
    obtain ⟨rfl, hl, hw⟩ := h
    have := complete_rep _ encMG (mgDec (if ty = 2 ∨ ty = 3 ∨ ty = 4 then 2 else 1 + i) m) (complete_mg _ m) ms r hw
    rw [hl] at this
    rw [bind_eq this]; rfl

/-- section 3: pseudo outputs -/
def wfPseudo (ty i : Nat) (po : List Bytes) : Prop := if ty ≥ 3 then KeysOK i po else po = []
theorem complete_pseudo (ty i : Nat) (po : List Bytes) (r : Bytes) (h : wfPseudo ty i po) :
    pseudoDec ty i (encPseudo po ty ++ r) = some (po, r) := by
  unfold wfPseudo at h
  unfold pseudoDec encPseudo
  by_cases h3 : ty ≥ 3
  · simp only [h3, if_true] at h ⊢; exact complete_keys i po r h
  · simp only [h3, if_false] at h ⊢; subst h; rfl

def wfPrunable (ty i o m : Nat) (p : Prunable) : Prop :=
  wfProofs ty o p.rangeSigs p.bps p.bpps ∧ wfSigs ty i m p.mgs p.clsags ∧ wfPseudo ty i p.pseudo

theorem complete_prunable (ty i o m : Nat) (hty : ty ≠ 0) (p : Prunable) (r : Bytes) (h : wfPrunable ty i o m p) :
    prunable ty i o m (encPrunable p ty ++ r) = some (some p, r) := by
  obtain ⟨h1, h2, h3⟩ := h
  unfold prunable encPrunable
  simp only [hty, if_false, List.append_assoc]
  rw [bind_eq (complete_proofs ty o _ _ _ _ h1)]
  simp only []
  rw [bind_eq (complete_sigs ty i m _ _ _ h2)]
  simp only []
  rw [bind_eq (complete_pseudo ty i _ r h3)]; rfl

/-- v1 signature rows: one per key input, as long as its ring -/
def ringsOf (ins : List TxIn) : List Nat :=
  ins.filterMap fun i => match i with | .toKey _ o _ => some o.length | _ => none
def wfSigsV1 : List Nat → List (List Bytes) → Prop
  | [], ss => ss = []
  | n :: t, ss => ∃ s rest, ss = s :: rest ∧ s.length = n ∧ (∀ x ∈ s, x.length = 64) ∧ wfSigsV1 t rest

theorem complete_sigs_v1 : ∀ (rings : List Nat) (ss : List (List Bytes)) (r : Bytes), wfSigsV1 rings ss →
    tx.sigs rings (encSized (encSized id) ss ++ r) = some (ss, r)
  | [], ss, r, h => by simp only [wfSigsV1] at h; subst h; simp [tx.sigs, encSized, pure']
  | n :: t, ss, r, h => by
    obtain ⟨s, rest, rfl, hl, hw, ht⟩ := h
    have e1 : encSized (encSized id) (s :: rest) ++ r = encSized id s ++ (encSized (encSized id) rest ++ r) := by
      simp [encSized]
    have h1 := complete_rep (fun x : Bytes => x.length = 64) id (takeN 64) (complete_takeN 64) s
      (encSized (encSized id) rest ++ r) hw
    rw [hl] at h1
    simp only [tx.sigs]
    rw [e1, bind_eq h1, bind_eq (complete_sigs_v1 t rest r ht)]; rfl

def mixinOf (ins : List TxIn) : Nat := match ins.head? with | some (.toKey _ o _) => o.length - 1 | _ => 0
def ringNonEmpty (ins : List TxIn) : Prop := match ins.head? with | some (.toKey _ o _) => o.length ≠ 0 | _ => True

/-- well-formed transaction (DESIGN.md Appendix B) -/
def wfTx (t : Tx) : Prop :=
  wfPrefix t.pre ∧
  (t.pre.version = 1 → wfSigsV1 (ringsOf t.pre.ins) t.sigs ∧ t.base = none ∧ t.prun = none) ∧
  (t.pre.version ≠ 1 → t.sigs = [] ∧
    (t.pre.ins = [] → t.base = none ∧ t.prun = none) ∧
    (t.pre.ins ≠ [] → ∃ b, t.base = some b ∧ wfBase t.pre.ins.length t.pre.outs.length b ∧
      (b.ty = 0 → t.prun = none) ∧
      (b.ty ≠ 0 → ringNonEmpty t.pre.ins ∧
        ∃ p, t.prun = some p ∧ wfPrunable b.ty t.pre.ins.length t.pre.outs.length (mixinOf t.pre.ins) p)))

theorem complete_tx : Complete wfTx encTx tx := by
  intro t r ⟨hp, h1, h2⟩
  obtain ⟨pre, sigs, bs, pr⟩ := t
  simp only at hp h1 h2
  unfold encTx tx
  simp only [List.append_assoc]
  rw [bind_eq (complete_prefix pre _ hp)]
  by_cases hv : pre.version = 1
  · obtain ⟨hs, rfl, rfl⟩ := h1 hv
    simp only [hv, if_true]
    have := complete_sigs_v1 (ringsOf pre.ins) sigs r hs
    exact (bind_eq this).trans rfl
  · obtain ⟨rfl, he, hne⟩ := h2 hv
    simp only [hv, if_false]
    by_cases hi : pre.ins = []
    · obtain ⟨rfl, rfl⟩ := he hi
      simp [hi, pure']
    · have hlen : ¬ (pre.ins.length = 0) := by simpa using hi
      simp only [hlen, if_false]
      obtain ⟨b, rfl, hb, hz, hnz⟩ := hne hi
      simp only [List.append_assoc]
      by_cases hty : b.ty = 0
      · have := hz hty; subst this
        simp only [List.nil_append]
        rw [bind_eq (complete_base _ _ b r hb)]
        simp [hty, pure']
      · obtain ⟨hring, p, rfl, hpr⟩ := hnz hty
        simp only [List.append_assoc]
        rw [bind_eq (complete_base _ _ b _ hb)]
        simp only [hty, ne_eq, not_false_eq_true, if_true]
        unfold mixinOf at hpr
        unfold ringNonEmpty at hring
        cases hh : pre.ins.head? with
        | none =>
          simp only [hh] at hpr
          dsimp only
          rw [bind_eq (complete_prunable b.ty _ _ 0 hty p r hpr)]; rfl
        | some i0 =>
          cases i0 with
          | gen g =>
            simp only [hh] at hpr
            dsimp only
            rw [bind_eq (complete_prunable b.ty _ _ 0 hty p r hpr)]; rfl
          | toKey a o k =>
            simp only [hh] at hpr hring
            dsimp only
            simp only [hring, if_false]
            rw [bind_eq (complete_prunable b.ty _ _ _ hty p r hpr)]; rfl

/-! Block level -/
def wfHeader (h : Header) : Prop := U64 h.major ∧ U64 h.minor ∧ U64 h.timestamp ∧ Key32 h.prev ∧ h.nonce < 2^32
theorem complete_header : Complete wfHeader encHeader header := by
  intro h r ⟨h1, h2, h3, h4, h5⟩
  simp only [encHeader, header, List.append_assoc]
  rw [bind_eq (complete_varint' h.major _ h1), bind_eq (complete_varint' h.minor _ h2),
      bind_eq (complete_varint' h.timestamp _ h3), bind_eq (complete_key' h.prev _ h4)]
  have hpow : (256:Nat)^4 = 2^32 := by decide
  have hu : uintLE 4 (encUintLE 4 h.nonce ++ r) = some (h.nonce, r) := by
    unfold uintLE encUintLE
    rw [bind_eq (takeN_app _ r 4 (leBytes_length _ 4))]
    simp only [pure']
    rw [foldr_leBytes h.nonce 4 (by omega)]
  rw [bind_eq hu]; rfl

def wfBlock (b : Block) : Prop := wfHeader b.hdr ∧ wfTx b.miner ∧ KeyVecOK b.hashes
theorem complete_block : Complete wfBlock encBlock block := by
  intro b r ⟨h1, h2, h3⟩
  simp only [encBlock, block, List.append_assoc]
  rw [bind_eq (complete_header b.hdr _ h1), bind_eq (complete_tx b.miner _ h2), bind_eq (complete_keyvec b.hashes r h3)]; rfl
