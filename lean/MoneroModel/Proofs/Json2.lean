import MoneroModel.Proofs.Json1
/-! Round-trip lemmas for the composite types of the serde model (C19). Core Lean only. -/
namespace Monero.Json

/-! the derived struct visitor on the object the derived serialiser writes (keys are literals: decided by evaluation) -/
theorem fields2 (a b : String) (x y : Json) (m : Nat) (h : a ≠ b) :
    fieldsOf [a, b] m (.obj [(a, x), (b, y)]) = some [some x, some y] := by
  have h1 : (a == b) = false := by simpa using h
  have h2 : (b == a) = false := by simpa using h.symm
  simp only [fieldsOf, mapOpt, lookupAll, List.filter, h1, h2, beq_self_eq_true, List.map]

theorem sig_rt (b : Bytes) (h : b.length = 64) : sigFromJson (sigJ b) = some b := by
  simp only [sigFromJson, sigJ, fields2 "c" "r" _ _ 2 (by decide), req,
    keyFromJson_keyJ _ (slice_length b 0 (by omega)), keyFromJson_keyJ _ (slice_length b 1 (by omega)), slices2 b h]

theorem txIn_rt (i : TxIn) (h : wfTxIn i) : txInFromJson (txInJ i) = some i := by
  cases i with
  | gen ht =>
    simp only [wfTxIn] at h
    simp only [txInJ, txInFromJson, if_true, fieldsOf_one, req, readUInt_natJ U64 ht h, Option.map_some]
  | toKey a o k =>
    obtain ⟨ha, ho, hk⟩ := h
    have hf : fieldsOf ["amount", "key_offsets", "k_image"] 3
        (.obj [("amount", natJ a), ("key_offsets", listJ natJ o), ("k_image", .obj [("image", bytesJ k)])]) =
        some [some (natJ a), some (listJ natJ o), some (.obj [("image", bytesJ k)])] := rfl
    have ho' := readVec_listJ natJ (readUInt U64) o (fun x hx => readUInt_natJ U64 x (ho x hx))
    simp only [txInJ, txInFromJson, (by decide : ¬ ("ToKey" = "Gen")), if_false, if_true, hf, req,
      readUInt_natJ U64 a ha, ho', keyImage_rt k hk]

theorem target_rt (t : Target) (h : wfTarget t) : targetFromJson (targetJ t) = some t := by
  cases t with
  | key k =>
    simp only [wfTarget] at h
    simp only [targetJ, targetFromJson, if_true, fieldsOf_one, req, readBytesN_bytesJ k 32 h, Option.map_some]
  | tagged k t =>
    simp only [wfTarget] at h
    simp only [targetJ, targetFromJson, (by decide : ¬ ("ToTaggedKey" = "ToKey")), if_false, if_true,
      fields2 "key" "view_tag" _ _ 2 (by decide), req, readBytesN_bytesJ k 32 h, readU8_natJ]

theorem txOut_rt (o : TxOut) (h : wfTxOut o) : txOutFromJson (txOutJ o) = some o := by
  obtain ⟨ha, ht⟩ := h
  simp only [txOutJ, txOutFromJson, fields2 "amount" "target" _ _ 2 (by decide), req, readUInt_natJ U64 _ ha,
    target_rt _ ht]

theorem prefix_rt (p : Prefix) (h : wfPrefix p) : prefixFromJson (prefixJ p) = some p := by
  obtain ⟨hv, hu, hi, ho⟩ := h
  have hf : fieldsOf ["version", "unlock_time", "inputs", "outputs", "extra"] 5 (prefixJ p) =
      some [some (natJ p.version), some (natJ p.unlock), some (listJ txInJ p.ins), some (listJ txOutJ p.outs),
        some (bytesJ p.extra)] := rfl
  simp only [prefixFromJson, hf, req, readUInt_natJ U64 _ hv, readUInt_natJ U64 _ hu,
    readVec_listJ txInJ txInFromJson p.ins (fun x hx => txIn_rt x (hi x hx)),
    readVec_listJ txOutJ txOutFromJson p.outs (fun x hx => txOut_rt x (ho x hx)), readByteVec_bytesJ]

theorem rctType_rt : ∀ ty, ty < 7 → rctTypeFromJson (rctTypeJ ty) = some ty := by decide

theorem ecdh_rt (e : Ecdh) (h : wfEcdh e) : ecdhFromJson (ecdhJ e) = some e := by
  cases e with
  | std m a =>
    obtain ⟨hm, ha⟩ := h
    simp only [ecdhJ, ecdhFromJson, if_true, fields2 "mask" "amount" _ _ 2 (by decide), req, keyFromJson_keyJ m hm,
      keyFromJson_keyJ a ha]
  | bp a =>
    simp only [wfEcdh] at h
    simp only [ecdhJ, ecdhFromJson, (by decide : ¬ ("Bulletproof" = "Standard")), if_false, if_true, fieldsOf_one,
      req, readBytesN_bytesJ a 8 h, Option.map_some]

theorem base_rt (b : Base) (h : wfBase b) : baseFromJson (baseJ b) = some b := by
  obtain ⟨ht, hf, hp, he, ho⟩ := h
  have hfs : fieldsOf ["rct_type", "txn_fee", "pseudo_outs", "ecdh_info", "out_pk"] 5 (baseJ b) =
      some [some (rctTypeJ b.ty), some (natJ b.fee), some (listJ keyJ b.pseudo), some (listJ ecdhJ b.ecdh),
        some (listJ ctKeyJ b.outPk)] := rfl
  simp only [baseFromJson, hfs, req, rctType_rt _ ht, readUInt_natJ U64 _ hf, readVec_keys _ hp,
    readVec_listJ ecdhJ ecdhFromJson b.ecdh (fun x hx => ecdh_rt x (he x hx)),
    readVec_listJ ctKeyJ ctKeyFromJson b.outPk (fun x hx => ctKeyFromJson_ctKeyJ x (ho x hx))]

theorem rangeSig_rt (b : Bytes) (h : b.length = 6176) : rangeSigFromJson (rangeSigJ b) = some b := by
  have h0 : (b.take 2048).length = 2048 := by rw [List.length_take]; omega
  have h1 : ((b.drop 2048).take 2048).length = 2048 := by rw [List.length_take, List.length_drop]; omega
  have h2 : ((b.drop 4096).take 32).length = 32 := by rw [List.length_take, List.length_drop]; omega
  have h3 : (b.drop 4128).length = 2048 := by rw [List.length_drop]; omega
  have hf : ∀ x y z : Json, fieldsOf ["s0", "s1", "ee"] 3 (.obj [("s0", x), ("s1", y), ("ee", z)]) =
      some [some x, some y, some z] := fun _ _ _ => rfl
  have e1 : (b.drop 4096).take 32 ++ b.drop 4128 = b.drop 4096 := by
    have : b.drop 4128 = (b.drop 4096).drop 32 := by rw [List.drop_drop]
    rw [this, List.take_append_drop]
  have e2 : (b.drop 2048).take 2048 ++ b.drop 4096 = b.drop 2048 := by
    have : b.drop 4096 = (b.drop 2048).drop 2048 := by rw [List.drop_drop]
    rw [this, List.take_append_drop]
  simp only [rangeSigFromJson, rangeSigJ, boroSigFromJson, fields2 "asig" "Ci" _ _ 2 (by decide), hf, req, key64_rt _ h0,
    key64_rt _ h1, key64_rt _ h3, keyFromJson_keyJ _ h2, List.append_assoc, e1, e2, List.take_append_drop]

theorem bp_rt (x : BP) (h : wfBP x) : bpFromJson (bpJ x) = some x := by
  obtain ⟨hf, hl, hr, ht⟩ := h
  have hfs : fieldsOf ["A", "S", "T1", "T2", "taux", "mu", "L", "R", "a", "b", "t"] 11 (bpJ x) =
      some [some (keyJ (slice x.fixed 0)), some (keyJ (slice x.fixed 1)), some (keyJ (slice x.fixed 2)),
        some (keyJ (slice x.fixed 3)), some (keyJ (slice x.fixed 4)), some (keyJ (slice x.fixed 5)),
        some (listJ keyJ x.L), some (listJ keyJ x.R), some (keyJ (slice x.tail 0)), some (keyJ (slice x.tail 1)),
        some (keyJ (slice x.tail 2))] := rfl
  simp only [bpFromJson, hfs, req,
    keyFromJson_keyJ _ (slice_length x.fixed 0 (by omega)), keyFromJson_keyJ _ (slice_length x.fixed 1 (by omega)),
    keyFromJson_keyJ _ (slice_length x.fixed 2 (by omega)), keyFromJson_keyJ _ (slice_length x.fixed 3 (by omega)),
    keyFromJson_keyJ _ (slice_length x.fixed 4 (by omega)), keyFromJson_keyJ _ (slice_length x.fixed 5 (by omega)),
    keyFromJson_keyJ _ (slice_length x.tail 0 (by omega)), keyFromJson_keyJ _ (slice_length x.tail 1 (by omega)),
    keyFromJson_keyJ _ (slice_length x.tail 2 (by omega)), readVec_keys _ hl, readVec_keys _ hr, slices6 _ hf, slices3 _ ht]

theorem bpp_rt (x : BPP) (h : wfBPP x) : bppFromJson (bppJ x) = some x := by
  obtain ⟨hf, hl, hr⟩ := h
  have hfs : fieldsOf ["A", "A1", "B", "r1", "s1", "d1", "L", "R"] 8 (bppJ x) =
      some [some (keyJ (slice x.fixed 0)), some (keyJ (slice x.fixed 1)), some (keyJ (slice x.fixed 2)),
        some (keyJ (slice x.fixed 3)), some (keyJ (slice x.fixed 4)), some (keyJ (slice x.fixed 5)),
        some (listJ keyJ x.L), some (listJ keyJ x.R)] := rfl
  simp only [bppFromJson, hfs, req,
    keyFromJson_keyJ _ (slice_length x.fixed 0 (by omega)), keyFromJson_keyJ _ (slice_length x.fixed 1 (by omega)),
    keyFromJson_keyJ _ (slice_length x.fixed 2 (by omega)), keyFromJson_keyJ _ (slice_length x.fixed 3 (by omega)),
    keyFromJson_keyJ _ (slice_length x.fixed 4 (by omega)), keyFromJson_keyJ _ (slice_length x.fixed 5 (by omega)),
    readVec_keys _ hl, readVec_keys _ hr, slices6 _ hf]

theorem mg_rt (m : MG) (h : wfMG m) : mgFromJson (mgJ m) = some m := by
  obtain ⟨hs, hc⟩ := h
  simp only [mgFromJson, mgJ, fields2 "ss" "cc" _ _ 2 (by decide), req, keyFromJson_keyJ _ hc,
    readVec_listJ (listJ keyJ) (readVec keyFromJson) m.ss (fun r hr => readVec_keys r (hs r hr))]

theorem clsag_rt (c : Clsag) (h : wfClsag c) : clsagFromJson (clsagJ c) = some c := by
  obtain ⟨hs, h1, hd⟩ := h
  have hf : ∀ x y z : Json, fieldsOf ["s", "c1", "D"] 3 (.obj [("s", x), ("c1", y), ("D", z)]) =
      some [some x, some y, some z] := fun _ _ _ => rfl
  simp only [clsagFromJson, clsagJ, hf, req, keyFromJson_keyJ _ h1, keyFromJson_keyJ _ hd, readVec_keys _ hs]

theorem prunable_rt (p : Prunable) (h : wfPrunable p) : prunableFromJson (prunableJ p) = some p := by
  obtain ⟨hr, hb, hbp, hm, hc, hp⟩ := h
  have hfs : fieldsOf ["range_sigs", "bulletproofs", "bulletproofplus", "MGs", "Clsags", "pseudo_outs"] 6 (prunableJ p) =
      some [some (listJ rangeSigJ p.rangeSigs), some (listJ bpJ p.bps), some (listJ bppJ p.bpps), some (listJ mgJ p.mgs),
        some (listJ clsagJ p.clsags), some (listJ keyJ p.pseudo)] := rfl
  simp only [prunableFromJson, hfs, req, readVec_keys _ hp,
    readVec_listJ rangeSigJ rangeSigFromJson p.rangeSigs (fun x hx => rangeSig_rt x (hr x hx)),
    readVec_listJ bpJ bpFromJson p.bps (fun x hx => bp_rt x (hb x hx)),
    readVec_listJ bppJ bppFromJson p.bpps (fun x hx => bpp_rt x (hbp x hx)),
    readVec_listJ mgJ mgFromJson p.mgs (fun x hx => mg_rt x (hm x hx)),
    readVec_listJ clsagJ clsagFromJson p.clsags (fun x hx => clsag_rt x (hc x hx))]

theorem optField_optJ {α} (f : α → Json) (g : Json → Option α) (x : Option α) (hnn : ∀ y, f y ≠ .null)
    (h : ∀ y, x = some y → g (f y) = some y) : optField g (some (optJ f x)) = some x := by
  cases x with
  | none => rfl
  | some y =>
    have := h y rfl
    simp only [optField, optJ]
    cases hj : f y with
    | null => exact absurd hj (hnn y)
    | _ => simp only [readOption, ← hj, this, Option.map_some]

theorem rctSig_rt (b : Option Base) (p : Option Prunable) (hb : ∀ y, b = some y → wfBase y)
    (hp : ∀ y, p = some y → wfPrunable y) : rctSigFromJson (rctSigJ b p) = some (b, p) := by
  have h1 := optField_optJ baseJ baseFromJson b (fun y => by simp [baseJ]) (fun y hy => base_rt y (hb y hy))
  have h2 := optField_optJ prunableJ prunableFromJson p (fun y => by simp [prunableJ]) (fun y hy => prunable_rt y (hp y hy))
  simp only [rctSigFromJson, rctSigJ, fields2 "sig" "p" _ _ 2 (by decide), h1, h2]

theorem tx_rt (t : Tx) (h : wfTx t) : txFromJson (txJ t) = some t := by
  obtain ⟨hp, hs, hb, hpr⟩ := h
  have hf : ∀ x y z : Json, fieldsOf ["prefix", "signatures", "rct_signatures"] 3
      (.obj [("prefix", x), ("signatures", y), ("rct_signatures", z)]) = some [some x, some y, some z] := fun _ _ _ => rfl
  simp only [txFromJson, txJ, hf, req, prefix_rt _ hp, rctSig_rt _ _ hb hpr,
    readVec_listJ (listJ sigJ) (readVec sigFromJson) t.sigs
      (fun r hr => readVec_listJ sigJ sigFromJson r (fun s hs' => sig_rt s (hs r hr s hs')))]

theorem header_rt (h : Header) (hw : wfHeader h) : headerFromJson (headerJ h) = some h := by
  obtain ⟨h1, h2, h3, h4, h5⟩ := hw
  have hf : fieldsOf ["major_version", "minor_version", "timestamp", "prev_id", "nonce"] 5 (headerJ h) =
      some [some (natJ h.major), some (natJ h.minor), some (natJ h.timestamp), some (bytesJ h.prev), some (natJ h.nonce)] := rfl
  simp only [headerFromJson, hf, req, readUInt_natJ U64 _ h1, readUInt_natJ U64 _ h2, readUInt_natJ U64 _ h3,
    readBytesN_bytesJ _ 32 h4, readUInt_natJ U32 _ h5]

theorem block_rt (b : Block) (h : wfBlock b) : blockFromJson (blockJ b) = some b := by
  obtain ⟨hh, ht, hs⟩ := h
  have hf : ∀ x y z : Json, fieldsOf ["header", "miner_tx", "tx_hashes"] 3
      (.obj [("header", x), ("miner_tx", y), ("tx_hashes", z)]) = some [some x, some y, some z] := fun _ _ _ => rfl
  simp only [blockFromJson, blockJ, hf, req, header_rt _ hh, tx_rt _ ht,
    readVec_listJ bytesJ (readBytesN 32) b.hashes (fun x hx => readBytesN_bytesJ x 32 (hs x hx))]

theorem index_rt (i : Nat × Nat) (h1 : i.1 < U32) (h2 : i.2 < U32) : indexFromJson (indexJ i) = some i := by
  simp only [indexFromJson, indexJ, fields2 "major" "minor" _ _ 2 (by decide), req, readUInt_natJ U32 _ h1,
    readUInt_natJ U32 _ h2]

end Monero.Json
