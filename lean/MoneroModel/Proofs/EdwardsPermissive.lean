import MoneroModel.Proofs.EdwardsLawful
import MoneroModel.Proofs.KeysComplete
import MoneroModel.Drv.C07
/-! dalek's PERMISSIVE `CompressedEdwardsY::decompress` (what the scan applies to on-chain commitments and to the constant `H`)
as a decoder into the Ed25519 group: `decPermissive`, built from the model `Keys.decompressDalek` (C13). It extends the strict
decoder `decPoint` (= `edOps.dec`, `PublicKey::from_slice`), hence inverts the encoding and decodes `H`; and the decoder the
compiled driver runs (`Drv.C07.decP`) refines it. With it the C08 theorems for Ed25519 have no hypothesis about `decP` left. -/
namespace Monero.Edw
open Ed Monero.Keys

theorem decompressDalek_t (k : ℕ) (P : Pt) (h : decompressDalek k = some P) : P.t = P.x * P.y % Ed.p ∧ P.z = 1 := by
  unfold decompressDalek at h
  simp only [] at h
  split at h
  · cases h
  · simp only [Option.some.injEq] at h
    subst h
    exact ⟨rfl, rfl⟩

/-- what the permissive decompression returns is a valid representation of a curve point -/
theorem decompressDalek_valid (k : ℕ) (P : Pt) (h : decompressDalek k = some P) : Valid P := by
  obtain ⟨_, hz, hx, hy, hcurve, _⟩ := decompressDalek_sound k P h
  obtain ⟨ht, _⟩ := decompressDalek_t k P h
  have hz1 : ((P.z : ℕ) : F) = 1 := by rw [hz]; simp
  refine ⟨⟨hx, hy, by rw [hz]; exact p_gt_one, by rw [ht]; exact Nat.mod_lt _ p_pos⟩, by rw [hz1]; exact one_ne_zero, ?_, ?_⟩
  · rw [hz1, ht, cast_mod]; push_cast; ring
  · unfold OnCurve aff dF
    simp only [hz1, div_one]
    linear_combination hcurve

/-- dalek's `CompressedEdwardsY::decompress` on 32 bytes, into the group -/
def decPermissive (b : Bytes) : Option EdPoint :=
  if b.length = 32 then Option.pmap toPoint (decompressDalek (Ed.leNat b)) (fun _ h => decompressDalek_valid _ _ h) else none

/-- the decoder of the compiled driver refines it -/
theorem decP_refines (b : Bytes) :
    (∀ Q, Drv.C07.decP b = some Q → ∃ h : Valid Q, decPermissive b = some (toPoint Q h)) ∧
    (Drv.C07.decP b = none → decPermissive b = none) := by
  unfold Drv.C07.decP decPermissive
  by_cases hlen : b.length = 32
  · simp only [hlen, if_true]
    constructor
    · intro Q hQ
      exact ⟨decompressDalek_valid _ _ hQ, by rw [Option.pmap_some' hQ]⟩
    · intro hn; rw [Option.pmap_none' hn]
  · simp only [hlen, if_false]
    exact ⟨fun Q h => (by cases h), fun _ => trivial⟩

/-- the permissive decoder extends the strict one (`PublicKey::from_slice` accepts exactly the encodings that decompress and
re-compress to themselves) -/
theorem decPermissive_of_strict (b : Bytes) (X : EdPoint) (h : decPoint b = some X) : decPermissive b = some X := by
  cases hd : Ed.decodePt b with
  | none => rw [decPoint_none hd] at h; cases h
  | some P0 =>
    rw [decPoint_some hd] at h
    have hX : toPoint P0 (decodePt_valid hd).1 = X := Option.some.inj h
    have hacc : publicAccept b = true := by rw [publicAccept_eq_ref, hd]; rfl
    obtain ⟨hlen, P, hP, henc⟩ := (publicAccept_iff b).mp hacc
    have hv := decompressDalek_valid _ _ hP
    unfold decPermissive
    rw [if_pos hlen, Option.pmap_some' hP, Option.some.injEq, ← hX, toPoint_eq_iff]
    exact encodePt_inj hv (decodePt_valid hd).1 (by rw [henc, encodePt_decodePt hd])

/-- … so it inverts the encoding -/
theorem decPermissive_enc (X : EdPoint) : decPermissive (edOps.enc X) = some X :=
  decPermissive_of_strict _ X (by rw [← edOps_dec]; exact edOps_dec_enc X)

theorem keccak256_length (m : Bytes) : (Keccak.keccak256 m).length = 32 := by
  unfold Keccak.keccak256; simp
end Monero.Edw
