import MoneroModel.Proofs.VarIntComplete
import MoneroModel.Spec.Leb128
open Monero
/-! The encoder as written equals the recursive form used in the codec proofs, and that is LEB128. -/

theorem or128 (g : Nat) (h : g < 128) : g ||| 128 = g + 128 := by
  have := Nat.two_pow_add_eq_or_of_lt (i := 7) (b := g) (by simpa using h) 1
  rw [Nat.or_comm]
  simp at this
  omega

theorem wire_eq : ∀ gs : List Nat, gs ≠ [] → (∀ g ∈ gs, g < 128) →
    wire gs = gs.dropLast.map (fun g => UInt8.ofNat (g ||| 128)) ++ [UInt8.ofNat (gs.getLast?.getD 0)]
  | [], h, _ => absurd rfl h
  | [g], _, _ => by simp [wire]
  | g :: g' :: rest, _, hl => by
    have ih := wire_eq (g' :: rest) (by simp) (fun y hy => hl y (by simp [hy]))
    have hg := hl g (by simp)
    simp only [wire, ih, List.dropLast_cons₂, List.map_cons, List.cons_append, List.getLast?_cons_cons, or128 g hg]

theorem groups_canon : ∀ n, (groups n).length = 1 ∨ (groups n).getLast? ≠ some 0 := by
  intro n
  induction n using Nat.strongRecOn with
  | _ n ih =>
    rw [groups]
    by_cases hlt : n < 128
    · simp [hlt]
    · simp only [hlt, dif_neg, not_false_eq_true]
      right
      have hne := groups_ne_nil (n / 128)
      rcases ih (n / 128) (by omega) with h1 | h1
      · -- single group: it is n/128 itself, non-zero
        have : groups (n / 128) = [n / 128] := by
          rw [groups]; by_cases h2 : n / 128 < 128
          · simp [h2]
          · rw [groups] at h1; simp [h2] at h1; exact absurd h1 (groups_ne_nil _)
        rw [this]; simp; omega
      · cases hg : groups (n / 128) with
        | nil => exact absurd hg hne
        | cons a t => rw [hg] at h1; simpa [List.getLast?_cons_cons] using h1

theorem encVarint_eq_wire (n : Nat) : encVarint n = wire (groups n) := by
  have := enc_valLSB (groups n) (groups_ne_nil n) (groups_lt n) (groups_canon n)
  rwa [valLSB_groups] at this

/-- the encoder as written (`encVarintImp`) produces the recursive form, and reports its length -/
theorem encVarintImp_eq (n : Nat) : encVarintImp n = (encVarint n, (encVarint n).length) := by
  have hne := groups_ne_nil n
  have hw := wire_eq (groups n) hne (groups_lt n)
  unfold encVarintImp
  cases hl : (groups n).getLast? with
  | none => simp [List.getLast?_eq_none_iff] at hl; exact absurd hl hne
  | some last =>
    simp only []
    rw [encVarint_eq_wire, hw, hl]
    simp

/-- bookkeeping only, NOT evidence: `Monero.encVarint` and `Spec.leb128` are the same recursion up to `a + b = b + a`.
What ties the encoder as written to the reference is `C14_enc_eq_leb128` (about `encVarintImp`: groups / dropLast /
getLast), and what makes `leb128` more than a name is `C14_leb128_value` + `C14_shortest` + `C14_leb128Len`. -/
theorem encVarint_eq_leb128 (n : Nat) : encVarint n = Spec.leb128 n := by
  induction n using Nat.strongRecOn with
  | _ n ih =>
    rw [encVarint, Spec.leb128]
    by_cases hlt : n < 128
    · simp [hlt]
    · simp only [hlt, dif_neg, not_false_eq_true, ih (n / 128) (by omega), Nat.add_comm]
