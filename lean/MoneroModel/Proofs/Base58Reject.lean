import MoneroModel.Proofs.Base58Imp
/-! What the model of the `base58-monero` crate (`Monero.B58`) and the model of `hex::decode` (`Monero.HexM`) REFUSE:
the block decoder characterised by length / alphabet / value, a refused block at any block boundary refuses the text,
a character outside the alphabet refuses the text, bytes ≥ 0x80 are in neither alphabet. -/
open Monero

namespace Base58

/-! ### the alphabet, as a set -/
theorem indexFrom_none (c : UInt8) : ∀ (l : List UInt8) (i : Nat), indexFrom c l i = none ↔ c ∉ l
  | [], _ => by simp [indexFrom]
  | x :: l, i => by
    simp only [indexFrom, List.mem_cons, not_or]
    by_cases h : x = c
    · simp [h]
    · rw [if_neg h, indexFrom_none c l (i + 1)]
      exact ⟨fun hl => ⟨fun e => h e.symm, hl⟩, fun hl => hl.2⟩

/-- a character has no digit iff it is not one of the 58 characters of the alphabet -/
theorem digitOf_none (c : UInt8) : digitOf c = none ↔ c ∉ alphabet := indexFrom_none c alphabet 0

/-- a text has no digit string iff one of its characters is outside the alphabet -/
theorem digitsOf_none : ∀ cs : List UInt8, digitsOf cs = none ↔ ∃ c, c ∈ cs ∧ c ∉ alphabet
  | [] => by simp [digitsOf]
  | x :: cs => by
    simp only [digitsOf, List.mem_cons]
    cases hd : digitOf x with
    | none =>
      simp only [true_iff]
      exact ⟨x, Or.inl rfl, (digitOf_none x).1 hd⟩
    | some d =>
      have hx : ¬ x ∉ alphabet := fun hx => by rw [(digitOf_none x).2 hx] at hd; exact absurd hd (by simp)
      cases hr : digitsOf cs with
      | none =>
        simp only [true_iff]
        obtain ⟨c, hc, hn⟩ := (digitsOf_none cs).1 hr
        exact ⟨c, Or.inr hc, hn⟩
      | some ds =>
        simp only [false_iff, reduceCtorEq]
        rintro ⟨c, hc | hc, hn⟩
        · subst hc; exact hx hn
        · have := (digitsOf_none cs).2 ⟨c, hc, hn⟩
          rw [hr] at this; exact absurd this (by simp)

/-- every character of the alphabet is ASCII -/
theorem alphabet_ascii : ∀ c ∈ alphabet, c.toNat < 128 := by decide
end Base58

namespace Monero.B58

private theorem position_sizes' : ∀ s, s < 12 → position (· == s) ENCODED_BLOCK_SIZES = Base58.decSize s := by
  decide

/-- `decode_block` in closed form: legal length, all characters in the alphabet, value below 256^k; the result is the
8-byte big-endian form of the value together with the byte count `k` -/
theorem decodeBlock_char (cs : List UInt8) :
    decodeBlock cs =
      match Base58.decSize cs.length, Base58.digitsOf cs with
      | some k, some ds =>
        if Base58.ofDigits 58 ds < 256 ^ k then some (beBytes 8 (Base58.ofDigits 58 ds), k) else none
      | _, _ => none := by
  unfold decodeBlock
  simp only [FULL_ENCODED_BLOCK_SIZE]
  by_cases hl : cs.length > 11
  · simp only [hl, if_true]
    cases hk : Base58.decSize cs.length with
    | none => rfl
    | some k => have := decSize_le _ _ hk; omega
  · simp only [hl, if_false]
    rw [position_sizes' _ (by omega)]
    cases hk : Base58.decSize cs.length with
    | none => rfl
    | some k =>
      obtain ⟨hk8, _⟩ := Base58.decSize_some _ _ hk
      simp only [accDigits_eq, digitsOf_reverse]
      cases hd : Base58.digitsOf cs with
      | none => rfl
      | some ds =>
        simp only [Option.map_some, Nat.zero_add, Nat.one_mul, max_eq k hk8, Base58.ofDigits]
        rfl

/-- acceptance of one block by the crate's `decode_block`, exactly -/
theorem decodeBlock_some_iff (cs : List UInt8) (d : Bytes) (k : Nat) :
    decodeBlock cs = some (d, k) ↔
      ∃ ds, Base58.decSize cs.length = some k ∧ Base58.digitsOf cs = some ds ∧ Base58.ofDigits 58 ds < 256 ^ k ∧
        d = beBytes 8 (Base58.ofDigits 58 ds) := by
  rw [decodeBlock_char]
  constructor
  · intro h
    cases hk : Base58.decSize cs.length with
    | none => simp [hk] at h
    | some k' =>
      cases hd : Base58.digitsOf cs with
      | none => simp [hk, hd] at h
      | some ds =>
        simp only [hk, hd] at h
        by_cases hlt : Base58.ofDigits 58 ds < 256 ^ k'
        · simp only [hlt, if_true, Option.some.injEq, Prod.mk.injEq] at h
          obtain ⟨h1, rfl⟩ := h
          exact ⟨ds, rfl, rfl, hlt, h1.symm⟩
        · simp [hlt] at h
  · rintro ⟨ds, hk, hd, hlt, rfl⟩
    simp [hk, hd, hlt]

/-- refusal of one block, exactly: illegal length, or a foreign character, or a value that does not fit -/
theorem decodeBlock_none_iff (cs : List UInt8) :
    decodeBlock cs = none ↔
      Base58.decSize cs.length = none ∨ (∃ c, c ∈ cs ∧ c ∉ Base58.alphabet) ∨
      ∃ k ds, Base58.decSize cs.length = some k ∧ Base58.digitsOf cs = some ds ∧ 256 ^ k ≤ Base58.ofDigits 58 ds := by
  rw [decodeBlock_char, ← Base58.digitsOf_none]
  cases hk : Base58.decSize cs.length with
  | none => simp
  | some k =>
    cases hd : Base58.digitsOf cs with
    | none => simp
    | some ds =>
      by_cases hlt : Base58.ofDigits 58 ds < 256 ^ k
      · simp [hlt]
      · simp [hlt, Nat.not_lt.1 hlt]

/-- a block with a character outside the alphabet is refused -/
theorem decodeBlock_foreign (cs : List UInt8) (h : ∃ c, c ∈ cs ∧ c ∉ Base58.alphabet) : decodeBlock cs = none :=
  (decodeBlock_none_iff cs).2 (Or.inr (Or.inl h))

/-! ### a refused block refuses the text -/

/-- the slice `data[8 - size..]` of a refused block -/
private theorem map_none {β} (f : Bytes × Nat → β) (cs : List UInt8) (h : decodeBlock cs = none) :
    (decodeBlock cs).map f = none := by rw [h]; rfl

/-- whole blocks in front do not rescue a refused text -/
theorem decode_append_none : ∀ (n : Nat) (pre s : List UInt8), pre.length = 11 * n → decode s = none →
    decode (pre ++ s) = none
  | 0, pre, s, hp, h => by
    have : pre = [] := List.eq_nil_of_length_eq_zero (by omega)
    subst this; simpa using h
  | n + 1, pre, s, hp, h => by
    rw [decode_cons _ (by rw [List.length_append]; omega)]
    have hd : (pre ++ s).drop 11 = pre.drop 11 ++ s := by
      rw [List.drop_append_of_le_length (by omega)]
    rw [hd, decode_append_none n (pre.drop 11) s (by rw [List.length_drop]; omega) h]
    simp

/-- a text whose first block (11 characters, or the whole text if it is shorter) is refused is refused -/
theorem decode_head_none (blk rest : List UInt8) (hb : blk.length = 11 ∨ (blk.length ≤ 11 ∧ rest = []))
    (hbad : decodeBlock blk = none) : decode (blk ++ rest) = none := by
  have hne : 0 < blk.length := by
    cases blk with
    | nil => exact absurd hbad (by decide)
    | cons _ _ => simp
  rw [decode_cons _ (by rw [List.length_append]; omega)]
  have ht : (blk ++ rest).take 11 = blk := by
    rcases hb with hb | ⟨hb, rfl⟩
    · rw [← hb]; exact List.take_left
    · rw [List.append_nil]; exact List.take_of_length_le hb
  rw [ht, map_none _ _ hbad]
  simp

/-- a character outside the alphabet anywhere in the text: the text is refused -/
theorem decode_foreign : ∀ (m : Nat) (s : List UInt8), s.length = m → (∃ c, c ∈ s ∧ c ∉ Base58.alphabet) →
    decode s = none := by
  intro m
  induction m using Nat.strongRecOn with
  | _ m ih =>
    intro s hm h
    obtain ⟨c, hc, hn⟩ := h
    have hpos : 0 < s.length := List.length_pos_of_mem hc
    rw [decode_cons s hpos]
    rw [← List.take_append_drop 11 s, List.mem_append] at hc
    rcases hc with hc | hc
    · rw [map_none _ _ (decodeBlock_foreign _ ⟨c, hc, hn⟩)]; simp
    · rw [ih (s.drop 11).length (by rw [List.length_drop]; omega) (s.drop 11) rfl ⟨c, hc, hn⟩]; simp
end Monero.B58

/-! ### `hex::decode` refuses every byte ≥ 0x80 -/
namespace Monero.HexM

theorem val_none_of_ge (c : UInt8) (h : 128 ≤ c.toNat) : val c = none := by
  unfold val
  rw [if_neg (by omega), if_neg (by omega), if_neg (by omega)]

/-- an even number of characters one of which is not a hexadecimal digit -/
theorem pairs_none : ∀ (n : Nat) (s : List UInt8), s.length = 2 * n → (∃ c, c ∈ s ∧ val c = none) → pairs s = none
  | 0, s, hl, ⟨c, hc, _⟩ => by
    have : s = [] := List.eq_nil_of_length_eq_zero (by omega)
    subst this; simp at hc
  | n + 1, s, hl, ⟨c, hc, hv⟩ => by
    match s, hl with
    | a :: b :: t, hl =>
      simp only [List.length_cons] at hl
      simp only [pairs]
      cases ha : val a with
      | none => rfl
      | some x =>
        cases hb : val b with
        | none => rfl
        | some y =>
          simp only [List.mem_cons] at hc
          rcases hc with rfl | rfl | hc
          · rw [hv] at ha; exact absurd ha (by simp)
          · rw [hv] at hb; exact absurd hb (by simp)
          · rw [pairs_none n t (by omega) ⟨c, hc, hv⟩]

theorem decode_none_of_bad_char (s : List UInt8) (h : ∃ c, c ∈ s ∧ val c = none) : decode s = none := by
  unfold decode
  by_cases hodd : s.length % 2 ≠ 0
  · rw [if_pos hodd]
  · rw [if_neg hodd]
    exact pairs_none (s.length / 2) s (by omega) h
end Monero.HexM

namespace Monero.Address
/-- `strip_prefix("0x")` removes at most the two ASCII characters `0`, `x` -/
theorem mem_stripPrefix0x (s : List UInt8) (c : UInt8) (hc : c ∈ s) (h : 128 ≤ c.toNat) : c ∈ stripPrefix0x s := by
  unfold stripPrefix0x
  split
  · simp only [List.mem_cons] at hc
    rcases hc with rfl | rfl | hc
    · exact absurd h (by decide)
    · exact absurd h (by decide)
    · exact hc
  · exact hc
end Monero.Address
