import MoneroModel.Proofs.KeysSound
import MoneroModel.Proofs.Primes
import Mathlib.FieldTheory.Finite.Basic
/-! Completeness of public-key acceptance (C13): every canonical encoding of a curve point is accepted.
Uses primality of p = 2^255 − 19 (`Primes.prime_p`, Pratt certificate): `ZMod p` is a field, Fermat's little theorem,
the square-root argument for p ≡ 5 (mod 8), and that `d` is a non-residue (so the denominator `d·y² + 1` never vanishes). -/
namespace Monero.Keys
open Ed

instance factPrimeP : Fact (Nat.Prime Ed.p) := ⟨by show Nat.Prime (2 ^ 255 - 19); exact Primes.prime_p⟩

/-- (p − 5) / 8 -/
def e8 : ℕ := (Ed.p - 5) / 8
theorem p_eq : Ed.p = 8 * e8 + 5 := by decide
theorem e8_lt : e8 < 2 ^ 260 := by decide

theorem fermat (a : F) (ha : a ≠ 0) : a ^ (8 * e8 + 4) = 1 := by
  have := ZMod.pow_card_sub_one_eq_one ha
  have h : Ed.p - 1 = 8 * e8 + 4 := by have := p_eq; omega
  rw [h] at this; exact this

theorem neg_one_ne_one : (-1 : F) ≠ 1 := by
  intro h
  have h2 : ((2 : ℕ) : F) = 0 := by push_cast; linear_combination (-1 : F) * h
  have := (ZMod.natCast_eq_zero_iff 2 Ed.p).mp h2
  have := Nat.le_of_dvd (by norm_num) this
  have : 2 < Ed.p := by decide
  omega

theorem cast_powmod (b n : ℕ) (hn : n < 2 ^ 260) : ((powmod b n Ed.p : ℕ) : F) = (b : F) ^ n := by
  rw [powmod_eq b n Ed.p p_gt_one hn, cast_mod]; push_cast; rfl

set_option maxRecDepth 100000 in
theorem d_powmod : powmod Ed.d (4 * e8 + 2) Ed.p = Ed.p - 1 := by decide +kernel

/-- `d` is a quadratic non-residue: Euler's criterion evaluates to −1 -/
theorem d_nonresidue : (Ed.d : F) ^ (4 * e8 + 2) = -1 := by
  rw [← cast_powmod Ed.d (4 * e8 + 2) (by decide), d_powmod, Nat.cast_sub (Nat.le_of_lt p_gt_one), cast_p]; simp

theorem sqrtm1_ne_zero : ((sqrtm1 : ℕ) : F) ≠ 0 := by
  intro h
  have := i_sq
  rw [h] at this
  have h1 : (1 : F) = 0 := by linear_combination this
  exact one_ne_zero h1

/-- the denominator `d·y² + 1` is non-zero for every y -/
theorem denom_ne_zero (y : F) : y * y * (Ed.d : F) + 1 ≠ 0 := by
  intro h
  have hy : y ≠ 0 := by
    rintro rfl
    simp at h
  have hi := i_sq
  -- d·y² = i²
  have h1 : (Ed.d : F) * (y * y) = (sqrtm1 : F) * (sqrtm1 : F) := by rw [hi]; linear_combination h
  have h2 : ((Ed.d : F) * (y * y)) ^ (4 * e8 + 2) = ((sqrtm1 : F) * (sqrtm1 : F)) ^ (4 * e8 + 2) := by rw [h1]
  have hL : ((Ed.d : F) * (y * y)) ^ (4 * e8 + 2) = (Ed.d : F) ^ (4 * e8 + 2) * y ^ (8 * e8 + 4) := by ring
  have hR : ((sqrtm1 : F) * (sqrtm1 : F)) ^ (4 * e8 + 2) = (sqrtm1 : F) ^ (8 * e8 + 4) := by ring
  rw [hL, hR, fermat y hy, fermat _ sqrtm1_ne_zero, d_nonresidue] at h2
  exact neg_one_ne_one (by simpa using h2)

theorem cast_u (y : ℕ) : (((y * y % Ed.p + Ed.p - 1) % Ed.p : ℕ) : F) = (y : F) * y - 1 := by
  rw [cast_mod, Nat.cast_sub (by have := p_pos; omega)]; push_cast; rw [cast_mod, cast_p]; push_cast; ring
theorem cast_v (y : ℕ) : (((y * y % Ed.p * d + 1) % Ed.p : ℕ) : F) = (y : F) * y * d + 1 := by
  rw [cast_mod]; push_cast; rw [cast_mod]; push_cast; ring

theorem cast_candidate (u v : ℕ) : ((sqrtCandidate u v : ℕ) : F) = (u : F) * (v : F) ^ 3 * ((u : F) * (v : F) ^ 7) ^ e8 := by
  unfold sqrtCandidate
  simp only []
  rw [cast_mod, Nat.cast_mul, show (Ed.p - 5) / 8 = e8 from rfl, cast_powmod _ _ e8_lt]
  simp only [Nat.cast_mul, cast_mod]
  ring

theorem cast_inj_lt (a b : ℕ) (ha : a < Ed.p) (hb : b < Ed.p) (h : (a : F) = (b : F)) : a = b := by
  have := (cast_eq_iff a b).mp h
  rwa [Nat.mod_eq_of_lt ha, Nat.mod_eq_of_lt hb] at this

theorem sqrtSelect_fst (u v r0 : ℕ) :
    (sqrtSelect u v r0).1 = (v * (r0 * r0 % Ed.p) % Ed.p == u || v * (r0 * r0 % Ed.p) % Ed.p == (Ed.p - u) % Ed.p) := rfl

/-- for a point (x, y) on the curve the square-root routine succeeds and returns ±x (even representative) -/
theorem sqrtRatioI_complete (x y : ℕ)
    (hcurve : (y : F) * y = 1 + (x : F) * x + (d : F) * ((x : F) * x) * ((y : F) * y)) :
    ∃ r, sqrtRatioI ((y * y % Ed.p + Ed.p - 1) % Ed.p) ((y * y % Ed.p * d + 1) % Ed.p) = (true, r) ∧
      r < Ed.p ∧ r % 2 = 0 ∧ ((r : F) = x ∨ (r : F) = -(x : F)) := by
  have huF := cast_u y
  have hvF := cast_v y
  have hult : (y * y % Ed.p + Ed.p - 1) % Ed.p < Ed.p := Nat.mod_lt _ p_pos
  generalize (y * y % Ed.p + Ed.p - 1) % Ed.p = u at *
  generalize (y * y % Ed.p * d + 1) % Ed.p = v at *
  have hv0 : (v : F) ≠ 0 := by rw [hvF]; exact denom_ne_zero _
  have hvx : (v : F) * ((x : F) * x) = u := by rw [hvF, huF]; linear_combination (-1 : F) * hcurve
  have hr0 := cast_candidate u v
  have hr0lt := sqrtCandidate_lt u v
  unfold sqrtRatioI
  generalize sqrtCandidate u v = r0 at *
  have hcF : ((v * (r0 * r0 % Ed.p) % Ed.p : ℕ) : F) = v * r0 * r0 := by
    rw [cast_mod]; push_cast; rw [cast_mod]; push_cast; ring
  have hclt : v * (r0 * r0 % Ed.p) % Ed.p < Ed.p := Nat.mod_lt _ p_pos
  have hnF := cast_neg u hult
  have hnlt : (Ed.p - u) % Ed.p < Ed.p := Nat.mod_lt _ p_pos
  -- the check value is u or −u
  have hpm : (v : F) * r0 * r0 = u ∨ (v : F) * r0 * r0 = -(u : F) := by
    by_cases hu0 : (u : F) = 0
    · left; rw [hr0, hu0]; simp
    · have hx0 : (x : F) ≠ 0 := by
        intro h; apply hu0; rw [← hvx, h]; ring
      have hq0 : (x : F) * (v : F) ^ 4 ≠ 0 := mul_ne_zero hx0 (pow_ne_zero _ hv0)
      have hw : (u : F) * (v : F) ^ 7 = ((x : F) * (v : F) ^ 4) ^ 2 := by rw [← hvx]; ring
      have ht : (((x : F) * (v : F) ^ 4) ^ (4 * e8 + 2)) * (((x : F) * (v : F) ^ 4) ^ (4 * e8 + 2)) = 1 := by
        rw [← fermat _ hq0]; ring
      have hc : (v : F) * r0 * r0 = u * ((x : F) * (v : F) ^ 4) ^ (4 * e8 + 2) := by
        rw [hr0]
        have : (v : F) * ((u : F) * (v : F) ^ 3 * ((u : F) * (v : F) ^ 7) ^ e8) * ((u : F) * (v : F) ^ 3 * ((u : F) * (v : F) ^ 7) ^ e8)
            = u * (((u : F) * (v : F) ^ 7) * (((u : F) * (v : F) ^ 7) ^ e8) ^ 2) := by ring
        rw [this, hw]; ring
      rcases mul_self_eq_one_iff.mp ht with h1 | h1
      · left; rw [hc, h1]; ring
      · right; rw [hc, h1]; ring
  have hok : (sqrtSelect u v r0).1 = true := by
    rw [sqrtSelect_fst]
    simp only [Bool.or_eq_true, beq_iff_eq]
    rcases hpm with h | h
    · left; exact cast_inj_lt _ _ hclt hult (by rw [hcF, h])
    · right; exact cast_inj_lt _ _ hclt hnlt (by rw [hcF, h, hnF])
  have hpair : sqrtSelect u v r0 = (true, (sqrtSelect u v r0).2) := by rw [← hok]
  obtain ⟨h1, h2, h3⟩ := sqrtSelect_sound u v r0 _ hult hr0lt hpair
  refine ⟨_, hpair, h1, h2, ?_⟩
  generalize (sqrtSelect u v r0).2 = r at *
  have h4 : (v : F) * (((r : F) - x) * ((r : F) + x)) = 0 := by linear_combination h3 - hvx
  rcases mul_eq_zero.mp h4 with h5 | h5
  · exact absurd h5 hv0
  · rcases mul_eq_zero.mp h5 with h6 | h6
    · left; exact sub_eq_zero.mp h6
    · right; exact eq_neg_of_add_eq_zero_left h6

/-- applying the sign bit to the even root ±x gives back x when the sign bit is the parity of x -/
theorem sign_fix (x r : ℕ) (hx : x < Ed.p) (hr : r < Ed.p) (hre : r % 2 = 0)
    (h : (r : F) = x ∨ (r : F) = -(x : F)) :
    (if x % 2 == 1 then (Ed.p - r) % Ed.p else r) = x := by
  have hp := p_odd
  rcases h with h | h
  · have hrx := cast_inj_lt r x hr hx h
    subst hrx
    have : (r % 2 == 1) = false := by simp [hre]
    simp [this]
  · rw [← cast_neg x hx] at h
    have hrx := cast_inj_lt r _ hr (Nat.mod_lt _ p_pos) h
    by_cases hx0 : x = 0
    · subst hx0
      simp at hrx
      subst hrx
      simp
    · have h1 : (Ed.p - x) % Ed.p = Ed.p - x := Nat.mod_eq_of_lt (by omega)
      rw [h1] at hrx
      have hodd : x % 2 = 1 := by omega
      have : (x % 2 == 1) = true := by simp [hodd]
      simp only [this, if_true]
      have h2 : Ed.p - r = x := by omega
      rw [h2]; exact Nat.mod_eq_of_lt hx

theorem publicAccept_complete (b : Bytes) (hlen : b.length = 32) (x : ℕ) (hx : x < Ed.p)
    (hy : leNat b % 2 ^ 255 < Ed.p)
    (hcurve : ((leNat b % 2 ^ 255) * (leNat b % 2 ^ 255)) % Ed.p
        = (1 + x * x + d * (x * x) * ((leNat b % 2 ^ 255) * (leNat b % 2 ^ 255))) % Ed.p)
    (hpar : x % 2 = leNat b / 2 ^ 255) : publicAccept b = true := by
  have hk : leNat b < 2 ^ 256 := by
    have := leNat_lt b
    rw [hlen, show (256 : ℕ) ^ 32 = 2 ^ 256 by norm_num] at this
    exact this
  have hkb := toBytesLE_leNat b
  rw [hlen] at hkb
  generalize hkdef : leNat b = k at *
  have hcF : ((k % 2 ^ 255 : ℕ) : F) * ((k % 2 ^ 255 : ℕ) : F)
      = 1 + (x : F) * x + (d : F) * ((x : F) * x) * (((k % 2 ^ 255 : ℕ) : F) * ((k % 2 ^ 255 : ℕ) : F)) := by
    have := (cast_eq_iff _ _).mpr hcurve
    push_cast at this
    exact this
  obtain ⟨r, hsr, hrlt, hreven, hror⟩ := sqrtRatioI_complete x (k % 2 ^ 255) hcF
  have hX := sign_fix x r hx hrlt hreven hror
  apply (publicAccept_iff b).mpr
  refine ⟨hlen, ⟨x, k % 2 ^ 255, 1, x * (k % 2 ^ 255) % Ed.p⟩, ?_, ?_⟩
  · rw [hkdef]
    unfold decompressDalek
    simp only []
    rw [Nat.mod_eq_of_lt hy, hsr, ← hpar]
    simp only [Bool.not_true, Bool.false_eq_true, if_false, hX]
  · unfold encodePt
    rw [compress_affine _ rfl hx hy]
    simp only []
    have : k % 2 ^ 255 + x % 2 * 2 ^ 255 = k := by rw [hpar]; omega
    rw [this]; exact hkb

end Monero.Keys
