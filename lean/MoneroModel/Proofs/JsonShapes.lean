import MoneroModel.Model.Json
import MoneroModel.Gen.JsonShapes
/-! Readers of the REGENERATED table `Gen.jsonShapes` (every item of /repo deriving `Serialize` / `Deserialize`: identifiers in
declaration order, all `serde(..)` attributes) and observers of the model's serialisers, for the shape theorems of C19.
Core Lean only. -/
namespace Monero.Json

/-- the keys of an object, in the order written -/
def objKeys : Json → List String
  | .obj kvs => kvs.map (·.1)
  | _ => []
/-- tag and content of an externally tagged enum value `{"Variant": content}` -/
def variantOf : Json → Option (String × Json)
  | .obj [(t, c)] => some (t, c)
  | _ => none
/-- tag and keys of the content of a struct variant -/
def structVariantOf (j : Json) : Option (String × List String) := (variantOf j).map fun x => (x.1, objKeys x.2)
/-- the value under a key of an object -/
def getKey (k : String) : Json → Option Json
  | .obj kvs => (kvs.find? fun kv => kv.1 == k).map (·.2)
  | _ => none

def genItem (n : String) : Option Gen.JsonItem := Gen.jsonShapes.find? fun i => i.name == n
/-- declared field identifiers of a struct of /repo, in declaration order -/
def genFields (n : String) : List String := match genItem n with | some i => i.members.map (·.1) | none => []
/-- declared variants of an enum of /repo, in declaration order, each with its fields (positional ones numbered) -/
def genVariants (n : String) : List (String × List String) :=
  match genItem n with | some i => i.members.map (fun m => (m.1, m.2.1)) | none => []
def genKind (n : String) : String := match genItem n with | some i => i.kind | none => ""
/-- every `serde(..)` attribute of the table other than the `crate = "serde_crate"` path: (item, field / variant or "", attribute) -/
def genAttrs : List (String × String × String) :=
  Gen.jsonShapes.flatMap fun i =>
    ((i.attrs.filter fun a => a != "crate=\"serde_crate\"").map fun a => (i.name, "", a)) ++
    i.members.flatMap fun m => m.2.2.map fun a => (i.name, m.1, a)

end Monero.Json
