import MoneroModel.Proofs.AmountText6
/-! Remaining lemmas for C15: the loop on a concatenation and its monotonicity (never-wraps), the suffix form
(`splitSpace`), the denomination names, the length of formatted strings (core Lean only). -/
namespace Monero.AmtText
open Spec.Decimal (natOfDigits digitVal natDigits fracDigits specFormat specParse splitSign maxAmount)

/-- the loop on `a ++ b` is the loop on `a` continued on `b` from the state reached -/
theorem parseLoop_append : ∀ (a b : Bytes) (v : Nat) (d : Option Nat) (md : Nat),
    parseLoop (a ++ b) v d md =
      (match parseLoop a v d md with
       | .ok (v', d') => parseLoop b v' d' md
       | .error e => .error e)
  | [], b, v, d, md => by simp [parseLoop]
  | c :: cs, b, v, d, md => by
    simp only [List.cons_append, parseLoop]
    by_cases hdg : isDigit c = true
    · simp only [hdg, if_true]
      by_cases h1 : 10 * v > U64MAX
      · simp [h1]
      · simp only [h1, if_false]
        by_cases h2 : 10 * v + (c.toNat - 0x30) > U64MAX
        · simp [h2]
        · simp only [h2, if_false]
          cases d with
          | none => exact parseLoop_append cs b _ _ md
          | some k =>
            by_cases h3 : k < md
            · simp only [h3, if_true]; exact parseLoop_append cs b _ _ md
            · simp [h3]
    · simp only [hdg]
      by_cases hdot : c.toNat = 0x2e
      · simp only [hdot, if_true]
        cases d with
        | none => exact parseLoop_append cs b _ _ md
        | some k => simp
      · simp [hdot]

/-- the accumulator never decreases -/
theorem parseLoop_mono : ∀ (s : Bytes) (v : Nat) (d : Option Nat) (md v' : Nat) (d' : Option Nat),
    parseLoop s v d md = .ok (v', d') → v ≤ v'
  | [], v, d, md, v', d', h => by
    simp only [parseLoop, Except.ok.injEq, Prod.mk.injEq] at h; omega
  | c :: cs, v, d, md, v', d', h => by
    simp only [parseLoop] at h
    by_cases hdg : isDigit c = true
    · simp only [hdg, if_true] at h
      by_cases h1 : 10 * v > U64MAX
      · simp [h1] at h
      · simp only [h1, if_false] at h
        by_cases h2 : 10 * v + (c.toNat - 0x30) > U64MAX
        · simp [h2] at h
        · simp only [h2, if_false] at h
          cases d with
          | none => have := parseLoop_mono cs _ _ md v' d' h; omega
          | some k =>
            by_cases h3 : k < md
            · simp only [h3, if_true] at h
              have := parseLoop_mono cs _ _ md v' d' h; omega
            · simp [h3] at h
    · simp only [hdg] at h
      by_cases hdot : c.toNat = 0x2e
      · simp only [hdot, if_true] at h
        cases d with
        | none => exact parseLoop_mono cs _ _ md v' d' h
        | some k => simp at h
      · simp [hdot] at h

theorem filter_AllDigits (l : Bytes) (h : AllDigits l) : l.filter isDigit = l :=
  List.filter_eq_self.mpr h

/-- the digits read so far, as a number -/
theorem parseLoop_value (pre : Bytes) (md v : Nat) (d : Option Nat) (h : parseLoop pre 0 none md = .ok (v, d)) :
    v = natOfDigits (pre.filter isDigit) ∧ v ≤ U64MAX := by
  obtain ⟨ip, fp, ⟨h1, h2, h3⟩, _, h5, h6, _⟩ := (parseLoop_ok_iff pre md v d).mp h
  refine ⟨?_, h6⟩
  rcases h3 with ⟨rfl, rfl⟩ | rfl
  · rw [filter_AllDigits _ h1, h5]; simp
  · rw [List.filter_append, List.filter_cons, dot_not_digit, filter_AllDigits _ h1, filter_AllDigits _ h2, h5]
    simp

/-! ### the suffix form -/
def NoSpace (l : Bytes) : Prop := ∀ c ∈ l, c ≠ 0x20

theorem splitSpace_noSpace : ∀ (l : Bytes), NoSpace l → splitSpace l = (l, none)
  | [], _ => rfl
  | c :: cs, h => by
    have hc : c ≠ 0x20 := h c (by simp)
    have ih := splitSpace_noSpace cs (fun x hx => h x (by simp [hx]))
    simp [splitSpace, hc, ih]

theorem splitSpace_append : ∀ (l r : Bytes), NoSpace l → splitSpace (l ++ 0x20 :: r) = (l, some r)
  | [], r, _ => by simp [splitSpace]
  | c :: cs, r, h => by
    have hc : c ≠ 0x20 := h c (by simp)
    have ih := splitSpace_append cs r (fun x hx => h x (by simp [hx]))
    simp [splitSpace, hc, ih]

theorem NoSpace_of_AllDigits (l : Bytes) (h : AllDigits l) : NoSpace l := by
  intro c hc he
  have := h c hc
  rw [he] at this
  exact absurd this (by decide)

theorem NoSpace_append {a b : Bytes} (ha : NoSpace a) (hb : NoSpace b) : NoSpace (a ++ b) := by
  intro c hc
  rcases List.mem_append.mp hc with h | h
  · exact ha c h
  · exact hb c h

theorem NoSpace_specFormat (md : Nat) (a : Int) : NoSpace (specFormat md a) := by
  obtain ⟨ip, fp, he, h1, _, h3, _⟩ := specFormat_shape md a
  rw [he]
  refine NoSpace_append (NoSpace_append ?_ (NoSpace_of_AllDigits _ h1)) ?_
  · split
    · intro c hc; simp at hc; subst hc; decide
    · intro c hc; simp at hc
  · split
    · intro c hc; simp at hc
    · intro c hc
      rcases List.mem_cons.mp hc with h | h
      · subst h; decide
      · exact NoSpace_of_AllDigits _ h3 c h

/-- the written name of each denomination is read back as that denomination, and contains no space -/
theorem display_roundtrip (d : Denom) : denomFromStr (displayOf d) = .ok d ∧ splitSpace (displayOf d) = (displayOf d, none) := by
  have h : Gen.denomFromStr.lookup (displayOf d) = some d := by cases d <;> decide
  refine ⟨by unfold denomFromStr; rw [h], ?_⟩
  cases d <;> decide

theorem lookup_some_mem {α β} [BEq α] [LawfulBEq α] : ∀ (l : List (α × β)) (a : α) (b : β), l.lookup a = some b → (a, b) ∈ l
  | [], _, _, h => by simp [List.lookup] at h
  | (x, y) :: t, a, b, h => by
    simp only [List.lookup] at h
    cases hax : a == x with
    | true =>
      rw [hax] at h
      simp only [Option.some.injEq] at h
      have : a = x := by simpa using hax
      subst this; subst h; simp
    | false =>
      rw [hax] at h
      exact List.mem_cons_of_mem _ (lookup_some_mem t a b h)

/-- formatted strings are short: sign, at most 20 integer digits, a point and `md` digits -/
theorem specFormat_length (md : Nat) (a : Int) (hmd : md ≤ 28) (ha : a.natAbs < 10 ^ 20) : (specFormat md a).length ≤ 50 := by
  unfold specFormat
  have h1 : (natDigits (a.natAbs / 10 ^ md)).length ≤ 20 := by
    rw [← digits_eq_natDigits, digits_length_le_iff _ _ (by decide)]
    exact Nat.lt_of_le_of_lt (Nat.div_le_self _ _) ha
  have h2 : (if a < 0 then [45] else ([] : List UInt8)).length ≤ 1 := by split <;> simp
  have h3 : (if md = 0 then [] else 46 :: fracDigits md a.natAbs).length ≤ md + 1 := by
    split
    · simp
    · simp [fracDigits_length]
  simp only [List.length_append]
  omega

theorem decimals_le (d : Denom) : Spec.Decimal.decimals d ≤ 12 := by cases d <;> decide

end Monero.AmtText
