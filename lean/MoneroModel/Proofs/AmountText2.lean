import MoneroModel.Proofs.AmountText1
import MoneroModel.Spec.Decimal
/-! Bridge between the loop lemmas and `Spec.Decimal`: the accumulator is the positional value, the loop accepts exactly
the bodies `D*` / `D* . D*`, and `splitBody` recognises exactly those (core Lean only). -/
namespace Monero.AmtText
open Spec.Decimal (natOfDigits digitVal splitBody splitSign)

theorem isDigit_eq (c : UInt8) : Spec.Decimal.isDigit c = isDigit c := rfl
theorem specIsDigit_eq : Spec.Decimal.isDigit = isDigit := rfl

theorem val_eq : ∀ (l : Bytes) (v : Nat), val l v = v * 10 ^ l.length + natOfDigits l
  | [], v => by simp [val, natOfDigits]
  | c :: cs, v => by
    simp only [val, natOfDigits, List.length_cons, digitVal]
    rw [val_eq cs]
    grind

theorem natOfDigits_append : ∀ (a b : Bytes), natOfDigits (a ++ b) = natOfDigits a * 10 ^ b.length + natOfDigits b
  | [], b => by simp [natOfDigits]
  | c :: cs, b => by
    simp only [List.cons_append, natOfDigits, List.length_append]
    rw [natOfDigits_append cs b]
    grind

theorem val_zero (l : Bytes) : val l 0 = natOfDigits l := by rw [val_eq]; simp

theorem val_val (ip fp : Bytes) : val fp (val ip 0) = natOfDigits (ip ++ fp) := by
  rw [val_eq, val_zero, natOfDigits_append]

theorem AllDigits_nil : AllDigits [] := by intro c hc; simp at hc
theorem AllDigits_cons {c : UInt8} {l : Bytes} : AllDigits (c :: l) ↔ isDigit c = true ∧ AllDigits l := by
  simp [AllDigits]
theorem AllDigits_append {a b : Bytes} : AllDigits (a ++ b) ↔ AllDigits a ∧ AllDigits b := by
  simp only [AllDigits, List.mem_append]
  constructor
  · intro h; exact ⟨fun c hc => h c (Or.inl hc), fun c hc => h c (Or.inr hc)⟩
  · rintro ⟨h1, h2⟩ c (hc | hc)
    · exact h1 c hc
    · exact h2 c hc
theorem AllDigits_iff_all (l : Bytes) : AllDigits l ↔ l.all isDigit = true := by
  simp [AllDigits, List.all_eq_true]

theorem dot_not_digit : isDigit 0x2e = false := by decide
theorem minus_not_digit : isDigit 0x2d = false := by decide

/-- the body grammar `D*` or `D* . D*` with its two digit runs -/
def Lit (body ip fp : Bytes) : Prop :=
  AllDigits ip ∧ AllDigits fp ∧ ((body = ip ∧ fp = []) ∨ body = ip ++ 0x2e :: fp)

theorem takeWhile_digits_append (ip : Bytes) (c : UInt8) (r : Bytes) (h : AllDigits ip) (hc : isDigit c = false) :
    (ip ++ c :: r).takeWhile isDigit = ip ∧ (ip ++ c :: r).dropWhile isDigit = c :: r := by
  induction ip with
  | nil => simp [hc]
  | cons x xs ih =>
    have hx := AllDigits_cons.mp h
    simp only [List.cons_append, List.takeWhile, List.dropWhile, hx.1]
    have := ih hx.2
    exact ⟨by rw [this.1], this.2⟩

theorem takeWhile_digits_all (ip : Bytes) (h : AllDigits ip) :
    ip.takeWhile isDigit = ip ∧ ip.dropWhile isDigit = [] := by
  induction ip with
  | nil => simp
  | cons x xs ih =>
    have hx := AllDigits_cons.mp h
    simp only [List.takeWhile, List.dropWhile, hx.1]
    have := ih hx.2
    exact ⟨by rw [this.1], this.2⟩

theorem AllDigits_takeWhile (l : Bytes) : AllDigits (l.takeWhile isDigit) := by
  induction l with
  | nil => exact AllDigits_nil
  | cons x xs ih =>
    simp only [List.takeWhile]
    cases hx : isDigit x with
    | true => exact AllDigits_cons.mpr ⟨hx, ih⟩
    | false => exact AllDigits_nil

/-- the specification's recogniser accepts exactly the bodies of the grammar, with their digit runs -/
theorem splitBody_iff (body ip fp : Bytes) : splitBody body = some (ip, fp) ↔ Lit body ip fp := by
  unfold splitBody Lit
  rw [specIsDigit_eq]
  constructor
  · intro h
    cases hd : body.dropWhile isDigit with
    | nil =>
      rw [hd] at h
      simp only [Option.some.injEq, Prod.mk.injEq] at h
      obtain ⟨h1, h2⟩ := h
      have hb : body = ip := by
        have := List.takeWhile_append_dropWhile (p := isDigit) (l := body)
        rw [hd, h1] at this; simpa using this.symm
      subst h2
      refine ⟨?_, AllDigits_nil, Or.inl ⟨hb, rfl⟩⟩
      rw [← h1]; exact AllDigits_takeWhile body
    | cons c r =>
      rw [hd] at h
      simp only at h
      split at h
      · rename_i hc
        simp only [Option.some.injEq, Prod.mk.injEq] at h
        obtain ⟨h1, h2⟩ := h
        subst h2
        have hb := List.takeWhile_append_dropWhile (p := isDigit) (l := body)
        rw [hd, h1, hc.1] at hb
        refine ⟨?_, (AllDigits_iff_all _).mpr hc.2, Or.inr hb.symm⟩
        rw [← h1]; exact AllDigits_takeWhile body
      · simp at h
  · rintro ⟨h1, h2, h3 | h3⟩
    · obtain ⟨rfl, rfl⟩ := h3
      have := takeWhile_digits_all body h1
      rw [this.1, this.2]
    · subst h3
      have := takeWhile_digits_append ip 0x2e fp h1 dot_not_digit
      rw [this.1, this.2]
      simp [(AllDigits_iff_all _).mp h2]

theorem Lit_unique {body ip fp ip' fp' : Bytes} (h : Lit body ip fp) (h' : Lit body ip' fp') : ip = ip' ∧ fp = fp' := by
  have a := (splitBody_iff body ip fp).mpr h
  have b := (splitBody_iff body ip' fp').mpr h'
  rw [a] at b
  simpa using b

/-- every outcome of the loop on a body, started from zero before the point: it accepts exactly the bodies of the grammar
whose fraction is short enough and whose digit string fits u64, and returns the positional value -/
theorem parseLoop_ok_iff (body : Bytes) (md v : Nat) (d : Option Nat) :
    parseLoop body 0 none md = .ok (v, d) ↔
      ∃ ip fp, Lit body ip fp ∧ fp.length ≤ md ∧ v = natOfDigits (ip ++ fp) ∧ v ≤ U64MAX ∧
        d = (if body = ip then none else some fp.length) := by
  constructor
  · intro h
    rcases ok_before_dot body 0 md v d (by decide) h with ⟨a1, a2, a3, a4⟩ | ⟨ip, fp, e, a1, a2, a3, a4, a5, a6⟩
    · refine ⟨body, [], ⟨a1, AllDigits_nil, Or.inl ⟨rfl, rfl⟩⟩, Nat.zero_le _, ?_, a4, by simp [a2]⟩
      rw [a3, val_zero]; simp
    · refine ⟨ip, fp, ⟨a1, a2, Or.inr e⟩, a4, ?_, a6, ?_⟩
      · rw [a5, val_val]
      · have : body ≠ ip := by
          intro hb; rw [e] at hb
          have := congrArg List.length hb
          simp at this
        simp [this, a3]
  · rintro ⟨ip, fp, ⟨h1, h2, h3 | h3⟩, hmd, hv, hle, hd⟩
    · obtain ⟨rfl, rfl⟩ := h3
      simp only [List.append_nil] at hv
      have := run_digits_none body [] 0 md h1 (by rw [val_zero]; omega)
      simp only [List.append_nil] at this
      rw [this, val_zero]
      simp [parseLoop, hv, hd]
    · subst h3
      have hne : ip ++ 0x2e :: fp ≠ ip := by
        intro hb
        have := congrArg List.length hb
        simp at this
      rw [natOfDigits_append] at hv
      have hip : natOfDigits ip ≤ U64MAX := by
        have : 1 ≤ 10 ^ fp.length := Nat.one_le_pow _ _ (by decide)
        have : natOfDigits ip * 1 ≤ natOfDigits ip * 10 ^ fp.length := Nat.mul_le_mul_left _ this
        omega
      rw [run_digits_none ip (0x2e :: fp) 0 md h1 (by rw [val_zero]; exact hip)]
      have hdot : parseLoop (0x2e :: fp) (val ip 0) none md = parseLoop fp (val ip 0) (some 0) md := by
        simp [parseLoop, dot_not_digit]
      rw [hdot]
      have := run_digits_some fp [] (val ip 0) 0 md h2 (by rw [val_val, natOfDigits_append]; omega) (by omega)
      simp only [List.append_nil] at this
      rw [this, val_val, natOfDigits_append]
      simp [parseLoop, hv, hd, hne]

theorem except_ok_or_error {ε α} (x : Except ε α) : (∃ a, x = .ok a) ∨ (∃ e, x = .error e) := by
  cases x with
  | ok a => exact Or.inl ⟨a, rfl⟩
  | error e => exact Or.inr ⟨e, rfl⟩

end Monero.AmtText
