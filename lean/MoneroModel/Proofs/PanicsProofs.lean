import MoneroModel.Model.Panics
/-! Proofs for Model/Panics.lean: no panic outcome is reachable, and the panic-explicit functions compute what the total
models compute. Core Lean only. -/
namespace Monero.Panics
open Monero

/-- `Option` result as an outcome without panic -/
def ofOpt {α} : Option α → Out α
  | some x => .ok x
  | none => .err

@[simp] theorem ofOpt_some {α} (x : α) : ofOpt (some x) = .ok x := rfl
@[simp] theorem ofOpt_none {α} : (ofOpt (none : Option α)) = .err := rfl
@[simp] theorem bind_ok {α β} (x : α) (f : α → Out β) : (Out.ok x).bind f = f x := rfl
@[simp] theorem bind_err {α β} (f : α → Out β) : (Out.err : Out α).bind f = .err := rfl

theorem slice_ok (site : String) (b : Bytes) (lo hi : Nat) (h1 : lo ≤ hi) (h2 : hi ≤ b.length) :
    slice site b lo hi = .ok ((b.drop lo).take (hi - lo)) := by
  simp [slice, h1, h2]

/-! ## address -/

/-- every arm of the REGENERATED `AddressType::from_slice` table slices inside the length it has checked -/
theorem table_guards : ∀ e ∈ Gen.addrType, e.2.2.2.2.1 ≤ e.2.2.2.2.2 ∧ e.2.2.2.2.2 ≤ e.2.2.2.1 := by decide

/-- … and every Integrated arm of the regenerated table hands exactly 8 bytes to `PaymentId::from_slice` -/
theorem table_guards_pid : ∀ e ∈ Gen.addrType, e.2.2.1 = Kind.Integrated → e.2.2.2.2.2 - e.2.2.2.2.1 = 8 := by decide

theorem addrArm_guard_pid (net : Net) (b minLen lo hi : Nat) (kk : Kind) (h : addrArm net b = some (kk, minLen, lo, hi))
    (hk : kk = .Integrated) : hi - lo = 8 := by
  unfold addrArm at h
  rw [Option.map_eq_some_iff] at h
  obtain ⟨e, hf, he⟩ := h
  have := table_guards_pid e (List.mem_of_find?_eq_some hf)
  rw [he] at this
  exact this hk

theorem addrArm_guard (net : Net) (b minLen lo hi : Nat) (kk : Kind) (h : addrArm net b = some (kk, minLen, lo, hi)) :
    lo ≤ hi ∧ hi ≤ minLen := by
  unfold addrArm at h
  rw [Option.map_eq_some_iff] at h
  obtain ⟨e, hf, he⟩ := h
  have := table_guards e (List.mem_of_find?_eq_some hf)
  rw [he] at this
  exact this

theorem addrTypeOfP_eq (net : Net) (bytes : Bytes) : addrTypeOfP net bytes = ofOpt (addrTypeOf net bytes) := by
  cases bytes with
  | nil => simp [addrTypeOfP, addrTypeOf]
  | cons b r =>
    simp only [addrTypeOfP, addrTypeOf, List.isEmpty_cons, Bool.false_eq_true, if_false, idx, List.getElem?_cons_zero, bind_ok]
    cases ha : addrArm net b.toNat with
    | none => simp
    | some v =>
      obtain ⟨k, minLen, lo, hi⟩ := v
      have hg := addrArm_guard net b.toNat minLen lo hi k ha
      simp only []
      by_cases hl : (b :: r).length < minLen
      · rw [if_pos hl, if_pos hl]; rfl
      · rw [if_neg hl, if_neg hl, slice_ok _ _ _ _ hg.1 (by omega), bind_ok]
        have hlen : k = .Integrated → ((b :: r).drop lo |>.take (hi - lo)).length = 8 := by
          intro hk
          have h8 := addrArm_guard_pid net b.toNat minLen lo hi k ha hk
          rw [List.length_take, List.length_drop]; omega
        rw [if_neg (by intro hc; exact hc.2 (hlen hc.1))]
        rfl

theorem fromBytesP_eq (H : Bytes → Bytes) (vk : Bytes → Bool) (hH : ∀ x, 4 ≤ (H x).length) (bytes : Bytes) :
    fromBytesP H vk bytes = ofOpt (Address.fromBytes H vk bytes) := by
  unfold fromBytesP Address.fromBytes
  by_cases h0 : (bytes.isEmpty || decide (bytes.length < 65)) = true
  · rw [if_pos h0, if_pos h0]; rfl
  · rw [if_neg h0, if_neg h0]
    have hlen : 65 ≤ bytes.length := by
      simp only [Bool.or_eq_true, decide_eq_true_eq, not_or, Nat.not_lt] at h0; exact h0.2
    cases bytes with
    | nil => simp at hlen
    | cons b0 r =>
      simp only [idx, List.getElem?_cons_zero, bind_ok]
      cases hn : fromU8 b0.toNat with
      | none => rfl
      | some network =>
        simp only []
        rw [addrTypeOfP_eq]
        cases ht : addrTypeOf network (b0 :: r) with
        | none => rfl
        | some kp =>
          obtain ⟨kind, pid⟩ := kp
          simp only [ofOpt_some, bind_ok]
          rw [slice_ok _ _ 1 33 (by omega) (by omega), bind_ok]
          by_cases hv1 : (!vk (List.take (33 - 1) (List.drop 1 (b0 :: r)))) = true
          · rw [if_pos hv1]
            have : (!vk (List.take 32 (List.drop 1 (b0 :: r)))) = true := hv1
            rw [if_pos this]; rfl
          · rw [if_neg hv1]
            have h1' : ¬ (!vk (List.take 32 (List.drop 1 (b0 :: r)))) = true := hv1
            rw [if_neg h1']
            rw [slice_ok _ _ 33 65 (by omega) (by omega), bind_ok]
            by_cases hv2 : (!vk (List.take (65 - 33) (List.drop 33 (b0 :: r)))) = true
            · rw [if_pos hv2]
              have : (!vk (List.take 32 (List.drop 33 (b0 :: r)))) = true := hv2
              rw [if_pos this]; rfl
            · rw [if_neg hv2]
              have h2' : ¬ (!vk (List.take 32 (List.drop 33 (b0 :: r)))) = true := hv2
              rw [if_neg h2']
              cases kind with
              | Integrated =>
                simp only []
                by_cases hl : ((b0 :: r).length != 77) = true
                · rw [if_pos hl, if_pos hl]; rfl
                · rw [if_neg hl, if_neg hl]
                  have hl' : (b0 :: r).length = 77 := by simpa using hl
                  rw [slice_ok _ _ 0 73 (by omega) (by omega), bind_ok, slice_ok _ _ 73 77 (by omega) (by omega), bind_ok, bind_ok]
                  rw [slice_ok _ _ 0 4 (by omega) (hH _), bind_ok]
                  simp only [Nat.sub_zero, List.drop_zero]
                  split <;> rfl
              | Standard =>
                simp only []
                by_cases hl : ((b0 :: r).length != 69) = true
                · rw [if_pos hl, if_pos hl]; rfl
                · rw [if_neg hl, if_neg hl]
                  have hl' : (b0 :: r).length = 69 := by simpa using hl
                  rw [slice_ok _ _ 0 65 (by omega) (by omega), bind_ok, slice_ok _ _ 65 69 (by omega) (by omega), bind_ok, bind_ok]
                  rw [slice_ok _ _ 0 4 (by omega) (hH _), bind_ok]
                  simp only [Nat.sub_zero, List.drop_zero]
                  split <;> rfl
              | SubAddress =>
                simp only []
                by_cases hl : ((b0 :: r).length != 69) = true
                · rw [if_pos hl, if_pos hl]; rfl
                · rw [if_neg hl, if_neg hl]
                  have hl' : (b0 :: r).length = 69 := by simpa using hl
                  rw [slice_ok _ _ 0 65 (by omega) (by omega), bind_ok, slice_ok _ _ 65 69 (by omega) (by omega), bind_ok, bind_ok]
                  rw [slice_ok _ _ 0 4 (by omega) (hH _), bind_ok]
                  simp only [Nat.sub_zero, List.drop_zero]
                  split <;> rfl

/-- no panic site of the address byte parser is reachable -/
theorem fromBytesP_no_panic (H : Bytes → Bytes) (vk : Bytes → Bool) (hH : ∀ x, 4 ≤ (H x).length) (bytes : Bytes) :
    (fromBytesP H vk bytes).isPanic = false := by
  rw [fromBytesP_eq H vk hH]; cases Address.fromBytes H vk bytes <;> rfl
theorem addrTypeOfP_no_panic (net : Net) (bytes : Bytes) : (addrTypeOfP net bytes).isPanic = false := by
  rw [addrTypeOfP_eq]; cases addrTypeOf net bytes <;> rfl

/-! ## amount text parser -/
open AmtText

def ofExc {ε α} : Except ε α → Out α
  | .ok x => .ok x
  | .error _ => .err
@[simp] theorem ofExc_ok {ε α} (x : α) : ofExc (Except.ok x : Except ε α) = .ok x := rfl
@[simp] theorem ofExc_error {ε α} (e : ε) : ofExc (Except.error e : Except ε α) = .err := rfl

theorem i32_ok (site : String) (x : Int) (h1 : -(2 : Int) ^ 31 ≤ x) (h2 : x < (2 : Int) ^ 31) : i32 site x = .ok x := by
  unfold i32; rw [if_pos ⟨h1, h2⟩]

theorem parseLoopP_eq (s : Bytes) : ∀ (v : Nat) (d : Option Nat) (md : Nat), md < 2 ^ 31 →
    parseLoopP s v d md = ofExc (parseLoop s v d md) := by
  induction s with
  | nil => intro v d md _; rfl
  | cons c cs ih =>
    intro v d md hmd
    unfold parseLoopP parseLoop
    by_cases hd : isDigit c = true
    · rw [if_pos hd, if_pos hd]
      by_cases h1 : 10 * v > U64MAX
      · rw [if_pos h1, if_pos h1]; rfl
      · rw [if_neg h1, if_neg h1]
        have hc : 0x30 ≤ c.toNat := by
          simp only [isDigit, Bool.and_eq_true, decide_eq_true_eq] at hd; exact hd.1
        have : subU "parse_signed_to_piconero: c as u8 - b'0'" c.toNat 0x30 = .ok (c.toNat - 0x30) := by
          simp [subU, hc]
        rw [this, bind_ok]
        by_cases h2 : 10 * v + (c.toNat - 0x30) > U64MAX
        · rw [if_pos h2, if_pos h2]; rfl
        · rw [if_neg h2, if_neg h2]
          cases d with
          | none => exact ih _ _ _ hmd
          | some k =>
            simp only []
            by_cases hk : k < md
            · rw [if_pos hk, if_pos hk]
              have h31 : (2 : Int) ^ 31 = 2147483648 := by decide
              have h31n : (2 : Nat) ^ 31 = 2147483648 := by decide
              rw [i32_ok _ _ (by omega) (by omega), bind_ok]
              have : ((k : Int) + 1).toNat = k + 1 := by omega
              rw [this]
              exact ih _ _ _ hmd
            · rw [if_neg hk, if_neg hk]; rfl
    · rw [if_neg hd, if_neg hd]
      by_cases hp : c.toNat = 0x2e
      · rw [if_pos hp, if_pos hp]
        cases d with
        | none => exact ih _ _ _ hmd
        | some k => rfl
      · rw [if_neg hp, if_neg hp]; rfl

/-- the decimal counter never exceeds `max_decimals` -/
theorem parseLoop_dec_le (s : Bytes) : ∀ (v : Nat) (d : Option Nat) (md v' : Nat) (d' : Option Nat),
    (∀ k, d = some k → k ≤ md) → parseLoop s v d md = .ok (v', d') → ∀ k, d' = some k → k ≤ md := by
  induction s with
  | nil =>
    intro v d md v' d' hd h k hk
    simp only [parseLoop, Except.ok.injEq, Prod.mk.injEq] at h
    exact hd k (by rw [h.2]; exact hk)
  | cons c cs ih =>
    intro v d md v' d' hd h
    unfold parseLoop at h
    split at h
    · split at h
      · cases h
      · split at h
        · cases h
        · cases d with
          | none => exact ih _ _ _ _ _ (by intro k hk; cases hk) h
          | some k0 =>
            simp only [] at h
            split at h
            · exact ih _ _ _ _ _ (by intro k hk; cases hk; omega) h
            · cases h
    · split at h
      · cases d with
        | none => exact ih _ _ _ _ _ (by intro k hk; cases hk; omega) h
        | some k0 => cases h
      · cases h

/-- the REGENERATED precision table holds small numbers (so `-precision` and the counters stay inside `i32`) -/
theorem precision_small (d : Denom) : -12 ≤ precisionOf d ∧ precisionOf d ≤ 12 := by
  cases d <;> decide

theorem any_ne_false_getElem (s : Bytes) (n : Nat) (hn : 1 ≤ n) (hl : n ≤ s.length)
    (h : (s.reverse.take n).any (fun c => c != 0x30) = false) : s[s.length - n]? = some 0x30 := by
  have hlt : s.length - n < s.length := by omega
  have hmem : s[s.length - n] ∈ s.reverse.take n := by
    rw [List.mem_take_iff_getElem]
    refine ⟨n - 1, by simp; omega, ?_⟩
    simp only [List.getElem_reverse]
    congr 1; omega
  rw [List.any_eq_false] at h
  have := h _ hmem
  simp only [bne_iff_ne, ne_eq, Decidable.not_not] at this
  rw [List.getElem?_eq_getElem hlt, this]

theorem maxDecimalsP_eq (s : Bytes) (d : Denom) : maxDecimalsP s d = ofExc (maxDecimals s d) := by
  unfold maxDecimalsP maxDecimals
  have hp := precision_small d
  have h31 : (2 : Int) ^ 31 = 2147483648 := by decide
  rw [i32_ok _ _ (by omega) (by omega), bind_ok]
  simp only []
  by_cases hneg : -(precisionOf d) < 0
  · rw [if_pos hneg, if_pos hneg]
    by_cases htp : isTooPrecise s (-(precisionOf d)).natAbs = true
    · rw [if_pos htp, if_pos htp]; rfl
    · rw [if_neg htp, if_neg htp]
      have htp' : isTooPrecise s (-(precisionOf d)).natAbs = false := by simpa using htp
      simp only [isTooPrecise, Bool.or_eq_false_iff, decide_eq_false_iff_not, Nat.not_le] at htp'
      obtain ⟨⟨_, hlen⟩, hany⟩ := htp'
      have hn1 : 1 ≤ (-(precisionOf d)).natAbs := by omega
      have : subU "parse_signed_to_piconero: s.len() - last_n" s.length (-(precisionOf d)).natAbs
          = .ok (s.length - (-(precisionOf d)).natAbs) := by simp [subU]; omega
      rw [this, bind_ok]
      have hb := any_ne_false_getElem s _ hn1 (by omega) hany
      have hbd : isBoundary s (s.length - (-(precisionOf d)).natAbs) = true := by
        simp only [isBoundary, hb, Bool.or_eq_true, beq_iff_eq]
        right; decide
      have hb0 : isBoundary s 0 = true := by simp [isBoundary]
      simp only [strSlice, hb0, hbd, Nat.zero_le, and_true, Nat.sub_le, if_true, bind_ok, Nat.sub_zero, List.drop_zero]
      rfl
  · rw [if_neg hneg, if_neg hneg]; rfl

theorem maxDecimals_md_le (s : Bytes) (d : Denom) (s2 : Bytes) (md : Nat) (h : maxDecimals s d = .ok (s2, md)) : md ≤ 12 := by
  unfold maxDecimals at h
  have hp := precision_small d
  simp only [] at h
  by_cases hneg : -(precisionOf d) < 0
  · rw [if_pos hneg] at h
    by_cases htp : isTooPrecise s (-(precisionOf d)).natAbs = true
    · rw [if_pos htp] at h; cases h
    · rw [if_neg htp] at h
      simp only [Except.ok.injEq, Prod.mk.injEq] at h; omega
  · rw [if_neg hneg] at h
    simp only [Except.ok.injEq, Prod.mk.injEq] at h; omega

theorem utf8_head_not_cont (s : Bytes) (h : Utf8 s) (c : UInt8) (r : Bytes) (hs : s = c :: r) : isCont c = false := by
  cases h with
  | nil => cases hs
  | ascii c' r' hc _ =>
    cases hs
    simp [isCont]; omega
  | multi l cs r' hl _ _ _ _ =>
    cases hs
    simp [isCont]; omega

theorem utf8_tail_of_ascii (c : UInt8) (r : Bytes) (h : Utf8 (c :: r)) (hc : c.toNat < 0x80) : Utf8 r := by
  cases h with
  | ascii _ _ _ hr => exact hr
  | multi l cs r' hl _ _ _ _ => omega

theorem parseSignedToPiconeroP_eq (s : Bytes) (d : Denom) (hu : Utf8 s) :
    parseSignedToPiconeroP s d = ofExc (parseSignedToPiconero s d) := by
  unfold parseSignedToPiconeroP parseSignedToPiconero
  by_cases h0 : s = []
  · rw [if_pos h0, if_pos h0]; rfl
  · rw [if_neg h0, if_neg h0]
    by_cases h50 : s.length > 50
    · rw [if_pos h50, if_pos h50]; rfl
    · rw [if_neg h50, if_neg h50]
      simp only []
      by_cases hn1 : s.head? = some 0x2d ∧ s.length = 1
      · rw [if_pos hn1, if_pos hn1]; rfl
      · rw [if_neg hn1, if_neg hn1]
        -- the `&s[1..]` slice
        have hs1 : (if s.head? = some 0x2d then strSlice "parse_signed_to_piconero: &s[1..]" s 1 s.length else Out.ok s)
            = .ok (if s.head? = some 0x2d then s.tail else s) := by
          by_cases hneg : s.head? = some 0x2d
          · rw [if_pos hneg, if_pos hneg]
            cases s with
            | nil => cases hneg
            | cons c r =>
              simp only [List.head?_cons, Option.some.injEq] at hneg
              subst hneg
              have hr := utf8_tail_of_ascii _ r hu (by decide)
              have hb1 : isBoundary ((0x2d : UInt8) :: r) 1 = true := by
                cases r with
                | nil => simp [isBoundary]
                | cons c2 r2 =>
                  have := utf8_head_not_cont _ hr c2 r2 rfl
                  simp [isBoundary, this]
              have hbl : isBoundary ((0x2d : UInt8) :: r) ((0x2d : UInt8) :: r).length = true := by simp [isBoundary]
              simp only [strSlice, hb1, hbl, and_true, Nat.le_refl]
              rw [if_pos (by simp)]
              simp
          · rw [if_neg hneg, if_neg hneg]
        rw [hs1, bind_ok, maxDecimalsP_eq]
        cases hm : maxDecimals (if s.head? = some 0x2d then s.tail else s) d with
        | error e => rfl
        | ok sm =>
          obtain ⟨s2, md⟩ := sm
          simp only [ofExc_ok, bind_ok]
          have hmd : md ≤ 12 := maxDecimals_md_le _ d s2 md hm
          rw [parseLoopP_eq _ _ _ _ (by omega)]
          cases hl : parseLoop s2 0 none md with
          | error e => rfl
          | ok vd =>
            obtain ⟨v, dec⟩ := vd
            simp only [ofExc_ok, bind_ok]
            have hdec : dec.getD 0 ≤ md := by
              cases dec with
              | none => simp
              | some k => exact parseLoop_dec_le s2 0 none md v (some k) (by intro k hk; cases hk) hl k rfl
            have h31 : (2 : Int) ^ 31 = 2147483648 := by decide
            rw [i32_ok _ _ (by omega) (by omega), bind_ok]
            have : ((md : Int) - ((dec.getD 0 : Nat) : Int)).toNat = md - dec.getD 0 := by omega
            rw [this]
            cases rescale (md - dec.getD 0) v <;> rfl

theorem parseSignedToPiconeroP_no_panic (s : Bytes) (d : Denom) (hu : Utf8 s) :
    (parseSignedToPiconeroP s d).isPanic = false := by
  rw [parseSignedToPiconeroP_eq s d hu]; cases parseSignedToPiconero s d <;> rfl

/-! ## padding loop, VarInt accumulation, ring size -/

/-- a cursor-reporting result without panic -/
def liftRd (x : Option Extra.SubField × Bytes) : Option (Out Extra.SubField) × Bytes := (some (ofOpt x.1), x.2)

theorem padLoopP_eq : ∀ (fuel i : Nat) (b : Bytes), i + fuel ≤ 255 → padLoopP fuel i b = liftRd (Extra.padLoop fuel i b)
  | 0, i, b, _ => rfl
  | fuel+1, i, [], _ => rfl
  | fuel+1, i, x :: xs, h => by
    unfold padLoopP Extra.padLoop
    simp only []
    by_cases hx : x ≠ 0
    · rw [if_pos hx, if_pos hx]; rfl
    · rw [if_neg hx, if_neg hx]
      have : addU 8 "SubField::consensus_decode: i += 1" i 1 = .ok (i + 1) := by
        unfold addU; rw [if_pos (by omega)]
      rw [this]
      exact padLoopP_eq fuel (i+1) xs (by omega)

/-- the `u8` counter of the padding loop cannot overflow: the loop runs at most 255 times from 0 -/
theorem padLoopP_no_panic (b : Bytes) : ∀ o r, padLoopP 255 0 b = (some o, r) → o.isPanic = false := by
  intro o r h
  rw [padLoopP_eq 255 0 b (by omega)] at h
  simp only [liftRd, Prod.mk.injEq, Option.some.injEq] at h
  rw [← h.1]; cases (Extra.padLoop 255 0 b).1 <;> rfl

theorem accumP_eq : ∀ (gs : List Nat) (int : Nat), gs ≠ [] → accumP gs int = ofOpt (accum gs int)
  | [], _, h => absurd rfl h
  | [last], int, _ => rfl
  | g :: g' :: rest, int, _ => by
    unfold accumP accum
    by_cases h57 : int + g < 2 ^ 57
    · rw [if_pos h57, if_pos h57]
      have : (int + g) * 128 < 2 ^ 64 := by
        have e : (2 : Nat) ^ 64 = 2 ^ 57 * 128 := by decide
        rw [e]; exact Nat.mul_lt_mul_of_pos_right h57 (by decide)
      rw [Nat.mod_eq_of_lt this]   -- the wrapping shift loses nothing below 2^57
      exact accumP_eq (g' :: rest) _ (by simp)
    · rw [if_neg h57, if_neg h57]; rfl

theorem collect_nonempty : ∀ (b : Bytes) (acc gs : List Nat) (r : Bytes), collect b acc = some (gs, r) → gs ≠ []
  | [], _, _, _, h => by simp [collect] at h
  | x :: xs, acc, gs, r, h => by
    unfold collect at h
    split at h
    · cases h
    · split at h
      · simp only [Option.some.injEq, Prod.mk.injEq] at h
        rw [← h.1]; simp
      · exact collect_nonempty xs _ gs r h

/-- `VarInt::consensus_decode`: `split_last().unwrap()` always finds a group (the one panic site); and the value is the total
model's — in particular the wrapping shift `int << 7` never loses a set bit (a value fact, not a panic) -/
theorem varint_accum_no_panic (b : Bytes) (gs : List Nat) (r : Bytes) (h : collect b [] = some (gs, r)) :
    accumP gs.reverse 0 = ofOpt (accum gs.reverse 0) :=
  accumP_eq _ _ (by simpa using collect_nonempty b [] gs r h)

theorem mixinP_eq (ins : List TxIn) :
    mixinP ins = (match ins.head? with
      | some (.toKey _ o _) => if o.length = 0 then .err else .ok (o.length - 1)
      | _ => .ok 0) := by
  cases ins with
  | nil => rfl
  | cons i r =>
    unfold mixinP
    rw [if_neg (by simp)]
    cases i <;> rfl
theorem mixinP_no_panic (ins : List TxIn) : (mixinP ins).isPanic = false := by
  rw [mixinP_eq]
  cases ins with
  | nil => rfl
  | cons i r =>
    cases i with
    | gen h => rfl
    | toKey a o k =>
      simp only [List.head?_cons]
      split <;> rfl
/-- the index expression ALONE panics exactly on the empty input list: the site can fire -/
theorem mixinAtP_panic_iff (ins : List TxIn) : (mixinAtP ins).isPanic = true ↔ ins = [] := by
  cases ins with
  | nil => exact ⟨fun _ => rfl, fun _ => rfl⟩
  | cons i r =>
    refine ⟨fun h => ?_, fun h => by cases h⟩
    exfalso
    cases i with
    | gen g => simp [mixinAtP, Out.isPanic] at h
    | toKey a o k =>
      unfold mixinAtP at h
      simp only [List.getElem?_cons_zero] at h
      split at h <;> simp [Out.isPanic] at h
end Monero.Panics
