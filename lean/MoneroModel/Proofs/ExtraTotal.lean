import MoneroModel.Proofs.ExtraBasic
open Monero Monero.Extra

/-! The `try_parse` loop: it always stops by running out of input (never out of fuel), the flag is `Ok` exactly
when no sub-field read failed, and the fields before the first failure are a prefix of the result. Core Lean only. -/
namespace Monero.Extra

theorem loop_nil (vk : Bytes → Bool) (fuel : Nat) (acc : List SubField) (err : Bool) (npre : Nat) :
    loop vk fuel [] acc err npre = some ⟨err, acc.reverse, acc.reverse.take npre⟩ := by
  cases fuel <;> rfl

theorem loop_zero_cons (vk : Bytes → Bool) (x : UInt8) (xs : Bytes) (acc : List SubField) (err : Bool) (npre : Nat) :
    loop vk 0 (x :: xs) acc err npre = none := rfl

theorem loop_succ_cons (vk : Bytes → Bool) (fuel : Nat) (x : UInt8) (xs : Bytes) (acc : List SubField) (err : Bool)
    (npre : Nat) :
    loop vk (fuel+1) (x :: xs) acc err npre =
      match subFieldRd vk (x :: xs) with
      | (some sf, r) => loop vk fuel r (sf :: acc) err (if err then npre else npre + 1)
      | (none, r) => loop vk fuel r acc true npre := rfl

/-- one iteration on a successful sub-field read -/
theorem loop_step_some (vk : Bytes → Bool) (fuel : Nat) (b : Bytes) (hb : b ≠ []) {sf : SubField} {r : Bytes}
    (h : subFieldRd vk b = (some sf, r)) (acc : List SubField) (err : Bool) (npre : Nat) :
    loop vk (fuel+1) b acc err npre = loop vk fuel r (sf :: acc) err (if err then npre else npre + 1) := by
  cases b with
  | nil => exact absurd rfl hb
  | cons x xs => rw [loop_succ_cons, h]

/-- the result does not depend on the fuel as soon as the fuel covers the remaining length -/
theorem loop_fuel_irrelevant (vk : Bytes → Bool) : ∀ (f1 f2 : Nat) (b : Bytes) (acc : List SubField) (err : Bool)
    (npre : Nat), b.length ≤ f1 → b.length ≤ f2 → loop vk f1 b acc err npre = loop vk f2 b acc err npre := by
  intro f1
  induction f1 with
  | zero =>
    intro f2 b acc err npre h1 _
    have : b = [] := List.eq_nil_of_length_eq_zero (by omega)
    subst this; rw [loop_nil, loop_nil]
  | succ f1 ih =>
    intro f2 b acc err npre h1 h2
    cases b with
    | nil => rw [loop_nil, loop_nil]
    | cons x xs =>
      cases f2 with
      | zero => simp at h2
      | succ f2 =>
        rw [loop_succ_cons, loop_succ_cons]
        have hc := subFieldRd_consumes vk x xs
        simp only [List.length_cons] at h1 h2
        cases h : subFieldRd vk (x :: xs) with
        | mk o r =>
          rw [h] at hc
          cases o with
          | none => exact ih f2 r acc true npre (by simp at hc; omega) (by simp at hc; omega)
          | some sf => exact ih f2 r (sf :: acc) err _ (by simp at hc; omega) (by simp at hc; omega)

/-- with fuel ≥ remaining length the loop returns a result -/
theorem loop_total (vk : Bytes → Bool) : ∀ (fuel : Nat) (b : Bytes) (acc : List SubField) (err : Bool) (npre : Nat),
    b.length ≤ fuel → ∃ p, loop vk fuel b acc err npre = some p := by
  intro fuel
  induction fuel with
  | zero =>
    intro b acc err npre h
    have : b = [] := List.eq_nil_of_length_eq_zero (by omega)
    subst this; exact ⟨_, loop_nil vk 0 acc err npre⟩
  | succ fuel ih =>
    intro b acc err npre h
    cases b with
    | nil => exact ⟨_, loop_nil vk _ acc err npre⟩
    | cons x xs =>
      rw [loop_succ_cons]
      have hc := subFieldRd_consumes vk x xs
      simp only [List.length_cons] at h
      cases h' : subFieldRd vk (x :: xs) with
      | mk o r =>
        rw [h'] at hc
        cases o with
        | none => exact ih r acc true npre (by simp at hc; omega)
        | some sf => exact ih r (sf :: acc) err _ (by simp at hc; omega)

theorem tryParse_eq_loop (vk : Bytes → Bool) (e : Bytes) (fuel : Nat) (h : e.length ≤ fuel) :
    loop vk fuel e [] false 0 = some (tryParse vk e) := by
  obtain ⟨p, hp⟩ := loop_total vk e.length e [] false 0 (Nat.le_refl _)
  rw [loop_fuel_irrelevant vk fuel e.length e [] false 0 h (Nat.le_refl _)]
  unfold tryParse; rw [hp]; rfl

/-- no sub-field read fails when the input is read from the start: the chain of successful reads reaches the end -/
inductive Clean (vk : Bytes → Bool) : Bytes → Prop
  | nil : Clean vk []
  | step {b : Bytes} {sf : SubField} {r : Bytes} : b ≠ [] → subFieldRd vk b = (some sf, r) → Clean vk r → Clean vk b

theorem loop_err_iff (vk : Bytes → Bool) : ∀ (fuel : Nat) (b : Bytes) (acc : List SubField) (err : Bool) (npre : Nat)
    (p : Parsed), loop vk fuel b acc err npre = some p → (p.err = false ↔ err = false ∧ Clean vk b) := by
  intro fuel
  induction fuel with
  | zero =>
    intro b acc err npre p h
    cases b with
    | nil => rw [loop_nil] at h; cases h; simp [Clean.nil]
    | cons x xs => rw [loop_zero_cons] at h; cases h
  | succ fuel ih =>
    intro b acc err npre p h
    cases b with
    | nil => rw [loop_nil] at h; cases h; simp [Clean.nil]
    | cons x xs =>
      rw [loop_succ_cons] at h
      cases h' : subFieldRd vk (x :: xs) with
      | mk o r =>
        rw [h'] at h
        cases o with
        | none =>
          have := ih r acc true npre p h
          constructor
          · intro hp; exact absurd (this.mp hp).1 (by simp)
          · rintro ⟨_, hc⟩
            cases hc with
            | step _ hs _ => rw [h'] at hs; cases hs
        | some sf =>
          have := ih r (sf :: acc) err _ p h
          rw [this]
          constructor
          · rintro ⟨he, hc⟩; exact ⟨he, Clean.step (by simp) h' hc⟩
          · rintro ⟨he, hc⟩
            cases hc with
            | step _ hs hr => rw [h'] at hs; cases hs; exact ⟨he, hr⟩

/-- bookkeeping of `pre`: it is always the first `k` fields for some `k`, and all of them when no read failed -/
theorem loop_pre (vk : Bytes → Bool) : ∀ (fuel : Nat) (b : Bytes) (acc : List SubField) (err : Bool) (npre : Nat)
    (p : Parsed), loop vk fuel b acc err npre = some p → npre ≤ acc.length → (err = false → npre = acc.length) →
    (∃ k, p.pre = p.fields.take k) ∧ (p.err = false → p.pre = p.fields) := by
  intro fuel
  induction fuel with
  | zero =>
    intro b acc err npre p h hle heq
    cases b with
    | nil =>
      rw [loop_nil] at h; cases h
      refine ⟨⟨npre, rfl⟩, fun he => ?_⟩
      have he' : err = false := he
      show (acc.reverse.take npre) = acc.reverse
      rw [heq he', ← List.length_reverse]; exact List.take_length
    | cons x xs => rw [loop_zero_cons] at h; cases h
  | succ fuel ih =>
    intro b acc err npre p h hle heq
    cases b with
    | nil =>
      rw [loop_nil] at h; cases h
      refine ⟨⟨npre, rfl⟩, fun he => ?_⟩
      have he' : err = false := he
      show (acc.reverse.take npre) = acc.reverse
      rw [heq he', ← List.length_reverse]; exact List.take_length
    | cons x xs =>
      rw [loop_succ_cons] at h
      cases h' : subFieldRd vk (x :: xs) with
      | mk o r =>
        rw [h'] at h
        cases o with
        | none =>
          have := ih r acc true npre p h hle (by simp)
          refine ⟨this.1, fun he => ?_⟩
          have := (loop_err_iff vk fuel r acc true npre p h).mp he
          exact absurd this.1 (by simp)
        | some sf =>
          refine ih r (sf :: acc) err _ p h ?_ ?_
          · cases err <;> simp <;> omega
          · intro he; subst he; simp [heq rfl]

end Monero.Extra
