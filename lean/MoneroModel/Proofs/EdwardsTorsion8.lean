import MoneroModel.Proofs.EdwardsLawful
/-! A point of order exactly 8 of the lawful Ed25519 instance `edOps` (helpers of Props/C10): the point with the
encoding of curve25519-dalek's `EIGHT_TORSION[1]`. Its multiples are the 8 small-order points. Kernel evaluation of the
reference decoder / ladder (`decide +kernel`), as for `T4` in Proofs/EdwardsLawful.lean. -/
namespace Monero.Edw
open Monero

/-- compressed `EIGHT_TORSION[1]` of curve25519-dalek -/
def t8bytes : Bytes := [0xc7, 0x17, 0x6a, 0x70, 0x3d, 0x4d, 0xd8, 0x4f, 0xba, 0x3c, 0x0b, 0x76, 0x0d, 0x10, 0x67, 0x0f,
  0x2a, 0x20, 0x53, 0xfa, 0x2c, 0x39, 0xcc, 0xc6, 0x4e, 0xc7, 0xfd, 0x77, 0x92, 0xac, 0x03, 0x7a]

def T8raw : Ed.Pt := (Ed.decodePt t8bytes).getD Ed.zero

set_option maxRecDepth 100000 in
theorem decodePt_t8_isSome : (Ed.decodePt t8bytes).isSome = true := by decide +kernel

theorem decodePt_t8 : Ed.decodePt t8bytes = some T8raw := by
  obtain ⟨P, h⟩ := Option.isSome_iff_exists.mp decodePt_t8_isSome
  unfold T8raw
  rw [h]; rfl

theorem T8raw_valid : Valid T8raw := (decodePt_valid decodePt_t8).1

/-- a point of order 8 of the lawful instance -/
def T8 : EdPoint := toPoint T8raw T8raw_valid

/-- it is an ACCEPTED key: `PublicKey::from_slice` (strict decoding) returns it -/
theorem edOps_dec_t8 : edOps.dec t8bytes = some T8 := by
  rw [edOps_dec]; exact decPoint_some decodePt_t8

set_option maxRecDepth 100000 in
theorem T8raw_smul8 : Ed.eqPt (Ed.smul 8 T8raw) Ed.zero = true := by decide +kernel
set_option maxRecDepth 100000 in
theorem T8raw_smul4 : Ed.eqPt (Ed.smul 4 T8raw) Ed.zero = false := by decide +kernel

theorem T8_order : 8 • T8 = 0 ∧ 4 • T8 ≠ 0 := by
  have h8 := valid_smul' 8 T8raw_valid
  have h4 := valid_smul' 4 T8raw_valid
  constructor
  · rw [T8, ← toPoint_smul (by decide) T8raw_valid h8, ← toPoint_zero valid_zero]
    exact (eqPt_iff_toPoint h8 valid_zero).mp T8raw_smul8
  · rw [T8, ← toPoint_smul (by decide) T8raw_valid h4, ← toPoint_zero valid_zero]
    intro h
    have := (eqPt_iff_toPoint h4 valid_zero).mpr h
    rw [T8raw_smul4] at this
    exact absurd this (by simp)

/-- the order is exactly 8 -/
theorem addOrderOf_T8 : addOrderOf T8 = 8 := by
  have := addOrderOf_eq_prime_pow (p := 2) (n := 2) (x := T8) (by simpa using T8_order.2) (by simpa using T8_order.1)
  simpa using this

/-- an odd multiple of T8 is never 0 -/
theorem T8_odd_smul_ne_zero (k : ℕ) (hk : k % 2 = 1) : k • T8 ≠ 0 := by
  intro h
  have hd : 8 ∣ k := by rw [← addOrderOf_T8]; exact addOrderOf_dvd_of_nsmul_eq_zero h
  omega

/-- `l` does not kill T8 -/
theorem T8_not_l_torsion : Ed.l • T8 ≠ 0 := T8_odd_smul_ne_zero Ed.l (by decide)
end Monero.Edw
