import MoneroModel.Proofs.GroupInstance
import MoneroModel.Proofs.ScanMore
/-! Non-trivial witnesses for the no-collision hypotheses of the C07 theorems (`hno` of `C07_out_of_range_not_reported`, `hinj` of
`C07_index_exact`): a lawful instance in which the subaddress spend keys of DIFFERENT indices differ. In `zmodOps` the hash is
constantly empty, every hash-to-scalar is 0 and every subaddress spend key equals `S`, so there the hypotheses hold for
single-index or empty ranges only. `zmodOps1` is `zmodOps` with the hash constantly `[1]`: every hash-to-scalar is 1, the spend
key of every index other than `(0,0)` is `S + 8` and `S + 8 ≠ S` in `Z/(8·l)`. -/
namespace Monero
open Monero.Scan

def zmodOps1 : CryptoOps (ZMod zN) := { zmodOps with keccak := fun _ => [1] }

theorem zmodOps1_lawful : Lawful zmodOps1 :=
  ⟨zmodOps_lawful.add_eq, zmodOps_lawful.sub_eq, zmodOps_lawful.smul_eq, zmodOps_lawful.l_gt, zmodOps_lawful.base_order,
    zmodOps_lawful.enc_inj, zmodOps_lawful.dec_enc⟩

theorem zmodOps1_hs (m : Bytes) : hsOf zmodOps1 m = 1 := by
  show leNat [1] % Ed.l = 1
  have : leNat [1] = 1 := by decide
  rw [this]; unfold Ed.l; norm_num

theorem zmod_eight_ne_zero : (8 : ZMod zN) ≠ 0 := by
  have h : ((8 : ℕ) : ZMod zN) ≠ 0 := by
    rw [Ne, ZMod.natCast_eq_zero_iff]
    unfold zN Ed.l; norm_num
  simpa using h

/-- the subaddress spend keys of `zmodOps1`: `S` for the primary address, `S + 8` for every other index -/
theorem zmodOps1_subSpendPub (v : Nat) (S : ZMod zN) (i j : Nat) :
    subSpendPub zmodOps1 v S i j = if i = 0 ∧ j = 0 then S else S + 8 := by
  unfold subSpendPub idxZero
  by_cases h : i = 0 ∧ j = 0
  · obtain ⟨rfl, rfl⟩ := h; simp
  · have hb : (i == 0 && j == 0) = false := by
      simp only [Bool.and_eq_false_iff, beq_eq_false_iff_ne]
      by_cases hi : i = 0
      · right; intro hj; exact h ⟨hi, hj⟩
      · left; exact hi
    rw [hb, if_neg h]
    simp only [Bool.false_eq_true, if_false]
    unfold pubOf subScalar
    rw [zmodOps1_hs]
    show S + (1 : ℕ) • (8 : ZMod zN) = S + 8
    rw [one_nsmul]

theorem zmodOps1_add8_ne (S : ZMod zN) : S + 8 ≠ S := by
  intro h
  exact zmod_eight_ne_zero (by simpa using h)
end Monero
