import MoneroModel.Model.Address
import MoneroModel.Proofs.Base58Bij
/-! The model of the `base58-monero` crate (`Monero.B58`, control flow of the Rust source) computes the same functions
as the reference `Base58`. -/
open Monero
namespace Monero.B58

theorem alphabet_eq : BASE58_CHARS = Base58.alphabet := by decide

/-! ### encoding one block -/
theorem toDigits_succ (B k n : Nat) : Base58.toDigits B (k + 1) n = Base58.toDigits B k (n / B) ++ [n % B] := by
  simp [Base58.toDigits, Base58.toLE]

theorem encLoop_eq : ∀ (k n : Nat) (acc : List UInt8),
    encLoop k n acc = (Base58.toDigits 58 k n).map Base58.charOf ++ acc
  | 0, _, _ => by simp [encLoop, Base58.toDigits, Base58.toLE]
  | k + 1, n, acc => by
    rw [encLoop, encLoop_eq k, toDigits_succ, alphabet_eq]
    simp [Base58.charOf]

theorem foldr_eq_ofLE : ∀ l : Bytes,
    List.foldr (fun (b : UInt8) (res : Nat) => (res <<< 8) ||| b.toNat) 0 l = Base58.ofLE 256 (l.map (·.toNat))
  | [] => rfl
  | x :: l => by
    simp only [List.foldr_cons, List.map_cons, Base58.ofLE, foldr_eq_ofLE l]
    rw [← Nat.shiftLeft_add_eq_or_of_lt (by exact x.toNat_lt), Nat.shiftLeft_eq]
    omega

theorem u8beToU64_eq (data : Bytes) : u8beToU64 data = Base58.ofDigits 256 (data.map (·.toNat)) := by
  unfold u8beToU64 Base58.ofDigits
  rw [List.foldl_eq_foldr_reverse, foldr_eq_ofLE, List.map_reverse]

theorem sizes_getD (k : Nat) (h : k ≤ 8) : ENCODED_BLOCK_SIZES.getD k 0 = Base58.encSize k := by
  have : k = 0 ∨ k = 1 ∨ k = 2 ∨ k = 3 ∨ k = 4 ∨ k = 5 ∨ k = 6 ∨ k = 7 ∨ k = 8 := by omega
  rcases this with rfl | rfl | rfl | rfl | rfl | rfl | rfl | rfl | rfl <;> rfl

/-- `encode_block` = the reference block, padded with `'1'` to 11 characters -/
theorem encodeBlock_eq (data : Bytes) (h0 : 0 < data.length) (h8 : data.length ≤ 8) :
    encodeBlock data = some (Base58.encodeBlock data ++ List.replicate (11 - Base58.encSize data.length) 49) := by
  unfold encodeBlock
  have hne : data.isEmpty = false := by cases data with | nil => simp at h0 | cons _ _ => rfl
  have hgt : ¬ data.length > FULL_BLOCK_SIZE := by simp only [FULL_BLOCK_SIZE]; omega
  simp only [hne, hgt, Bool.false_or, decide_false, Bool.false_eq_true, if_false]
  rw [sizes_getD _ h8, encLoop_eq, u8beToU64_eq]
  simp [Base58.encodeBlock, FULL_ENCODED_BLOCK_SIZE]

/-! ### encoding a byte string -/
theorem chunks_nil (n : Nat) : chunks n [] = [] := by rw [chunks]; simp
theorem chunks_cons (n : Nat) (data : Bytes) (h : 0 < data.length) (hn : 0 < n) :
    chunks n data = data.take n :: chunks n (data.drop n) := by
  rw [chunks]; simp
  exact ⟨by intro h'; subst h'; simp at h, by omega⟩

/-- the index-driven loop of `encode` produces the reference text -/
theorem emit_eq : ∀ (m : Nat) (data : Bytes) (i full last : Nat), data.length = m →
    full = i + data.length / 8 → last = Base58.encSize (data.length % 8) →
    ∃ vs, collect ((chunks 8 data).map encodeBlock) = some vs ∧ emit full last i vs = Base58.encode data := by
  intro m
  induction m using Nat.strongRecOn with
  | _ m ih =>
    intro data i full last hm hfull hlast
    by_cases h0 : data.length = 0
    · have : data = [] := List.eq_nil_of_length_eq_zero h0
      subst this
      exact ⟨[], by simp [chunks_nil, collect], by simp [emit, Base58.encode_le, Base58.encodeBlock, Base58.toDigits, Base58.toLE, Base58.encSize]⟩
    · have hpos : 0 < data.length := by omega
      rw [chunks_cons 8 data hpos (by decide)]
      have ht0 : 0 < (data.take 8).length := by simp; omega
      have ht8 : (data.take 8).length ≤ 8 := by simp; omega
      by_cases h8 : data.length ≤ 8
      · have hd : data.drop 8 = [] := List.drop_eq_nil_of_le h8
        have htk : data.take 8 = data := List.take_of_length_le h8
        rw [hd, chunks_nil, htk] at *
        refine ⟨[Base58.encodeBlock data ++ List.replicate (11 - Base58.encSize data.length) 49],
          by simp only [List.map_cons, List.map_nil, encodeBlock_eq _ hpos h8, collect], ?_⟩
        rw [Base58.encode_le _ h8]
        simp only [emit, List.append_nil]
        by_cases he : data.length = 8
        · have : i ≠ full := by omega
          simp [this, he, Base58.encSize]
        · have hif : i = full := by omega
          have hl : last = Base58.encSize data.length := by rw [hlast]; congr 1; omega
          simp only [hif, if_true, hl]
          rw [← Base58.encodeBlock_length, List.take_left]
      · obtain ⟨vs, hvs, hemit⟩ := ih (data.drop 8).length (by rw [List.length_drop]; omega) (data.drop 8) (i + 1) full last rfl
          (by rw [List.length_drop]; omega) (by rw [List.length_drop, hlast]; congr 1; omega)
        refine ⟨(Base58.encodeBlock (data.take 8) ++ List.replicate (11 - Base58.encSize (data.take 8).length) 49) :: vs, ?_, ?_⟩
        · simp only [List.map_cons, encodeBlock_eq _ ht0 ht8, collect, hvs]
        · simp only [emit, hemit]
          have : i ≠ full := by omega
          have hlen : (data.take 8).length = 8 := by simp; omega
          rw [Base58.encode_gt data (by omega)]
          simp [this, hlen, Base58.encSize]

/-- `base58::encode` never fails and is the reference encoder -/
theorem encode_eq (data : Bytes) : encode data = some (Base58.encode data) := by
  unfold encode
  obtain ⟨vs, h1, h2⟩ := emit_eq data.length data 0 (data.length / 8) (Base58.encSize (data.length % 8)) rfl (by omega) rfl
  simp only [FULL_BLOCK_SIZE]
  rw [sizes_getD _ (by omega), h1]
  simp only [h2]

/-! ### decoding one block -/
theorem indexFrom_eq (c : UInt8) : ∀ (l : List UInt8) (i : Nat),
    Base58.indexFrom c l i = (position (· == c) l).map (· + i)
  | [], _ => rfl
  | x :: l, i => by
    simp only [Base58.indexFrom, position]
    by_cases h : x = c
    · simp [h]
    · simp only [h, if_false, beq_iff_eq, indexFrom_eq c l (i + 1), Option.map_map]
      congr 1; funext j; simp; omega

theorem position_eq_digitOf (c : UInt8) : position (· == c) BASE58_CHARS = Base58.digitOf c := by
  rw [Base58.digitOf, indexFrom_eq, alphabet_eq]; simp

/-- the `(res, order)` loop over the reversed block -/
theorem accDigits_eq : ∀ (l : List UInt8) (res order : Nat),
    accDigits l (res, order) =
      (Base58.digitsOf l).map fun ds => (res + order * Base58.ofLE 58 ds, order * 58 ^ ds.length)
  | [], res, order => by simp [accDigits, Base58.digitsOf, Base58.ofLE]
  | c :: l, res, order => by
    simp only [accDigits, position_eq_digitOf, Base58.digitsOf]
    cases hd : Base58.digitOf c with
    | none => simp
    | some d =>
      simp only [accDigits_eq l]
      cases hl : Base58.digitsOf l with
      | none => simp
      | some ds =>
        simp only [Option.map_some, Base58.ofLE, List.length_cons, Option.some.injEq, Prod.mk.injEq]
        refine ⟨?_, ?_⟩
        · rw [Nat.mul_add, Nat.add_assoc, Nat.mul_assoc]
        · rw [Nat.pow_succ', Nat.mul_assoc]

theorem digitsOf_snoc : ∀ (l : List UInt8) (c : UInt8),
    Base58.digitsOf (l ++ [c]) =
      match Base58.digitsOf l, Base58.digitOf c with | some ds, some d => some (ds ++ [d]) | _, _ => none
  | [], c => by
    simp only [List.nil_append, Base58.digitsOf]
    cases Base58.digitOf c <;> rfl
  | x :: l, c => by
    simp only [List.cons_append, Base58.digitsOf, digitsOf_snoc l c]
    cases Base58.digitOf x <;> cases Base58.digitsOf l <;> cases Base58.digitOf c <;> rfl

theorem digitsOf_reverse : ∀ l : List UInt8, Base58.digitsOf l.reverse = (Base58.digitsOf l).map List.reverse
  | [] => rfl
  | x :: l => by
    rw [List.reverse_cons, digitsOf_snoc, digitsOf_reverse l]
    simp only [Base58.digitsOf]
    cases Base58.digitOf x <;> cases Base58.digitsOf l <;> simp

theorem beBytes_eq : ∀ k n, beBytes k n = (Base58.toDigits 256 k n).map UInt8.ofNat
  | 0, _ => rfl
  | k + 1, n => by rw [beBytes, beBytes_eq k, toDigits_succ]; simp

theorem beBytes_length (k n : Nat) : (beBytes k n).length = k := by
  rw [beBytes_eq]; simp [Base58.toDigits_length]

theorem beBytes_add : ∀ (k j n : Nat), beBytes (j + k) n = beBytes j (n / 256 ^ k) ++ beBytes k n
  | 0, j, n => by simp [beBytes]
  | k + 1, j, n => by
    rw [← Nat.add_assoc, beBytes, beBytes_add k j, beBytes, Nat.div_div_eq_div_mul, Nat.pow_succ', List.append_assoc]

/-- the low `k` bytes of the 8-byte big-endian form -/
theorem beBytes_drop (k n : Nat) (h : k ≤ 8) : (beBytes 8 n).drop (8 - k) = beBytes k n := by
  have e : 8 = (8 - k) + k := by omega
  conv => lhs; rw [e, beBytes_add]
  have : (beBytes (8 - k) (n / 256 ^ k)).length = 8 - k + k - k := by rw [beBytes_length]; omega
  rw [← this, List.drop_left]

private theorem position_sizes : ∀ s, s < 12 → position (· == s) ENCODED_BLOCK_SIZES = Base58.decSize s := by
  decide

theorem decSize_le (s k : Nat) (h : Base58.decSize s = some k) : s ≤ 11 := by
  obtain ⟨_, h2⟩ := Base58.decSize_some s k h
  rw [← h2]; exact Base58.encSize_le k

theorem max_eq (k : Nat) (h : k ≤ 8) : (if k = 8 then 2 ^ 64 else 1 <<< (k * 8)) = 256 ^ k := by
  have : k = 0 ∨ k = 1 ∨ k = 2 ∨ k = 3 ∨ k = 4 ∨ k = 5 ∨ k = 6 ∨ k = 7 ∨ k = 8 := by omega
  rcases this with rfl | rfl | rfl | rfl | rfl | rfl | rfl | rfl | rfl <;> decide

/-- `decode_block`, after the slice `data[8 - size..]` that `decode` takes, is the reference block decoder -/
theorem decodeBlock_eq (cs : List UInt8) :
    (decodeBlock cs).map (fun c => c.1.drop (FULL_BLOCK_SIZE - c.2)) = Base58.decodeBlock cs := by
  unfold decodeBlock Base58.decodeBlock
  simp only [FULL_ENCODED_BLOCK_SIZE, FULL_BLOCK_SIZE]
  by_cases hl : cs.length > 11
  · simp only [hl, if_true, Option.map_none]
    cases hk : Base58.decSize cs.length with
    | none => rfl
    | some k => have := decSize_le _ _ hk; omega
  · simp only [hl, if_false]
    rw [position_sizes _ (by omega)]
    cases hk : Base58.decSize cs.length with
    | none => rfl
    | some k =>
      obtain ⟨hk8, _⟩ := Base58.decSize_some _ _ hk
      simp only [accDigits_eq, digitsOf_reverse]
      cases hd : Base58.digitsOf cs with
      | none => rfl
      | some ds =>
        simp only [Option.map_some, Nat.zero_add, Nat.one_mul, max_eq k hk8, Base58.ofDigits]
        by_cases hlt : Base58.ofLE 58 ds.reverse < 256 ^ k
        · simp only [hlt, if_true, Option.map_some]
          rw [beBytes_drop _ _ hk8, beBytes_eq]
        · simp only [hlt, if_false, Option.map_none]

/-! ### decoding a text -/
theorem decode_nil' : decode [] = some [] := by
  unfold decode; rw [show FULL_ENCODED_BLOCK_SIZE = 11 from rfl, chunks_nil]; rfl

theorem decode_cons (s : List UInt8) (hpos : 0 < s.length) :
    decode s = Base58.join ((decodeBlock (s.take 11)).map (fun c => c.1.drop (FULL_BLOCK_SIZE - c.2))) (decode (s.drop 11)) := by
  unfold decode
  simp only [FULL_ENCODED_BLOCK_SIZE]
  rw [chunks_cons 11 s hpos (by decide)]
  simp only [List.map_cons]
  cases decodeBlock (s.take 11) with
  | none => simp [collect]
  | some c =>
    simp only [collect]
    cases h : collect ((chunks 11 (s.drop 11)).map decodeBlock) with
    | none => simp
    | some cs => simp

/-- `base58::decode` is the reference decoder -/
theorem decode_eq : ∀ (m : Nat) (s : List UInt8), s.length = m → decode s = Base58.decode s := by
  intro m
  induction m using Nat.strongRecOn with
  | _ m ih =>
    intro s hm
    by_cases h0 : s.length = 0
    · have : s = [] := List.eq_nil_of_length_eq_zero h0
      subst this
      rw [decode_nil', Base58.decode_le _ (by simp)]; rfl
    · have hpos : 0 < s.length := by omega
      rw [decode_cons s hpos, decodeBlock_eq]
      by_cases h11 : s.length ≤ 11
      · rw [List.drop_eq_nil_of_le h11, List.take_of_length_le h11, decode_nil', Base58.decode_le _ h11]
        cases Base58.decodeBlock s <;> simp [Base58.join]
      · rw [ih (s.drop 11).length (by rw [List.length_drop]; omega) (s.drop 11) rfl, Base58.decode_gt s (by omega)]
end Monero.B58
