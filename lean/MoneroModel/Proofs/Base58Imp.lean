import MoneroModel.Model.Address
import MoneroModel.Proofs.Base58Bij
/-! The model of the `base58-monero` crate (`Monero.B58`, control flow of the Rust source) computes the same functions
as the reference `Base58`. -/
open Monero
namespace Monero.B58

theorem alphabet_eq : BASE58_CHARS = Base58.alphabet := by decide

/-! ### encoding one block -/
theorem toDigits_succ (B k n : Nat) : Base58.toDigits B (k + 1) n = Base58.toDigits B k (n / B) ++ [n % B] := by
  simp [Base58.toDigits, Base58.toLE]

theorem encLoop_eq : ∀ (k n : Nat) (acc : List UInt8),
    encLoop k n acc = (Base58.toDigits 58 k n).map Base58.charOf ++ acc
  | 0, _, _ => by simp [encLoop, Base58.toDigits, Base58.toLE]
  | k + 1, n, acc => by
    rw [encLoop, encLoop_eq k, toDigits_succ, alphabet_eq]
    simp [Base58.charOf]

theorem foldr_eq_ofLE : ∀ l : Bytes,
    List.foldr (fun (b : UInt8) (res : Nat) => (res <<< 8) ||| b.toNat) 0 l = Base58.ofLE 256 (l.map (·.toNat))
  | [] => rfl
  | x :: l => by
    simp only [List.foldr_cons, List.map_cons, Base58.ofLE, foldr_eq_ofLE l]
    rw [← Nat.shiftLeft_add_eq_or_of_lt (by exact x.toNat_lt), Nat.shiftLeft_eq]
    omega

theorem u8beToU64_eq (data : Bytes) : u8beToU64 data = Base58.ofDigits 256 (data.map (·.toNat)) := by
  unfold u8beToU64 Base58.ofDigits
  rw [List.foldl_eq_foldr_reverse, foldr_eq_ofLE, List.map_reverse]

theorem sizes_getD (k : Nat) (h : k ≤ 8) : ENCODED_BLOCK_SIZES.getD k 0 = Base58.encSize k := by
  have : k = 0 ∨ k = 1 ∨ k = 2 ∨ k = 3 ∨ k = 4 ∨ k = 5 ∨ k = 6 ∨ k = 7 ∨ k = 8 := by omega
  rcases this with rfl | rfl | rfl | rfl | rfl | rfl | rfl | rfl | rfl <;> rfl

/-- `encode_block` = the reference block, padded with `'1'` to 11 characters -/
theorem encodeBlock_eq (data : Bytes) (h0 : 0 < data.length) (h8 : data.length ≤ 8) :
    encodeBlock data = some (Base58.encodeBlock data ++ List.replicate (11 - Base58.encSize data.length) 49) := by
  unfold encodeBlock
  have hne : data.isEmpty = false := by cases data with | nil => simp at h0 | cons _ _ => rfl
  have hgt : ¬ data.length > FULL_BLOCK_SIZE := by simp only [FULL_BLOCK_SIZE]; omega
  simp only [hne, hgt, Bool.false_or, decide_false, Bool.false_eq_true, if_false]
  rw [sizes_getD _ h8, encLoop_eq, u8beToU64_eq]
  simp [Base58.encodeBlock, FULL_ENCODED_BLOCK_SIZE]

/-! ### encoding a byte string -/
theorem chunks_nil (n : Nat) : chunks n [] = [] := by rw [chunks]; simp
theorem chunks_cons (n : Nat) (data : Bytes) (h : 0 < data.length) (hn : 0 < n) :
    chunks n data = data.take n :: chunks n (data.drop n) := by
  rw [chunks]; simp
  exact ⟨by intro h'; subst h'; simp at h, by omega⟩

/-- the index-driven loop of `encode` produces the reference text -/
theorem emit_eq : ∀ (m : Nat) (data : Bytes) (i full last : Nat), data.length = m →
    full = i + data.length / 8 → last = Base58.encSize (data.length % 8) →
    ∃ vs, collect ((chunks 8 data).map encodeBlock) = some vs ∧ emit full last i vs = Base58.encode data := by
  intro m
  induction m using Nat.strongRecOn with
  | _ m ih =>
    intro data i full last hm hfull hlast
    by_cases h0 : data.length = 0
    · have : data = [] := List.eq_nil_of_length_eq_zero h0
      subst this
      exact ⟨[], by simp [chunks_nil, collect], by simp [emit, Base58.encode_le, Base58.encodeBlock, Base58.toDigits, Base58.toLE, Base58.encSize]⟩
    · have hpos : 0 < data.length := by omega
      rw [chunks_cons 8 data hpos (by decide)]
      have ht0 : 0 < (data.take 8).length := by simp; omega
      have ht8 : (data.take 8).length ≤ 8 := by simp; omega
      by_cases h8 : data.length ≤ 8
      · have hd : data.drop 8 = [] := List.drop_eq_nil_of_le h8
        have htk : data.take 8 = data := List.take_of_length_le h8
        rw [hd, chunks_nil, htk] at *
        refine ⟨[Base58.encodeBlock data ++ List.replicate (11 - Base58.encSize data.length) 49],
          by simp only [List.map_cons, List.map_nil, encodeBlock_eq _ hpos h8, collect], ?_⟩
        rw [Base58.encode_le _ h8]
        simp only [emit, List.append_nil]
        by_cases he : data.length = 8
        · have : i ≠ full := by omega
          simp [this, he, Base58.encSize]
        · have hif : i = full := by omega
          have hl : last = Base58.encSize data.length := by rw [hlast]; congr 1; omega
          simp only [hif, if_true, hl]
          rw [← Base58.encodeBlock_length, List.take_left]
      · obtain ⟨vs, hvs, hemit⟩ := ih (data.drop 8).length (by rw [List.length_drop]; omega) (data.drop 8) (i + 1) full last rfl
          (by rw [List.length_drop]; omega) (by rw [List.length_drop, hlast]; congr 1; omega)
        refine ⟨_ :: vs, ?_, ?_⟩
        · simp only [List.map_cons, encodeBlock_eq _ ht0 ht8, collect, hvs]
        · simp only [emit, hemit]
          have : i ≠ full := by omega
          have hlen : (data.take 8).length = 8 := by simp; omega
          rw [Base58.encode_gt _ (by omega)]
          simp [this, hlen, Base58.encSize]

/-- `base58::encode` never fails and is the reference encoder -/
theorem encode_eq (data : Bytes) : encode data = some (Base58.encode data) := by
  unfold encode
  obtain ⟨vs, h1, h2⟩ := emit_eq data.length data 0 (data.length / 8) (Base58.encSize (data.length % 8)) rfl (by omega) rfl
  simp only [FULL_BLOCK_SIZE]
  rw [sizes_getD _ (by omega), h1]
  simp only [h2]
end Monero.B58
