import MoneroModel.Ref.Ed25519
/-! Little-endian byte strings ↔ naturals (`Ed.leNat`, `Ed.toBytesLE`): mutual inverses. Core Lean only. -/
namespace Ed

theorem leNat_nil : leNat [] = 0 := rfl
theorem leNat_cons (x : UInt8) (t : List UInt8) : leNat (x :: t) = x.toNat + 256 * leNat t := rfl

theorem length_toBytesLE (n len : Nat) : (toBytesLE n len).length = len := by simp [toBytesLE]

theorem toBytesLE_zero (n : Nat) : toBytesLE n 0 = [] := by simp [toBytesLE]

theorem toBytesLE_succ (n len : Nat) :
    toBytesLE n (len + 1) = UInt8.ofNat (n % 256) :: toBytesLE (n / 256) len := by
  unfold toBytesLE
  rw [List.range_succ_eq_map]
  simp only [List.map_cons, List.map_map, Nat.pow_zero, Nat.div_one]
  congr 1
  apply List.map_congr_left
  intro i _
  simp only [Function.comp, Nat.pow_succ, Nat.div_div_eq_div_mul]
  rw [Nat.mul_comm]

theorem leNat_lt (b : List UInt8) : leNat b < 256 ^ b.length := by
  induction b with
  | nil => simp [leNat]
  | cons x t ih =>
    rw [leNat_cons, List.length_cons, Nat.pow_succ]
    have := x.toNat_lt
    omega

theorem toNat_ofNat_mod (n : Nat) : (UInt8.ofNat (n % 256)).toNat = n % 256 := by
  simp [UInt8.toNat_ofNat']

theorem leNat_toBytesLE (len : Nat) : ∀ n, n < 256 ^ len → leNat (toBytesLE n len) = n := by
  induction len with
  | zero => intro n h; simp at h; subst h; simp [toBytesLE, leNat]
  | succ k ih =>
    intro n h
    rw [toBytesLE_succ, leNat_cons, toNat_ofNat_mod]
    have h2 : n / 256 < 256 ^ k := by
      rw [Nat.pow_succ] at h
      exact Nat.div_lt_of_lt_mul (by rw [Nat.mul_comm]; exact h)
    rw [ih _ h2]
    omega

theorem toBytesLE_leNat (b : List UInt8) : toBytesLE (leNat b) b.length = b := by
  induction b with
  | nil => simp [toBytesLE]
  | cons x t ih =>
    rw [List.length_cons, toBytesLE_succ, leNat_cons]
    have hx := x.toNat_lt
    have h1 : (x.toNat + 256 * leNat t) % 256 = x.toNat := by omega
    have h2 : (x.toNat + 256 * leNat t) / 256 = leNat t := by omega
    rw [h1, h2, ih]
    simp

theorem leNat_injective {a b : List UInt8} (hl : a.length = b.length) (h : leNat a = leNat b) : a = b := by
  rw [← toBytesLE_leNat a, ← toBytesLE_leNat b, h, hl]

end Ed
