import MoneroModel.Model.Build
import MoneroModel.Proofs.VarIntImp
open Monero
/-! C03, encoder half: for EVERY description `d` (no well-shapedness needed) the model encoder applied to the
Rust-shaped value `build d` produces exactly the by-the-book bytes `Spec.specTx d`. -/

theorem encVec_spec {α} (e : α → Bytes) (xs : List α) : encVec e xs = Spec.varint xs.length ++ Spec.cat (xs.map e) := by
  simp [encVec, Spec.varint, Spec.cat, encVarint_eq_leb128]
theorem encSized_id (ks : List Bytes) : encSized id ks = Spec.cat ks := by simp [encSized, Spec.cat]
theorem encSized_spec {α} (e : α → Bytes) (xs : List α) : encSized e xs = Spec.cat (xs.map e) := by simp [encSized, Spec.cat]
theorem enc_varint (n : Nat) : encVarint n = Spec.varint n := encVarint_eq_leb128 n
theorem encVarint_fun : encVarint = Spec.varint := funext enc_varint
theorem encSized_id_fun : encSized (id : Bytes → Bytes) = Spec.cat := funext encSized_id
theorem flatten_singletons (l : Bytes) : (l.map fun b => [b]).flatten = l := by
  induction l with
  | nil => rfl
  | cons a t ih => simp [ih]
theorem buildRangeSig_fun : buildRangeSig = Spec.specRangeSig := rfl

theorem encIn_spec (i : Spec.InD) : encTxIn (buildIn i) = Spec.specIn i := by
  cases i with
  | gen h => simp [buildIn, encTxIn, Spec.specIn, enc_varint]
  | key a o k => simp [buildIn, encTxIn, Spec.specIn, enc_varint, encVec_spec, encVarint_fun]
theorem encOut_spec (o : Spec.OutD) : encTxOut (buildOut o) = Spec.specOut o := by
  obtain ⟨a, k, t⟩ := o
  cases t <;> simp [buildOut, encTxOut, encTarget, Spec.specOut, enc_varint]
theorem encPrefix_spec (d : Spec.TxD) : encPrefix (buildPrefix d) = Spec.specPrefix d := by
  have hin : (d.ins.map buildIn).map encTxIn = d.ins.map Spec.specIn := by
    rw [List.map_map]; exact List.map_congr_left (fun i _ => encIn_spec i)
  have hout : (d.outs.map buildOut).map encTxOut = d.outs.map Spec.specOut := by
    rw [List.map_map]; exact List.map_congr_left (fun i _ => encOut_spec i)
  have hex : Spec.cat (d.extra.map fun b => [b]) = d.extra := flatten_singletons d.extra
  simp only [encPrefix, buildPrefix, Spec.specPrefix, enc_varint, encVec_spec, hin, hout, hex, List.length_map,
    List.append_assoc]

theorem map_ecdhFull (l : List (Bytes × Bytes)) : (l.map ecdhFull).map encEcdh = l.map Spec.specEcdhFull := by
  rw [List.map_map]; exact List.map_congr_left (fun e _ => by simp [ecdhFull, encEcdh, Spec.specEcdhFull])
theorem map_ecdhBp (l : List Bytes) : (l.map Ecdh.bp).map encEcdh = l := by
  rw [List.map_map]; conv => rhs; rw [← List.map_id l]
  exact List.map_congr_left (fun e _ => by simp [encEcdh])

theorem comp_ecdhFull : encEcdh ∘ ecdhFull = Spec.specEcdhFull := funext fun e => by simp [ecdhFull, encEcdh, Spec.specEcdhFull]
theorem comp_ecdhBp : encEcdh ∘ Ecdh.bp = id := funext fun e => by simp [encEcdh]
theorem encBase_spec (r : Spec.RctD) : encBase (buildBase r) = Spec.specBase r := by
  cases r <;>
    simp [buildBase, encBase, Spec.specBase, enc_varint, encSized_spec, comp_ecdhFull, comp_ecdhBp, encSized_id,
      List.map_id', Spec.cat]

theorem encBp_spec (p : Spec.BpD) : encBP (buildBp p) = Spec.specBp p := by
  simp [buildBp, encBP, Spec.specBp, encVec_spec, List.map_id']
theorem encBpp_spec (p : Spec.BppD) : encBPP (buildBpp p) = Spec.specBpp p := by
  simp [buildBpp, encBPP, Spec.specBpp, encVec_spec, List.map_id']
theorem encMg_spec (m : Spec.MgD) : encMG (buildMg m) = Spec.specMg m := by
  simp [buildMg, encMG, Spec.specMg, encSized_spec, encSized_id_fun, Spec.cat]
theorem encClsag_spec (c : Spec.ClsagD) : encClsag (buildClsag c) = Spec.specClsag c := by
  simp [buildClsag, encClsag, Spec.specClsag, encSized_spec, Spec.cat]

theorem comp_bp : encBP ∘ buildBp = Spec.specBp := funext encBp_spec
theorem comp_bpp : encBPP ∘ buildBpp = Spec.specBpp := funext encBpp_spec
theorem comp_mg : encMG ∘ buildMg = Spec.specMg := funext encMg_spec
theorem comp_clsag : encClsag ∘ buildClsag = Spec.specClsag := funext encClsag_spec
theorem map_bp (l : List Spec.BpD) : (l.map buildBp).map encBP = l.map Spec.specBp := by
  rw [List.map_map]; exact List.map_congr_left (fun e _ => encBp_spec e)
theorem map_bpp (l : List Spec.BppD) : (l.map buildBpp).map encBPP = l.map Spec.specBpp := by
  rw [List.map_map]; exact List.map_congr_left (fun e _ => encBpp_spec e)
theorem map_mg (l : List Spec.MgD) : (l.map buildMg).map encMG = l.map Spec.specMg := by
  rw [List.map_map]; exact List.map_congr_left (fun e _ => encMg_spec e)
theorem map_clsag (l : List Spec.ClsagD) : (l.map buildClsag).map encClsag = l.map Spec.specClsag := by
  rw [List.map_map]; exact List.map_congr_left (fun e _ => encClsag_spec e)
theorem map_rs (l : List Spec.RangeSigD) : (l.map buildRangeSig).map id = l.map Spec.specRangeSig := by
  simp [buildRangeSig, Spec.specRangeSig]

theorem leBytes4_spec (n : Nat) : leBytes (n % 2 ^ 32) 4 = Spec.u32le n := by
  simp only [leBytes, Spec.u32le, List.range, List.range.loop, List.map_cons, List.map_nil]
  simp only [Nat.pow_zero, Nat.div_one, Nat.pow_one]
  have e1 : n % 2^32 % 256 = n % 256 := by omega
  have e2 : n % 2^32 / 256 % 256 = n / 256 % 256 := by omega
  have e3 : n % 2^32 / 256^2 % 256 = n / 65536 % 256 := by omega
  have e4 : n % 2^32 / 256^3 % 256 = n / 16777216 % 256 := by omega
  rw [e1, e2, e3, e4]

/-- prunable part, for the six non-Null types; for BulletproofPlus the library's one-byte count equals Monero's varint
count exactly when there are fewer than 128 proofs (DESIGN.md §7 item 4) -/
theorem encPrunable_spec (r : Spec.RctD) (p : Prunable) (hp : buildPrunable r = some p)
    (hbpp : ∀ fee e o bpps cls po, r = .bpplus fee e o bpps cls po → bpps.length < 128) :
    encPrunable p (buildBase r).ty = Spec.specPrunable r := by
  cases r with
  | null => simp [buildPrunable] at hp
  | full fee ecdh outPk rs mg =>
    simp [buildPrunable] at hp; subst hp
    simp [buildBase, encPrunable, encProofs, encSigs, encPseudo, Spec.specPrunable, encSized_spec, buildRangeSig_fun, encMg_spec, Spec.cat]
  | simple fee po ecdh outPk rs mgs =>
    simp [buildPrunable] at hp; subst hp
    simp [buildBase, encPrunable, encProofs, encSigs, encPseudo, Spec.specPrunable, encSized_spec, buildRangeSig_fun, comp_mg, Spec.cat]
  | bulletproof fee ecdh outPk bps mgs po =>
    simp [buildPrunable] at hp; subst hp
    simp [buildBase, encPrunable, encProofs, encSigs, encPseudo, Spec.specPrunable, encSized_spec, comp_bp, comp_mg,
      List.map_id', Spec.cat]
    exact leBytes4_spec bps.length
  | bulletproof2 fee ecdh outPk bps mgs po =>
    simp [buildPrunable] at hp; subst hp
    simp [buildBase, encPrunable, encProofs, encSigs, encPseudo, Spec.specPrunable, encSized_spec, encVec_spec, comp_bp, comp_mg,
      List.map_id', Spec.cat]
  | clsag fee ecdh outPk bps cls po =>
    simp [buildPrunable] at hp; subst hp
    simp [buildBase, encPrunable, encProofs, encSigs, encPseudo, Spec.specPrunable, encSized_spec, encVec_spec, comp_bp, comp_clsag,
      List.map_id', Spec.cat]
  | bpplus fee ecdh outPk bpps cls po =>
    simp [buildPrunable] at hp; subst hp
    have hl := hbpp fee ecdh outPk bpps cls po rfl
    have hv : Spec.varint bpps.length = [UInt8.ofNat (bpps.length % 256)] := by
      unfold Spec.varint; rw [Spec.leb128]; simp [hl, Nat.mod_eq_of_lt (by omega : bpps.length < 256)]
    simp [buildBase, encPrunable, encProofs, encSigs, encPseudo, Spec.specPrunable, encSized_spec, comp_bpp, comp_clsag,
      List.map_id', Spec.cat, hv]
