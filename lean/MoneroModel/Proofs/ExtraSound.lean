import MoneroModel.Proofs.ExtraLen
open Monero Monero.Extra

/-! Decoder soundness, byte exact: whatever `SubField::consensus_decode` accepts — on ANY bytes — is a well-formed
sub-field (`WFField`), the bytes consumed are its encoding up to the merge-mining size byte (which the decoder reads
and ignores), and a padding of fewer than 255 bytes is only ever produced at the end of the input. Core Lean only. -/
namespace Monero.Extra

/-- `encSub` with the merge-mining size byte replaced by `sz` (every other sub-field: `encSub`) -/
def encSubSz (sz : UInt8) (f : SubField) : Bytes :=
  match f with
  | .mergeMining d h => 0x03 :: sz :: (encVarint d ++ h)
  | _ => encSub f

theorem encSubSz_len (sz : UInt8) (f : SubField) : (encSubSz sz f).length = (encSub f).length := by
  cases f <;> simp [encSubSz, encSub]

/-- with the size byte the encoder computes, `encSubSz` is `encSub` -/
theorem encSubSz_self (f : SubField) : ∃ sz, encSubSz sz f = encSub f := by
  cases f <;> first | exact ⟨0, rfl⟩ | exact ⟨_, rfl⟩

def isMM : SubField → Bool | .mergeMining _ _ => true | _ => false

theorem encSubSz_of_not_mm (sz : UInt8) (f : SubField) (h : isMM f = false) : encSubSz sz f = encSub f := by
  cases f <;> first | rfl | simp [isMM] at h

theorem takeRd_sound {n : Nat} {b x r : Bytes} (h : takeRd n b = (some x, r)) : b = x ++ r ∧ x.length = n := by
  have hl := takeRd_len h
  unfold takeRd at h
  by_cases hlt : b.length < n
  · rw [if_pos hlt] at h; cases h
  · rw [if_neg hlt] at h; cases h
    exact ⟨(List.take_append_drop n b).symm, hl.1⟩

theorem varintRd_sound {b r : Bytes} {n : Nat} (h : varintRd b = (some n, r)) : b = encVarint n ++ r ∧ n < 2^64 :=
  ⟨sound_varint b n r (varint_of_varintRd_some h), varint_lt b n r (varint_of_varintRd_some h)⟩

theorem vecU8Rd_sound {b x r : Bytes} (h : vecU8Rd b = (some x, r)) :
    b = encVarint x.length ++ x ++ r ∧ x.length * sizes.u8 ≤ CAP ∧ x.length < 2^64 := by
  unfold vecU8Rd at h
  obtain ⟨n, r', h1, h2⟩ := rbind_inv h
  obtain ⟨hb, hn⟩ := varintRd_sound h1
  by_cases hc : n * sizes.u8 > CAP
  · rw [if_pos hc] at h2; cases h2
  · rw [if_neg hc] at h2
    obtain ⟨hr, hx⟩ := takeRd_sound h2
    subst hx
    refine ⟨?_, by omega, hn⟩
    rw [hb, hr, List.append_assoc]

theorem keyRd_sound {vk : Bytes → Bool} {b k r : Bytes} (h : keyRd vk b = (some k, r)) :
    b = k ++ r ∧ k.length = 32 ∧ vk k = true := by
  unfold keyRd at h
  obtain ⟨k', r', h1, h2⟩ := rbind_inv h
  obtain ⟨hb, hk⟩ := takeRd_sound h1
  cases hv : vk k' with
  | false => rw [hv] at h2; cases h2
  | true =>
    rw [hv] at h2
    obtain ⟨rfl, rfl⟩ := rpure_inv h2
    exact ⟨hb, hk, hv⟩

theorem keysLoop_sound (vk : Bytes → Bool) : ∀ (n : Nat) (acc : List Bytes) (b : Bytes) (ks : List Bytes) (r : Bytes),
    keysLoop vk n acc b = (some ks, r) →
    ∃ new, ks = acc.reverse ++ new ∧ new.length = n ∧ b = new.flatten ++ r ∧ ∀ k ∈ new, k.length = 32 ∧ vk k = true
  | 0, acc, b, ks, r, h => by
    unfold keysLoop at h
    obtain ⟨rfl, rfl⟩ := rpure_inv h
    exact ⟨[], by simp, rfl, rfl, by simp⟩
  | n+1, acc, b, ks, r, h => by
    unfold keysLoop at h
    cases hk : keyRd vk b with
    | mk o r' =>
      rw [hk] at h
      cases o with
      | none => cases h
      | some k =>
        obtain ⟨hb, hl, hv⟩ := keyRd_sound hk
        obtain ⟨new, h1, h2, h3, h4⟩ := keysLoop_sound vk n (k :: acc) r' ks r h
        refine ⟨k :: new, by rw [h1]; simp, by simp [h2], by rw [hb, h3]; simp, ?_⟩
        intro k' hk'
        rcases List.mem_cons.mp hk' with rfl | hm
        · exact ⟨hl, hv⟩
        · exact h4 k' hm

theorem keysRd_sound {vk : Bytes → Bool} {b r : Bytes} {ks : List Bytes} (h : keysRd vk b = (some ks, r)) :
    b = encVarint ks.length ++ ks.flatten ++ r ∧ (∀ k ∈ ks, k.length = 32 ∧ vk k = true) ∧
      ks.length * sizes.key ≤ CAP ∧ ks.length < 2^64 := by
  unfold keysRd at h
  obtain ⟨n, r', h1, h2⟩ := rbind_inv h
  obtain ⟨hb, hn⟩ := varintRd_sound h1
  by_cases hc : n * sizes.key > CAP
  · rw [if_pos hc] at h2; cases h2
  · rw [if_neg hc] at h2
    obtain ⟨new, e1, e2, e3, e4⟩ := keysLoop_sound vk n [] r' ks r h2
    have hks : ks = new := by simpa using e1
    subst hks
    subst e2
    refine ⟨?_, e4, by omega, hn⟩
    rw [hb, e3, List.append_assoc]

/-- the padding loop returns `Padding(i + m)` after exactly `m ≤ fuel` zero bytes; it stops before the fuel is
used up only at the end of the input -/
theorem padLoop_sound : ∀ (fuel i : Nat) (b : Bytes) (sf : SubField) (r : Bytes), padLoop fuel i b = (some sf, r) →
    ∃ m, sf = .padding (i + m) ∧ b = List.replicate m 0 ++ r ∧ m ≤ fuel ∧ (m < fuel → r = [])
  | 0, i, b, sf, r, h => by
    rw [padLoop_zero] at h; cases h; exact ⟨0, rfl, rfl, Nat.le_refl _, fun h => absurd h (Nat.lt_irrefl _)⟩
  | fuel+1, i, [], sf, r, h => by
    rw [padLoop_nil] at h; cases h; exact ⟨0, rfl, rfl, Nat.zero_le _, fun _ => rfl⟩
  | fuel+1, i, x :: xs, sf, r, h => by
    rw [padLoop_cons] at h
    by_cases hx : x ≠ 0
    · rw [if_pos hx] at h; cases h
    · rw [if_neg hx] at h
      have hx0 : x = 0 := Classical.not_not.mp hx
      obtain ⟨m, hs, hb, hm, hr⟩ := padLoop_sound fuel (i+1) xs sf r h
      refine ⟨m+1, by rw [hs]; congr 1; omega, ?_, by omega, fun hlt => hr (by omega)⟩
      rw [hx0, hb, List.replicate_succ, List.cons_append]

/-- **Sub-field decoder soundness.** A successful read yields a well-formed sub-field, consumed exactly its encoding
(up to the ignored merge-mining size byte), and a padding shorter than 255 bytes only at the end of the input. -/
theorem subFieldRd_sound (vk : Bytes → Bool) (b : Bytes) (sf : SubField) (r : Bytes)
    (h : subFieldRd vk b = (some sf, r)) :
    WFField vk sf ∧ (ShortPad sf → r = []) ∧ ∃ sz, b = encSubSz sz sf ++ r := by
  cases b with
  | nil => rw [subFieldRd_nil] at h; cases h
  | cons tag xs =>
    rw [subFieldRd_cons] at h
    unfold afterTag at h
    split at h
    · rename_i ht
      obtain ⟨m, rfl, hb, hm, hr⟩ := padLoop_sound 255 0 xs sf r h
      rw [Nat.zero_add]
      refine ⟨hm, fun hs => hr (by simp only [ShortPad] at hs; omega), 0, ?_⟩
      rw [ht, hb]; rfl
    split at h
    · rename_i ht
      obtain ⟨k, r', h1, h2⟩ := rbind_inv h
      obtain ⟨rfl, rfl⟩ := rpure_inv h2
      obtain ⟨hb, hl, hv⟩ := keyRd_sound h1
      exact ⟨⟨hl, hv⟩, fun hs => absurd hs (by simp [ShortPad]), 0, by rw [ht, hb]; rfl⟩
    split at h
    · rename_i ht
      obtain ⟨n, r', h1, h2⟩ := rbind_inv h
      obtain ⟨rfl, rfl⟩ := rpure_inv h2
      obtain ⟨hb, hc, hl⟩ := vecU8Rd_sound h1
      exact ⟨⟨hc, hl⟩, fun hs => absurd hs (by simp [ShortPad]), 0, by rw [ht, hb]; simp [encSubSz, encSub]⟩
    split at h
    · rename_i ht
      obtain ⟨sz, r1, h1, h2⟩ := rbind_inv h
      obtain ⟨d, r2, h3, h4⟩ := rbind_inv h2
      obtain ⟨hh, r3, h5, h6⟩ := rbind_inv h4
      obtain ⟨rfl, rfl⟩ := rpure_inv h6
      obtain ⟨hb2, hd⟩ := varintRd_sound h3
      obtain ⟨hb3, hl⟩ := takeRd_sound h5
      refine ⟨⟨hd, hl⟩, fun hs => absurd hs (by simp [ShortPad]), sz, ?_⟩
      cases xs with
      | nil => cases h1
      | cons y ys =>
        cases h1
        rw [ht, hb2, hb3]; simp [encSubSz]
    split at h
    · rename_i ht
      obtain ⟨ks, r', h1, h2⟩ := rbind_inv h
      obtain ⟨rfl, rfl⟩ := rpure_inv h2
      obtain ⟨hb, hk, hc, hl⟩ := keysRd_sound h1
      exact ⟨⟨hk, hc, hl⟩, fun hs => absurd hs (by simp [ShortPad]), 0, by rw [ht, hb]; simp [encSubSz, encSub]⟩
    split at h
    · rename_i ht
      obtain ⟨n, r', h1, h2⟩ := rbind_inv h
      obtain ⟨rfl, rfl⟩ := rpure_inv h2
      obtain ⟨hb, hc, hl⟩ := vecU8Rd_sound h1
      exact ⟨⟨hc, hl⟩, fun hs => absurd hs (by simp [ShortPad]), 0, by rw [ht, hb]; simp [encSubSz, encSub]⟩
    · cases h

end Monero.Extra
