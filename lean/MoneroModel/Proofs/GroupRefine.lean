import MoneroModel.Proofs.EdwardsLawful
import MoneroModel.Proofs.KeysRef
import MoneroModel.Model.SubAddr
/-! Composed refinement (helpers of Props/C09–C11): `RefinesEd` (Proofs/EdwardsLawful.lean) is stated per primitive. Here the
COMPOSED functions of Model/Crypto.lean that the compiled driver evaluates on `Drv.refOps` (extended coordinates on `Nat`) are
shown to compute, on valid points and scalars below 2^260 (every 32-byte scalar), what the same functions compute on the lawful
instance `edOps` — the object of the `*_ed25519` theorems. -/
namespace Monero.Edw
open Monero

variable {ops : CryptoOps Ed.Pt}

theorem l_pos' : 0 < Ed.l := by decide

theorem refines_mulFactor_lt (R : RefinesEd ops) : Gen.mulFactor % ops.l < 2 ^ 260 := by
  rw [R.l, edOps_l]; exact Nat.lt_trans (Nat.mod_lt _ l_pos') l_lt_260

/-- `derive` (both `KeyGenerator` constructors) -/
theorem refines_derive (R : RefinesEd ops) (a : ℕ) (ha : a < 2 ^ 260) (B : Ed.Pt) (hB : Valid B) :
    ∃ h : Valid (derive ops a B), toPoint (derive ops a B) h = derive edOps a (toPoint B hB) := by
  obtain ⟨h1, e1⟩ := R.smul a ha B hB
  obtain ⟨h2, e2⟩ := R.smul (Gen.mulFactor % ops.l) (refines_mulFactor_lt R) _ h1
  refine ⟨h2, ?_⟩
  unfold Monero.derive
  rw [e2, e1, R.l]

/-- `Hash::hash_to_scalar` is the same function (same Keccak, same l) -/
theorem refines_hsOf (R : RefinesEd ops) (m : Bytes) : hsOf ops m = hsOf edOps m := by
  unfold Monero.hsOf; rw [R.keccak, R.l]

theorem hsOf_edOps_lt (m : Bytes) : hsOf edOps m < 2 ^ 260 :=
  Nat.lt_trans (Nat.mod_lt _ (by rw [edOps_l]; exact l_pos')) (by rw [edOps_l]; exact l_lt_260)

/-- `get_rvn_scalar` -/
theorem refines_rvnScalar (R : RefinesEd ops) (D : Ed.Pt) (hD : Valid D) (n : ℕ) :
    rvnScalar ops D n = rvnScalar edOps (toPoint D hD) n := by
  unfold Monero.rvnScalar; rw [(refines_hsOf R), R.enc D hD]

/-- `PublicKey::from_private_key` on scalars below 2^260 -/
theorem refines_pubOf (R : RefinesEd ops) (k : ℕ) (hk : k < 2 ^ 260) :
    ∃ h : Valid (pubOf ops k), toPoint (pubOf ops k) h = pubOf edOps k := by
  obtain ⟨hb, eb⟩ := R.base
  obtain ⟨h1, e1⟩ := R.smul k hk _ hb
  exact ⟨h1, by unfold Monero.pubOf; rw [e1, eb]⟩

/-- `one_time_key` -/
theorem refines_oneTimeKey (R : RefinesEd ops) (D S : Ed.Pt) (hD : Valid D) (hS : Valid S) (n : ℕ) :
    ∃ h : Valid (oneTimeKey ops D S n), toPoint (oneTimeKey ops D S n) h = oneTimeKey edOps (toPoint D hD) (toPoint S hS) n := by
  have hk : rvnScalar ops D n < 2 ^ 260 := by rw [(refines_rvnScalar R) D hD]; exact hsOf_edOps_lt _
  obtain ⟨h1, e1⟩ := (refines_pubOf R) _ hk
  obtain ⟨h2, e2⟩ := R.add _ S h1 hS
  refine ⟨h2, ?_⟩
  unfold Monero.oneTimeKey
  rw [e2, e1, (refines_rvnScalar R) D hD]

/-- what the driver prints for `c10_derive*`: the encoding of the refined derivation is the encoding of the derivation in
the group -/
theorem refines_enc_derive (R : RefinesEd ops) (a : ℕ) (ha : a < 2 ^ 260) (B : Ed.Pt) (hB : Valid B) :
    ops.enc (derive ops a B) = edOps.enc (derive edOps a (toPoint B hB)) := by
  obtain ⟨h, e⟩ := (refines_derive R) a ha B hB
  rw [R.enc _ h, e]

/-- `PrivateKey * &PublicKey` on stored bytes (what the driver evaluates for `c10_derive_raw`): for a decoder `d` into representatives
that refines a decoder `d'` into the group (the `DecRefines` of Proofs/GroupRefineScan.lean, written out), the SAME bytes / the same
panic come out on both instances -/
theorem refines_mulKeyBytes (R : RefinesEd ops) {d : Bytes → Option Ed.Pt} {d' : Bytes → Option EdPoint}
    (hd : ∀ b, (∀ Q, d b = some Q → ∃ h : Valid Q, d' b = some (toPoint Q h)) ∧ (d b = none → d' b = none))
    (a : ℕ) (ha : a < 2 ^ 260) (b : Bytes) : mulKeyBytes ops d a b = mulKeyBytes edOps d' a b := by
  unfold Monero.mulKeyBytes
  cases hb : d b with
  | none => rw [(hd b).2 hb]
  | some Q =>
    obtain ⟨hQ, e⟩ := (hd b).1 Q hb
    obtain ⟨h1, e1⟩ := R.smul a ha Q hQ
    rw [e]; dsimp only; rw [R.enc _ h1, e1]

/-- both byte-level constructors, likewise -/
theorem refines_deriveBytes (R : RefinesEd ops) {d : Bytes → Option Ed.Pt} {d' : Bytes → Option EdPoint}
    (hd : ∀ b, (∀ Q, d b = some Q → ∃ h : Valid Q, d' b = some (toPoint Q h)) ∧ (d b = none → d' b = none))
    (a : ℕ) (ha : a < 2 ^ 260) (b : Bytes) :
    deriveReceiverBytes ops d a b = deriveReceiverBytes edOps d' a b ∧
    deriveSenderBytes ops d a b = deriveSenderBytes edOps d' a b := by
  have h8 : ∀ w, mulKeyBytes ops d (Gen.mulFactor % ops.l) w = mulKeyBytes edOps d' (Gen.mulFactor % edOps.l) w := fun w => by
    rw [refines_mulKeyBytes R hd _ (refines_mulFactor_lt R) w, R.l]
  unfold Monero.deriveReceiverBytes Monero.deriveSenderBytes
  rw [refines_mulKeyBytes R hd a ha b]
  cases mulKeyBytes edOps d' a b with
  | none => exact ⟨rfl, rfl⟩
  | some w => exact ⟨h8 w, h8 w⟩

/-- what the driver prints for `c10_onetime*` -/
theorem refines_enc_oneTimeKey_derive (R : RefinesEd ops) (a : ℕ) (ha : a < 2 ^ 260) (B S : Ed.Pt) (hB : Valid B)
    (hS : Valid S) (n : ℕ) :
    ops.enc (oneTimeKey ops (derive ops a B) S n)
      = edOps.enc (oneTimeKey edOps (derive edOps a (toPoint B hB)) (toPoint S hS) n) := by
  obtain ⟨hd, ed⟩ := (refines_derive R) a ha B hB
  obtain ⟨h, e⟩ := (refines_oneTimeKey R) _ S hd hS n
  rw [R.enc _ h, e, ed]

/-- `subaddress::get_secret_scalar` -/
theorem refines_subScalar (R : RefinesEd ops) (v i j : ℕ) : subScalar ops v i j = subScalar edOps v i j := by
  unfold Monero.subScalar; rw [(refines_hsOf R)]

/-- `get_spend_secret_key`, `get_view_secret_key` -/
theorem refines_subSpendSec (R : RefinesEd ops) (v s i j : ℕ) : subSpendSec ops v s i j = subSpendSec edOps v s i j := by
  unfold Monero.subSpendSec; rw [(refines_subScalar R), R.l]
theorem refines_subViewSec (R : RefinesEd ops) (v s i j : ℕ) : subViewSec ops v s i j = subViewSec edOps v s i j := by
  unfold Monero.subViewSec; rw [(refines_subSpendSec R), R.l]

/-- `KeyRecoverer::recover`: the driver's scalar is the scalar of the `_ed25519` theorems -/
theorem refines_recoverKey (R : RefinesEd ops) (v s : ℕ) (hv : v < 2 ^ 260) (B : Ed.Pt) (hB : Valid B) (n i j : ℕ) :
    recoverKey ops v s B n i j = recoverKey edOps v s (toPoint B hB) n i j := by
  obtain ⟨hd, ed⟩ := (refines_derive R) v hv B hB
  unfold Monero.recoverKey
  rw [(refines_rvnScalar R) _ hd, ed, (refines_subSpendSec R), R.l]

/-- `get_spend_public_key` -/
theorem refines_subSpendPub (R : RefinesEd ops) (v : ℕ) (S : Ed.Pt) (hS : Valid S) (i j : ℕ) :
    ∃ h : Valid (subSpendPub ops v S i j), toPoint (subSpendPub ops v S i j) h = subSpendPub edOps v (toPoint S hS) i j := by
  unfold Monero.subSpendPub
  cases idxZero i j
  · simp only [Bool.false_eq_true, if_false]
    have hk : Monero.subScalar ops v i j < 2 ^ 260 := by rw [(refines_subScalar R)]; exact hsOf_edOps_lt _
    obtain ⟨h1, e1⟩ := (refines_pubOf R) _ hk
    obtain ⟨h2, e2⟩ := R.add S _ hS h1
    exact ⟨h2, by rw [e2, e1, (refines_subScalar R)]⟩
  · simp only [if_true]; exact ⟨hS, trivial⟩

/-- `get_public_keys`: both components (the view key is `v•S'`, hence the bound on `v`) -/
theorem refines_subPublicKeys (R : RefinesEd ops) (v : ℕ) (hv : v < 2 ^ 260) (S : Ed.Pt) (hS : Valid S) (i j : ℕ) :
    ∃ (h1 : Valid (subPublicKeys ops v S i j).1) (h2 : Valid (subPublicKeys ops v S i j).2),
      toPoint (subPublicKeys ops v S i j).1 h1 = (subPublicKeys edOps v (toPoint S hS) i j).1 ∧
      toPoint (subPublicKeys ops v S i j).2 h2 = (subPublicKeys edOps v (toPoint S hS) i j).2 := by
  unfold Monero.subPublicKeys
  cases idxZero i j
  · simp only [Bool.false_eq_true, if_false]
    obtain ⟨h, e⟩ := refines_subSpendPub R v S hS i j
    obtain ⟨h1, e1⟩ := R.smul v hv _ h
    exact ⟨h1, h, by rw [e1, e], e⟩
  · simp only [if_true]
    obtain ⟨h1, e1⟩ := refines_pubOf R v hv
    exact ⟨h1, hS, e1, trivial⟩

/-- what the driver prints for `c11_sub_pub`: the encodings of the two keys -/
theorem refines_enc_subPublicKeys (R : RefinesEd ops) (v : ℕ) (hv : v < 2 ^ 260) (S : Ed.Pt) (hS : Valid S) (i j : ℕ) :
    ops.enc (subPublicKeys ops v S i j).1 = edOps.enc (subPublicKeys edOps v (toPoint S hS) i j).1 ∧
    ops.enc (subPublicKeys ops v S i j).2 = edOps.enc (subPublicKeys edOps v (toPoint S hS) i j).2 := by
  obtain ⟨h1, h2, e1, e2⟩ := refines_subPublicKeys R v hv S hS i j
  exact ⟨by rw [R.enc _ h1, e1], by rw [R.enc _ h2, e2]⟩

/-- `get_subaddress`: the address record (network, type, two 32-byte keys) is literally the same -/
theorem refines_getSubaddress (R : RefinesEd ops) (v : ℕ) (hv : v < 2 ^ 260) (S : Ed.Pt) (hS : Valid S) (i j : ℕ)
    (network : Option Net) : getSubaddress ops v S i j network = getSubaddress edOps v (toPoint S hS) i j network := by
  obtain ⟨e1, e2⟩ := refines_enc_subPublicKeys R v hv S hS i j
  unfold getSubaddress
  simp only [e1, e2]

/-- `KeyGenerator::check` -/
theorem refines_keyGenCheck (R : RefinesEd ops) (D S K : Ed.Pt) (hD : Valid D) (hS : Valid S) (hK : Valid K) (n : ℕ) :
    keyGenCheck ops D S n K = keyGenCheck edOps (toPoint D hD) (toPoint S hS) n (toPoint K hK) := by
  obtain ⟨h, e⟩ := refines_oneTimeKey R D S hD hS n
  unfold keyGenCheck
  rw [R.enc K hK, R.enc _ h, e]

/-! ### facts about the group that the C11 theorems assume of a general instance -/
/-- the base point of Ed25519 has order exactly `l` -/
theorem edOps_hord : ∀ k, k < edOps.l → k • edOps.base = 0 → k = 0 := by
  intro k hk h0
  have hd : Ed.l ∣ k := by rw [← addOrderOf_base]; exact addOrderOf_dvd_of_nsmul_eq_zero h0
  exact Nat.eq_zero_of_dvd_of_lt hd hk
theorem edOps_prime : Nat.Prime edOps.l := by rw [edOps_l]; exact factPrimeL.out
theorem edOps_len : ∀ A : EdPoint, (edOps.enc A).length = 32 := by
  intro A; rw [edOps_enc]; exact encodePt_length _

/-! ### keys that arrive as bytes -/
/-- `PublicKey::from_slice` accepts `b` (model of the library's acceptance test, Model/Keys.lean) iff the lawful instance
decodes it -/
theorem publicAccept_iff_dec (b : Bytes) : Keys.publicAccept b = true ↔ ∃ B : EdPoint, edOps.dec b = some B := by
  rw [Keys.publicAccept_eq_ref, edOps_dec]
  constructor
  · intro h
    obtain ⟨P, hP⟩ := Option.isSome_iff_exists.mp h
    exact ⟨_, decPoint_some hP⟩
  · rintro ⟨B, hB⟩
    cases hd : Ed.decodePt b with
    | none => rw [decPoint_none hd] at hB; cases hB
    | some P => rfl
/-- an accepted 32-byte key, seen from both instances: the lawful instance decodes it to a point `B` whose encoding is `b`
again, the executable record decodes it to a valid representative of `B` -/
theorem accepted_key (b : Bytes) (h : Keys.publicAccept b = true) :
    ∃ (Braw : Ed.Pt) (hv : Valid Braw), Drv.refOps.dec b = some Braw ∧ edOps.dec b = some (toPoint Braw hv) ∧
      edOps.enc (toPoint Braw hv) = b := by
  rw [Keys.publicAccept_eq_ref] at h
  obtain ⟨Praw, hP⟩ := Option.isSome_iff_exists.mp h
  have hv := (decodePt_valid hP).1
  refine ⟨Praw, hv, ?_, ?_, ?_⟩
  · rw [refOps_dec, decodeKey_eq]; exact hP
  · rw [edOps_dec]; exact decPoint_some hP
  · rw [← refOps_refines_edOps.enc Praw hv, refOps_enc]; exact encodePt_decodePt hP
end Monero.Edw
