import MoneroModel.Model.Extra
import MoneroModel.Proofs.TxComplete
open Monero Monero.Extra

/-! Basic facts about the cursor-tracking readers of `Model/Extra.lean`: agreement with the `Dec` decoders,
the remaining input never grows (`Mono`), a sub-field read consumes at least the tag byte. Core Lean only. -/
namespace Monero.Extra

/-! ### agreement with `Monero.varint` -/

theorem collect_of_collectRd : ∀ (b : Bytes) (acc : List Nat),
    collect b acc = match collectRd b acc with | (some gs, r) => some (gs, r) | (none, _) => none
  | [], acc => by simp [collect, collectRd]
  | x :: xs, acc => by
    unfold collect collectRd
    by_cases h1 : x.toNat = 0 ∧ acc ≠ []
    · rw [if_pos h1, if_pos h1]
    · rw [if_neg h1, if_neg h1]
      by_cases h2 : x.toNat < 128
      · rw [if_pos h2, if_pos h2]
      · rw [if_neg h2, if_neg h2]; exact collect_of_collectRd xs _

theorem varint_of_varintRd (b : Bytes) :
    varint b = match varintRd b with | (some n, r) => some (n, r) | (none, _) => none := by
  unfold varint varintRd
  rw [collect_of_collectRd]
  cases h : collectRd b [] with
  | mk o r =>
    cases o with
    | none => rfl
    | some gs =>
      simp only
      cases accum gs.reverse 0 <;> rfl

theorem varintRd_of_varint {b : Bytes} {n : Nat} {r : Bytes} (h : varint b = some (n, r)) :
    varintRd b = (some n, r) := by
  rw [varint_of_varintRd] at h
  cases h' : varintRd b with
  | mk o r' =>
    rw [h'] at h
    cases o with
    | none => simp at h
    | some m => simp at h; obtain ⟨rfl, rfl⟩ := h; rfl

theorem varint_of_varintRd_some {b : Bytes} {n : Nat} {r : Bytes} (h : varintRd b = (some n, r)) :
    varint b = some (n, r) := by
  rw [varint_of_varintRd, h]

theorem varintRd_complete (n : Nat) (hn : n < 2^64) (r : Bytes) : varintRd (encVarint n ++ r) = (some n, r) :=
  varintRd_of_varint (complete_varint n hn r)

/-! ### the remaining input never grows -/

def Mono {α} (d : Rd α) : Prop := ∀ b, (d b).2.length ≤ b.length

theorem mono_rpure {α} (x : α) : Mono (rpure x) := fun _ => Nat.le_refl _
theorem mono_rfail {α} : Mono (rfail : Rd α) := fun _ => Nat.le_refl _

theorem mono_rbind {α β} {d : Rd α} {f : α → Rd β} (hd : Mono d) (hf : ∀ x, Mono (f x)) : Mono (rbind d f) := by
  intro b
  unfold rbind
  have h1 := hd b
  cases h : d b with
  | mk o r =>
    rw [h] at h1
    cases o with
    | none => exact h1
    | some x => exact Nat.le_trans (hf x r) h1

theorem mono_byteRd : Mono byteRd := by
  intro b; cases b with
  | nil => simp [byteRd]
  | cons x xs => simp [byteRd]

theorem mono_takeRd (n : Nat) : Mono (takeRd n) := by
  intro b; unfold takeRd
  by_cases h : b.length < n
  · simp [h]
  · simp [h]

theorem mono_collectRd : ∀ (b : Bytes) (acc : List Nat), (collectRd b acc).2.length ≤ b.length
  | [], _ => by simp [collectRd]
  | x :: xs, acc => by
    unfold collectRd
    by_cases h1 : x.toNat = 0 ∧ acc ≠ []
    · rw [if_pos h1]; simp
    · rw [if_neg h1]
      by_cases h2 : x.toNat < 128
      · rw [if_pos h2]; simp
      · rw [if_neg h2]
        have := mono_collectRd xs (acc ++ [x.toNat % 128]); simp only [List.length_cons]; omega

theorem mono_varintRd : Mono varintRd := by
  intro b; unfold varintRd
  have h1 := mono_collectRd b []
  cases h : collectRd b [] with
  | mk o r =>
    rw [h] at h1
    cases o with
    | none => exact h1
    | some gs => exact h1

theorem mono_vecU8Rd : Mono vecU8Rd := by
  unfold vecU8Rd
  refine mono_rbind mono_varintRd fun n => ?_
  by_cases h : n * sizes.u8 > CAP
  · simp only [h, ite_true]; exact mono_rfail
  · simp only [h, ite_false]; exact mono_takeRd n

theorem mono_keyRd (vk : Bytes → Bool) : Mono (keyRd vk) := by
  unfold keyRd
  refine mono_rbind (mono_takeRd 32) fun k => ?_
  cases vk k
  · exact mono_rfail
  · exact mono_rpure k

theorem mono_keysLoop (vk : Bytes → Bool) : ∀ n acc, Mono (keysLoop vk n acc)
  | 0, acc => by unfold keysLoop; exact mono_rpure _
  | n+1, acc => by
    intro b
    unfold keysLoop
    have h1 := mono_keyRd vk b
    cases h : keyRd vk b with
    | mk o r =>
      rw [h] at h1
      cases o with
      | none => exact h1
      | some k => exact Nat.le_trans (mono_keysLoop vk n (k :: acc) r) h1

theorem mono_keysRd (vk : Bytes → Bool) : Mono (keysRd vk) := by
  unfold keysRd
  refine mono_rbind mono_varintRd fun n => ?_
  by_cases h : n * sizes.key > CAP
  · simp only [h, ite_true]; exact mono_rfail
  · simp only [h, ite_false]; exact mono_keysLoop vk n []

theorem padLoop_zero (i : Nat) (b : Bytes) : padLoop 0 i b = (some (.padding i), b) := rfl
theorem padLoop_nil (fuel i : Nat) : padLoop (fuel+1) i [] = (some (.padding i), []) := rfl
theorem padLoop_cons (fuel i : Nat) (x : UInt8) (xs : Bytes) :
    padLoop (fuel+1) i (x :: xs) = if x ≠ 0 then (none, xs) else padLoop fuel (i+1) xs := rfl

theorem mono_padLoop : ∀ fuel i, Mono (padLoop fuel i)
  | 0, i => by unfold padLoop; exact mono_rpure _
  | fuel+1, i => by
    intro b
    cases b with
    | nil => simp [padLoop]
    | cons x xs =>
      rw [padLoop_cons]
      by_cases h : x ≠ 0
      · rw [if_pos h]; simp
      · rw [if_neg h]
        have := mono_padLoop fuel (i+1) xs; simp only [List.length_cons]; omega

/-- what `subFieldRd` does after the tag byte -/
def afterTag (vk : Bytes → Bool) (tag : UInt8) : Rd SubField :=
  if tag = 0x00 then padLoop 255 0
  else if tag = 0x01 then rbind (keyRd vk) fun k => rpure (.txPub k)
  else if tag = 0x02 then rbind vecU8Rd fun n => rpure (.nonce n)
  else if tag = 0x03 then
    rbind byteRd fun _size => rbind varintRd fun d => rbind (takeRd 32) fun h => rpure (.mergeMining d h)
  else if tag = 0x04 then rbind (keysRd vk) fun ks => rpure (.addKeys ks)
  else if tag = 0xde then rbind vecU8Rd fun d => rpure (.minerGate d)
  else rfail

theorem subFieldRd_cons (vk : Bytes → Bool) (x : UInt8) (xs : Bytes) :
    subFieldRd vk (x :: xs) = afterTag vk x xs := rfl

theorem subFieldRd_nil (vk : Bytes → Bool) : subFieldRd vk [] = (none, []) := rfl

theorem mono_afterTag (vk : Bytes → Bool) (tag : UInt8) : Mono (afterTag vk tag) := by
  unfold afterTag
  repeat' split
  · exact mono_padLoop 255 0
  · exact mono_rbind (mono_keyRd vk) fun _ => mono_rpure _
  · exact mono_rbind mono_vecU8Rd fun _ => mono_rpure _
  · exact mono_rbind mono_byteRd fun _ => mono_rbind mono_varintRd fun _ => mono_rbind (mono_takeRd 32) fun _ => mono_rpure _
  · exact mono_rbind (mono_keysRd vk) fun _ => mono_rpure _
  · exact mono_rbind mono_vecU8Rd fun _ => mono_rpure _
  · exact mono_rfail

/-- every sub-field read on a non-empty input consumes at least one byte (the tag) -/
theorem subFieldRd_consumes (vk : Bytes → Bool) (x : UInt8) (xs : Bytes) :
    (subFieldRd vk (x :: xs)).2.length ≤ xs.length := by
  rw [subFieldRd_cons]; exact mono_afterTag vk x xs

end Monero.Extra
