import MoneroModel.Proofs.VarIntSpec
open Monero

/-! Helper lemmas about the decoder model with failure detail (`Monero.varintE`) and about the reference
classification `Spec.classify`. Core Lean only. -/
namespace VarIntErr

def Cont (p : Bytes) : Prop := ∀ x ∈ p, 128 ≤ x.toNat

theorem toOption_eq_some {ε α : Type} (e : Except ε α) (a : α) (h : e.toOption = some a) : e = .ok a := by
  cases e with
  | error _ => simp [Except.toOption] at h
  | ok x => simp [Except.toOption] at h; rw [h]

theorem collectE_toOption : ∀ (b : Bytes) (acc : List Nat) (pos : Nat),
    (collectE b acc pos).toOption = collect b acc
  | [], _, _ => by simp [collectE, collect, Except.toOption]
  | x :: xs, acc, pos => by
    simp only [collectE, collect]
    split
    · simp [Except.toOption]
    · split
      · simp [Except.toOption]
      · exact collectE_toOption xs _ _

theorem collectE_cont (t : Bytes) : ∀ (p : Bytes) (acc : List Nat) (pos : Nat), Cont p →
    collectE (p ++ t) acc pos = collectE t (acc ++ p.map (fun x => x.toNat % 128)) (pos + p.length)
  | [], acc, pos, _ => by simp
  | x :: xs, acc, pos, h => by
    have hx : 128 ≤ x.toNat := h x (by simp)
    have h0 : ¬ (x.toNat = 0 ∧ acc ≠ []) := by omega
    have h1 : ¬ (x.toNat < 128) := by omega
    simp only [List.cons_append, collectE, h0, h1, if_false]
    rw [collectE_cont t xs _ _ (fun y hy => h y (by simp [hy]))]
    simp [Nat.add_assoc, Nat.add_comm 1]

/-- forgetting the failure detail gives the decoder model used everywhere else -/
theorem varintE_toOption (b : Bytes) : (varintE b).toOption = varint b := by
  unfold varintE varint
  have h := collectE_toOption b [] 0
  cases hc : collectE b [] 0 with
  | error e => rw [hc] at h; simp [Except.toOption] at h; simp [← h, Except.toOption]
  | ok p =>
    rw [hc] at h; simp [Except.toOption] at h
    obtain ⟨gs, rest⟩ := p
    simp only [← h]
    cases accum gs.reverse 0 <;> simp [Except.toOption]

theorem varintE_eof (b : Bytes) (hc : Cont b) : varintE b = .error (.eof, b.length) := by
  have := collectE_cont [] b [] 0 hc
  rw [List.append_nil] at this
  unfold varintE
  rw [this]; simp [collectE]

theorem varintE_zero (p r : Bytes) (hp : p ≠ []) (hc : Cont p) :
    varintE (p ++ 0 :: r) = .error (.zero, p.length + 1) := by
  unfold varintE
  rw [collectE_cont _ p [] 0 hc]
  simp [collectE, hp]

theorem collectE_leb128 (n : Nat) (r : Bytes) : collectE (Spec.leb128 n ++ r) [] 0 = .ok (groups n, r) := by
  apply toOption_eq_some
  rw [collectE_toOption, ← encVarint_eq_leb128, collect_enc r n [] (Or.inl rfl)]
  simp

theorem varintE_ok (n : Nat) (r : Bytes) (hn : n < 2^64) : varintE (Spec.leb128 n ++ r) = .ok (n, r) := by
  apply toOption_eq_some
  rw [varintE_toOption, ← encVarint_eq_leb128]
  exact complete_varint n hn r

theorem varintE_overflow (n : Nat) (r : Bytes) (hn : 2^64 ≤ n) :
    varintE (Spec.leb128 n ++ r) = .error (.overflow, (Spec.leb128 n).length) := by
  -- the plain model rejects (a value it accepted would be `n` itself, and is below 2^64)
  have hv : varint (Spec.leb128 n ++ r) = none := by
    cases h : varint (Spec.leb128 n ++ r) with
    | none => rfl
    | some p =>
      obtain ⟨m, r'⟩ := p
      have hm := varint_lt _ m r' h
      have hb := sound_varint _ m r' h
      rw [encVarint_eq_leb128] at hb
      have := VarIntSpec.leb128_prefix_free n m r r' hb
      omega
  have hc : collect (Spec.leb128 n ++ r) [] = some (groups n, r) := by
    rw [← encVarint_eq_leb128, collect_enc r n [] (Or.inl rfl)]; simp
  unfold varint at hv
  rw [hc] at hv
  unfold varintE
  rw [collectE_leb128]
  cases ha : accum (groups n).reverse 0 with
  | none => simp [ha]
  | some m => simp [ha] at hv

/-- every byte string has exactly one of three shapes: it starts with a canonical string; or with one or more
continuation bytes followed by a zero byte; or it consists of continuation bytes only -/
theorem forms : ∀ b : Bytes,
    (∃ n r, b = Spec.leb128 n ++ r) ∨ (∃ p r, p ≠ [] ∧ Cont p ∧ b = p ++ 0 :: r) ∨ Cont b
  | [] => Or.inr (Or.inr (by intro x hx; simp at hx))
  | x :: xs => by
    have hx256 : x.toNat < 256 := x.toNat_lt
    by_cases hx : x.toNat < 128
    · left; refine ⟨x.toNat, xs, ?_⟩
      rw [Spec.leb128]; simp [hx]
    · rcases forms xs with ⟨n, r, rfl⟩ | ⟨p, r, hp, hc, rfl⟩ | hc
      · by_cases h0 : n = 0
        · subst h0
          right; left
          refine ⟨[x], r, by simp, ?_, ?_⟩
          · intro y hy; simp at hy; subst hy; omega
          · rw [Spec.leb128]; simp
        · left
          refine ⟨(x.toNat - 128) + 128 * n, r, ?_⟩
          rw [Spec.leb128.eq_1 ((x.toNat - 128) + 128 * n)]
          have hge : ¬ ((x.toNat - 128) + 128 * n < 128) := by omega
          have e1 : ((x.toNat - 128) + 128 * n) % 128 = x.toNat - 128 := by omega
          have e2 : ((x.toNat - 128) + 128 * n) / 128 = n := by omega
          have e3 : 128 + (x.toNat - 128) = x.toNat := by omega
          simp only [hge, dif_neg, not_false_eq_true, e1, e2, e3, VarIntSpec.ofNat_toNat, List.cons_append]
      · right; left
        refine ⟨x :: p, r, by simp, ?_, by simp⟩
        intro y hy; simp at hy; rcases hy with rfl | hy
        · omega
        · exact hc y hy
      · right; right
        intro y hy; simp at hy; rcases hy with rfl | hy
        · omega
        · exact hc y hy

/-! ### the reference classification on the three shapes -/

theorem readGroups_cont (t : List UInt8) : ∀ p : Bytes, Cont p →
    Spec.readGroups (p ++ t) =
      (Spec.readGroups t).map (fun q => (p.map (fun x => x.toNat - 128) ++ q.1, q.2 + p.length))
  | [], _ => by cases h : Spec.readGroups t <;> simp [h]
  | x :: xs, h => by
    have hx : ¬ (x.toNat < 128) := by have := h x (by simp); omega
    simp only [List.cons_append, Spec.readGroups, hx, if_false]
    rw [readGroups_cont t xs (fun y hy => h y (by simp [hy]))]
    cases Spec.readGroups t with
    | none => simp
    | some q => simp [Nat.add_assoc]

theorem readGroups_leb128_groups (r : List UInt8) : ∀ n,
    Spec.readGroups (Spec.leb128 n ++ r) = some (groups n, (Spec.leb128 n).length) := by
  intro n
  induction n using Nat.strongRecOn with
  | _ n ih =>
    rw [Spec.leb128, groups]
    by_cases hlt : n < 128
    · have ht : (UInt8.ofNat n).toNat = n := toNat_ofNat_lt n (by omega)
      simp [hlt, Spec.readGroups, ht]
    · have ht : (UInt8.ofNat (128 + n % 128)).toNat = 128 + n % 128 := toNat_ofNat_lt _ (by omega)
      have hge : ¬ (128 + n % 128 < 128) := by omega
      simp only [hlt, dif_neg, not_false_eq_true, List.cons_append, Spec.readGroups, ht, hge, if_false,
        ih (n / 128) (by omega), List.length_cons, Nat.add_sub_cancel_left]

theorem groups_length (n : Nat) : (groups n).length = (Spec.leb128 n).length := by
  induction n using Nat.strongRecOn with
  | _ n ih =>
    rw [Spec.leb128, groups]
    by_cases hlt : n < 128
    · simp [hlt]
    · simp [hlt, ih (n / 128) (by omega)]

theorem valOf_eq_valLSB : ∀ l, Spec.valOf l = valLSB l
  | [] => rfl
  | g :: gs => by simp [Spec.valOf, valLSB, valOf_eq_valLSB gs]

theorem classify_leb128 (n : Nat) (r : List UInt8) :
    Spec.classify (Spec.leb128 n ++ r) =
      if n < 2^64 then .ok n (Spec.leb128 n).length else .toobig (Spec.leb128 n).length := by
  unfold Spec.classify
  rw [readGroups_leb128_groups]
  have hv : Spec.valOf (groups n) = n := by rw [valOf_eq_valLSB, valLSB_groups]
  have hcan : ¬ (1 < (Spec.leb128 n).length ∧ (groups n).getLast? = some 0) := by
    rintro ⟨h1, h2⟩
    rcases groups_canon n with h | h
    · rw [groups_length] at h; omega
    · exact h h2
  simp only [hcan, if_false, hv]

theorem classify_zero (p r : Bytes) (hp : p ≠ []) (hc : Cont p) :
    Spec.classify (p ++ 0 :: r) = .nonminimal (p.length + 1) := by
  unfold Spec.classify
  rw [readGroups_cont _ p hc]
  have hl : 0 < p.length := List.length_pos_iff.2 hp
  simp [Spec.readGroups, Nat.add_comm 1, hp]

theorem classify_cont (b : Bytes) (hc : Cont b) : Spec.classify b = .truncated b.length := by
  have := readGroups_cont [] b hc
  rw [List.append_nil] at this
  unfold Spec.classify
  rw [this]; simp [Spec.readGroups]


/-- the model's verdict in the vocabulary of the reference classification -/
def verdictOf (b : Bytes) : Spec.Verdict :=
  match varintE b with
  | .ok (n, r) => .ok n (b.length - r.length)
  | .error (.eof, k) => .truncated k
  | .error (.zero, k) => .nonminimal k
  | .error (.overflow, k) => .toobig k

end VarIntErr
