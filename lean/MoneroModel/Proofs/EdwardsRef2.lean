import MoneroModel.Proofs.EdwardsRef1
/-! Refinement, part 2: `Ed.decompress` / `Ed.compress` (RFC 8032 §5.1.3) and the 32-byte forms `Ed.decodePt` /
`Ed.encodePt` against the invariant `Valid` and the abstraction `aff` of part 1. -/
namespace Monero.Edw
open Ed Monero.Keys

theorem p_lt_255 : Ed.p < 2 ^ 255 := p_lt

/-- two reduced square roots of the same element with the same parity coincide -/
theorem root_unique (a b : ℕ) (ha : a < Ed.p) (hb : b < Ed.p) (hsq : (a : F) * a = (b : F) * b) (hpar : a % 2 = b % 2) :
    a = b := by
  have h : ((a : F) - b) * ((a : F) + b) = 0 := by linear_combination hsq
  rcases mul_eq_zero.mp h with h | h
  · exact cast_inj_lt a b ha hb (sub_eq_zero.mp h)
  · have h' : (a : F) = -(b : F) := eq_neg_of_add_eq_zero_left h
    rw [← cast_neg b hb] at h'
    have hab := cast_inj_lt a _ ha (mod_p_lt _) h'
    by_cases hb0 : b = 0
    · subst hb0; simpa using hab
    · rw [Nat.mod_eq_of_lt (by omega)] at hab
      have := p_odd
      omega

/-! ### decompression -/

/-- what a successful `Ed.decompress` returns (for a 256-bit input): a valid affine point whose y is the low 255 bits and
whose x has the parity given by bit 255 -/
theorem decompress_spec (k : ℕ) (hk : k < 2 ^ 256) (P : Ed.Pt) (h : Ed.decompress k = some P) :
    Valid P ∧ P.z = 1 ∧ P.y = k % 2 ^ 255 ∧ P.x % 2 = k / 2 ^ 255 := by
  have hs : k / 2 ^ 255 < 2 := by omega
  have hpodd := p_odd
  have hp1 := p_gt_one
  unfold Ed.decompress at h
  simp only [] at h
  generalize k % 2 ^ 255 = y at *
  generalize k / 2 ^ 255 = s at *
  by_cases hy : y ≥ Ed.p
  · rw [if_pos hy] at h; exact absurd h (by simp)
  rw [if_neg hy] at h
  have hylt : y < Ed.p := by omega
  have huF : (((y * y + Ed.p - 1) % Ed.p : ℕ) : F) = (y : F) * y - 1 := by
    rw [cast_mod, Nat.cast_sub (by have := p_pos; omega)]; push_cast; rw [cast_p]; ring
  have hvF : (((Ed.d * y % Ed.p * y + 1) % Ed.p : ℕ) : F) = (y : F) * y * Ed.d + 1 := by
    rw [cast_mod]; push_cast; rw [cast_mod]; push_cast; ring
  generalize (y * y + Ed.p - 1) % Ed.p = u at *
  generalize (Ed.d * y % Ed.p * y + 1) % Ed.p = v at *
  have hv0 : (v : F) ≠ 0 := by rw [hvF]; exact denom_ne_zero _
  have hx2F : (v : F) * ((u * inv v % Ed.p : ℕ) : F) = u := by
    rw [cast_mod]; push_cast
    have := cast_inv v hv0
    linear_combination (u : F) * this
  have hx2lt : u * inv v % Ed.p < Ed.p := mod_p_lt _
  generalize u * inv v % Ed.p = x2 at *
  have hclt : powmod x2 ((Ed.p + 3) / 8) Ed.p < Ed.p := powmod_lt _ _ _ p_gt_one (by decide)
  generalize powmod x2 ((Ed.p + 3) / 8) Ed.p = c at *
  have hx'lt : (if ((c * c + Ed.p - x2) % Ed.p != 0) = true then c * sqrtm1 % Ed.p else c) < Ed.p := by
    split
    · exact mod_p_lt _
    · exact hclt
  generalize (if ((c * c + Ed.p - x2) % Ed.p != 0) = true then c * sqrtm1 % Ed.p else c) = x' at *
  have hsecond := sq_check x' x2 hx2lt
  by_cases h2 : (x' * x' + Ed.p - x2) % Ed.p = 0
  · have hsq : (x' : F) * x' = x2 := hsecond.mp h2
    by_cases h3 : x' = 0 ∧ s = 1
    · simp [h3] at h
    · have hn3 : (x' == 0 && s == 1) = false := by
        rw [Bool.and_eq_false_iff]
        by_cases h0 : x' = 0
        · right; simp only [beq_eq_false_iff_ne]; exact fun h1 => h3 ⟨h0, h1⟩
        · left; simp only [beq_eq_false_iff_ne]; exact h0
      have hn2 : ((x' * x' + Ed.p - x2) % Ed.p != 0) = false := by simp [h2]
      rw [hn2, hn3] at h
      simp only [Bool.false_eq_true, if_false, Option.some.injEq] at h
      -- the sign-adjusted root
      have hX : (if (x' % 2 != s) = true then Ed.p - x' else x') < Ed.p ∧
          (if (x' % 2 != s) = true then Ed.p - x' else x') % 2 = s ∧
          (((if (x' % 2 != s) = true then Ed.p - x' else x' : ℕ)) : F) *
            ((if (x' % 2 != s) = true then Ed.p - x' else x' : ℕ) : F) = (x' : F) * x' := by
        by_cases hpar : x' % 2 = s
        · have : (x' % 2 != s) = false := by simp [hpar]
          rw [this]; simp only [Bool.false_eq_true, if_false]
          exact ⟨hx'lt, hpar, trivial⟩
        · have : (x' % 2 != s) = true := by simp [hpar]
          rw [this]; simp only [if_true]
          have hx'0 : x' ≠ 0 := by
            intro h0; apply h3; subst h0; exact ⟨rfl, by omega⟩
          refine ⟨by omega, by omega, ?_⟩
          rw [Nat.cast_sub (Nat.le_of_lt hx'lt), cast_p]; ring
      generalize (if (x' % 2 != s) = true then Ed.p - x' else x') = X at *
      obtain ⟨hXlt, hXpar, hXsq⟩ := hX
      subst h
      refine ⟨⟨⟨hXlt, hylt, hp1, mod_p_lt _⟩, ?_, ?_, ?_⟩, rfl, rfl, hXpar⟩
      · simp
      · show (X : F) * (y : F) = ((1 : ℕ) : F) * ((X * y % Ed.p : ℕ) : F)
        rw [cast_mod]; push_cast; ring
      · show -((X : F) / ((1 : ℕ) : F)) ^ 2 + ((y : F) / ((1 : ℕ) : F)) ^ 2
            = 1 + dF * ((X : F) / ((1 : ℕ) : F)) ^ 2 * ((y : F) / ((1 : ℕ) : F)) ^ 2
        rw [Nat.cast_one, div_one, div_one]
        rw [hvF, huF, ← hsq, ← hXsq] at hx2F
        unfold dF
        linear_combination (-1 : F) * hx2F
  · have hn2 : ((x' * x' + Ed.p - x2) % Ed.p != 0) = true := by simp [h2]
    rw [hn2] at h
    simp at h

theorem decompress_valid {k : ℕ} (hk : k < 2 ^ 256) {P : Ed.Pt} (h : Ed.decompress k = some P) : Valid P :=
  (decompress_spec k hk P h).1

/-! ### compression -/
/-- affine x of a point as a reduced natural number -/
def cx (P : Ed.Pt) : ℕ := P.x * inv P.z % Ed.p
/-- affine y of a point as a reduced natural number -/
def cy (P : Ed.Pt) : ℕ := P.y * inv P.z % Ed.p

theorem compress_eq (P : Ed.Pt) : Ed.compress P = cy P + cx P % 2 * 2 ^ 255 := rfl
theorem cx_lt (P : Ed.Pt) : cx P < Ed.p := mod_p_lt _
theorem cy_lt (P : Ed.Pt) : cy P < Ed.p := mod_p_lt _

theorem cast_inv' (z : ℕ) (hz : (z : F) ≠ 0) : ((inv z : ℕ) : F) = (z : F)⁻¹ :=
  eq_inv_of_mul_eq_one_right (cast_inv z hz)

theorem cast_cx (P : Ed.Pt) (hz : (P.z : F) ≠ 0) : (cx P : F) = (P.x : F) / P.z := by
  unfold cx; rw [cast_mod, Nat.cast_mul, cast_inv' _ hz, div_eq_mul_inv]
theorem cast_cy (P : Ed.Pt) (hz : (P.z : F) ≠ 0) : (cy P : F) = (P.y : F) / P.z := by
  unfold cy; rw [cast_mod, Nat.cast_mul, cast_inv' _ hz, div_eq_mul_inv]

theorem aff_eq_c {P : Ed.Pt} (hP : Valid P) : aff P = ((cx P : F), (cy P : F)) := by
  unfold aff; rw [cast_cx P hP.z_ne, cast_cy P hP.z_ne]

/-- holds for every `P` (no validity needed) -/
theorem compress_lt (P : Ed.Pt) : Ed.compress P < 2 ^ 256 := by
  rw [compress_eq]
  have := cy_lt P
  have := p_lt_255
  have : cx P % 2 < 2 := Nat.mod_lt _ (by decide)
  omega

theorem compress_low (P : Ed.Pt) : Ed.compress P % 2 ^ 255 = cy P := by
  rw [compress_eq]
  have := cy_lt P
  have := p_lt_255
  omega
theorem compress_high (P : Ed.Pt) : Ed.compress P / 2 ^ 255 = cx P % 2 := by
  rw [compress_eq]
  have := cy_lt P
  have := p_lt_255
  omega

/-- decompressing and recompressing gives back the 256-bit integer -/
theorem compress_decompress {k : ℕ} (hk : k < 2 ^ 256) {P : Ed.Pt} (h : Ed.decompress k = some P) :
    Ed.compress P = k := by
  obtain ⟨hv, hz, hy, hx⟩ := decompress_spec k hk P h
  rw [compress_affine P hz hv.reduced.1 hv.reduced.2.1, hy, hx]
  omega

/-- the encoding of a valid point decompresses to (the affine form of) the same point -/
theorem decompress_compress {P : Ed.Pt} (hP : Valid P) :
    ∃ P', Ed.decompress (Ed.compress P) = some P' ∧ aff P' = aff P ∧ P'.x = cx P ∧ P'.y = cy P ∧ P'.z = 1 := by
  have hk := compress_lt P
  have hcurve : -(cx P : F) ^ 2 + (cy P : F) ^ 2 = 1 + dF * (cx P : F) ^ 2 * (cy P : F) ^ 2 := by
    have := hP.onCurve
    rw [aff_eq_c hP] at this
    exact this
  have hsome : (Ed.decompress (Ed.compress P)).isSome = true := by
    rw [refDecompress_isSome_iff _ hk, compress_low, compress_high]
    refine ⟨cy_lt P, cx P, cx_lt P, ?_, rfl⟩
    apply (cast_eq_iff _ _).mp
    push_cast
    unfold dF at hcurve
    linear_combination hcurve
  obtain ⟨P', hP'⟩ := Option.isSome_iff_exists.mp hsome
  obtain ⟨hv, hz, hy, hx⟩ := decompress_spec _ hk P' hP'
  rw [compress_low] at hy
  rw [compress_high] at hx
  have hc' := hv.onCurve
  unfold OnCurve aff at hc'
  simp only [hz, Nat.cast_one, div_one, hy] at hc'
  have hxx : P'.x = cx P := by
    apply root_unique _ _ hv.reduced.1 (cx_lt P) _ hx
    have hden := denom_ne_zero (cy P : F)
    apply mul_left_cancel₀ hden
    unfold dF at hcurve hc'
    linear_combination hcurve - hc'
  refine ⟨P', hP', ?_, hxx, hy, hz⟩
  rw [aff_eq_c hP]
  unfold aff
  rw [hz, hxx, hy, Nat.cast_one, div_one, div_one]

theorem compress_inj {P Q : Ed.Pt} (hP : Valid P) (hQ : Valid Q) (h : Ed.compress P = Ed.compress Q) : aff P = aff Q := by
  obtain ⟨P', h1, h2, -⟩ := decompress_compress hP
  obtain ⟨Q', h3, h4, -⟩ := decompress_compress hQ
  rw [h, h3] at h1
  cases h1
  rw [← h2, ← h4]

/-- conversely, equal affine points have equal encodings -/
theorem compress_congr {P Q : Ed.Pt} (hP : Valid P) (hQ : Valid Q) (h : aff P = aff Q) : Ed.compress P = Ed.compress Q := by
  rw [aff_eq_c hP, aff_eq_c hQ, Prod.mk.injEq] at h
  have hx := cast_inj_lt _ _ (cx_lt P) (cx_lt Q) h.1
  have hy := cast_inj_lt _ _ (cy_lt P) (cy_lt Q) h.2
  rw [compress_eq, compress_eq, hx, hy]

theorem compress_eq_iff {P Q : Ed.Pt} (hP : Valid P) (hQ : Valid Q) : Ed.compress P = Ed.compress Q ↔ aff P = aff Q :=
  ⟨compress_inj hP hQ, compress_congr hP hQ⟩

/-! ### 32-byte forms -/
theorem pow256_32 : (256 : ℕ) ^ 32 = 2 ^ 256 := by norm_num

theorem leNat_lt_256 (b : List UInt8) (hlen : b.length = 32) : leNat b < 2 ^ 256 := by
  have := leNat_lt b
  rwa [hlen, pow256_32] at this

theorem decodePt_some {b : List UInt8} {P : Ed.Pt} (h : Ed.decodePt b = some P) :
    b.length = 32 ∧ Ed.decompress (leNat b) = some P := by
  unfold Ed.decodePt at h
  by_cases hlen : b.length = 32
  · rw [if_pos hlen] at h; exact ⟨hlen, h⟩
  · rw [if_neg hlen] at h; exact absurd h (by simp)

theorem decodePt_valid {b : List UInt8} {P : Ed.Pt} (h : Ed.decodePt b = some P) : Valid P ∧ P.z = 1 := by
  obtain ⟨hlen, hd⟩ := decodePt_some h
  obtain ⟨hv, hz, -, -⟩ := decompress_spec _ (leNat_lt_256 b hlen) P hd
  exact ⟨hv, hz⟩

theorem encodePt_length (P : Ed.Pt) : (Ed.encodePt P).length = 32 := length_toBytesLE _ _

theorem leNat_encodePt (P : Ed.Pt) : leNat (Ed.encodePt P) = Ed.compress P := by
  unfold Ed.encodePt
  exact leNat_toBytesLE 32 _ (by rw [pow256_32]; exact compress_lt P)

/-- decoding then encoding returns the input bytes (the decoder only accepts canonical encodings) -/
theorem encodePt_decodePt {b : List UInt8} {P : Ed.Pt} (h : Ed.decodePt b = some P) : Ed.encodePt P = b := by
  obtain ⟨hlen, hd⟩ := decodePt_some h
  unfold Ed.encodePt
  rw [compress_decompress (leNat_lt_256 b hlen) hd, ← hlen]
  exact toBytesLE_leNat b

/-- the encoding of a valid point decodes to (the affine form of) the same point -/
theorem decodePt_encodePt {P : Ed.Pt} (hP : Valid P) :
    ∃ P', Ed.decodePt (Ed.encodePt P) = some P' ∧ aff P' = aff P := by
  obtain ⟨P', h1, h2, -⟩ := decompress_compress hP
  refine ⟨P', ?_, h2⟩
  unfold Ed.decodePt
  rw [if_pos (encodePt_length P), leNat_encodePt, h1]

theorem encodePt_inj {P Q : Ed.Pt} (hP : Valid P) (hQ : Valid Q) (h : Ed.encodePt P = Ed.encodePt Q) : aff P = aff Q := by
  apply compress_inj hP hQ
  rw [← leNat_encodePt P, ← leNat_encodePt Q, h]

theorem encodePt_eq_iff {P Q : Ed.Pt} (hP : Valid P) (hQ : Valid Q) : Ed.encodePt P = Ed.encodePt Q ↔ aff P = aff Q :=
  ⟨encodePt_inj hP hQ, fun h => by unfold Ed.encodePt; rw [compress_congr hP hQ h]⟩

/-- decoding is injective on byte strings -/
theorem decodePt_inj {b b' : List UInt8} {P : Ed.Pt} (h : Ed.decodePt b = some P) (h' : Ed.decodePt b' = some P) : b = b' := by
  rw [← encodePt_decodePt h, ← encodePt_decodePt h']

end Monero.Edw
