import MoneroModel.Model.Ledger
/-! C04 allocation ledger (combinators of Model/Ledger.lean): closure of the bound `peak ≤ D·CAP + B·(bytes looked at)` under
    sequencing and capped pre-allocating vectors. Core Lean. -/
namespace Ledger
open Monero

/-- the invariant: rest is a suffix, peak and live are bounded -/
structure Bounded {α} (A B : Nat) (d : RDec α) : Prop where
  suffix : ∀ b x r, (d b).val = some (x, r) → r.length ≤ b.length
  peak : ∀ b, (d b).peak ≤ A + B * used b (d b)
  live : ∀ b, (d b).live ≤ B * used b (d b)
  live_fail : ∀ b, (d b).val = none → (d b).live = 0

theorem bounded_pure {α} (x : α) : Bounded 0 0 (rpure x) :=
  ⟨by intro b y r h; simp [rpure] at h; obtain ⟨_, rfl⟩ := h; exact Nat.le_refl _, by intro b; simp [rpure], by intro b; simp [rpure], by intro b h; simp [rpure] at h⟩

theorem bounded_u8 : Bounded 0 0 ru8 := by
  refine ⟨?_, ?_, ?_, ?_⟩
  · intro b x r h; cases b with | nil => simp [ru8] at h | cons a t => simp [ru8] at h; obtain ⟨_, rfl⟩ := h; simp
  · intro b; cases b <;> simp [ru8]
  · intro b; cases b <;> simp [ru8]
  · intro b _; cases b <;> simp [ru8]

theorem bounded_mono {α} {A B A' B' : Nat} {d : RDec α} (h : Bounded A B d) (hA : A ≤ A') (hB : B ≤ B') : Bounded A' B' d := by
  refine ⟨h.suffix, ?_, ?_, h.live_fail⟩
  · intro b; have := h.peak b; have := Nat.mul_le_mul_right (used b (d b)) hB; omega
  · intro b; have := h.live b; have := Nat.mul_le_mul_right (used b (d b)) hB; omega

/-- sequencing keeps the bound (same A, same B) -/
theorem bounded_bind {α β} {A B : Nat} {d : RDec α} {f : α → RDec β}
    (hd : Bounded A B d) (hf : ∀ x, Bounded A B (f x)) : Bounded A B (rbind d f) := by
  refine ⟨?_, ?_, ?_, ?_⟩
  · intro b y r' h
    unfold rbind at h
    cases hdb : d b with
    | mk v p1 l1 =>
      rw [hdb] at h
      cases v with
      | none => simp at h
      | some xr =>
        obtain ⟨x, r⟩ := xr
        simp only at h
        cases hfx : f x r with
        | mk v2 p2 l2 =>
          rw [hfx] at h
          cases v2 with
          | none => simp at h
          | some yr =>
            simp at h; obtain ⟨rfl, rfl⟩ := h
            have s1 := hd.suffix b x r (by rw [hdb])
            have s2 := (hf x).suffix r yr.1 yr.2 (by rw [hfx])
            omega
  · intro b
    unfold rbind
    cases hdb : d b with
    | mk v p1 l1 =>
      have P1 := hd.peak b; have L1 := hd.live b; rw [hdb] at P1 L1
      cases v with
      | none => simpa [used] using P1
      | some xr =>
        obtain ⟨x, r⟩ := xr
        have s1 := hd.suffix b x r (by rw [hdb])
        simp only [used] at P1 L1
        simp only
        cases hfx : f x r with
        | mk v2 p2 l2 =>
          have P2 := (hf x).peak r; rw [hfx] at P2
          cases v2 with
          | none =>
            simp only [used] at P2 ⊢
            have : B * (b.length - r.length) + B * r.length = B * b.length := by rw [← Nat.mul_add]; congr 1; omega
            simp only [Nat.max_le]
            refine ⟨?_, ?_⟩
            · have := Nat.mul_le_mul_left B (Nat.sub_le b.length r.length); omega
            · omega
          | some yr =>
            obtain ⟨y, r'⟩ := yr
            have s2 := (hf x).suffix r y r' (by rw [hfx])
            simp only [used] at P2 ⊢
            have : B * (b.length - r.length) + B * (r.length - r'.length) = B * (b.length - r'.length) := by
              rw [← Nat.mul_add]; congr 1; omega
            simp only [Nat.max_le]
            refine ⟨?_, ?_⟩
            · have := Nat.mul_le_mul_left B (show b.length - r.length ≤ b.length - r'.length by omega); omega
            · omega
  · intro b
    unfold rbind
    cases hdb : d b with
    | mk v p1 l1 =>
      have L1 := hd.live b; rw [hdb] at L1
      cases v with
      | none => simp
      | some xr =>
        obtain ⟨x, r⟩ := xr
        have s1 := hd.suffix b x r (by rw [hdb])
        simp only [used] at L1
        simp only
        cases hfx : f x r with
        | mk v2 p2 l2 =>
          have L2 := (hf x).live r; rw [hfx] at L2
          cases v2 with
          | none => simp
          | some yr =>
            obtain ⟨y, r'⟩ := yr
            have s2 := (hf x).suffix r y r' (by rw [hfx])
            simp only [used] at L2 ⊢
            have : B * (b.length - r.length) + B * (r.length - r'.length) = B * (b.length - r'.length) := by
              rw [← Nat.mul_add]; congr 1; omega
            omega
  · intro b h
    unfold rbind at h ⊢
    cases hdb : d b with
    | mk v p1 l1 =>
      rw [hdb] at h
      cases v with
      | none => rfl
      | some xr =>
        obtain ⟨x, r⟩ := xr
        simp only at h ⊢
        cases hfx : f x r with
        | mk v2 p2 l2 =>
          rw [hfx] at h
          cases v2 with
          | none => rfl
          | some yr => simp at h

theorem bounded_rep {α} {A B : Nat} {d : RDec α} (hd : Bounded A B d) : ∀ n, Bounded A B (rrep d n)
  | 0 => bounded_mono (bounded_pure []) (Nat.zero_le _) (Nat.zero_le _)
  | n+1 => bounded_bind hd fun x => bounded_bind (bounded_rep hd n) fun xs =>
      bounded_mono (bounded_pure (x :: xs)) (Nat.zero_le _) (Nat.zero_le _)

/-- a capped, pre-allocating vector: one more CAP in the constant, and the slope grows by `sz / w` when every
    element consumes at least `w ≥ 1` bytes -/
theorem bounded_vecN {α} {A B CAP sz w : Nat} {d : RDec α} (hd : Bounded A B d) (hw : 1 ≤ w)
    (hmin : ∀ b x r, (d b).val = some (x, r) → r.length + w ≤ b.length) (n : Nat) :
    Bounded (A + CAP) (B + sz) (rvecN CAP sz d n) := by
  have hr := bounded_rep hd n
  -- n successful elements consume at least n·w bytes
  have hcons : ∀ (n : Nat) b xs r, (rrep d n b).val = some (xs, r) → r.length + n * w ≤ b.length := by
    intro n; induction n with
    | zero => intro b xs r h; simp [rrep, rpure] at h; obtain ⟨_, rfl⟩ := h; simp
    | succ n ih =>
      intro b xs r h
      simp only [rrep, rbind] at h
      cases hdb : d b with
      | mk v p1 l1 =>
        rw [hdb] at h
        cases v with
        | none => simp at h
        | some xr =>
          obtain ⟨x, r1⟩ := xr
          simp only at h
          cases hrr : rrep d n r1 with
          | mk v2 p2 l2 =>
            rw [hrr] at h
            cases v2 with
            | none => simp [rpure] at h
            | some yr =>
              obtain ⟨ys, r2⟩ := yr
              simp [rpure] at h
              obtain ⟨_, rfl⟩ := h
              have a1 := hmin b x r1 (by rw [hdb])
              have a2 := ih r1 ys r2 (by rw [hrr])
              rw [Nat.add_mul]; omega
  refine ⟨?_, ?_, ?_, ?_⟩
  · intro b x r h
    unfold rvecN at h
    split at h
    · simp at h
    · cases hrr : rrep d n b with
      | mk v p l =>
        rw [hrr] at h
        cases v with
        | none => simp at h
        | some yr => simp at h; exact hr.suffix b x r (by rw [hrr]; simp [h])
  · intro b
    unfold rvecN
    split
    · simp
    · rename_i hcap
      have hcap' : n * sz ≤ CAP := by omega
      cases hrr : rrep d n b with
      | mk v p l =>
        have P := hr.peak b; rw [hrr] at P
        cases v with
        | none =>
          simp only [used] at P ⊢
          have : (B + sz) * b.length = B * b.length + sz * b.length := Nat.add_mul _ _ _
          omega
        | some yr =>
          obtain ⟨ys, r⟩ := yr
          simp only [used] at P ⊢
          have : (B + sz) * (b.length - r.length) = B * (b.length - r.length) + sz * (b.length - r.length) := Nat.add_mul _ _ _
          omega
  · intro b
    unfold rvecN
    split
    · simp
    · cases hrr : rrep d n b with
      | mk v p l =>
        have L := hr.live b; rw [hrr] at L
        cases v with
        | none => simp
        | some yr =>
          obtain ⟨ys, r⟩ := yr
          have hc := hcons n b ys r (by rw [hrr])
          simp only [used] at L ⊢
          have h1 : n ≤ b.length - r.length := by
            have : n * 1 ≤ n * w := Nat.mul_le_mul_left n hw
            omega
          have h2 : n * sz ≤ sz * (b.length - r.length) := by
            rw [Nat.mul_comm]; exact Nat.mul_le_mul_left sz h1
          have : (B + sz) * (b.length - r.length) = B * (b.length - r.length) + sz * (b.length - r.length) := Nat.add_mul _ _ _
          omega
  · intro b h
    unfold rvecN at h ⊢
    split
    · rfl
    · split at h
      · contradiction
      · cases hrr : rrep d n b with
        | mk v p l =>
          rw [hrr] at h
          cases v with
          | none => rfl
          | some yr => simp at h

end Ledger
