import MoneroModel.Proofs.KeysBasic
import Mathlib.Data.ZMod.Basic
import Mathlib.Tactic.LinearCombination
import Mathlib.Tactic.Ring
/-! Soundness of public-key acceptance (C13): an accepted encoding has y < p and an x on the curve with the encoded sign.
No primality is needed: the algorithm checks its own root (`v·r² = ±u`), and the only place where dalek's flag logic relies
on the field having no zero divisors (`u = −u·i ⇒ u = 0`) is discharged with the explicit inverse of `1 + i`. -/
namespace Monero.Keys
open Ed

abbrev F := ZMod Ed.p

theorem cast_p : ((Ed.p : ℕ) : F) = 0 := ZMod.natCast_self _
theorem cast_mod (a : ℕ) : ((a % Ed.p : ℕ) : F) = (a : F) := ZMod.natCast_mod a Ed.p
theorem cast_eq_iff (a b : ℕ) : (a : F) = (b : F) ↔ a % Ed.p = b % Ed.p := ZMod.natCast_eq_natCast_iff' a b Ed.p
theorem cast_eq_zero_lt (a : ℕ) (ha : a < Ed.p) (h : (a : F) = 0) : a = 0 := by
  have := (cast_eq_iff a 0).mp (by simpa using h)
  rw [Nat.mod_eq_of_lt ha] at this
  simpa using this
theorem cast_neg (u : ℕ) (hu : u < Ed.p) : (((Ed.p - u) % Ed.p : ℕ) : F) = -(u : F) := by
  rw [cast_mod, Nat.cast_sub (Nat.le_of_lt hu), cast_p]; ring

theorem p_odd : Ed.p % 2 = 1 := by decide
theorem p_pos : 0 < Ed.p := by decide
theorem p_lt : Ed.p < 2 ^ 255 := by decide

theorem i_sq : ((sqrtm1 : ℕ) : F) * (sqrtm1 : ℕ) = -1 := by
  have h : (sqrtm1 * sqrtm1 + 1) % Ed.p = 0 % Ed.p := by decide
  have := (cast_eq_iff _ _).mpr h
  push_cast at this
  linear_combination this

/-- explicit inverse of `1 + i` modulo p -/
def onePlusIInv : ℕ := 19107441620975295877489206599677705955594462908448195928492385465416367517599
theorem onePlusI_inv : (1 + (sqrtm1 : F)) * (onePlusIInv : F) = 1 := by
  have h : ((1 + sqrtm1) * onePlusIInv) % Ed.p = 1 % Ed.p := by decide
  have := (cast_eq_iff _ _).mpr h
  push_cast at this
  exact this

/-- choosing the even representative keeps the square -/
theorem evenRoot (r1 : ℕ) (h : r1 < Ed.p) :
    (if r1 % 2 == 1 then Ed.p - r1 else r1) < Ed.p ∧ (if r1 % 2 == 1 then Ed.p - r1 else r1) % 2 = 0 ∧
    (((if r1 % 2 == 1 then Ed.p - r1 else r1 : ℕ) : F)) * ((if r1 % 2 == 1 then Ed.p - r1 else r1 : ℕ) : F) = (r1 : F) * r1 := by
  have hp := p_odd
  by_cases ho : r1 % 2 = 1
  · have : (r1 % 2 == 1) = true := by simp [ho]
    simp only [this, if_true]
    refine ⟨by omega, by omega, ?_⟩
    rw [Nat.cast_sub (Nat.le_of_lt h), cast_p]; ring
  · have : (r1 % 2 == 1) = false := by simp [ho]
    simp only [this, Bool.false_eq_true, if_false]
    exact ⟨h, by omega, trivial⟩

theorem sqrtSelect_sound (u v r0 r : ℕ) (hu : u < Ed.p) (hr0 : r0 < Ed.p) (h : sqrtSelect u v r0 = (true, r)) :
    r < Ed.p ∧ r % 2 = 0 ∧ (v : F) * r * r = u := by
  unfold sqrtSelect at h
  simp only [Prod.mk.injEq] at h
  obtain ⟨hok, hr⟩ := h
  have hcF : ((v * (r0 * r0 % Ed.p) % Ed.p : ℕ) : F) = v * r0 * r0 := by
    rw [cast_mod]; push_cast; rw [cast_mod]; push_cast; ring
  have hnF := cast_neg u hu
  generalize v * (r0 * r0 % Ed.p) % Ed.p = c at *
  generalize hn : (Ed.p - u) % Ed.p = n at *
  simp only [Bool.or_eq_true, beq_iff_eq] at hok
  -- it suffices to exhibit r1 < p with v r1² = u, r = evenRoot r1
  suffices hs : ∀ r1 : ℕ, r1 < Ed.p → (v : F) * r1 * r1 = u → r = (if r1 % 2 == 1 then Ed.p - r1 else r1) →
      r < Ed.p ∧ r % 2 = 0 ∧ (v : F) * r * r = u by
    by_cases h2 : c = n
    · -- flipped
      have hsel : (c == n || c == n * sqrtm1 % Ed.p) = true := by simp [h2]
      rw [hsel] at hr
      simp only [if_true] at hr
      refine hs (sqrtm1 * r0 % Ed.p) (Nat.mod_lt _ p_pos) ?_ hr.symm
      rw [cast_mod]; push_cast
      have hi := i_sq
      have hcn : (v : F) * r0 * r0 = -(u : F) := by rw [← hcF, h2, hnF]
      linear_combination (-1 : F) * hcn + (v : F) * r0 * r0 * hi
    · have h1 : c = u := by
        rcases hok with h | h
        · exact h
        · exact absurd h h2
      by_cases h3 : c = n * sqrtm1 % Ed.p
      · -- u = -u·i forces u = 0, hence c = n: contradiction
        exfalso
        have hu0 : (u : F) * (1 + (sqrtm1 : F)) = 0 := by
          have : (c : F) = ((n * sqrtm1 % Ed.p : ℕ) : F) := by rw [← h3]
          rw [cast_mod] at this; push_cast at this
          rw [h1, hnF] at this
          linear_combination this
        have hu00 : (u : F) = 0 := by
          have := onePlusI_inv
          calc (u : F) = (u : F) * (1 + (sqrtm1 : F)) * (onePlusIInv : F) := by rw [mul_assoc, this, mul_one]
            _ = 0 := by rw [hu0, zero_mul]
        have hu0' := cast_eq_zero_lt u hu hu00
        have hn0 : (n : F) = 0 := by rw [hnF, hu00]; ring
        have hc0 : (c : F) = 0 := by rw [h1, hu00]
        -- both c and n are residues < p … n = (p-u)%p = p%p = 0, c = u = 0
        apply h2
        rw [h1, hu0']
        subst hu0'
        simp at hn
        exact hn
      · have hsel : (c == n || c == n * sqrtm1 % Ed.p) = false := by simp [h2, h3]
        rw [hsel] at hr
        simp only [Bool.false_eq_true, if_false] at hr
        refine hs r0 hr0 ?_ hr.symm
        rw [← hcF, h1]
  intro r1 hr1 hv hrr
  obtain ⟨e1, e2, e3⟩ := evenRoot r1 hr1
  rw [hrr]
  refine ⟨e1, e2, ?_⟩
  rw [mul_assoc, e3, ← mul_assoc]; exact hv

theorem sqrtCandidate_lt (u v : ℕ) : sqrtCandidate u v < Ed.p := Nat.mod_lt _ p_pos

/-- what a successful `decompressDalek` returns: affine (z = 1), y = the low 255 bits reduced mod p, x an even root or its negation
according to the sign bit, and (x, y) satisfies the curve equation (in the form y² = 1 + x² + d·x²·y²) -/
theorem decompressDalek_sound (k : ℕ) (P : Pt) (h : decompressDalek k = some P) :
    P.y = (k % 2 ^ 255) % Ed.p ∧ P.z = 1 ∧ P.x < Ed.p ∧ P.y < Ed.p ∧
    ((P.y : F) * P.y = 1 + (P.x : F) * P.x + (d : F) * ((P.x : F) * P.x) * ((P.y : F) * P.y)) ∧
    (∃ r, r < Ed.p ∧ r % 2 = 0 ∧ P.x = if k / 2 ^ 255 == 1 then (Ed.p - r) % Ed.p else r) := by
  unfold decompressDalek at h
  simp only [] at h
  generalize hy : (k % 2 ^ 255) % Ed.p = y at h
  have hylt : y < Ed.p := hy ▸ Nat.mod_lt _ p_pos
  have huF : (((y * y % Ed.p + Ed.p - 1) % Ed.p : ℕ) : F) = (y : F) * y - 1 := by
    rw [cast_mod, Nat.cast_sub (by have := p_pos; omega)]; push_cast; rw [cast_mod, cast_p]; push_cast; ring
  have hvF : (((y * y % Ed.p * d + 1) % Ed.p : ℕ) : F) = (y : F) * y * d + 1 := by
    rw [cast_mod]; push_cast; rw [cast_mod]; push_cast; ring
  have hult : (y * y % Ed.p + Ed.p - 1) % Ed.p < Ed.p := Nat.mod_lt _ p_pos
  generalize (y * y % Ed.p + Ed.p - 1) % Ed.p = u at *
  generalize (y * y % Ed.p * d + 1) % Ed.p = v at *
  cases hsr : sqrtRatioI u v with
  | mk ok r =>
    rw [hsr] at h
    cases ok with
    | false => simp at h
    | true =>
      simp only [Bool.not_true, Bool.false_eq_true, if_false, Option.some.injEq] at h
      obtain ⟨hr1, hr2, hr3⟩ := sqrtSelect_sound u v _ r hult (sqrtCandidate_lt u v) hsr
      subst h
      simp only []
      have hxlt : (if k / 2 ^ 255 == 1 then (Ed.p - r) % Ed.p else r) < Ed.p := by
        split
        · exact Nat.mod_lt _ p_pos
        · exact hr1
      have hxsq : (((if k / 2 ^ 255 == 1 then (Ed.p - r) % Ed.p else r : ℕ)) : F) *
          ((if k / 2 ^ 255 == 1 then (Ed.p - r) % Ed.p else r : ℕ) : F) = (r : F) * r := by
        split
        · rw [cast_neg r hr1]; ring
        · rfl
      refine ⟨trivial, trivial, hxlt, hylt, ?_, r, hr1, hr2, by first | rfl | trivial⟩
      rw [hxsq]
      rw [hvF, huF] at hr3
      linear_combination (-1 : F) * hr3

theorem compress_affine (P : Pt) (hz : P.z = 1) (hx : P.x < Ed.p) (hy : P.y < Ed.p) :
    compress P = P.y + (P.x % 2) * 2 ^ 255 := by
  unfold compress
  simp only [hz, inv_one, Nat.mul_one, Nat.mod_eq_of_lt hx, Nat.mod_eq_of_lt hy]

/-- unfolding of acceptance: length 32, the permissive decompression succeeds, and the recompressed bytes are the input -/
theorem publicAccept_iff (b : Bytes) : publicAccept b = true ↔
    b.length = 32 ∧ ∃ P, decompressDalek (leNat b) = some P ∧ encodePt P = b := by
  unfold publicAccept
  by_cases hlen : b.length = 32
  · have hne : (b.length != 32) = false := by simp [hlen]
    rw [hne]
    cases hd : decompressDalek (leNat b) with
    | none => simp
    | some P => simp [hlen]
  · have hne : (b.length != 32) = true := by simp [hlen]
    rw [hne]; simp [hlen]

theorem publicAccept_sound (b : Bytes) (h : publicAccept b = true) :
    b.length = 32 ∧ leNat b % 2 ^ 255 < Ed.p ∧
    ∃ x, x < Ed.p ∧
      ((leNat b % 2 ^ 255) * (leNat b % 2 ^ 255)) % Ed.p
        = (1 + x * x + d * (x * x) * ((leNat b % 2 ^ 255) * (leNat b % 2 ^ 255))) % Ed.p ∧
      x % 2 = leNat b / 2 ^ 255 ∧ ¬ (x = 0 ∧ leNat b / 2 ^ 255 = 1) := by
  obtain ⟨hlen, P, hd, henc⟩ := (publicAccept_iff b).mp h
  obtain ⟨hy, hz, hxlt, hylt, hcurve, _⟩ := decompressDalek_sound _ P hd
  have hc := compress_affine P hz hxlt hylt
  have hplt := p_lt
  have hclt : compress P < 256 ^ 32 := by
    rw [hc, show (256 : ℕ) ^ 32 = 2 ^ 256 by norm_num]
    have : P.x % 2 < 2 := Nat.mod_lt _ (by norm_num)
    omega
  have hk : leNat b = compress P := by
    rw [← henc]; unfold encodePt; exact leNat_toBytesLE 32 _ hclt
  rw [hc] at hk
  have hx2 : P.x % 2 < 2 := Nat.mod_lt _ (by norm_num)
  have hlow : leNat b % 2 ^ 255 = P.y := by rw [hk]; omega
  have hhigh : leNat b / 2 ^ 255 = P.x % 2 := by rw [hk]; omega
  refine ⟨hlen, by rw [hlow]; exact hylt, P.x, hxlt, ?_, hhigh.symm, ?_⟩
  · rw [hlow]
    apply (cast_eq_iff _ _).mp
    push_cast
    exact hcurve
  · rintro ⟨h0, h1⟩
    rw [hhigh, h0] at h1
    simp at h1

end Monero.Keys
