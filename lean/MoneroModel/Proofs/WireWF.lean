import MoneroModel.Proofs.TxComplete2
import MoneroModel.Model.Build
open Monero
/-! Well-shapedness of a DESCRIPTION (`Spec.WFTxD`, Spec/Wire.lean) plus the decoder's allocation-cap conditions stated on
the description (`CapD`, below) imply well-formedness of the built value (`wfTx (build d)`, Proofs/TxComplete2.lean), so
that C03's decode theorem can be stated over descriptions only.

The proofs use only `1 ≤ sizes.x` and `CAP < 2^64` about the generated constants. -/

/-! ## the allocation cap, on descriptions -/

/-- a vector of `n` elements of in-memory size `sz` passes the decoder's allocation cap (encode.rs:507-524) -/
def capN (n sz : Nat) : Prop := n * sz ≤ CAP

/-- key input: the explicit-length vector of key offsets -/
def CapIn : Spec.InD → Prop
  | .gen _ => True
  | .key _ offs _ => capN offs.length sizes.varint
/-- Bulletproof: the explicit-length vectors L and R -/
def CapBp (p : Spec.BpD) : Prop := capN p.L.length sizes.key ∧ capN p.R.length sizes.key
/-- Bulletproof+: the explicit-length vectors L and R -/
def CapBpp (p : Spec.BppD) : Prop := capN p.L.length sizes.key ∧ capN p.R.length sizes.key

/-- RingCT part of a transaction with `k` inputs and `n` outputs: every count-sized vector the decoder pre-allocates
(out_pk, pseudo outs, range signatures, MLSAG rows) and every explicit-length vector (Bulletproofs(+) and their L, R);
the BulletproofPlus count must also fit the library's one-byte count -/
def CapRct (k n : Nat) : Spec.RctD → Prop
  | .null => True
  | .full _ _ _ _ _ =>
      capN n sizes.key ∧ capN n sizes.rangesig ∧ capN (k + 1) sizes.key
  | .simple _ _ _ _ _ _ =>
      capN k sizes.key ∧ capN n sizes.key ∧ capN n sizes.rangesig ∧ capN 2 sizes.key
  | .bulletproof _ _ _ bps _ _ =>
      capN n sizes.key ∧ capN bps.length sizes.bp ∧ (∀ p ∈ bps, CapBp p) ∧ capN 2 sizes.key ∧ capN k sizes.key
  | .bulletproof2 _ _ _ bps _ _ =>
      capN n sizes.key ∧ capN bps.length sizes.bp ∧ (∀ p ∈ bps, CapBp p) ∧ capN 2 sizes.key ∧ capN k sizes.key
  | .clsag _ _ _ bps _ _ =>
      capN n sizes.key ∧ capN bps.length sizes.bp ∧ (∀ p ∈ bps, CapBp p) ∧ capN k sizes.key
  | .bpplus _ _ _ bpps _ _ =>
      capN n sizes.key ∧ capN bpps.length sizes.bpp ∧ bpps.length < 256 ∧ (∀ p ∈ bpps, CapBpp p) ∧ capN k sizes.key

def CapBody (k n : Nat) : Spec.BodyD → Prop
  | .v1 _ => True
  | .v2 none => True
  | .v2 (some r) => CapRct k n r

/-- the decoder's allocation-cap conditions of a whole transaction description -/
def CapD (d : Spec.TxD) : Prop :=
  capN d.ins.length sizes.txin ∧ (∀ i ∈ d.ins, CapIn i) ∧ capN d.outs.length sizes.txout ∧
  capN d.extra.length sizes.u8 ∧ CapBody d.ins.length d.outs.length d.body

/-! ## arithmetic about the constants (the only facts used) -/
theorem CAP_lt_u64 : CAP < 2^64 := by decide
theorem sizes_pos : 1 ≤ sizes.txin ∧ 1 ≤ sizes.txout ∧ 1 ≤ sizes.varint ∧ 1 ≤ sizes.key ∧ 1 ≤ sizes.bp ∧
    1 ≤ sizes.bpp ∧ 1 ≤ sizes.u8 ∧ 1 ≤ sizes.rangesig := by decide

theorem len_lt_of_cap {n sz : Nat} (h1 : 1 ≤ sz) (h : capN n sz) : n < 2^64 :=
  Nat.lt_of_le_of_lt (Nat.le_trans (Nat.le_mul_of_pos_right n h1) h) CAP_lt_u64

theorem vecOK_of_cap {α} {sz : Nat} {wf : α → Prop} {xs : List α} (h1 : 1 ≤ sz) (hw : ∀ x ∈ xs, wf x)
    (hc : capN xs.length sz) : VecOK sz wf xs := ⟨hw, hc, len_lt_of_cap h1 hc⟩

theorem keyVecOK_of (ks : List Bytes) (h : Spec.all32 ks) (hc : capN ks.length sizes.key) : KeyVecOK ks :=
  vecOK_of_cap sizes_pos.2.2.2.1 h hc

theorem forall_mem_map {α β} {f : α → β} {P : α → Prop} {Q : β → Prop} {xs : List α}
    (h : ∀ x ∈ xs, P x) (hf : ∀ x, P x → Q (f x)) : ∀ y ∈ xs.map f, Q y := by
  intro y hy
  obtain ⟨x, hx, rfl⟩ := List.mem_map.1 hy
  exact hf x (h x hx)

/-- the concatenation of n keys has 32·n bytes -/
theorem flatten_len32 : ∀ (l : List Bytes), (∀ k ∈ l, k.length = 32) → l.flatten.length = 32 * l.length
  | [], _ => rfl
  | k :: t, h => by
    have ht := flatten_len32 t (fun x hx => h x (List.mem_cons_of_mem _ hx))
    have hk := h k List.mem_cons_self
    simp only [List.flatten_cons, List.length_append, List.length_cons, ht, hk]; omega

/-! ## prefix -/
theorem wfIn_build (i : Spec.InD) (h : Spec.WFIn i) (hc : CapIn i) : wfTxIn (buildIn i) := by
  cases i with
  | gen g => exact h
  | key a o k =>
    obtain ⟨ha, ho, hk⟩ := h
    exact ⟨ha, vecOK_of_cap sizes_pos.2.2.1 ho hc, hk⟩

theorem wfOut_build (o : Spec.OutD) (h : Spec.WFOut o) : wfTxOut (buildOut o) := by
  obtain ⟨amount, key, tag⟩ := o
  obtain ⟨ha, hk⟩ := h
  cases tag with
  | none => exact ⟨ha, hk⟩
  | some t => exact ⟨ha, hk⟩

theorem version_u64 (d : Spec.TxD) : U64 d.version := by
  unfold U64 Spec.TxD.version
  split <;> decide

theorem wfPrefix_build (d : Spec.TxD) (h : Spec.WFTxD d) (hc : CapD d) : wfPrefix (buildPrefix d) := by
  obtain ⟨hu, hi, ho, _⟩ := h
  obtain ⟨ci, cin, co, ce, _⟩ := hc
  refine ⟨version_u64 d, hu, vecOK_of_cap sizes_pos.1 ?_ ?_, vecOK_of_cap sizes_pos.2.1 ?_ ?_,
    vecOK_of_cap sizes_pos.2.2.2.2.2.2.1 (fun _ _ => trivial) ce⟩
  · intro x hx
    obtain ⟨i, hi', rfl⟩ := List.mem_map.1 hx
    exact wfIn_build i (hi i hi') (cin i hi')
  · show capN (d.ins.map buildIn).length sizes.txin
    rw [List.length_map]; exact ci
  · exact forall_mem_map ho wfOut_build
  · show capN (d.outs.map buildOut).length sizes.txout
    rw [List.length_map]; exact co

/-! ## version 1 signatures -/
theorem ringsOf_build (ins : List Spec.InD) : ringsOf (ins.map buildIn) = Spec.keyRings ins := by
  unfold ringsOf Spec.keyRings
  induction ins with
  | nil => rfl
  | cons i t ih =>
    cases i with
    | gen g => simpa [buildIn] using ih
    | key a o k => simpa [buildIn] using ih

theorem wfSigsV1_build : ∀ (rings : List Nat) (sigs : List (List (Bytes × Bytes))), Spec.WFSigsV1 rings sigs →
    wfSigsV1 rings (sigs.map fun row => row.map sigBytes)
  | [], sigs, h => by
    simp only [Spec.WFSigsV1] at h; subst h; rfl
  | n :: t, sigs, h => by
    obtain ⟨s, rest, rfl, hl, hw, ht⟩ := h
    refine ⟨s.map sigBytes, rest.map (fun row => row.map sigBytes), rfl, by rw [List.length_map]; exact hl, ?_,
      wfSigsV1_build t rest ht⟩
    refine forall_mem_map hw ?_
    intro x ⟨h1, h2⟩
    unfold Spec.is32 at h1 h2
    simp only [sigBytes, List.length_append, h1, h2]

/-! ## ring size of the first input -/
theorem ring_build (ins : List Spec.InD) (h : Spec.ringSize ins ≠ 0) :
    ringNonEmpty (ins.map buildIn) ∧ Spec.ringSize ins = mixinOf (ins.map buildIn) + 1 := by
  unfold ringNonEmpty mixinOf
  unfold Spec.ringSize at h ⊢
  cases ins with
  | nil => exact ⟨trivial, rfl⟩
  | cons i t =>
    cases i with
    | gen g => exact ⟨trivial, rfl⟩
    | key a o k =>
      simp only [List.head?_cons, List.map_cons, buildIn] at h ⊢
      exact ⟨h, by omega⟩

/-! ## RingCT base -/
theorem keysOK_of {n : Nat} {ks : List Bytes} (hl : ks.length = n) (h : Spec.all32 ks) (hc : capN n sizes.key) :
    KeysOK n ks := ⟨hl, h, hc⟩

theorem ecdh_full_ok (ty : Nat) (hty : ty ≤ 3) (es : List (Bytes × Bytes)) (h : ∀ e ∈ es, Spec.WFEcdhFull e) :
    ∀ e ∈ es.map ecdhFull, wfEcdh ty e :=
  forall_mem_map h fun _ he => ⟨hty, he.1, he.2⟩

theorem ecdh_bp_ok (ty : Nat) (hty : ¬ ty ≤ 3) (es : List Bytes) (h : ∀ e ∈ es, Spec.WFEcdh8 e) :
    ∀ e ∈ es.map Ecdh.bp, wfEcdh ty e :=
  forall_mem_map h fun _ he => ⟨hty, he⟩

/-- the base record for a type that is neither Null nor Simple -/
theorem wfBase_plain (k n ty fee : Nat) (es : List Ecdh) (pk : List Bytes) (h6 : ty ≤ 6) (h0 : ty ≠ 0) (h2 : ty ≠ 2)
    (hf : U64 fee) (hel : es.length = n) (he : ∀ e ∈ es, wfEcdh ty e) (hpk : KeysOK n pk) :
    wfBase k n ⟨ty, fee, [], es, pk⟩ :=
  ⟨h6, fun h => absurd h h0, fun _ => ⟨hf, by simp only [h2, if_false], hel, he, hpk⟩⟩

theorem wfBase_build (k n m : Nat) (r : Spec.RctD) (h : Spec.WFRct k n m r) (hc : CapRct k n r) :
    wfBase k n (buildBase r) := by
  cases r with
  | null => exact ⟨by decide, fun _ => ⟨rfl, rfl, rfl, rfl⟩, fun h => absurd rfl h⟩
  | full fee ecdh outPk rs mg =>
    obtain ⟨hf, hel, he, hol, ho, _⟩ := h
    exact wfBase_plain k n 1 fee _ outPk (by decide) (by decide) (by decide) hf (by rw [List.length_map]; exact hel)
      (ecdh_full_ok 1 (by decide) ecdh he) (keysOK_of hol ho hc.1)
  | simple fee po ecdh outPk rs mgs =>
    obtain ⟨hf, hpl, hp, hel, he, hol, ho, _⟩ := h
    exact ⟨(by decide : (2:Nat) ≤ 6), fun h => absurd h (by decide : ¬ (2:Nat) = 0), fun _ => ⟨hf, keysOK_of hpl hp hc.1,
      by show (ecdh.map ecdhFull).length = n; rw [List.length_map]; exact hel,
      ecdh_full_ok 2 (by decide) ecdh he, keysOK_of hol ho hc.2.1⟩⟩
  | bulletproof fee ecdh outPk bps mgs po =>
    obtain ⟨hf, hel, he, hol, ho, _⟩ := h
    exact wfBase_plain k n 3 fee _ outPk (by decide) (by decide) (by decide) hf (by rw [List.length_map]; exact hel)
      (ecdh_full_ok 3 (by decide) ecdh he) (keysOK_of hol ho hc.1)
  | bulletproof2 fee ecdh outPk bps mgs po =>
    obtain ⟨hf, hel, he, hol, ho, _⟩ := h
    exact wfBase_plain k n 4 fee _ outPk (by decide) (by decide) (by decide) hf (by rw [List.length_map]; exact hel)
      (ecdh_bp_ok 4 (by decide) ecdh he) (keysOK_of hol ho hc.1)
  | clsag fee ecdh outPk bps cls po =>
    obtain ⟨hf, hel, he, hol, ho, _⟩ := h
    exact wfBase_plain k n 5 fee _ outPk (by decide) (by decide) (by decide) hf (by rw [List.length_map]; exact hel)
      (ecdh_bp_ok 5 (by decide) ecdh he) (keysOK_of hol ho hc.1)
  | bpplus fee ecdh outPk bpps cls po =>
    obtain ⟨hf, hel, he, hol, ho, _⟩ := h
    exact wfBase_plain k n 6 fee _ outPk (by decide) (by decide) (by decide) hf (by rw [List.length_map]; exact hel)
      (ecdh_bp_ok 6 (by decide) ecdh he) (keysOK_of hol ho hc.1)

theorem prun_none_build (r : Spec.RctD) (h : (buildBase r).ty = 0) : buildPrunable r = none := by
  cases r <;> first | rfl | exact absurd h (Nat.succ_ne_zero _)

/-! ## RingCT prunable part: records -/
theorem wfBP_build (p : Spec.BpD) (h : Spec.WFBp p) (hc : CapBp p) : wfBP (buildBp p) := by
  obtain ⟨h1, h2, h3, h4, h5, h6, hL, hR, ha, hb, ht⟩ := h
  unfold Spec.is32 at h1 h2 h3 h4 h5 h6 ha hb ht
  refine ⟨?_, keyVecOK_of p.L hL hc.1, keyVecOK_of p.R hR hc.2, ?_⟩
  · simp only [buildBp, List.length_append, h1, h2, h3, h4, h5, h6]
  · simp only [buildBp, List.length_append, ha, hb, ht]

theorem wfBPP_build (p : Spec.BppD) (h : Spec.WFBpp p) (hc : CapBpp p) : wfBPP (buildBpp p) := by
  obtain ⟨h1, h2, h3, h4, h5, h6, hL, hR⟩ := h
  unfold Spec.is32 at h1 h2 h3 h4 h5 h6
  refine ⟨?_, keyVecOK_of p.L hL hc.1, keyVecOK_of p.R hR hc.2⟩
  simp only [buildBpp, List.length_append, h1, h2, h3, h4, h5, h6]

/-- a well-shaped Borromean range signature has 64·32 + 64·32 + 32 + 64·32 = 6176 bytes -/
theorem rangeSig_len (r : Spec.RangeSigD) (h : Spec.WFRangeSig r) : (buildRangeSig r).length = 6176 := by
  obtain ⟨l0, l1, lc, a0, a1, ac, he⟩ := h
  unfold Spec.is32 at he
  simp only [buildRangeSig, Spec.cat, List.length_append, flatten_len32 _ a0, flatten_len32 _ a1, flatten_len32 _ ac,
    l0, l1, lc, he]

theorem wfMG_build (cols m : Nat) (g : Spec.MgD) (h : Spec.WFMg (m + 1) cols g) (hc : capN cols sizes.key) :
    wfMG cols m (buildMg g) :=
  ⟨h.1, fun row hr => ⟨(h.2.1 row hr).1, (h.2.1 row hr).2, hc⟩, h.2.2⟩

theorem wfClsag_build (m : Nat) (c : Spec.ClsagD) (h : Spec.WFClsag (m + 1) c) : wfClsag m (buildClsag c) :=
  ⟨h.1, h.2.1, h.2.2.1, h.2.2.2⟩

/-! ## RingCT prunable part: the three sections -/
theorem proofs_rs (ty n : Nat) (h45 : ¬ (ty = 4 ∨ ty = 5)) (h3 : ¬ ty = 3) (h6 : ¬ ty = 6) (rs : List Spec.RangeSigD)
    (hl : rs.length = n) (hw : ∀ r ∈ rs, Spec.WFRangeSig r) (hc : capN n sizes.rangesig) :
    wfProofs ty n (rs.map buildRangeSig) [] [] := by
  rw [wfProofs, if_neg h45, if_neg h3, if_neg h6]
  exact ⟨rfl, rfl, by rw [List.length_map]; exact hl, forall_mem_map hw rangeSig_len, hc⟩

theorem bps_ok (bps : List Spec.BpD) (hw : ∀ p ∈ bps, Spec.WFBp p) (hc : ∀ p ∈ bps, CapBp p) :
    ∀ x ∈ bps.map buildBp, wfBP x := by
  intro x hx
  obtain ⟨p, hp, rfl⟩ := List.mem_map.1 hx
  exact wfBP_build p (hw p hp) (hc p hp)

theorem proofs_bp3 (n : Nat) (bps : List Spec.BpD) (hw : ∀ p ∈ bps, Spec.WFBp p) (hc : ∀ p ∈ bps, CapBp p)
    (hn : capN bps.length sizes.bp) (h32 : bps.length < 2^32) : wfProofs 3 n [] (bps.map buildBp) [] := by
  rw [wfProofs, if_neg (by decide), if_pos rfl, List.length_map]
  exact ⟨rfl, rfl, bps_ok bps hw hc, hn, h32⟩

theorem proofs_bp45 (ty n : Nat) (h45 : ty = 4 ∨ ty = 5) (bps : List Spec.BpD) (hw : ∀ p ∈ bps, Spec.WFBp p)
    (hc : ∀ p ∈ bps, CapBp p) (hn : capN bps.length sizes.bp) : wfProofs ty n [] (bps.map buildBp) [] := by
  rw [wfProofs, if_pos h45]
  exact ⟨rfl, rfl, vecOK_of_cap sizes_pos.2.2.2.2.1 (bps_ok bps hw hc) (by rw [List.length_map]; exact hn)⟩

theorem proofs_bpp6 (n : Nat) (bpps : List Spec.BppD) (hw : ∀ p ∈ bpps, Spec.WFBpp p) (hc : ∀ p ∈ bpps, CapBpp p)
    (hn : capN bpps.length sizes.bpp) (h8 : bpps.length < 256) : wfProofs 6 n [] [] (bpps.map buildBpp) := by
  rw [wfProofs, if_neg (by decide), if_neg (by decide), if_pos rfl, List.length_map]
  refine ⟨rfl, rfl, ?_, hn, h8⟩
  intro x hx
  obtain ⟨p, hp, rfl⟩ := List.mem_map.1 hx
  exact wfBPP_build p (hw p hp) (hc p hp)

/-- one two-column MLSAG per input (Simple, Bulletproof, Bulletproof2) -/
theorem sigs_mgs (ty k m : Nat) (h56 : ¬ (ty = 5 ∨ ty = 6)) (hs : ty = 2 ∨ ty = 3 ∨ ty = 4) (mgs : List Spec.MgD)
    (hl : mgs.length = k) (hw : ∀ g ∈ mgs, Spec.WFMg (m + 1) 2 g) (hc : capN 2 sizes.key) :
    wfSigs ty k m (mgs.map buildMg) [] := by
  rw [wfSigs, if_neg h56, if_pos hs, if_pos hs]
  exact ⟨rfl, by rw [List.length_map]; exact hl, forall_mem_map hw fun g hg => wfMG_build 2 m g hg hc⟩

/-- a single MLSAG with inputs+1 columns (Full) -/
theorem sigs_full (k m : Nat) (mg : Spec.MgD) (hw : Spec.WFMg (m + 1) (k + 1) mg) (hc : capN (k + 1) sizes.key) :
    wfSigs 1 k m [buildMg mg] [] := by
  rw [wfSigs, if_neg (by decide), if_neg (by decide), if_neg (by decide), Nat.add_comm 1 k]
  refine ⟨rfl, rfl, ?_⟩
  intro g hg
  rw [List.mem_singleton.1 hg]
  exact wfMG_build (k + 1) m mg hw hc

theorem sigs_clsag (ty k m : Nat) (h56 : ty = 5 ∨ ty = 6) (cls : List Spec.ClsagD) (hl : cls.length = k)
    (hw : ∀ c ∈ cls, Spec.WFClsag (m + 1) c) : wfSigs ty k m [] (cls.map buildClsag) := by
  rw [wfSigs, if_pos h56]
  exact ⟨rfl, by rw [List.length_map]; exact hl, forall_mem_map hw (wfClsag_build m)⟩

theorem pseudo_lo (ty k : Nat) (h : ¬ ty ≥ 3) : wfPseudo ty k [] := by
  rw [wfPseudo, if_neg h]
theorem pseudo_hi (ty k : Nat) (h : ty ≥ 3) (po : List Bytes) (hl : po.length = k) (hw : Spec.all32 po)
    (hc : capN k sizes.key) : wfPseudo ty k po := by
  rw [wfPseudo, if_pos h]; exact keysOK_of hl hw hc

/-- the prunable part, for a first-input ring size of `m + 1` -/
theorem wfPrunable_build (k n m : Nat) (r : Spec.RctD) (h : Spec.WFRct k n (m + 1) r) (hc : CapRct k n r)
    (hty : (buildBase r).ty ≠ 0) :
    ∃ p, buildPrunable r = some p ∧ wfPrunable (buildBase r).ty k n m p := by
  cases r with
  | null => exact absurd rfl hty
  | full fee ecdh outPk rs mg =>
    obtain ⟨_, _, _, _, _, hrl, hr, hmg⟩ := h
    obtain ⟨_, c2, c3⟩ := hc
    exact ⟨_, rfl, proofs_rs 1 n (by decide) (by decide) (by decide) rs hrl hr c2, sigs_full k m mg hmg c3,
      pseudo_lo 1 k (by decide)⟩
  | simple fee po ecdh outPk rs mgs =>
    obtain ⟨_, _, _, _, _, _, _, hrl, hr, hml, hm⟩ := h
    obtain ⟨_, _, c3, c4⟩ := hc
    exact ⟨_, rfl, proofs_rs 2 n (by decide) (by decide) (by decide) rs hrl hr c3,
      sigs_mgs 2 k m (by decide) (by decide) mgs hml hm c4, pseudo_lo 2 k (by decide)⟩
  | bulletproof fee ecdh outPk bps mgs po =>
    obtain ⟨_, _, _, _, _, hb, hb32, hml, hm, hpl, hp⟩ := h
    obtain ⟨_, c2, c3, c4, c5⟩ := hc
    exact ⟨_, rfl, proofs_bp3 n bps hb c3 c2 hb32, sigs_mgs 3 k m (by decide) (by decide) mgs hml hm c4,
      pseudo_hi 3 k (by decide) po hpl hp c5⟩
  | bulletproof2 fee ecdh outPk bps mgs po =>
    obtain ⟨_, _, _, _, _, hb, hml, hm, hpl, hp⟩ := h
    obtain ⟨_, c2, c3, c4, c5⟩ := hc
    exact ⟨_, rfl, proofs_bp45 4 n (by decide) bps hb c3 c2, sigs_mgs 4 k m (by decide) (by decide) mgs hml hm c4,
      pseudo_hi 4 k (by decide) po hpl hp c5⟩
  | clsag fee ecdh outPk bps cls po =>
    obtain ⟨_, _, _, _, _, hb, hcl, hcw, hpl, hp⟩ := h
    obtain ⟨_, c2, c3, c5⟩ := hc
    exact ⟨_, rfl, proofs_bp45 5 n (by decide) bps hb c3 c2, sigs_clsag 5 k m (by decide) cls hcl hcw,
      pseudo_hi 5 k (by decide) po hpl hp c5⟩
  | bpplus fee ecdh outPk bpps cls po =>
    obtain ⟨_, _, _, _, _, hb, hcl, hcw, hpl, hp⟩ := h
    obtain ⟨_, c2, c8, c3, c5⟩ := hc
    exact ⟨_, rfl, proofs_bpp6 n bpps hb c3 c2 c8, sigs_clsag 6 k m (by decide) cls hcl hcw,
      pseudo_hi 6 k (by decide) po hpl hp c5⟩

/-! ## the whole transaction -/
theorem ringSize_ne_zero (ins : List Spec.InD) (r : Spec.RctD)
    (h : match r with | .null => True | _ => Spec.ringSize ins ≠ 0) (hty : (buildBase r).ty ≠ 0) :
    Spec.ringSize ins ≠ 0 := by
  cases r with
  | null => exact absurd rfl hty
  | _ => exact h

/-- a well-shaped description within the allocation caps denotes a well-formed value -/
theorem wf_build (d : Spec.TxD) (h : Spec.WFTxD d) (hc : CapD d) : wfTx (build d) := by
  have hp := wfPrefix_build d h hc
  obtain ⟨unlock, ins, outs, extra, body⟩ := d
  obtain ⟨_, _, _, hbody⟩ := h
  obtain ⟨_, _, _, _, cbody⟩ := hc
  cases body with
  | v1 sigs =>
    refine ⟨hp, fun _ => ⟨?_, rfl, rfl⟩, fun hv => absurd rfl hv⟩
    show wfSigsV1 (ringsOf (ins.map buildIn)) (sigs.map fun row => row.map sigBytes)
    rw [ringsOf_build]
    exact wfSigsV1_build _ sigs hbody
  | v2 r =>
    cases r with
    | none =>
      have hins : ins = [] := hbody
      subst hins
      exact ⟨hp, fun hv => absurd hv (by decide : ¬ (2:Nat) = 1), fun _ => ⟨rfl, fun _ => ⟨rfl, rfl⟩, fun hne => absurd rfl hne⟩⟩
    | some r =>
      obtain ⟨hne, hr, hring⟩ := hbody
      have crct : CapRct ins.length outs.length r := cbody
      refine ⟨hp, fun hv => absurd hv (by decide : ¬ (2:Nat) = 1), fun _ => ⟨rfl, fun he => ?_, fun _ => ?_⟩⟩
      · exact absurd (List.map_eq_nil_iff.1 he) hne
      · refine ⟨buildBase r, rfl, ?_, prun_none_build r, fun hty => ?_⟩
        · show wfBase (ins.map buildIn).length (outs.map buildOut).length (buildBase r)
          rw [List.length_map, List.length_map]
          exact wfBase_build _ _ _ r hr crct
        · obtain ⟨hre, hm⟩ := ring_build ins (ringSize_ne_zero ins r hring hty)
          refine ⟨hre, ?_⟩
          show ∃ p, buildPrunable r = some p ∧
            wfPrunable (buildBase r).ty (ins.map buildIn).length (outs.map buildOut).length (mixinOf (ins.map buildIn)) p
          rw [List.length_map, List.length_map]
          rw [hm] at hr
          exact wfPrunable_build _ _ _ r hr crct hty

/-! ## blocks -/
/-- the decoder's allocation-cap conditions of a block description: those of the miner transaction, and the vector of transaction hashes -/
def CapBlockD (b : Spec.BlockD) : Prop := CapD b.miner ∧ capN b.txHashes.length sizes.key
theorem wf_buildBlock (b : Spec.BlockD) (h : Spec.WFBlockD b) (hc : CapBlockD b) : wfBlock (buildBlock b) :=
  ⟨h.1, wf_build b.miner h.2.1 hc.1, keyVecOK_of b.txHashes h.2.2 hc.2⟩
