import MoneroModel.Model.Tx
import MoneroModel.Proofs.VarIntSound
open Monero

/-- soundness of a decoder w.r.t. an encoder: whatever is accepted re-serialises to what was consumed -/
def Sound {α} (enc : α → Bytes) (dec : Dec α) : Prop :=
  ∀ b x r, dec b = some (x, r) → b = enc x ++ r

theorem sound_u8 : Sound (fun b => [b]) u8 := by
  intro b x r h; cases b with
  | nil => simp [u8] at h
  | cons a t => simp [u8] at h; obtain ⟨rfl, rfl⟩ := h; rfl

theorem sound_takeN (n : Nat) : Sound id (takeN n) := by
  intro b x r h
  unfold takeN at h
  split at h
  · simp at h
  · simp at h; obtain ⟨rfl, rfl⟩ := h; simp

/-- generic step: peel one `bind` -/
theorem bind_some {α β} {d : Dec α} {f : α → Dec β} {b : Bytes} {y : β} {r : Bytes}
    (h : bind d f b = some (y, r)) : ∃ x r1, d b = some (x, r1) ∧ f x r1 = some (y, r) := by
  unfold Monero.bind at h
  split at h
  · simp at h
  · rename_i x r1 hd; exact ⟨x, r1, hd, h⟩

theorem pure_some {α} {x y : α} {b r : Bytes} (h : pure' x b = some (y, r)) : x = y ∧ b = r := by
  simpa [pure'] using h

theorem sound_rep {α} (e : α → Bytes) (d : Dec α) (hs : Sound e d) :
    ∀ n, Sound (encSized e) (rep d n) := by
  intro n; induction n with
  | zero => intro b x r h; obtain ⟨rfl, rfl⟩ := pure_some h; simp [encSized]
  | succ n ih =>
    intro b x r h
    simp only [rep] at h
    obtain ⟨y, r1, h1, h2⟩ := bind_some h
    obtain ⟨ys, r2, h3, h4⟩ := bind_some h2
    obtain ⟨rfl, rfl⟩ := pure_some h4
    have a := hs _ _ _ h1; have c := ih _ _ _ h3
    subst a; subst c; simp [encSized]

theorem rep_length {α} (d : Dec α) : ∀ n b xs r, rep d n b = some (xs, r) → xs.length = n := by
  intro n; induction n with
  | zero => intro b xs r h; obtain ⟨rfl, _⟩ := pure_some h; rfl
  | succ n ih =>
    intro b xs r h
    simp only [rep] at h
    obtain ⟨y, r1, _, h2⟩ := bind_some h
    obtain ⟨ys, r2, h3, h4⟩ := bind_some h2
    obtain ⟨rfl, _⟩ := pure_some h4
    simp [ih _ _ _ h3]

theorem sound_varint' : Sound encVarint varint := fun b x r h => sound_varint b x r h

theorem sound_sized {α} (sz : Nat) (e : α → Bytes) (d : Dec α) (hs : Sound e d) (n : Nat) :
    Sound (encSized e) (sizedVec sz d n) := by
  intro b x r h; unfold sizedVec at h
  split at h
  · simp [fail] at h
  · exact sound_rep e d hs n b x r h

theorem sound_vec {α} (sz : Nat) (e : α → Bytes) (d : Dec α) (hs : Sound e d) :
    Sound (encVec e) (vec sz d) := by
  intro b x r h
  unfold vec at h
  obtain ⟨n, r1, h1, h2⟩ := bind_some h
  have hl : x.length = n := by
    unfold sizedVec at h2; split at h2
    · simp [fail] at h2
    · exact rep_length d n _ _ _ h2
  have a := sound_varint' _ _ _ h1
  have c := sound_sized sz e d hs n _ _ _ h2
  subst a; subst c
  simp [encVec, encSized, hl]

theorem sound_key : Sound id key := sound_takeN 32

theorem sound_txin : Sound encTxIn txin := by
  intro b x r h
  unfold txin at h
  obtain ⟨t, r1, h1, h2⟩ := bind_some h
  have a := sound_u8 _ _ _ h1; simp only at a; subst a
  split at h2
  · rename_i ht
    obtain ⟨hh, r2, h3, h4⟩ := bind_some h2
    obtain ⟨rfl, rfl⟩ := pure_some h4
    have c := sound_varint' _ _ _ h3; subst c
    simp [encTxIn, ht]
  · split at h2
    · rename_i _ ht
      obtain ⟨a, r2, h3, h4⟩ := bind_some h2
      obtain ⟨o, r3, h5, h6⟩ := bind_some h4
      obtain ⟨k, r4, h7, h8⟩ := bind_some h6
      obtain ⟨rfl, rfl⟩ := pure_some h8
      have c1 := sound_varint' _ _ _ h3
      have c2 := sound_vec sizes.varint encVarint varint sound_varint' _ _ _ h5
      have c3 := sound_key _ _ _ h7
      subst c1; subst c2; subst c3
      simp [encTxIn, ht]
    · simp [fail] at h2

theorem sound_target : Sound encTarget target := by
  intro b x r h
  unfold target at h
  obtain ⟨t, r1, h1, h2⟩ := bind_some h
  have a := sound_u8 _ _ _ h1; simp only at a; subst a
  split at h2
  · rename_i ht
    obtain ⟨k, r2, h3, h4⟩ := bind_some h2
    obtain ⟨rfl, rfl⟩ := pure_some h4
    have c := sound_key _ _ _ h3; subst c
    simp [encTarget, ht]
  · split at h2
    · rename_i _ ht
      obtain ⟨k, r2, h3, h4⟩ := bind_some h2
      obtain ⟨v, r3, h5, h6⟩ := bind_some h4
      obtain ⟨rfl, rfl⟩ := pure_some h6
      have c := sound_key _ _ _ h3; have c' := sound_u8 _ _ _ h5
      subst c; simp only at c'; subst c'
      simp [encTarget, ht]
    · simp [fail] at h2

theorem sound_txout : Sound encTxOut txout := by
  intro b x r h
  unfold txout at h
  obtain ⟨a, r1, h1, h2⟩ := bind_some h
  obtain ⟨t, r2, h3, h4⟩ := bind_some h2
  obtain ⟨rfl, rfl⟩ := pure_some h4
  have c1 := sound_varint' _ _ _ h1; have c2 := sound_target _ _ _ h3
  subst c1; subst c2; simp [encTxOut]

theorem sound_prefix : Sound encPrefix prefix' := by
  intro b x r h
  unfold prefix' at h
  obtain ⟨v, r1, h1, h2⟩ := bind_some h
  obtain ⟨u, r2, h3, h4⟩ := bind_some h2
  obtain ⟨i, r3, h5, h6⟩ := bind_some h4
  obtain ⟨o, r4, h7, h8⟩ := bind_some h6
  obtain ⟨e, r5, h9, h10⟩ := bind_some h8
  obtain ⟨rfl, rfl⟩ := pure_some h10
  have c1 := sound_varint' _ _ _ h1
  have c2 := sound_varint' _ _ _ h3
  have c3 := sound_vec sizes.txin encTxIn txin sound_txin _ _ _ h5
  have c4 := sound_vec sizes.txout encTxOut txout sound_txout _ _ _ h7
  have c5 := sound_vec sizes.u8 (fun b => [b]) u8 sound_u8 _ _ _ h9
  subst c1; subst c2; subst c3; subst c4; subst c5
  simp [encPrefix]


theorem flatten_singletons' (l : Bytes) : (l.map fun b => [b]).flatten = l := by
  induction l with
  | nil => rfl
  | cons a t ih => simp [ih]
