import MoneroModel.Proofs.ScanMatch
import MoneroModel.Proofs.ScanGo
/-! The scan entry points in terms of the keys found in the extra field. -/
namespace Monero.Scan
open Monero.Extra
variable {P : Type}

/-- the transaction public key the scan uses: the first `TxPublicKey` sub-field of the parsed extra -/
def mainKey (ops : CryptoOps P) (p : Prefix) : Option Bytes := txPubkey (rawTryParse (validKey ops) p.extra)
/-- the additional public keys the scan uses: the first `AdditionalPublickKey` sub-field, else none -/
def addKeys (ops : CryptoOps P) (p : Prefix) : List Bytes :=
  (txAdditionalPubkeys (rawTryParse (validKey ops) p.extra)).getD []

theorem checkOutputsWith_eq (ops : CryptoOps P) (decP : Bytes → Option P) (p : Prefix) (ck : Checker P) (base : Option Base) :
    checkOutputsWith ops decP p ck base =
      match mainKey ops p with
      | none => .error .noTxPublicKey
      | some R => go ops decP ck base R p.outs 0 (addKeys ops p) := by
  unfold checkOutputsWith mainKey addKeys
  simp only
  cases h1 : txPubkey (rawTryParse (validKey ops) p.extra) with
  | none => rfl
  | some R =>
    simp only
    cases h2 : txAdditionalPubkeys (rawTryParse (validKey ops) p.extra) <;> rfl

theorem prefix_ok (ops : CryptoOps P) (decP : Bytes → Option P) (p : Prefix) (v : Nat) (S : P) (a b c d : Nat)
    (base : Option Base) (ws : List Owned) (h : checkOutputsPrefix ops decP p v S a b c d base = .ok ws) :
    ∃ Rm, mainKey ops p = some Rm ∧
      go ops decP (Checker.new ops v S a b c d) base Rm p.outs 0 (addKeys ops p) = .ok ws := by
  unfold checkOutputsPrefix at h
  rw [checkOutputsWith_eq] at h
  cases hm : mainKey ops p with
  | none => rw [hm] at h; cases h
  | some R => rw [hm] at h; exact ⟨R, rfl, h⟩

theorem prefix_error (ops : CryptoOps P) (decP : Bytes → Option P) (p : Prefix) (v : Nat) (S : P) (a b c d : Nat)
    (base : Option Base) (e : ScanErr) (h : checkOutputsPrefix ops decP p v S a b c d base = .error e) :
    (mainKey ops p = none ∧ e = .noTxPublicKey) ∨
    ∃ Rm, mainKey ops p = some Rm ∧
      go ops decP (Checker.new ops v S a b c d) base Rm p.outs 0 (addKeys ops p) = .error e := by
  unfold checkOutputsPrefix at h
  rw [checkOutputsWith_eq] at h
  cases hm : mainKey ops p with
  | none => rw [hm] at h; simp only [Except.error.injEq] at h; exact Or.inl ⟨rfl, h.symm⟩
  | some R => rw [hm] at h; exact Or.inr ⟨R, rfl, h⟩
end Monero.Scan
