import MoneroModel.Proofs.ScanMatch
import MoneroModel.Proofs.ScanGo
/-! The scan entry points in terms of the keys found in the extra field. -/
namespace Monero.Scan
open Monero.Extra
variable {P : Type}

/-- the transaction public key the scan uses: the first `TxPublicKey` sub-field of the parsed extra -/
def mainKey (ops : CryptoOps P) (p : Prefix) : Option Bytes := txPubkey (rawTryParse (validKey ops) p.extra)
/-- the additional public keys the scan uses: the first `AdditionalPublickKey` sub-field, else none -/
def addKeys (ops : CryptoOps P) (p : Prefix) : List Bytes :=
  (txAdditionalPubkeys (rawTryParse (validKey ops) p.extra)).getD []

theorem checkOutputsWith_eq (ops : CryptoOps P) (decP : Bytes → Option P) (p : Prefix) (ck : Checker P) (base : Option Base) :
    checkOutputsWith ops decP p ck base =
      match mainKey ops p with
      | none => .error .noTxPublicKey
      | some R => go ops decP ck base R p.outs 0 (addKeys ops p) := by
  unfold checkOutputsWith mainKey addKeys
  simp only
  cases h1 : txPubkey (rawTryParse (validKey ops) p.extra) with
  | none => rfl
  | some R =>
    simp only
    cases h2 : txAdditionalPubkeys (rawTryParse (validKey ops) p.extra) <;> rfl

theorem prefix_ok (ops : CryptoOps P) (decP : Bytes → Option P) (p : Prefix) (v : Nat) (S : P) (a b c d : Nat)
    (base : Option Base) (ws : List Owned) (h : checkOutputsPrefix ops decP p v S a b c d base = .ok ws) :
    ∃ Rm, mainKey ops p = some Rm ∧
      go ops decP (Checker.new ops v S a b c d) base Rm p.outs 0 (addKeys ops p) = .ok ws := by
  unfold checkOutputsPrefix at h
  rw [checkOutputsWith_eq] at h
  cases hm : mainKey ops p with
  | none => rw [hm] at h; cases h
  | some R => rw [hm] at h; exact ⟨R, rfl, h⟩

theorem prefix_error (ops : CryptoOps P) (decP : Bytes → Option P) (p : Prefix) (v : Nat) (S : P) (a b c d : Nat)
    (base : Option Base) (e : ScanErr) (h : checkOutputsPrefix ops decP p v S a b c d base = .error e) :
    (mainKey ops p = none ∧ e = .noTxPublicKey) ∨
    ∃ Rm, mainKey ops p = some Rm ∧
      go ops decP (Checker.new ops v S a b c d) base Rm p.outs 0 (addKeys ops p) = .error e := by
  unfold checkOutputsPrefix at h
  rw [checkOutputsWith_eq] at h
  cases hm : mainKey ops p with
  | none => rw [hm] at h; simp only [Except.error.injEq] at h; exact Or.inl ⟨rfl, h.symm⟩
  | some R => rw [hm] at h; exact Or.inr ⟨R, rfl, h⟩
end Monero.Scan

namespace Monero.Scan
variable {P : Type}
/-! ### the position enters through its varint only -/

/-- `Hs(enc D ‖ pos)` for an already encoded position -/
def scalarAt (ops : CryptoOps P) (D : P) (pos : Bytes) : Nat := hsOf ops (ops.enc D ++ pos)
/-- first byte of `Keccak("view_tag" ‖ enc D ‖ pos)` for an already encoded position -/
def tagAt (ops : CryptoOps P) (D : P) (pos : Bytes) : UInt8 := (ops.keccak (Gen.viewTagSalt ++ ops.enc D ++ pos)).headD 0

/-- `check_key` written over the ENCODED position: this function never sees the number `i` -/
def checkKeyAt (ops : CryptoOps P) (ck : Checker P) (out : TxOut) (pos : Bytes) (K : Bytes) : Option (Nat × Nat) :=
  match asOneTimeKey ops out.target with
  | none => none
  | some key =>
    match ops.dec K with
    | none => none
    | some R =>
      let D := derive ops ck.v R
      if !(match out.target with | .tagged _ tag => tag == tagAt ops D pos | .key _ => true) then none else
      tblGet ck.table (ops.enc (ops.sub key (pubOf ops (scalarAt ops D pos))))

theorem checkKey_eq_at (ops : CryptoOps P) (ck : Checker P) (out : TxOut) (i : Nat) (K : Bytes) :
    checkKey ops ck out i K = (checkKeyAt ops ck out (encVarint i) K).map fun idx => (i, idx, K) := by
  unfold checkKey checkKeyAt
  cases asOneTimeKey ops out.target with
  | none => rfl
  | some key =>
    simp only
    cases ops.dec K with
    | none => rfl
    | some R =>
      simp only
      have ht : checkViewTag ops out.target (derive ops ck.v R) i =
          (match out.target with | .tagged _ tag => tag == tagAt ops (derive ops ck.v R) (encVarint i) | .key _ => true) := by
        unfold checkViewTag; cases out.target <;> rfl
      rw [ht]
      generalize (match out.target with | .tagged _ tag => tag == tagAt ops (derive ops ck.v R) (encVarint i) | .key _ => true) = bb
      cases bb with
      | false => rfl
      | true =>
        simp only [Bool.not_true, Bool.false_eq_true, if_false]
        unfold Checker.checkWithKeyGenerator tblGet
        show _ = Option.map _ (List.lookup (ops.enc (ops.sub key (pubOf ops (rvnScalar ops (derive ops ck.v R) i)))) ck.table)
        cases List.lookup (ops.enc (ops.sub key (pubOf ops (rvnScalar ops (derive ops ck.v R) i)))) ck.table <;> rfl
end Monero.Scan
