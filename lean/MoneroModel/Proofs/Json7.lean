import MoneroModel.Proofs.ExtraLen
import MoneroModel.Proofs.VarIntComplete
import MoneroModel.Proofs.Json6
/-! Every sub-field the consensus parser of the extra field returns (`SubField::consensus_decode`, `ExtraField::try_parse`,
`RawExtraField::try_parse` of `Model/Extra.lean`, C16) is a value of the Rust type `SubField` in the sense of
`Monero.Json.wfSubField`; so what `try_parse` returns round-trips through its JSON tree. Core Lean only. -/
open Monero Monero.Extra
namespace Monero.Json

theorem padLoop_bound : ∀ (fuel i : Nat) (b : Bytes) (sf : SubField) (r : Bytes), padLoop fuel i b = (some sf, r) →
    ∃ n, sf = .padding n ∧ n ≤ i + fuel
  | 0, i, b, sf, r, h => by
    rw [padLoop_zero] at h; cases h; exact ⟨i, rfl, Nat.le_refl _⟩
  | fuel+1, i, [], sf, r, h => by
    rw [padLoop_nil] at h; cases h; exact ⟨i, rfl, by omega⟩
  | fuel+1, i, x :: xs, sf, r, h => by
    rw [padLoop_cons] at h
    by_cases hx : x ≠ 0
    · rw [if_pos hx] at h; cases h
    · rw [if_neg hx] at h
      obtain ⟨n, hs, hn⟩ := padLoop_bound fuel (i+1) xs sf r h
      exact ⟨n, hs, by omega⟩

theorem keysLoop_all (vk : Bytes → Bool) : ∀ (n : Nat) (acc : List Bytes) (b : Bytes) (ks : List Bytes) (r : Bytes),
    keysLoop vk n acc b = (some ks, r) → (∀ k ∈ acc, k.length = 32) → ∀ k ∈ ks, k.length = 32
  | 0, acc, b, ks, r, h, ha => by
    unfold keysLoop at h
    obtain ⟨rfl, _⟩ := rpure_inv h
    intro k hk; exact ha k (List.mem_reverse.mp hk)
  | n+1, acc, b, ks, r, h, ha => by
    unfold keysLoop at h
    cases hk : keyRd vk b with
    | mk o r' =>
      rw [hk] at h
      cases o with
      | none => cases h
      | some k =>
        have h1 := keyRd_len hk
        refine keysLoop_all vk n (k :: acc) r' ks r h ?_
        intro x hx
        rcases List.mem_cons.mp hx with rfl | hx
        · exact h1.1
        · exact ha x hx

theorem keysRd_all {vk : Bytes → Bool} {b r : Bytes} {ks : List Bytes} (h : keysRd vk b = (some ks, r)) :
    ∀ k ∈ ks, k.length = 32 := by
  unfold keysRd at h
  obtain ⟨n, r', _, h2⟩ := rbind_inv h
  by_cases hc : n * sizes.key > CAP
  · rw [if_pos hc] at h2; cases h2
  · rw [if_neg hc] at h2
    exact keysLoop_all vk n [] r' ks r h2 (fun _ hk => by cases hk)

/-- whatever `SubField::consensus_decode` returns is a value of the Rust type -/
theorem subFieldRd_wf (vk : Bytes → Bool) (b : Bytes) (sf : SubField) (r : Bytes)
    (h : subFieldRd vk b = (some sf, r)) : wfSubField sf := by
  cases b with
  | nil => rw [subFieldRd_nil] at h; cases h
  | cons tag xs =>
    rw [subFieldRd_cons] at h
    unfold afterTag at h
    split at h
    · obtain ⟨n, rfl, hn⟩ := padLoop_bound 255 0 xs sf r h
      show n < 256
      omega
    split at h
    · obtain ⟨k, r', h1, h2⟩ := rbind_inv h
      obtain ⟨rfl, rfl⟩ := rpure_inv h2
      exact (keyRd_len h1).1
    split at h
    · obtain ⟨n, r', _, h2⟩ := rbind_inv h
      obtain ⟨rfl, rfl⟩ := rpure_inv h2
      trivial
    split at h
    · obtain ⟨_, r1, _, h2⟩ := rbind_inv h
      obtain ⟨d, r2, h3, h4⟩ := rbind_inv h2
      obtain ⟨hh, r3, h5, h6⟩ := rbind_inv h4
      obtain ⟨rfl, rfl⟩ := rpure_inv h6
      exact ⟨varint_lt _ _ _ (varint_of_varintRd_some h3), (takeRd_len h5).1⟩
    split at h
    · obtain ⟨ks, r', h1, h2⟩ := rbind_inv h
      obtain ⟨rfl, rfl⟩ := rpure_inv h2
      exact keysRd_all h1
    split at h
    · obtain ⟨n, r', _, h2⟩ := rbind_inv h
      obtain ⟨rfl, rfl⟩ := rpure_inv h2
      trivial
    · cases h

theorem loop_wf (vk : Bytes → Bool) : ∀ (fuel : Nat) (b : Bytes) (acc : List SubField) (err : Bool) (npre : Nat)
    (p : Parsed), loop vk fuel b acc err npre = some p → (∀ f ∈ acc, wfSubField f) → ∀ f ∈ p.fields, wfSubField f := by
  intro fuel
  induction fuel with
  | zero =>
    intro b acc err npre p h ha
    cases b with
    | nil => rw [loop_nil] at h; cases h; intro f hf; exact ha f (List.mem_reverse.mp hf)
    | cons x xs => rw [loop_zero_cons] at h; cases h
  | succ fuel ih =>
    intro b acc err npre p h ha
    cases b with
    | nil => rw [loop_nil] at h; cases h; intro f hf; exact ha f (List.mem_reverse.mp hf)
    | cons x xs =>
      rw [loop_succ_cons] at h
      cases h' : subFieldRd vk (x :: xs) with
      | mk o r =>
        rw [h'] at h
        cases o with
        | none => exact ih r acc true npre p h ha
        | some sf =>
          refine ih r (sf :: acc) err _ p h ?_
          intro f hf
          rcases List.mem_cons.mp hf with rfl | hf
          · exact subFieldRd_wf vk _ _ _ h'
          · exact ha f hf

/-- every sub-field `ExtraField::try_parse` returns (in `Ok` or in `Err`) is a value of the Rust type -/
theorem tryParse_wf (vk : Bytes → Bool) (e : Bytes) : ∀ f ∈ (tryParse vk e).fields, wfSubField f :=
  loop_wf vk e.length e [] false 0 _ (tryParse_eq_loop vk e e.length (Nat.le_refl _)) (fun _ hf => by cases hf)

end Monero.Json
